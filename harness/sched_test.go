//go:build verif

// C17 - timed scheduler: every task runs exactly once, never early, promptly.
// Dynamic support for the Coq development coq/sched: the REAL TimedSched (private instances,
// real time - no synctest: under a frozen fake clock a worker spins when the timer delivers
// exactly a deadline, DESIGN B7) under many submitting goroutines and every deadline pattern
// of the property text.  Monitors are written from the property text only.
package kcp

import (
	"fmt"
	"os"
	"runtime"
	"sort"
	"strings"
	"sync"
	"sync/atomic"
	"testing"
	"time"
)

type schedTask struct {
	id       int
	class    string
	deadline time.Time
	putAt    time.Time
	far      bool
	runs     atomic.Int32
	runAt    atomic.Int64 // unix nanos of the first run, for the log only
	early    atomic.Bool  // observed time.Now() before the deadline inside the task
	lateNs   atomic.Int64 // observed (time.Now() - max(deadline, putAt)) of the first run
}

type schedScenario struct {
	Kind     string `json:"kind"`
	Parallel int    `json:"parallel"`
	Round    int    `json:"round"`
	Gor      int    `json:"goroutines"`
	PerGor   int    `json:"tasks_per_goroutine"`
	Seed     uint64 `json:"seed"`
	Mode     string `json:"godebug"`
}

const (
	schedBaseSlack = 200 * time.Millisecond
	schedCtlFactor = 20
)

// schedProbeTimerSemantics: which timer-channel semantics is this process really running?
// A fired, unreceived timer: Stop reports true under the synchronous semantics (Go >= 1.23
// default) and false under GODEBUG=asynctimerchan=1.
func schedProbeTimerSemantics() string {
	tm := time.NewTimer(time.Millisecond)
	time.Sleep(30 * time.Millisecond)
	if tm.Stop() {
		return "sync"
	}
	return "async"
}

func (tk *schedTask) body() {
	now := time.Now()
	if tk.runs.Add(1) == 1 {
		tk.runAt.Store(now.UnixNano())
		if now.Before(tk.deadline) {
			tk.early.Store(true)
		}
		ref := tk.deadline
		if tk.putAt.After(ref) {
			ref = tk.putAt
		}
		tk.lateNs.Store(int64(now.Sub(ref)))
	}
}

// schedDeadlines builds the deadline of task (g, i) of a scenario; base is a common instant
// taken just before the goroutines are released.
func schedDeadline(kind string, rng *vrng, base time.Time, g, i, per int) (time.Time, string, bool) {
	switch kind {
	case "past":
		return base.Add(-time.Duration(rng.intn(50000)) * time.Microsecond), "past", false
	case "now":
		return time.Time{}, "now", false // filled with time.Now() at the Put
	case "equal":
		return base.Add(30 * time.Millisecond), "equal", false
	case "increasing":
		return base.Add(time.Duration(5+i) * time.Millisecond), "increasing", false
	case "decreasing":
		return base.Add(time.Duration(5+per-i) * time.Millisecond), "decreasing", false
	case "farfirst":
		if i < per/4 {
			if rng.chance(30) { // centuries ahead: beyond what an int64 of nanoseconds since 1970 can hold
				return time.Date(2300+rng.intn(500), time.Month(1+rng.intn(12)), 1+rng.intn(28), 0, 0, 0, 0, time.UTC), "far", true
			}
			return base.Add(time.Hour + time.Duration(rng.intn(1000))*time.Second), "far", true
		}
		return base.Add(time.Duration(10+rng.intn(30)) * time.Millisecond), "near-after-far", false
	default: // mixed
		switch rng.intn(6) {
		case 0:
			return base.Add(-time.Duration(rng.intn(20000)) * time.Microsecond), "past", false
		case 1:
			return time.Time{}, "now", false
		case 2:
			return base.Add(20 * time.Millisecond), "equal", false
		case 3:
			return base.Add(time.Hour), "far", true
		default:
			return base.Add(time.Duration(rng.intn(60000)) * time.Microsecond), "near", false
		}
	}
}

type schedOutcome struct {
	tasks      int
	ctlMax     time.Duration
	worstLate  time.Duration
	timerPath  int // tasks that ran >= 1ms after their Put (went through a heap and a timer)
	dropped    int
	ranOnClose int
}

// schedPlan yields the tasks of phase ph (nil: no more phases).  The single-burst kinds have one
// phase.  The staged kinds are multi-step deadline sequences: phase 0 queues near and far-future
// tasks together; every later phase starts only after all tasks that were due have RUN (plus a
// random pause, so the workers have finished their timer pass and re-armed for what is left) and
// submits tasks whose deadlines lie between "now" and the far deadlines still pending.
func schedPlan(sc schedScenario, rng *vrng, phases int) func(ph int, base time.Time) []*schedTask {
	staged := sc.Kind == "staged-hour" || sc.Kind == "staged-secs"
	farAt := func(base time.Time) time.Time {
		if sc.Kind == "staged-secs" {
			return base.Add(2*time.Second + time.Duration(rng.intn(4000))*time.Millisecond)
		}
		if rng.chance(25) {
			return time.Date(2300+rng.intn(500), time.Month(1+rng.intn(12)), 1+rng.intn(28), 0, 0, 0, 0, time.UTC)
		}
		return base.Add(time.Hour + time.Duration(rng.intn(1000))*time.Second)
	}
	return func(ph int, base time.Time) []*schedTask {
		var out []*schedTask
		if !staged {
			if ph > 0 {
				return nil
			}
			for g := 0; g < sc.Gor; g++ {
				for i := 0; i < sc.PerGor; i++ {
					dl, class, far := schedDeadline(sc.Kind, rng, base, g, i, sc.PerGor)
					out = append(out, &schedTask{class: class, deadline: dl, far: far})
				}
			}
			return out
		}
		if ph >= phases {
			return nil
		}
		if ph == 0 {
			for n := sc.Parallel * (1 + rng.intn(3)); n > 0; n-- {
				out = append(out, &schedTask{class: "near", deadline: base.Add(time.Duration(10+rng.intn(30)) * time.Millisecond)})
			}
			for n := sc.Parallel * (1 + rng.intn(3)); n > 0; n-- {
				out = append(out, &schedTask{class: "far", deadline: farAt(base), far: true})
			}
		} else {
			for n := sc.Parallel * (1 + rng.intn(4)); n > 0; n-- {
				out = append(out, &schedTask{class: "near-after-far", deadline: base.Add(time.Duration(5+rng.intn(55)) * time.Millisecond)})
			}
			for n := rng.intn(3); n > 0; n-- {
				out = append(out, &schedTask{class: "far", deadline: farAt(base), far: true})
			}
		}
		for k := len(out) - 1; k > 0; k-- { // arrival order: near-then-far, far-then-near, interleaved
			l := rng.intn(k + 1)
			out[k], out[l] = out[l], out[k]
		}
		return out
	}
}

func schedRunScenario(t *testing.T, sc schedScenario, rng *vrng, rep *vreport, lg *vlog) schedOutcome {
	ts := NewTimedSched(sc.Parallel)
	defer ts.Close()
	var out schedOutcome
	var tasks []*schedTask
	plan := schedPlan(sc, rng, 2+rng.intn(3))
	// control: the machine's own timer + goroutine wake-up latency during this scenario
	var ctlMax atomic.Int64
	ctlNote := func(l int64) {
		for {
			o := ctlMax.Load()
			if l <= o || ctlMax.CompareAndSwap(o, l) {
				return
			}
		}
	}
	// heartbeat: oversleep of 1 ms sleeps from now until the verdict (a stall of the process or of the
	// Go scheduler after the control timers have fired must widen the slack as well)
	var hbStop atomic.Bool
	hbDone := make(chan struct{})
	go func() {
		defer close(hbDone)
		for !hbStop.Load() {
			t0 := time.Now()
			time.Sleep(time.Millisecond)
			ctlNote(int64(time.Since(t0) - time.Millisecond))
		}
	}()
	limit := func() time.Duration {
		return schedBaseSlack + schedCtlFactor*time.Duration(ctlMax.Load())
	}
	due := func(tk *schedTask) time.Time {
		if tk.putAt.After(tk.deadline) {
			return tk.putAt
		}
		return tk.deadline
	}
	phasesRun := 0
	for ph := 0; ; ph++ {
		base := time.Now().Add(2 * time.Millisecond)
		batch := plan(ph, base)
		if batch == nil {
			break
		}
		phasesRun++
		for _, tk := range batch {
			tk.id = len(tasks)
			tasks = append(tasks, tk)
			rep.Distribution["deadline-"+tk.class]++
		}
		// control timers: plain runtime timers over the span of this phase's deadlines
		var ctlWG sync.WaitGroup
		for c := 0; c < 8; c++ {
			d := base.Add(time.Duration(c*8) * time.Millisecond)
			ctlWG.Add(1)
			time.AfterFunc(time.Until(d), func() {
				ctlNote(int64(time.Since(d)))
				ctlWG.Done()
			})
		}
		// submit concurrently: goroutine g puts batch[g], batch[g+Gor], ...
		start := make(chan struct{})
		var wg sync.WaitGroup
		for g := 0; g < sc.Gor; g++ {
			wg.Add(1)
			go func(g int) {
				defer wg.Done()
				<-start
				for i := g; i < len(batch); i += sc.Gor {
					tk := batch[i]
					if tk.class == "now" {
						tk.deadline = time.Now()
					}
					tk.putAt = time.Now()
					ts.Put(tk.body, tk.deadline)
					if i%7 == 3 {
						runtime.Gosched()
					}
				}
			}(g)
		}
		close(start)
		wg.Wait()
		ctlWG.Wait()
		// wait until every task that is due has run; the limit is generous and scales with the
		// control latency
		lastDue := time.Now()
		for _, tk := range batch {
			if d := due(tk); !tk.far && d.After(lastDue) {
				lastDue = d
			}
		}
		allDone := func() bool {
			for _, tk := range tasks {
				if !tk.far && tk.runs.Load() == 0 {
					return false
				}
			}
			return true
		}
		for !allDone() && time.Since(lastDue) < limit()+50*time.Millisecond {
			time.Sleep(time.Millisecond)
		}
		// let the workers finish their pass (and let a duplicate execution show up)
		time.Sleep(time.Duration(5+rng.intn(25)) * time.Millisecond)
	}
	hbStop.Store(true)
	<-hbDone
	slack := limit()
	total := len(tasks)
	out.ctlMax = time.Duration(ctlMax.Load())
	out.tasks = total
	replay := func(tk *schedTask) map[string]any {
		return map[string]any{"scenario": sc, "task": tk.id, "class": tk.class, "phases": phasesRun,
			"deadline_minus_put_us": tk.deadline.Sub(tk.putAt).Microseconds(),
			"runs":                  tk.runs.Load(), "late_us": time.Duration(tk.lateNs.Load()).Microseconds(),
			"control_latency_us": out.ctlMax.Microseconds(), "slack_ms": slack.Milliseconds(),
			"how": fmt.Sprintf("GODEBUG=%s VERIF_SEED=%d go test -tags verif -run TestVerifC17 (scenario %s parallel=%d round=%d)", sc.Mode, vSeed(), sc.Kind, sc.Parallel, sc.Round)}
	}
	for _, tk := range tasks {
		n := tk.runs.Load()
		rep.Monitors["exactly-once"]++
		rep.Monitors["never-early"]++
		if n > 1 {
			rep.violate("sched-ran-twice", fmt.Sprintf("task of class %s executed %d times (%s, parallel=%d, %s)", tk.class, n, sc.Kind, sc.Parallel, sc.Mode), replay(tk))
		}
		if tk.early.Load() {
			rep.violate("sched-ran-early", fmt.Sprintf("task of class %s ran %v before its deadline (%s, parallel=%d, %s)", tk.class, -time.Duration(tk.lateNs.Load()), sc.Kind, sc.Parallel, sc.Mode), replay(tk))
		}
		if tk.far {
			continue
		}
		rep.Monitors["prompt"]++
		if tk.class == "near-after-far" {
			rep.Monitors["far-future-no-delay"]++
		}
		if n == 0 {
			key := "sched-task-lost"
			if tk.class == "near-after-far" { // submitted while far-future tasks were pending
				key = "sched-far-future-delays"
			}
			rep.violate(key, fmt.Sprintf("task of class %s not executed %v after it was due, slack %v (%s, parallel=%d, %s)", tk.class, time.Since(due(tk)), slack, sc.Kind, sc.Parallel, sc.Mode), replay(tk))
			continue
		}
		late := time.Duration(tk.lateNs.Load())
		if late > out.worstLate {
			out.worstLate = late
		}
		if time.Duration(tk.runAt.Load()-tk.putAt.UnixNano()) >= time.Millisecond {
			out.timerPath++
		}
		if late > slack {
			key := "sched-late"
			if tk.class == "near-after-far" {
				key = "sched-far-future-delays"
			}
			rep.violate(key, fmt.Sprintf("task of class %s ran %v after it was due, slack %v, control latency %v (%s, parallel=%d, %s)", tk.class, late, slack, out.ctlMax, sc.Kind, sc.Parallel, sc.Mode), replay(tk))
		}
		switch {
		case late < time.Millisecond:
			rep.Distribution["late<1ms"]++
		case late < 5*time.Millisecond:
			rep.Distribution["late<5ms"]++
		case late < 20*time.Millisecond:
			rep.Distribution["late<20ms"]++
		case late < 100*time.Millisecond:
			rep.Distribution["late<100ms"]++
		default:
			rep.Distribution["late>=100ms"]++
		}
	}
	lg.printf("scenario kind=%s parallel=%d round=%d gor=%d phases=%d mode=%s -> tasks=%d timerpath=%d worstlate_us=%d control_us=%d slack_ms=%d\n",
		sc.Kind, sc.Parallel, sc.Round, sc.Gor, phasesRun, sc.Mode, total, out.timerPath, out.worstLate.Microseconds(), out.ctlMax.Microseconds(), slack.Milliseconds())
	return out
}

// schedChain: a task re-submits its successor from inside its body (what sess.update does).
func schedRunChain(sc schedScenario, rep *vreport, lg *vlog) {
	ts := NewTimedSched(sc.Parallel)
	defer ts.Close()
	const chains, length = 6, 20
	var runs [chains][length]atomic.Int32
	var early atomic.Int32
	done := make(chan struct{}, chains)
	var mk func(c, k int, dl time.Time) func()
	mk = func(c, k int, dl time.Time) func() {
		return func() {
			if time.Now().Before(dl) {
				early.Add(1)
			}
			runs[c][k].Add(1)
			if k+1 < length {
				ndl := time.Now().Add(time.Duration(1+(c+k)%3) * time.Millisecond)
				ts.Put(mk(c, k+1, ndl), ndl)
			} else {
				done <- struct{}{}
			}
		}
	}
	t0 := time.Now()
	for c := 0; c < chains; c++ {
		dl := time.Now()
		ts.Put(mk(c, 0, dl), dl)
	}
	limit := schedBaseSlack*length/4 + 2*time.Second
	finished := 0
	timeout := time.After(limit)
wait:
	for finished < chains {
		select {
		case <-done:
			finished++
		case <-timeout:
			break wait
		}
	}
	time.Sleep(15 * time.Millisecond)
	rep.Distribution["deadline-chain"] += chains * length
	for c := 0; c < chains; c++ {
		for k := 0; k < length; k++ {
			rep.Monitors["exactly-once"]++
			n := runs[c][k].Load()
			rp := map[string]any{"scenario": sc, "chain": c, "link": k, "runs": n}
			if n > 1 {
				rep.violate("sched-ran-twice", fmt.Sprintf("re-submitted task executed %d times (chain, parallel=%d, %s)", n, sc.Parallel, sc.Mode), rp)
			}
			if n == 0 {
				rep.violate("sched-task-lost", fmt.Sprintf("re-submitted task (link %d of a chain of %d, 1-3 ms apart) not executed within %v (parallel=%d, %s)", k, length, limit, sc.Parallel, sc.Mode), rp)
				break
			}
		}
	}
	rep.Monitors["never-early"] += chains * length
	if early.Load() > 0 {
		rep.violate("sched-ran-early", fmt.Sprintf("%d re-submitted tasks ran before their deadline (chain, parallel=%d, %s)", early.Load(), sc.Parallel, sc.Mode), map[string]any{"scenario": sc})
	}
	lg.printf("chain parallel=%d mode=%s -> finished=%d/%d in_us=%d\n", sc.Parallel, sc.Mode, finished, chains, time.Since(t0).Microseconds())
}

// schedCloseSample: what Close does to pending tasks (informational; the property speaks of
// tasks of a scheduler that is not closed before they are due - see coq/sched/C17.v,
// c17_close_may_drop).  Safety monitors still apply.
func schedCloseSample(sc schedScenario, rep *vreport, lg *vlog) (dropped, ran int) {
	ts := NewTimedSched(sc.Parallel)
	const n = 40
	var runs [n]atomic.Int32
	var early atomic.Int32
	for i := 0; i < n; i++ {
		i := i
		dl := time.Now().Add(time.Duration(20+i) * time.Millisecond)
		ts.Put(func() {
			if time.Now().Before(dl) {
				early.Add(1)
			}
			runs[i].Add(1)
		}, dl)
	}
	time.Sleep(5 * time.Millisecond)
	ts.Close()
	ts.Close()                    // idempotent
	ts.Put(func() {}, time.Now()) // must not panic or block
	time.Sleep(120 * time.Millisecond)
	for i := 0; i < n; i++ {
		rep.Monitors["exactly-once"]++
		switch c := runs[i].Load(); {
		case c == 0:
			dropped++
		case c == 1:
			ran++
		default:
			rep.violate("sched-ran-twice", fmt.Sprintf("task executed %d times around Close (parallel=%d, %s)", c, sc.Parallel, sc.Mode), map[string]any{"scenario": sc, "task": i})
		}
	}
	rep.Monitors["never-early"] += n
	if early.Load() > 0 {
		rep.violate("sched-ran-early", fmt.Sprintf("%d tasks ran before their deadline around Close (parallel=%d, %s)", early.Load(), sc.Parallel, sc.Mode), map[string]any{"scenario": sc})
	}
	lg.printf("close parallel=%d mode=%s -> pending_dropped=%d pending_ran=%d\n", sc.Parallel, sc.Mode, dropped, ran)
	return
}

func TestVerifC17(t *testing.T) {
	rep := newReport("C17")
	lg := newVlog(t, "C17.log")
	defer lg.close()
	rng := newRng(vSeed())
	mode := os.Getenv("GODEBUG")
	if mode == "" {
		mode = "(default)"
	}
	observed := schedProbeTimerSemantics()
	rep.Extra["godebug"] = mode
	rep.Extra["timer_semantics_observed"] = observed
	if want := os.Getenv("VERIF_EXPECT_TIMERCHAN"); want != "" && want != observed {
		t.Fatalf("timer-channel semantics: expected %s, this process runs %s (GODEBUG=%s)", want, observed, mode)
	}
	rounds := vEnvInt("VERIF_C17_ROUNDS", 5)
	if vThorough() {
		rounds = vEnvInt("VERIF_C17_ROUNDS", 40)
	}
	kinds := []string{"past", "now", "equal", "increasing", "decreasing", "farfirst", "mixed", "staged-hour", "staged-secs"}
	pars := []int{1, 2, max(runtime.NumCPU(), 2)}
	if only := os.Getenv("VERIF_C17_ONLY"); only != "" { // replay of one scenario class: "<kind>:<parallel>"
		var k string
		var p int
		if n, _ := fmt.Sscanf(strings.Replace(only, ":", " ", 1), "%s %d", &k, &p); n == 2 {
			kinds, pars = []string{k}, []int{p}
		}
	}
	var worstLate, worstCtl time.Duration
	var lates []int
	for r := 0; r < rounds && len(rep.Violations) < 50; r++ {
		for _, p := range pars {
			for _, k := range kinds {
				if k == "chain" || k == "close" {
					continue
				}
				sc := schedScenario{Kind: k, Parallel: p, Round: r, Gor: 2 + rng.intn(11), PerGor: 8 + rng.intn(25), Seed: vSeed(), Mode: mode}
				if k == "farfirst" {
					sc.Gor = 1 + rng.intn(3)
				}
				if k == "staged-hour" || k == "staged-secs" {
					sc.Gor, sc.PerGor = 1+rng.intn(4), 0 // batch sizes are drawn per phase (multiples of the parallelism)
				}
				o := schedRunScenario(t, sc, rng, rep, lg)
				rep.Cases++
				rep.Steps += o.tasks
				rep.Distribution[fmt.Sprintf("parallel=%d", p)]++
				rep.Distribution["scenario-"+k]++
				if (sc.Gor >= 2 || sc.PerGor == 0) && o.timerPath > 0 {
					rep.Nontrivial++
				}
				if o.worstLate > worstLate {
					worstLate = o.worstLate
				}
				if o.ctlMax > worstCtl {
					worstCtl = o.ctlMax
				}
				lates = append(lates, int(o.worstLate.Microseconds()))
				rep.sample(map[string]any{"scenario": sc, "tasks": o.tasks, "via_timer": o.timerPath, "worst_late_us": o.worstLate.Microseconds(), "control_latency_us": o.ctlMax.Microseconds()})
			}
			sc := schedScenario{Kind: "chain", Parallel: p, Round: r, Seed: vSeed(), Mode: mode}
			schedRunChain(sc, rep, lg)
			rep.Cases++
			rep.Nontrivial++
			rep.Steps += 120
			sc.Kind = "close"
			d, rn := schedCloseSample(sc, rep, lg)
			rep.Cases++
			rep.Steps += 40
			rep.Distribution["close-pending-dropped"] += d
			rep.Distribution["close-pending-ran"] += rn
		}
	}
	sort.Ints(lates)
	rep.Extra["worst_late_us"] = worstLate.Microseconds()
	rep.Extra["median_worst_late_us"] = lates[len(lates)/2]
	rep.Extra["worst_control_latency_us"] = worstCtl.Microseconds()
	rep.Extra["base_slack_ms"] = schedBaseSlack.Milliseconds()
	rep.Extra["slack_rule"] = fmt.Sprintf("%v + %d x (worst latency, in the same scenario, of 8 plain time.AfterFunc control timers and of a 1 ms sleep heartbeat)", schedBaseSlack, schedCtlFactor)
	rep.write(t, "C17.report.json")
	if len(rep.Violations) > 0 {
		t.Logf("%d violations, first: %s", len(rep.Violations), rep.Violations[0].What)
	}
}
