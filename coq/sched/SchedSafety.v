(* C17 - safety theorems read off the invariant. *)
From Coq Require Import List ZArith Bool Arith Lia.
From KV.Sched Require Import Model SchedInv.
Import ListNotations.
Open Scope Z_scope.

(* ---------------------------------------------------------------- at most once *)
Lemma cntid_in : forall t l, In t l -> (1 <= cntid (tid t) l)%nat.
Proof.
  induction l; simpl; intros; [tauto|]. destruct H.
  - subst. rewrite Nat.eqb_refl. lia.
  - specialize (IHl H). lia.
Qed.

Lemma cntid_zero_notin : forall i l, cntid i l = 0%nat -> ~ In i (map tid l).
Proof.
  induction l; simpl; intros; [tauto|].
  destruct (Nat.eqb_spec (tid a) i); [lia|]. intros [E|E]; [congruence|]. apply IHl; auto.
Qed.

Lemma cntid_nodup : forall l, (forall i, (cntid i l <= 1)%nat) -> NoDup (map tid l).
Proof.
  induction l; simpl; intros; constructor.
  - apply cntid_zero_notin. specialize (H (tid a)). rewrite Nat.eqb_refl in H. lia.
  - apply IHl. intros i. specialize (H i). lia.
Qed.

Lemma cnt_workers_in : forall t f n i, (i < n)%nat -> In t (wtasks (f i)) ->
  (1 <= cnt_workers (tid t) f n)%nat.
Proof.
  induction n; simpl; intros; [lia|].
  destruct (Nat.eq_dec i n).
  - subst. pose proof (cntid_in _ _ H0). lia.
  - specialize (IHn i ltac:(lia) H0). lia.
Qed.

Lemma cnt_workers_ex : forall k f n, (1 <= cnt_workers k f n)%nat ->
  exists i, (i < n)%nat /\ (1 <= cntid k (wtasks (f i)))%nat.
Proof.
  induction n; simpl; intros; [lia|].
  destruct (Nat.eq_dec (cntid k (wtasks (f n))) 0).
  - destruct IHn as [i [? ?]]; [lia|]. exists i; split; auto.
  - exists n; split; auto; lia.
Qed.

Lemma cntid_ex : forall k l, (1 <= cntid k l)%nat -> exists t, In t l /\ tid t = k.
Proof.
  induction l; simpl; intros; [lia|].
  destruct (Nat.eqb_spec (tid a) k).
  - exists a; auto.
  - destruct IHl as [t [? ?]]; [lia|]. exists t; auto.
Qed.

(* every task id is in exactly one place (or not submitted at all) *)
Lemma one_place : forall m s, reachable m s ->
  forall i, places i s = cntid i (submitted s) /\ (cntid i (submitted s) <= 1)%nat.
Proof. intros m s R i. destruct (reachable_inv m s R) as [_ _ Hp Hf _ _ _]. auto. Qed.

Lemma submitted_one_place : forall m s t, reachable m s -> In t (submitted s) -> places (tid t) s = 1%nat.
Proof.
  intros. destruct (one_place m s H (tid t)) as [P F]. pose proof (cntid_in _ _ H0). lia.
Qed.

Lemma executed_once : forall m s, reachable m s -> NoDup (map tid (done_tasks s)).
Proof.
  intros m s R. apply cntid_nodup. intros i.
  destruct (one_place m s R i) as [P F]. unfold places in P. lia.
Qed.

(* an executed task is nowhere else any more *)
Lemma executed_gone : forall m s t, reachable m s -> In t (done_tasks s) ->
  cntid (tid t) (ptasks s) = 0%nat /\ cntid (tid t) (inflight s) = 0%nat /\
  cnt_workers (tid t) (ws s) (nw s) = 0%nat.
Proof.
  intros m s t R I. destruct (one_place m s R (tid t)) as [P F].
  pose proof (cntid_in _ _ I). unfold places in P. lia.
Qed.

(* ---------------------------------------------------------------- never early *)
Lemma never_early : forall m s, reachable m s ->
  forall e, In e (done s) -> tts (etask e) < enow e /\ enow e <= eclk e /\ eclk e <= clock s.
Proof. intros m s R. destruct (reachable_inv m s R) as [_ Hd _ _ _ _ _]. exact Hd. Qed.

Lemma clock_reads_not_ahead : forall m s i, reachable m s ->
  wnow (ws s i) <= clock s /\ (forall v, buf (ws s i) = Some v -> v <= clock s).
Proof. intros m s i R. destruct (reachable_inv m s R) as [Hw _ _ _ _ _ _]. destruct (Hw i). auto. Qed.

Lemma clock_monotone : forall m s l s', step m s l s' -> clock s <= clock s'.
Proof. intros. inversion H; subst; simpl; lia. Qed.

(* only an execute step adds to `done`, and it adds a task whose deadline is strictly before
   the `now` the worker compared it with *)
Lemma exec_step_overdue : forall m s l s' , reachable m s -> step m s l s' ->
  done s' = done s \/
  exists i t, l = LWork i /\ done s' = mkE t (wnow (ws s i)) (clock s) i :: done s /\
              tts t < wnow (ws s i) /\ wnow (ws s i) <= clock s /\ In t (wtasks (ws s i)).
Proof.
  intros m s l s' R St. pose proof (reachable_inv m s R) as I.
  inversion St; subst; simpl; auto.
  destruct ev as [[t n]|]; [|left; reflexivity]. right.
  destruct (wstep_winv _ _ _ _ _ _ _ (i_w _ _ I i) H0) as [_ [Ev _]].
  destruct (Ev t n eq_refl).
  inversion H0; subst; simpl.
  - exists i, t. unfold wtasks.
    match goal with H : cur _ = Some _ |- _ => rewrite H end. repeat split; auto. left; auto.
  - exists i, t. unfold wtasks.
    match goal with H : heap _ = _ ++ _ :: _ |- _ => rewrite H end. repeat split; auto.
    destruct (cur (ws s i)); [right|]; apply in_or_app; right; left; auto.
Qed.

(* ---------------------------------------------------------------- the timer dance *)
Lemma timer_armed_at_select : forall m s i, reachable m s -> (i < nw s)%nat ->
  pc (ws s i) = WSel -> heap (ws s i) <> [] ->
  (exists a, armed (ws s i) = Some a /\ a <= hmin (heap (ws s i)) + wlag (ws s i) /\
             buf (ws s i) = None) \/
  (exists v, buf (ws s i) = Some v /\ v <= clock s /\ armed (ws s i) = None).
Proof.
  intros m s i R Hi Hpc Hh. destruct (reachable_inv m s R) as [Hw _ _ _ _ _ _].
  destruct (Hw i) as [Ht Ha _ _ Hb _ _ _]. unfold timer_ok, armed_ok in *. rewrite Hpc in *.
  destruct Ht as [T1 [T2 T3]].
  destruct (Ha Hh) as [[a [A1 A2]]|B].
  - left. exists a. repeat split; auto. apply T1. congruence.
  - right. destruct (buf (ws s i)) as [v|] eqn:E; [|congruence]. exists v. repeat split; auto.
    destruct (armed (ws s i)) eqn:E2; auto. assert (Some v = None) by (apply T1; congruence). discriminate.
Qed.

(* the drain `<-timer.C` never blocks; under the synchronous semantics it is never reached *)
Lemma drain_never_blocks : forall m s i, reachable m s -> pc (ws s i) = WDrain ->
  m = Async /\ exists v, buf (ws s i) = Some v.
Proof.
  intros m s i R Hpc. destruct (reachable_inv m s R) as [Hw _ _ _ _ _ _].
  destruct (Hw i) as [Ht _ _ _ _ _ _ _]. unfold timer_ok in Ht. rewrite Hpc in Ht.
  destruct Ht as [? [? ?]]. split; auto. destruct (buf (ws s i)); [eauto|congruence].
Qed.

Lemma drain_unreachable_sync : forall s i, reachable Sync s -> pc (ws s i) <> WDrain.
Proof. intros s i R E. destruct (drain_never_blocks _ _ _ R E). discriminate. Qed.

(* no stale value: an armed timer has an empty channel; `drained` is exact at the select *)
Lemma no_stale_value : forall m s i, reachable m s ->
  pc (ws s i) = WSel ->
  (armed (ws s i) <> None -> buf (ws s i) = None) /\
  (drained (ws s i) = true <-> armed (ws s i) = None /\ buf (ws s i) = None).
Proof.
  intros m s i R Hpc. destruct (reachable_inv m s R) as [Hw _ _ _ _ _ _].
  destruct (Hw i) as [Ht _ _ _ _ _ _ _]. unfold timer_ok in Ht. rewrite Hpc in Ht.
  destruct Ht as [T1 [T2 T3]]. split; auto. split; auto.
  intros [A B]. destruct (drained (ws s i)); auto. destruct T3; auto; congruence.
Qed.

(* ---------------------------------------------------------------- re-arm to the minimum *)
(* every step that (re)arms a worker's timer arms it for  heap minimum + (clock - now), where
   `now` is the worker's latest clock reading and the minimum is over the WHOLE heap *)
Lemma rearm_to_minimum : forall m s i s', reachable m s -> step m s (LWork i) s' ->
  pc (ws s i) <> WStart ->
  armed (ws s' i) <> armed (ws s i) -> armed (ws s' i) <> None ->
  armed (ws s' i) = Some (hmin (heap (ws s' i)) + (clock s - wnow (ws s i))) /\
  wlag (ws s' i) = clock s - wnow (ws s i) /\ 0 <= clock s - wnow (ws s i) /\
  (forall u, In u (heap (ws s' i)) -> hmin (heap (ws s' i)) <= tts u) /\
  pc (ws s' i) = WSel.
Proof.
  intros m s i s' R St Hns Hne Hnn. pose proof (reachable_inv m s R) as I.
  destruct (i_w _ _ I i) as [_ _ _ Hnow _ _ _ _].
  inversion St; subst.
  match goal with H : wl_label _ ?l = LWork _ |- _ => destruct l; inversion H; subst; clear H end.
  simpl in *. rewrite upd_same in *.
  match goal with H : wstep _ _ _ _ _ _ _ |- _ => inversion H; subst; simpl in *; try congruence end.
  all: repeat split; auto; try lia; try (f_equal; lia); intros; apply hmin_le; auto.
Qed.

(* a far-future task never delays a nearer one: at the select the armed time is at most
   (deadline + latency) of EVERY task in the heap *)
Lemma far_future_no_delay : forall m s i a u, reachable m s -> (i < nw s)%nat ->
  pc (ws s i) = WSel -> armed (ws s i) = Some a -> In u (heap (ws s i)) ->
  a <= tts u + wlag (ws s i).
Proof.
  intros m s i a u R Hi Hpc Ha Hu.
  destruct (timer_armed_at_select m s i R Hi Hpc) as [[a' [A1 [A2 _]]]|[v [_ [_ A]]]].
  - intro E; rewrite E in Hu; destruct Hu.
  - assert (a' = a) by congruence. subst. pose proof (hmin_le _ _ Hu). lia.
  - congruence.
Qed.
