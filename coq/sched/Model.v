(* C17 - timedsched.go as a labelled transition system.  No proofs in this file.

   The atomic steps are the statements of `Put`, `prepend` and `sched` (timedsched.go); the
   statement skeleton this LTS was derived from is `Reference.skel`, and the check
   `Reference.gen_matches` ties it to the skeleton regenerated from /repo on every run.

   Conventions (what is fused, and why that is sound):
   * a statement that touches only goroutine-local variables is fused with the preceding
     statement of the same goroutine that touches shared state (it commutes with every step of
     every other goroutine): `if now.After(task.ts)` with `now := time.Now()`;
     `if !stopped && !drained` with `stopped := timer.Stop()`; `drained = false` with
     `timer.Reset(..)`; the loop test `tasks.Len() > 0`, `now.After(tasks[0].ts)`, `heap.Pop`
     and `.execute()` of one iteration of the timer branch;
   * the two critical sections under `prependLock` (append in Put; swap in prepend) are single
     steps: they are the only accesses to `prependTasks` and a mutex serialises them;
   * the unbuffered channel `chTask` is a rendezvous: the send of `prepend` and the receive of a
     worker standing at its `select` are ONE step (`s_hand`);
   * `task.execute()` is one atomic, terminating step (a task body that blocks starves its
     worker - not exhibited); a task body may call Put: `s_put` is enabled in every state;
   * `container/heap` is assumed correct: with `Less = ts.Before`, `tasks[0]` is a task of
     minimal `ts` (`hmin`), `heap.Pop` removes SOME task of minimal ts (nondeterministic among
     equal deadlines).

   Time is an unbounded integer (`Z`, think nanoseconds of the monotonic clock); the clock
   advances by `s_tick` between any two steps, in particular between a worker's clock read and
   its `timer.Reset`.

   Timer semantics is the parameter `sem`:
     Sync  (Go >= 1.23 default, GODEBUG=asynctimerchan=0): Stop and Reset discard a value that
           fired but was not received; Stop reports true iff the timer was armed or such a
           value existed.
     Async (GODEBUG=asynctimerchan=1): a fire parks the value in the 1-slot channel buffer
           (non-blocking send: dropped if the slot is full); Stop reports true iff the timer was
           still armed; Stop/Reset leave a parked value in place (it becomes stale).
   A timer is the pair (armed : option when, buf : option value). *)
From Coq Require Import List ZArith Bool Arith Lia.
Import ListNotations.
Open Scope Z_scope.

Inductive sem := Sync | Async.

Record task := mkTask { tid : nat; tts : Z }.

(* program counter of a `sched` worker *)
Inductive wpc :=
| WStart      (* before  timer := time.NewTimer(0); var tasks; drained := false *)
| WSel        (* at the select of the for loop *)
| WTaskNow    (* received `task`; before now := time.Now(); if now.After(task.ts) *)
| WTaskExec   (* before task.execute() *)
| WTaskPush   (* before heap.Push(&tasks, task) *)
| WStop       (* before stopped := timer.Stop(); if !stopped && !drained *)
| WDrain      (* before <-timer.C   (blocks while the buffer is empty) *)
| WReset      (* before timer.Reset(tasks[0].ts.Sub(now)); drained = false *)
| WLoop       (* timer branch: at the head of  for tasks.Len() > 0  (drained = true done) *)
| WExit.      (* returned (case <-ts.die), deferred timer.Stop() done *)

Record worker := mkW {
  pc : wpc;
  heap : list task;        (* tasks timedFuncHeap, as a bag *)
  armed : option Z;        (* Some when: the runtime will fire it once clock >= when *)
  buf : option Z;          (* fired, value not yet received *)
  drained : bool;
  wnow : Z;                (* the local `now` of the branch being executed *)
  cur : option task;       (* the local `task` of the chTask branch *)
  wlag : Z                 (* ghost: clock - now at this worker's latest Reset *)
}.

Inductive ppc := PSel | PGot | PFeed | PExit.

Record exec_rec := mkE { etask : task; enow : Z; eclk : Z; ewho : nat }.

Record state := mkS {
  clock : Z;
  closed : bool;            (* ts.die closed *)
  ptasks : list task;       (* ts.prependTasks *)
  notify : bool;            (* token in chPrependNotify (capacity 1) *)
  pending : nat;            (* Put callers between Unlock and their notify select *)
  pp : ppc;
  inflight : list task;     (* prepend's local tasks[k:] not yet handed over *)
  nw : nat;                 (* number of sched goroutines *)
  ws : nat -> worker;       (* only indices < nw are workers *)
  submitted : list task;    (* ghost: every task ever Put *)
  done : list exec_rec      (* ghost: every execute() so far, latest first *)
}.

(* ---- heap minimum ---- *)
Fixpoint hmin_from (m : Z) (l : list task) : Z :=
  match l with [] => m | t :: r => hmin_from (Z.min m (tts t)) r end.
Definition hmin (l : list task) : Z :=
  match l with [] => 0 | t :: r => hmin_from (tts t) r end.

Definition isSome {A} (o : option A) : bool := match o with Some _ => true | None => false end.

(* ---- timer primitives under the two semantics ---- *)
Definition stop_result (m : sem) (w : worker) : bool :=
  match m with Sync => isSome (armed w) || isSome (buf w) | Async => isSome (armed w) end.
Definition buf_cleared (m : sem) (w : worker) : option Z :=
  match m with Sync => None | Async => buf w end.

Definition set_pc (w : worker) (p : wpc) : worker :=
  mkW p (heap w) (armed w) (buf w) (drained w) (wnow w) (cur w) (wlag w).

(* timer.Reset(tasks[0].ts.Sub(now)); drained = false *)
Definition do_reset (m : sem) (clk : Z) (w : worker) : worker :=
  mkW WSel (heap w) (Some (clk + (hmin (heap w) - wnow w))) (buf_cleared m w) false
      (wnow w) (cur w) (clk - wnow w).

(* labels of worker-local steps *)
Inductive wlabel := LFire | LStep.

(* one step of worker w (or of the runtime on w's timer); `ev` = the task it executed, with
   the `now` it was compared against *)
Inductive wstep (m : sem) (clk : Z) (cl : bool) : worker -> wlabel -> worker -> option (task * Z) -> Prop :=
(* runtime: the timer fires (non-blocking send of the current time into the 1-slot buffer) *)
| w_fire w a :
    armed w = Some a -> a <= clk ->
    wstep m clk cl w LFire
      (mkW (pc w) (heap w) None (match buf w with None => Some clk | b => b end)
           (drained w) (wnow w) (cur w) (wlag w)) None
(* timer := time.NewTimer(0); var tasks timedFuncHeap; drained := false *)
| w_start w :
    pc w = WStart ->
    wstep m clk cl w LStep (mkW WSel [] (Some clk) None false (wnow w) None 0) None
(* case now := <-timer.C: drained = true *)
| w_recv_timer w v :
    pc w = WSel -> buf w = Some v ->
    wstep m clk cl w LStep (mkW WLoop (heap w) (armed w) None true v (cur w) (wlag w)) None
(* case <-ts.die: return   (deferred timer.Stop()) *)
| w_die w :
    pc w = WSel -> cl = true ->
    wstep m clk cl w LStep (mkW WExit (heap w) None (buf_cleared m w) (drained w) (wnow w) (cur w) (wlag w)) None
(* now := time.Now(); if now.After(task.ts) *)
| w_task_now w t :
    pc w = WTaskNow -> cur w = Some t ->
    wstep m clk cl w LStep
      (mkW (if tts t <? clk then WTaskExec else WTaskPush)
           (heap w) (armed w) (buf w) (drained w) clk (cur w) (wlag w)) None
(* task.execute() *)
| w_task_exec w t :
    pc w = WTaskExec -> cur w = Some t ->
    wstep m clk cl w LStep
      (mkW WSel (heap w) (armed w) (buf w) (drained w) (wnow w) None (wlag w)) (Some (t, wnow w))
(* heap.Push(&tasks, task) *)
| w_task_push w t :
    pc w = WTaskPush -> cur w = Some t ->
    wstep m clk cl w LStep
      (mkW WStop (t :: heap w) (armed w) (buf w) (drained w) (wnow w) None (wlag w)) None
(* stopped := timer.Stop(); if !stopped && !drained *)
| w_stop w :
    pc w = WStop ->
    wstep m clk cl w LStep
      (mkW (if negb (stop_result m w) && negb (drained w) then WDrain else WReset)
           (heap w) None (buf_cleared m w) (drained w) (wnow w) (cur w) (wlag w)) None
(* <-timer.C *)
| w_drain w v :
    pc w = WDrain -> buf w = Some v ->
    wstep m clk cl w LStep
      (mkW WReset (heap w) (armed w) None (drained w) (wnow w) (cur w) (wlag w)) None
(* timer.Reset(tasks[0].ts.Sub(now)); drained = false *)
| w_reset w :
    pc w = WReset ->
    wstep m clk cl w LStep (do_reset m clk w) None
(* for tasks.Len() > 0: false *)
| w_loop_empty w :
    pc w = WLoop -> heap w = [] ->
    wstep m clk cl w LStep (set_pc w WSel) None
(* now.After(tasks[0].ts): heap.Pop(&tasks).(timedFunc).execute() *)
| w_loop_pop w h1 t h2 :
    pc w = WLoop -> heap w = h1 ++ t :: h2 -> tts t = hmin (heap w) -> tts t < wnow w ->
    wstep m clk cl w LStep
      (mkW WLoop (h1 ++ h2) (armed w) (buf w) (drained w) (wnow w) (cur w) (wlag w)) (Some (t, wnow w))
(* else: timer.Reset(tasks[0].ts.Sub(now)); drained = false; break *)
| w_loop_reset w :
    pc w = WLoop -> heap w <> [] -> wnow w <= hmin (heap w) ->
    wstep m clk cl w LStep (do_reset m clk w) None.

Definition upd (f : nat -> worker) (i : nat) (w : worker) : nat -> worker :=
  fun j => if Nat.eqb j i then w else f j.

Definition add_done (s : state) (i : nat) (ev : option (task * Z)) : list exec_rec :=
  match ev with
  | Some (t, n) => mkE t n (clock s) i :: done s
  | None => done s
  end.

Inductive label :=
| LTick | LPut (t : task) | LNotify | LClose | LPrep | LHand (i : nat)
| LTimer (i : nat) | LWork (i : nat).

Definition wl_label (i : nat) (l : wlabel) : label :=
  match l with LFire => LTimer i | LStep => LWork i end.

Definition received (w : worker) (t : task) : worker :=
  mkW WTaskNow (heap w) (armed w) (buf w) (drained w) (wnow w) (Some t) (wlag w).

Inductive step (m : sem) : state -> label -> state -> Prop :=
(* real time passes *)
| s_tick s d : 0 < d ->
    step m s LTick (mkS (clock s + d) (closed s) (ptasks s) (notify s) (pending s) (pp s)
                        (inflight s) (nw s) (ws s) (submitted s) (done s))
(* Put: Lock; prependTasks = append(prependTasks, timedFunc{f, deadline}); Unlock.
   The id is a ghost name of this call: fresh. *)
| s_put s t : (forall u, In u (submitted s) -> tid u <> tid t) ->
    step m s (LPut t) (mkS (clock s) (closed s) (ptasks s ++ [t]) (notify s) (S (pending s)) (pp s)
                           (inflight s) (nw s) (ws s) (t :: submitted s) (done s))
(* Put: select { case chPrependNotify <- struct{}{}: default: } *)
| s_notify s n : pending s = S n ->
    step m s LNotify (mkS (clock s) (closed s) (ptasks s) true n (pp s)
                          (inflight s) (nw s) (ws s) (submitted s) (done s))
(* Close: close(ts.die) (once) *)
| s_close s :
    step m s LClose (mkS (clock s) true (ptasks s) (notify s) (pending s) (pp s)
                         (inflight s) (nw s) (ws s) (submitted s) (done s))
(* prepend: case <-ts.chPrependNotify *)
| s_p_notify s : pp s = PSel -> notify s = true ->
    step m s LPrep (mkS (clock s) (closed s) (ptasks s) false (pending s) PGot
                        (inflight s) (nw s) (ws s) (submitted s) (done s))
(* prepend: Lock; tasks, ts.prependTasks = ts.prependTasks, tasks[:0]; Unlock *)
| s_p_swap s : pp s = PGot ->
    step m s LPrep (mkS (clock s) (closed s) [] (notify s) (pending s) PFeed
                        (ptasks s) (nw s) (ws s) (submitted s) (done s))
(* prepend: case ts.chTask <- tasks[k]   ||   worker i: case task := <-ts.chTask *)
| s_hand s i t rest : pp s = PFeed -> inflight s = t :: rest -> (i < nw s)%nat -> pc (ws s i) = WSel ->
    step m s (LHand i) (mkS (clock s) (closed s) (ptasks s) (notify s) (pending s) PFeed
                            rest (nw s) (upd (ws s) i (received (ws s i) t)) (submitted s) (done s))
(* prepend: range exhausted; tasks = tasks[:0] *)
| s_p_done s : pp s = PFeed -> inflight s = [] ->
    step m s LPrep (mkS (clock s) (closed s) (ptasks s) (notify s) (pending s) PSel
                        [] (nw s) (ws s) (submitted s) (done s))
(* prepend: case <-ts.die: return  (outer select, or inner select with a task in hand) *)
| s_p_die s : closed s = true -> (pp s = PSel \/ (pp s = PFeed /\ inflight s <> [])) ->
    step m s LPrep (mkS (clock s) (closed s) (ptasks s) (notify s) (pending s) PExit
                        (inflight s) (nw s) (ws s) (submitted s) (done s))
(* a sched goroutine, or the runtime on its timer *)
| s_work s i l w' ev : (i < nw s)%nat -> wstep m (clock s) (closed s) (ws s i) l w' ev ->
    step m s (wl_label i l) (mkS (clock s) (closed s) (ptasks s) (notify s) (pending s) (pp s)
                                 (inflight s) (nw s) (upd (ws s) i w') (submitted s) (add_done s i ev)).

(* NewTimedSched(n) at time c0 *)
Definition w0 (c0 : Z) : worker := mkW WStart [] None None false c0 None 0.
Definition init (n : nat) (c0 : Z) : state :=
  mkS c0 false [] false 0 PSel [] n (fun _ => w0 c0) [] [].

Inductive reachable (m : sem) : state -> Prop :=
| r_init n c0 : reachable m (init n c0)
| r_step s l s' : reachable m s -> step m s l s' -> reachable m s'.

(* steps of the scheduler itself: everything except a new Put and Close *)
Definition internal (l : label) : bool :=
  match l with LPut _ | LClose => false | _ => true end.

Inductive isteps (m : sem) : state -> state -> Prop :=
| is_refl s : isteps m s s
| is_step s l s1 s2 : step m s l s1 -> internal l = true -> isteps m s1 s2 -> isteps m s s2.

(* steps of worker i alone (no clock tick, no timer fire, nobody else) *)
Inductive wsteps (m : sem) (i : nat) : state -> state -> Prop :=
| ws_refl s : wsteps m i s s
| ws_step s s1 s2 : step m s (LWork i) s1 -> wsteps m i s1 s2 -> wsteps m i s s2.

(* ---- where a task is ---- *)
Definition wtasks (w : worker) : list task :=
  match cur w with Some t => t :: heap w | None => heap w end.
Fixpoint cntid (i : nat) (l : list task) : nat :=
  match l with [] => 0 | t :: r => (if Nat.eqb (tid t) i then 1 else 0) + cntid i r end.
Fixpoint cnt_workers (i : nat) (f : nat -> worker) (n : nat) : nat :=
  match n with O => 0 | S k => cnt_workers i f k + cntid i (wtasks (f k)) end.
Definition done_tasks (s : state) : list task := map etask (done s).
(* number of places task id i is in *)
Definition places (i : nat) (s : state) : nat :=
  cntid i (ptasks s) + cntid i (inflight s) + cnt_workers i (ws s) (nw s) + cntid i (done_tasks s).
