(* C17 - concrete reachable states (non-vacuity of the hypotheses of the theorems). *)
From Coq Require Import List ZArith Bool Arith Lia.
From KV.Sched Require Import Model SchedInv SchedSafety SchedLive.
Import ListNotations.
Open Scope Z_scope.

Ltac go tac :=
  match goal with R : reachable ?m ?s |- _ =>
    let R' := fresh "R" in
    eassert (R' : reachable m _) by (eapply r_step; [exact R | tac s]);
    clear R; cbn in R'
  end.

Ltac work i c := fun s => (eapply (s_work _ s i LStep); [cbn; lia | c]).
Ltac fire i := fun s => (eapply (s_work _ s i LFire); [cbn; lia | eapply w_fire; [reflexivity | cbn; lia]]).
Ltac plain c := fun s => c.
Ltac w0_ c := go ltac:(work 0%nat c).
Ltac hand0 := go ltac:(plain ltac:(eapply (s_hand _ _ 0%nat); [reflexivity | reflexivity | cbn; lia | reflexivity])).
Ltac put_ t := go ltac:(plain ltac:(eapply (s_put _ _ t); cbn; intuition (subst; cbn in *; try lia; try discriminate))).
Ltac tick_ d := go ltac:(plain ltac:(eapply (s_tick _ _ d); lia)).
Ltac finish := eexists; split; [match goal with H : reachable _ _ |- _ => exact H end|]; cbn; repeat split; try reflexivity.

Definition t_far : task := mkTask 1 1000.
Definition t_near : task := mkTask 2 100.
Definition t_late : task := mkTask 3 50.

(* Script 1.  One worker; its initial timer fires and is consumed; then a far-future task and a
   nearer one are Put, handed over and pushed in that order; the worker is back at its select. *)
Ltac script1 :=
  w0_ ltac:(eapply w_start; reflexivity);
  go ltac:(fire 0%nat);
  w0_ ltac:(eapply w_recv_timer; reflexivity);
  w0_ ltac:(eapply w_loop_empty; reflexivity);
  put_ t_far; put_ t_near;
  go ltac:(plain ltac:(eapply s_notify; reflexivity));
  go ltac:(plain ltac:(eapply s_notify; reflexivity));
  go ltac:(plain ltac:(eapply s_p_notify; reflexivity));
  go ltac:(plain ltac:(eapply s_p_swap; reflexivity));
  hand0;
  w0_ ltac:(eapply w_task_now; reflexivity);
  w0_ ltac:(eapply w_task_push; reflexivity);
  w0_ ltac:(eapply w_stop; reflexivity);
  w0_ ltac:(eapply w_reset; reflexivity);
  hand0;
  w0_ ltac:(eapply w_task_now; reflexivity);
  w0_ ltac:(eapply w_task_push; reflexivity);
  w0_ ltac:(eapply w_stop; reflexivity);
  w0_ ltac:(eapply w_reset; reflexivity);
  go ltac:(plain ltac:(eapply s_p_done; reflexivity)).

Ltac start m := assert (R : reachable m (init 1 0)) by constructor; destruct m.

(* armed for the minimum although the far-future task arrived first *)
Lemma ex_armed : forall m, exists s, reachable m s /\
  clock s = 0 /\ closed s = false /\ nw s = 1%nat /\ pp s = PSel /\
  submitted s = [t_near; t_far] /\ done s = [] /\
  ws s 0%nat = mkW WSel [t_near; t_far] (Some 100) None false 0 None 0.
Proof. intros m. start m; script1; finish. Qed.

(* Script 2.  100 time units later the timer fires and delivers exactly the nearer deadline. *)
Ltac script2 := script1; tick_ 100; go ltac:(fire 0%nat).

Lemma ex_delivered_equal : forall m, exists s, reachable m s /\
  clock s = 100 /\ closed s = false /\ nw s = 1%nat /\
  ws s 0%nat = mkW WSel [t_near; t_far] None (Some 100) false 0 None 0.
Proof. intros m. start m; script2; finish. Qed.

(* Script 3.  The worker receives it: `now.After` is strict, nothing runs, it re-arms with
   duration 0. *)
Ltac script3 := script2; w0_ ltac:(eapply w_recv_timer; reflexivity).

Lemma ex_loop_equal : forall m, exists s, reachable m s /\
  clock s = 100 /\ nw s = 1%nat /\
  ws s 0%nat = mkW WLoop [t_near; t_far] None None true 100 None 0.
Proof. intros m. start m; script3; finish. Qed.

(* Script 4.  Re-armed for "now"; one time unit later it fires, is received, and the nearer task
   is executed; the worker re-arms for the far one. *)
Ltac script4 :=
  script3; w0_ ltac:(eapply w_loop_reset; [reflexivity | cbn; discriminate | cbn; lia]);
  tick_ 1; go ltac:(fire 0%nat);
  w0_ ltac:(eapply w_recv_timer; reflexivity);
  w0_ ltac:(eapply (w_loop_pop _ _ _ _ [] t_near [t_far]); [reflexivity | reflexivity | reflexivity | cbn; lia]);
  w0_ ltac:(eapply w_loop_reset; [reflexivity | cbn; discriminate | cbn; lia]).

Lemma ex_executed : forall m, exists s, reachable m s /\
  clock s = 101 /\ closed s = false /\ nw s = 1%nat /\
  submitted s = [t_near; t_far] /\ done s = [mkE t_near 101 101 0] /\
  ws s 0%nat = mkW WSel [t_far] (Some 1000) None false 101 None 0.
Proof. intros m. start m; script4; finish. Qed.

(* Script 5.  A task whose deadline has already passed is Put and handed to the worker. *)
Ltac script5 :=
  script4; put_ t_late;
  go ltac:(plain ltac:(eapply s_notify; reflexivity));
  go ltac:(plain ltac:(eapply s_p_notify; reflexivity));
  go ltac:(plain ltac:(eapply s_p_swap; reflexivity));
  hand0.

Lemma ex_overdue : forall m, exists s, reachable m s /\
  clock s = 101 /\ nw s = 1%nat /\
  ws s 0%nat = mkW WTaskNow [t_far] (Some 1000) None false 101 (Some t_late) 0.
Proof. intros m. start m; script5; finish. Qed.

(* Script 6.  The timer fires between heap.Push and timer.Stop: under the asynchronous semantics
   Stop reports false with `drained` false and the worker stands at the drain with a parked
   value; under the synchronous semantics Stop discards the value and reports true. *)
Ltac script6 :=
  w0_ ltac:(eapply w_start; reflexivity);
  put_ t_near;
  go ltac:(plain ltac:(eapply s_notify; reflexivity));
  go ltac:(plain ltac:(eapply s_p_notify; reflexivity));
  go ltac:(plain ltac:(eapply s_p_swap; reflexivity));
  hand0;
  w0_ ltac:(eapply w_task_now; reflexivity);
  w0_ ltac:(eapply w_task_push; reflexivity);
  go ltac:(fire 0%nat);
  w0_ ltac:(eapply w_stop; reflexivity).

Lemma ex_drain_async : exists s, reachable Async s /\ nw s = 1%nat /\
  ws s 0%nat = mkW WDrain [t_near] None (Some 0) false 0 None 0.
Proof. assert (R : reachable Async (init 1 0)) by constructor. script6. finish. Qed.

Lemma ex_no_drain_sync : exists s, reachable Sync s /\ nw s = 1%nat /\
  ws s 0%nat = mkW WReset [t_near] None None false 0 None 0.
Proof. assert (R : reachable Sync (init 1 0)) by constructor. script6. finish. Qed.
