(* C17 - the reference skeleton: the statement skeleton of timedsched.go from which the LTS of
   Model.v was derived by hand, and the check that the skeleton regenerated from /repo's current
   source is exactly this one.  An edit of timedsched.go that reorders the Stop/drain/Reset
   sequence, drops `drained`, changes which heap element is peeked, removes the re-arm, changes
   a channel capacity, adds a function ... changes `GenSched.skel` (or makes the translator
   abort on an unknown leaf), and `gen_matches` no longer checks.

   Correspondence between skeleton leaves and LTS steps (Model.v):
     F_Put:     Lock; S_append_prependTasks; Unlock            -> s_put      (one critical section)
                Select [Snd_chPrependNotify | default]         -> s_notify
     F_Close:   S_dieOnce_close_die                            -> s_close
     F_prepend: Rcv_chPrependNotify                            -> s_p_notify
                Lock; S_swap_slices; Unlock                    -> s_p_swap
                Range .. Select [Snd_chTask_tasks_k | Rcv_die] -> s_hand (rendezvous) | s_p_die
                S_clear_tasks_k                                -> (memory only: no model effect)
                S_tasks_truncate (range exhausted)             -> s_p_done
                outer Rcv_die                                  -> s_p_die
     F_sched:   S_timer_NewTimer_0; S_var_tasks_heap; S_drained_decl_false -> w_start
                Defer C_timer_Stop + Rcv_die; Return           -> w_die
                Rcv_task_from_chTask                           -> s_hand
                S_now_is_time_Now; Cnd_now_After_task_ts       -> w_task_now
                S_task_execute                                 -> w_task_exec
                S_heap_Push_task                               -> w_task_push
                S_stopped_is_timer_Stop; Cnd_not_stopped_and_not_drained -> w_stop
                Rcv_timer_C (statement)                        -> w_drain
                S_timer_Reset_top_minus_now; S_drained_false   -> w_reset
                Rcv_now_from_timer_C; S_drained_true           -> w_recv_timer
                Cnd_tasks_Len_pos (false)                      -> w_loop_empty
                Cnd_now_After_top_ts; S_heap_Pop_execute       -> w_loop_pop
                else S_timer_Reset_top_minus_now; S_drained_false; Break -> w_loop_reset
     F_NewTimedSched: S_chTask_unbuffered (rendezvous), S_chPrependNotify_cap1 (1-slot token),
                R_range_parallel [Go C_ts_sched], Go C_ts_prepend -> Model.init
     heap methods (Less = ts.Before, Push appends, Pop removes the last): the interface
                container/heap needs for `tasks[0]` to be a task of minimal ts -> hmin, w_loop_pop
     the runtime (not in the source): w_fire, s_tick. *)
From Coq Require Import List.
From KV.Sched Require Import IR GenSched.
Import ListNotations.

Definition reference : program :=
  [ DImport I_container_heap;
  DImport I_runtime;
  DImport I_sync;
  DImport I_time;
  DVar V_SystemTimedSched_max_NumCPU_2;
  DType T_timedFunc [Fld_execute; Fld_ts];
  DType T_timedFuncHeap [Ty_slice_timedFunc];
  DFunc F_heap_Len
    [Return (Some E_len_h)];
  DFunc F_heap_Less
    [Return (Some E_hi_ts_Before_hj_ts)];
  DFunc F_heap_Swap
    [Do S_swap_hi_hj];
  DFunc F_heap_Push
    [Do S_h_append_x];
  DFunc F_heap_Pop
    [Do S_old_is_h; Do S_n_is_len_old; Do S_x_is_old_last; Do S_clear_old_last; Do S_h_is_old_but_last; Return (Some E_x)];
  DType T_TimedSched [Fld_prependTasks; Fld_prependLock; Fld_chPrependNotify; Fld_chTask; Fld_dieOnce; Fld_die];
  DFunc F_NewTimedSched
    [Do S_ts_new; Do S_chTask_unbuffered; Do S_die_unbuffered; Do S_chPrependNotify_cap1; Range R_range_parallel [Go C_ts_sched]; Go C_ts_prepend; Return (Some E_ts)];
  DFunc F_sched
    [Do S_timer_NewTimer_0; Defer C_timer_Stop; Do S_var_tasks_heap; Do S_drained_decl_false; For None [Select [(Some Rcv_task_from_chTask, [Do S_now_is_time_Now; If Cnd_now_After_task_ts [Do S_task_execute] [Do S_heap_Push_task; Do S_stopped_is_timer_Stop; If Cnd_not_stopped_and_not_drained [Do Rcv_timer_C] []; Do S_timer_Reset_top_minus_now; Do S_drained_false]]); (Some Rcv_now_from_timer_C, [Do S_drained_true; For (Some Cnd_tasks_Len_pos) [If Cnd_now_After_top_ts [Do S_heap_Pop_execute] [Do S_timer_Reset_top_minus_now; Do S_drained_false; Break]]]); (Some Rcv_die, [Return None])]]];
  DFunc F_prepend
    [Do S_var_tasks_slice; For None [Select [(Some Rcv_chPrependNotify, [Do S_prependLock_Lock; Do S_swap_slices; Do S_prependLock_Unlock; Range R_k_range_tasks [Select [(Some Snd_chTask_tasks_k, [Do S_clear_tasks_k]); (Some Rcv_die, [Return None])]]; Do S_tasks_truncate]); (Some Rcv_die, [Return None])]]];
  DFunc F_Put
    [Do S_prependLock_Lock; Do S_append_prependTasks; Do S_prependLock_Unlock; Select [(Some Snd_chPrependNotify, []); (None, [])]];
  DFunc F_Close
    [Do S_dieOnce_close_die] ].

Theorem gen_matches : GenSched.skel = reference.
Proof. vm_compute. reflexivity. Qed.
