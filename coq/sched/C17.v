(* C17 - timed scheduler: every task runs exactly once, never early.
   Statements only; every proof is `exact <lemma>`.

   `reachable m s`: s is reachable in the LTS of timedsched.go (Model.v) from NewTimedSched(n) at
   any start time, through ANY interleaving of Put calls by any number of goroutines (each
   Put = append-under-lock step + a separate non-blocking notify step), prepend steps, worker
   steps, timer fires, clock ticks and Close - under timer-channel semantics m (Sync: Go >= 1.23
   default; Async: GODEBUG=asynctimerchan=1).  Deadlines are arbitrary integers (past, equal,
   increasing, decreasing, far future).  Every theorem is for BOTH semantics (forall m). *)
From Coq Require Import List ZArith Bool Arith Lia.
From KV.Sched Require Import IR GenSched Reference Model SchedInv SchedSafety SchedLive SchedExamples.
Import ListNotations.
Open Scope Z_scope.

(* ---- the tie: the skeleton regenerated from /repo's current timedsched.go is the one the LTS
   was derived from (see the table in Reference.v) *)
Theorem c17_skeleton_tie : GenSched.skel = Reference.reference.
Proof. exact gen_matches. Qed.
Print Assumptions c17_skeleton_tie.

(* ---- at most once: executed ids are pairwise distinct; a submitted task is in exactly one of
   prependTasks / prepend's in-flight slice / one worker (received or in its heap) / done; an
   executed task is nowhere else *)
Theorem c17_at_most_once : forall m s, reachable m s ->
  NoDup (map tid (done_tasks s)) /\
  (forall t, In t (submitted s) -> places (tid t) s = 1%nat) /\
  (forall i, places i s = cntid i (submitted s) /\ (cntid i (submitted s) <= 1)%nat) /\
  (forall t, In t (done_tasks s) ->
     cntid (tid t) (ptasks s) = 0%nat /\ cntid (tid t) (inflight s) = 0%nat /\
     cnt_workers (tid t) (ws s) (nw s) = 0%nat).
Proof.
  intros m s R. split; [exact (executed_once m s R)|]. split; [intros; eapply submitted_one_place; eauto|].
  split; [exact (one_place m s R) | intros; eapply executed_gone; eauto].
Qed.
Print Assumptions c17_at_most_once.

(* ---- never early: every execute() happened after a clock reading `now` with
   deadline < now (strict, as coded: now.After(ts)), and no clock reading (time.Now() or a
   value delivered by the timer) is ahead of real time; real time is monotone *)
Theorem c17_never_early : forall m s, reachable m s ->
  (forall e, In e (done s) -> tts (etask e) < enow e /\ enow e <= eclk e /\ eclk e <= clock s) /\
  (forall i, wnow (ws s i) <= clock s /\ (forall v, buf (ws s i) = Some v -> v <= clock s)) /\
  (forall l s', step m s l s' ->
     clock s <= clock s' /\
     (done s' = done s \/
      exists i t, l = LWork i /\ done s' = mkE t (wnow (ws s i)) (clock s) i :: done s /\
                  tts t < wnow (ws s i) /\ wnow (ws s i) <= clock s /\ In t (wtasks (ws s i)))).
Proof.
  intros m s R. split; [exact (never_early m s R)|].
  split; [intros; eapply clock_reads_not_ahead; eauto|].
  intros l s' St. split; [eapply clock_monotone; eauto | eapply exec_step_overdue; eauto].
Qed.
Print Assumptions c17_never_early.

(* ---- the crux, both semantics: a worker at its select with a non-empty heap has its timer
   armed for at most (heap minimum + wlag) and nothing stale in the channel, or the timer has
   fired and the value is receivable; wlag is the worker's own latency between reading the clock
   and calling Reset (c17_far_future_no_delay: wlag = clock - now at that Reset, >= 0).
   The drain `<-timer.C` never blocks: when a worker stands there a value is parked (Async);
   under Sync the branch is never taken.  `drained` is exact at the select. *)
Theorem c17_timer_armed : forall m s i, reachable m s ->
  ((i < nw s)%nat -> pc (ws s i) = WSel -> heap (ws s i) <> [] ->
     (exists a, armed (ws s i) = Some a /\ a <= hmin (heap (ws s i)) + wlag (ws s i) /\
                buf (ws s i) = None) \/
     (exists v, buf (ws s i) = Some v /\ v <= clock s /\ armed (ws s i) = None)) /\
  (pc (ws s i) = WDrain -> m = Async /\ exists v, buf (ws s i) = Some v) /\
  (m = Sync -> pc (ws s i) <> WDrain) /\
  (pc (ws s i) = WSel ->
     (armed (ws s i) <> None -> buf (ws s i) = None) /\
     (drained (ws s i) = true <-> armed (ws s i) = None /\ buf (ws s i) = None)).
Proof.
  intros m s i R. split; [intros; eapply timer_armed_at_select; eauto|].
  split; [intros; eapply drain_never_blocks; eauto|].
  split; [intros -> ; apply drain_unreachable_sync; auto | intros; eapply no_stale_value; eauto].
Qed.
Print Assumptions c17_timer_armed.

(* ---- a worker of an open scheduler never blocks inside a branch: from anywhere in its code
   it is back at its select after finitely many of ITS OWN steps (no tick, no fire, nobody
   else), and every task it held is then in its heap or executed *)
Theorem c17_worker_returns : forall m s i, reachable m s -> (i < nw s)%nat -> closed s = false ->
  exists s', wsteps m i s s' /\ pc (ws s' i) = WSel /\ clock s' = clock s /\
    forall t, In t (wtasks (ws s i)) -> In t (heap (ws s' i)) \/ In t (done_tasks s').
Proof.
  intros m s i R Hi Cl.
  destruct (worker_returns m i s (reachable_inv m s R) Hi Cl) as [s' [W [F [P T]]]].
  exists s'. repeat split; auto. apply (f_clock _ _ _ F).
Qed.
Print Assumptions c17_worker_returns.

(* ---- progress, stated constructively: from every reachable state of a scheduler that is not
   closed and has at least one worker, for every task submitted so far there is a finite
   continuation consisting only of scheduler steps (pending notifies, prepend, workers, timer
   fires, clock ticks - no further Put, no Close) after which the task has been executed.
   (Weak fairness of the Go runtime towards prepend, the workers and the timers turns this
   "can always still happen" into "happens"; that step is outside the model.) *)
Theorem c17_runs : forall m s t, reachable m s -> closed s = false -> (0 < nw s)%nat ->
  In t (submitted s) -> exists s', isteps m s s' /\ In t (done_tasks s').
Proof. exact runs. Qed.
Print Assumptions c17_runs.

(* ---- promptness *)
(* (a) overdue on receipt: the worker's next two steps are the clock read and execute() *)
(* (b) first delivery after the deadline: when the worker receives timer value v, every task
       with deadline < v is executed before the worker is back at its select, by the worker's
       steps alone and without the clock moving; the rest stays and the timer is re-armed *)
(* (c) delivered time = deadline (After is strict): re-armed for the current instant *)
Theorem c17_prompt : forall m s i, reachable m s -> (i < nw s)%nat ->
  (forall t s1, step m s (LWork i) s1 ->
     pc (ws s i) = WTaskNow -> cur (ws s i) = Some t -> tts t < clock s ->
     pc (ws s1 i) = WTaskExec /\ cur (ws s1 i) = Some t /\ clock s1 = clock s) /\
  (forall t s1, step m s (LWork i) s1 ->
     pc (ws s i) = WTaskExec -> cur (ws s i) = Some t ->
     done s1 = mkE t (wnow (ws s i)) (clock s) i :: done s /\ pc (ws s1 i) = WSel) /\
  (forall v, pc (ws s i) = WSel -> buf (ws s i) = Some v ->
     exists s', wsteps m i s s' /\ clock s' = clock s /\ pc (ws s' i) = WSel /\
       (forall t, In t (heap (ws s i)) ->
          (tts t < v -> In t (done_tasks s')) /\ (v <= tts t -> In t (heap (ws s' i)))) /\
       (heap (ws s' i) <> [] ->
          armed (ws s' i) = Some (hmin (heap (ws s' i)) + (clock s - v)) /\ buf (ws s' i) = None)) /\
  (forall s1, step m s (LWork i) s1 ->
     pc (ws s i) = WLoop -> heap (ws s i) <> [] -> wnow (ws s i) = hmin (heap (ws s i)) ->
     armed (ws s1 i) = Some (clock s) /\ pc (ws s1 i) = WSel /\ heap (ws s1 i) = heap (ws s i) /\
     clock s1 = clock s).
Proof.
  intros m s i R Hi. split; [intros; eapply overdue_step1; eauto|].
  split; [intros; eapply overdue_step2; eauto|]. split; [|intros; eapply equal_deadline_rearm; eauto].
  intros v P B. destruct (delivery_runs m i s v (reachable_inv m s R) Hi P B) as [s' [W [F [P' [T A]]]]].
  exists s'. repeat split; auto; try apply (f_clock _ _ _ F); try apply T; auto; apply A; auto.
Qed.
Print Assumptions c17_prompt.

(* ---- a far-future task never delays a nearer one: every step that changes a worker's armed
   time (after NewTimer) arms it for the minimum over the WHOLE heap plus (clock - now), and
   brings the worker back to its select; hence at the select the armed time is at most
   deadline + wlag for EVERY task of the heap *)
Theorem c17_far_future_no_delay : forall m s i, reachable m s ->
  (forall s', step m s (LWork i) s' -> pc (ws s i) <> WStart ->
     armed (ws s' i) <> armed (ws s i) -> armed (ws s' i) <> None ->
     armed (ws s' i) = Some (hmin (heap (ws s' i)) + (clock s - wnow (ws s i))) /\
     wlag (ws s' i) = clock s - wnow (ws s i) /\ 0 <= clock s - wnow (ws s i) /\
     (forall u, In u (heap (ws s' i)) -> hmin (heap (ws s' i)) <= tts u) /\
     pc (ws s' i) = WSel) /\
  (forall a u, (i < nw s)%nat -> pc (ws s i) = WSel -> armed (ws s i) = Some a ->
     In u (heap (ws s i)) -> a <= tts u + wlag (ws s i)).
Proof.
  intros m s i R. split; [intros; eapply rearm_to_minimum; eauto | intros; eapply far_future_no_delay; eauto].
Qed.
Print Assumptions c17_far_future_no_delay.

(* ---- Close.  All safety theorems above hold across Close (it is a step of `reachable`).
   Progress is claimed only while the scheduler is open (c17_runs: closed s = false, and the
   continuation contains no Close).  The code guarantees nothing for tasks that have not run
   when Close is called - "submitted before it is closed" must be read as "and the scheduler is
   not closed before the task has run": a task Put strictly before Close may never run,
   however far the clock advances. *)
Theorem c17_close_may_drop : forall m c0 t,
  reachable m (dropped_state c0 t) /\ In t (submitted (dropped_state c0 t)) /\
  closed (dropped_state c0 t) = true /\
  forall s', steps m (dropped_state c0 t) s' -> ~ In t (done_tasks s').
Proof. exact close_may_drop. Qed.
Print Assumptions c17_close_may_drop.

(* ---- non-vacuity: concrete reachable states satisfying the hypotheses above (both semantics
   unless stated) *)
(* a far-future task arrived first, a nearer one second: armed for the nearer (c17_timer_armed,
   c17_far_future_no_delay, c17_runs hypotheses) *)
Example c17_ex_armed : forall m, exists s, reachable m s /\
  clock s = 0 /\ closed s = false /\ nw s = 1%nat /\ pp s = PSel /\
  submitted s = [t_near; t_far] /\ done s = [] /\
  ws s 0%nat = mkW WSel [t_near; t_far] (Some 100) None false 0 None 0.
Proof. exact ex_armed. Qed.
(* fired, value (= the nearer deadline exactly) receivable: second disjunct of c17_timer_armed,
   hypothesis of c17_prompt (b) *)
Example c17_ex_delivered_equal : forall m, exists s, reachable m s /\
  clock s = 100 /\ closed s = false /\ nw s = 1%nat /\
  ws s 0%nat = mkW WSel [t_near; t_far] None (Some 100) false 0 None 0.
Proof. exact ex_delivered_equal. Qed.
(* in the loop with now = heap minimum: hypothesis of c17_prompt (c) *)
Example c17_ex_loop_equal : forall m, exists s, reachable m s /\
  clock s = 100 /\ nw s = 1%nat /\
  ws s 0%nat = mkW WLoop [t_near; t_far] None None true 100 None 0.
Proof. exact ex_loop_equal. Qed.
(* one task executed (at 101 > 100), re-armed for the far one: c17_never_early, c17_at_most_once *)
Example c17_ex_executed : forall m, exists s, reachable m s /\
  clock s = 101 /\ closed s = false /\ nw s = 1%nat /\
  submitted s = [t_near; t_far] /\ done s = [mkE t_near 101 101 0] /\
  ws s 0%nat = mkW WSel [t_far] (Some 1000) None false 101 None 0.
Proof. exact ex_executed. Qed.
(* an already overdue task just received: hypothesis of c17_prompt (a) *)
Example c17_ex_overdue : forall m, exists s, reachable m s /\
  clock s = 101 /\ nw s = 1%nat /\
  ws s 0%nat = mkW WTaskNow [t_far] (Some 1000) None false 101 (Some t_late) 0.
Proof. exact ex_overdue. Qed.
(* the drain IS reached under Async (timer fired between Push and Stop) with a parked value;
   the same interleaving under Sync goes straight to Reset *)
Example c17_ex_drain_async : exists s, reachable Async s /\ nw s = 1%nat /\
  ws s 0%nat = mkW WDrain [t_near] None (Some 0) false 0 None 0.
Proof. exact ex_drain_async. Qed.
Example c17_ex_no_drain_sync : exists s, reachable Sync s /\ nw s = 1%nat /\
  ws s 0%nat = mkW WReset [t_near] None None false 0 None 0.
Proof. exact ex_no_drain_sync. Qed.
