(* C17 - the inductive invariant of the scheduler LTS (DESIGN Appendix B.4 / D.6) and its
   preservation by every step, for both timer semantics. *)
From Coq Require Import List ZArith Bool Arith Lia.
From KV.Sched Require Import Model.
Import ListNotations.
Open Scope Z_scope.

(* ---------------------------------------------------------------- heap minimum *)
Lemma hmin_from_le_m : forall l m, hmin_from m l <= m.
Proof. induction l; simpl; intros; [lia|]. specialize (IHl (Z.min m (tts a))). lia. Qed.

Lemma hmin_from_le_in : forall l m u, In u l -> hmin_from m l <= tts u.
Proof.
  induction l; simpl; intros; [tauto|]. destruct H.
  - subst. pose proof (hmin_from_le_m l (Z.min m (tts u))). lia.
  - eauto.
Qed.

Lemma hmin_le : forall l u, In u l -> hmin l <= tts u.
Proof.
  destruct l; simpl; intros; [tauto|]. destruct H.
  - subst. apply hmin_from_le_m.
  - eapply hmin_from_le_in; eauto.
Qed.

Lemma hmin_from_attained : forall l m, hmin_from m l = m \/ exists u, In u l /\ tts u = hmin_from m l.
Proof.
  induction l; simpl; intros; [auto|].
  destruct (IHl (Z.min m (tts a))) as [E|[u [I E]]].
  - destruct (Z.min_spec m (tts a)) as [[_ M]|[_ M]].
    + left; lia.
    + right; exists a; split; auto. lia.
  - right; exists u; auto.
Qed.

Lemma hmin_in : forall l, l <> [] -> exists u, In u l /\ tts u = hmin l.
Proof.
  destruct l; [tauto|]. intros _. simpl.
  destruct (hmin_from_attained l (tts t)) as [E|[u [I E]]].
  - exists t; split; auto.
  - exists u; split; auto.
Qed.

(* ---------------------------------------------------------------- per-worker invariant *)
Definition timer_ok (m : sem) (w : worker) : Prop :=
  match pc w with
  | WStart | WExit => True
  | WSel | WTaskNow | WTaskExec | WTaskPush | WStop =>
      (armed w <> None -> buf w = None) /\
      (drained w = true -> armed w = None /\ buf w = None) /\
      (drained w = false -> armed w <> None \/ buf w <> None)
  | WDrain => m = Async /\ armed w = None /\ buf w <> None
  | WReset => armed w = None /\ buf w = None
  | WLoop => armed w = None /\ buf w = None /\ drained w = true
  end.

(* J: with a non-empty heap the timer is armed for at most (heap minimum + the worker's own
   latency between its clock read and its Reset), or its value is waiting to be received *)
Definition armed_ok (w : worker) : Prop :=
  match pc w with
  | WSel | WTaskNow | WTaskExec =>
      heap w <> [] ->
      (exists a, armed w = Some a /\ a <= hmin (heap w) + wlag w) \/ buf w <> None
  | _ => True
  end.

Definition cur_ok (w : worker) : Prop :=
  match pc w with
  | WTaskNow | WTaskPush => exists t, cur w = Some t
  | WTaskExec => exists t, cur w = Some t /\ tts t < wnow w
  | _ => cur w = None
  end.

Record winv (m : sem) (clk : Z) (cl : bool) (w : worker) : Prop := mkWinv {
  wi_timer : timer_ok m w;
  wi_armed : armed_ok w;
  wi_cur : cur_ok w;
  wi_now : wnow w <= clk;
  wi_buf : forall v, buf w = Some v -> v <= clk;
  wi_lag : 0 <= wlag w;
  wi_exit : cl = false -> pc w <> WExit;
  wi_start : pc w = WStart -> heap w = []
}.

Lemma winv_mono : forall m clk clk' cl cl' w,
  winv m clk cl w -> clk <= clk' -> (cl = false \/ cl' = true) -> winv m clk' cl' w.
Proof.
  intros m clk clk' cl cl' w [] Hc Hl. constructor; auto; try lia.
  - intros v Hv. specialize (wi_buf0 v Hv). lia.
  - intros E. destruct Hl; subst; auto; discriminate.
Qed.

Lemma winv_w0 : forall m clk cl, winv m clk cl (w0 clk).
Proof.
  intros. constructor; unfold timer_ok, armed_ok, cur_ok; simpl; intros; auto; try lia; try discriminate.
Qed.

Definition ev_cnt (i : nat) (ev : option (task * Z)) : nat :=
  match ev with Some (t, _) => if Nat.eqb (tid t) i then 1 else 0 | None => 0 end.

Lemma cntid_app : forall i l1 l2, cntid i (l1 ++ l2) = (cntid i l1 + cntid i l2)%nat.
Proof. induction l1; simpl; intros; auto. rewrite IHl1. lia. Qed.

Ltac inv_opts :=
  repeat match goal with
  | H : Some _ = Some _ |- _ => inversion H; subst; clear H
  | H : Some _ = None |- _ => discriminate H
  | H : None = Some _ |- _ => discriminate H
  | H : ?x <> ?x |- _ => exfalso; apply H; reflexivity
  end.

(* the central local lemma: every worker / timer step preserves the worker invariant, executes
   only overdue tasks, and moves a task from the worker to `done` or nowhere *)
Lemma wstep_winv : forall m clk cl w l w' ev,
  winv m clk cl w -> wstep m clk cl w l w' ev ->
  winv m clk cl w' /\
  (forall t n, ev = Some (t, n) -> tts t < n /\ n <= clk) /\
  (forall i, cntid i (wtasks w) = (cntid i (wtasks w') + ev_cnt i ev)%nat).
Proof.
  intros m clk cl w l w' ev [Ht Ha Hc Hn Hb Hl He Hs] St.
  unfold timer_ok, armed_ok, cur_ok in *.
  inversion St; subst; clear St; simpl.
  1: { (* fire *)
    split; [|split]; [| intros; discriminate | intros; unfold wtasks; simpl; lia].
    constructor; unfold timer_ok, armed_ok, cur_ok; simpl; auto.
    + destruct (pc w); auto.
      all: try (destruct Ht as [T1 [T2 T3]];
                assert (B : buf w = None) by (apply T1; congruence); rewrite B;
                split; [congruence|]; split;
                [intros D; destruct (T2 D); congruence | intros; right; discriminate]).
      all: destruct Ht as [? ?]; intuition congruence.
    + destruct (pc w); auto; intros; right; destruct (buf w); discriminate.
    + intros v. destruct (buf w) eqn:B; intros E; inv_opts; auto. lia. }
  all: try match goal with H : pc _ = _ |- _ => rewrite H in Ht, Ha, Hc; simpl in Ht, Ha, Hc end.
  all: (split; [|split]); try (intros; discriminate).
  all: try (intros i0; unfold wtasks; simpl; try rewrite Hc; simpl; lia).
  all: try solve [constructor; unfold timer_ok, armed_ok, cur_ok, do_reset, set_pc, buf_cleared in *; simpl; intros;
                  eauto; try lia; try congruence; try solve [intuition (eauto; try congruence; try discriminate)]].
  - (* start: count *)
    intros. unfold wtasks. rewrite Hc, (Hs H). reflexivity.
  - (* recv timer *)
    destruct Ht as [T1 [T2 T3]].
    assert (A : armed w = None).
    { destruct (armed w) eqn:E; auto. rewrite T1 in H0; congruence. }
    constructor; unfold timer_ok, armed_ok, cur_ok; simpl; intros; auto; try congruence;
      try solve [eapply Hb; eauto].
  - (* die *)
    constructor; unfold timer_ok, armed_ok, cur_ok, buf_cleared; simpl; intros; auto; try congruence.
    destruct m; try discriminate; eauto.
  - (* task now *)
    destruct Hc as [t' Hc]. assert (t' = t) by congruence. subst t'.
    destruct (tts t <? clk) eqn:E;
      [apply Z.ltb_lt in E | apply Z.ltb_ge in E];
      constructor; unfold timer_ok, armed_ok, cur_ok; simpl; intros; eauto; try lia; congruence.
  - (* exec: only overdue *)
    intros t0 n E. inversion E; subst. destruct Hc as [t' [Hc Hlt]].
    assert (t' = t0) by congruence. subst. lia.
  - intros. unfold wtasks. simpl. rewrite H0. simpl. lia.
  - intros. unfold wtasks. rewrite H0. simpl. lia.
  - (* stop *)
    destruct Ht as [T1 [T2 T3]].
    unfold stop_result, buf_cleared.
    destruct m, (armed w) eqn:EA, (buf w) eqn:EB, (drained w) eqn:ED; simpl;
      constructor; unfold timer_ok, armed_ok, cur_ok; simpl; intros; auto; try congruence;
      try solve [intuition (try congruence; try discriminate)]; try solve [eapply Hb; eauto].
  - (* reset *)
    destruct Ht as [T1 T2].
    unfold do_reset, buf_cleared. rewrite T2.
    constructor; unfold timer_ok, armed_ok, cur_ok; simpl; intros; auto; try lia; try congruence;
      try solve [destruct m; congruence].
    + repeat split; try (destruct m; reflexivity); intros; try discriminate. left; discriminate.
    + left. eexists; split; [reflexivity|]. lia.
  - (* pop: count *)
    intros. unfold wtasks. simpl. rewrite H0. destruct (cur w); simpl; rewrite !cntid_app; simpl; lia.
  - (* loop reset *)
    destruct Ht as [T1 [T2 T3]].
    unfold do_reset, buf_cleared. rewrite T2.
    constructor; unfold timer_ok, armed_ok, cur_ok; simpl; intros; auto; try lia; try congruence;
      try solve [destruct m; congruence].
    + repeat split; try (destruct m; reflexivity); intros; try discriminate. left; discriminate.
    + left. eexists; split; [reflexivity|]. lia.
Qed.


(* ---------------------------------------------------------------- global invariant *)
Definition done_ok (s : state) : Prop :=
  forall e, In e (done s) -> tts (etask e) < enow e /\ enow e <= eclk e /\ eclk e <= clock s.

Record inv (m : sem) (s : state) : Prop := mkInv {
  i_w : forall i, winv m (clock s) (closed s) (ws s i);
  i_done : done_ok s;
  i_places : forall i, places i s = cntid i (submitted s);
  i_fresh : forall i, (cntid i (submitted s) <= 1)%nat;
  i_pp : pp s = PSel \/ pp s = PGot -> inflight s = [];
  i_exit : closed s = false -> pp s <> PExit;
  i_notify : ptasks s <> [] -> notify s = true \/ (pending s > 0)%nat \/ pp s = PGot
}.

Lemma upd_same : forall f i w, upd f i w i = w.
Proof. intros. unfold upd. rewrite Nat.eqb_refl. auto. Qed.
Lemma upd_other : forall f i w j, j <> i -> upd f i w j = f j.
Proof. intros. unfold upd. destruct (Nat.eqb_spec j i); congruence. Qed.

Lemma cnt_workers_upd_out : forall k f i w n, (n <= i)%nat ->
  cnt_workers k (upd f i w) n = cnt_workers k f n.
Proof.
  induction n; simpl; intros; auto. rewrite IHn by lia. rewrite upd_other by lia. auto.
Qed.

Lemma cnt_workers_upd : forall k f i w n, (i < n)%nat ->
  (cnt_workers k (upd f i w) n + cntid k (wtasks (f i)) =
   cnt_workers k f n + cntid k (wtasks w))%nat.
Proof.
  induction n; simpl; intros; [lia|].
  destruct (Nat.eq_dec i n).
  - subst. rewrite cnt_workers_upd_out by lia. rewrite upd_same. lia.
  - rewrite upd_other by lia. specialize (IHn ltac:(lia)). lia.
Qed.

Lemma cntid_fresh : forall t l, (forall u, In u l -> tid u <> tid t) -> cntid (tid t) l = 0%nat.
Proof.
  induction l; simpl; intros; auto.
  rewrite IHl by auto. destruct (Nat.eqb_spec (tid a) (tid t)); auto.
  exfalso. eapply H; eauto.
Qed.

Lemma cntid_other : forall t l i, i <> tid t -> cntid i (l ++ [t]) = cntid i l.
Proof. intros. rewrite cntid_app. simpl. destruct (Nat.eqb_spec (tid t) i); try lia; congruence. Qed.

Lemma inv_init : forall m n c0, inv m (init n c0).
Proof.
  intros. constructor; simpl; auto; try discriminate; try tauto.
  - intros. apply winv_w0.
  - intros e [].
  - intros. unfold places, done_tasks. simpl.
    assert (cnt_workers i (fun _ => w0 c0) n = 0%nat) by (induction n; simpl; auto; rewrite IHn; auto).
    lia.
Qed.

Lemma inv_step : forall m s l s', inv m s -> step m s l s' -> inv m s'.
Proof.
  intros m s l s' [Hw Hd Hp Hf Hpp Hx Hn] St.
  inversion St; subst; clear St; constructor; simpl.
  (* 10 steps x 7 components; the easy ones first *)
  all: try assumption.
  all: try (intros; congruence).
  all: try (intros [E|E]; discriminate).
  - (* 1 tick: workers *)
    intros. eapply winv_mono; eauto; try lia. destruct (closed s); auto.
  - (* 2 tick: done *)
    intros e He. destruct (Hd e He) as [? [? ?]]. simpl. repeat split; auto; lia.
  - (* 3 put: places *)
    intros i. specialize (Hp i). unfold places, done_tasks in *. simpl. rewrite cntid_app. simpl. destruct (tid t =? i)%nat; lia.
  - (* 4 put: fresh *)
    intros i. destruct (Nat.eqb_spec (tid t) i).
    + subst. rewrite cntid_fresh; auto.
    + specialize (Hf i). lia.
  - (* 5 put: notify *) intros. right; left; lia.
  - (* 6 notify *) intros; auto.
  - (* 7 close: workers *) intros. eapply winv_mono; eauto; lia.
  - (* 8 prepend got notify: inflight *) intros; auto.
  - (* 9 *) intros; auto.
  - (* 10 swap: places *)
    intros i. specialize (Hp i). unfold places, done_tasks in *. simpl.
    rewrite (Hpp (or_intror H)) in Hp. simpl in Hp. lia.
  - (* 11 hand-off: workers *)
    intros j. unfold upd. destruct (Nat.eqb_spec j i); auto. subst j.
    destruct (Hw i) as [Ht Ha Hc Hnw Hb Hl He Hs].
    unfold timer_ok, armed_ok, cur_ok in *. rewrite H2 in *.
    constructor; unfold timer_ok, armed_ok, cur_ok, received; simpl; eauto; try discriminate.
  - (* 12 hand-off: places *)
    intros k. specialize (Hp k). unfold places, done_tasks in *. simpl. rewrite H0 in Hp. simpl in Hp.
    pose proof (cnt_workers_upd k (ws s) i (received (ws s i) t) (nw s) H1) as C.
    destruct (Hw i) as [_ _ Hc _ _ _ _ _]. unfold cur_ok in Hc. rewrite H2 in Hc.
    unfold wtasks, received in C. simpl in C. rewrite Hc in C. simpl in C.
    unfold received. destruct (tid t =? k)%nat; lia.
  - (* 13 hand-off: notify *)
    intros HH. destruct (Hn HH) as [?|[?|?]]; auto. congruence.
  - (* 14 range exhausted: places *)
    intros i. specialize (Hp i). unfold places, done_tasks in *. simpl. rewrite H0 in Hp. auto.
  - (* 15 range exhausted: notify *)
    intros HH. destruct (Hn HH) as [?|[?|?]]; auto. congruence.
  - (* 16 prepend die: notify *)
    intros HH. destruct (Hn HH) as [?|[?|?]]; auto. destruct H0 as [?|[? ?]]; congruence.
  - (* 17 worker: workers *)
    destruct (wstep_winv _ _ _ _ _ _ _ (Hw i) H0) as [W' [Ev Cn]].
    intros j. unfold upd. destruct (Nat.eqb_spec j i); subst; auto.
  - (* 18 worker: done *)
    destruct (wstep_winv _ _ _ _ _ _ _ (Hw i) H0) as [W' [Ev Cn]].
    intros e He. unfold add_done in He. simpl in He. destruct ev as [[t n]|].
    + destruct He as [<-|He]; simpl.
      * destruct (Ev t n eq_refl). repeat split; auto; lia.
      * apply (Hd e He).
    + apply (Hd e He).
  - (* 19 worker: places *)
    destruct (wstep_winv _ _ _ _ _ _ _ (Hw i) H0) as [W' [Ev Cn]].
    intros k. specialize (Hp k). unfold places, done_tasks in *. simpl.
    pose proof (cnt_workers_upd k (ws s) i w' (nw s) H) as C. specialize (Cn k).
    unfold add_done, ev_cnt in *. destruct ev as [[t n]|]; simpl; lia.
Qed.

Lemma reachable_inv : forall m s, reachable m s -> inv m s.
Proof. induction 1; [apply inv_init | eapply inv_step; eauto]. Qed.
