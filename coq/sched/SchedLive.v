(* C17 - progress: from every reachable state of an open scheduler there is a finite
   continuation of scheduler steps (no new Put, no Close) after which a submitted task has been
   executed; plus the quantitative lemmas (immediately if overdue; on the first timer delivery
   after the deadline; immediate re-arm when the delivered time equals the deadline). *)
From Coq Require Import List ZArith Bool Arith Lia.
From KV.Sched Require Import Model SchedInv SchedSafety.
Import ListNotations.
Open Scope Z_scope.

(* ---------------------------------------------------------------- plumbing *)
Definition after (s : state) (i : nat) (w' : worker) (ev : option (task * Z)) : state :=
  mkS (clock s) (closed s) (ptasks s) (notify s) (pending s) (pp s) (inflight s) (nw s)
      (upd (ws s) i w') (submitted s) (add_done s i ev).

Lemma work_step : forall m s i w' ev, (i < nw s)%nat ->
  wstep m (clock s) (closed s) (ws s i) LStep w' ev -> step m s (LWork i) (after s i w' ev).
Proof. intros. exact (s_work m s i LStep w' ev H H0). Qed.

(* s' differs from s only in worker i and in `done` (which grew) *)
Record frame (i : nat) (s s' : state) : Prop := mkFrame {
  f_clock : clock s' = clock s;
  f_closed : closed s' = closed s;
  f_ptasks : ptasks s' = ptasks s;
  f_notify : notify s' = notify s;
  f_pending : pending s' = pending s;
  f_pp : pp s' = pp s;
  f_inflight : inflight s' = inflight s;
  f_nw : nw s' = nw s;
  f_sub : submitted s' = submitted s;
  f_ws : forall j, j <> i -> ws s' j = ws s j;
  f_done : forall t, In t (done_tasks s) -> In t (done_tasks s')
}.

Lemma frame_refl : forall i s, frame i s s.
Proof. intros; constructor; auto. Qed.

Lemma frame_trans : forall i s1 s2 s3, frame i s1 s2 -> frame i s2 s3 -> frame i s1 s3.
Proof.
  intros i s1 s2 s3 [] []. constructor; try congruence; auto.
  intros. rewrite f_ws1, f_ws0; auto.
Qed.

Lemma frame_after : forall s i w' ev, frame i s (after s i w' ev).
Proof.
  intros. constructor; simpl; auto.
  - intros. apply upd_other; auto.
  - intros t. unfold done_tasks, add_done. simpl. destruct ev as [[? ?]|]; simpl; auto.
Qed.

Lemma wsteps_trans : forall m i s1 s2 s3, wsteps m i s1 s2 -> wsteps m i s2 s3 -> wsteps m i s1 s3.
Proof. induction 1; auto. intros. econstructor; eauto. Qed.

Lemma isteps_trans : forall m s1 s2 s3, isteps m s1 s2 -> isteps m s2 s3 -> isteps m s1 s3.
Proof. induction 1; auto. intros. econstructor; eauto. Qed.

Lemma wsteps_isteps : forall m i s s', wsteps m i s s' -> isteps m s s'.
Proof. induction 1; [constructor|]. econstructor; eauto. Qed.

Lemma isteps_one : forall m s l s', step m s l s' -> internal l = true -> isteps m s s'.
Proof. intros. econstructor; eauto. constructor. Qed.

Lemma isteps_inv : forall m s s', isteps m s s' -> inv m s -> inv m s'.
Proof. induction 1; auto. intros. apply IHisteps. eapply inv_step; eauto. Qed.

Lemma wsteps_inv : forall m i s s', wsteps m i s s' -> inv m s -> inv m s'.
Proof. intros. eapply isteps_inv; eauto. eapply wsteps_isteps; eauto. Qed.

Lemma isteps_reachable : forall m s s', isteps m s s' -> reachable m s -> reachable m s'.
Proof. induction 1; auto. intros. apply IHisteps. econstructor; eauto. Qed.

Lemma isteps_closed : forall m s s', isteps m s s' -> closed s' = closed s.
Proof.
  induction 1; auto. rewrite IHisteps. inversion H; subst; simpl in *; auto; discriminate.
Qed.

Lemma isteps_nw : forall m s s', isteps m s s' -> nw s' = nw s.
Proof. induction 1; auto. rewrite IHisteps. inversion H; subst; simpl in *; auto. Qed.

Lemma isteps_done : forall m s s', isteps m s s' -> forall t, In t (done_tasks s) -> In t (done_tasks s').
Proof.
  induction 1; auto. intros. apply IHisteps. inversion H; subst; simpl in *; auto.
  unfold done_tasks, add_done in *. simpl. destruct ev as [[? ?]|]; simpl; auto.
Qed.

(* ---------------------------------------------------------------- the timer branch's loop *)
(* From the head of `for tasks.Len() > 0` worker i, alone and without the clock moving,
   executes exactly the tasks whose deadline is strictly before `now`, re-arms for the rest and
   is back at its select. *)
Lemma loop_runs : forall m i n s, inv m s -> (i < nw s)%nat ->
  pc (ws s i) = WLoop -> length (heap (ws s i)) = n ->
  exists s', wsteps m i s s' /\ frame i s s' /\ pc (ws s' i) = WSel /\
    (forall t, In t (heap (ws s i)) ->
       (tts t < wnow (ws s i) -> In t (done_tasks s')) /\
       (wnow (ws s i) <= tts t -> In t (heap (ws s' i)))) /\
    (heap (ws s' i) <> [] ->
       armed (ws s' i) = Some (hmin (heap (ws s' i)) + (clock s - wnow (ws s i))) /\
       buf (ws s' i) = None) /\
    (forall t, In t (heap (ws s' i)) -> In t (heap (ws s i))).
Proof.
  intros m i n. induction n; intros s I Hi Hpc Hlen.
  - (* empty heap *)
    assert (E : heap (ws s i) = []) by (destruct (heap (ws s i)); simpl in *; [auto|lia]).
    pose proof (work_step m s i _ _ Hi (w_loop_empty m (clock s) (closed s) (ws s i) Hpc E)) as St.
    eexists. split; [econstructor; [exact St | constructor]|].
    split; [apply frame_after|]. simpl. rewrite upd_same. simpl.
    split; auto. rewrite E. split; [intros t []|]. split; [congruence|]. auto.
  - destruct (Z_lt_le_dec (hmin (heap (ws s i))) (wnow (ws s i))) as [Lt|Ge].
    + (* pop a minimal task and execute it *)
      assert (NE : heap (ws s i) <> []) by (destruct (heap (ws s i)); simpl in *; [lia|congruence]).
      destruct (hmin_in _ NE) as [u [Iu Eu]].
      destruct (in_split _ _ Iu) as [h1 [h2 Eh]].
      assert (Lu : tts u < wnow (ws s i)) by lia.
      pose proof (work_step m s i _ _ Hi
                    (w_loop_pop m (clock s) (closed s) (ws s i) h1 u h2 Hpc Eh Eu Lu)) as St.
      set (s1 := after s i _ _) in St.
      assert (I1 : inv m s1) by (eapply inv_step; eauto).
      assert (Hl1 : length (heap (ws s1 i)) = n).
      { unfold s1. simpl. rewrite upd_same. simpl. rewrite Eh in Hlen.
        rewrite app_length in *. simpl in Hlen. lia. }
      destruct (IHn s1 I1 Hi ltac:(unfold s1; simpl; rewrite upd_same; auto) Hl1)
        as [s' [W [F [P [T [A Sub]]]]]].
      assert (Hn1 : wnow (ws s1 i) = wnow (ws s i)) by (unfold s1; simpl; rewrite upd_same; auto).
      assert (Hh1 : heap (ws s1 i) = h1 ++ h2) by (unfold s1; simpl; rewrite upd_same; auto).
      exists s'. split; [econstructor; eauto|].
      split; [eapply frame_trans; [apply frame_after | exact F]|].
      split; auto. rewrite Hn1, Hh1 in *. split; [|split].
      * intros t It. rewrite Eh in It. apply in_app_or in It.
        assert (D : t = u \/ In t (h1 ++ h2)).
        { destruct It as [It|[It|It]]; auto; right; apply in_or_app; auto. }
        destruct D as [->|D]; [|apply T; auto].
        split; [|lia]. intros _. apply (f_done _ _ _ F).
        unfold s1, done_tasks, after, add_done. simpl. auto.
      * exact A.
      * intros t It. apply Sub in It. rewrite Eh. apply in_app_or in It.
        apply in_or_app. destruct It; auto. right; right; auto.
    + (* re-arm for the minimum and leave the loop *)
      assert (NE : heap (ws s i) <> []) by (destruct (heap (ws s i)); simpl in *; [lia|congruence]).
      pose proof (work_step m s i _ _ Hi (w_loop_reset m (clock s) (closed s) (ws s i) Hpc NE Ge)) as St.
      destruct (i_w _ _ I i) as [Ht _ _ _ _ _ _ _]. unfold timer_ok in Ht. rewrite Hpc in Ht.
      destruct Ht as [_ [Hb _]].
      eexists. split; [econstructor; [exact St | constructor]|].
      split; [apply frame_after|]. simpl. rewrite upd_same. unfold do_reset. simpl.
      split; auto. split; [|split].
      * intros t It. split; auto. intros L. pose proof (hmin_le _ _ It). lia.
      * intros _. split; [f_equal; lia|]. unfold buf_cleared. destruct m; auto.
      * auto.
Qed.

(* ---------------------------------------------------------------- a worker always gets back to its select *)
Definition gets_to_select (m : sem) (i : nat) (s : state) : Prop :=
  exists s', wsteps m i s s' /\ frame i s s' /\ pc (ws s' i) = WSel /\
    forall t, In t (wtasks (ws s i)) -> In t (heap (ws s' i)) \/ In t (done_tasks s').

Lemma chain : forall m i s s1, step m s (LWork i) s1 -> frame i s s1 ->
  (forall t, In t (wtasks (ws s i)) -> In t (wtasks (ws s1 i)) \/ In t (done_tasks s1)) ->
  gets_to_select m i s1 -> gets_to_select m i s.
Proof.
  intros m i s s1 St F T [s' [W [F' [P T']]]].
  exists s'. split; [econstructor; eauto|]. split; [eapply frame_trans; eauto|]. split; auto.
  intros t It. destruct (T t It) as [D|D]; auto. right. apply (f_done _ _ _ F'); auto.
Qed.

Lemma sel_from_sel : forall m i s, inv m s -> pc (ws s i) = WSel -> gets_to_select m i s.
Proof.
  intros m i s I P. exists s. split; [constructor|]. split; [apply frame_refl|]. split; auto.
  destruct (i_w _ _ I i) as [_ _ Hc _ _ _ _ _]. unfold cur_ok in Hc. rewrite P in Hc.
  unfold wtasks. rewrite Hc. auto.
Qed.

Ltac one_step St I :=
  match type of St with step ?m ?s _ ?s1 =>
    let I1 := fresh "I1" in
    assert (I1 : inv m s1) by (eapply inv_step; eauto);
    eapply chain; [exact St | apply frame_after | | ]
  end.

Lemma sel_from_reset : forall m i s, inv m s -> (i < nw s)%nat -> pc (ws s i) = WReset ->
  gets_to_select m i s.
Proof.
  intros m i s I Hi P.
  pose proof (work_step m s i _ _ Hi (w_reset m (clock s) (closed s) (ws s i) P)) as St.
  one_step St I.
  - intros t It. left. simpl. rewrite upd_same. exact It.
  - apply sel_from_sel; auto. simpl. rewrite upd_same. auto.
Qed.

Lemma sel_from_drain : forall m i s, inv m s -> (i < nw s)%nat -> pc (ws s i) = WDrain ->
  gets_to_select m i s.
Proof.
  intros m i s I Hi P.
  destruct (i_w _ _ I i) as [Ht _ _ _ _ _ _ _]. unfold timer_ok in Ht. rewrite P in Ht.
  destruct Ht as [_ [_ Hb]]. destruct (buf (ws s i)) as [v|] eqn:B; [|congruence].
  pose proof (work_step m s i _ _ Hi (w_drain m (clock s) (closed s) (ws s i) v P B)) as St.
  one_step St I.
  - intros t It. left. simpl. rewrite upd_same. exact It.
  - apply sel_from_reset; auto. simpl. rewrite upd_same. auto.
Qed.

Lemma sel_from_stop : forall m i s, inv m s -> (i < nw s)%nat -> pc (ws s i) = WStop ->
  gets_to_select m i s.
Proof.
  intros m i s I Hi P.
  pose proof (work_step m s i _ _ Hi (w_stop m (clock s) (closed s) (ws s i) P)) as St.
  one_step St I.
  - intros t It. left. simpl. rewrite upd_same. exact It.
  - destruct (negb (stop_result m (ws s i)) && negb (drained (ws s i))) eqn:E.
    + apply sel_from_drain; auto. unfold after. cbn [ws]. rewrite upd_same. cbn [pc]. try rewrite E; auto.
    + apply sel_from_reset; auto. unfold after. cbn [ws]. rewrite upd_same. cbn [pc]. try rewrite E; auto.
Qed.

Lemma sel_from_push : forall m i s, inv m s -> (i < nw s)%nat -> pc (ws s i) = WTaskPush ->
  gets_to_select m i s.
Proof.
  intros m i s I Hi P.
  destruct (i_w _ _ I i) as [_ _ Hc _ _ _ _ _]. unfold cur_ok in Hc. rewrite P in Hc.
  destruct Hc as [t Hc].
  pose proof (work_step m s i _ _ Hi (w_task_push m (clock s) (closed s) (ws s i) t P Hc)) as St.
  one_step St I.
  - intros u Iu. left. simpl. rewrite upd_same. unfold wtasks in *. simpl. rewrite Hc in Iu. exact Iu.
  - apply sel_from_stop; auto. simpl. rewrite upd_same. auto.
Qed.

Lemma sel_from_exec : forall m i s, inv m s -> (i < nw s)%nat -> pc (ws s i) = WTaskExec ->
  gets_to_select m i s.
Proof.
  intros m i s I Hi P.
  destruct (i_w _ _ I i) as [_ _ Hc _ _ _ _ _]. unfold cur_ok in Hc. rewrite P in Hc.
  destruct Hc as [t [Hc _]].
  pose proof (work_step m s i _ _ Hi (w_task_exec m (clock s) (closed s) (ws s i) t P Hc)) as St.
  one_step St I.
  - intros u Iu. unfold wtasks in Iu. rewrite Hc in Iu. simpl. rewrite upd_same.
    unfold wtasks, done_tasks. simpl. destruct Iu as [<-|Iu]; auto.
  - apply sel_from_sel; auto. simpl. rewrite upd_same. auto.
Qed.

Lemma sel_from_now : forall m i s, inv m s -> (i < nw s)%nat -> pc (ws s i) = WTaskNow ->
  gets_to_select m i s.
Proof.
  intros m i s I Hi P.
  destruct (i_w _ _ I i) as [_ _ Hc _ _ _ _ _]. unfold cur_ok in Hc. rewrite P in Hc.
  destruct Hc as [t Hc].
  pose proof (work_step m s i _ _ Hi (w_task_now m (clock s) (closed s) (ws s i) t P Hc)) as St.
  one_step St I.
  - intros u Iu. left. simpl. rewrite upd_same. exact Iu.
  - destruct (tts t <? clock s) eqn:E.
    + apply sel_from_exec; auto. unfold after. cbn [ws]. rewrite upd_same. cbn [pc]. try rewrite E; auto.
    + apply sel_from_push; auto. unfold after. cbn [ws]. rewrite upd_same. cbn [pc]. try rewrite E; auto.
Qed.

Lemma sel_from_start : forall m i s, inv m s -> (i < nw s)%nat -> pc (ws s i) = WStart ->
  gets_to_select m i s.
Proof.
  intros m i s I Hi P.
  pose proof (work_step m s i _ _ Hi (w_start m (clock s) (closed s) (ws s i) P)) as St.
  one_step St I.
  - intros u Iu. left. simpl. rewrite upd_same.
    destruct (i_w _ _ I i) as [_ _ Hc _ _ _ _ Hs]. unfold cur_ok in Hc. rewrite P in Hc.
    unfold wtasks in *. rewrite Hc in Iu. rewrite (Hs P) in Iu. destruct Iu.
  - apply sel_from_sel; auto. simpl. rewrite upd_same. auto.
Qed.

Lemma sel_from_loop : forall m i s, inv m s -> (i < nw s)%nat -> pc (ws s i) = WLoop ->
  gets_to_select m i s.
Proof.
  intros m i s I Hi P.
  destruct (loop_runs m i _ s I Hi P eq_refl) as [s' [W [F [P' [T _]]]]].
  exists s'. split; auto. split; auto. split; auto.
  destruct (i_w _ _ I i) as [_ _ Hc _ _ _ _ _]. unfold cur_ok in Hc. rewrite P in Hc.
  intros t It. unfold wtasks in It. rewrite Hc in It.
  destruct (T t It) as [T1 T2].
  destruct (Z_lt_le_dec (tts t) (wnow (ws s i))); auto.
Qed.

(* A worker of an open scheduler, from wherever it is, gets back to its select by its own
   steps alone - in particular it never blocks in the drain - and every task it held is then in
   its heap or has been executed. *)
Lemma worker_returns : forall m i s, inv m s -> (i < nw s)%nat -> closed s = false ->
  gets_to_select m i s.
Proof.
  intros m i s I Hi Cl.
  destruct (pc (ws s i)) eqn:P.
  - apply sel_from_start; auto.
  - apply sel_from_sel; auto.
  - apply sel_from_now; auto.
  - apply sel_from_exec; auto.
  - apply sel_from_push; auto.
  - apply sel_from_stop; auto.
  - apply sel_from_drain; auto.
  - apply sel_from_reset; auto.
  - apply sel_from_loop; auto.
  - destruct (i_w _ _ I i) as [_ _ _ _ _ _ He _]. exfalso. apply (He Cl P).
Qed.

(* ---------------------------------------------------------------- a task in a heap gets executed *)
Definition ticked (s : state) (d : Z) : state :=
  mkS (clock s + d) (closed s) (ptasks s) (notify s) (pending s) (pp s)
      (inflight s) (nw s) (ws s) (submitted s) (done s).

Lemma timer_step : forall m s i w' ev, (i < nw s)%nat ->
  wstep m (clock s) (closed s) (ws s i) LFire w' ev -> step m s (LTimer i) (after s i w' ev).
Proof. intros. exact (s_work m s i LFire w' ev H H0). Qed.

(* the worker receives the timer value v: every task with deadline < v is executed before the
   worker is back at its select, by the worker's steps alone, without the clock moving *)
Lemma delivery_runs : forall m i s v, inv m s -> (i < nw s)%nat ->
  pc (ws s i) = WSel -> buf (ws s i) = Some v ->
  exists s', wsteps m i s s' /\ frame i s s' /\ pc (ws s' i) = WSel /\
    (forall t, In t (heap (ws s i)) ->
       (tts t < v -> In t (done_tasks s')) /\ (v <= tts t -> In t (heap (ws s' i)))) /\
    (heap (ws s' i) <> [] ->
       armed (ws s' i) = Some (hmin (heap (ws s' i)) + (clock s - v)) /\ buf (ws s' i) = None).
Proof.
  intros m i s v I Hi P B.
  pose proof (work_step m s i _ _ Hi (w_recv_timer m (clock s) (closed s) (ws s i) v P B)) as St.
  set (s1 := after s i _ _) in St.
  assert (I1 : inv m s1) by (eapply inv_step; eauto).
  assert (W1 : ws s1 i = mkW WLoop (heap (ws s i)) (armed (ws s i)) None true v (cur (ws s i)) (wlag (ws s i)))
    by (unfold s1; simpl; rewrite upd_same; auto).
  destruct (loop_runs m i _ s1 I1 Hi ltac:(rewrite W1; auto) eq_refl) as [s' [W [F [P' [T [A _]]]]]].
  rewrite W1 in T, A. simpl in T, A.
  exists s'. split; [econstructor; eauto|].
  split; [eapply frame_trans; [apply frame_after | exact F]|]. auto.
Qed.

Lemma armed_runs : forall m i s t a, inv m s -> (i < nw s)%nat ->
  pc (ws s i) = WSel -> In t (heap (ws s i)) -> armed (ws s i) = Some a -> buf (ws s i) = None ->
  exists s', isteps m s s' /\ In t (done_tasks s').
Proof.
  intros m i s t a I Hi P It A B.
  set (d := 1 + Z.max 0 (Z.max (a - clock s) (tts t - clock s))).
  assert (Hd : 0 < d) by (unfold d; lia).
  pose proof (s_tick m s d Hd) as St1. fold (ticked s d) in St1.
  set (s1 := ticked s d) in *.
  assert (I1 : inv m s1) by (eapply inv_step; eauto).
  assert (Hi1 : (i < nw s1)%nat) by exact Hi.
  assert (Ha1 : armed (ws s1 i) = Some a) by exact A.
  assert (Hle : a <= clock s1) by (unfold s1, ticked, d; cbn [clock]; lia).
  pose proof (timer_step m s1 i _ _ Hi1 (w_fire m (clock s1) (closed s1) (ws s1 i) a Ha1 Hle)) as St2.
  set (s2 := after s1 i _ _) in St2.
  assert (I2 : inv m s2) by (eapply inv_step; eauto).
  assert (P2 : pc (ws s2 i) = WSel) by (unfold s2; simpl; rewrite upd_same; auto).
  assert (B2 : buf (ws s2 i) = Some (clock s1)).
  { unfold s2, after. cbn [ws]. rewrite upd_same. cbn [buf]. unfold s1, ticked. cbn [ws clock]. rewrite B. auto. }
  assert (H2 : heap (ws s2 i) = heap (ws s i)) by (unfold s2; simpl; rewrite upd_same; auto).
  destruct (delivery_runs m i s2 (clock s1) I2 Hi P2 B2) as [s' [W [_ [_ [T _]]]]].
  exists s'. split.
  - eapply is_step; [exact St1 | reflexivity |].
    eapply is_step; [exact St2 | reflexivity |].
    eapply wsteps_isteps; eauto.
  - rewrite H2 in T. apply (T t It). unfold s1, ticked, d. cbn [clock]. lia.
Qed.

(* a task sitting in the heap of a worker at its select is executed after finitely many steps *)
Lemma heap_runs : forall m i s t, inv m s -> (i < nw s)%nat ->
  pc (ws s i) = WSel -> In t (heap (ws s i)) ->
  exists s', isteps m s s' /\ In t (done_tasks s').
Proof.
  intros m i s t I Hi P It.
  destruct (i_w _ _ I i) as [Ht Ha _ _ _ _ _ _]. unfold timer_ok, armed_ok in *. rewrite P in *.
  destruct Ht as [T1 _].
  assert (NE : heap (ws s i) <> []) by (intro E; rewrite E in It; destruct It).
  destruct (Ha NE) as [[a [A _]]|Bn].
  - eapply armed_runs; eauto. apply T1. congruence.
  - destruct (buf (ws s i)) as [v|] eqn:B; [|congruence].
    destruct (delivery_runs m i s v I Hi P B) as [s' [W [F [P' [T A]]]]].
    destruct (T t It) as [T1' T2'].
    destruct (Z_lt_le_dec (tts t) v) as [L|G].
    + exists s'. split; [eapply wsteps_isteps; eauto | auto].
    + specialize (T2' G).
      assert (NE' : heap (ws s' i) <> []) by (intro E; rewrite E in T2'; destruct T2').
      destruct (A NE') as [A1 A2].
      assert (I' : inv m s') by (eapply wsteps_inv; eauto).
      destruct (armed_runs m i s' t _ I' ltac:(rewrite (f_nw _ _ _ F); auto) P' T2' A1 A2) as [s'' [W' D]].
      exists s''. split; auto. eapply isteps_trans; [eapply wsteps_isteps; eauto | auto].
Qed.

(* a task held by a worker anywhere in its code is executed after finitely many steps *)
Lemma worker_task_runs : forall m i s t, inv m s -> (i < nw s)%nat -> closed s = false ->
  In t (wtasks (ws s i)) -> exists s', isteps m s s' /\ In t (done_tasks s').
Proof.
  intros m i s t I Hi Cl It.
  destruct (worker_returns m i s I Hi Cl) as [s' [W [F [P T]]]].
  assert (I' : inv m s') by (eapply wsteps_inv; eauto).
  destruct (T t It) as [H|D].
  - destruct (heap_runs m i s' t I' ltac:(rewrite (f_nw _ _ _ F); auto) P H) as [s'' [W' D]].
    exists s''. split; auto. eapply isteps_trans; [eapply wsteps_isteps; eauto | auto].
  - exists s'. split; auto. eapply wsteps_isteps; eauto.
Qed.

(* ---------------------------------------------------------------- from prepend to a worker *)
Definition handed (s : state) (i : nat) (t : task) (rest : list task) : state :=
  mkS (clock s) (closed s) (ptasks s) (notify s) (pending s) PFeed rest (nw s)
      (upd (ws s) i (received (ws s i) t)) (submitted s) (done s).

(* prepend hands over the head of its in-flight slice to worker 0 *)
Lemma hand_head : forall m s u rest, inv m s -> closed s = false -> (0 < nw s)%nat ->
  pp s = PFeed -> inflight s = u :: rest ->
  exists s2, isteps m s s2 /\ inv m s2 /\ closed s2 = false /\ nw s2 = nw s /\ pp s2 = PFeed /\
             inflight s2 = rest /\ ptasks s2 = ptasks s /\ In u (wtasks (ws s2 0%nat)).
Proof.
  intros m s u rest I Cl Hn Pp Fl.
  destruct (worker_returns m 0%nat s I Hn Cl) as [s1 [W [F [P _]]]].
  assert (I1 : inv m s1) by (eapply wsteps_inv; eauto).
  assert (St : step m s1 (LHand 0) (handed s1 0 u rest)).
  { apply s_hand; auto.
    - rewrite (f_pp _ _ _ F); auto.
    - rewrite (f_inflight _ _ _ F); auto.
    - rewrite (f_nw _ _ _ F); auto. }
  exists (handed s1 0 u rest).
  split; [eapply isteps_trans; [eapply wsteps_isteps; eauto | eapply isteps_one; eauto]|].
  split; [eapply inv_step; eauto|]. simpl.
  rewrite (f_closed _ _ _ F), (f_nw _ _ _ F), (f_ptasks _ _ _ F).
  repeat split; auto; try (rewrite upd_same; unfold wtasks, received; simpl; auto).
Qed.

Lemma inflight_runs : forall m t l s, inv m s -> closed s = false -> (0 < nw s)%nat ->
  pp s = PFeed -> inflight s = l -> In t l ->
  exists s', isteps m s s' /\ In t (done_tasks s').
Proof.
  intros m t. induction l; intros s I Cl Hn Pp Fl It; [destruct It|].
  destruct (hand_head m s a l I Cl Hn Pp Fl) as [s2 [W [I2 [Cl2 [N2 [P2 [F2 [_ Iu]]]]]]]].
  destruct It as [->|It].
  - destruct (worker_task_runs m 0%nat s2 t I2 ltac:(lia) Cl2 Iu) as [s' [W' D]].
    exists s'. split; auto. eapply isteps_trans; eauto.
  - destruct (IHl s2 I2 Cl2 ltac:(lia) P2 F2 It) as [s' [W' D]].
    exists s'. split; auto. eapply isteps_trans; eauto.
Qed.

Lemma inflight_drains : forall m l s, inv m s -> closed s = false -> (0 < nw s)%nat ->
  pp s = PFeed -> inflight s = l ->
  exists s', isteps m s s' /\ pp s' = PFeed /\ inflight s' = [] /\ ptasks s' = ptasks s.
Proof.
  intros m. induction l; intros s I Cl Hn Pp Fl.
  - exists s. repeat split; auto. constructor.
  - destruct (hand_head m s a l I Cl Hn Pp Fl) as [s2 [W [I2 [Cl2 [N2 [P2 [F2 [T2 _]]]]]]]].
    destruct (IHl s2 I2 Cl2 ltac:(lia) P2 F2) as [s' [W' [A [B C]]]].
    exists s'. repeat split; auto; try congruence. eapply isteps_trans; eauto.
Qed.

Lemma got_runs : forall m t s, inv m s -> closed s = false -> (0 < nw s)%nat ->
  pp s = PGot -> In t (ptasks s) -> exists s', isteps m s s' /\ In t (done_tasks s').
Proof.
  intros m t s I Cl Hn Pp It.
  pose proof (s_p_swap m s Pp) as St.
  match type of St with step _ _ _ ?x => set (s1 := x) in * end.
  assert (I1 : inv m s1) by (eapply inv_step; eauto).
  destruct (inflight_runs m t (ptasks s) s1 I1 Cl Hn eq_refl eq_refl It) as [s' [W D]].
  exists s'. split; auto. eapply is_step; eauto.
Qed.

Lemma sel_runs : forall m t s, inv m s -> closed s = false -> (0 < nw s)%nat ->
  pp s = PSel -> In t (ptasks s) -> exists s', isteps m s s' /\ In t (done_tasks s').
Proof.
  intros m t s I Cl Hn Pp It.
  assert (NE : ptasks s <> []) by (intro E; rewrite E in It; destruct It).
  assert (K : forall s0, inv m s0 -> closed s0 = false -> (0 < nw s0)%nat -> pp s0 = PSel ->
              In t (ptasks s0) -> notify s0 = true -> exists s', isteps m s0 s' /\ In t (done_tasks s')).
  { intros s0 I0 Cl0 Hn0 Pp0 It0 Nt0.
    pose proof (s_p_notify m s0 Pp0 Nt0) as St.
    match type of St with step _ _ _ ?x => set (s1 := x) in * end.
    assert (I1 : inv m s1) by (eapply inv_step; eauto).
    destruct (got_runs m t s1 I1 Cl0 Hn0 eq_refl It0) as [s' [W D]].
    exists s'. split; auto. eapply is_step; eauto. }
  destruct (i_notify _ _ I NE) as [Nt|[Pn|Pg]]; [auto | | congruence].
  destruct (pending s) as [|n] eqn:E; [lia|].
  pose proof (s_notify m s n E) as St.
  match type of St with step _ _ _ ?x => set (s1 := x) in * end.
  assert (I1 : inv m s1) by (eapply inv_step; eauto).
  destruct (K s1 I1 Cl Hn Pp It eq_refl) as [s' [W D]].
  exists s'. split; auto. eapply is_step; eauto.
Qed.

Lemma ptasks_runs : forall m t s, inv m s -> closed s = false -> (0 < nw s)%nat ->
  In t (ptasks s) -> exists s', isteps m s s' /\ In t (done_tasks s').
Proof.
  intros m t s I Cl Hn It.
  destruct (pp s) eqn:Pp.
  - apply sel_runs; auto.
  - apply got_runs; auto.
  - destruct (inflight_drains m _ s I Cl Hn Pp eq_refl) as [s1 [W [P1 [F1 T1]]]].
    assert (I1 : inv m s1) by (eapply isteps_inv; eauto).
    assert (Cl1 : closed s1 = false) by (rewrite (isteps_closed _ _ _ W); auto).
    assert (Hn1 : (0 < nw s1)%nat) by (rewrite (isteps_nw _ _ _ W); auto).
    pose proof (s_p_done m s1 P1 F1) as St.
    match type of St with step _ _ _ ?x => set (s2 := x) in * end.
    assert (I2 : inv m s2) by (eapply inv_step; eauto).
    destruct (sel_runs m t s2 I2 Cl1 Hn1 eq_refl ltac:(unfold s2; simpl; rewrite T1; auto)) as [s' [W' D]].
    exists s'. split; auto. eapply isteps_trans; [exact W|]. eapply is_step; eauto.
  - exfalso. apply (i_exit _ _ I Cl Pp).
Qed.

(* ---------------------------------------------------------------- whatever is somewhere was submitted *)
Lemma wstep_tasks : forall m clk cl w l w' ev, wstep m clk cl w l w' ev ->
  (pc w = WStart -> heap w = [] /\ cur w = None) ->
  (forall u, In u (wtasks w') -> In u (wtasks w)) /\
  (forall t n, ev = Some (t, n) -> In t (wtasks w)).
Proof.
  intros m clk cl w l w' ev St Hs. inversion St; subst; unfold wtasks; simpl;
    (split; [|intros; try discriminate]); auto.
  - intros u []. 
  - rewrite H0. simpl; auto.
  - inversion H1; subst. rewrite H0. left; auto.
  - rewrite H0. simpl; auto.
  - rewrite H0. intros u Iu.
    assert (X : In u (h1 ++ h2) -> In u (h1 ++ t :: h2)).
    { intros Y. apply in_app_or in Y. apply in_or_app. destruct Y; auto. right; right; auto. }
    destruct (cur w); simpl in *; intuition.
  - inversion H3; subst. rewrite H0. destruct (cur w); [right|]; apply in_or_app; right; left; auto.
Qed.

Record sub_ok (s : state) : Prop := mkSub {
  so_p : forall u, In u (ptasks s) -> In u (submitted s);
  so_f : forall u, In u (inflight s) -> In u (submitted s);
  so_w : forall i u, In u (wtasks (ws s i)) -> In u (submitted s);
  so_d : forall u, In u (done_tasks s) -> In u (submitted s)
}.

Lemma sub_ok_reachable : forall m s, reachable m s -> sub_ok s.
Proof.
  induction 1.
  - constructor; simpl; intros; tauto.
  - pose proof (reachable_inv m s H) as I. destruct IHreachable as [Sp Sf Sw Sd].
    inversion H0; subst; constructor; simpl; auto.
    + intros u Iu. apply in_app_or in Iu. destruct Iu as [Iu|[<-|[]]]; auto.
    + intros j u Iu. right. eauto.
    + intros u [].
    + intros u Iu. apply Sf. rewrite H2. right; auto.
    + intros j u. unfold upd. destruct (Nat.eqb_spec j i); eauto. subst.
      unfold wtasks, received. simpl. intros [<-|Iu].
      * apply Sf. rewrite H2. left; auto.
      * apply (Sw i). unfold wtasks. destruct (cur (ws s i)); simpl; auto.
    + intros u [].
    + intros j u. unfold upd. destruct (Nat.eqb_spec j i); eauto. subst.
      destruct (wstep_tasks _ _ _ _ _ _ _ H2) as [A _]; eauto.
      intros P. destruct (i_w _ _ I i) as [_ _ Hc _ _ _ _ Hs]. unfold cur_ok in Hc. rewrite P in Hc. auto.
    + unfold done_tasks, add_done. simpl. destruct ev as [[t n]|]; auto. simpl. intros u [<-|Iu]; auto.
      destruct (wstep_tasks _ _ _ _ _ _ _ H2) as [_ B]; eauto.
      intros P. destruct (i_w _ _ I i) as [_ _ Hc _ _ _ _ Hs]. unfold cur_ok in Hc. rewrite P in Hc. auto.
Qed.

Lemma cntid_two : forall t u l, In t l -> In u l -> tid u = tid t -> u <> t -> (2 <= cntid (tid t) l)%nat.
Proof.
  induction l; simpl; intros It Iu E N; [tauto|].
  destruct It as [->|It], Iu as [->|Iu]; try congruence.
  - rewrite Nat.eqb_refl. pose proof (cntid_in _ _ Iu). rewrite E in H. lia.
  - rewrite E, Nat.eqb_refl. pose proof (cntid_in _ _ It). lia.
  - specialize (IHl It Iu E N). lia.
Qed.

Lemma submitted_unique : forall m s t u, reachable m s ->
  In t (submitted s) -> In u (submitted s) -> tid u = tid t -> u = t.
Proof.
  intros m s t u R It Iu E. destruct (one_place m s R (tid t)) as [_ F].
  destruct t as [a b], u as [c d]. simpl in *. subst.
  destruct (Z.eq_dec d b); [subst; auto|].
  pose proof (cntid_two (mkTask a b) (mkTask a d) _ It Iu eq_refl ltac:(congruence)). simpl in *. lia.
Qed.

(* ---------------------------------------------------------------- progress *)
Theorem runs : forall m s t, reachable m s -> closed s = false -> (0 < nw s)%nat ->
  In t (submitted s) -> exists s', isteps m s s' /\ In t (done_tasks s').
Proof.
  intros m s t R Cl Hn It.
  pose proof (reachable_inv m s R) as I. pose proof (sub_ok_reachable m s R) as [Sp Sf Sw Sd].
  pose proof (submitted_one_place m s t R It) as P. unfold places in P.
  assert (U : forall u, In u (submitted s) -> tid u = tid t -> u = t)
    by (intros; eapply submitted_unique; eauto).
  destruct (Nat.eq_dec (cntid (tid t) (ptasks s)) 0) as [E1|E1].
  2: { assert (C : (1 <= cntid (tid t) (ptasks s))%nat) by lia.
       destruct (cntid_ex _ _ C) as [u [Iu Eu]].
       rewrite (U u (Sp u Iu) Eu) in Iu. apply ptasks_runs; auto. }
  destruct (Nat.eq_dec (cntid (tid t) (inflight s)) 0) as [E2|E2].
  2: { assert (C : (1 <= cntid (tid t) (inflight s))%nat) by lia.
       destruct (cntid_ex _ _ C) as [u [Iu Eu]].
       rewrite (U u (Sf u Iu) Eu) in Iu.
       destruct (pp s) eqn:Pp.
       - rewrite (i_pp _ _ I (or_introl Pp)) in Iu. destruct Iu.
       - rewrite (i_pp _ _ I (or_intror Pp)) in Iu. destruct Iu.
       - eapply inflight_runs; eauto.
       - exfalso. apply (i_exit _ _ I Cl Pp). }
  destruct (Nat.eq_dec (cnt_workers (tid t) (ws s) (nw s)) 0) as [E3|E3].
  2: { assert (C : (1 <= cnt_workers (tid t) (ws s) (nw s))%nat) by lia.
       destruct (cnt_workers_ex _ _ _ C) as [i [Hi Ci]].
       destruct (cntid_ex _ _ Ci) as [u [Iu Eu]].
       rewrite (U u (Sw i u Iu) Eu) in Iu. eapply worker_task_runs; eauto. }
  assert (C : (1 <= cntid (tid t) (done_tasks s))%nat) by lia.
  destruct (cntid_ex _ _ C) as [u [Iu Eu]].
  rewrite (U u (Sd u Iu) Eu) in Iu. exists s. split; auto. constructor.
Qed.

(* ---------------------------------------------------------------- promptness details *)
Ltac inv_work St :=
  inversion St; subst;
  match goal with H : wl_label _ ?l = LWork _ |- _ => destruct l; inversion H; subst; clear H end;
  simpl in *; rewrite ?upd_same in *.

(* overdue on receipt: the worker's next step is the clock read, which selects execute() ... *)
Lemma overdue_step1 : forall m s i t s1, step m s (LWork i) s1 ->
  pc (ws s i) = WTaskNow -> cur (ws s i) = Some t -> tts t < clock s ->
  pc (ws s1 i) = WTaskExec /\ cur (ws s1 i) = Some t /\ clock s1 = clock s.
Proof.
  intros m s i t s1 St P C L. inv_work St.
  match goal with H : wstep _ _ _ _ _ _ _ |- _ => inversion H; subst; simpl in *; try congruence end.
  assert (t0 = t) by congruence. subst.
  apply Z.ltb_lt in L. rewrite L. auto.
Qed.

(* ... and the step after that IS execute() *)
Lemma overdue_step2 : forall m s i t s1, step m s (LWork i) s1 ->
  pc (ws s i) = WTaskExec -> cur (ws s i) = Some t ->
  done s1 = mkE t (wnow (ws s i)) (clock s) i :: done s /\ pc (ws s1 i) = WSel.
Proof.
  intros m s i t s1 St P C. inv_work St.
  match goal with H : wstep _ _ _ _ _ _ _ |- _ => inversion H; subst; simpl in *; try congruence end.
  assert (t0 = t) by congruence. subst. auto.
Qed.

(* the delivered time equals the earliest deadline (`After` is strict): the worker re-arms
   with duration 0, i.e. for the current instant - the timer can fire at once *)
Lemma equal_deadline_rearm : forall m s i s1, step m s (LWork i) s1 ->
  pc (ws s i) = WLoop -> heap (ws s i) <> [] -> wnow (ws s i) = hmin (heap (ws s i)) ->
  armed (ws s1 i) = Some (clock s) /\ pc (ws s1 i) = WSel /\ heap (ws s1 i) = heap (ws s i) /\
  clock s1 = clock s.
Proof.
  intros m s i s1 St P NE E. inv_work St.
  match goal with H : wstep _ _ _ _ _ _ _ |- _ => inversion H; subst; simpl in *; try congruence; try lia end.
  repeat split; auto. f_equal. lia.
Qed.

(* ---------------------------------------------------------------- Close *)
Inductive steps (m : sem) : state -> state -> Prop :=
| st_refl s : steps m s s
| st_step s l s1 s2 : step m s l s1 -> steps m s1 s2 -> steps m s s2.

Lemma steps_reachable : forall m s s', steps m s s' -> reachable m s -> reachable m s'.
Proof. induction 1; auto. intros. apply IHsteps. econstructor; eauto. Qed.

(* once prepend has returned, whatever is in prependTasks stays there for ever *)
Lemma exited_prepend_keeps : forall m s s' t, steps m s s' ->
  pp s = PExit -> In t (ptasks s) -> pp s' = PExit /\ In t (ptasks s').
Proof.
  induction 1; auto. intros P I. apply IHsteps.
  - inversion H; subst; simpl; auto; try congruence;
      try match goal with H : _ \/ _ |- _ => destruct H as [?|[? ?]]; congruence end.
  - inversion H; subst; simpl; auto; try congruence; try (apply in_or_app; auto).
Qed.

Definition dropped_state (c0 : Z) (t : task) : state :=
  mkS c0 true [t] false 1 PExit [] 1 (fun _ => w0 c0) [t] [].

Lemma dropped_reachable : forall m c0 t, reachable m (dropped_state c0 t).
Proof.
  intros m c0 t. unfold dropped_state.
  assert (R0 : reachable m (init 1 c0)) by constructor.
  assert (R1 : reachable m (mkS c0 false [t] false 1 PSel [] 1 (fun _ => w0 c0) [t] [])).
  { eapply r_step; [exact R0|]. apply (s_put m (init 1 c0) t). simpl. tauto. }
  assert (R2 : reachable m (mkS c0 true [t] false 1 PSel [] 1 (fun _ => w0 c0) [t] [])).
  { eapply r_step; [exact R1|]. apply (s_close m (mkS c0 false [t] false 1 PSel [] 1 (fun _ => w0 c0) [t] [])). }
  eapply r_step; [exact R2|].
  apply (s_p_die m (mkS c0 true [t] false 1 PSel [] 1 (fun _ => w0 c0) [t] [])); simpl; auto.
Qed.

(* Close guarantees nothing for tasks that have not run yet: a task Put strictly before Close
   may never run, however far the clock advances *)
Theorem close_may_drop : forall m c0 t,
  reachable m (dropped_state c0 t) /\ In t (submitted (dropped_state c0 t)) /\
  closed (dropped_state c0 t) = true /\
  forall s', steps m (dropped_state c0 t) s' -> ~ In t (done_tasks s').
Proof.
  intros m c0 t. pose proof (dropped_reachable m c0 t) as R.
  split; auto. split; [simpl; auto|]. split; auto.
  intros s' St D.
  destruct (exited_prepend_keeps m _ _ t St eq_refl ltac:(simpl; auto)) as [_ I].
  pose proof (steps_reachable _ _ _ St R) as R'.
  destruct (executed_gone m s' t R' D) as [Z0 _].
  pose proof (cntid_in _ _ I). lia.
Qed.
