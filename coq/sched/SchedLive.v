(* C17 - progress: from every reachable state of an open scheduler there is a finite
   continuation of scheduler steps (no new Put, no Close) after which a submitted task has been
   executed; plus the quantitative lemmas (immediately if overdue; on the first timer delivery
   after the deadline; immediate re-arm when the delivered time equals the deadline). *)
From Coq Require Import List ZArith Bool Arith Lia.
From KV.Sched Require Import Model SchedInv SchedSafety.
Import ListNotations.
Open Scope Z_scope.

(* ---------------------------------------------------------------- plumbing *)
Definition after (s : state) (i : nat) (w' : worker) (ev : option (task * Z)) : state :=
  mkS (clock s) (closed s) (ptasks s) (notify s) (pending s) (pp s) (inflight s) (nw s)
      (upd (ws s) i w') (submitted s) (add_done s i ev).

Lemma work_step : forall m s i w' ev, (i < nw s)%nat ->
  wstep m (clock s) (closed s) (ws s i) LStep w' ev -> step m s (LWork i) (after s i w' ev).
Proof. intros. exact (s_work m s i LStep w' ev H H0). Qed.

(* s' differs from s only in worker i and in `done` (which grew) *)
Record frame (i : nat) (s s' : state) : Prop := mkFrame {
  f_clock : clock s' = clock s;
  f_closed : closed s' = closed s;
  f_ptasks : ptasks s' = ptasks s;
  f_notify : notify s' = notify s;
  f_pending : pending s' = pending s;
  f_pp : pp s' = pp s;
  f_inflight : inflight s' = inflight s;
  f_nw : nw s' = nw s;
  f_sub : submitted s' = submitted s;
  f_ws : forall j, j <> i -> ws s' j = ws s j;
  f_done : forall t, In t (done_tasks s) -> In t (done_tasks s')
}.

Lemma frame_refl : forall i s, frame i s s.
Proof. intros; constructor; auto. Qed.

Lemma frame_trans : forall i s1 s2 s3, frame i s1 s2 -> frame i s2 s3 -> frame i s1 s3.
Proof.
  intros i s1 s2 s3 [] []. constructor; try congruence; auto.
  intros. rewrite f_ws1, f_ws0; auto.
Qed.

Lemma frame_after : forall s i w' ev, frame i s (after s i w' ev).
Proof.
  intros. constructor; simpl; auto.
  - intros. apply upd_other; auto.
  - intros t. unfold done_tasks, add_done. simpl. destruct ev as [[? ?]|]; simpl; auto.
Qed.

Lemma wsteps_trans : forall m i s1 s2 s3, wsteps m i s1 s2 -> wsteps m i s2 s3 -> wsteps m i s1 s3.
Proof. induction 1; auto. intros. econstructor; eauto. Qed.

Lemma isteps_trans : forall m s1 s2 s3, isteps m s1 s2 -> isteps m s2 s3 -> isteps m s1 s3.
Proof. induction 1; auto. intros. econstructor; eauto. Qed.

Lemma wsteps_isteps : forall m i s s', wsteps m i s s' -> isteps m s s'.
Proof. induction 1; [constructor|]. econstructor; eauto. Qed.

Lemma isteps_one : forall m s l s', step m s l s' -> internal l = true -> isteps m s s'.
Proof. intros. econstructor; eauto. constructor. Qed.

Lemma isteps_inv : forall m s s', isteps m s s' -> inv m s -> inv m s'.
Proof. induction 1; auto. intros. apply IHisteps. eapply inv_step; eauto. Qed.

Lemma wsteps_inv : forall m i s s', wsteps m i s s' -> inv m s -> inv m s'.
Proof. intros. eapply isteps_inv; eauto. eapply wsteps_isteps; eauto. Qed.

Lemma isteps_reachable : forall m s s', isteps m s s' -> reachable m s -> reachable m s'.
Proof. induction 1; auto. intros. apply IHisteps. econstructor; eauto. Qed.

Lemma isteps_closed : forall m s s', isteps m s s' -> closed s' = closed s.
Proof.
  induction 1; auto. rewrite IHisteps. inversion H; subst; simpl in *; auto; discriminate.
Qed.

Lemma isteps_nw : forall m s s', isteps m s s' -> nw s' = nw s.
Proof. induction 1; auto. rewrite IHisteps. inversion H; subst; simpl in *; auto. Qed.

Lemma isteps_done : forall m s s', isteps m s s' -> forall t, In t (done_tasks s) -> In t (done_tasks s').
Proof.
  induction 1; auto. intros. apply IHisteps. inversion H; subst; simpl in *; auto.
  unfold done_tasks, add_done in *. simpl. destruct ev as [[? ?]|]; simpl; auto.
Qed.

(* ---------------------------------------------------------------- the timer branch's loop *)
(* From the head of `for tasks.Len() > 0` worker i, alone and without the clock moving,
   executes exactly the tasks whose deadline is strictly before `now`, re-arms for the rest and
   is back at its select. *)
Lemma loop_runs : forall m i n s, inv m s -> (i < nw s)%nat ->
  pc (ws s i) = WLoop -> length (heap (ws s i)) = n ->
  exists s', wsteps m i s s' /\ frame i s s' /\ pc (ws s' i) = WSel /\
    (forall t, In t (heap (ws s i)) ->
       (tts t < wnow (ws s i) -> In t (done_tasks s')) /\
       (wnow (ws s i) <= tts t -> In t (heap (ws s' i)))) /\
    (heap (ws s' i) <> [] ->
       armed (ws s' i) = Some (hmin (heap (ws s' i)) + (clock s - wnow (ws s i))) /\
       buf (ws s' i) = None) /\
    (forall t, In t (heap (ws s' i)) -> In t (heap (ws s i))).
Proof.
  intros m i n. induction n; intros s I Hi Hpc Hlen.
  - (* empty heap *)
    assert (E : heap (ws s i) = []) by (destruct (heap (ws s i)); simpl in *; [auto|lia]).
    pose proof (work_step m s i _ _ Hi (w_loop_empty m (clock s) (closed s) (ws s i) Hpc E)) as St.
    eexists. split; [econstructor; [exact St | constructor]|].
    split; [apply frame_after|]. simpl. rewrite upd_same. simpl.
    split; auto. rewrite E. split; [intros t []|]. split; [congruence|]. auto.
  - destruct (Z_lt_le_dec (hmin (heap (ws s i))) (wnow (ws s i))) as [Lt|Ge].
    + (* pop a minimal task and execute it *)
      assert (NE : heap (ws s i) <> []) by (destruct (heap (ws s i)); simpl in *; [lia|congruence]).
      destruct (hmin_in _ NE) as [u [Iu Eu]].
      destruct (in_split _ _ Iu) as [h1 [h2 Eh]].
      assert (Lu : tts u < wnow (ws s i)) by lia.
      pose proof (work_step m s i _ _ Hi
                    (w_loop_pop m (clock s) (closed s) (ws s i) h1 u h2 Hpc Eh Eu Lu)) as St.
      set (s1 := after s i _ _) in St.
      assert (I1 : inv m s1) by (eapply inv_step; eauto).
      assert (Hl1 : length (heap (ws s1 i)) = n).
      { unfold s1. simpl. rewrite upd_same. simpl. rewrite Eh in Hlen.
        rewrite app_length in *. simpl in Hlen. lia. }
      destruct (IHn s1 I1 Hi ltac:(unfold s1; simpl; rewrite upd_same; auto) Hl1)
        as [s' [W [F [P [T [A Sub]]]]]].
      assert (Hn1 : wnow (ws s1 i) = wnow (ws s i)) by (unfold s1; simpl; rewrite upd_same; auto).
      assert (Hh1 : heap (ws s1 i) = h1 ++ h2) by (unfold s1; simpl; rewrite upd_same; auto).
      exists s'. split; [econstructor; eauto|].
      split; [eapply frame_trans; [apply frame_after | exact F]|].
      split; auto. rewrite Hn1, Hh1 in *. split; [|split].
      * intros t It. rewrite Eh in It. apply in_app_or in It.
        assert (D : t = u \/ In t (h1 ++ h2)).
        { destruct It as [It|[It|It]]; auto; right; apply in_or_app; auto. }
        destruct D as [->|D]; [|apply T; auto].
        split; [|lia]. intros _. apply (f_done _ _ _ F).
        unfold s1, done_tasks, after, add_done. simpl. auto.
      * exact A.
      * intros t It. apply Sub in It. rewrite Eh. apply in_app_or in It.
        apply in_or_app. destruct It; auto. right; right; auto.
    + (* re-arm for the minimum and leave the loop *)
      assert (NE : heap (ws s i) <> []) by (destruct (heap (ws s i)); simpl in *; [lia|congruence]).
      pose proof (work_step m s i _ _ Hi (w_loop_reset m (clock s) (closed s) (ws s i) Hpc NE Ge)) as St.
      destruct (i_w _ _ I i) as [Ht _ _ _ _ _ _ _]. unfold timer_ok in Ht. rewrite Hpc in Ht.
      destruct Ht as [_ [Hb _]].
      eexists. split; [econstructor; [exact St | constructor]|].
      split; [apply frame_after|]. simpl. rewrite upd_same. unfold do_reset. simpl.
      split; auto. split; [|split].
      * intros t It. split; auto. intros L. pose proof (hmin_le _ _ It). lia.
      * intros _. split; [f_equal; lia|]. unfold buf_cleared. destruct m; auto.
      * auto.
Qed.

(* ---------------------------------------------------------------- a worker always gets back to its select *)
Definition gets_to_select (m : sem) (i : nat) (s : state) : Prop :=
  exists s', wsteps m i s s' /\ frame i s s' /\ pc (ws s' i) = WSel /\
    forall t, In t (wtasks (ws s i)) -> In t (heap (ws s' i)) \/ In t (done_tasks s').

Lemma chain : forall m i s s1, step m s (LWork i) s1 -> frame i s s1 ->
  (forall t, In t (wtasks (ws s i)) -> In t (wtasks (ws s1 i)) \/ In t (done_tasks s1)) ->
  gets_to_select m i s1 -> gets_to_select m i s.
Proof.
  intros m i s s1 St F T [s' [W [F' [P T']]]].
  exists s'. split; [econstructor; eauto|]. split; [eapply frame_trans; eauto|]. split; auto.
  intros t It. destruct (T t It) as [D|D]; auto. right. apply (f_done _ _ _ F'); auto.
Qed.

Lemma sel_from_sel : forall m i s, inv m s -> pc (ws s i) = WSel -> gets_to_select m i s.
Proof.
  intros m i s I P. exists s. split; [constructor|]. split; [apply frame_refl|]. split; auto.
  destruct (i_w _ _ I i) as [_ _ Hc _ _ _ _ _]. unfold cur_ok in Hc. rewrite P in Hc.
  unfold wtasks. rewrite Hc. auto.
Qed.

Ltac one_step St I :=
  match type of St with step ?m ?s _ ?s1 =>
    let I1 := fresh "I1" in
    assert (I1 : inv m s1) by (eapply inv_step; eauto);
    eapply chain; [exact St | apply frame_after | | ]
  end.

Lemma sel_from_reset : forall m i s, inv m s -> (i < nw s)%nat -> pc (ws s i) = WReset ->
  gets_to_select m i s.
Proof.
  intros m i s I Hi P.
  pose proof (work_step m s i _ _ Hi (w_reset m (clock s) (closed s) (ws s i) P)) as St.
  one_step St I.
  - intros t It. left. simpl. rewrite upd_same. exact It.
  - apply sel_from_sel; auto. simpl. rewrite upd_same. auto.
Qed.

Lemma sel_from_drain : forall m i s, inv m s -> (i < nw s)%nat -> pc (ws s i) = WDrain ->
  gets_to_select m i s.
Proof.
  intros m i s I Hi P.
  destruct (i_w _ _ I i) as [Ht _ _ _ _ _ _ _]. unfold timer_ok in Ht. rewrite P in Ht.
  destruct Ht as [_ [_ Hb]]. destruct (buf (ws s i)) as [v|] eqn:B; [|congruence].
  pose proof (work_step m s i _ _ Hi (w_drain m (clock s) (closed s) (ws s i) v P B)) as St.
  one_step St I.
  - intros t It. left. simpl. rewrite upd_same. exact It.
  - apply sel_from_reset; auto. simpl. rewrite upd_same. auto.
Qed.

Lemma sel_from_stop : forall m i s, inv m s -> (i < nw s)%nat -> pc (ws s i) = WStop ->
  gets_to_select m i s.
Proof.
  intros m i s I Hi P.
  pose proof (work_step m s i _ _ Hi (w_stop m (clock s) (closed s) (ws s i) P)) as St.
  one_step St I.
  - intros t It. left. simpl. rewrite upd_same. exact It.
  - destruct (negb (stop_result m (ws s i)) && negb (drained (ws s i))) eqn:E.
    + apply sel_from_drain; auto. unfold after. cbn [ws]. rewrite upd_same. cbn [pc]. try rewrite E; auto.
    + apply sel_from_reset; auto. unfold after. cbn [ws]. rewrite upd_same. cbn [pc]. try rewrite E; auto.
Qed.

Lemma sel_from_push : forall m i s, inv m s -> (i < nw s)%nat -> pc (ws s i) = WTaskPush ->
  gets_to_select m i s.
Proof.
  intros m i s I Hi P.
  destruct (i_w _ _ I i) as [_ _ Hc _ _ _ _ _]. unfold cur_ok in Hc. rewrite P in Hc.
  destruct Hc as [t Hc].
  pose proof (work_step m s i _ _ Hi (w_task_push m (clock s) (closed s) (ws s i) t P Hc)) as St.
  one_step St I.
  - intros u Iu. left. simpl. rewrite upd_same. unfold wtasks in *. simpl. rewrite Hc in Iu. exact Iu.
  - apply sel_from_stop; auto. simpl. rewrite upd_same. auto.
Qed.

Lemma sel_from_exec : forall m i s, inv m s -> (i < nw s)%nat -> pc (ws s i) = WTaskExec ->
  gets_to_select m i s.
Proof.
  intros m i s I Hi P.
  destruct (i_w _ _ I i) as [_ _ Hc _ _ _ _ _]. unfold cur_ok in Hc. rewrite P in Hc.
  destruct Hc as [t [Hc _]].
  pose proof (work_step m s i _ _ Hi (w_task_exec m (clock s) (closed s) (ws s i) t P Hc)) as St.
  one_step St I.
  - intros u Iu. unfold wtasks in Iu. rewrite Hc in Iu. simpl. rewrite upd_same.
    unfold wtasks, done_tasks. simpl. destruct Iu as [<-|Iu]; auto.
  - apply sel_from_sel; auto. simpl. rewrite upd_same. auto.
Qed.

Lemma sel_from_now : forall m i s, inv m s -> (i < nw s)%nat -> pc (ws s i) = WTaskNow ->
  gets_to_select m i s.
Proof.
  intros m i s I Hi P.
  destruct (i_w _ _ I i) as [_ _ Hc _ _ _ _ _]. unfold cur_ok in Hc. rewrite P in Hc.
  destruct Hc as [t Hc].
  pose proof (work_step m s i _ _ Hi (w_task_now m (clock s) (closed s) (ws s i) t P Hc)) as St.
  one_step St I.
  - intros u Iu. left. simpl. rewrite upd_same. exact Iu.
  - destruct (tts t <? clock s) eqn:E.
    + apply sel_from_exec; auto. unfold after. cbn [ws]. rewrite upd_same. cbn [pc]. try rewrite E; auto.
    + apply sel_from_push; auto. unfold after. cbn [ws]. rewrite upd_same. cbn [pc]. try rewrite E; auto.
Qed.

Lemma sel_from_start : forall m i s, inv m s -> (i < nw s)%nat -> pc (ws s i) = WStart ->
  gets_to_select m i s.
Proof.
  intros m i s I Hi P.
  pose proof (work_step m s i _ _ Hi (w_start m (clock s) (closed s) (ws s i) P)) as St.
  one_step St I.
  - intros u Iu. left. simpl. rewrite upd_same.
    destruct (i_w _ _ I i) as [_ _ Hc _ _ _ _ Hs]. unfold cur_ok in Hc. rewrite P in Hc.
    unfold wtasks in *. rewrite Hc in Iu. rewrite (Hs P) in Iu. destruct Iu.
  - apply sel_from_sel; auto. simpl. rewrite upd_same. auto.
Qed.

Lemma sel_from_loop : forall m i s, inv m s -> (i < nw s)%nat -> pc (ws s i) = WLoop ->
  gets_to_select m i s.
Proof.
  intros m i s I Hi P.
  destruct (loop_runs m i _ s I Hi P eq_refl) as [s' [W [F [P' [T _]]]]].
  exists s'. split; auto. split; auto. split; auto.
  destruct (i_w _ _ I i) as [_ _ Hc _ _ _ _ _]. unfold cur_ok in Hc. rewrite P in Hc.
  intros t It. unfold wtasks in It. rewrite Hc in It.
  destruct (T t It) as [T1 T2].
  destruct (Z_lt_le_dec (tts t) (wnow (ws s i))); auto.
Qed.

(* A worker of an open scheduler, from wherever it is, gets back to its select by its own
   steps alone - in particular it never blocks in the drain - and every task it held is then in
   its heap or has been executed. *)
Lemma worker_returns : forall m i s, inv m s -> (i < nw s)%nat -> closed s = false ->
  gets_to_select m i s.
Proof.
  intros m i s I Hi Cl.
  destruct (pc (ws s i)) eqn:P.
  - apply sel_from_start; auto.
  - apply sel_from_sel; auto.
  - apply sel_from_now; auto.
  - apply sel_from_exec; auto.
  - apply sel_from_push; auto.
  - apply sel_from_stop; auto.
  - apply sel_from_drain; auto.
  - apply sel_from_reset; auto.
  - apply sel_from_loop; auto.
  - destruct (i_w _ _ I i) as [_ _ _ _ _ _ He _]. exfalso. apply (He Cl P).
Qed.
