(* C17 - the IR of the statement skeletons emitted by /verif/extract/sched (DESIGN A.3).
   `atom` has one constructor per entry of the translator's dictionary (the printed source text
   of a leaf after renaming locals to their reference names; see extract/sched/main.go, which
   is the authoritative text <-> constructor table). *)
From Coq Require Import List.
Import ListNotations.

Inductive atom :=
| F_heap_Len
| F_heap_Less
| F_heap_Swap
| F_heap_Push
| F_heap_Pop
| F_NewTimedSched
| F_sched
| F_prepend
| F_Put
| F_Close
| I_container_heap
| I_runtime
| I_sync
| I_time
| T_timedFunc
| Fld_execute
| Fld_ts
| T_timedFuncHeap
| Ty_slice_timedFunc
| T_TimedSched
| Fld_prependTasks
| Fld_prependLock
| Fld_chPrependNotify
| Fld_chTask
| Fld_dieOnce
| Fld_die
| V_SystemTimedSched_max_NumCPU_2
| E_len_h
| E_hi_ts_Before_hj_ts
| S_swap_hi_hj
| S_h_append_x
| S_old_is_h
| S_n_is_len_old
| S_x_is_old_last
| S_clear_old_last
| S_h_is_old_but_last
| E_x
| S_ts_new
| S_chTask_unbuffered
| S_die_unbuffered
| S_chPrependNotify_cap1
| R_range_parallel
| C_ts_sched
| C_ts_prepend
| E_ts
| S_timer_NewTimer_0
| C_timer_Stop
| S_var_tasks_heap
| S_drained_decl_false
| Rcv_task_from_chTask
| S_now_is_time_Now
| Cnd_now_After_task_ts
| S_task_execute
| S_heap_Push_task
| S_stopped_is_timer_Stop
| Cnd_not_stopped_and_not_drained
| Rcv_timer_C
| S_timer_Reset_top_minus_now
| S_drained_false
| Rcv_now_from_timer_C
| S_drained_true
| Cnd_tasks_Len_pos
| Cnd_now_After_top_ts
| S_heap_Pop_execute
| Rcv_die
| S_var_tasks_slice
| Rcv_chPrependNotify
| S_prependLock_Lock
| S_swap_slices
| S_prependLock_Unlock
| R_k_range_tasks
| Snd_chTask_tasks_k
| S_clear_tasks_k
| S_tasks_truncate
| S_append_prependTasks
| Snd_chPrependNotify
| S_dieOnce_close_die.

Inductive stmt :=
| Do (a : atom)                                   (* simple statement *)
| If (c : atom) (th el : list stmt)
| For (c : option atom) (body : list stmt)        (* for { } / for cond { } *)
| Range (hdr : atom) (body : list stmt)
| Select (cases : list (option atom * list stmt)) (* None = default *)
| Go (call : atom)
| Defer (call : atom)
| Break
| Return (e : option atom).

Inductive decl :=
| DImport (path : atom)
| DType (name : atom) (fields : list atom)
| DVar (spec : atom)
| DFunc (name : atom) (body : list stmt).

Definition program := list decl.
