(* Io.v - the batch loops of the Linux I/O paths, transcribed.  No proofs in this file.

   tx_linux.go, UDPSession.tx:
       for len(txqueue) > 0 {
           n, err := batchConn.WriteBatch(txqueue, 0)
           if err != nil { notifyWriteError(err); break }
           for k := range txqueue[:n] { nbytes += len(txqueue[k].Buffers[0]) }
           npkts += n
           txqueue = txqueue[n:]
       }
       OutPkts += npkts; OutBytes += nbytes
   The kernel is an oracle: the k-th call either accepts a prefix of n messages of the queue it
   was handed (those, and only those, are on the wire) or fails having sent nothing.

   readloop_linux.go, UDPSession.readLoop (batch part):
       for { count, err := ReadBatch(msgs); if err != nil { notifyReadError; return }
             if closed { return }
             for i := range count { source filter (learn it when unset); packetInput(msg[:N]) } }
   The environment is the list of batches (each already cut to `count` messages) followed by
   the read error that ends the loop.  The messages handed to packetInput, in order, and the
   number of messages refused by the source filter (InErrs) are the observables.

   Messages are abstract (type A / payload type P); addresses are any type with a decidable
   equality test `same` (sameUDPAddr resp. string equality in the code). *)
From Coq Require Import List Arith Bool.
Import ListNotations.

Section Tx.
Context {A : Type}.
Variable size : A -> nat.

Inductive resp := ROk (n : nat) | RErr.

Record txres := mkTx {
  wire : list A;        (* what the kernel accepted, in order *)
  npkts : nat;          (* OutPkts delta *)
  nbytes : nat;         (* OutBytes delta *)
  werr : bool;          (* notifyWriteError called *)
  stuck : bool          (* the oracle ran out while messages were still queued *)
}.

Definition sum_sizes (l : list A) : nat := fold_right (fun m acc => size m + acc) 0 l.

Fixpoint tx_loop (rs : list resp) (q : list A) : txres :=
  match q with
  | [] => mkTx [] 0 0 false false
  | _ :: _ =>
    match rs with
    | [] => mkTx [] 0 0 false true
    | RErr :: _ => mkTx [] 0 0 true false
    | ROk n :: rs' =>
        let r := tx_loop rs' (skipn n q) in
        mkTx (firstn n q ++ wire r) (n + npkts r) (sum_sizes (firstn n q) + nbytes r) (werr r) (stuck r)
    end
  end.

(* a response the kernel can give for a queue of that length: 1 <= n <= len, or an error *)
Fixpoint valid (rs : list resp) (len : nat) : bool :=
  match len with
  | O => true
  | S _ =>
    match rs with
    | [] => false
    | RErr :: _ => true
    | ROk n :: rs' => (1 <=? n) && (n <=? len) && valid rs' (len - n)
    end
  end.
End Tx.

Section Rx.
Context {Addr P : Type}.
Variable same : Addr -> Addr -> bool.

Record rmsg := mkMsg { m_addr : Addr; m_pl : P }.

Record rxres := mkRx {
  src : option Addr;     (* the source the loop filters on after the batch *)
  fed : list P;          (* payloads handed to packetInput, in order *)
  refused : nat          (* InErrs delta *)
}.

Fixpoint rx_batch (s : option Addr) (ms : list rmsg) : rxres :=
  match ms with
  | [] => mkRx s [] 0
  | m :: ms' =>
    match s with
    | None => let r := rx_batch (Some (m_addr m)) ms' in mkRx (src r) (m_pl m :: fed r) (refused r)
    | Some a =>
        if same a (m_addr m) then let r := rx_batch s ms' in mkRx (src r) (m_pl m :: fed r) (refused r)
        else let r := rx_batch s ms' in mkRx (src r) (fed r) (S (refused r))
    end
  end.

(* the loop over the batches; `closed_after k` = the session is found closed after the k-th ReadBatch
   (then that batch is not processed and the loop ends) *)
Fixpoint rx_loop (s : option Addr) (batches : list (list rmsg)) (closed_at : option nat) : rxres :=
  match batches with
  | [] => mkRx s [] 0
  | b :: bs =>
    match closed_at with
    | Some O => mkRx s [] 0
    | _ =>
      let r1 := rx_batch s b in
      let r2 := rx_loop (src r1) bs (match closed_at with Some (S k) => Some k | _ => None end) in
      mkRx (src r2) (fed r1 ++ fed r2) (refused r1 + refused r2)
    end
  end.
End Rx.

Arguments mkMsg {Addr P}.
Arguments m_addr {Addr P}.
Arguments m_pl {Addr P}.
