From Coq Require Import List Arith Bool Lia.
From KV.Io Require Import Io.
Import ListNotations.

Section TxP.
Context {A : Type}.
Variable size : A -> nat.

Lemma valid_ok_step n rs len :
  valid (ROk n :: rs) (S len) = true -> 1 <= n /\ n <= S len /\ valid rs (S len - n) = true.
Proof.
  cbn [valid]. intros H. apply andb_true_iff in H as [H H3]. apply andb_true_iff in H as [H1 H2].
  apply Nat.leb_le in H1. apply Nat.leb_le in H2. auto.
Qed.

Lemma tx_loop_nil rs : tx_loop size rs [] = mkTx [] 0 0 false false.
Proof. destruct rs as [|[n|] rs]; reflexivity. Qed.

(* whatever the kernel answers (valid answers), the wire holds a PREFIX of the queue, in order,
   each message at most once, and the counters agree with the wire *)
Lemma tx_prefix : forall (len : nat) (q : list A) (rs : list resp),
  length q = len -> valid rs len = true ->
  let r := tx_loop size rs q in
  exists rest, q = wire r ++ rest /\ npkts r = length (wire r) /\ nbytes r = sum_sizes size (wire r) /\
    stuck r = false /\ (werr r = false -> rest = []).
Proof.
  induction len as [len IH] using lt_wf_ind. intros q rs Hl Hv.
  destruct q as [|a q'].
  - cbv zeta. rewrite tx_loop_nil. cbn. exists []. repeat split; auto.
  - destruct len as [|len']; [discriminate|].
    destruct rs as [|[n|] rs'].
    + cbn in Hv. discriminate.
    + apply valid_ok_step in Hv as (H1 & H2 & H3).
      cbn [tx_loop].
      assert (Hlen : length (skipn n (a :: q')) = S len' - n) by (rewrite skipn_length, Hl; reflexivity).
      destruct (IH (S len' - n) ltac:(lia) (skipn n (a :: q')) rs' Hlen H3) as (rest & E & Hn & Hb & Hs & Hr).
      exists rest. cbn [wire npkts nbytes stuck werr].
      repeat split.
      * rewrite <- app_assoc, <- E. symmetry. apply firstn_skipn.
      * rewrite app_length, firstn_length, Hl, Hn. lia.
      * rewrite Hb. unfold sum_sizes. rewrite fold_right_app.
        induction (firstn n (a :: q')) as [|x l IHl]; simpl; [reflexivity|]. rewrite <- IHl. lia.
      * exact Hs.
      * exact Hr.
    + cbn. exists (a :: q'). repeat split; auto. discriminate.
Qed.

(* no error: every queued message is written exactly once, in order *)
Theorem tx_exactly_once : forall (q : list A) (rs : list resp),
  valid rs (length q) = true -> werr (tx_loop size rs q) = false ->
  wire (tx_loop size rs q) = q /\ npkts (tx_loop size rs q) = length q /\
  nbytes (tx_loop size rs q) = sum_sizes size q /\ stuck (tx_loop size rs q) = false.
Proof.
  intros q rs Hv He.
  destruct (tx_prefix (length q) q rs eq_refl Hv) as (rest & E & Hn & Hb & Hs & Hr).
  specialize (Hr He). subst rest. rewrite app_nil_r in E.
  rewrite Hn, Hb, <- E. repeat split; auto.
Qed.

Theorem tx_prefix_always : forall (q : list A) (rs : list resp),
  valid rs (length q) = true ->
  exists rest, q = wire (tx_loop size rs q) ++ rest /\
    npkts (tx_loop size rs q) = length (wire (tx_loop size rs q)) /\ stuck (tx_loop size rs q) = false.
Proof.
  intros q rs Hv. destruct (tx_prefix (length q) q rs eq_refl Hv) as (rest & E & Hn & _ & Hs & _).
  exists rest. auto.
Qed.

(* answers without an error exist for every queue and never leave the loop stuck: termination *)
Lemma valid_all_ones (len : nat) : valid (repeat (ROk 1) len) len = true.
Proof.
  induction len as [|len IH]; [reflexivity|]. cbn [repeat valid].
  replace (S len - 1) with len by lia. rewrite IH. reflexivity.
Qed.
End TxP.

Section RxP.
Context {Addr P : Type}.
Variable same : Addr -> Addr -> bool.

Definition passes (a : Addr) (m : @rmsg Addr P) : bool := same a (m_addr m).

(* with a known source the batch is a filter: exactly the messages of that source, in order *)
Lemma rx_batch_filter a : forall ms,
  rx_batch same (Some a) ms =
  mkRx (Some a) (map m_pl (filter (passes a) ms)) (length (filter (fun m => negb (passes a m)) ms)).
Proof.
  induction ms as [|m ms IH]; [reflexivity|].
  cbn [rx_batch filter]. rewrite IH. unfold passes.
  destruct (same a (m_addr m)); reflexivity.
Qed.

Lemma rx_loop_filter a : forall batches,
  rx_loop same (Some a) batches None =
  mkRx (Some a) (map m_pl (filter (passes a) (concat batches)))
       (length (filter (fun m => negb (passes a m)) (concat batches))).
Proof.
  induction batches as [|b bs IH]; [reflexivity|].
  cbn [rx_loop concat]. rewrite rx_batch_filter. cbn [src fed refused]. rewrite IH. cbn [src fed refused].
  rewrite !filter_app, map_app, app_length. reflexivity.
Qed.

(* the source is learned from the first message when unset *)
Lemma rx_batch_learn (m : @rmsg Addr P) ms :
  rx_batch same None (m :: ms) =
  let r := rx_batch same (Some (m_addr m)) ms in mkRx (src r) (m_pl m :: fed r) (refused r).
Proof. reflexivity. Qed.

(* a message - from a foreign source, or whatever packetInput will make of it - does not
   change what is fed before and behind it in the batch *)
Theorem rx_insert a xs (m : @rmsg Addr P) ys :
  fed (rx_batch same (Some a) (xs ++ m :: ys)) =
  fed (rx_batch same (Some a) xs) ++ (if passes a m then [m_pl m] else []) ++ fed (rx_batch same (Some a) ys).
Proof.
  rewrite !rx_batch_filter. cbn [fed]. rewrite filter_app, map_app. cbn [filter].
  destruct (passes a m); reflexivity.
Qed.

Theorem rx_foreign_noop a xs (m : @rmsg Addr P) ys :
  passes a m = false ->
  fed (rx_batch same (Some a) (xs ++ m :: ys)) = fed (rx_batch same (Some a) (xs ++ ys)).
Proof.
  intros H. rewrite !rx_batch_filter. cbn [fed]. rewrite !filter_app. cbn [filter]. rewrite H. reflexivity.
Qed.

Theorem rx_only_source a (batches : list (list (@rmsg Addr P))) :
  (forall x y, same x y = true -> x = y) ->
  forall p, In p (fed (rx_loop same (Some a) batches None)) ->
  exists m, In m (concat batches) /\ m_addr m = a /\ m_pl m = p.
Proof.
  intros Hs p. rewrite rx_loop_filter. cbn [fed]. intros H. apply in_map_iff in H as (m & <- & Hm).
  apply filter_In in Hm as [Hi Hp]. exists m. split; [assumption|]. split; [|reflexivity].
  symmetry. apply Hs. exact Hp.
Qed.

(* What the session makes of a batch: its packetInput folded over the messages that pass the
   source filter.  A message on which packetInput changes nothing - C06: every datagram that fails
   the integrity check or is too short - can be inserted anywhere in any batch, from the peer's
   own address or from any other, without changing the state the batch leaves behind. *)
Section RxFold.
Context {S : Type}.
Variable input : S -> P -> S.

Definition rx_state (a : Addr) (st : S) (ms : list (@rmsg Addr P)) : S :=
  fold_left input (fed (rx_batch same (Some a) ms)) st.

Theorem rx_noop_insert a st xs (m : @rmsg Addr P) ys :
  (forall st', input st' (m_pl m) = st') ->
  rx_state a st (xs ++ m :: ys) = rx_state a st (xs ++ ys).
Proof.
  intros Hn. unfold rx_state. rewrite rx_insert.
  assert (E : fed (rx_batch same (Some a) (xs ++ ys)) =
              fed (rx_batch same (Some a) xs) ++ fed (rx_batch same (Some a) ys)).
  { rewrite !rx_batch_filter. cbn [fed]. rewrite filter_app, map_app. reflexivity. }
  rewrite E, !fold_left_app. destruct (passes a m); cbn [app fold_left]; [rewrite Hn|]; reflexivity.
Qed.
End RxFold.
End RxP.
