(* Statements of the io engine (batch loops of tx_linux.go / readloop_linux.go).  Statements only. *)
From Coq Require Import List Arith Bool.
From KV.Io Require Import Io IoProofs.
Import ListNotations.

(* TX, no error.  Whatever prefix lengths the kernel accepts per sendmmsg call (each between 1 and
   the number of messages it was handed): every queued datagram is written exactly once, in
   order; OutPkts / OutBytes count exactly them; the loop terminates. *)
Theorem io_tx_exactly_once :
  forall (A : Type) (size : A -> nat) (q : list A) (rs : list resp),
    valid rs (length q) = true -> werr (tx_loop size rs q) = false ->
    wire (tx_loop size rs q) = q /\ npkts (tx_loop size rs q) = length q /\
    nbytes (tx_loop size rs q) = sum_sizes size q /\ stuck (tx_loop size rs q) = false.
Proof. exact (fun A size => @tx_exactly_once A size). Qed.
Print Assumptions io_tx_exactly_once.

(* TX, any outcome (an error at any call included): the wire holds a prefix of the queue - nothing
   twice, nothing out of order, nothing skipped - and OutPkts is its length. *)
Theorem io_tx_prefix :
  forall (A : Type) (size : A -> nat) (q : list A) (rs : list resp),
    valid rs (length q) = true ->
    exists rest, q = wire (tx_loop size rs q) ++ rest /\
      npkts (tx_loop size rs q) = length (wire (tx_loop size rs q)) /\ stuck (tx_loop size rs q) = false.
Proof. exact (fun A size => @tx_prefix_always A size). Qed.
Print Assumptions io_tx_prefix.

(* RX.  With the source known, what the loop hands to packetInput over any sequence of batches is
   exactly the messages of that source, in arrival order, each once; InErrs counts the others. *)
Theorem io_rx_is_filter :
  forall (Addr P : Type) (same : Addr -> Addr -> bool) (a : Addr) (batches : list (list (@rmsg Addr P))),
    rx_loop same (Some a) batches None =
    mkRx (Some a) (map m_pl (filter (passes same a) (concat batches)))
         (length (filter (fun m => negb (passes same a m)) (concat batches))).
Proof. exact (fun Addr P same => @rx_loop_filter Addr P same). Qed.
Print Assumptions io_rx_is_filter.

(* RX.  One message in a batch - of a foreign source, empty, failing the integrity check later -
   never changes which of the OTHER messages are handed on. *)
Theorem io_rx_insert :
  forall (Addr P : Type) (same : Addr -> Addr -> bool) (a : Addr) (xs : list (@rmsg Addr P)) m ys,
    fed (rx_batch same (Some a) (xs ++ m :: ys)) =
    fed (rx_batch same (Some a) xs) ++ (if passes same a m then [m_pl m] else []) ++ fed (rx_batch same (Some a) ys).
Proof. exact (fun Addr P same => @rx_insert Addr P same). Qed.
Print Assumptions io_rx_insert.

Theorem io_rx_only_source :
  forall (Addr P : Type) (same : Addr -> Addr -> bool) (a : Addr) (batches : list (list (@rmsg Addr P))),
    (forall x y, same x y = true -> x = y) ->
    forall p, In p (fed (rx_loop same (Some a) batches None)) ->
    exists m, In m (concat batches) /\ m_addr m = a /\ m_pl m = p.
Proof. exact (fun Addr P same => @rx_only_source Addr P same). Qed.
Print Assumptions io_rx_only_source.

(* RX + C06.  The state a session is left in by a batch = its packetInput folded over what the loop
   hands on.  Inserting - anywhere in any batch, from any address - a datagram on which
   packetInput is the identity (by c06_session_noop: every datagram failing the integrity check
   or too short to carry one) leaves exactly the state of the batch without it. *)
Theorem io_rx_noop_insert :
  forall (Addr P S : Type) (same : Addr -> Addr -> bool) (input : S -> P -> S)
         (a : Addr) (st : S) (xs : list (@rmsg Addr P)) m ys,
    (forall st', input st' (m_pl m) = st') ->
    rx_state same input a st (xs ++ m :: ys) = rx_state same input a st (xs ++ ys).
Proof. exact (fun Addr P S same input => @rx_noop_insert Addr P same S input). Qed.
Print Assumptions io_rx_noop_insert.

(* non-vacuity: a queue of 5, the kernel accepts 2, 1, 2; and 2 then an error *)
Example io_tx_example :
  valid [ROk 2; ROk 1; ROk 2] 5 = true /\
  wire (tx_loop (fun x : nat => x) [ROk 2; ROk 1; ROk 2] [10; 11; 12; 13; 14]) = [10; 11; 12; 13; 14] /\
  npkts (tx_loop (fun x : nat => x) [ROk 2; ROk 1; ROk 2] [10; 11; 12; 13; 14]) = 5 /\
  wire (tx_loop (fun x : nat => x) [ROk 2; RErr] [10; 11; 12; 13; 14]) = [10; 11] /\
  werr (tx_loop (fun x : nat => x) [ROk 2; RErr] [10; 11; 12; 13; 14]) = true.
Proof. repeat split. Qed.

Example io_rx_example :
  rx_loop Nat.eqb (Some 7) [[mkMsg 7 1; mkMsg 9 2; mkMsg 7 3]; []; [mkMsg 8 4; mkMsg 7 5]] None =
  mkRx (Some 7) [1; 3; 5] 2 /\
  rx_loop Nat.eqb None [[mkMsg 9 2; mkMsg 7 3]] None = mkRx (Some 9) [2] 1.
Proof. split; reflexivity. Qed.
