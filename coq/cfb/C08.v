(* C08 - ciphers round-trip every length and equal textbook CFB.
   Statements only; every proof is `exact <lemma of CfbProofs>`.

   Vocabulary (coq/cfb/Cfb.v):
     enc_run E bs inplace src dst0        content of dst after encrypt8 (bs = 8) / encrypt16
                                          (bs = 16) ran with block function E; inplace = true
                                          is the call f(buf, buf) on ONE buffer (dst0 unused),
                                          false is f(dst, src) on two disjoint buffers
     dec_run E bs inplace next0 src dst0  likewise decrypt8/decrypt16; next0 = stale content
                                          of the second scratch register
     cfb_enc_spec / cfb_dec_spec          textbook full-block CFB with the given IV
     stream_run f inplace src dst0        same for the salsa20 / simple-xor / none Encrypt, Decrypt
   There is no bound on the length anywhere: 1500 appears only where the code has it (the
   simple-xor pad). *)
From Coq Require Import List Arith ZArith Bool Lia.
From KV.Base Require Import Consts.
From KV.Cfb Require Import Cfb CfbProofs.
Import ListNotations.
Local Open Scope nat_scope.

(* The unrolled encryptors equal textbook CFB under the package IV: for EVERY length, ANY block
   function, both block sizes, in place and out of place. *)
Theorem c08_enc_is_cfb :
  forall (E : list Z -> list Z) (bs : nat) (inplace : bool) (src dst0 : list Z),
    bs = 8 \/ bs = 16 -> inplace = true \/ length dst0 = length src ->
    enc_run E bs inplace src dst0 = cfb_enc_spec E bs c_initialVector src.
Proof. exact c08_enc_is_cfb_proof. Qed.
Print Assumptions c08_enc_is_cfb.

Theorem c08_dec_is_cfb :
  forall (E : list Z -> list Z) (bs : nat) (inplace : bool) (next0 src dst0 : list Z),
    bs = 8 \/ bs = 16 -> inplace = true \/ length dst0 = length src ->
    dec_run E bs inplace next0 src dst0 = cfb_dec_spec E bs c_initialVector src.
Proof. exact c08_dec_is_cfb_proof. Qed.
Print Assumptions c08_dec_is_cfb.

(* (In place the second buffer does not exist: dst0 is ignored and needs no length.)

   Decrypt(Encrypt(x)) = x for any function E (CFB never inverts the block function), every
   length, every combination of in-place / out-of-place for the two calls, whatever the
   destination buffers and the scratch register held before. *)
Theorem c08_roundtrip :
  forall (E : list Z -> list Z) (bs : nat) (ip_enc ip_dec : bool) (next0 src dst0 dst1 : list Z),
    bs = 8 \/ bs = 16 ->
    ip_enc = true \/ length dst0 = length src -> ip_dec = true \/ length dst1 = length src ->
    dec_run E bs ip_dec next0 (enc_run E bs ip_enc src dst0) dst1 = src.
Proof. exact c08_roundtrip_proof. Qed.
Print Assumptions c08_roundtrip.

(* In place = out of place.  In the model a read of src in place sees every earlier write
   through dst, so this says: every read of a source block precedes the write of that
   destination block (the tbl/next alternation of decrypt). *)
Theorem c08_inplace :
  forall (E : list Z -> list Z) (bs : nat) (next0 buf dst0 : list Z),
    bs = 8 \/ bs = 16 -> length dst0 = length buf ->
    enc_run E bs true buf dst0 = enc_run E bs false buf dst0 /\
    dec_run E bs true next0 buf dst0 = dec_run E bs false next0 buf dst0.
Proof. exact c08_inplace_proof. Qed.
Print Assumptions c08_inplace.

(* Out of place into a longer destination: exactly len(src) bytes are written. *)
Theorem c08_longer_dst :
  forall (E : list Z -> list Z) (bs : nat) (next0 src dst0 : list Z),
    bs = 8 \/ bs = 16 -> length src <= length dst0 ->
    enc_run E bs false src dst0 = cfb_enc_spec E bs c_initialVector src ++ skipn (length src) dst0 /\
    dec_run E bs false next0 src dst0 = cfb_dec_spec E bs c_initialVector src ++ skipn (length src) dst0.
Proof. exact c08_longer_dst_proof. Qed.
Print Assumptions c08_longer_dst.

(* salsa20 (any keystream function of the 8-byte nonce), simple xor (any pad of mtuLimit
   bytes), none.  The premises are exact:
     salsa20: none (packets shorter than the 8-byte nonce pass in clear, in place or not);
     xor: at most mtuLimit bytes, or both calls in place (out of place the bytes beyond the pad
          are never written - CfbProofs.sxor_beyond_pad; the property stops at 1500);
     none: none.
   Regression note (finding F5, repaired in /repo by "fix: salsa20 Encrypt/Decrypt copy packets
   shorter than the nonce when dst != src"): with the former short path `return` the salsa20
   conjunct held only for  len = 0 \/ len >= 8 \/ both calls in place; out of place a 1..7
   byte packet came back as the old content of the destination.  The harness monitor keeps
   the key `salsa20-short-out-of-place` for it. *)
Theorem c08_stream_roundtrip :
  forall (ksf : list Z -> Z -> Z) (padf : Z -> Z) (ip_enc ip_dec : bool) (src dst0 dst1 : list Z),
    ip_enc = true \/ length dst0 = length src -> ip_dec = true \/ length dst1 = length src ->
    stream_run (salsa_decrypt ksf) ip_dec (stream_run (salsa_encrypt ksf) ip_enc src dst0) dst1 = src /\
    (length src <= Z.to_nat c_mtuLimit \/ (ip_enc = true /\ ip_dec = true) ->
     stream_run (sxor_decrypt padf) ip_dec (stream_run (sxor_encrypt padf) ip_enc src dst0) dst1 = src) /\
    stream_run none_decrypt ip_dec (stream_run none_encrypt ip_enc src dst0) dst1 = src.
Proof. exact c08_stream_roundtrip_proof. Qed.
Print Assumptions c08_stream_roundtrip.

(* In place = out of place for the stream ciphers too (their `&dst[0] != &src[0]` tests). *)
Theorem c08_stream_inplace :
  forall (ksf : list Z -> Z -> Z) (padf : Z -> Z) (buf dst0 : list Z),
    length dst0 = length buf ->
    stream_run (salsa_encrypt ksf) true buf dst0 = stream_run (salsa_encrypt ksf) false buf dst0 /\
    stream_run (salsa_decrypt ksf) true buf dst0 = stream_run (salsa_decrypt ksf) false buf dst0 /\
    (length buf <= Z.to_nat c_mtuLimit ->
     stream_run (sxor_encrypt padf) true buf dst0 = stream_run (sxor_encrypt padf) false buf dst0 /\
     stream_run (sxor_decrypt padf) true buf dst0 = stream_run (sxor_decrypt padf) false buf dst0) /\
    stream_run none_encrypt true buf dst0 = stream_run none_encrypt false buf dst0 /\
    stream_run none_decrypt true buf dst0 = stream_run none_decrypt false buf dst0.
Proof. exact c08_stream_inplace_proof. Qed.
Print Assumptions c08_stream_inplace.

(* aeadCrypt.Seal: when the wrapper's guard lets the call through, the append inside
   cipher.AEAD.Seal stays within the capacity of dst - no new array. *)
Theorem c08_aead_inplace :
  forall (dst : slice) (ptlen overhead : nat),
    aead_seal_panics dst ptlen overhead = false -> s_len dst <= s_cap dst ->
    append_reallocates dst (ptlen + overhead) = false /\ s_nil dst = false.
Proof. exact aead_guard_no_realloc. Qed.
Print Assumptions c08_aead_inplace.

(* ---- the hypotheses are satisfiable by non-trivial instances *)

Definition ex_key : list Z := [3; 1; 4; 1; 5; 9; 2; 6; 5; 3; 5; 8; 9; 7; 9; 3]%Z.
Definition ex_src (n : nat) : list Z := map (fun i => Z.of_nat (i * 7 mod 251)) (seq 0 n).

(* 93 bytes, bs = 8: one group of 8 blocks, 3 left-over blocks, 5 tail bytes; in place.
   (also: the ciphertext is not the plaintext, and the second block depends on the first) *)
Example c08_enc_example :
  let src := ex_src 93 in
  (8 = 8 \/ 8 = 16) /\
  enc_run (toyE ex_key) 8 true src [] = cfb_enc_spec (toyE ex_key) 8 c_initialVector src /\
  enc_run (toyE ex_key) 8 true src [] <> src /\
  length src / 8 / 8 = 1 /\ (length src / 8) mod 8 = 3 /\ length src mod 8 = 5.
Proof. vm_compute. repeat split; auto; discriminate. Qed.

(* 16-byte blocks, 2 groups + 7 left-over blocks + 15 tail bytes = 383 bytes, out of place *)
Example c08_dec_example :
  let src := ex_src 383 in
  let dst0 := repeat 170%Z 383 in
  (16 = 8 \/ 16 = 16) /\ length dst0 = length src /\
  dec_run (toyE ex_key) 16 false [9; 9]%Z src dst0 = cfb_dec_spec (toyE ex_key) 16 c_initialVector src /\
  dec_run (toyE ex_key) 16 false [] (enc_run (toyE ex_key) 16 true src []) dst0 = src /\
  enc_run (toyE ex_key) 16 true src dst0 = enc_run (toyE ex_key) 16 false src dst0.
Proof. vm_compute. repeat split; auto. Qed.

(* a destination 3 bytes longer than the 21-byte source keeps its last 3 bytes *)
Example c08_longer_dst_example :
  let src := ex_src 21 in
  let dst0 := repeat 170%Z 24 in
  length src <= length dst0 /\
  skipn 21 (enc_run (toyE ex_key) 8 false src dst0) = [170; 170; 170]%Z /\
  firstn 21 (enc_run (toyE ex_key) 8 false src dst0) = cfb_enc_spec (toyE ex_key) 8 c_initialVector src.
Proof. vm_compute. repeat split; lia. Qed.

Example c08_stream_example :
  let ksf := fun (nonce : list Z) (i : Z) => byte (hd 0%Z nonce + 3 * i + 1) in
  let src := ex_src 20 in
  let dst0 := repeat 170%Z 20 in
  8 <= length src /\ length dst0 = length src /\
  stream_run (salsa_encrypt ksf) false src dst0 <> src /\
  firstn 8 (stream_run (salsa_encrypt ksf) false src dst0) = firstn 8 src /\
  stream_run (salsa_decrypt ksf) true (stream_run (salsa_encrypt ksf) false src dst0) [] = src.
Proof. vm_compute. repeat split; try discriminate; try lia; auto. Qed.

(* the short salsa20 packet of finding F5, out of place for both calls, now round-trips *)
Example c08_salsa_short_example :
  let ksf := fun (nonce : list Z) (i : Z) => byte (hd 0%Z nonce + 3 * i + 1) in
  let src := [1; 2; 3]%Z in
  let dst := [0; 0; 0]%Z in
  0 < length src < 8 /\ length dst = length src /\
  stream_run (salsa_encrypt ksf) false src dst = src /\
  stream_run (salsa_decrypt ksf) false (stream_run (salsa_encrypt ksf) false src dst) dst = src.
Proof. vm_compute. repeat split; lia. Qed.

(* the guard of aeadCrypt.Seal with sess.go's slices: dst = buf[:12] of a 1500-byte pool buffer,
   1400 bytes of plaintext, 16 bytes of tag *)
Example c08_aead_example :
  aead_seal_panics (mkSlice false 12 1500) 1400 16 = false /\
  aead_seal_panics (mkSlice false 12 1500) 1480 16 = true.
Proof. split; reflexivity. Qed.

(* the memory model distinguishes statement orders: see CfbProofs.alias_model_sensitive *)
Example c08_alias_model_sensitive :
  let key := [3; 1; 4; 1; 5; 9; 2; 6]%Z in
  let buf := [10; 20; 30; 40; 50; 60; 70; 80]%Z in
  let ks := [1; 2; 3; 4; 5; 6; 7; 8]%Z in
  snd (dec_blk_mutant (toyE key) 8 (mem_alias buf) ks 0) <> snd (dec_blk_mutant (toyE key) 8 (mem_sep buf buf) ks 0) /\
  snd (dec_blk (toyE key) 8 (mem_alias buf) ks 0) = snd (dec_blk (toyE key) 8 (mem_sep buf buf) ks 0).
Proof. exact alias_model_sensitive. Qed.
