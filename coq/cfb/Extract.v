(* Extraction of the executable model of crypt.go.  ExtrOcamlBasic only: nat, positive, Z
   stay the extracted inductive types; no Extract Constant. *)
From Coq Require Import Extraction ExtrOcamlBasic.
From KV.Base Require Import Consts.
From KV.Cfb Require Import Cfb.
Extraction "cfb_model.ml" enc_run dec_run cfb_enc_spec cfb_dec_spec toyE stream_run
  salsa_encrypt salsa_decrypt sxor_encrypt sxor_decrypt none_encrypt none_decrypt
  aead_seal_panics append_reallocates c_initialVector c_mtuLimit.
