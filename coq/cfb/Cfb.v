(* crypt.go transcribed: the hand-unrolled CFB of encrypt8/encrypt16/decrypt8/decrypt16, the
   textbook full-block CFB they are supposed to equal, and the control logic of the three
   stream "ciphers" (salsa20, simple xor, none).  Executable Gallina only; the proofs are in
   CfbProofs.v, the statements in C08.v.

   Bytes are Z (0..255 in every run; no theorem needs the range).  Lengths and offsets are
   nat (they index lists, all <= a few thousand).

   MEMORY.  A call `f(dst, src)` of the Go code either gets two disjoint buffers or the same
   buffer twice (sess.go always passes `block.Encrypt(buf, buf)`).  `mem` makes both
   expressible with ONE transcription of the code: when `aliased` is true there is a single
   buffer (m_dst) and every read of src is a read of that buffer *as it is at that moment*,
   i.e. it sees all earlier writes through dst.  A transcription that wrote a destination block
   before reading the source block would therefore compute something else in place than out
   of place - c08_inplace states that the code as written does not. *)
From Coq Require Import List Arith ZArith Bool.
From KV.Base Require Import Consts.
Import ListNotations.
Local Open Scope nat_scope.

(* ------------------------------------------------------------------ bytes and buffers *)

(* subtle.XORBytes(dst, x, y): n = min(len x, len y) bytes *)
Fixpoint xorb (x y : list Z) : list Z :=
  match x, y with
  | a :: x', b :: y' => Z.lxor a b :: xorb x' y'
  | _, _ => []
  end.

(* buf[off:off+n] (read) *)
Definition rd (buf : list Z) (off n : nat) : list Z := firstn n (skipn off buf).

(* copy(buf, data): overwrite a prefix of buf, never beyond len(buf) *)
Fixpoint ovw (data buf : list Z) : list Z :=
  match data, buf with
  | [], _ => buf
  | x :: d, _ :: b => x :: ovw d b
  | _ :: _, [] => []
  end.

(* write `data` at buf[off:] *)
Fixpoint wr (buf : list Z) (off : nat) (data : list Z) : list Z :=
  match off, buf with
  | O, _ => ovw data buf
  | S o, b :: t => b :: wr t o data
  | S _, [] => []
  end.

Record mem := mkMem { aliased : bool; m_src : list Z; m_dst : list Z }.

Definition mem_alias (buf : list Z) : mem := mkMem true [] buf.          (* f(buf, buf) *)
Definition mem_sep (src dst : list Z) : mem := mkMem false src dst.      (* f(dst, src), disjoint *)
Definition mem_of (inplace : bool) (src dst0 : list Z) : mem :=
  if inplace then mem_alias src else mem_sep src dst0.

(* what a read of src sees now *)
Definition src_view (m : mem) : list Z := if aliased m then m_dst m else m_src m.
Definition src_len (m : mem) : nat := length (src_view m).                   (* len(src) *)
Definition ld_src (m : mem) (off n : nat) : list Z := rd (src_view m) off n. (* src[off:off+n] *)
Definition ld_src_from (m : mem) (off : nat) : list Z := skipn off (src_view m). (* src[off:] *)
Definition ld_dst (m : mem) (off n : nat) : list Z := rd (m_dst m) off n.    (* dst[off:off+n] *)
Definition st_dst (m : mem) (off : nat) (data : list Z) : mem :=             (* write dst[off:] *)
  mkMem (aliased m) (m_src m) (wr (m_dst m) off data).

(* `for range n { x = f(x) }` *)
Fixpoint iter_n {A : Type} (n : nat) (f : A -> A) (x : A) : A :=
  match n with O => x | S k => iter_n k f (f x) end.

(* ------------------------------------------------------------------ CFB *)

Section CFB.
Variable E : list Z -> list Z.   (* the block function, ANY function *)
Variable bs : nat.               (* block size: 8 (encrypt8/decrypt8) or 16 (encrypt16/decrypt16) *)

(* `block.Encrypt(reg, x)`: reads x[:bs], fills the bs-byte register `reg`.  The register is
   a bs-byte slice of the scratch buffer, so whatever E returns is cut/zero-padded to bs. *)
Definition fit (l : list Z) : list Z := firstn bs (l ++ repeat 0%Z bs).
Definition blk (x : list Z) : list Z := fit (E (firstn bs x)).

(* ---- textbook full-block CFB (what crypto/cipher's NewCFBEncrypter/Decrypter compute):
   shift register `prev` = IV, then the previous ciphertext block; keystream = E(prev);
   a final partial block uses the leading bytes of the keystream.  `k` = number of full
   blocks. *)
Fixpoint cfb_enc_n (k : nat) (prev src : list Z) : list Z :=
  let ks := blk prev in
  match k with
  | O => xorb src ks
  | S k' => let c := xorb (firstn bs src) ks in c ++ cfb_enc_n k' c (skipn bs src)
  end.

Fixpoint cfb_dec_n (k : nat) (prev src : list Z) : list Z :=
  let ks := blk prev in
  match k with
  | O => xorb src ks
  | S k' => let c := firstn bs src in xorb c ks ++ cfb_dec_n k' c (skipn bs src)
  end.

Definition cfb_enc_spec (iv src : list Z) : list Z := cfb_enc_n (length src / bs) iv src.
Definition cfb_dec_spec (iv src : list Z) : list Z := cfb_dec_n (length src / bs) iv src.

(* ---- encrypt8 / encrypt16 (crypt.go:346, 427).  State of the loop: memory, tbl, base. *)
Definition enc_state : Type := mem * list Z * nat.

(*   subtle.XORBytes(d[a:b], s[a:b], tbl)
     block.Encrypt(tbl, d[a:b])                                                          *)
Definition enc_blk (m : mem) (tbl : list Z) (off : nat) : mem * list Z :=
  let m := st_dst m off (xorb (ld_src m off bs) tbl) in
  let tbl := blk (ld_dst m off bs) in
  (m, tbl).

(* body of `for range repeat`: s := src[base:][0:8*bs]; d := dst[base:][0:8*bs]; eight
   numbered statement pairs on d[k*bs:(k+1)*bs]; base += 8*bs *)
Definition enc_group (st : enc_state) : enc_state :=
  let '(m, tbl, base) := st in
  let '(m, tbl) := enc_blk m tbl (base + 0 * bs) in (* 1 *)
  let '(m, tbl) := enc_blk m tbl (base + 1 * bs) in (* 2 *)
  let '(m, tbl) := enc_blk m tbl (base + 2 * bs) in (* 3 *)
  let '(m, tbl) := enc_blk m tbl (base + 3 * bs) in (* 4 *)
  let '(m, tbl) := enc_blk m tbl (base + 4 * bs) in (* 5 *)
  let '(m, tbl) := enc_blk m tbl (base + 5 * bs) in (* 6 *)
  let '(m, tbl) := enc_blk m tbl (base + 6 * bs) in (* 7 *)
  let '(m, tbl) := enc_blk m tbl (base + 7 * bs) in (* 8 *)
  (m, tbl, base + 8 * bs).

Fixpoint enc_loop (repeat : nat) (st : enc_state) : enc_state :=
  match repeat with O => st | S r => enc_loop r (enc_group st) end.

(* one `case k:` arm, k = 7..1:  XORBytes(dst[base:base+bs], src[base:base+bs], tbl);
   block.Encrypt(tbl, dst[base:base+bs]); base += bs; fallthrough.
   (encrypt16 writes the open slices dst[base:], src[base:]; XORBytes and Encrypt cut them to
   len(tbl) = bs bytes - CfbProofs.xorb_open_slice.) *)
Definition enc_arm (st : enc_state) : enc_state :=
  let '(m, tbl, base) := st in
  let '(m, tbl) := enc_blk m tbl base in
  (m, tbl, base + bs).

(* case 0:  subtle.XORBytes(dst[base:], src[base:], tbl)    - the tail, < bs bytes *)
Definition enc_case0 (st : enc_state) : mem :=
  let '(m, tbl, base) := st in st_dst m base (xorb (ld_src_from m base) tbl).
Definition enc_case1 (st : enc_state) : mem := enc_case0 (enc_arm st).
Definition enc_case2 (st : enc_state) : mem := enc_case1 (enc_arm st).
Definition enc_case3 (st : enc_state) : mem := enc_case2 (enc_arm st).
Definition enc_case4 (st : enc_state) : mem := enc_case3 (enc_arm st).
Definition enc_case5 (st : enc_state) : mem := enc_case4 (enc_arm st).
Definition enc_case6 (st : enc_state) : mem := enc_case5 (enc_arm st).
Definition enc_case7 (st : enc_state) : mem := enc_case6 (enc_arm st).

(* `switch left { case 7: ... fallthrough ... case 0: ... }` - no default arm *)
Definition enc_switch (left : nat) (st : enc_state) : mem :=
  match left with
  | 7 => enc_case7 st
  | 6 => enc_case6 st
  | 5 => enc_case5 st
  | 4 => enc_case4 st
  | 3 => enc_case3 st
  | 2 => enc_case2 st
  | 1 => enc_case1 st
  | 0 => enc_case0 st
  | _ => fst (fst st)
  end.

Definition enc_unrolled (m : mem) : mem :=
  let tbl := blk c_initialVector in      (* block.Encrypt(tbl, initialVector) *)
  let n := src_len m / bs in             (* n := len(src) >> 3  (>> 4) *)
  let base := 0 in
  let repeat := n / 8 in                 (* n >> 3 *)
  let left := n mod 8 in                 (* n & 7 *)
  enc_switch left (enc_loop repeat (m, tbl, base)).

(* ---- decrypt8 / decrypt16 (crypt.go:520, 610).  State: memory, tbl, next, base. *)
Definition dec_state : Type := mem * list Z * list Z * nat.

(*   block.Encrypt(<other register>, s[a:b])
     subtle.XORBytes(d[a:b], s[a:b], <keystream register>)
   returns the memory and the new content of the other register *)
Definition dec_blk (m : mem) (ks : list Z) (off : nat) : mem * list Z :=
  let other := blk (ld_src m off bs) in
  let m := st_dst m off (xorb (ld_src m off bs) ks) in
  (m, other).

Definition dec_group (st : dec_state) : dec_state :=
  let '(m, tbl, next, base) := st in
  let '(m, next) := dec_blk m tbl (base + 0 * bs) in  (* 1: Encrypt(next, s); XOR(d, s, tbl) *)
  let '(m, tbl) := dec_blk m next (base + 1 * bs) in  (* 2: Encrypt(tbl, s); XOR(d, s, next) *)
  let '(m, next) := dec_blk m tbl (base + 2 * bs) in  (* 3 *)
  let '(m, tbl) := dec_blk m next (base + 3 * bs) in  (* 4 *)
  let '(m, next) := dec_blk m tbl (base + 4 * bs) in  (* 5 *)
  let '(m, tbl) := dec_blk m next (base + 5 * bs) in  (* 6 *)
  let '(m, next) := dec_blk m tbl (base + 6 * bs) in  (* 7 *)
  let '(m, tbl) := dec_blk m next (base + 7 * bs) in  (* 8 *)
  (m, tbl, next, base + 8 * bs).

Fixpoint dec_loop (repeat : nat) (st : dec_state) : dec_state :=
  match repeat with O => st | S r => dec_loop r (dec_group st) end.

(* one `case k:` arm: block.Encrypt(next, src[base:base+bs]); XORBytes(dst[..], src[..], tbl);
   tbl, next = next, tbl; base += bs; fallthrough *)
Definition dec_arm (st : dec_state) : dec_state :=
  let '(m, tbl, next, base) := st in
  let '(m, next) := dec_blk m tbl base in
  (m, next, tbl, base + bs).

Definition dec_case0 (st : dec_state) : mem :=
  let '(m, tbl, next, base) := st in st_dst m base (xorb (ld_src_from m base) tbl).
Definition dec_case1 (st : dec_state) : mem := dec_case0 (dec_arm st).
Definition dec_case2 (st : dec_state) : mem := dec_case1 (dec_arm st).
Definition dec_case3 (st : dec_state) : mem := dec_case2 (dec_arm st).
Definition dec_case4 (st : dec_state) : mem := dec_case3 (dec_arm st).
Definition dec_case5 (st : dec_state) : mem := dec_case4 (dec_arm st).
Definition dec_case6 (st : dec_state) : mem := dec_case5 (dec_arm st).
Definition dec_case7 (st : dec_state) : mem := dec_case6 (dec_arm st).

Definition dec_switch (left : nat) (st : dec_state) : mem :=
  match left with
  | 7 => dec_case7 st
  | 6 => dec_case6 st
  | 5 => dec_case5 st
  | 4 => dec_case4 st
  | 3 => dec_case3 st
  | 2 => dec_case2 st
  | 1 => dec_case1 st
  | 0 => dec_case0 st
  | _ => fst (fst (fst st))
  end.

(* `next0`: the stale content of buf[bs:2*bs] left by the previous call (decbuf lives as long
   as the blockCrypt) *)
Definition dec_unrolled (next0 : list Z) (m : mem) : mem :=
  let tbl := blk c_initialVector in
  let n := src_len m / bs in
  let base := 0 in
  let repeat := n / 8 in
  let left := n mod 8 in
  dec_switch left (dec_loop repeat (m, tbl, next0, base)).

(* the content of dst after Encrypt(dst, src) / Decrypt(dst, src); in place: dst is src *)
Definition enc_run (inplace : bool) (src dst0 : list Z) : list Z :=
  m_dst (enc_unrolled (mem_of inplace src dst0)).
Definition dec_run (inplace : bool) (next0 src dst0 : list Z) : list Z :=
  m_dst (dec_unrolled next0 (mem_of inplace src dst0)).

End CFB.

(* ------------------------------------------------------------------ the stream "ciphers" *)

(* in[i] ^ keystream[pos+i] *)
Fixpoint xor_from (f : Z -> Z) (pos : Z) (data : list Z) : list Z :=
  match data with
  | [] => []
  | b :: t => Z.lxor b (f pos) :: xor_from f (pos + 1)%Z t
  end.

Fixpoint tbl_from (f : Z -> Z) (pos : Z) (n : nat) : list Z :=
  match n with O => [] | S k => f pos :: tbl_from f (pos + 1)%Z k end.

Section Stream.
Variable ksf : list Z -> Z -> Z.  (* salsa20 keystream byte i under the 8-byte nonce (key fixed) *)
Variable padf : Z -> Z.           (* byte i of pbkdf2(key, saltxor, 32, mtuLimit, sha1) *)

(* the short path `if len(src) < 8 { copy(dst, src); return }`: a packet too short to carry a
   nonce passes in clear.  (Until the repair of finding F5 this was a bare `return`, i.e.
   `salsa_short m := m`, which left dst unwritten out of place.) *)
Definition salsa_short (m : mem) : mem := st_dst m 0 (ld_src_from m 0).

(* func (c *salsa20BlockCrypt) Encrypt(dst, src []byte) *)
Definition salsa_encrypt (m : mem) : mem :=
  if src_len m <? 8 then salsa_short m
  else
    (* salsa20.XORKeyStream(dst[8:], src[8:], src[:8], &c.key) *)
    let m1 := st_dst m 8 (xor_from (ksf (ld_src m 0 8)) 0%Z (ld_src_from m 8)) in
    (* if &dst[0] != &src[0] { copy(dst[:8], src[:8]) } *)
    if negb (aliased m1) then st_dst m1 0 (ld_src m1 0 8) else m1.

(* func (c *salsa20BlockCrypt) Decrypt(dst, src []byte)  - the same statements *)
Definition salsa_decrypt (m : mem) : mem :=
  if src_len m <? 8 then salsa_short m
  else
    let m1 := st_dst m 8 (xor_from (ksf (ld_src m 0 8)) 0%Z (ld_src_from m 8)) in
    if negb (aliased m1) then st_dst m1 0 (ld_src m1 0 8) else m1.

(* c.xortbl = pbkdf2.Key(key, saltxor, 32, mtuLimit, sha1.New): mtuLimit bytes *)
Definition xortbl : list Z := tbl_from padf 0%Z (Z.to_nat c_mtuLimit).

(* func (c *simpleXORBlockCrypt) Encrypt(dst, src []byte) *)
Definition sxor_encrypt (m : mem) : mem :=
  if src_len m =? 0 then m
  else st_dst m 0 (xorb (ld_src_from m 0) xortbl).   (* subtle.XORBytes(dst, src, c.xortbl) *)
Definition sxor_decrypt (m : mem) : mem :=
  if src_len m =? 0 then m
  else st_dst m 0 (xorb (ld_src_from m 0) xortbl).

(* func (c *noneBlockCrypt) Encrypt(dst, src []byte) *)
Definition none_encrypt (m : mem) : mem :=
  if src_len m =? 0 then m
  else if negb (aliased m) then st_dst m 0 (ld_src_from m 0)   (* copy(dst, src) *)
  else m.
Definition none_decrypt (m : mem) : mem :=
  if src_len m =? 0 then m
  else if negb (aliased m) then st_dst m 0 (ld_src_from m 0)
  else m.

End Stream.

Definition stream_run (f : mem -> mem) (inplace : bool) (src dst0 : list Z) : list Z :=
  m_dst (f (mem_of inplace src dst0)).

(* ------------------------------------------------------------------ AEAD wrapper guard *)

(* a Go slice header as far as reallocation is concerned *)
Record slice := mkSlice { s_nil : bool; s_len : nat; s_cap : nat }.

(* append(dst, <n bytes>...) / crypto/cipher's sliceForAppend: a new array iff the capacity
   does not suffice *)
Definition append_reallocates (dst : slice) (n : nat) : bool := s_cap dst <? s_len dst + n.

(* func (a *aeadCrypt) Seal: if dst == nil || cap(dst)-len(dst) < len(plaintext)+a.aead.Overhead() { panic } *)
Definition aead_seal_panics (dst : slice) (ptlen overhead : nat) : bool :=
  s_nil dst || (s_cap dst - s_len dst <? ptlen + overhead).

(* ------------------------------------------------------------------ the toy block function *)

(* A keyed byte mixing, NOT a cipher (CFB never inverts E): every output byte depends on every
   input byte and on the key.  The same function is written in Go in harness/cfb_test.go and
   handed to the real encrypt8/16, decrypt8/16 as their cipher.Block. *)
Definition byte (z : Z) : Z := Z.land z 255.

Fixpoint toy_digest (acc : Z) (x key : list Z) : Z :=
  match x, key with
  | a :: x', k :: key' => toy_digest (byte (acc * 5 + a + k + 1)) x' key'
  | _, _ => acc
  end.

Fixpoint toy_mix (acc d : Z) (x key : list Z) : list Z :=
  match x, key with
  | a :: x', k :: key' =>
      let acc' := byte (acc * 3 + Z.lxor a k + 1) in
      Z.lxor acc' d :: toy_mix acc' d x' key'
  | _, _ => []
  end.

Definition toyE (key x : list Z) : list Z := toy_mix 1%Z (toy_digest 7%Z x key) x key.
