(* Proofs about coq/cfb/Cfb.v (property C08).  Plan (DESIGN.md appendix D.2):
     1. the control structure collapses: group of 8 = 8 arms, loop of `repeat` groups =
        8*repeat arms, `switch left` with fall-through = `left` arms then the tail, so the
        whole function is `n` arms and the tail, n = len/bs   (induction on the number of
        groups + the finite case split on left);
     2. n arms and the tail, run on a memory that is either one buffer or two, compute the
        textbook recursion (induction on n, any starting offset);
     3. textbook dec . textbook enc = id for any block function. *)
From Coq Require Import List Arith ZArith Bool Lia.
From KV.Base Require Import Consts.
From KV.Cfb Require Import Cfb.
Import ListNotations.
Local Open Scope nat_scope.

(* ------------------------------------------------------------------ lists *)

Lemma xorb_length : forall x y, length (xorb x y) = Nat.min (length x) (length y).
Proof. induction x; destruct y; simpl; auto. Qed.

Lemma xorb_nil_r : forall x, xorb x [] = [].
Proof. destruct x; reflexivity. Qed.

Lemma xorb_invol : forall x y, length x <= length y -> xorb (xorb x y) y = x.
Proof.
  induction x; destruct y; simpl; intros; auto; try lia.
  rewrite IHx by lia. f_equal.
  rewrite Z.lxor_assoc, Z.lxor_nilpotent, Z.lxor_0_r. reflexivity.
Qed.

(* XORBytes(dst[base:], src[base:], tbl) = XORBytes(dst[base:base+bs], src[base:base+bs], tbl)
   when len(tbl) = bs: the open slices of encrypt16/decrypt16 are cut by the register. *)
Lemma xorb_open_slice : forall t n l, length t = n -> xorb (firstn n l) t = xorb l t.
Proof.
  induction t; intros n l H; simpl in H; subst n.
  - simpl. now rewrite xorb_nil_r.
  - destruct l; simpl; auto. f_equal. apply IHt. reflexivity.
Qed.

Lemma skipn_app_exact : forall (P l : list Z), skipn (length P) (P ++ l) = l.
Proof. induction P; simpl; auto. Qed.

Lemma firstn_app_exact : forall (P l : list Z), firstn (length P) (P ++ l) = P.
Proof. induction P; simpl; intros; f_equal; auto. Qed.

Lemma rd_app : forall P l n, rd (P ++ l) (length P) n = firstn n l.
Proof. intros. unfold rd. now rewrite skipn_app_exact. Qed.

Lemma wr_app : forall P l d, wr (P ++ l) (length P) d = P ++ ovw d l.
Proof. induction P; simpl; intros; auto. destruct l; f_equal; auto. f_equal. apply IHP. Qed.

Lemma wr_0 : forall l d, wr l 0 d = ovw d l.
Proof. destruct l; reflexivity. Qed.

Lemma ovw_app_l : forall c r l, length c <= length l ->
  ovw (c ++ r) l = c ++ ovw r (skipn (length c) l).
Proof.
  induction c; simpl; intros; auto.
  destruct l; simpl in *; try lia. f_equal. apply IHc. lia.
Qed.

Lemma ovw_nil : forall l, ovw [] l = l.
Proof. destruct l; reflexivity. Qed.

Lemma ovw_skipn : forall d l, length d <= length l -> ovw d l = d ++ skipn (length d) l.
Proof.
  intros. rewrite <- (app_nil_r d) at 1. rewrite ovw_app_l by assumption. now rewrite ovw_nil.
Qed.

Lemma ovw_all : forall d l, length d = length l -> ovw d l = d.
Proof.
  intros. rewrite ovw_skipn by lia. rewrite H, skipn_all. apply app_nil_r.
Qed.

Lemma ovw_length : forall d l, length (ovw d l) = length l.
Proof. induction d; destruct l; simpl; auto. Qed.

Lemma ovw_self : forall l, ovw l l = l.
Proof. intros. now apply ovw_all. Qed.

Lemma firstn_skipn_len : forall (l : list Z) n, n <= length l -> length (firstn n l) = n.
Proof. intros. rewrite firstn_length. lia. Qed.

Lemma iter_n_add : forall (A : Type) (f : A -> A) a b x,
  iter_n (a + b) f x = iter_n b f (iter_n a f x).
Proof. induction a; simpl; intros; auto. Qed.

(* ------------------------------------------------------------------ the memory view *)

(* m, seen from offset length P: dst = P ++ D; what src shows from that offset on is S
   (in place: S is D itself) *)
Definition view (m : mem) (P D S : list Z) : Prop :=
  m_dst m = P ++ D /\
  (if aliased m then S = D
   else exists P', m_src m = P' ++ S /\ length P' = length P).

Lemma view_ld_src_from : forall m P D S, view m P D S -> ld_src_from m (length P) = S.
Proof.
  intros m P D S [Hd Hs]. unfold ld_src_from, src_view. destruct (aliased m).
  - subst S. rewrite Hd. apply skipn_app_exact.
  - destruct Hs as [P' [Hs Hl]]. rewrite Hs, <- Hl. apply skipn_app_exact.
Qed.

Lemma view_ld_src : forall m P D S n, view m P D S -> ld_src m (length P) n = firstn n S.
Proof.
  intros. unfold ld_src, rd. fold (ld_src_from m (length P)).
  now rewrite (view_ld_src_from _ _ _ _ H).
Qed.

Lemma view_st_dst : forall m P D S data,
  view m P D S -> m_dst (st_dst m (length P) data) = P ++ ovw data D.
Proof. intros m P D S data [Hd _]. simpl. rewrite Hd. apply wr_app. Qed.

(* writing one full block at the current offset moves the view one block on *)
Lemma view_step : forall m P D S c n,
  view m P D S -> length c = n -> n <= length S -> length S <= length D ->
  view (st_dst m (length P) c) (P ++ c) (skipn n D) (skipn n S) /\
  ld_dst (st_dst m (length P) c) (length P) n = c.
Proof.
  intros m P D S c n Hv Hc HS HD.
  assert (Hm : m_dst (st_dst m (length P) c) = (P ++ c) ++ skipn n D).
  { rewrite (view_st_dst _ _ _ _ _ Hv). rewrite ovw_skipn by lia. rewrite Hc. now rewrite app_assoc. }
  split.
  - split; [exact Hm|]. destruct Hv as [Hd Hs]. simpl. destruct (aliased m).
    + now subst S.
    + destruct Hs as [P' [Hs Hl]]. exists (P' ++ firstn n S). split.
      * rewrite <- app_assoc, firstn_skipn. exact Hs.
      * rewrite !app_length, firstn_length. lia.
  - unfold ld_dst. rewrite Hm, <- app_assoc, rd_app.
    rewrite <- Hc. apply firstn_app_exact.
Qed.

Lemma view_init : forall inplace src d0, view (mem_of inplace src d0) [] (if inplace then src else d0) src.
Proof.
  intros. destruct inplace; split; simpl; auto. exists []. auto.
Qed.

(* ------------------------------------------------------------------ CFB *)

Section CFB.
Variable E : list Z -> list Z.
Variable bs : nat.
Hypothesis bs_pos : 0 < bs.

Notation blk := (blk E bs).
Notation enc_arm := (enc_arm E bs).
Notation dec_arm := (dec_arm E bs).

Lemma fit_length : forall l, length (fit bs l) = bs.
Proof.
  intros. unfold fit. rewrite firstn_length, app_length, repeat_length. lia.
Qed.

Lemma blk_length : forall x, length (blk x) = bs.
Proof. intros. apply fit_length. Qed.

(* ---- 1. collapse of the control structure *)

Lemma enc_group_arms : forall st, enc_group E bs st = iter_n 8 enc_arm st.
Proof.
  intros [[m tbl] base]. unfold enc_group.
  replace (base + 0 * bs) with base by lia.
  replace (base + 1 * bs) with (base + bs) by lia.
  replace (base + 2 * bs) with (base + bs + bs) by lia.
  replace (base + 3 * bs) with (base + bs + bs + bs) by lia.
  replace (base + 4 * bs) with (base + bs + bs + bs + bs) by lia.
  replace (base + 5 * bs) with (base + bs + bs + bs + bs + bs) by lia.
  replace (base + 6 * bs) with (base + bs + bs + bs + bs + bs + bs) by lia.
  replace (base + 7 * bs) with (base + bs + bs + bs + bs + bs + bs + bs) by lia.
  replace (base + 8 * bs) with (base + bs + bs + bs + bs + bs + bs + bs + bs) by lia.
  cbn [iter_n]. unfold Cfb.enc_arm.
  repeat match goal with
         | |- context [enc_blk E bs ?a ?b ?c] => destruct (enc_blk E bs a b c)
         end.
  reflexivity.
Qed.

Lemma enc_loop_arms : forall r st, enc_loop E bs r st = iter_n (8 * r) enc_arm st.
Proof.
  induction r; intros; simpl enc_loop.
  - reflexivity.
  - rewrite IHr, enc_group_arms.
    replace (8 * S r) with (8 + 8 * r) by lia. now rewrite iter_n_add.
Qed.

Lemma enc_switch_arms : forall left st, left < 8 ->
  enc_switch E bs left st = enc_case0 (iter_n left enc_arm st).
Proof.
  intros left st H.
  do 8 (destruct left as [|left]; [reflexivity|]). lia.
Qed.

Lemma enc_unrolled_arms : forall m,
  enc_unrolled E bs m =
  enc_case0 (iter_n (src_len m / bs) enc_arm (m, blk c_initialVector, 0)).
Proof.
  intros. unfold enc_unrolled.
  rewrite enc_switch_arms by (apply Nat.mod_upper_bound; lia).
  rewrite enc_loop_arms, <- iter_n_add.
  now rewrite <- Nat.div_mod by lia.
Qed.

Lemma dec_group_arms : forall st, dec_group E bs st = iter_n 8 dec_arm st.
Proof.
  intros [[[m tbl] next] base]. unfold dec_group.
  replace (base + 0 * bs) with base by lia.
  replace (base + 1 * bs) with (base + bs) by lia.
  replace (base + 2 * bs) with (base + bs + bs) by lia.
  replace (base + 3 * bs) with (base + bs + bs + bs) by lia.
  replace (base + 4 * bs) with (base + bs + bs + bs + bs) by lia.
  replace (base + 5 * bs) with (base + bs + bs + bs + bs + bs) by lia.
  replace (base + 6 * bs) with (base + bs + bs + bs + bs + bs + bs) by lia.
  replace (base + 7 * bs) with (base + bs + bs + bs + bs + bs + bs + bs) by lia.
  replace (base + 8 * bs) with (base + bs + bs + bs + bs + bs + bs + bs + bs) by lia.
  cbn [iter_n]. unfold Cfb.dec_arm.
  repeat match goal with
         | |- context [dec_blk E bs ?a ?b ?c] => destruct (dec_blk E bs a b c)
         end.
  reflexivity.
Qed.

Lemma dec_loop_arms : forall r st, dec_loop E bs r st = iter_n (8 * r) dec_arm st.
Proof.
  induction r; intros; simpl dec_loop.
  - reflexivity.
  - rewrite IHr, dec_group_arms.
    replace (8 * S r) with (8 + 8 * r) by lia. now rewrite iter_n_add.
Qed.

Lemma dec_switch_arms : forall left st, left < 8 ->
  dec_switch E bs left st = dec_case0 (iter_n left dec_arm st).
Proof.
  intros left st H.
  do 8 (destruct left as [|left]; [reflexivity|]). lia.
Qed.

Lemma dec_unrolled_arms : forall next0 m,
  dec_unrolled E bs next0 m =
  dec_case0 (iter_n (src_len m / bs) dec_arm (m, blk c_initialVector, next0, 0)).
Proof.
  intros. unfold dec_unrolled.
  rewrite dec_switch_arms by (apply Nat.mod_upper_bound; lia).
  rewrite dec_loop_arms, <- iter_n_add.
  now rewrite <- Nat.div_mod by lia.
Qed.

(* ---- 2. n arms and the tail compute the textbook recursion, in place or not *)

Lemma enc_arm_eq : forall m tbl base,
  enc_arm (m, tbl, base) =
  (st_dst m base (xorb (ld_src m base bs) tbl),
   blk (ld_dst (st_dst m base (xorb (ld_src m base bs) tbl)) base bs), base + bs).
Proof. reflexivity. Qed.

Lemma dec_arm_eq : forall m tbl next base,
  dec_arm (m, tbl, next, base) =
  (st_dst m base (xorb (ld_src m base bs) tbl), blk (ld_src m base bs), tbl, base + bs).
Proof. reflexivity. Qed.

Lemma enc_arms_spec : forall n m tbl base P D S prev,
  view m P D S -> base = length P -> tbl = blk prev ->
  n * bs <= length S -> length S <= length D ->
  m_dst (enc_case0 (iter_n n enc_arm (m, tbl, base))) = P ++ ovw (cfb_enc_n E bs n prev S) D.
Proof.
  induction n; intros m tbl base P D S prev Hv Hb Ht Hn HD; subst base tbl.
  - simpl iter_n. unfold enc_case0. rewrite (view_st_dst _ _ _ _ _ Hv).
    rewrite (view_ld_src_from _ _ _ _ Hv). reflexivity.
  - cbn [iter_n]. rewrite enc_arm_eq.
    rewrite (view_ld_src _ _ _ _ bs Hv).
    set (c := xorb (firstn bs S) (blk prev)).
    assert (Hc : length c = bs).
    { unfold c. rewrite xorb_length, blk_length, firstn_length. simpl in Hn. lia. }
    destruct (view_step m P D S c bs Hv Hc) as [Hv' Hld]; [simpl in Hn; lia | lia |].
    rewrite Hld.
    rewrite (IHn _ _ _ (P ++ c) (skipn bs D) (skipn bs S) c Hv').
    + cbn [cfb_enc_n]. fold c. rewrite ovw_app_l by lia. rewrite Hc. now rewrite <- app_assoc.
    + rewrite app_length. lia.
    + reflexivity.
    + rewrite skipn_length. simpl in Hn. lia.
    + rewrite !skipn_length. lia.
Qed.

Lemma dec_arms_spec : forall n m tbl next base P D S prev,
  view m P D S -> base = length P -> tbl = blk prev ->
  n * bs <= length S -> length S <= length D ->
  m_dst (dec_case0 (iter_n n dec_arm (m, tbl, next, base))) = P ++ ovw (cfb_dec_n E bs n prev S) D.
Proof.
  induction n; intros m tbl next base P D S prev Hv Hb Ht Hn HD; subst base tbl.
  - simpl iter_n. unfold dec_case0. rewrite (view_st_dst _ _ _ _ _ Hv).
    rewrite (view_ld_src_from _ _ _ _ Hv). reflexivity.
  - cbn [iter_n]. rewrite dec_arm_eq.
    rewrite (view_ld_src _ _ _ _ bs Hv).
    set (c := xorb (firstn bs S) (blk prev)).
    assert (Hc : length c = bs).
    { unfold c. rewrite xorb_length, blk_length, firstn_length. simpl in Hn. lia. }
    destruct (view_step m P D S c bs Hv Hc) as [Hv' _]; [simpl in Hn; lia | lia |].
    rewrite (IHn _ _ _ _ (P ++ c) (skipn bs D) (skipn bs S) (firstn bs S) Hv').
    + cbn [cfb_dec_n]. fold c. rewrite ovw_app_l by lia. rewrite Hc. now rewrite <- app_assoc.
    + rewrite app_length. lia.
    + reflexivity.
    + rewrite skipn_length. simpl in Hn. lia.
    + rewrite !skipn_length. lia.
Qed.

(* the unrolled functions, in place or not, against the textbook *)
Lemma enc_run_general : forall inplace src d0,
  length src <= length d0 ->
  enc_run E bs inplace src d0 =
  ovw (cfb_enc_spec E bs c_initialVector src) (if inplace then src else d0).
Proof.
  intros. unfold enc_run. rewrite enc_unrolled_arms.
  assert (Hl : src_len (mem_of inplace src d0) = length src) by (destruct inplace; reflexivity).
  rewrite Hl.
  rewrite (enc_arms_spec _ _ _ _ [] (if inplace then src else d0) src c_initialVector
             (view_init inplace src d0)); try reflexivity.
  - rewrite Nat.mul_comm. apply Nat.mul_div_le. lia.
  - destruct inplace; lia.
Qed.

Lemma dec_run_general : forall inplace next0 src d0,
  length src <= length d0 ->
  dec_run E bs inplace next0 src d0 =
  ovw (cfb_dec_spec E bs c_initialVector src) (if inplace then src else d0).
Proof.
  intros. unfold dec_run. rewrite dec_unrolled_arms.
  assert (Hl : src_len (mem_of inplace src d0) = length src) by (destruct inplace; reflexivity).
  rewrite Hl.
  rewrite (dec_arms_spec _ _ _ next0 _ [] (if inplace then src else d0) src c_initialVector
             (view_init inplace src d0)); try reflexivity.
  - rewrite Nat.mul_comm. apply Nat.mul_div_le. lia.
  - destruct inplace; lia.
Qed.

(* ---- 3. the textbook recursion *)

Lemma cfb_enc_n_length : forall k iv src,
  k * bs <= length src <= k * bs + bs -> length (cfb_enc_n E bs k iv src) = length src.
Proof.
  induction k; intros iv src H; cbn [cfb_enc_n].
  - rewrite xorb_length, blk_length. lia.
  - rewrite app_length, xorb_length, blk_length, firstn_length, IHk.
    + rewrite skipn_length. simpl in H. lia.
    + rewrite skipn_length. simpl in H. lia.
Qed.

Lemma cfb_dec_n_length : forall k iv src,
  k * bs <= length src <= k * bs + bs -> length (cfb_dec_n E bs k iv src) = length src.
Proof.
  induction k; intros iv src H; cbn [cfb_dec_n].
  - rewrite xorb_length, blk_length. lia.
  - rewrite app_length, xorb_length, blk_length, firstn_length, IHk.
    + rewrite skipn_length. simpl in H. lia.
    + rewrite skipn_length. simpl in H. lia.
Qed.

Lemma cfb_n_roundtrip : forall k iv src,
  k * bs <= length src <= k * bs + bs ->
  cfb_dec_n E bs k iv (cfb_enc_n E bs k iv src) = src.
Proof.
  induction k; intros iv src H; cbn [cfb_enc_n cfb_dec_n].
  - apply xorb_invol. rewrite blk_length. lia.
  - set (c := xorb (firstn bs src) (blk iv)).
    assert (Hc : length c = bs).
    { unfold c. rewrite xorb_length, blk_length, firstn_length. simpl in H. lia. }
    assert (Hf : forall R, firstn bs (c ++ R) = c) by (intro; rewrite <- Hc; apply firstn_app_exact).
    assert (Hs : forall R, skipn bs (c ++ R) = R) by (intro; rewrite <- Hc; apply skipn_app_exact).
    rewrite Hf, Hs.
    rewrite IHk by (rewrite skipn_length; simpl in H; lia).
    unfold c. rewrite xorb_invol by (rewrite blk_length, firstn_length; lia).
    apply firstn_skipn.
Qed.

Lemma div_bounds : forall n, (n / bs) * bs <= n <= (n / bs) * bs + bs.
Proof.
  intros. pose proof (Nat.div_mod n bs ltac:(lia)).
  pose proof (Nat.mod_upper_bound n bs ltac:(lia)). lia.
Qed.

Lemma cfb_enc_spec_length : forall iv src, length (cfb_enc_spec E bs iv src) = length src.
Proof. intros. apply cfb_enc_n_length, div_bounds. Qed.

Lemma cfb_dec_spec_length : forall iv src, length (cfb_dec_spec E bs iv src) = length src.
Proof. intros. apply cfb_dec_n_length, div_bounds. Qed.

Lemma cfb_spec_roundtrip : forall iv src,
  cfb_dec_spec E bs iv (cfb_enc_spec E bs iv src) = src.
Proof.
  intros. unfold cfb_dec_spec. rewrite cfb_enc_spec_length.
  apply cfb_n_roundtrip, div_bounds.
Qed.

(* ---- the statements of C08 for one block size *)

Lemma enc_is_cfb : forall inplace src d0,
  length d0 = length src ->
  enc_run E bs inplace src d0 = cfb_enc_spec E bs c_initialVector src.
Proof.
  intros. rewrite enc_run_general by lia. apply ovw_all.
  rewrite cfb_enc_spec_length. destruct inplace; lia.
Qed.

Lemma dec_is_cfb : forall inplace next0 src d0,
  length d0 = length src ->
  dec_run E bs inplace next0 src d0 = cfb_dec_spec E bs c_initialVector src.
Proof.
  intros. rewrite dec_run_general by lia. apply ovw_all.
  rewrite cfb_dec_spec_length. destruct inplace; lia.
Qed.

(* a longer destination keeps its bytes beyond len(src) *)
Lemma enc_sep_longer_dst : forall src d0,
  length src <= length d0 ->
  enc_run E bs false src d0 = cfb_enc_spec E bs c_initialVector src ++ skipn (length src) d0.
Proof.
  intros. rewrite enc_run_general by lia. rewrite ovw_skipn; rewrite cfb_enc_spec_length; auto.
Qed.

Lemma dec_sep_longer_dst : forall next0 src d0,
  length src <= length d0 ->
  dec_run E bs false next0 src d0 = cfb_dec_spec E bs c_initialVector src ++ skipn (length src) d0.
Proof.
  intros. rewrite dec_run_general by lia. rewrite ovw_skipn; rewrite cfb_dec_spec_length; auto.
Qed.

Lemma unrolled_roundtrip : forall ip_e ip_d next0 src d0 d1,
  length d0 = length src -> length d1 = length src ->
  dec_run E bs ip_d next0 (enc_run E bs ip_e src d0) d1 = src.
Proof.
  intros. rewrite (enc_is_cfb ip_e src d0) by assumption.
  rewrite dec_is_cfb by (rewrite cfb_enc_spec_length; assumption).
  apply cfb_spec_roundtrip.
Qed.

Lemma unrolled_inplace : forall next0 buf d0,
  length d0 = length buf ->
  enc_run E bs true buf d0 = enc_run E bs false buf d0 /\
  dec_run E bs true next0 buf d0 = dec_run E bs false next0 buf d0.
Proof.
  intros. split.
  - now rewrite !enc_is_cfb.
  - now rewrite !dec_is_cfb.
Qed.

End CFB.

(* ------------------------------------------------------------------ both block sizes *)

Lemma bs_8_16_pos : forall bs, bs = 8 \/ bs = 16 -> 0 < bs.
Proof. intros bs [H|H]; subst; lia. Qed.

(* in place the second buffer does not exist *)
Lemma enc_run_inplace_irrel : forall E bs src d0, enc_run E bs true src d0 = enc_run E bs true src src.
Proof. reflexivity. Qed.
Lemma dec_run_inplace_irrel : forall E bs next0 src d0,
  dec_run E bs true next0 src d0 = dec_run E bs true next0 src src.
Proof. reflexivity. Qed.
Lemma stream_run_inplace_irrel : forall f src d0, stream_run f true src d0 = stream_run f true src src.
Proof. reflexivity. Qed.

Lemma c08_enc_is_cfb_proof : forall (E : list Z -> list Z) (bs : nat) (inplace : bool) (src d0 : list Z),
  bs = 8 \/ bs = 16 -> inplace = true \/ length d0 = length src ->
  enc_run E bs inplace src d0 = cfb_enc_spec E bs c_initialVector src.
Proof.
  intros E bs ip src d0 Hb [H|H].
  - subst. rewrite enc_run_inplace_irrel. apply enc_is_cfb; auto using bs_8_16_pos.
  - apply enc_is_cfb; auto using bs_8_16_pos.
Qed.

Lemma c08_dec_is_cfb_proof : forall (E : list Z -> list Z) (bs : nat) (inplace : bool) (next0 src d0 : list Z),
  bs = 8 \/ bs = 16 -> inplace = true \/ length d0 = length src ->
  dec_run E bs inplace next0 src d0 = cfb_dec_spec E bs c_initialVector src.
Proof.
  intros E bs ip next0 src d0 Hb [H|H].
  - subst. rewrite dec_run_inplace_irrel. apply dec_is_cfb; auto using bs_8_16_pos.
  - apply dec_is_cfb; auto using bs_8_16_pos.
Qed.

Lemma c08_longer_dst_proof : forall (E : list Z -> list Z) (bs : nat) (next0 src d0 : list Z),
  bs = 8 \/ bs = 16 -> length src <= length d0 ->
  enc_run E bs false src d0 = cfb_enc_spec E bs c_initialVector src ++ skipn (length src) d0 /\
  dec_run E bs false next0 src d0 = cfb_dec_spec E bs c_initialVector src ++ skipn (length src) d0.
Proof.
  intros. split; [apply enc_sep_longer_dst | apply dec_sep_longer_dst]; auto using bs_8_16_pos.
Qed.

Lemma c08_roundtrip_proof : forall (E : list Z -> list Z) (bs : nat) (ip_e ip_d : bool) (next0 src d0 d1 : list Z),
  bs = 8 \/ bs = 16 -> ip_e = true \/ length d0 = length src -> ip_d = true \/ length d1 = length src ->
  dec_run E bs ip_d next0 (enc_run E bs ip_e src d0) d1 = src.
Proof.
  intros E bs ip_e ip_d next0 src d0 d1 Hb He Hd.
  rewrite (c08_enc_is_cfb_proof E bs ip_e src d0 Hb He).
  rewrite c08_dec_is_cfb_proof; auto.
  - apply cfb_spec_roundtrip. auto using bs_8_16_pos.
  - destruct Hd; auto. right. rewrite cfb_enc_spec_length; auto using bs_8_16_pos.
Qed.

Lemma c08_inplace_proof : forall (E : list Z -> list Z) (bs : nat) (next0 buf d0 : list Z),
  bs = 8 \/ bs = 16 -> length d0 = length buf ->
  enc_run E bs true buf d0 = enc_run E bs false buf d0 /\
  dec_run E bs true next0 buf d0 = dec_run E bs false next0 buf d0.
Proof. intros. apply unrolled_inplace; auto using bs_8_16_pos. Qed.

(* The memory model does tell a wrong statement order apart: a decrypt arm that XORs into dst
   BEFORE encrypting the source block into the other register reads, in place, its own output. *)
Definition dec_blk_mutant (E : list Z -> list Z) (bs : nat) (m : mem) (ks : list Z) (off : nat) : mem * list Z :=
  let m' := st_dst m off (xorb (ld_src m off bs) ks) in
  (m', blk E bs (ld_src m' off bs)).

Lemma alias_model_sensitive :
  let key := [3; 1; 4; 1; 5; 9; 2; 6]%Z in
  let buf := [10; 20; 30; 40; 50; 60; 70; 80]%Z in
  let ks := [1; 2; 3; 4; 5; 6; 7; 8]%Z in
  snd (dec_blk_mutant (toyE key) 8 (mem_alias buf) ks 0) <> snd (dec_blk_mutant (toyE key) 8 (mem_sep buf buf) ks 0) /\
  snd (dec_blk (toyE key) 8 (mem_alias buf) ks 0) = snd (dec_blk (toyE key) 8 (mem_sep buf buf) ks 0).
Proof. split; [vm_compute; discriminate | reflexivity]. Qed.

(* ------------------------------------------------------------------ stream ciphers *)

Lemma xor_from_length : forall f d p, length (xor_from f p d) = length d.
Proof. induction d; simpl; intros; auto. Qed.

Lemma xor_from_invol : forall f d p, xor_from f p (xor_from f p d) = d.
Proof.
  induction d; simpl; intros; auto. rewrite IHd. f_equal.
  rewrite Z.lxor_assoc, Z.lxor_nilpotent, Z.lxor_0_r. reflexivity.
Qed.

Lemma tbl_from_length : forall f n p, length (tbl_from f p n) = n.
Proof. induction n; simpl; intros; auto. Qed.

Lemma xortbl_length : forall padf, length (xortbl padf) = Z.to_nat c_mtuLimit.
Proof. intros. apply tbl_from_length. Qed.

Lemma wr_split : forall l n d, n <= length l -> wr l n d = firstn n l ++ ovw d (skipn n l).
Proof.
  intros. pose proof (wr_app (firstn n l) (skipn n l) d) as W.
  rewrite firstn_skipn, (firstn_skipn_len l n H) in W. exact W.
Qed.

Lemma rd_0 : forall l n, rd l 0 n = firstn n l.
Proof. reflexivity. Qed.

Lemma src_len_of : forall ip src d0, src_len (mem_of ip src d0) = length src.
Proof. destruct ip; reflexivity. Qed.

Lemma src_view_of : forall ip src d0, src_view (mem_of ip src d0) = src.
Proof. destruct ip; reflexivity. Qed.

Lemma nat_ltb_false : forall a b, b <= a -> (a <? b) = false.
Proof. intros. apply Nat.ltb_ge. assumption. Qed.

Section Stream.
Variable ksf : list Z -> Z -> Z.
Variable padf : Z -> Z.

Lemma salsa_dec_is_enc : forall m, salsa_decrypt ksf m = salsa_encrypt ksf m.
Proof. reflexivity. Qed.
Lemma sxor_dec_is_enc : forall m, sxor_decrypt padf m = sxor_encrypt padf m.
Proof. reflexivity. Qed.
Lemma none_dec_is_enc : forall m, none_decrypt m = none_encrypt m.
Proof. reflexivity. Qed.

(* the short path of salsa20: copy(dst, src) *)
Lemma salsa_short_result : forall m, m_dst (salsa_short m) = ovw (src_view m) (m_dst m).
Proof. intros. unfold salsa_short, ld_src_from. simpl. apply wr_0. Qed.

Lemma salsa_short_run : forall ip src d0, length src < 8 -> length d0 = length src ->
  stream_run (salsa_encrypt ksf) ip src d0 = src.
Proof.
  intros. unfold stream_run, salsa_encrypt. rewrite src_len_of.
  replace (length src <? 8) with true by (symmetry; apply Nat.ltb_lt; assumption).
  rewrite salsa_short_result, src_view_of. destruct ip; simpl; apply ovw_all; auto.
Qed.

Lemma salsa_long_run : forall ip src d0, 8 <= length src -> length d0 = length src ->
  stream_run (salsa_encrypt ksf) ip src d0 =
  firstn 8 src ++ xor_from (ksf (firstn 8 src)) 0%Z (skipn 8 src).
Proof.
  intros ip src d0 H8 Hd. unfold stream_run, salsa_encrypt. rewrite src_len_of.
  rewrite nat_ltb_false by assumption.
  unfold ld_src, ld_src_from. rewrite src_view_of, rd_0.
  set (X := xor_from (ksf (firstn 8 src)) 0%Z (skipn 8 src)).
  assert (HX : length X = length src - 8) by (unfold X; rewrite xor_from_length, skipn_length; reflexivity).
  destruct ip; cbn [mem_of mem_alias mem_sep st_dst aliased negb m_dst m_src src_view].
  - rewrite wr_split by lia. f_equal. apply ovw_all. rewrite skipn_length. lia.
  - rewrite rd_0. rewrite (wr_split d0 8) by lia. rewrite wr_0.
    rewrite (ovw_all X) by (rewrite skipn_length; lia).
    rewrite ovw_skipn by (rewrite app_length, !firstn_length; lia).
    f_equal.
    assert (H : length (firstn 8 src) = length (firstn 8 d0)) by (rewrite !firstn_length; lia).
    rewrite H. apply skipn_app_exact.
Qed.

Lemma salsa_run_length : forall ip src d0, length d0 = length src ->
  length (stream_run (salsa_encrypt ksf) ip src d0) = length src.
Proof.
  intros. destruct (le_lt_dec 8 (length src)).
  - rewrite salsa_long_run by auto. rewrite app_length, firstn_length, xor_from_length, skipn_length. lia.
  - now rewrite salsa_short_run.
Qed.

Lemma salsa_roundtrip : forall ip_e ip_d src d0 d1,
  length d0 = length src -> length d1 = length src ->
  stream_run (salsa_decrypt ksf) ip_d (stream_run (salsa_encrypt ksf) ip_e src d0) d1 = src.
Proof.
  intros ip_e ip_d src d0 d1 H0 H1.
  replace (salsa_decrypt ksf) with (salsa_encrypt ksf) by reflexivity.
  destruct (le_lt_dec 8 (length src)) as [L|L].
  - rewrite (salsa_long_run ip_e src d0) by assumption.
    set (N := firstn 8 src). set (X := xor_from (ksf N) 0%Z (skipn 8 src)).
    assert (HN : length N = 8) by (unfold N; rewrite firstn_length; lia).
    rewrite salsa_long_run.
    + rewrite <- HN at 1 2 3. rewrite firstn_app_exact, skipn_app_exact.
      unfold X. rewrite xor_from_invol. apply firstn_skipn.
    + rewrite app_length. lia.
    + rewrite app_length. unfold X. rewrite xor_from_length, skipn_length. lia.
  - rewrite (salsa_short_run ip_e src d0) by assumption. now apply salsa_short_run.
Qed.

(* simple xor *)
Lemma sxor_run : forall ip src d0,
  stream_run (sxor_encrypt padf) ip src d0 = ovw (xorb src (xortbl padf)) (if ip then src else d0).
Proof.
  intros. unfold stream_run, sxor_encrypt. rewrite src_len_of.
  destruct (Nat.eqb_spec (length src) 0) as [H|H].
  - destruct src; simpl in H; try lia. destruct ip; simpl; now rewrite ?ovw_nil.
  - unfold ld_src_from. rewrite src_view_of. simpl. rewrite wr_0. destruct ip; reflexivity.
Qed.

Lemma ovw_xorb_inplace_invol : forall l T,
  ovw (xorb (ovw (xorb l T) l) T) (ovw (xorb l T) l) = l.
Proof.
  induction l; destruct T; simpl; auto.
  rewrite IHl. f_equal. rewrite Z.lxor_assoc, Z.lxor_nilpotent, Z.lxor_0_r. reflexivity.
Qed.

Lemma sxor_roundtrip : forall ip_e ip_d src d0 d1,
  length d0 = length src -> length d1 = length src ->
  length src <= Z.to_nat c_mtuLimit \/ (ip_e = true /\ ip_d = true) ->
  stream_run (sxor_decrypt padf) ip_d (stream_run (sxor_encrypt padf) ip_e src d0) d1 = src.
Proof.
  intros ip_e ip_d src d0 d1 H0 H1 H.
  replace (sxor_decrypt padf) with (sxor_encrypt padf) by reflexivity.
  rewrite !sxor_run.
  destruct (le_lt_dec (length src) (Z.to_nat c_mtuLimit)) as [L|L].
  - assert (Hx : length (xorb src (xortbl padf)) = length src)
      by (rewrite xorb_length, xortbl_length; lia).
    rewrite (ovw_all (xorb src (xortbl padf))) by (destruct ip_e; lia).
    rewrite xorb_invol by (rewrite xortbl_length; lia).
    apply ovw_all. destruct ip_d; lia.
  - destruct H as [H | [He Hd]]; try lia. subst. apply ovw_xorb_inplace_invol.
Qed.

(* none *)
Lemma none_run : forall ip src d0, length d0 = length src ->
  stream_run none_encrypt ip src d0 = src.
Proof.
  intros. unfold stream_run, none_encrypt. rewrite src_len_of.
  destruct (Nat.eqb_spec (length src) 0) as [Hz|Hz].
  - destruct src; simpl in Hz; try lia. destruct d0; simpl in H; try lia. destruct ip; reflexivity.
  - destruct ip; simpl; auto. rewrite wr_0. apply ovw_all. lia.
Qed.

Lemma none_roundtrip : forall ip_e ip_d src d0 d1,
  length d0 = length src -> length d1 = length src ->
  stream_run none_decrypt ip_d (stream_run none_encrypt ip_e src d0) d1 = src.
Proof.
  intros. replace none_decrypt with none_encrypt by reflexivity.
  rewrite (none_run ip_e src d0) by assumption. now apply none_run.
Qed.

End Stream.

Lemma stream_premise_norm : forall (ip : bool) (src d : list Z),
  ip = true \/ length d = length src -> exists d', length d' = length src /\
  forall f, stream_run f ip src d = stream_run f ip src d'.
Proof.
  intros ip src d [H|H].
  - subst. exists src. split; [reflexivity | intro; reflexivity].
  - exists d. auto.
Qed.

Lemma c08_stream_roundtrip_proof :
  forall (ksf : list Z -> Z -> Z) (padf : Z -> Z) (ip_e ip_d : bool) (src d0 d1 : list Z),
  ip_e = true \/ length d0 = length src -> ip_d = true \/ length d1 = length src ->
  stream_run (salsa_decrypt ksf) ip_d (stream_run (salsa_encrypt ksf) ip_e src d0) d1 = src /\
  (length src <= Z.to_nat c_mtuLimit \/ (ip_e = true /\ ip_d = true) ->
   stream_run (sxor_decrypt padf) ip_d (stream_run (sxor_encrypt padf) ip_e src d0) d1 = src) /\
  stream_run none_decrypt ip_d (stream_run none_encrypt ip_e src d0) d1 = src.
Proof.
  intros ksf padf ip_e ip_d src d0 d1 H0 H1.
  destruct (stream_premise_norm ip_e src d0 H0) as [d0' [L0 Q0]].
  assert (H1' : exists d1', length d1' = length src /\
            forall f x, length x = length src -> stream_run f ip_d x d1 = stream_run f ip_d x d1').
  { destruct H1 as [H1|H1].
    - subst. exists src. split; [reflexivity | intros; reflexivity].
    - exists d1. auto. }
  destruct H1' as [d1' [L1 Q1]].
  assert (Lsxor : forall ip, length (stream_run (sxor_encrypt padf) ip src d0') = length src).
  { intro ip. rewrite sxor_run, ovw_length. destruct ip; auto. }
  repeat split; intros.
  - rewrite Q0, Q1 by (now apply salsa_run_length). now apply salsa_roundtrip.
  - rewrite Q0, Q1 by apply Lsxor. now apply sxor_roundtrip.
  - rewrite Q0, Q1 by (now rewrite none_run). now apply none_roundtrip.
Qed.

(* in place = out of place for the stream ciphers (their `&dst[0] != &src[0]` tests) *)
Lemma c08_stream_inplace_proof :
  forall (ksf : list Z -> Z -> Z) (padf : Z -> Z) (buf d0 : list Z),
  length d0 = length buf ->
  stream_run (salsa_encrypt ksf) true buf d0 = stream_run (salsa_encrypt ksf) false buf d0 /\
  stream_run (salsa_decrypt ksf) true buf d0 = stream_run (salsa_decrypt ksf) false buf d0 /\
  (length buf <= Z.to_nat c_mtuLimit ->
   stream_run (sxor_encrypt padf) true buf d0 = stream_run (sxor_encrypt padf) false buf d0 /\
   stream_run (sxor_decrypt padf) true buf d0 = stream_run (sxor_decrypt padf) false buf d0) /\
  stream_run none_encrypt true buf d0 = stream_run none_encrypt false buf d0 /\
  stream_run none_decrypt true buf d0 = stream_run none_decrypt false buf d0.
Proof.
  intros ksf padf buf d0 H.
  replace (salsa_decrypt ksf) with (salsa_encrypt ksf) by reflexivity.
  replace (sxor_decrypt padf) with (sxor_encrypt padf) by reflexivity.
  replace none_decrypt with none_encrypt by reflexivity.
  assert (S : stream_run (salsa_encrypt ksf) true buf d0 = stream_run (salsa_encrypt ksf) false buf d0).
  { destruct (le_lt_dec 8 (length buf)).
    - now rewrite !salsa_long_run.
    - now rewrite !salsa_short_run. }
  assert (N : stream_run none_encrypt true buf d0 = stream_run none_encrypt false buf d0)
    by now rewrite !none_run.
  repeat split; auto; rewrite !sxor_run;
    rewrite !ovw_all; auto; rewrite xorb_length, xortbl_length; lia.
Qed.

(* the simple xor pad ends at mtuLimit: out of place, bytes beyond it are never written *)
Lemma sxor_beyond_pad : forall (padf : Z -> Z) (src d0 : list Z),
  length d0 = length src ->
  skipn (Z.to_nat c_mtuLimit) (stream_run (sxor_encrypt padf) false src d0) = skipn (Z.to_nat c_mtuLimit) d0.
Proof.
  intros. rewrite sxor_run.
  destruct (le_lt_dec (length src) (Z.to_nat c_mtuLimit)) as [L|L].
  - rewrite !skipn_all2; auto; try lia.
    rewrite ovw_all; rewrite xorb_length, xortbl_length; lia.
  - rewrite ovw_skipn by (rewrite xorb_length, xortbl_length; lia).
    assert (Hx : length (xorb src (xortbl padf)) = Z.to_nat c_mtuLimit)
      by (rewrite xorb_length, xortbl_length; lia).
    rewrite Hx. rewrite <- Hx at 1. apply skipn_app_exact.
Qed.

(* ------------------------------------------------------------------ AEAD wrapper *)

Lemma aead_guard_no_realloc : forall (dst : slice) (ptlen overhead : nat),
  aead_seal_panics dst ptlen overhead = false ->
  s_len dst <= s_cap dst ->
  append_reallocates dst (ptlen + overhead) = false /\ s_nil dst = false.
Proof.
  intros dst p o H Hc. unfold aead_seal_panics in H. apply orb_false_iff in H. destruct H as [Hn Hl].
  split; auto. unfold append_reallocates. apply Nat.ltb_ge. apply Nat.ltb_ge in Hl. lia.
Qed.
