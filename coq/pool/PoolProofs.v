(* Proofs about Pool.v: the ownership discipline as an invariant of every operation sequence.

   Method: a tiny "ownership logic".  `evs_ok H n evs H' n'` says that the event list `evs`,
   started with the multiset of held buffers H and Get-counter n, is a legal sequence
   (Get draws exactly the fresh id n; Rd / Wr / Put only touch a held id; Put removes it)
   and ends with holders H' and counter n'.  It composes sequentially, is invariant under
   permutation of the holders (multiset equality `meq`), and has a frame rule.  Every
   function of the model is shown to satisfy it w.r.t. the ids its queues hold; the
   invariant J (trace well-formed, holders = live ids, each once) follows for all runs. *)
From Coq Require Import ZArith List Bool Lia.
From KV.Base Require Import Consts Word.
From KV.Pool Require Import Pool.
Import ListNotations.
Local Open Scope Z_scope.

(* ------------------------------------------------------------------ multisets of ids *)
Lemma cnt_app i a b : cnt i (a ++ b) = (cnt i a + cnt i b)%nat.
Proof. induction a as [|j a IH]; simpl; auto. destruct (i =? j); lia. Qed.

Lemma cnt_In i l : In i l <-> (cnt i l >= 1)%nat.
Proof.
  induction l as [|j l IH]; simpl.
  - split; [tauto | lia].
  - destruct (Z.eqb_spec i j).
    + split; [lia | auto].
    + rewrite <- IH. split; [intros [H|H]; [congruence | auto] | auto].
Qed.

Definition meq (a b : list id) : Prop := forall i, cnt i a = cnt i b.

Lemma meq_refl a : meq a a. Proof. intro; reflexivity. Qed.
Lemma meq_sym a b : meq a b -> meq b a. Proof. intros H i; symmetry; apply H. Qed.
Lemma meq_trans a b c : meq a b -> meq b c -> meq a c.
Proof. intros H1 H2 i; rewrite H1; apply H2. Qed.
Lemma meq_In a b i : meq a b -> In i a -> In i b.
Proof. intros H; rewrite !cnt_In, (H i); auto. Qed.

Ltac meq_solve :=
  unfold meq in *; intros;
  repeat match goal with H : forall i : id, cnt i _ = cnt i _ |- _ =>
    match goal with i : id |- _ => pose proof (H i); clear H end end;
  repeat (rewrite ?cnt_app in *; simpl in * );
  repeat match goal with
         | |- context [if ?a =? ?b then _ else _] => destruct (a =? b)
         | H : context [if ?a =? ?b then _ else _] |- _ => destruct (a =? b)
         end; lia.

(* ------------------------------------------------------------------ the ownership logic *)
Inductive evs_ok : list id -> id -> list ev -> list id -> id -> Prop :=
| ok_nil H H' n : meq H H' -> evs_ok H n [] H' n
| ok_get H n evs H' n' : evs_ok (n :: H) (n + 1) evs H' n' -> evs_ok H n (EGet n :: evs) H' n'
| ok_rd H n i evs H' n' : In i H -> evs_ok H n evs H' n' -> evs_ok H n (ERd i :: evs) H' n'
| ok_wr H n i evs H' n' : In i H -> evs_ok H n evs H' n' -> evs_ok H n (EWr i :: evs) H' n'
| ok_put H H0 n i evs H' n' : meq H (i :: H0) -> evs_ok H0 n evs H' n' -> evs_ok H n (EPut i :: evs) H' n'.

Lemma evs_ok_meq_l G H n e H' n' : meq G H -> evs_ok H n e H' n' -> evs_ok G n e H' n'.
Proof.
  intros M E; revert G M; induction E; intros G M.
  - apply ok_nil. eapply meq_trans; eauto.
  - apply ok_get. apply IHE. meq_solve.
  - apply ok_rd; [eapply meq_In; [apply meq_sym; eauto | auto] | auto].
  - apply ok_wr; [eapply meq_In; [apply meq_sym; eauto | auto] | auto].
  - eapply ok_put; [eapply meq_trans; eauto | auto].
Qed.

Lemma evs_ok_meq_r H n e H' n' G' : evs_ok H n e H' n' -> meq H' G' -> evs_ok H n e G' n'.
Proof.
  intros E; revert G'; induction E; intros G' M.
  - apply ok_nil. eapply meq_trans; eauto.
  - apply ok_get; auto.
  - apply ok_rd; auto.
  - apply ok_wr; auto.
  - eapply ok_put; eauto.
Qed.

Lemma evs_ok_app H n e1 H1 n1 e2 H2 n2 :
  evs_ok H n e1 H1 n1 -> evs_ok H1 n1 e2 H2 n2 -> evs_ok H n (e1 ++ e2) H2 n2.
Proof.
  intros E; revert e2 H2 n2; induction E; intros e2 H2 n2 E2; simpl.
  - eapply evs_ok_meq_l; eauto.
  - apply ok_get; auto.
  - apply ok_rd; auto.
  - apply ok_wr; auto.
  - eapply ok_put; eauto.
Qed.

Lemma evs_ok_frame H n e H' n' F : evs_ok H n e H' n' -> evs_ok (H ++ F) n e (H' ++ F) n'.
Proof.
  intros E; induction E; simpl.
  - apply ok_nil. meq_solve.
  - apply ok_get. exact IHE.
  - apply ok_rd; [apply in_or_app; auto | auto].
  - apply ok_wr; [apply in_or_app; auto | auto].
  - eapply ok_put with (H0 := H0 ++ F); [meq_solve | auto].
Qed.

(* the form used everywhere: a piece acting on H inside a larger multiset G = H + F *)
Lemma evs_ok_ctx H n e H' n' F G G' :
  evs_ok H n e H' n' -> meq G (H ++ F) -> meq G' (H' ++ F) -> evs_ok G n e G' n'.
Proof.
  intros E M1 M2. eapply evs_ok_meq_l; [exact M1|].
  eapply evs_ok_meq_r; [apply evs_ok_frame; exact E | apply meq_sym; exact M2].
Qed.

Lemma evs_ok_le H n e H' n' : evs_ok H n e H' n' -> n <= n'.
Proof. induction 1; lia. Qed.

(* reads and writes of held buffers change nothing *)
Definition is_use_in (H : list id) (e : ev) : Prop :=
  exists i, (e = ERd i \/ e = EWr i) /\ In i H.

Lemma uses_ok H n evs : Forall (is_use_in H) evs -> evs_ok H n evs H n.
Proof.
  induction 1 as [|e l [i [[-> | ->] Hi]] _ IH].
  - apply ok_nil, meq_refl.
  - apply ok_rd; auto.
  - apply ok_wr; auto.
Qed.

Lemma pool_put_0 i : pool_put 0 i = [EPut i].
Proof. unfold pool_put, slice_cap. rewrite Z.sub_0_r, Z.eqb_refl. reflexivity. Qed.

Lemma pool_put_resliced off i : off <> 0 -> pool_put off i = [].
Proof.
  intros Hne. unfold pool_put, slice_cap.
  destruct (Z.eqb_spec (c_mtuLimit - off) c_mtuLimit); [lia | reflexivity].
Qed.

Arguments pool_put : simpl never.

(* ------------------------------------------------------------------ the invariant J *)
Definition live (tr : list ev) (i : id) : Prop := In (EGet i) tr /\ ~ In (EPut i) tr.

(* well-formed trace, newest event first *)
Fixpoint WF (tr : list ev) : Prop :=
  match tr with
  | [] => True
  | e :: t =>
      WF t /\
      match e with
      | EGet i => forall e', In e' t -> ev_id e' <> i
      | EPut i | ERd i | EWr i => live t i
      end
  end.

Record J (H : list id) (tr : list ev) (n : id) : Prop := mkJ {
  J_once : forall i, (cnt i H <= 1)%nat;
  J_live : forall i, In i H <-> live tr i;
  J_bound : forall e, In e tr -> ev_id e < n;
  J_wf : WF tr }.

Lemma J_meq H H' tr n : J H tr n -> meq H H' -> J H' tr n.
Proof.
  intros [a b c d] M. split; auto.
  - intro i. rewrite <- (M i). auto.
  - intro i. rewrite <- b, !cnt_In, (M i). tauto.
Qed.

Lemma J_step H n evs H' n' :
  evs_ok H n evs H' n' -> forall tr, J H tr n -> J H' (rev evs ++ tr) n'.
Proof.
  induction 1 as [H H' n M | H n evs H' n' E IH | H n i evs H' n' Hi E IH
                 | H n i evs H' n' Hi E IH | H H0 n i evs H' n' M E IH]; intros tr Jt.
  - simpl. eapply J_meq; eauto.
  - simpl. rewrite <- app_assoc. simpl. apply IH.
    destruct Jt as [a b c d].
    assert (Hn : ~ In n H).
    { intro Hin. apply b in Hin. destruct Hin as [Hg _]. apply c in Hg. simpl in Hg. lia. }
    split.
    + intro i. simpl. destruct (Z.eqb_spec i n).
      * subst. rewrite cnt_In in Hn. lia.
      * apply a.
    + intro i. unfold live. simpl. split.
      * intros [<- | Hin].
        -- split; [auto|]. intros [Hc | Hc]; [discriminate|]. apply c in Hc. simpl in Hc. lia.
        -- apply b in Hin. destruct Hin as [Hg Hp]. split; [auto|].
           intros [Hc | Hc]; [discriminate | auto].
      * intros [[Hg | Hg] Hp].
        -- injection Hg as <-. auto.
        -- right. apply b. split; [auto | intro; apply Hp; auto].
    + intros e [<- | Hin]; simpl; [lia | apply c in Hin; lia].
    + simpl. split; [auto|]. intros e' He'. apply c in He'. lia.
  - simpl. rewrite <- app_assoc. simpl. apply IH.
    destruct Jt as [a b c d]. pose proof (proj1 (b i) Hi) as Hl.
    split; auto.
    + intro j. rewrite b. unfold live. simpl. split.
      * intros [Hg Hp]. split; [auto | intros [Hc|Hc]; [discriminate | auto]].
      * intros [[Hg|Hg] Hp]; [discriminate | split; auto].
    + intros e [<- | Hin]; [simpl; destruct Hl as [Hg _]; apply c in Hg; simpl in Hg; lia | auto].
    + simpl. auto.
  - simpl. rewrite <- app_assoc. simpl. apply IH.
    destruct Jt as [a b c d]. pose proof (proj1 (b i) Hi) as Hl.
    split; auto.
    + intro j. rewrite b. unfold live. simpl. split.
      * intros [Hg Hp]. split; [auto | intros [Hc|Hc]; [discriminate | auto]].
      * intros [[Hg|Hg] Hp]; [discriminate | split; auto].
    + intros e [<- | Hin]; [simpl; destruct Hl as [Hg _]; apply c in Hg; simpl in Hg; lia | auto].
    + simpl. auto.
  - simpl. rewrite <- app_assoc. simpl. apply IH.
    destruct Jt as [a b c d].
    assert (Hi : In i H) by (apply cnt_In; rewrite (M i); simpl; rewrite Z.eqb_refl; lia).
    pose proof (proj1 (b i) Hi) as Hl.
    assert (Hi0 : ~ In i H0).
    { rewrite cnt_In. pose proof (a i) as Ha. rewrite (M i) in Ha. simpl in Ha.
      rewrite Z.eqb_refl in Ha. lia. }
    split.
    + intro j. pose proof (a j) as Ha. rewrite (M j) in Ha. simpl in Ha.
      destruct (j =? i); lia.
    + intro j. unfold live. simpl. split.
      * intro Hj. assert (j <> i) by (intro; subst; auto).
        assert (Hj' : In j H).
        { apply cnt_In. rewrite (M j). simpl. apply cnt_In in Hj. destruct (j =? i); lia. }
        apply b in Hj'. destruct Hj' as [Hg Hp]. split; [auto|].
        intros [Hc|Hc]; [congruence | auto].
      * intros [[Hg|Hg] Hp]; [discriminate|].
        assert (j <> i) by (intro; subst; apply Hp; auto).
        assert (Hj' : In j H) by (apply b; split; [auto | intro; apply Hp; auto]).
        apply cnt_In in Hj'. rewrite (M j) in Hj'. simpl in Hj'.
        apply cnt_In. destruct (Z.eqb_spec j i); [congruence | lia].
    + intros e [<- | Hin]; [simpl; destruct Hl as [Hg _]; apply c in Hg; simpl in Hg; lia | auto].
    + simpl. auto.
Qed.

(* consequences of WF (newest-first) *)
Lemma WF_suffix b a : WF (b ++ a) -> WF a.
Proof. induction b; simpl; [auto | intros [H _]; auto]. Qed.

Lemma WF_after b a i : WF (b ++ EPut i :: a) -> forall e, In e b -> ev_id e <> i.
Proof.
  induction b as [|x b IH]; simpl; [tauto|].
  intros [Hw Hx] e [<- | Hin]; [| apply IH; auto].
  assert (Hp : In (EPut i) (b ++ EPut i :: a)) by (apply in_or_app; right; left; auto).
  destruct x as [j|j|j|j]; simpl.
  - intro; subst. apply (Hx _ Hp). reflexivity.
  - destruct Hx as [_ Hn]. intro; subst; auto.
  - destruct Hx as [_ Hn]. intro; subst; auto.
  - destruct Hx as [_ Hn]. intro; subst; auto.
Qed.

Lemma WF_at b a e : WF (b ++ e :: a) ->
  match e with
  | EGet i => forall e', In e' a -> ev_id e' <> i
  | EPut i | ERd i | EWr i => live a i
  end.
Proof. intro H. apply WF_suffix in H. simpl in H. tauto. Qed.

(* ------------------------------------------------------------------ PART 1: the core *)
Definition Packed (g : seg) : Prop := g_acked g = true -> g_data g = None.
Definition Qfresh (g : seg) : Prop := g_acked g = false.
(* structural side invariant: an acked segment carries no buffer; queued segments are unacked *)
Definition SI (s : st) : Prop := Forall Qfresh (snd_queue s) /\ Forall Packed (snd_buf s).

Lemma ids_app a b : ids (a ++ b) = ids a ++ ids b.
Proof. unfold ids. apply flat_map_app. Qed.
Lemma ids_cons g t : ids (g :: t) = seg_ids g ++ ids t.
Proof. reflexivity. Qed.
Lemma ids_nil : ids [] = [].
Proof. reflexivity. Qed.
Lemma ids_single g : ids [g] = seg_ids g.
Proof. unfold ids. simpl. apply app_nil_r. Qed.
Lemma seg_ids_same a b c d g : seg_ids (mkSeg a b c d (g_data g)) = seg_ids g.
Proof. reflexivity. Qed.
Arguments ids : simpl never.

Lemma recycle_ok g n :
  evs_ok (seg_ids g) n (snd (recycle g)) [] n /\ seg_ids (fst (recycle g)) = [] /\
  g_acked (fst (recycle g)) = g_acked g /\ g_data (fst (recycle g)) = None.
Proof.
  unfold recycle, seg_ids. destruct (g_data g) as [i|] eqn:E; simpl.
  - rewrite pool_put_0. repeat split; auto.
    eapply ok_put with (H0 := []); [apply meq_refl | apply ok_nil, meq_refl].
  - rewrite E. repeat split; auto. apply ok_nil, meq_refl.
Qed.

Lemma una_walk_ok una n : forall l r e, una_walk una l = (r, e) -> evs_ok (ids l) n e (ids r) n.
Proof.
  induction l as [|g t IH]; simpl; intros r e H.
  - injection H as <- <-. apply ok_nil, meq_refl.
  - destruct (itimediff una (g_sn g) >? 0).
    + destruct (una_walk una t) as [r' e'] eqn:E. injection H as <- <-.
      rewrite ids_cons. eapply evs_ok_app.
      * eapply evs_ok_ctx with (F := ids t); [apply (recycle_ok g n) | apply meq_refl | apply meq_refl].
      * simpl. apply IH; auto.
    + injection H as <- <-. apply ok_nil, meq_refl.
Qed.

Lemma una_walk_suffix una P : forall l r e, una_walk una l = (r, e) -> Forall P l -> Forall P r.
Proof.
  induction l as [|g t IH]; simpl; intros r e H F.
  - injection H as <- <-. auto.
  - destruct (itimediff una (g_sn g) >? 0).
    + destruct (una_walk una t) as [r' e'] eqn:E. injection H as <- <-.
      inversion F; subst. eapply IH; eauto.
    + injection H as <- <-. auto.
Qed.

Lemma ack_walk_ok sn n : forall l r e, ack_walk sn l = (r, e) ->
  evs_ok (ids l) n e (ids r) n /\ (Forall Packed l -> Forall Packed r).
Proof.
  induction l as [|g t IH]; simpl; intros r e H.
  - injection H as <- <-. split; [apply ok_nil, meq_refl | auto].
  - destruct (sn =? g_sn g).
    + destruct (recycle g) as [g' e'] eqn:R. injection H as <- <-.
      pose proof (recycle_ok g n) as [Ho [Hi [Ha Hd]]]. rewrite R in *. simpl in *.
      split.
      * rewrite !ids_cons. unfold seg_ids at 2. simpl. rewrite Hd. simpl.
        eapply evs_ok_ctx with (F := ids t); [exact Ho | apply meq_refl | apply meq_refl].
      * intro F. inversion F; subst. constructor; auto. intro; simpl. auto.
    + destruct (itimediff sn (g_sn g) <? 0).
      * injection H as <- <-. split; [apply ok_nil, meq_refl | auto].
      * destruct (ack_walk sn t) as [t' e'] eqn:E. injection H as <- <-.
        destruct (IH _ _ eq_refl) as [Ho Hf]. split.
        -- rewrite !ids_cons.
           eapply evs_ok_ctx with (F := seg_ids g); [exact Ho | meq_solve | meq_solve].
        -- intro F. inversion F; subst. constructor; auto.
Qed.

Lemma drop_acked_ids l : Forall Packed l -> ids (drop_acked l) = ids l /\ Forall Packed (drop_acked l).
Proof.
  induction 1 as [|g t Hg Ht IH]; simpl; [auto|].
  destruct (g_acked g) eqn:A.
  - rewrite ids_cons. unfold seg_ids. rewrite (Hg A). simpl. exact IH.
  - split; [reflexivity | constructor; auto].
Qed.

Lemma rd_recycle_ok g n : evs_ok (seg_ids g) n (rd_ev g ++ snd (recycle g)) [] n.
Proof.
  unfold rd_ev, recycle, seg_ids. destruct (g_data g) as [i|]; simpl.
  - rewrite pool_put_0. apply ok_rd; [left; auto|].
    eapply ok_put with (H0 := []); [apply meq_refl | apply ok_nil, meq_refl].
  - apply ok_nil, meq_refl.
Qed.

Lemma pop_msg_ok nx : forall q r n e, pop_msg q = (r, n, e) -> evs_ok (ids q) nx e (ids r) nx.
Proof.
  induction q as [|g t IH]; simpl; intros r n e H.
  - injection H as <- <- <-. apply ok_nil, meq_refl.
  - destruct (g_frg g =? 0).
    + injection H as <- <- <-. rewrite ids_cons.
      eapply evs_ok_ctx with (F := ids t); [apply (rd_recycle_ok g nx) | apply meq_refl | apply meq_refl].
    + destruct (pop_msg t) as [[r' n'] e'] eqn:E. injection H as <- <- <-.
      rewrite ids_cons. eapply evs_ok_app.
      * eapply evs_ok_ctx with (F := ids t); [apply (rd_recycle_ok g nx) | apply meq_refl | apply meq_refl].
      * simpl. eapply IH; eauto.
Qed.

Lemma move_ready_meq w : forall rb rq rn rb' rq' rn',
  move_ready rb rq rn w = (rb', rq', rn') -> meq (ids rb ++ ids rq) (ids rb' ++ ids rq').
Proof.
  induction rb as [|g t IH]; simpl; intros rq rn rb' rq' rn' H.
  - injection H as <- <- <-. apply meq_refl.
  - destruct ((g_sn g =? rn) && (qlen rq <? w)).
    + apply IH in H. rewrite ids_app, (ids_cons g []), ids_nil, app_nil_r in H. rewrite ids_cons.
      meq_solve.
    + injection H as <- <- <-. apply meq_refl.
Qed.

Lemma insert_seg_meq g : forall l, meq (ids (insert_seg g l)) (seg_ids g ++ ids l).
Proof.
  induction l as [|e t IH]; simpl.
  - rewrite (ids_cons g []). apply meq_refl.
  - destruct (itimediff (g_sn e) (g_sn g) >? 0).
    + rewrite !ids_cons. apply meq_refl.
    + rewrite !ids_cons. meq_solve.
Qed.

Lemma fragment_ok count m strm : forall fuel i n nx l nx' e H,
  fragment fuel count i n m strm nx = (l, nx', e) ->
  evs_ok H nx e (H ++ ids l) nx' /\ Forall Qfresh l.
Proof.
  induction fuel as [|f IH]; simpl; intros i n nx l nx' e H Hf.
  - injection Hf as <- <- <-. rewrite app_nil_r. split; [apply ok_nil, meq_refl | constructor].
  - destruct (i >=? count).
    + injection Hf as <- <- <-. rewrite app_nil_r. split; [apply ok_nil, meq_refl | constructor].
    + destruct (fragment f count (i + 1) (n - Z.min n m) m strm (nx + 1)) as [[l0 nx0] e0] eqn:E.
      injection Hf as <- <- <-.
      destruct (IH _ _ _ _ _ _ (nx :: H) E) as [Ho Hq]. split.
      * apply ok_get. apply ok_wr; [left; auto|].
        eapply evs_ok_meq_r; [exact Ho|]. rewrite ids_cons. unfold seg_ids. simpl. meq_solve.
      * constructor; [reflexivity | auto].
Qed.

Lemma rev_eq_cons {A} (l : list A) x t : rev l = x :: t -> l = rev t ++ [x].
Proof. intro H. rewrite <- (rev_involutive l), H. reflexivity. Qed.

Lemma stream_append_ok s n nx q1 n1 e1 :
  stream_append s n = Some (q1, n1, e1) ->
  evs_ok (ids (snd_queue s)) nx e1 (ids q1) nx /\ (Forall Qfresh (snd_queue s) -> Forall Qfresh q1).
Proof.
  unfold stream_append. destruct (rev (snd_queue s)) as [|last before] eqn:R.
  - intro H; injection H as <- <- <-. split; [apply ok_nil, meq_refl | auto].
  - apply rev_eq_cons in R. destruct (g_len last <? mss s).
    + destruct (n - Z.min n (mss s - g_len last) >? 255 * mss s); [discriminate|].
      intro H; injection H as <- <- <-. rewrite R. split.
      * rewrite !ids_app, !ids_single, seg_ids_same. apply uses_ok.
        unfold wr_ev, seg_ids. destruct (g_data last) as [i|]; [|constructor].
        constructor; [|constructor]. exists i. split; [auto|]. apply in_or_app. right. left. auto.
      * intro F. apply Forall_app in F. destruct F as [F1 F2]. apply Forall_app. split; [auto|].
        inversion F2; subst. constructor; auto.
    + intro H; injection H as <- <- <-. split; [apply ok_nil, meq_refl | auto].
Qed.

Lemma sndbuf_admission_ok : forall k sq sb nxt sq' sb' nxt',
  sndbuf_admission k sq sb nxt = (sq', sb', nxt') ->
  meq (ids sq ++ ids sb) (ids sq' ++ ids sb') /\
  (Forall Qfresh sq -> Forall Packed sb -> Forall Qfresh sq' /\ Forall Packed sb').
Proof.
  induction k as [|k IH]; simpl; intros sq sb nxt sq' sb' nxt' H.
  - injection H as <- <- <-. split; [apply meq_refl | auto].
  - destruct sq as [|g t].
    + injection H as <- <- <-. split; [apply meq_refl | auto].
    + apply IH in H. destruct H as [M F]. split.
      * rewrite ids_app, ids_single, seg_ids_same in M. rewrite ids_cons.
        meq_solve.
      * intros Fq Fp. inversion Fq; subst. apply F; auto.
        apply Forall_app. split; [auto|]. constructor; [|constructor].
        unfold Packed, Qfresh in *. simpl. congruence.
Qed.

Lemma flush_reads_ok H n : forall sb, (forall i, In i (ids sb) -> In i H) ->
  evs_ok H n (flush_reads sb) H n.
Proof.
  intros sb Hin. apply uses_ok. unfold flush_reads.
  induction sb as [|g t IH]; simpl; [constructor|].
  apply Forall_app. split.
  - destruct (g_acked g); [constructor|]. unfold rd_ev. destruct (g_data g) as [i|] eqn:E; [|constructor].
    constructor; [|constructor]. exists i. split; [auto|]. apply Hin. rewrite ids_cons.
    apply in_or_app. left. unfold seg_ids. rewrite E. left; auto.
  - apply IH. intros i Hi. apply Hin. rewrite ids_cons. apply in_or_app. auto.
Qed.

(* ---- state-level pieces: each keeps `evs_ok (holders s) (next s) e (holders s') (next s')` and SI ---- *)
Definition piece_ok (s : st) (e : list ev) (s' : st) : Prop :=
  evs_ok (holders s) (next s) e (holders s') (next s') /\ SI s'.

Lemma piece_app s e1 s1 e2 s2 : piece_ok s e1 s1 -> piece_ok s1 e2 s2 -> piece_ok s (e1 ++ e2) s2.
Proof. intros [A _] [B C]. split; [eapply evs_ok_app; eauto | auto]. Qed.

Lemma piece_nil s s' : meq (holders s) (holders s') -> next s' = next s -> SI s' -> piece_ok s [] s'.
Proof. intros M N S. split; [rewrite N; apply ok_nil; auto | auto]. Qed.

Lemma do_move_ready_ok s : SI s -> piece_ok s [] (do_move_ready s).
Proof.
  intros S. unfold do_move_ready.
  destruct (move_ready (rcv_buf s) (rcv_queue s) (rcv_nxt s) (rcv_wnd s)) as [[rb rq] rn] eqn:E.
  apply move_ready_meq in E. apply piece_nil; [| reflexivity | exact S].
  unfold holders; simpl. meq_solve.
Qed.

Lemma shrink_buf_ok s : SI s -> piece_ok s [] (shrink_buf s).
Proof.
  intros [Sq Sb]. destruct (drop_acked_ids _ Sb) as [Hi Hf].
  unfold shrink_buf. destruct (drop_acked (snd_buf s)) as [|g t] eqn:E;
    (apply piece_nil; [unfold holders; rewrite <- Hi; simpl; rewrite ?ids_nil; apply meq_refl | reflexivity | split; simpl; auto]).
Qed.

Lemma parse_una_ok s una s' e : SI s -> parse_una s una = (s', e) -> piece_ok s e s'.
Proof.
  intros [Sq Sb]. unfold parse_una. destruct (una_walk una (snd_buf s)) as [l e0] eqn:E.
  intro H; injection H as <- <-. split.
  - unfold holders; simpl.
    eapply evs_ok_ctx with (F := ids (snd_queue s) ++ ids (rcv_buf s) ++ ids (rcv_queue s));
      [eapply una_walk_ok; eauto | meq_solve | meq_solve].
  - split; simpl; [auto | eapply una_walk_suffix; eauto].
Qed.

Lemma parse_ack_ok s sn s' e : SI s -> parse_ack s sn = (s', e) -> piece_ok s e s'.
Proof.
  intros [Sq Sb]. unfold parse_ack.
  destruct ((itimediff sn (snd_una s) <? 0) || (itimediff sn (snd_nxt s) >=? 0)).
  - intro H; injection H as <- <-. apply piece_nil; [apply meq_refl | reflexivity | split; auto].
  - destruct (ack_walk sn (snd_buf s)) as [l e0] eqn:E. intro H; injection H as <- <-.
    destruct (ack_walk_ok sn (next s) _ _ _ E) as [Ho Hf]. split.
    + unfold holders; simpl.
      eapply evs_ok_ctx with (F := ids (snd_queue s) ++ ids (rcv_buf s) ++ ids (rcv_queue s));
        [exact Ho | meq_solve | meq_solve].
    + split; simpl; auto.
Qed.

Lemma parse_data_ok s x s' e : SI s -> parse_data s x = (s', e) -> piece_ok s e s'.
Proof.
  intros S. unfold parse_data.
  destruct ((itimediff (i_sn x) (u32 (rcv_nxt s + rcv_wnd s)) >=? 0) || (itimediff (i_sn x) (rcv_nxt s) <? 0)).
  - intro H; injection H as <- <-. apply piece_nil; [apply meq_refl | reflexivity | auto].
  - destruct (has_sn (i_sn x) (rcv_buf s)).
    + intro H; injection H as <- <-. apply do_move_ready_ok; auto.
    + intro H; injection H as <- <-.
      set (g := mkSeg (i_sn x) (i_frg x) (i_len x) false (Some (next s))).
      set (s1 := set_next (set_rb s (insert_seg g (rcv_buf s))) (next s + 1)).
      assert (S1 : SI s1) by (destruct S; split; simpl; auto).
      change [EGet (next s); EWr (next s)] with ([EGet (next s); EWr (next s)] ++ []).
      eapply piece_app; [| apply do_move_ready_ok; exact S1].
      split; [| exact S1].
      apply ok_get. apply ok_wr; [left; auto|]. apply ok_nil.
      unfold holders, s1; simpl. pose proof (insert_seg_meq g (rcv_buf s)) as M.
      unfold g at 2 in M. unfold seg_ids in M. simpl in M. meq_solve.
Qed.

Lemma input_seg_ok s x s' e : SI s -> input_seg s x = (s', e) -> piece_ok s e s'.
Proof.
  intros S. unfold input_seg.
  destruct (parse_una s (i_una x)) as [s1 e1] eqn:E1.
  pose proof (parse_una_ok _ _ _ _ S E1) as P1.
  pose proof (shrink_buf_ok s1 (proj2 P1)) as P2.
  assert (P12 : piece_ok s e1 (shrink_buf s1)).
  { rewrite <- (app_nil_r e1). eapply piece_app; eauto. }
  destruct (i_cmd x =? c_IKCP_CMD_ACK).
  - destruct (parse_ack (shrink_buf s1) (i_sn x)) as [s3 e3] eqn:E3.
    intro H; injection H as <- <-.
    pose proof (parse_ack_ok _ _ _ _ (proj2 P12) E3) as P3.
    pose proof (shrink_buf_ok s3 (proj2 P3)) as P4.
    eapply piece_app; [exact P12|]. rewrite <- (app_nil_r e3). eapply piece_app; eauto.
  - destruct (i_cmd x =? c_IKCP_CMD_PUSH); [| intro H; injection H as <- <-; exact P12].
    destruct (itimediff (i_sn x) (u32 (rcv_nxt (shrink_buf s1) + rcv_wnd (shrink_buf s1))) <? 0);
      [| intro H; injection H as <- <-; exact P12].
    destruct (itimediff (i_sn x) (rcv_nxt (shrink_buf s1)) >=? 0);
      [| intro H; injection H as <- <-; exact P12].
    destruct (parse_data (shrink_buf s1) x) as [s3 e3] eqn:E3.
    intro H; injection H as <- <-.
    eapply piece_app; [exact P12 | eapply parse_data_ok; eauto; exact (proj2 P12)].
Qed.

Lemma input_segs_ok : forall xs s s' e, SI s -> input_segs s xs = (s', e) -> piece_ok s e s'.
Proof.
  induction xs as [|x r IH]; simpl; intros s s' e S H.
  - injection H as <- <-. apply piece_nil; [apply meq_refl | reflexivity | auto].
  - destruct (input_seg s x) as [s1 e1] eqn:E1. destruct (input_segs s1 r) as [s2 e2] eqn:E2.
    injection H as <- <-. pose proof (input_seg_ok _ _ _ _ S E1) as P1.
    eapply piece_app; [exact P1 | eapply IH; eauto; exact (proj2 P1)].
Qed.

Lemma flush_ok s nmove s' e : SI s -> flush s nmove = (s', e) -> piece_ok s e s'.
Proof.
  intros [Sq Sb]. unfold flush.
  destruct (sndbuf_admission (Z.to_nat nmove) (snd_queue s) (snd_buf s) (snd_nxt s)) as [[sq sb] nxt] eqn:E.
  intro H; injection H as <- <-. destruct (sndbuf_admission_ok _ _ _ _ _ _ _ E) as [M F].
  destruct (F Sq Sb) as [Fq Fp]. split; [| split; simpl; auto].
  unfold holders; simpl.
  eapply evs_ok_meq_l with (H := ids sq ++ ids sb ++ ids (rcv_buf s) ++ ids (rcv_queue s)); [meq_solve|].
  apply flush_reads_ok. intros i Hi. apply in_or_app. right. apply in_or_app. left. exact Hi.
Qed.

Lemma send_ok s n s' r e : SI s -> send s n = (s', r, e) -> piece_ok s e s'.
Proof.
  intros S. unfold send. destruct (n <=? 0).
  { intro H; injection H as <- <- <-. apply piece_nil; [apply meq_refl | reflexivity | auto]. }
  assert (PRE : forall q1 n1 e1,
             (if stream s then stream_append s n else Some (snd_queue s, n, [])) = Some (q1, n1, e1) ->
             piece_ok s e1 (set_sq s q1)).
  { intros q1 n1 e1 H. destruct S as [Sq Sb]. destruct (stream s).
    - destruct (stream_append_ok s n (next s) _ _ _ H) as [Ho Hf]. split; [| split; simpl; auto].
      unfold holders; simpl.
      eapply evs_ok_ctx with (F := ids (snd_buf s) ++ ids (rcv_buf s) ++ ids (rcv_queue s));
        [exact Ho | meq_solve | meq_solve].
    - injection H as <- <- <-. apply piece_nil; [apply meq_refl | reflexivity | split; simpl; auto]. }
  destruct (if stream s then stream_append s n else Some (snd_queue s, n, [])) as [[[q1 n1] e1]|] eqn:E.
  2:{ intro H; injection H as <- <- <-. apply piece_nil; [apply meq_refl | reflexivity | auto]. }
  pose proof (PRE _ _ _ eq_refl) as P1.
  destruct (stream s && (n1 =? 0)); [intro H; injection H as <- <- <-; exact P1|].
  destruct (frag_count n1 (mss s) >? 255); [intro H; injection H as <- <- <-; exact P1|].
  match goal with |- context [fragment ?f ?c 0 n1 ?m ?b ?x] =>
    destruct (fragment f c 0 n1 m b x) as [[segs nx] e2] eqn:F end.
  intro H; injection H as <- <- <-.
  eapply piece_app; [exact P1|].
  destruct (fragment_ok _ _ _ _ _ _ _ _ _ _ (holders (set_sq s q1)) F) as [Ho Hq].
  destruct P1 as [_ [Sq1 Sb1]]. split.
  - simpl next at 1. eapply evs_ok_meq_r; [exact Ho|].
    unfold holders; simpl. rewrite ids_app. meq_solve.
  - split; simpl; [apply Forall_app; split; auto | auto].
Qed.

Lemma recv_ok s b s' r e : SI s -> recv s b = (s', r, e) -> piece_ok s e s'.
Proof.
  intros S. unfold recv. destruct (peeksize s <? 0).
  { intro H; injection H as <- <- <-. apply piece_nil; [apply meq_refl | reflexivity | auto]. }
  destruct (peeksize s >? b).
  { intro H; injection H as <- <- <-. apply piece_nil; [apply meq_refl | reflexivity | auto]. }
  destruct (pop_msg (rcv_queue s)) as [[rq n] e0] eqn:E. intro H; injection H as <- <- <-.
  assert (S1 : SI (set_rq s rq)) by (destruct S; split; simpl; auto).
  rewrite <- (app_nil_r e0). eapply piece_app; [| apply do_move_ready_ok; exact S1].
  split; [| exact S1]. unfold holders; simpl.
  eapply evs_ok_ctx with (F := ids (snd_queue s) ++ ids (snd_buf s) ++ ids (rcv_buf s));
    [eapply pop_msg_ok; eauto | meq_solve | meq_solve].
Qed.

Lemma step_ok s o s' r e : SI s -> step s o = (s', r, e) -> piece_ok s e s'.
Proof.
  intros S. destruct o as [n | b | xs nmove | nmove | i off]; simpl.
  - apply send_ok; auto.
  - apply recv_ok; auto.
  - destruct (input_segs s xs) as [s1 e1] eqn:E1. destruct (flush s1 nmove) as [s2 e2] eqn:E2.
    intro H; injection H as <- <- <-. pose proof (input_segs_ok _ _ _ _ S E1) as P1.
    eapply piece_app; [exact P1 | eapply flush_ok; eauto; exact (proj2 P1)].
  - destruct (flush s nmove) as [s1 e1] eqn:E1. intro H; injection H as <- <- <-.
    eapply flush_ok; eauto.
  - destruct (Z.eqb_spec off 0).
    + intro H; injection H as <- <- <-. apply piece_nil; [apply meq_refl | reflexivity | auto].
    + rewrite pool_put_resliced by auto. intro H; injection H as <- <- <-.
      apply piece_nil; [apply meq_refl | reflexivity | auto].
Qed.

(* the whole invariant of a core state together with its (chronological) trace *)
Definition Inv (s : st) (tr : list ev) : Prop := J (holders s) (rev tr) (next s) /\ SI s.

Lemma Inv_init c : Inv (init c) [].
Proof.
  split; [| split; constructor]. simpl. split; simpl.
  - intro; lia.
  - intro i. unfold live. simpl. tauto.
  - tauto.
  - exact I.
Qed.

Lemma Inv_step s tr o s' r e : Inv s tr -> step s o = (s', r, e) -> Inv s' (tr ++ e).
Proof.
  intros [Jt S] H. destruct (step_ok _ _ _ _ _ S H) as [Ho S']. split; [| exact S'].
  rewrite rev_app_distr. eapply J_step; eauto.
Qed.

Lemma Inv_run : forall ops s tr s' e, Inv s tr -> run s ops = (s', e) -> Inv s' (tr ++ e).
Proof.
  induction ops as [|o r IH]; simpl; intros s tr s' e I0 H.
  - injection H as <- <-. rewrite app_nil_r. exact I0.
  - destruct (step s o) as [[s1 r1] e1] eqn:E1. destruct (run s1 r) as [s2 e2] eqn:E2.
    injection H as <- <-. rewrite app_assoc. eapply IH; [eapply Inv_step; eauto | exact E2].
Qed.

Lemma Inv_reach c ops s tr : run (init c) ops = (s, tr) -> Inv s tr.
Proof. intro H. change tr with ([] ++ tr). eapply Inv_run; [apply Inv_init | exact H]. Qed.

(* ---- trace facts, chronological ---- *)
Lemma chron_split (tr a b : list ev) x : tr = a ++ x :: b -> rev tr = rev b ++ x :: rev a.
Proof. intros ->. rewrite rev_app_distr. simpl. rewrite <- app_assoc. reflexivity. Qed.

Lemma J_single_owner H tr n : J H (rev tr) n ->
  forall i, (cnt i H <= 1)%nat /\ (cnt i H = 1%nat <-> (In (EGet i) tr /\ ~ In (EPut i) tr)).
Proof.
  intros [a b c d] i. split; [apply a|].
  pose proof (b i) as Hb. unfold live in Hb. rewrite <- !in_rev in Hb. rewrite <- Hb, cnt_In.
  pose proof (a i). lia.
Qed.

Lemma J_put_once H tr n : J H (rev tr) n ->
  forall a b i, tr = a ++ EPut i :: b -> ~ In (EPut i) a /\ ~ In (EPut i) b.
Proof.
  intros [_ _ _ d] a b i E. apply chron_split in E. rewrite E in d. split.
  - pose proof (WF_at _ _ _ d) as [_ Hn]. rewrite <- in_rev in Hn. exact Hn.
  - intro Hin. apply in_rev in Hin. apply (WF_after _ _ _ d _ Hin). reflexivity.
Qed.

Lemma J_no_use_after_put H tr n : J H (rev tr) n ->
  forall a b i, tr = a ++ EPut i :: b -> forall e, In e b -> ev_id e <> i.
Proof.
  intros [_ _ _ d] a b i E e Hin. apply chron_split in E. rewrite E in d.
  apply in_rev in Hin. exact (WF_after _ _ _ d _ Hin).
Qed.

Lemma J_lifecycle H tr n : J H (rev tr) n ->
  forall a b e, tr = a ++ e :: b ->
    match e with
    | EGet i => forall e', In e' a -> ev_id e' <> i              (* a Get hands out a never-seen id *)
    | EPut i | ERd i | EWr i => In (EGet i) a /\ ~ In (EPut i) a  (* used only while owned *)
    end.
Proof.
  intros [_ _ _ d] a b e E. apply chron_split in E. rewrite E in d.
  pose proof (WF_at _ _ _ d) as W. destruct e; unfold live in W; try (rewrite <- !in_rev in W; exact W).
  intros e' He'. apply W. apply in_rev in He'. exact He'.
Qed.

(* ------------------------------------------------------------------ PART 2: the FEC decoder *)
Lemma puts_of_ok n F : forall l, evs_ok (l ++ F) n (puts_of l) F n.
Proof.
  induction l as [|i l IH]; simpl.
  - apply ok_nil, meq_refl.
  - rewrite ?pool_put_0; simpl. eapply ok_put with (H0 := l ++ F); [apply meq_refl | exact IH].
Qed.

Lemma rdput_ok n F : forall l, evs_ok (l ++ F) n (flat_map (fun i => ERd i :: pool_put 0 i) l) F n.
Proof.
  induction l as [|i l IH]; simpl.
  - apply ok_nil, meq_refl.
  - rewrite ?pool_put_0; simpl. apply ok_rd; [left; auto|].
    eapply ok_put with (H0 := l ++ F); [apply meq_refl | exact IH].
Qed.

Lemma gets_ok : forall k H nx,
  evs_ok H nx (map EGet (fresh_ids k nx)) (fresh_ids k nx ++ H) (nx + Z.of_nat k).
Proof.
  induction k as [|k IH]; intros H nx.
  - simpl. rewrite Z.add_0_r. apply ok_nil, meq_refl.
  - cbn [fresh_ids map]. apply ok_get.
    replace (nx + Z.of_nat (S k)) with (nx + 1 + Z.of_nat k) by lia.
    eapply evs_ok_meq_r; [apply IH|]. meq_solve.
Qed.

Lemma rds_uses H l : (forall i, In i l -> In i H) -> Forall (is_use_in H) (rds_of l).
Proof.
  intros Hin. unfold rds_of. apply Forall_forall. intros e He. apply in_map_iff in He.
  destruct He as [i [<- Hi]]. exists i. auto.
Qed.
Lemma wrs_uses H l : (forall i, In i l -> In i H) -> Forall (is_use_in H) (wrs_of l).
Proof.
  intros Hin. unfold wrs_of. apply Forall_forall. intros e He. apply in_map_iff in He.
  destruct He as [i [<- Hi]]. exists i. auto.
Qed.

Lemma set_split k : forall m, meq (flat_map snd m) (set_find k m ++ flat_map snd (set_remove k m)).
Proof.
  induction m as [|[k' v] t IH]; simpl.
  - apply meq_refl.
  - destruct (k =? k'); [apply meq_refl|]. simpl. meq_solve.
Qed.

Lemma discard_sets_ok n : forall ks m m' e, discard_sets ks m = (m', e) ->
  evs_ok (flat_map snd m) n e (flat_map snd m') n.
Proof.
  induction ks as [|k r IH]; simpl; intros m m' e H.
  - injection H as <- <-. apply ok_nil, meq_refl.
  - destruct (discard_sets r (set_remove k m)) as [m0 e0] eqn:E. injection H as <- <-.
    eapply evs_ok_app; [| eapply IH; eauto].
    eapply evs_ok_meq_l; [apply (set_split k m) | apply puts_of_ok].
Qed.

Lemma fec_input_ok s d s' e :
  fec_input s d = (s', e) -> evs_ok (fholders s) (f_next s) e (fholders s') (f_next s').
Proof.
  unfold fec_input. destruct (decode s d) as [[s1 rcv] e1] eqn:D.
  intro H; injection H as <- <-. revert D. unfold decode.
  destruct d as [| | sid r old].
  - intro H; injection H as <- <- <-. simpl. apply ok_nil, meq_refl.
  - intro H; injection H as <- <- <-. simpl. rewrite app_nil_r.
    unfold fholders at 2. simpl. rewrite <- (app_nil_r (fholders s)) at 1. apply puts_of_ok.
  - set (i := f_next s). set (old_grp := set_find sid (f_sets s)).
    set (rest := flat_map snd (set_remove sid (f_sets s))).
    assert (M0 : meq (fholders s) (old_grp ++ rest)) by (apply set_split).
    destruct r as [| | nmiss ok].
    + (* RKeep *)
      destruct (discard_sets old (set_put sid (old_grp ++ [i]) (f_sets s))) as [m e0] eqn:E.
      intro H; injection H as <- <- <-. simpl. rewrite app_nil_r.
      apply ok_get. apply ok_wr; [left; auto|].
      eapply evs_ok_meq_l; [| eapply discard_sets_ok; exact E].
      unfold set_put. simpl. fold rest. meq_solve.
    + (* RAllData *)
      destruct (discard_sets old (set_remove sid (f_sets s))) as [m e0] eqn:E.
      intro H; injection H as <- <- <-. simpl flat_map. rewrite app_nil_r.
      apply ok_get. apply ok_wr; [left; auto|].
      set (grp := old_grp ++ [i]).
      assert (MG : meq (i :: fholders s) (grp ++ rest)) by (unfold grp; meq_solve).
      eapply evs_ok_meq_l; [exact MG|].
      eapply evs_ok_app; [apply uses_ok, rds_uses; intros; apply in_or_app; auto|].
      eapply evs_ok_app; [apply puts_of_ok|].
      eapply discard_sets_ok; exact E.
    + (* RRecover *)
      destruct (discard_sets old (set_remove sid (f_sets s))) as [m e0] eqn:E.
      set (grp := old_grp ++ [i]). set (fresh := fresh_ids nmiss (i + 1)).
      assert (MG : meq (i :: fholders s) (grp ++ rest)) by (unfold grp; meq_solve).
      pose proof (discard_sets_ok (i + 1 + Z.of_nat nmiss) _ _ _ _ E) as DO.
      assert (PRE : evs_ok (grp ++ rest) (i + 1)
                      (rds_of grp ++ wrs_of grp ++ map EGet fresh ++ rds_of grp ++ wrs_of fresh)
                      (fresh ++ grp ++ rest) (i + 1 + Z.of_nat nmiss)).
      { eapply evs_ok_app; [apply uses_ok, rds_uses; intros; apply in_or_app; auto|].
        eapply evs_ok_app; [apply uses_ok, wrs_uses; intros; apply in_or_app; auto|].
        eapply evs_ok_app; [apply gets_ok|].
        eapply evs_ok_app; [apply uses_ok, rds_uses; intros; apply in_or_app; right; apply in_or_app; auto|].
        apply uses_ok, wrs_uses; intros; apply in_or_app; auto. }
      destruct ok; intro H; injection H as <- <- <-; cbn [f_next f_sets fholders].
      * (* reconstruct ok: the fresh buffers travel in `recovered`, the caller reads and recycles them *)
        eapply evs_ok_app with (H1 := fresh ++ flat_map snd m) (n1 := i + 1 + Z.of_nat nmiss).
        -- cbn [app]. apply ok_get. apply ok_wr; [left; auto|].
           eapply evs_ok_meq_l; [exact MG|].
           eapply evs_ok_app; [exact PRE|].
           eapply evs_ok_app.
           { eapply evs_ok_meq_l with (H := grp ++ (rest ++ fresh)); [meq_solve | apply puts_of_ok]. }
           eapply evs_ok_ctx with (F := fresh); [exact DO | apply meq_refl | meq_solve].
        -- unfold fholders. cbn [f_sets]. apply rdput_ok.
      * (* reconstruct failed: the fresh buffers are returned at once *)
        cbn [flat_map]. rewrite app_nil_r.
        cbn [app]. apply ok_get. apply ok_wr; [left; auto|].
        eapply evs_ok_meq_l; [exact MG|].
        eapply evs_ok_app; [exact PRE|].
        eapply evs_ok_app; [apply puts_of_ok|].
        eapply evs_ok_app; [apply puts_of_ok|].
        exact DO.
Qed.

Definition FInv (s : fecst) (tr : list ev) : Prop := J (fholders s) (rev tr) (f_next s).

Lemma FInv_init : FInv finit [].
Proof.
  split; simpl.
  - intro; lia.
  - intro i. unfold live. simpl. tauto.
  - tauto.
  - exact I.
Qed.

Lemma FInv_step s tr d s' e : FInv s tr -> fec_input s d = (s', e) -> FInv s' (tr ++ e).
Proof.
  intros Jt H. unfold FInv. rewrite rev_app_distr. eapply J_step; [eapply fec_input_ok; eauto | exact Jt].
Qed.

Lemma FInv_run : forall ds s tr s' e, FInv s tr -> frun s ds = (s', e) -> FInv s' (tr ++ e).
Proof.
  induction ds as [|d r IH]; simpl; intros s tr s' e I0 H.
  - injection H as <- <-. rewrite app_nil_r. exact I0.
  - destruct (fec_input s d) as [s1 e1] eqn:E1. destruct (frun s1 r) as [s2 e2] eqn:E2.
    injection H as <- <-. rewrite app_assoc. eapply IH; [eapply FInv_step; eauto | exact E2].
Qed.

Lemma FInv_reach ds s tr : frun finit ds = (s, tr) -> FInv s tr.
Proof. intro H. change tr with ([] ++ tr). eapply FInv_run; [apply FInv_init | exact H]. Qed.

(* ------------------------------------------------------------------ the statements of C15.v *)
Lemma thm_single_owner :
  forall c ops s tr, run (init c) ops = (s, tr) ->
  forall i, (cnt i (holders s) <= 1)%nat /\
            (cnt i (holders s) = 1%nat <-> (In (EGet i) tr /\ ~ In (EPut i) tr)).
Proof. intros c ops s tr H. apply Inv_reach in H. destruct H as [J _]. exact (J_single_owner _ _ _ J). Qed.

Lemma thm_put_once :
  forall c ops s tr, run (init c) ops = (s, tr) ->
  forall a b i, tr = a ++ EPut i :: b -> ~ In (EPut i) a /\ ~ In (EPut i) b.
Proof. intros c ops s tr H. apply Inv_reach in H. destruct H as [J _]. exact (J_put_once _ _ _ J). Qed.

Lemma thm_no_use_after_put :
  forall c ops s tr, run (init c) ops = (s, tr) ->
  forall a b i, tr = a ++ EPut i :: b -> forall e, In e b -> ev_id e <> i.
Proof. intros c ops s tr H. apply Inv_reach in H. destruct H as [J _]. exact (J_no_use_after_put _ _ _ J). Qed.

Lemma thm_use_only_while_owned :
  forall c ops s tr, run (init c) ops = (s, tr) ->
  forall a b e, tr = a ++ e :: b ->
    match e with
    | EGet i => forall e', In e' a -> ev_id e' <> i
    | EPut i | ERd i | EWr i => In (EGet i) a /\ ~ In (EPut i) a
    end.
Proof. intros c ops s tr H. apply Inv_reach in H. destruct H as [J _]. exact (J_lifecycle _ _ _ J). Qed.

Lemma thm_pool_accepts_full_only :
  (forall off i, slice_cap off = c_mtuLimit -> pool_put off i = [EPut i]) /\
  (forall off i, slice_cap off <> c_mtuLimit -> pool_put off i = []) /\
  (forall off i, off <> 0 -> pool_put off i = []) /\
  (forall s i off, off <> 0 -> step s (OPutView i off) = (s, 0, [])).
Proof.
  split; [| split; [| split]].
  - intros off i H. unfold pool_put. rewrite H, Z.eqb_refl. reflexivity.
  - intros off i H. unfold pool_put. destruct (Z.eqb_spec (slice_cap off) c_mtuLimit); [contradiction | reflexivity].
  - exact pool_put_resliced.
  - intros s i off H. simpl. destruct (Z.eqb_spec off 0); [contradiction|].
    rewrite pool_put_resliced by assumption. reflexivity.
Qed.

Lemma thm_fec_single_owner :
  forall ds s tr, frun finit ds = (s, tr) ->
  forall i, (cnt i (fholders s) <= 1)%nat /\
            (cnt i (fholders s) = 1%nat <-> (In (EGet i) tr /\ ~ In (EPut i) tr)).
Proof. intros ds s tr H. apply FInv_reach in H. exact (J_single_owner _ _ _ H). Qed.

Lemma thm_fec_put_once :
  forall ds s tr, frun finit ds = (s, tr) ->
  forall a b i, tr = a ++ EPut i :: b -> ~ In (EPut i) a /\ ~ In (EPut i) b.
Proof. intros ds s tr H. apply FInv_reach in H. exact (J_put_once _ _ _ H). Qed.

Lemma thm_fec_no_use_after_put :
  forall ds s tr, frun finit ds = (s, tr) ->
  forall a b i, tr = a ++ EPut i :: b -> forall e, In e b -> ev_id e <> i.
Proof. intros ds s tr H. apply FInv_reach in H. exact (J_no_use_after_put _ _ _ H). Qed.

Definition ex_ops : list op :=
  [OSend 250; OFlush 3;
   OInput [mkIseg c_IKCP_CMD_ACK 0 1 0 0] 0;
   OInput [mkIseg c_IKCP_CMD_PUSH 0 0 3 40] 0;
   OInput [mkIseg c_IKCP_CMD_PUSH 0 0 3 40; mkIseg c_IKCP_CMD_PUSH 0 9 3 40] 0;
   OPutView 3 6;
   ORecv 1000].

Lemma ex_trace :
  snd (run (init (mkCfg 100 false 4 0 0)) ex_ops) =
  [EGet 0; EWr 0; EGet 1; EWr 1; EGet 2; EWr 2;
   ERd 0; ERd 1; ERd 2;
   EPut 1; ERd 0; ERd 2;
   EPut 0; EPut 2; EGet 3; EWr 3;
   ERd 3; EPut 3]
  /\ holders (fst (run (init (mkCfg 100 false 4 0 0)) ex_ops)) = [].
Proof. vm_compute. split; reflexivity. Qed.

Lemma ex_stream :
  snd (run (init (mkCfg 100 true 4 0 0)) [OSend 30; OSend 50; OSend 90]) =
  [EGet 0; EWr 0; EWr 0; EWr 0; EGet 1; EWr 1].
Proof. vm_compute. reflexivity. Qed.

Lemma ex_fec :
  snd (frun finit [FAccept 0 RKeep []; FAccept 0 RKeep []; FAccept 0 (RRecover 2 true) []]) =
  [EGet 0; EWr 0; EGet 1; EWr 1; EGet 2; EWr 2;
   ERd 0; ERd 1; ERd 2; EWr 0; EWr 1; EWr 2; EGet 3; EGet 4; ERd 0; ERd 1; ERd 2; EWr 3; EWr 4;
   EPut 0; EPut 1; EPut 2; ERd 3; EPut 3; ERd 4; EPut 4]
  /\ snd (frun finit [FAccept 0 RKeep []; FAccept 0 (RRecover 1 false) []; FAccept 7 RKeep [7]]) =
  [EGet 0; EWr 0; EGet 1; EWr 1; ERd 0; ERd 1; EWr 0; EWr 1; EGet 2; ERd 0; ERd 1; EWr 2;
   EPut 2; EPut 0; EPut 1; EGet 3; EWr 3; EPut 3].
Proof. vm_compute. split; reflexivity. Qed.
