(* Ownership-instrumented model of the pooled-buffer life cycle (property C15, buffer part).

   PART 1 - the ARQ core (kcp.go).  Only what touches pooled buffers is kept: the four queues
   (snd_queue, snd_buf, rcv_buf, rcv_queue), the three sequence numbers that decide which
   segment an ACK / UNA / PUSH hits, and per segment: sn, frg, len(data), acked, and the
   identity of the pooled buffer behind seg.data (`option id`; None = `seg.data == nil`).
   Every defaultBufferPool.Get() draws a fresh id from a counter; every Get, every Put and
   every read / write of a buffer's bytes is an event, emitted in program order.
   Mirrored code sites (function names of kcp.go):
     newSegment (Send)         -> EGet ; copy(seg.data, buffer)        -> EWr
     Send, stream append       -> seg.data = seg.data[:oldlen+extend]; copy -> EWr (same id)
     parse_data                -> Get + copy only when the sn is new and inside the window
     Recv                      -> copy(buffer, seg.data) -> ERd ; recycleSegment -> EPut
     parse_ack                 -> recycleSegment (EPut) but the segment STAYS in snd_buf, data=nil
     parse_una                 -> recycleSegment only if data != nil, then Discard(count)
     shrink_buf                -> pops acked head segments (no Put: their data is nil already)
     flush                     -> snd_queue -> snd_buf (n segments; n is an input: the window
                                  arithmetic is not duplicated here), then reads seg.data of
                                  segments it (re)transmits; acked segments are skipped.  The
                                  model reads EVERY unacked segment (a superset of the reads).
   Decisions that depend on sequence numbers (which segment an ACK hits, how far UNA reaches,
   new / duplicate / out-of-window PUSH, what moves from rcv_buf to rcv_queue, how many
   fragments a Send makes, how many segments a Recv pops) are computed by the model itself.

   PART 2 - the FEC decoder (fec.go decode / discardShards and its caller sess.go kcpInput), at
   the same granularity; here the branch decisions (accepted / ignored, group complete,
   recovery needed, reconstruct ok, which groups are too old) are inputs of the step.

   No proofs in this file. *)
From Coq Require Import ZArith List Bool.
From KV.Base Require Import Consts Word.
Import ListNotations.
Local Open Scope Z_scope.

(* ------------------------------------------------------------------ the pool *)
Definition id := Z.

Inductive ev :=
| EGet (i : id)    (* defaultBufferPool.Get() handed out acquisition i            *)
| EPut (i : id)    (* defaultBufferPool.Put accepted the buffer of acquisition i  *)
| ERd (i : id)     (* bytes of the buffer were read  (copy out, encode, RS input) *)
| EWr (i : id).    (* bytes of the buffer were written (copy in, pad, RS output)  *)

Definition ev_id (e : ev) : id :=
  match e with EGet i | EPut i | ERd i | EWr i => i end.

(* A pooled buffer has capacity mtuLimit; a view starting `off` bytes into it has
   capacity mtuLimit - off (re-slicing [:n] keeps the capacity, [k:] shrinks it). *)
Definition slice_cap (off : Z) : Z := c_mtuLimit - off.

(* bufferPool.Put: `if cap(buf) != mtuLimit { return errBufferSizeMismatch }` *)
Definition pool_put (off : Z) (i : id) : list ev :=
  if slice_cap off =? c_mtuLimit then [EPut i] else [].

(* multiplicity of an id in a list of holders *)
Fixpoint cnt (i : id) (l : list id) : nat :=
  match l with
  | [] => O
  | j :: t => if i =? j then S (cnt i t) else cnt i t
  end.

(* ------------------------------------------------------------------ PART 1: ARQ core *)
Record seg := mkSeg {
  g_sn : Z; g_frg : Z; g_len : Z; g_acked : bool;
  g_data : option id   (* the pooled buffer behind seg.data (always offset 0: Get()[:size]) *)
}.

Record st := mkSt {
  mss : Z; stream : bool; rcv_wnd : Z;
  snd_una : Z; snd_nxt : Z; rcv_nxt : Z;
  snd_queue : list seg; snd_buf : list seg; rcv_buf : list seg; rcv_queue : list seg;
  next : id   (* the Get counter *)
}.

Definition set_sq (s : st) q := mkSt (mss s) (stream s) (rcv_wnd s) (snd_una s) (snd_nxt s) (rcv_nxt s)
  q (snd_buf s) (rcv_buf s) (rcv_queue s) (next s).
Definition set_sb (s : st) q := mkSt (mss s) (stream s) (rcv_wnd s) (snd_una s) (snd_nxt s) (rcv_nxt s)
  (snd_queue s) q (rcv_buf s) (rcv_queue s) (next s).
Definition set_rb (s : st) q := mkSt (mss s) (stream s) (rcv_wnd s) (snd_una s) (snd_nxt s) (rcv_nxt s)
  (snd_queue s) (snd_buf s) q (rcv_queue s) (next s).
Definition set_rq (s : st) q := mkSt (mss s) (stream s) (rcv_wnd s) (snd_una s) (snd_nxt s) (rcv_nxt s)
  (snd_queue s) (snd_buf s) (rcv_buf s) q (next s).
Definition set_next (s : st) n := mkSt (mss s) (stream s) (rcv_wnd s) (snd_una s) (snd_nxt s) (rcv_nxt s)
  (snd_queue s) (snd_buf s) (rcv_buf s) (rcv_queue s) n.
Definition set_una (s : st) v := mkSt (mss s) (stream s) (rcv_wnd s) v (snd_nxt s) (rcv_nxt s)
  (snd_queue s) (snd_buf s) (rcv_buf s) (rcv_queue s) (next s).

Record cfg := mkCfg { c_mss : Z; c_stream : bool; c_rcvwnd : Z;
  c_snd0 : Z;   (* initial snd_una = snd_nxt (0 in NewKCP; any value in the theorems and the harness) *)
  c_rcv0 : Z    (* initial rcv_nxt *) }.

(* NewKCP (+ SetMtu / WndSize / stream before any traffic): empty queues, nothing acquired *)
Definition init (c : cfg) : st :=
  mkSt (c_mss c) (c_stream c) (c_rcvwnd c) (c_snd0 c) (c_snd0 c) (c_rcv0 c) [] [] [] [] 0.

Definition seg_ids (g : seg) : list id :=
  match g_data g with Some i => [i] | None => [] end.
Definition ids (q : list seg) : list id := flat_map seg_ids q.

(* every holder slot of the core, in a fixed order *)
Definition holders (s : st) : list id :=
  ids (snd_queue s) ++ ids (snd_buf s) ++ ids (rcv_buf s) ++ ids (rcv_queue s).

Definition qlen (q : list seg) : Z := Z.of_nat (length q).

(* recycleSegment: `if seg.data != nil { Put(seg.data); seg.data = nil }` *)
Definition recycle (g : seg) : seg * list ev :=
  match g_data g with
  | Some i => (mkSeg (g_sn g) (g_frg g) (g_len g) (g_acked g) None, pool_put 0 i)
  | None => (g, [])
  end.

Definition rd_ev (g : seg) : list ev := match g_data g with Some i => [ERd i] | None => [] end.
Definition wr_ev (g : seg) : list ev := match g_data g with Some i => [EWr i] | None => [] end.

(* ---- PeekSize ---- *)
Fixpoint msg_size (q : list seg) : Z :=
  match q with
  | [] => 0
  | g :: t => if g_frg g =? 0 then g_len g else g_len g + msg_size t
  end.

Definition peeksize (s : st) : Z :=
  match rcv_queue s with
  | [] => -1
  | g :: _ =>
      if g_frg g =? 0 then g_len g
      else if qlen (rcv_queue s) <? u8 (g_frg g + 1) then -1
      else msg_size (rcv_queue s)
  end.

(* ---- move available data from rcv_buf -> rcv_queue (Recv and parse_data) ---- *)
Fixpoint move_ready (rb rq : list seg) (rnxt rwnd : Z) : list seg * list seg * Z :=
  match rb with
  | [] => (rb, rq, rnxt)
  | g :: t =>
      if (g_sn g =? rnxt) && (qlen rq <? rwnd)
      then move_ready t (rq ++ [g]) (u32 (rnxt + 1)) rwnd
      else (rb, rq, rnxt)
  end.

Definition do_move_ready (s : st) : st :=
  let '(rb, rq, rn) := move_ready (rcv_buf s) (rcv_queue s) (rcv_nxt s) (rcv_wnd s) in
  mkSt (mss s) (stream s) (rcv_wnd s) (snd_una s) (snd_nxt s) rn
       (snd_queue s) (snd_buf s) rb rq (next s).

(* ---- Recv: pop up to and including the first frg = 0; copy out, then recycle ---- *)
Fixpoint pop_msg (q : list seg) : list seg * Z * list ev :=
  match q with
  | [] => ([], 0, [])
  | g :: t =>
      let e := rd_ev g ++ snd (recycle g) in    (* copy(buffer, seg.data); recycleSegment(&seg) *)
      if g_frg g =? 0 then (t, g_len g, e)
      else let '(r, n, e2) := pop_msg t in (r, g_len g + n, e ++ e2)
  end.

Definition recv (s : st) (buflen : Z) : st * Z * list ev :=
  let ps := peeksize s in
  if ps <? 0 then (s, -1, [])
  else if ps >? buflen then (s, -2, [])
  else
    let '(rq, n, e) := pop_msg (rcv_queue s) in
    (do_move_ready (set_rq s rq), n, e).

(* ---- Send ---- *)
Definition frag_count (n m : Z) : Z := if n <=? m then 1 else (n + m - 1) / m.

(* for i := 0; i < count; i++ { seg := newSegment(size); copy(seg.data, buffer[:size]); Push } *)
Fixpoint fragment (fuel : nat) (count i n m : Z) (strm : bool) (nx : id) : list seg * id * list ev :=
  match fuel with
  | O => ([], nx, [])
  | S f =>
      if i >=? count then ([], nx, [])
      else
        let size := Z.min n m in
        let g := mkSeg 0 (if strm then 0 else u8 (count - i - 1)) size false (Some nx) in
        let '(l, nx', e) := fragment f count (i + 1) (n - size) m strm (nx + 1) in
        (g :: l, nx', EGet nx :: EWr nx :: e)
  end.

(* stream mode: the last queued segment absorbs up to mss - len bytes, in place
   (seg.data = seg.data[:oldlen+extend]: the same pooled buffer, written again).
   None = `return -2` before touching the queue. *)
Definition stream_append (s : st) (n : Z) : option (list seg * Z * list ev) :=
  match rev (snd_queue s) with
  | [] => Some (snd_queue s, n, [])
  | last :: before =>
      if g_len last <? mss s then
        let capacity := mss s - g_len last in
        let extend := Z.min n capacity in
        if n - extend >? 255 * mss s then None
        else Some (rev before ++ [mkSeg (g_sn last) (g_frg last) (g_len last + extend) (g_acked last) (g_data last)],
                   n - extend, wr_ev last)
      else Some (snd_queue s, n, [])
  end.

Definition send (s : st) (n : Z) : st * Z * list ev :=
  if n <=? 0 then (s, -1, [])
  else
    match (if stream s then stream_append s n else Some (snd_queue s, n, [])) with
    | None => (s, -2, [])
    | Some (q1, n1, e1) =>
        let s1 := set_sq s q1 in
        if stream s && (n1 =? 0) then (s1, 0, e1)
        else
          let count := frag_count n1 (mss s) in
          if count >? 255 then (s1, -2, e1)
          else
            let count := if count =? 0 then 1 else count in
            let '(segs, nx, e2) := fragment (Z.to_nat count) count 0 n1 (mss s) (stream s) (next s) in
            (set_next (set_sq s1 (q1 ++ segs)) nx, 0, e1 ++ e2)
    end.

(* ---- shrink_buf: acked head segments leave snd_buf (no Put here) ---- *)
Fixpoint drop_acked (l : list seg) : list seg :=
  match l with
  | g :: t => if g_acked g then drop_acked t else l
  | [] => []
  end.

Definition shrink_buf (s : st) : st :=
  let sb := drop_acked (snd_buf s) in
  let s1 := set_sb s sb in
  match sb with
  | g :: _ => set_una s1 (g_sn g)
  | [] => set_una s1 (snd_nxt s)
  end.

(* ---- parse_ack: recycle the data, leave the segment (acked = 1, data = nil) ---- *)
Fixpoint ack_walk (sn : Z) (l : list seg) : list seg * list ev :=
  match l with
  | [] => ([], [])
  | g :: t =>
      if sn =? g_sn g then
        let '(g', e) := recycle g in
        (mkSeg (g_sn g') (g_frg g') (g_len g') true (g_data g') :: t, e)
      else if itimediff sn (g_sn g) <? 0 then (l, [])
      else let '(t', e) := ack_walk sn t in (g :: t', e)
  end.

Definition parse_ack (s : st) (sn : Z) : st * list ev :=
  if (itimediff sn (snd_una s) <? 0) || (itimediff sn (snd_nxt s) >=? 0) then (s, [])
  else let '(l, e) := ack_walk sn (snd_buf s) in (set_sb s l, e).

(* ---- parse_una: recycle (only non-nil data) every segment below una, then Discard ---- *)
Fixpoint una_walk (una : Z) (l : list seg) : list seg * list ev :=
  match l with
  | [] => ([], [])
  | g :: t =>
      if itimediff una (g_sn g) >? 0
      then let '(r, e) := una_walk una t in (r, snd (recycle g) ++ e)
      else (l, [])
  end.

Definition parse_una (s : st) (una : Z) : st * list ev :=
  let '(l, e) := una_walk una (snd_buf s) in (set_sb s l, e).

(* ---- parse_data ---- *)
Fixpoint insert_seg (g : seg) (l : list seg) : list seg :=
  match l with
  | [] => [g]
  | e :: t => if itimediff (g_sn e) (g_sn g) >? 0 then g :: l else e :: insert_seg g t
  end.

Definition has_sn (sn : Z) (l : list seg) : bool := existsb (fun e => g_sn e =? sn) l.

(* one segment of an input datagram: the header fields that matter here *)
Record iseg := mkIseg { i_cmd : Z; i_frg : Z; i_sn : Z; i_una : Z; i_len : Z }.

Definition parse_data (s : st) (x : iseg) : st * list ev :=
  let sn := i_sn x in
  if (itimediff sn (u32 (rcv_nxt s + rcv_wnd s)) >=? 0) || (itimediff sn (rcv_nxt s) <? 0)
  then (s, [])
  else if has_sn sn (rcv_buf s) then (do_move_ready s, [])     (* duplicate: no acquisition *)
  else
    let i := next s in     (* dataCopy := Get()[:len]; copy(dataCopy, newseg.data) *)
    let g := mkSeg sn (i_frg x) (i_len x) false (Some i) in
    (do_move_ready (set_next (set_rb s (insert_seg g (rcv_buf s))) (i + 1)), [EGet i; EWr i]).

(* ---- the per-segment body of Input ---- *)
Definition input_seg (s : st) (x : iseg) : st * list ev :=
  let '(s1, e1) := parse_una s (i_una x) in
  let s2 := shrink_buf s1 in
  if i_cmd x =? c_IKCP_CMD_ACK then
    let '(s3, e3) := parse_ack s2 (i_sn x) in (shrink_buf s3, e1 ++ e3)
  else if i_cmd x =? c_IKCP_CMD_PUSH then
    if itimediff (i_sn x) (u32 (rcv_nxt s2 + rcv_wnd s2)) <? 0 then
      if itimediff (i_sn x) (rcv_nxt s2) >=? 0 then
        let '(s3, e3) := parse_data s2 x in (s3, e1 ++ e3)
      else (s2, e1)
    else (s2, e1)
  else (s2, e1).

Fixpoint input_segs (s : st) (xs : list iseg) : st * list ev :=
  match xs with
  | [] => (s, [])
  | x :: r => let '(s1, e1) := input_seg s x in
              let '(s2, e2) := input_segs s1 r in (s2, e1 ++ e2)
  end.

(* ---- flush: phase 4 (admission of n segments) and phase 5 (reads) ---- *)
Fixpoint sndbuf_admission (n : nat) (sq sb : list seg) (nxt : Z) : list seg * list seg * Z :=
  match n with
  | O => (sq, sb, nxt)
  | S k =>
      match sq with
      | [] => (sq, sb, nxt)
      | g :: t => sndbuf_admission k t (sb ++ [mkSeg nxt (g_frg g) (g_len g) (g_acked g) (g_data g)]) (u32 (nxt + 1))
      end
  end.

(* copy(ptr, segment.data) for transmitted segments; `if segment.acked == 1 { continue }` *)
Definition flush_reads (sb : list seg) : list ev :=
  flat_map (fun g => if g_acked g then [] else rd_ev g) sb.

Definition flush (s : st) (nmove : Z) : st * list ev :=
  let '(sq, sb, nxt) := sndbuf_admission (Z.to_nat nmove) (snd_queue s) (snd_buf s) (snd_nxt s) in
  (mkSt (mss s) (stream s) (rcv_wnd s) (snd_una s) nxt (rcv_nxt s) sq sb (rcv_buf s) (rcv_queue s) (next s),
   flush_reads sb).

(* ---- operations ---- *)
Inductive op :=
| OSend (n : Z)                          (* Send of n bytes *)
| ORecv (buflen : Z)                     (* Recv into a buffer of buflen bytes *)
| OInput (xs : list iseg) (nmove : Z)    (* Input of a datagram whose processed segments are xs;
                                            its tail flush admitted nmove segments *)
| OFlush (nmove : Z)                     (* flush / Update; nmove segments admitted *)
| OPutView (i : id) (off : Z).           (* environment: Put of a re-sliced view (offset off <> 0)
                                            of acquisition i, e.g. pkt.data() or r[2:sz] *)

Definition step (s : st) (o : op) : st * Z * list ev :=
  match o with
  | OSend n => send s n
  | ORecv b => recv s b
  | OInput xs nmove =>
      let '(s1, e1) := input_segs s xs in
      let '(s2, e2) := flush s1 nmove in (s2, 0, e1 ++ e2)
  | OFlush nmove => let '(s1, e) := flush s nmove in (s1, 0, e)
  | OPutView i off => if off =? 0 then (s, 0, []) else (s, 0, pool_put off i)
  end.

(* run a whole operation sequence; the trace is chronological *)
Fixpoint run (s : st) (ops : list op) : st * list ev :=
  match ops with
  | [] => (s, [])
  | o :: r =>
      let '(s1, _, e1) := step s o in
      let '(s2, e2) := run s1 r in (s2, e1 ++ e2)
  end.

(* what the differential driver compares after every step *)
Definition n_gets (e : list ev) : Z :=
  Z.of_nat (length (filter (fun x => match x with EGet _ => true | _ => false end) e)).
Definition n_puts (e : list ev) : Z :=
  Z.of_nat (length (filter (fun x => match x with EPut _ => true | _ => false end) e)).
Definition n_nil (q : list seg) : Z :=
  Z.of_nat (length (filter (fun g => match g_data g with None => true | _ => false end) q)).

(* ------------------------------------------------------------------ PART 2: FEC decoder *)
(* shardSet: group id -> the packets (pool buffers) parked in its heap *)
Record fecst := mkFecst { f_sets : list (Z * list id); f_next : id }.

Definition finit : fecst := mkFecst [] 0.

Definition fholders (s : fecst) : list id := flat_map snd (f_sets s).

Fixpoint set_find (k : Z) (m : list (Z * list id)) : list id :=
  match m with
  | [] => []
  | (k', v) :: t => if k =? k' then v else set_find k t
  end.
Fixpoint set_remove (k : Z) (m : list (Z * list id)) : list (Z * list id) :=
  match m with
  | [] => []
  | (k', v) :: t => if k =? k' then t else (k', v) :: set_remove k t
  end.
Definition set_put (k : Z) (v : list id) (m : list (Z * list id)) : list (Z * list id) :=
  (k, v) :: set_remove k m.

Definition puts_of (l : list id) : list ev := flat_map (fun i => pool_put 0 i) l.
Definition rds_of (l : list id) : list ev := map ERd l.
Definition wrs_of (l : list id) : list ev := map EWr l.

(* `for _, pkt := range shard.elements { Put(pkt) }; delete(shardSet, id)` for each listed group *)
Fixpoint discard_sets (ks : list Z) (m : list (Z * list id)) : list (Z * list id) * list ev :=
  match ks with
  | [] => (m, [])
  | k :: r =>
      let e := puts_of (set_find k m) in
      let '(m', e') := discard_sets r (set_remove k m) in (m', e ++ e')
  end.

Fixpoint fresh_ids (n : nat) (nx : id) : list id :=
  match n with O => [] | S k => nx :: fresh_ids k (nx + 1) end.

(* how the accepted packet's group is finished *)
Inductive frec :=
| RKeep                          (* fewer than dataShards packets in the group: nothing *)
| RAllData                       (* case 1: all data shards present: packets recycled *)
| RRecover (nmiss : nat) (ok : bool).   (* case 2: nmiss data shards absent; ReconstructData ok? *)

(* which way decode() goes for this packet *)
Inductive fdec :=
| FDrop                          (* seqid >= paws, tuning in progress, or duplicate: untouched *)
| FRetune                        (* autotune applies new parameters - whether or not the group size changes:
                                    every parked packet is Put AND `dec.shardSet = make(map...)` drops every
                                    reference to them (f_sets := []), so nothing recycled stays held *)
| FAccept (sid : Z) (r : frec) (old : list Z).   (* parked in group sid; `old` = groups too old *)

(* decode(): returns the new state, the `recovered` buffers handed to the caller, the events *)
Definition decode (s : fecst) (d : fdec) : fecst * list id * list ev :=
  match d with
  | FDrop => (s, [], [])
  | FRetune => (mkFecst [] (f_next s), [], puts_of (fholders s))
  | FAccept sid r old =>
      let i := f_next s in                       (* pkt := Get()[:len(in)]; copy(pkt, in) *)
      let grp := set_find sid (f_sets s) ++ [i] in
      let e0 := [EGet i; EWr i] in
      match r with
      | RKeep =>
          let '(m, e) := discard_sets old (set_put sid grp (f_sets s)) in
          (mkFecst m (i + 1), [], e0 ++ e)
      | RAllData =>
          (* pop all (seqid/flag/len are read), nothing to rebuild, Put every packet *)
          let '(m, e) := discard_sets old (set_remove sid (f_sets s)) in
          (mkFecst m (i + 1), [], e0 ++ rds_of grp ++ puts_of grp ++ e)
      | RRecover nmiss ok =>
          let fresh := fresh_ids nmiss (i + 1) in
          let nx := i + 1 + Z.of_nat nmiss in
          let e1 := rds_of grp                      (* pop: header reads *)
                    ++ wrs_of grp                   (* clear(shards[k][dlen:maxlen]): pads INSIDE the pooled packet *)
                    ++ map EGet fresh               (* shards[k] = Get()[:0] for each absent data shard *)
                    ++ rds_of grp ++ wrs_of fresh   (* ReconstructData *) in
          let '(m, e) := discard_sets old (set_remove sid (f_sets s)) in
          if ok then
            (* the fresh buffers leave in `recovered`; the caller recycles them *)
            (mkFecst m nx, fresh, e0 ++ e1 ++ puts_of grp ++ e)
          else
            (* `for _, buf := range newBuffers { Put(buf) }` *)
            (mkFecst m nx, [], e0 ++ e1 ++ puts_of fresh ++ puts_of grp ++ e)
      end
  end.

(* sess.go kcpInput, FEC branch: decode, then for each recovered r: Input(r[2:sz]) (a read),
   Put(r).  The `recovered` list is held by the caller only inside this step. *)
Definition fec_input (s : fecst) (d : fdec) : fecst * list ev :=
  let '(s1, rec, e) := decode s d in
  (s1, e ++ flat_map (fun i => ERd i :: pool_put 0 i) rec).

Fixpoint frun (s : fecst) (ds : list fdec) : fecst * list ev :=
  match ds with
  | [] => (s, [])
  | d :: r =>
      let '(s1, e1) := fec_input s d in
      let '(s2, e2) := frun s1 r in (s2, e1 ++ e2)
  end.
