(* Extraction of the executable ownership model.  ExtrOcamlBasic only: nat, positive, Z stay the
   extracted inductive types; no Extract Constant. *)
From Coq Require Import Extraction ExtrOcamlBasic.
From KV.Pool Require Import Pool.
Extraction "pool_model.ml" init step holders n_gets n_puts n_nil qlen finit fec_input fholders.
