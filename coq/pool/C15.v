(* C15 - Close releases goroutines and callbacks; pooled buffers have one owner.
   Statements only; every proof is `exact <lemma of PoolProofs / ExitProofs>`.

   Buffer part (Pool.v): `Pool.run (init c) ops = (s, tr)` is the core state and the
   chronological event trace after ANY operation sequence `ops` (Send / Recv / Input with
   arbitrary ACK, UNA, PUSH segments - genuine or forged - / flush with any admission count /
   Put of re-sliced views) for ANY configuration (mss, stream or message mode, receive window).
   `frun finit ds` is the same for the FEC decoder and its caller under any sequence of decode
   outcomes.
   Exit part (Exit.v): `reach cap s0 s` is any state reachable from a freshly dialled client
   session or a fresh listener under ANY interleaving of application calls, network events and
   goroutine / callback steps, for any capacity of the post-processing channel. *)
From Coq Require Import ZArith List Bool.
From KV.Base Require Import Consts.
From KV.Pool Require Import Pool PoolProofs Exit ExitProofs.
Import ListNotations.

Local Open Scope Z_scope.
(* ---------------------------------------------------------------- buffers: ARQ core *)

(* The inductive invariant, in the form "Inv init; Inv s -> Inv (step s op)". *)
Theorem c15_inv_init : forall c, Inv (init c) [].
Proof. exact Inv_init. Qed.
Print Assumptions c15_inv_init.

Theorem c15_inv_step : forall s tr o s' r e, Inv s tr -> Pool.step s o = (s', r, e) -> Inv s' (tr ++ e).
Proof. exact Inv_step. Qed.
Print Assumptions c15_inv_step.

(* In every reachable state every live acquisition (Got, not yet Put) sits in exactly one holder
   slot (a segment of snd_queue / snd_buf / rcv_buf / rcv_queue), nothing is held twice, and
   nothing that is held has been recycled. *)
Theorem c15_single_owner :
  forall c ops s tr, Pool.run (init c) ops = (s, tr) ->
  forall i, (cnt i (holders s) <= 1)%nat /\
            (cnt i (holders s) = 1%nat <-> (In (EGet i) tr /\ ~ In (EPut i) tr)).
Proof. exact thm_single_owner. Qed.
Print Assumptions c15_single_owner.

(* No acquisition is recycled twice. *)
Theorem c15_put_once :
  forall c ops s tr, Pool.run (init c) ops = (s, tr) ->
  forall a b i, tr = a ++ EPut i :: b -> ~ In (EPut i) a /\ ~ In (EPut i) b.
Proof. exact thm_put_once. Qed.
Print Assumptions c15_put_once.

(* After its Put an acquisition is never read, written, or Put again (nor handed out again:
   every Get is a new acquisition). *)
Theorem c15_no_use_after_put :
  forall c ops s tr, Pool.run (init c) ops = (s, tr) ->
  forall a b i, tr = a ++ EPut i :: b -> forall e, In e b -> ev_id e <> i.
Proof. exact thm_no_use_after_put. Qed.
Print Assumptions c15_no_use_after_put.

(* Every read / write / Put happens between the Get of that acquisition and its Put; every Get
   hands out an id never seen before. *)
Theorem c15_use_only_while_owned :
  forall c ops s tr, Pool.run (init c) ops = (s, tr) ->
  forall a b e, tr = a ++ e :: b ->
    match e with
    | EGet i => forall e', In e' a -> ev_id e' <> i
    | EPut i | ERd i | EWr i => In (EGet i) a /\ ~ In (EPut i) a
    end.
Proof. exact thm_use_only_while_owned. Qed.
Print Assumptions c15_use_only_while_owned.

(* bufferPool.Put accepts exactly the slices of capacity mtuLimit: a view that starts inside a
   pooled buffer (pkt.data(), r[2:sz], any [k:] re-slice) is ignored, whoever calls Put on it, and
   the ownership invariant is unaffected (OPutView is one of the operations of every theorem above). *)
Theorem c15_pool_accepts_full_only :
  (forall off i, slice_cap off = c_mtuLimit -> pool_put off i = [EPut i]) /\
  (forall off i, slice_cap off <> c_mtuLimit -> pool_put off i = []) /\
  (forall off i, off <> 0 -> pool_put off i = []) /\
  (forall s i off, off <> 0 -> Pool.step s (OPutView i off) = (s, 0, [])).
Proof. exact thm_pool_accepts_full_only. Qed.
Print Assumptions c15_pool_accepts_full_only.

(* ---------------------------------------------------------------- buffers: FEC decoder *)
Theorem c15_fec_single_owner :
  forall ds s tr, frun finit ds = (s, tr) ->
  forall i, (cnt i (fholders s) <= 1)%nat /\
            (cnt i (fholders s) = 1%nat <-> (In (EGet i) tr /\ ~ In (EPut i) tr)).
Proof. exact thm_fec_single_owner. Qed.
Print Assumptions c15_fec_single_owner.

Theorem c15_fec_put_once :
  forall ds s tr, frun finit ds = (s, tr) ->
  forall a b i, tr = a ++ EPut i :: b -> ~ In (EPut i) a /\ ~ In (EPut i) b.
Proof. exact thm_fec_put_once. Qed.
Print Assumptions c15_fec_put_once.

Theorem c15_fec_no_use_after_put :
  forall ds s tr, frun finit ds = (s, tr) ->
  forall a b i, tr = a ++ EPut i :: b -> forall e, In e b -> ev_id e <> i.
Proof. exact thm_fec_no_use_after_put. Qed.
Print Assumptions c15_fec_no_use_after_put.

(* ---------------------------------------------------------------- examples (non-vacuity) *)
(* message mode, mss 100, window 4: send 250 bytes (3 fragments), admit 3, receive an ACK for
   sn 1 (buffer recycled, segment stays), then UNA = 3 (the two remaining buffers recycled, the
   already-recycled one is not Put again) with a PUSH sn 0 (new), the same PUSH again (duplicate,
   no acquisition), a PUSH outside the window, a Put of a re-sliced view of a held buffer, Recv. *)
Example c15_example_trace :
  snd (Pool.run (init (mkCfg 100 false 4 0 0)) ex_ops) =
  [EGet 0; EWr 0; EGet 1; EWr 1; EGet 2; EWr 2;      (* Send: one buffer per fragment *)
   ERd 0; ERd 1; ERd 2;                              (* flush transmits the three segments *)
   EPut 1; ERd 0; ERd 2;                             (* ACK sn=1: recycled, segment stays; flush skips it *)
   EPut 0; EPut 2; EGet 3; EWr 3;                    (* UNA=3: only the non-nil data; PUSH sn=0: fresh copy *)
   ERd 3; EPut 3]                                    (* (duplicate, out-of-window, re-sliced Put: nothing); Recv *)
  /\ holders (fst (Pool.run (init (mkCfg 100 false 4 0 0)) ex_ops)) = [].
Proof. exact ex_trace. Qed.

(* stream mode: the second Send is absorbed in place by the last queued segment (same buffer) *)
Example c15_example_stream :
  snd (Pool.run (init (mkCfg 100 true 4 0 0)) [OSend 30; OSend 50; OSend 90]) =
  [EGet 0; EWr 0; EWr 0; EWr 0; EGet 1; EWr 1].
Proof. exact ex_stream. Qed.

(* FEC: two packets parked, the third completes a group that needs recovery of 2 shards:
   success hands the 2 fresh buffers to the caller, who reads and recycles them; failure returns
   them at once; a group that became too old is discarded (its packet recycled). *)
Example c15_example_fec :
  snd (frun finit [FAccept 0 RKeep []; FAccept 0 RKeep []; FAccept 0 (RRecover 2 true) []]) =
  [EGet 0; EWr 0; EGet 1; EWr 1; EGet 2; EWr 2;
   ERd 0; ERd 1; ERd 2; EWr 0; EWr 1; EWr 2; EGet 3; EGet 4; ERd 0; ERd 1; ERd 2; EWr 3; EWr 4;
   EPut 0; EPut 1; EPut 2; ERd 3; EPut 3; ERd 4; EPut 4]
  /\ snd (frun finit [FAccept 0 RKeep []; FAccept 0 (RRecover 1 false) []; FAccept 7 RKeep [7]]) =
  [EGet 0; EWr 0; EGet 1; EWr 1; ERd 0; ERd 1; EWr 0; EWr 1; EGet 2; ERd 0; ERd 1; EWr 2;
   EPut 2; EPut 0; EPut 1; EGet 3; EWr 3; EPut 3].
Proof. exact ex_fec. Qed.

Local Close Scope Z_scope.
(* ---------------------------------------------------------------- goroutines and callbacks *)
(* s0 ranges over the four ways the library starts: a dialled client (owning its socket or
   not) and a listener (owning its socket or not). *)

(* postProcess: from every reachable state in which s.die is closed, postProcess - wherever it
   is, whatever is queued, whatever was or is being enqueued - has a path of its OWN steps to
   its return (so it is never blocked), draining the channel on the way. *)
Theorem c15_postprocess_exits :
  forall cap s0 s, is_start s0 ->
  reach cap s0 s -> die s = true -> (pp s = PPSel \/ pp s = PPBlk) ->
  exists t, star cap is_pp s t /\ pp t = PPDone /\ q t = 0.
Proof. exact thm_postprocess_exits. Qed.
Print Assumptions c15_postprocess_exits.

(* update: at most one callback of a session is pending or running, always; once die is closed a
   firing callback neither flushes nor re-submits, the chain drains within two steps, and
   afterwards no step of anybody re-arms it. *)
Theorem c15_update_stops :
  forall cap s0 s, is_start s0 ->
  reach cap s0 s ->
  pend s + b2n (Exit.run s) <= 1 /\
  (die s = true ->
     (forall l t, Exit.step cap s l t -> is_upd l = true ->
        (l = U_fire_dead /\ S (pend t) = pend s /\ Exit.run t = Exit.run s) \/ (l = U_resubmit /\ Exit.run s = true)) /\
     (exists t, star cap is_upd s t /\ pend t = 0 /\ Exit.run t = false /\ die t = true /\ pp t = pp s)) /\
  (die s = true -> pp s <> PPNone -> pend s = 0 -> Exit.run s = false ->
     forall l t, Exit.step cap s l t -> die t = true /\ pp t <> PPNone /\ pend t = 0 /\ Exit.run t = false).
Proof. exact thm_update_stops. Qed.
Print Assumptions c15_update_stops.

(* readLoop / monitor: with the session closed AND the transport closed, readLoop returns
   (first read error); the first packet after Close ends it too; for a socket the library owns,
   Close itself closes the transport (UDPSession.Close of a client; Listener.Close once it has
   returned); the monitor returns once the transport is closed. *)
Theorem c15_readloop_exits :
  forall cap,
  (forall s, die s = true -> sock s = true -> (rl s = RLRead \/ rl s = RLGot \/ rl s = RLIn) ->
     exists t, star cap is_rl s t /\ rl t = RLDone) /\
  (forall s, die s = true -> rl s = RLGot -> exists t, Exit.step cap s RL_closed t /\ rl t = RLDone) /\
  (forall s, reach cap (init_client true) s -> die s = true -> sock s = true) /\
  (forall s, reach cap (init_served true) s -> lc s = LCDone -> sock s = true) /\
  (forall o s, reach cap (init_served o) s -> sock s = true ->
     exists t, star cap is_mon s t /\ mon t = MDone).
Proof. exact thm_readloop_exits. Qed.
Print Assumptions c15_readloop_exits.

(* The hypothesis "transport closed" is needed: a closed session on a socket it does not own
   keeps its readLoop blocked in ReadFrom - no readLoop step is enabled - until a packet arrives
   or the transport is closed (the property says "and the transport"). *)
Theorem c15_readloop_needs_transport :
  forall cap s l t, rl s = RLRead -> sock s = false -> Exit.step cap s l t -> is_rl l = false.
Proof. exact readloop_blocked_without_transport. Qed.
Print Assumptions c15_readloop_needs_transport.

(* Closing sessions, their listener and the transport ends everything the library started.
   Served side: from EVERY reachable state in which Listener.Close has returned, the transport is
   closed where the listener does not own it, and every session the application holds is closed,
   steps of the library alone (no further call of the application, no packet) lead to: monitor
   returned, postProcess returned (or no session was ever created), no update callback pending
   or running.  This covers sessions that were accepted, sessions still in the accept backlog
   when Close ran (closeBacklog closes them), and sessions the monitor was in the middle of
   creating while Close ran (the die test before newUDPSession, and the second test after
   `l.chAccepts <- s` that makes the monitor run closeBacklog itself).
   History: before commit "fix: Listener.Close closes the sessions still waiting in the accept
   backlog" the transition system had no closeBacklog and no die test in the dispatch; this
   statement was then refuted by the state "connect, do not accept, close listener and socket"
   (die open, postProcess at its select, one update callback pending or running for ever; with
   a socket not owned, the monitor created sessions after Listener.Close) - DESIGN F14.  The
   harness monitor `close-leak:unaccepted-backlog-sessions` keeps watching for it. *)
Theorem c15_all_exit :
  forall cap o s, reach cap (init_served o) s ->
    lc s = LCDone -> (own s = false -> sock s = true) -> (wh s = WHeld -> die s = true) ->
    exists t, star cap is_lib s t /\
              (pp t = PPDone \/ pp t = PPNone) /\ pend t = 0 /\ Exit.run t = false /\ mon t = MDone.
Proof. exact thm_all_exit. Qed.
Print Assumptions c15_all_exit.

(* Client side: a closed dialled session, transport closed where it does not own it. *)
Theorem c15_client_all_exit :
  forall cap o s, reach cap (init_client o) s ->
    die s = true -> (own s = false -> sock s = true) ->
    exists t, star cap is_lib s t /\ pp t = PPDone /\ pend t = 0 /\ Exit.run t = false /\ rl t = RLDone.
Proof. exact thm_client_all_exit. Qed.
Print Assumptions c15_client_all_exit.

(* Examples: the hypotheses are satisfiable by non-trivial reachable states. *)
(* a dialled client with traffic queued is closed: postProcess drains and returns, the pending
   update fires as a no-op, readLoop returns on the read error *)
Example c15_exit_example :
  let s := mkS true true false 2 PPSel 1 false RLRead MNone WHeld true LCNone in
  reach 8 (init_client true) s /\
  star 8 is_lib s (mkS true true false 0 PPDone 0 false RLDone MNone WHeld true LCNone).
Proof. exact ex_exit. Qed.

(* the history that used to leak: a peer connects, nobody accepts, the listener (owning the
   socket) is closed: the session is closed by closeBacklog and everything ends *)
Example c15_backlog_example :
  let s := mkS true true true 0 PPSel 1 false RLNone MRead WDropped true LCDone in
  reach 8 (init_served true) s /\
  star 8 is_lib s (mkS true true true 0 PPDone 0 false RLNone MDone WDropped true LCDone).
Proof. exact ex_backlog_closed. Qed.

(* the race the second die test is there for: the monitor passed the first test, Close ran to
   completion, then the session is created and queued - the monitor closes it itself *)
Example c15_race_example :
  let s := mkS false false true 0 PPNone 0 false RLNone MChecked WNone false LCDone in
  reach 8 (init_served false) s /\
  exists t, star 8 is_mon s t /\ wh t = WDropped /\ die t = true /\ mon t = MRead.
Proof. exact ex_race_closed. Qed.
