(* Goroutine / callback exit logic of sess.go (property C15, termination part) as a labelled
   transition system.  One session is modelled together with the goroutines and the callback
   the library starts for it, and - for a served session - its listener's monitor goroutine:

     postProcess (sess.go)   select { case req := <-chPostProcessing: ... ; chDie = s.die
                                      case <-chDie: if len(ch) > 0 { chDie = nil; continue }; return }
     update (sess.go)        select { case <-s.die: default: flush; SystemTimedSched.Put(s.update, ..) }
     readLoop (readloop.go)  for { ReadFrom -> err: return ; isClosed(): return ; packetInput }
     monitor (readloop.go)   for { ReadFrom -> err: return ; l.packetInput(..) }
     Listener.packetInput    no session for the address:  select { case <-l.die: return; default: }
                             s = newUDPSession(..); l.chAccepts <- s;
                             select { case <-l.die: l.closeBacklog(); default: }
     UDPSession.Close        close(die); flush; client && ownConn: conn.Close()
     Listener.Close          close(l.die); l.closeBacklog(); ownConn: conn.Close()   (three atomic steps)
     Listener.closeBacklog   for every s still in chAccepts: s.Close()

   The channel chPostProcessing is a counter q : nat with capacity `cap` (any capacity; the
   theorems are for all cap); enqueues are the non-blocking select of the output callback
   (drop when full).  `steps` are atomic sections of the Go code; channel, timer and socket
   primitives have their specified semantics (a closed channel is always ready; ReadFrom on a
   closed socket fails).  No proofs in this file. *)
From Coq Require Import List Bool Arith.
Import ListNotations.

Inductive ppc := PPNone | PPSel | PPBlk | PPDone.
  (* PPNone: the session does not exist yet; PPSel: at the select with chDie = s.die;
     PPBlk: at the select with chDie = nil (die was seen with packets still queued) *)
Inductive rlc := RLNone | RLRead | RLGot | RLIn | RLDone.
  (* RLNone: no readLoop (sessions created by a listener); RLRead: blocked in ReadFrom;
     RLGot: ReadFrom returned a packet; RLIn: isClosed() was false, inside packetInput *)
Inductive monc := MNone | MRead | MGot | MChecked | MPushed | MDone.
  (* MGot: ReadFrom returned a packet; MChecked: packetInput found no session and saw l.die open;
     MPushed: the new session has been queued in chAccepts, l.die is about to be tested again *)
Inductive whc := WNone | WBacklog | WHeld | WDropped.
  (* who can reach the session: nobody yet / only the listener's accept backlog / the application /
     nobody any more (closeBacklog took it out of chAccepts and closed it) *)
Inductive lcc := LCNone | LCDied | LCDrained | LCDone.
  (* progress of Listener.Close: not called / l.die closed / backlog drained / returned *)

Record gst := mkS {
  die : bool;      (* s.die closed *)
  sock : bool;     (* the socket (transport) is closed *)
  ldie : bool;     (* l.die closed *)
  q : nat;         (* len(chPostProcessing) *)
  pp : ppc;
  pend : nat;      (* s.update callbacks waiting in SystemTimedSched *)
  run : bool;      (* an update callback is past its die test (will flush and re-submit) *)
  rl : rlc;
  mon : monc;
  wh : whc;
  own : bool;      (* ownConn of the client session, resp. of the listener *)
  lc : lcc
}.

(* DialWithOptions / NewConn*: the session exists, the application holds it *)
Definition init_client (o : bool) : gst :=
  mkS false false false 0 PPSel 1 false RLRead MNone WHeld o LCNone.
(* ListenWithOptions / ServeConn: only the monitor runs; the (first) session is created later *)
Definition init_served (o : bool) : gst :=
  mkS false false false 0 PPNone 0 false RLNone MRead WNone o LCNone.

Inductive lab :=
| E_close_sess | E_close_listener | E_close_transport | E_accept | E_enqueue | E_packet_rl | E_packet_mon
| LC_drain | LC_sock
| PP_consume | PP_die_more | PP_die_exit | PP_consume_blk
| U_fire_alive | U_fire_dead | U_resubmit
| RL_err | RL_closed | RL_alive | RL_input_done
| M_err | M_check_alive | M_check_dead | M_create | M_post_alive | M_post_dead | M_dispatch_old | M_reset.

(* calls of the application and events of the network; everything else is a step of the library
   (a goroutine, a callback, or the remainder of a Close that has been called) *)
Definition is_env (l : lab) : bool :=
  match l with
  | E_close_sess | E_close_listener | E_close_transport | E_accept | E_enqueue | E_packet_rl | E_packet_mon => true
  | _ => false
  end.
Definition is_lib (l : lab) : bool := negb (is_env l).

(* closeBacklog on the modelled session: if it is still in chAccepts it is taken out and closed *)
Definition drop_wh (w : whc) : whc := match w with WBacklog => WDropped | _ => w end.
Definition drop_die (w : whc) (d : bool) : bool := match w with WBacklog => true | _ => d end.

Inductive step (cap : nat) : gst -> lab -> gst -> Prop :=
(* ---- application and network ---- *)
| s_close_sess d so ld q p pe r rl m o c :
    (* UDPSession.Close by the application: needs a handle.  A client that owns its socket closes it. *)
    step cap (mkS d so ld q p pe r rl m WHeld o c) E_close_sess
             (mkS true (so || (o && match m with MNone => true | _ => false end)) ld q p pe r rl m WHeld o c)
| s_close_listener d so q p pe r rl m w o :
    m <> MNone ->
    step cap (mkS d so false q p pe r rl m w o LCNone) E_close_listener
             (mkS d so true q p pe r rl m w o LCDied)
| s_close_transport d so ld q p pe r rl m w o c :
    step cap (mkS d so ld q p pe r rl m w o c) E_close_transport (mkS d true ld q p pe r rl m w o c)
| s_accept d so ld q p pe r rl m o c :
    (* AcceptKCP: `case c := <-l.chAccepts` (may still win the select after l.die is closed) *)
    step cap (mkS d so ld q p pe r rl m WBacklog o c) E_accept (mkS d so ld q p pe r rl m WHeld o c)
| s_enqueue_ok d so ld q p pe r rl m w o c :
    (* output callback / SendOOB, from Write, Close, update or Input: non-blocking *)
    p <> PPNone -> q < cap ->
    step cap (mkS d so ld q p pe r rl m w o c) E_enqueue (mkS d so ld (S q) p pe r rl m w o c)
| s_enqueue_drop d so ld q p pe r rl m w o c :
    p <> PPNone ->
    step cap (mkS d so ld q p pe r rl m w o c) E_enqueue (mkS d so ld q p pe r rl m w o c)
| s_packet_rl d ld q p pe r m w o c :
    step cap (mkS d false ld q p pe r RLRead m w o c) E_packet_rl (mkS d false ld q p pe r RLGot m w o c)
| s_packet_mon d ld q p pe r rl w o c :
    step cap (mkS d false ld q p pe r rl MRead w o c) E_packet_mon (mkS d false ld q p pe r rl MGot w o c)
(* ---- the rest of Listener.Close ---- *)
| s_lc_drain d so ld q p pe r rl m w o :
    step cap (mkS d so ld q p pe r rl m w o LCDied) LC_drain
             (mkS (drop_die w d) so ld q p pe r rl m (drop_wh w) o LCDrained)
| s_lc_sock d so ld q p pe r rl m w o :
    step cap (mkS d so ld q p pe r rl m w o LCDrained) LC_sock (mkS d (so || o) ld q p pe r rl m w o LCDone)
(* ---- postProcess ---- *)
| s_pp_consume d so ld q pe r rl m w o c :
    step cap (mkS d so ld (S q) PPSel pe r rl m w o c) PP_consume (mkS d so ld q PPSel pe r rl m w o c)
| s_pp_die_more so ld q pe r rl m w o c :
    step cap (mkS true so ld (S q) PPSel pe r rl m w o c) PP_die_more (mkS true so ld (S q) PPBlk pe r rl m w o c)
| s_pp_die_exit so ld pe r rl m w o c :
    step cap (mkS true so ld 0 PPSel pe r rl m w o c) PP_die_exit (mkS true so ld 0 PPDone pe r rl m w o c)
| s_pp_consume_blk d so ld q pe r rl m w o c :
    step cap (mkS d so ld (S q) PPBlk pe r rl m w o c) PP_consume_blk (mkS d so ld q PPSel pe r rl m w o c)
(* ---- update callback ---- *)
| s_u_fire_alive so ld q p pe r rl m w o c :
    step cap (mkS false so ld q p (S pe) r rl m w o c) U_fire_alive (mkS false so ld q p pe true rl m w o c)
| s_u_fire_dead so ld q p pe r rl m w o c :
    step cap (mkS true so ld q p (S pe) r rl m w o c) U_fire_dead (mkS true so ld q p pe r rl m w o c)
| s_u_resubmit d so ld q p pe rl m w o c :
    step cap (mkS d so ld q p pe true rl m w o c) U_resubmit (mkS d so ld q p (S pe) false rl m w o c)
(* ---- readLoop ---- *)
| s_rl_err d ld q p pe r m w o c :
    step cap (mkS d true ld q p pe r RLRead m w o c) RL_err (mkS d true ld q p pe r RLDone m w o c)
| s_rl_closed so ld q p pe r m w o c :
    step cap (mkS true so ld q p pe r RLGot m w o c) RL_closed (mkS true so ld q p pe r RLDone m w o c)
| s_rl_alive so ld q p pe r m w o c :
    step cap (mkS false so ld q p pe r RLGot m w o c) RL_alive (mkS false so ld q p pe r RLIn m w o c)
| s_rl_input_done d so ld q p pe r m w o c :
    step cap (mkS d so ld q p pe r RLIn m w o c) RL_input_done (mkS d so ld q p pe r RLRead m w o c)
(* ---- monitor ---- *)
| s_m_err d ld q p pe r rl w o c :
    step cap (mkS d true ld q p pe r rl MRead w o c) M_err (mkS d true ld q p pe r rl MDone w o c)
| s_m_check_alive d so q p pe r rl o c :
    (* no session for this address, `select { case <-l.die: return; default: }` takes default *)
    step cap (mkS d so false q p pe r rl MGot WNone o c) M_check_alive (mkS d so false q p pe r rl MChecked WNone o c)
| s_m_check_dead d so q p pe r rl o c :
    (* ... a closed listener creates no more sessions *)
    step cap (mkS d so true q p pe r rl MGot WNone o c) M_check_dead (mkS d so true q p pe r rl MRead WNone o c)
| s_m_create d so ld q pe r rl o c :
    (* newUDPSession (go postProcess; Put(update)); l.chAccepts <- s *)
    step cap (mkS d so ld q PPNone pe r rl MChecked WNone o c) M_create
             (mkS false so ld 0 PPSel 1 false rl MPushed WBacklog o c)
| s_m_post_alive d so q p pe r rl w o c :
    step cap (mkS d so false q p pe r rl MPushed w o c) M_post_alive (mkS d so false q p pe r rl MRead w o c)
| s_m_post_dead d so q p pe r rl w o c :
    (* l.die was closed meanwhile: closeBacklog() *)
    step cap (mkS d so true q p pe r rl MPushed w o c) M_post_dead
             (mkS (drop_die w d) so true q p pe r rl MRead (drop_wh w) o c)
| s_m_dispatch_old d so ld q p pe r rl w o c :
    w <> WNone ->
    step cap (mkS d so ld q p pe r rl MGot w o c) M_dispatch_old (mkS d so ld q p pe r rl MRead w o c)
| s_m_reset so ld q p pe r rl w o c :
    (* conversation id mismatch with sn == 0: s.Close() from the monitor *)
    w <> WNone ->
    step cap (mkS false so ld q p pe r rl MGot w o c) M_reset (mkS true so ld q p pe r rl MRead w o c).

Inductive reach (cap : nat) (s0 : gst) : gst -> Prop :=
| reach_init : reach cap s0 s0
| reach_step s l t : reach cap s0 s -> step cap s l t -> reach cap s0 t.

(* reflexive-transitive closure of the steps whose label satisfies `sel` *)
Inductive star (cap : nat) (sel : lab -> bool) : gst -> gst -> Prop :=
| star_refl s : star cap sel s s
| star_step s l t u : step cap s l t -> sel l = true -> star cap sel t u -> star cap sel s u.

Definition is_pp (l : lab) : bool :=
  match l with PP_consume | PP_die_more | PP_die_exit | PP_consume_blk => true | _ => false end.
Definition is_upd (l : lab) : bool :=
  match l with U_fire_alive | U_fire_dead | U_resubmit => true | _ => false end.
Definition is_rl (l : lab) : bool :=
  match l with RL_err | RL_closed | RL_alive | RL_input_done => true | _ => false end.
Definition is_mon (l : lab) : bool :=
  match l with
  | M_err | M_check_alive | M_check_dead | M_create | M_post_alive | M_post_dead | M_dispatch_old | M_reset => true
  | _ => false
  end.

Definition b2n (b : bool) : nat := if b then 1 else 0.
