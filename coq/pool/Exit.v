(* Goroutine / callback exit logic of sess.go (property C15, termination part) as a labelled
   transition system.  One session is modelled together with the goroutines and the callback
   the library starts for it, and - for a served session - its listener's monitor goroutine:

     postProcess (sess.go)   select { case req := <-chPostProcessing: ... ; chDie = s.die
                                      case <-chDie: if len(ch) > 0 { chDie = nil; continue }; return }
     update (sess.go)        select { case <-s.die: default: flush; SystemTimedSched.Put(s.update, ..) }
     readLoop (readloop.go)  for { ReadFrom -> err: return ; isClosed(): return ; packetInput }
     monitor (readloop.go)   for { ReadFrom -> err: return ; l.packetInput(..) }   (no test of l.die)
     UDPSession.Close        close(die); flush; client && ownConn: conn.Close()
     Listener.Close          close(l.die); ownConn: conn.Close()      (does not touch its sessions)

   The channel chPostProcessing is a counter q : nat with capacity `cap` (any capacity; the
   theorems are for all cap); enqueues are the non-blocking select of the output callback
   (drop when full).  `steps` are atomic sections of the Go code; channel, timer and socket
   primitives have their specified semantics (a closed channel is always ready; ReadFrom on a
   closed socket fails).  No proofs in this file. *)
From Coq Require Import List Bool Arith.
Import ListNotations.

Inductive ppc := PPNone | PPSel | PPBlk | PPDone.
  (* PPNone: the session does not exist yet; PPSel: at the select with chDie = s.die;
     PPBlk: at the select with chDie = nil (die was seen with packets still queued) *)
Inductive rlc := RLNone | RLRead | RLGot | RLIn | RLDone.
  (* RLNone: no readLoop (sessions created by a listener); RLRead: blocked in ReadFrom;
     RLGot: ReadFrom returned a packet; RLIn: isClosed() was false, inside packetInput *)
Inductive monc := MNone | MRead | MGot | MDone.
Inductive whc := WNone | WBacklog | WHeld.
  (* who can reach the session: nobody yet / only the listener's accept backlog / the application *)

Record gst := mkS {
  die : bool;      (* s.die closed *)
  sock : bool;     (* the socket (transport) is closed *)
  ldie : bool;     (* l.die closed *)
  q : nat;         (* len(chPostProcessing) *)
  pp : ppc;
  pend : nat;      (* s.update callbacks waiting in SystemTimedSched *)
  run : bool;      (* an update callback is past its die test (will flush and re-submit) *)
  rl : rlc;
  mon : monc;
  wh : whc;
  own : bool       (* ownConn of the client session, resp. of the listener *)
}.

(* DialWithOptions / NewConn*: the session exists, the application holds it *)
Definition init_client (o : bool) : gst :=
  mkS false false false 0 PPSel 1 false RLRead MNone WHeld o.
(* ListenWithOptions / ServeConn: only the monitor runs; the (first) session is created later *)
Definition init_served (o : bool) : gst :=
  mkS false false false 0 PPNone 0 false RLNone MRead WNone o.

Inductive lab :=
| E_close_sess | E_close_listener | E_close_transport | E_accept | E_enqueue | E_packet_rl | E_packet_mon
| PP_consume | PP_die_more | PP_die_exit | PP_consume_blk
| U_fire_alive | U_fire_dead | U_resubmit
| RL_err | RL_closed | RL_alive | RL_input_done
| M_err | M_dispatch_new | M_dispatch_old | M_reset.

Definition is_env (l : lab) : bool :=
  match l with
  | E_close_sess | E_close_listener | E_close_transport | E_accept | E_enqueue | E_packet_rl | E_packet_mon => true
  | _ => false
  end.

Inductive step (cap : nat) : gst -> lab -> gst -> Prop :=
(* ---- application and network ---- *)
| s_close_sess d so ld q p pe r rl m o :
    (* UDPSession.Close by the application: needs a handle.  A client that owns its socket closes it. *)
    step cap (mkS d so ld q p pe r rl m WHeld o) E_close_sess
             (mkS true (so || (o && match m with MNone => true | _ => false end)) ld q p pe r rl m WHeld o)
| s_close_listener d so q p pe r rl m w o :
    m <> MNone ->
    step cap (mkS d so false q p pe r rl m w o) E_close_listener
             (mkS d (so || o) true q p pe r rl m w o)
| s_close_transport d so ld q p pe r rl m w o :
    step cap (mkS d so ld q p pe r rl m w o) E_close_transport (mkS d true ld q p pe r rl m w o)
| s_accept d so ld q p pe r rl m o :
    (* AcceptKCP: `case c := <-l.chAccepts` (may still win the select after l.die is closed) *)
    step cap (mkS d so ld q p pe r rl m WBacklog o) E_accept (mkS d so ld q p pe r rl m WHeld o)
| s_enqueue_ok d so ld q p pe r rl m w o :
    (* output callback / SendOOB, from Write, Close, update or Input: non-blocking *)
    p <> PPNone -> q < cap ->
    step cap (mkS d so ld q p pe r rl m w o) E_enqueue (mkS d so ld (S q) p pe r rl m w o)
| s_enqueue_drop d so ld q p pe r rl m w o :
    p <> PPNone ->
    step cap (mkS d so ld q p pe r rl m w o) E_enqueue (mkS d so ld q p pe r rl m w o)
| s_packet_rl d ld q p pe r m w o :
    step cap (mkS d false ld q p pe r RLRead m w o) E_packet_rl (mkS d false ld q p pe r RLGot m w o)
| s_packet_mon d ld q p pe r rl w o :
    step cap (mkS d false ld q p pe r rl MRead w o) E_packet_mon (mkS d false ld q p pe r rl MGot w o)
(* ---- postProcess ---- *)
| s_pp_consume d so ld q pe r rl m w o :
    step cap (mkS d so ld (S q) PPSel pe r rl m w o) PP_consume (mkS d so ld q PPSel pe r rl m w o)
| s_pp_die_more so ld q pe r rl m w o :
    step cap (mkS true so ld (S q) PPSel pe r rl m w o) PP_die_more (mkS true so ld (S q) PPBlk pe r rl m w o)
| s_pp_die_exit so ld pe r rl m w o :
    step cap (mkS true so ld 0 PPSel pe r rl m w o) PP_die_exit (mkS true so ld 0 PPDone pe r rl m w o)
| s_pp_consume_blk d so ld q pe r rl m w o :
    step cap (mkS d so ld (S q) PPBlk pe r rl m w o) PP_consume_blk (mkS d so ld q PPSel pe r rl m w o)
(* ---- update callback ---- *)
| s_u_fire_alive so ld q p pe r rl m w o :
    step cap (mkS false so ld q p (S pe) r rl m w o) U_fire_alive (mkS false so ld q p pe true rl m w o)
| s_u_fire_dead so ld q p pe r rl m w o :
    step cap (mkS true so ld q p (S pe) r rl m w o) U_fire_dead (mkS true so ld q p pe r rl m w o)
| s_u_resubmit d so ld q p pe rl m w o :
    step cap (mkS d so ld q p pe true rl m w o) U_resubmit (mkS d so ld q p (S pe) false rl m w o)
(* ---- readLoop ---- *)
| s_rl_err d ld q p pe r m w o :
    step cap (mkS d true ld q p pe r RLRead m w o) RL_err (mkS d true ld q p pe r RLDone m w o)
| s_rl_closed so ld q p pe r m w o :
    step cap (mkS true so ld q p pe r RLGot m w o) RL_closed (mkS true so ld q p pe r RLDone m w o)
| s_rl_alive so ld q p pe r m w o :
    step cap (mkS false so ld q p pe r RLGot m w o) RL_alive (mkS false so ld q p pe r RLIn m w o)
| s_rl_input_done d so ld q p pe r m w o :
    step cap (mkS d so ld q p pe r RLIn m w o) RL_input_done (mkS d so ld q p pe r RLRead m w o)
(* ---- monitor ---- *)
| s_m_err d ld q p pe r rl w o :
    step cap (mkS d true ld q p pe r rl MRead w o) M_err (mkS d true ld q p pe r rl MDone w o)
| s_m_dispatch_new d so ld q pe r rl o :
    (* l.packetInput: no session for this address -> newUDPSession (go postProcess; Put(update));
       l.chAccepts <- s.   Note: l.die is not consulted. *)
    step cap (mkS d so ld q PPNone pe r rl MGot WNone o) M_dispatch_new
             (mkS false so ld 0 PPSel 1 false rl MRead WBacklog o)
| s_m_dispatch_old d so ld q p pe r rl w o :
    w <> WNone ->
    step cap (mkS d so ld q p pe r rl MGot w o) M_dispatch_old (mkS d so ld q p pe r rl MRead w o)
| s_m_reset so ld q p pe r rl w o :
    (* conversation id mismatch with sn == 0: s.Close() from the monitor *)
    w <> WNone ->
    step cap (mkS false so ld q p pe r rl MGot w o) M_reset (mkS true so ld q p pe r rl MRead w o).

Inductive reach (cap : nat) (s0 : gst) : gst -> Prop :=
| reach_init : reach cap s0 s0
| reach_step s l t : reach cap s0 s -> step cap s l t -> reach cap s0 t.

(* reflexive-transitive closure of the steps whose label satisfies `sel` *)
Inductive star (cap : nat) (sel : lab -> bool) : gst -> gst -> Prop :=
| star_refl s : star cap sel s s
| star_step s l t u : step cap s l t -> sel l = true -> star cap sel t u -> star cap sel s u.

Definition is_pp (l : lab) : bool :=
  match l with PP_consume | PP_die_more | PP_die_exit | PP_consume_blk => true | _ => false end.
Definition is_upd (l : lab) : bool :=
  match l with U_fire_alive | U_fire_dead | U_resubmit => true | _ => false end.
Definition is_rl (l : lab) : bool :=
  match l with RL_err | RL_closed | RL_alive | RL_input_done => true | _ => false end.
Definition is_mon (l : lab) : bool :=
  match l with M_err | M_dispatch_new | M_dispatch_old | M_reset => true | _ => false end.
(* everything except a further Accept: what can still happen once the application has closed
   all it holds and makes no more calls that could hand it a backlog session *)
Definition not_accept (l : lab) : bool := match l with E_accept => false | _ => true end.

Definition b2n (b : bool) : nat := if b then 1 else 0.
