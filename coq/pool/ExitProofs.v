(* Proofs about Exit.v: invariants by induction over all interleavings (any channel capacity)
   and constructive exit paths. *)
From Coq Require Import List Bool Arith Lia.
From KV.Pool Require Import Exit.
Import ListNotations.

Ltac inv_step H := inversion H; subst; clear H; simpl in *.

Ltac split_cases :=
  repeat match goal with
         | |- context [b2n ?r] => is_var r; destruct r
         | H : context [b2n ?r] |- _ => is_var r; destruct r
         | |- context [drop_wh ?w] => is_var w; destruct w
         | H : context [drop_wh ?w] |- _ => is_var w; destruct w
         | |- context [drop_die ?w _] => is_var w; destruct w
         | H : context [drop_die ?w _] |- _ => is_var w; destruct w
         end; simpl in *.

(* ------------------------------------------------------------------ invariants *)
Definition Good (s : gst) : Prop :=
  (pp s = PPBlk -> q s > 0) /\
  (pend s + b2n (run s) <= 1) /\
  (wh s = WNone <-> pp s = PPNone) /\
  (pp s = PPNone -> pend s = 0 /\ run s = false) /\
  (wh s = WDropped -> die s = true) /\
  (* once Listener.Close has drained the backlog, a session can be in it only while the monitor
     stands right behind `l.chAccepts <- s`, about to test l.die again *)
  ((lc s = LCDrained \/ lc s = LCDone) -> wh s = WBacklog -> mon s = MPushed) /\
  (lc s <> LCNone -> ldie s = true) /\
  (mon s = MChecked -> wh s = WNone) /\
  (lc s = LCDone -> own s = true -> sock s = true).

Lemma good_client o : Good (init_client o).
Proof. unfold Good; simpl; intuition (try discriminate; try lia). Qed.
Lemma good_served o : Good (init_served o).
Proof. unfold Good; simpl; intuition (try discriminate; try lia). Qed.

Lemma good_step cap s l t : Good s -> step cap s l t -> Good t.
Proof.
  intros G H. unfold Good in G. inv_step H; unfold Good; simpl; split_cases;
    intuition (try discriminate; try lia; try congruence;
               try (subst; simpl; solve [reflexivity | apply orb_true_r])).
Qed.

Lemma good_reach cap s0 s : Good s0 -> reach cap s0 s -> Good s.
Proof. intros G R. induction R; [auto | eapply good_step; eauto]. Qed.

Lemma reach_star cap sel s0 s t : reach cap s0 s -> star cap sel s t -> reach cap s0 t.
Proof. intros R St. induction St; [auto | apply IHSt; eapply reach_step; eauto]. Qed.

Lemma star_weaken cap (f g : lab -> bool) s t :
  (forall l, f l = true -> g l = true) -> star cap f s t -> star cap g s t.
Proof. intros W St. induction St; [apply star_refl | eapply star_step; eauto]. Qed.

Lemma star_trans cap sel s t u : star cap sel s t -> star cap sel t u -> star cap sel s u.
Proof. intros A B. induction A; [auto | eapply star_step; eauto]. Qed.

(* monotone facts *)
Lemma own_const cap s l t : step cap s l t -> own t = own s.
Proof. intro H; inv_step H; reflexivity. Qed.

Lemma client_inv cap o s :
  reach cap (init_client o) s -> mon s = MNone /\ own s = o /\ rl s <> RLNone /\ pp s <> PPNone.
Proof.
  induction 1 as [|s l t R [IH1 [IH2 [IH3 IH4]]] St]; [simpl; repeat split; auto; discriminate|].
  inv_step St; try discriminate; repeat split; auto; try discriminate; try congruence.
Qed.

Lemma served_inv cap o s : reach cap (init_served o) s -> mon s <> MNone /\ own s = o.
Proof.
  induction 1 as [|s l t R [IH1 IH2] St]; [simpl; split; auto; discriminate|].
  inv_step St; split; auto; try discriminate; try congruence.
Qed.

(* an owned socket is closed by Close: client session *)
Lemma client_close_inv0 cap s :
  reach cap (init_client true) s ->
  mon s = MNone /\ own s = true /\ lc s = LCNone /\ (die s = true -> sock s = true).
Proof.
  induction 1 as [|s l t R [IH1 [IH2 [IH3 IH4]]] St]; [simpl; repeat split; auto; discriminate|].
  inv_step St; try discriminate; try congruence; repeat split; auto; intros; try discriminate;
    try (apply IH4; auto; fail); try (subst; apply orb_true_r); try (rewrite IH4; auto).
Qed.

Lemma client_close_inv cap s :
  reach cap (init_client true) s -> die s = true -> sock s = true.
Proof. intros R. apply (client_close_inv0 _ _ R). Qed.

(* ------------------------------------------------------------------ postProcess *)
Lemma pp_sel_exits cap : forall n so ld pe r rl m w o c,
  star cap is_pp (mkS true so ld n PPSel pe r rl m w o c) (mkS true so ld 0 PPDone pe r rl m w o c).
Proof.
  induction n as [|n IH]; intros.
  - eapply star_step; [apply s_pp_die_exit | reflexivity | apply star_refl].
  - eapply star_step; [apply s_pp_consume | reflexivity | apply IH].
Qed.

Lemma pp_exits_rec cap so ld n p pe r rl m w o c :
  (p = PPBlk -> n > 0) -> (p = PPSel \/ p = PPBlk) ->
  star cap is_pp (mkS true so ld n p pe r rl m w o c) (mkS true so ld 0 PPDone pe r rl m w o c).
Proof.
  intros G1 [-> | ->].
  - apply pp_sel_exits.
  - specialize (G1 eq_refl). destruct n as [|n]; [lia|].
    eapply star_step; [apply s_pp_consume_blk | reflexivity | apply pp_sel_exits].
Qed.

Lemma postprocess_exits cap s0 s :
  Good s0 -> reach cap s0 s -> die s = true -> (pp s = PPSel \/ pp s = PPBlk) ->
  exists t, star cap is_pp s t /\ pp t = PPDone /\ q t = 0.
Proof.
  intros G0 R Hd Hp. pose proof (good_reach _ _ _ G0 R) as [G1 _].
  destruct s as [d so ld qq p pe r rl m w o c]. simpl in *. subst d.
  exists (mkS true so ld 0 PPDone pe r rl m w o c).
  split; [apply pp_exits_rec; auto | split; reflexivity].
Qed.

(* once it has returned it stays returned, and nothing restarts it *)
Lemma postprocess_done_stable cap s l t : step cap s l t -> pp s = PPDone -> pp t = PPDone.
Proof. intro H; inv_step H; intros; auto; discriminate. Qed.

(* ------------------------------------------------------------------ update *)
Lemma upd_drains_rec cap so ld qq p pe r rl m w o c :
  pe + b2n r <= 1 ->
  star cap is_upd (mkS true so ld qq p pe r rl m w o c) (mkS true so ld qq p 0 false rl m w o c).
Proof.
  intro G2. destruct r; simpl in G2.
  - assert (pe = 0) by lia. subst.
    eapply star_step; [apply s_u_resubmit | reflexivity |].
    eapply star_step; [apply s_u_fire_dead | reflexivity | apply star_refl].
  - destruct pe as [|pe]; [apply star_refl|].
    assert (pe = 0) by lia. subst.
    eapply star_step; [apply s_u_fire_dead | reflexivity | apply star_refl].
Qed.

Lemma update_drains cap s0 s :
  Good s0 -> reach cap s0 s -> die s = true ->
  exists t, star cap is_upd s t /\ pend t = 0 /\ run t = false /\ die t = true /\ pp t = pp s.
Proof.
  intros G0 R Hd. pose proof (good_reach _ _ _ G0 R) as [_ [G2 _]].
  destruct s as [d so ld qq p pe r rl m w o c]. simpl in *. subst d.
  exists (mkS true so ld qq p 0 false rl m w o c).
  split; [apply upd_drains_rec; auto | repeat split; reflexivity].
Qed.

(* with die closed a firing callback is a no-op: it does not flush and does not re-submit *)
Lemma update_fire_dead_only cap s l t :
  step cap s l t -> die s = true -> is_upd l = true ->
  (l = U_fire_dead /\ S (pend t) = pend s /\ run t = run s) \/ (l = U_resubmit /\ run s = true).
Proof. intro H; inv_step H; intros; try discriminate; auto. Qed.

(* ... and once drained nothing ever re-arms it *)
Lemma update_stopped_stable cap s l t :
  step cap s l t -> die s = true -> pp s <> PPNone -> pend s = 0 -> run s = false ->
  die t = true /\ pp t <> PPNone /\ pend t = 0 /\ run t = false.
Proof.
  intro H; inv_step H; intros; split_cases; repeat split; auto; try discriminate; try congruence.
Qed.

(* postProcess and the update chain of a closed session both finish, by library steps alone *)
Lemma finish_session cap s :
  Good s -> die s = true -> pp s <> PPNone ->
  exists u, star cap is_lib s u /\ pp u = PPDone /\ pend u = 0 /\ run u = false /\
            mon u = mon s /\ rl u = rl s /\ die u = true /\ sock u = sock s.
Proof.
  intros [G1 [G2 _]] Hd Hp.
  destruct s as [d so ld qq p pe r rl m w o c]. simpl in *. subst d.
  exists (mkS true so ld (match p with PPDone => qq | _ => 0 end) PPDone 0 false rl m w o c).
  split; [| repeat split; reflexivity].
  eapply star_trans with (t := mkS true so ld (match p with PPDone => qq | _ => 0 end) PPDone pe r rl m w o c).
  - destruct p; try congruence.
    + eapply star_weaken; [| apply pp_exits_rec; auto]. intros l; destruct l; simpl; auto; discriminate.
    + eapply star_weaken; [| apply pp_exits_rec; auto]. intros l; destruct l; simpl; auto; discriminate.
    + apply star_refl.
  - eapply star_weaken; [| apply upd_drains_rec; auto]. intros l; destruct l; simpl; auto; discriminate.
Qed.

(* ------------------------------------------------------------------ readLoop / monitor *)
Lemma readloop_exits cap s :
  die s = true -> sock s = true -> (rl s = RLRead \/ rl s = RLGot \/ rl s = RLIn) ->
  exists t, star cap is_rl s t /\ rl t = RLDone.
Proof.
  destruct s as [d so ld qq p pe r rl m w o c]. simpl. intros -> -> [-> | [-> | ->]].
  - eexists. split; [eapply star_step; [apply s_rl_err | reflexivity | apply star_refl] | reflexivity].
  - eexists. split; [eapply star_step; [apply s_rl_closed | reflexivity | apply star_refl] | reflexivity].
  - eexists. split.
    { eapply star_step; [apply s_rl_input_done | reflexivity |].
      eapply star_step; [apply s_rl_err | reflexivity | apply star_refl]. }
    reflexivity.
Qed.

(* the first packet after Close also ends it, whatever the socket *)
Lemma readloop_exits_on_packet cap s :
  die s = true -> rl s = RLGot -> exists t, step cap s RL_closed t /\ rl t = RLDone.
Proof.
  destruct s as [d so ld qq p pe r rl m w o c]. simpl. intros -> ->.
  eexists. split; [apply s_rl_closed | reflexivity].
Qed.

(* without "transport closed" a readLoop of a closed session can stay blocked: no library
   step is enabled for it (this is why the theorem carries the hypothesis) *)
Lemma readloop_blocked_without_transport cap s l t :
  rl s = RLRead -> sock s = false -> step cap s l t -> is_rl l = false.
Proof. intros Hr Hs H; inv_step H; auto; discriminate. Qed.

(* With the transport closed the monitor returns; if Listener.Close has returned as well, the
   session - accepted or not - is closed when it does (or was never created). *)
Lemma monitor_finishes cap s :
  Good s -> sock s = true -> mon s <> MNone ->
  exists t, star cap is_mon s t /\ mon t = MDone /\ sock t = true /\ rl t = rl s /\
    (lc s = LCDone -> (wh s = WHeld -> die s = true) -> pp t = PPNone \/ die t = true).
Proof.
  intros [G1 [G2 [G3 [G4 [G5 [G6 [G7 [G8 G9]]]]]]]] Hs Hm.
  destruct s as [d so ld qq p pe r rl m w o c]. simpl in *. subst so.
  assert (FIN : forall d' w', (c = LCDone -> (w' = WHeld -> d' = true) ->
                               (w' = WNone <-> p = PPNone) -> (w' = WDropped -> d' = true) -> w' <> WBacklog ->
                               p = PPNone \/ d' = true)).
  { intros d' w' _ Hh H3 H5 Hb. destruct w'; [left; apply H3; auto | congruence | right; auto | right; auto]. }
  destruct m; try congruence.
  - (* MRead *)
    eexists. split; [eapply star_step; [apply s_m_err | reflexivity | apply star_refl]|].
    simpl. repeat split; auto.
    all: intros Hc Hh; apply (FIN d w); auto; intro Hb; specialize (G6 (or_intror Hc) Hb); discriminate.
  - (* MGot *)
    destruct w.
    + assert (p = PPNone) by (apply G3; auto). subst p. destruct ld.
      * eexists. split.
        { eapply star_step; [apply s_m_check_dead | reflexivity |].
          eapply star_step; [apply s_m_err | reflexivity | apply star_refl]. }
        simpl. repeat split; auto.
        all: intros _ _; left; apply G3; auto.
      * eexists. split.
        { eapply star_step; [apply s_m_check_alive | reflexivity |].
          eapply star_step; [apply s_m_create | reflexivity |].
          eapply star_step; [apply s_m_post_alive | reflexivity |].
          eapply star_step; [apply s_m_err | reflexivity | apply star_refl]. }
        simpl. repeat split; auto.
        all: intros Hc _; exfalso; assert (false = true) by (apply G7; rewrite Hc; discriminate); discriminate.
    + eexists. split.
      { eapply star_step; [apply s_m_dispatch_old; discriminate | reflexivity |].
        eapply star_step; [apply s_m_err | reflexivity | apply star_refl]. }
      simpl. repeat split; auto.
      all: intros Hc _; specialize (G6 (or_intror Hc) eq_refl); discriminate.
    + eexists. split.
      { eapply star_step; [apply s_m_dispatch_old; discriminate | reflexivity |].
        eapply star_step; [apply s_m_err | reflexivity | apply star_refl]. }
      simpl. repeat split; auto.
    + eexists. split.
      { eapply star_step; [apply s_m_dispatch_old; discriminate | reflexivity |].
        eapply star_step; [apply s_m_err | reflexivity | apply star_refl]. }
      simpl. repeat split; auto.
  - (* MChecked: the die test was passed before Close; the session is created, queued, and - if
       l.die is closed by now - closed again by the monitor's own closeBacklog *)
    rewrite (G8 eq_refl) in *. assert (p = PPNone) by (apply G3; auto). subst p. destruct ld.
    + eexists. split.
      { eapply star_step; [apply s_m_create | reflexivity |].
        eapply star_step; [apply s_m_post_dead | reflexivity |].
        eapply star_step; [apply s_m_err | reflexivity | apply star_refl]. }
      simpl. repeat split; auto.
    + eexists. split.
      { eapply star_step; [apply s_m_create | reflexivity |].
        eapply star_step; [apply s_m_post_alive | reflexivity |].
        eapply star_step; [apply s_m_err | reflexivity | apply star_refl]. }
      simpl. repeat split; auto.
      all: intros Hc _; exfalso; assert (false = true) by (apply G7; rewrite Hc; discriminate); discriminate.
  - (* MPushed *)
    destruct ld.
    + eexists. split.
      { eapply star_step; [apply s_m_post_dead | reflexivity |].
        eapply star_step; [apply s_m_err | reflexivity | apply star_refl]. }
      simpl. repeat split; auto.
      all: intros Hc Hh; destruct w; simpl; [left; apply G3; auto | right; auto | right; auto | right; auto].
    + eexists. split.
      { eapply star_step; [apply s_m_post_alive | reflexivity |].
        eapply star_step; [apply s_m_err | reflexivity | apply star_refl]. }
      simpl. repeat split; auto.
      all: intros Hc _; exfalso; assert (false = true) by (apply G7; rewrite Hc; discriminate); discriminate.
  - (* MDone *)
    eexists. split; [apply star_refl|]. simpl. repeat split; auto.
    all: intros Hc Hh; apply (FIN d w); auto; intro Hb; specialize (G6 (or_intror Hc) Hb); discriminate.
Qed.

Lemma monitor_exits cap s0 s :
  Good s0 -> reach cap s0 s -> sock s = true -> mon s <> MNone ->
  exists t, star cap is_mon s t /\ mon t = MDone.
Proof.
  intros G0 R Hs Hm. destruct (monitor_finishes cap s (good_reach _ _ _ G0 R) Hs Hm) as [t [St [Ht _]]].
  exists t; auto.
Qed.

(* ------------------------------------------------------------------ the statements of C15.v *)
Definition is_start (s0 : gst) : Prop :=
  s0 = init_client true \/ s0 = init_client false \/ s0 = init_served true \/ s0 = init_served false.

Lemma good_start s0 : is_start s0 -> Good s0.
Proof. intros [-> | [-> | [-> | ->]]]; (apply good_client || apply good_served). Qed.

Lemma thm_postprocess_exits :
  forall cap s0 s, is_start s0 ->
  reach cap s0 s -> die s = true -> (pp s = PPSel \/ pp s = PPBlk) ->
  exists t, star cap is_pp s t /\ pp t = PPDone /\ q t = 0.
Proof. intros cap s0 s H. apply postprocess_exits. apply good_start; auto. Qed.

Lemma thm_update_stops :
  forall cap s0 s, is_start s0 ->
  reach cap s0 s ->
  pend s + b2n (run s) <= 1 /\
  (die s = true ->
     (forall l t, step cap s l t -> is_upd l = true ->
        (l = U_fire_dead /\ S (pend t) = pend s /\ run t = run s) \/ (l = U_resubmit /\ run s = true)) /\
     (exists t, star cap is_upd s t /\ pend t = 0 /\ run t = false /\ die t = true /\ pp t = pp s)) /\
  (die s = true -> pp s <> PPNone -> pend s = 0 -> run s = false ->
     forall l t, step cap s l t -> die t = true /\ pp t <> PPNone /\ pend t = 0 /\ run t = false).
Proof.
  intros cap s0 s H R. pose proof (good_start _ H) as G0.
  split; [exact (proj1 (proj2 (good_reach _ _ _ G0 R))) | split].
  - intro Hd. split.
    + intros l t St Hu. eapply update_fire_dead_only; eauto.
    + eapply update_drains; eauto.
  - intros Hd Hp Hq Hr l t St. eapply update_stopped_stable; eauto.
Qed.

Lemma thm_readloop_exits :
  forall cap,
  (forall s, die s = true -> sock s = true -> (rl s = RLRead \/ rl s = RLGot \/ rl s = RLIn) ->
     exists t, star cap is_rl s t /\ rl t = RLDone) /\
  (forall s, die s = true -> rl s = RLGot -> exists t, step cap s RL_closed t /\ rl t = RLDone) /\
  (forall s, reach cap (init_client true) s -> die s = true -> sock s = true) /\
  (forall s, reach cap (init_served true) s -> lc s = LCDone -> sock s = true) /\
  (forall o s, reach cap (init_served o) s -> sock s = true ->
     exists t, star cap is_mon s t /\ mon t = MDone).
Proof.
  intro cap. split; [| split; [| split; [| split]]].
  - apply readloop_exits.
  - apply readloop_exits_on_packet.
  - apply client_close_inv.
  - intros s R Hc. pose proof (good_reach _ _ _ (good_served true) R) as G.
    destruct (served_inv _ _ _ R) as [_ Ho]. apply G; auto.
  - intros o s R Hs. eapply monitor_exits; [apply good_served | exact R | exact Hs |].
    apply (served_inv _ _ _ R).
Qed.

(* Everything the library started for a served session ends once the listener is closed
   (Close has returned), the transport is closed where the listener does not own it, and
   every session the application holds is closed - whether the session was accepted, was
   still in the backlog, or was being created while Close ran. *)
Lemma thm_all_exit :
  forall cap o s, reach cap (init_served o) s ->
    lc s = LCDone -> (own s = false -> sock s = true) -> (wh s = WHeld -> die s = true) ->
    exists t, star cap is_lib s t /\
              (pp t = PPDone \/ pp t = PPNone) /\ pend t = 0 /\ run t = false /\ mon t = MDone.
Proof.
  intros cap o s R Hc Hso Hh.
  pose proof (good_reach _ _ _ (good_served o) R) as G.
  destruct (served_inv _ _ _ R) as [Hm _].
  assert (Hs : sock s = true).
  { destruct (own s) eqn:E; [apply G; auto | auto]. }
  destruct (monitor_finishes cap s G Hs Hm) as [t [St [Ht [Hst [_ Hcl]]]]].
  specialize (Hcl Hc Hh).
  assert (St' : star cap is_lib s t).
  { eapply star_weaken; [| exact St]. intros l; destruct l; simpl; auto; discriminate. }
  pose proof (reach_star _ _ _ _ _ R St) as Rt.
  pose proof (good_reach _ _ _ (good_served o) Rt) as Gt.
  destruct (pp t) eqn:Ep.
  - exists t. destruct Gt as [_ [_ [_ [G4 _]]]]. destruct (G4 Ep) as [A B].
    split; [exact St' | repeat split; auto].
  - destruct Hcl as [Hx | Hd]; [congruence|].
    destruct (finish_session cap t Gt Hd) as [u [Su [A [B [C [D _]]]]]]; [congruence|].
    exists u. split; [eapply star_trans; eauto | repeat split; auto; congruence].
  - destruct Hcl as [Hx | Hd]; [congruence|].
    destruct (finish_session cap t Gt Hd) as [u [Su [A [B [C [D _]]]]]]; [congruence|].
    exists u. split; [eapply star_trans; eauto | repeat split; auto; congruence].
  - destruct Hcl as [Hx | Hd]; [congruence|].
    destruct (finish_session cap t Gt Hd) as [u [Su [A [B [C [D _]]]]]]; [congruence|].
    exists u. split; [eapply star_trans; eauto | repeat split; auto; congruence].
Qed.

(* the same for a dialled session *)
Lemma thm_client_all_exit :
  forall cap o s, reach cap (init_client o) s ->
    die s = true -> (own s = false -> sock s = true) ->
    exists t, star cap is_lib s t /\ pp t = PPDone /\ pend t = 0 /\ run t = false /\ rl t = RLDone.
Proof.
  intros cap o s R Hd Hso.
  pose proof (good_reach _ _ _ (good_client o) R) as G.
  destruct (client_inv _ _ _ R) as [_ [Ho [Hrl Hpp]]].
  assert (Hs : sock s = true).
  { destruct o; [eapply client_close_inv; eauto | apply Hso; auto]. }
  destruct (finish_session cap s G Hd Hpp) as [u [Su [A [B [C [_ [E [F K]]]]]]]].
  destruct (rl u) eqn:Er.
  - congruence.
  - destruct (readloop_exits cap u F (eq_trans K Hs) (or_introl Er)) as [v [Sv Hv]].
    assert (Sv' : star cap is_lib u v).
    { eapply star_weaken; [| exact Sv]. intros l; destruct l; simpl; auto; discriminate. }
    exists v. split; [eapply star_trans; eauto|].
    clear - Sv A B C Hv. induction Sv as [|x l y z Hxy Hl _ IH]; [auto|].
    apply IH; auto; inv_step Hxy; auto; discriminate.
  - destruct (readloop_exits cap u F (eq_trans K Hs) (or_intror (or_introl Er))) as [v [Sv Hv]].
    assert (Sv' : star cap is_lib u v).
    { eapply star_weaken; [| exact Sv]. intros l; destruct l; simpl; auto; discriminate. }
    exists v. split; [eapply star_trans; eauto|].
    clear - Sv A B C Hv. induction Sv as [|x l y z Hxy Hl _ IH]; [auto|].
    apply IH; auto; inv_step Hxy; auto; discriminate.
  - destruct (readloop_exits cap u F (eq_trans K Hs) (or_intror (or_intror Er))) as [v [Sv Hv]].
    assert (Sv' : star cap is_lib u v).
    { eapply star_weaken; [| exact Sv]. intros l; destruct l; simpl; auto; discriminate. }
    exists v. split; [eapply star_trans; eauto|].
    clear - Sv A B C Hv. induction Sv as [|x l y z Hxy Hl _ IH]; [auto|].
    apply IH; auto; inv_step Hxy; auto; discriminate.
  - exists u. split; [exact Su | repeat split; auto].
Qed.

(* Examples.  (1) A dialled client with traffic queued is closed; postProcess drains and returns,
   the pending update fires as a no-op, readLoop returns on the read error. *)
Lemma ex_exit :
  let s := mkS true true false 2 PPSel 1 false RLRead MNone WHeld true LCNone in
  reach 8 (init_client true) s /\
  star 8 is_lib s (mkS true true false 0 PPDone 0 false RLDone MNone WHeld true LCNone).
Proof.
  split.
  - eapply reach_step; [eapply reach_step; [eapply reach_step; [apply reach_init|] |] |].
    + apply s_enqueue_ok; [discriminate | repeat constructor].
    + apply s_enqueue_ok; [discriminate | repeat constructor].
    + apply (s_close_sess 8 false false false 2 PPSel 1 false RLRead MNone true LCNone).
  - eapply star_step; [apply s_pp_die_more | reflexivity |].
    eapply star_step; [apply s_pp_consume_blk | reflexivity |].
    eapply star_step; [apply s_pp_consume | reflexivity |].
    eapply star_step; [apply s_pp_die_exit | reflexivity |].
    eapply star_step; [apply s_u_fire_dead | reflexivity |].
    eapply star_step; [apply s_rl_err | reflexivity |].
    apply star_refl.
Qed.

(* (2) The history that used to leak (DESIGN F14): a peer connects, nobody accepts, the listener -
   which owns the socket - is closed.  closeBacklog closes the session; library steps end all. *)
Lemma ex_backlog_closed :
  let s := mkS true true true 0 PPSel 1 false RLNone MRead WDropped true LCDone in
  reach 8 (init_served true) s /\
  star 8 is_lib s (mkS true true true 0 PPDone 0 false RLNone MDone WDropped true LCDone).
Proof.
  split.
  - eapply reach_step; [eapply reach_step; [eapply reach_step; [eapply reach_step; [eapply reach_step;
      [eapply reach_step; [eapply reach_step; [apply reach_init|] |] |] |] |] |] |].
    + apply s_packet_mon.
    + apply s_m_check_alive.
    + apply s_m_create.
    + apply s_m_post_alive.
    + apply s_close_listener. discriminate.
    + apply s_lc_drain.
    + simpl. apply s_lc_sock.
  - eapply star_step; [apply s_m_err | reflexivity |].
    eapply star_step; [apply s_pp_die_exit | reflexivity |].
    eapply star_step; [apply s_u_fire_dead | reflexivity |].
    apply star_refl.
Qed.

(* (3) The race the second die test is there for: the monitor has passed the first test, Close
   runs to completion (nothing to drain yet), then the session is created and queued; the
   monitor's own closeBacklog closes it. *)
Lemma ex_race_closed :
  let s := mkS false false true 0 PPNone 0 false RLNone MChecked WNone false LCDone in
  reach 8 (init_served false) s /\
  exists t, star 8 is_mon s t /\ wh t = WDropped /\ die t = true /\ mon t = MRead.
Proof.
  split.
  - eapply reach_step; [eapply reach_step; [eapply reach_step; [eapply reach_step; [eapply reach_step;
      [apply reach_init|] |] |] |] |].
    + apply s_packet_mon.
    + apply s_m_check_alive.
    + apply s_close_listener. discriminate.
    + apply s_lc_drain.
    + simpl. apply s_lc_sock.
  - eexists. split.
    { eapply star_step; [apply s_m_create | reflexivity |].
      eapply star_step; [apply s_m_post_dead | reflexivity | apply star_refl]. }
    simpl. repeat split.
Qed.
