(* Proofs about Exit.v: invariants by induction over all interleavings (any channel capacity),
   constructive exit paths, and the backlog-leak witness. *)
From Coq Require Import List Bool Arith Lia.
From KV.Pool Require Import Exit.
Import ListNotations.

Ltac inv_step H := inversion H; subst; clear H; simpl in *.

(* ------------------------------------------------------------------ invariants *)
Definition Good (s : gst) : Prop :=
  (pp s = PPBlk -> q s > 0) /\
  (pend s + b2n (run s) <= 1) /\
  (wh s = WNone <-> pp s = PPNone).

Lemma good_client o : Good (init_client o).
Proof. repeat split; simpl; try lia; try discriminate. Qed.
Lemma good_served o : Good (init_served o).
Proof. repeat split; simpl; try lia; try discriminate; auto. Qed.

Lemma good_step cap s l t : Good s -> step cap s l t -> Good t.
Proof.
  intros [G1 [G2 G3]] H. inv_step H; unfold Good; simpl;
    repeat split; intros; try discriminate; try lia; try tauto;
    try (destruct r; simpl in *; lia);
    try (apply G3; assumption); try (apply G3 in H; assumption);
    try (exfalso; apply G3 in H; congruence).
Qed.

Lemma good_reach cap s0 s : Good s0 -> reach cap s0 s -> Good s.
Proof. intros G R. induction R; [auto | eapply good_step; eauto]. Qed.

(* monotone facts *)
Lemma own_const cap s l t : step cap s l t -> own t = own s.
Proof. intro H; inv_step H; reflexivity. Qed.

Lemma client_no_monitor cap o s : reach cap (init_client o) s -> mon s = MNone /\ own s = o.
Proof.
  induction 1 as [|s l t R [IH1 IH2] St]; [simpl; auto|].
  inv_step St; try discriminate; auto.
Qed.

(* an owned socket is closed by Close: client session / listener *)
Lemma client_close_inv cap s :
  reach cap (init_client true) s -> mon s = MNone /\ own s = true /\ (die s = true -> sock s = true).
Proof.
  induction 1 as [|s l t R [IH1 [IH2 IH3]] St]; [simpl; repeat split; auto; discriminate|].
  inv_step St; try discriminate; repeat split; auto; intros; try discriminate;
    try (apply IH3; auto; fail); try (subst; apply orb_true_r); try (rewrite IH3; auto).
Qed.

Lemma client_close_closes_socket cap s :
  reach cap (init_client true) s -> die s = true -> sock s = true.
Proof. intros R. apply (client_close_inv _ _ R). Qed.

Lemma listener_close_inv cap s :
  reach cap (init_served true) s -> own s = true /\ (ldie s = true -> sock s = true).
Proof.
  induction 1 as [|s l t R [IH1 IH2] St]; [simpl; split; auto; discriminate|].
  inv_step St; split; auto; intros; try discriminate; try (apply IH2; auto; fail);
    try (subst; apply orb_true_r); try (rewrite IH2; auto).
Qed.

Lemma listener_close_closes_socket cap s :
  reach cap (init_served true) s -> ldie s = true -> sock s = true.
Proof. intros R. apply (listener_close_inv _ _ R). Qed.

(* ------------------------------------------------------------------ postProcess *)
Lemma pp_sel_exits cap : forall n so ld pe r rl m w o,
  exists t, star cap is_pp (mkS true so ld n PPSel pe r rl m w o) t /\ pp t = PPDone /\ q t = 0.
Proof.
  induction n as [|n IH]; intros.
  - eexists. split.
    { eapply star_step; [apply s_pp_die_exit | reflexivity | apply star_refl]. }
    split; reflexivity.
  - destruct (IH so ld pe r rl m w o) as [t [St Ht]]. exists t. split; [| exact Ht].
    eapply star_step; [apply s_pp_consume | reflexivity | exact St].
Qed.

Lemma postprocess_exits cap s0 s :
  Good s0 -> reach cap s0 s -> die s = true -> (pp s = PPSel \/ pp s = PPBlk) ->
  exists t, star cap is_pp s t /\ pp t = PPDone /\ q t = 0.
Proof.
  intros G0 R Hd Hp. pose proof (good_reach _ _ _ G0 R) as [G1 _].
  destruct s as [d so ld qq p pe r rl m w o]. simpl in *. subst d.
  destruct Hp as [-> | ->].
  - apply pp_sel_exits.
  - specialize (G1 eq_refl). destruct qq as [|n]; [lia|].
    destruct (pp_sel_exits cap n so ld pe r rl m w o) as [t [St Ht]]. exists t. split; [| exact Ht].
    eapply star_step; [apply s_pp_consume_blk | reflexivity | exact St].
Qed.

(* once it has returned it stays returned, and nothing restarts it *)
Lemma postprocess_done_stable cap s l t : step cap s l t -> pp s = PPDone -> pp t = PPDone.
Proof. intro H; inv_step H; intros; auto; discriminate. Qed.

(* ------------------------------------------------------------------ update *)
Lemma update_drains cap s0 s :
  Good s0 -> reach cap s0 s -> die s = true ->
  exists t, star cap is_upd s t /\ pend t = 0 /\ run t = false /\ die t = true /\ pp t = pp s.
Proof.
  intros G0 R Hd. pose proof (good_reach _ _ _ G0 R) as [_ [G2 _]].
  destruct s as [d so ld qq p pe r rl m w o]. simpl in *. subst d.
  destruct r; simpl in G2.
  - assert (pe = 0) by lia. subst. eexists. split.
    { eapply star_step; [apply s_u_resubmit | reflexivity |].
      eapply star_step; [apply s_u_fire_dead | reflexivity | apply star_refl]. }
    repeat split; reflexivity.
  - destruct pe as [|pe].
    + eexists. split; [apply star_refl | repeat split; reflexivity].
    + assert (pe = 0) by lia. subst. eexists. split.
      { eapply star_step; [apply s_u_fire_dead | reflexivity | apply star_refl]. }
      repeat split; reflexivity.
Qed.

(* with die closed a firing callback is a no-op: it does not flush and does not re-submit *)
Lemma update_fire_dead_only cap s l t :
  step cap s l t -> die s = true -> is_upd l = true ->
  (l = U_fire_dead /\ S (pend t) = pend s /\ run t = run s) \/ (l = U_resubmit /\ run s = true).
Proof. intro H; inv_step H; intros; try discriminate; auto. Qed.

(* ... and once drained nothing ever re-arms it *)
Lemma update_stopped_stable cap s l t :
  step cap s l t -> die s = true -> pp s <> PPNone -> pend s = 0 -> run s = false ->
  die t = true /\ pp t <> PPNone /\ pend t = 0 /\ run t = false.
Proof. intro H; inv_step H; intros; repeat split; auto; try discriminate; try congruence. Qed.

(* ------------------------------------------------------------------ readLoop / monitor *)
Lemma readloop_exits cap s :
  die s = true -> sock s = true -> (rl s = RLRead \/ rl s = RLGot \/ rl s = RLIn) ->
  exists t, star cap is_rl s t /\ rl t = RLDone.
Proof.
  destruct s as [d so ld qq p pe r rl m w o]. simpl. intros -> -> [-> | [-> | ->]].
  - eexists. split; [eapply star_step; [apply s_rl_err | reflexivity | apply star_refl] | reflexivity].
  - eexists. split; [eapply star_step; [apply s_rl_closed | reflexivity | apply star_refl] | reflexivity].
  - eexists. split.
    { eapply star_step; [apply s_rl_input_done | reflexivity |].
      eapply star_step; [apply s_rl_err | reflexivity | apply star_refl]. }
    reflexivity.
Qed.

(* the first packet after Close also ends it, whatever the socket *)
Lemma readloop_exits_on_packet cap s :
  die s = true -> rl s = RLGot -> exists t, step cap s RL_closed t /\ rl t = RLDone.
Proof.
  destruct s as [d so ld qq p pe r rl m w o]. simpl. intros -> ->.
  eexists. split; [apply s_rl_closed | reflexivity].
Qed.

(* without "transport closed" a readLoop of a closed session can stay blocked: no library
   step is enabled for it (this is why the theorem carries the hypothesis) *)
Lemma readloop_blocked_without_transport cap s l t :
  rl s = RLRead -> sock s = false -> step cap s l t -> is_rl l = false.
Proof. intros Hr Hs H; inv_step H; auto; discriminate. Qed.

Lemma monitor_exits cap s0 s :
  Good s0 -> reach cap s0 s -> sock s = true -> (mon s = MRead \/ mon s = MGot) ->
  exists t, star cap is_mon s t /\ mon t = MDone.
Proof.
  intros G0 R Hs Hm. pose proof (good_reach _ _ _ G0 R) as [_ [_ G3]].
  destruct s as [d so ld qq p pe r rl m w o]. simpl in *. subst so.
  destruct Hm as [-> | ->].
  - eexists. split; [eapply star_step; [apply s_m_err | reflexivity | apply star_refl] | reflexivity].
  - destruct w.
    + assert (p = PPNone) by (apply G3; auto). subst p.
      eexists. split.
      { eapply star_step; [apply s_m_dispatch_new | reflexivity |].
        eapply star_step; [apply s_m_err | reflexivity | apply star_refl]. }
      reflexivity.
    + eexists. split.
      { eapply star_step; [apply s_m_dispatch_old; discriminate | reflexivity |].
        eapply star_step; [apply s_m_err | reflexivity | apply star_refl]. }
      reflexivity.
    + eexists. split.
      { eapply star_step; [apply s_m_dispatch_old; discriminate | reflexivity |].
        eapply star_step; [apply s_m_err | reflexivity | apply star_refl]. }
      reflexivity.
Qed.

(* ------------------------------------------------------------------ F14: the backlog leak *)
(* connect, do not accept, close the listener (which owns and closes the socket); the monitor exits *)
Definition leak_state : gst := mkS false true true 0 PPSel 1 false RLNone MDone WBacklog true.

Lemma leak_reachable cap : reach cap (init_served true) leak_state.
Proof.
  eapply reach_step; [eapply reach_step; [eapply reach_step; [eapply reach_step; [apply reach_init|] |] |] |].
  - apply s_packet_mon.
  - apply s_m_dispatch_new.
  - apply s_close_listener. discriminate.
  - simpl. apply s_m_err.
Qed.

Definition Leaked (s : gst) : Prop :=
  die s = false /\ pp s = PPSel /\ wh s = WBacklog /\ mon s = MDone /\ pend s + b2n (run s) = 1.

Lemma leaked_step cap s l t : Leaked s -> step cap s l t -> not_accept l = true -> Leaked t.
Proof.
  intros [L1 [L2 [L3 [L4 L5]]]] H NA. inv_step H; unfold Leaked; simpl;
    try discriminate; repeat split; auto; try lia; try (destruct r; simpl in *; lia).
Qed.

Lemma leaked_forever cap s t : Leaked s -> star cap not_accept s t -> Leaked t.
Proof. intros L St. induction St; [auto | apply IHSt; eapply leaked_step; eauto]. Qed.

(* second half: with a socket the listener does not own, the monitor keeps creating sessions
   after Listener.Close *)
Definition closed_listening : gst := mkS false false true 0 PPNone 0 false RLNone MGot WNone false.

Lemma dispatch_after_close cap :
  reach cap (init_served false) closed_listening /\ ldie closed_listening = true /\
  exists t, step cap closed_listening M_dispatch_new t /\ wh t = WBacklog /\ pp t = PPSel /\ pend t = 1.
Proof.
  split; [| split; [reflexivity|]].
  - eapply reach_step; [eapply reach_step; [apply reach_init|] |].
    + apply s_close_listener. discriminate.
    + simpl. apply s_packet_mon.
  - eexists. split; [apply s_m_dispatch_new | repeat split].
Qed.

(* ------------------------------------------------------------------ the statements of C15.v *)
Definition is_start (s0 : gst) : Prop :=
  s0 = init_client true \/ s0 = init_client false \/ s0 = init_served true \/ s0 = init_served false.

Lemma good_start s0 : is_start s0 -> Good s0.
Proof. intros [-> | [-> | [-> | ->]]]; (apply good_client || apply good_served). Qed.

Lemma star_weaken cap (f g : lab -> bool) s t :
  (forall l, f l = true -> g l = true) -> star cap f s t -> star cap g s t.
Proof. intros W St. induction St; [apply star_refl | eapply star_step; eauto]. Qed.

Lemma thm_postprocess_exits :
  forall cap s0 s, is_start s0 ->
  reach cap s0 s -> die s = true -> (pp s = PPSel \/ pp s = PPBlk) ->
  exists t, star cap is_pp s t /\ pp t = PPDone /\ q t = 0.
Proof. intros cap s0 s H. apply postprocess_exits. apply good_start; auto. Qed.

Lemma thm_update_stops :
  forall cap s0 s, is_start s0 ->
  reach cap s0 s ->
  pend s + b2n (run s) <= 1 /\
  (die s = true ->
     (forall l t, step cap s l t -> is_upd l = true ->
        (l = U_fire_dead /\ S (pend t) = pend s /\ run t = run s) \/ (l = U_resubmit /\ run s = true)) /\
     (exists t, star cap is_upd s t /\ pend t = 0 /\ run t = false /\ die t = true /\ pp t = pp s)) /\
  (die s = true -> pp s <> PPNone -> pend s = 0 -> run s = false ->
     forall l t, step cap s l t -> die t = true /\ pp t <> PPNone /\ pend t = 0 /\ run t = false).
Proof.
  intros cap s0 s H R. pose proof (good_start _ H) as G0.
  split; [exact (proj1 (proj2 (good_reach _ _ _ G0 R))) | split].
  - intro Hd. split.
    + intros l t St Hu. eapply update_fire_dead_only; eauto.
    + eapply update_drains; eauto.
  - intros Hd Hp Hq Hr l t St. eapply update_stopped_stable; eauto.
Qed.

Lemma thm_readloop_exits :
  forall cap,
  (forall s, die s = true -> sock s = true -> (rl s = RLRead \/ rl s = RLGot \/ rl s = RLIn) ->
     exists t, star cap is_rl s t /\ rl t = RLDone) /\
  (forall s, die s = true -> rl s = RLGot -> exists t, step cap s RL_closed t /\ rl t = RLDone) /\
  (forall s, reach cap (init_client true) s -> die s = true -> sock s = true) /\
  (forall s, reach cap (init_served true) s -> ldie s = true -> sock s = true) /\
  (forall o s, reach cap (init_served o) s -> sock s = true -> (mon s = MRead \/ mon s = MGot) ->
     exists t, star cap is_mon s t /\ mon t = MDone).
Proof.
  intro cap. split; [| split; [| split; [| split]]].
  - apply readloop_exits.
  - apply readloop_exits_on_packet.
  - apply client_close_closes_socket.
  - apply listener_close_closes_socket.
  - intros o s R. eapply monitor_exits; [apply good_served | exact R].
Qed.

Definition all_exit_full : Prop :=
  forall cap o s, reach cap (init_served o) s -> ldie s = true -> sock s = true ->
    (wh s = WHeld -> die s = true) ->
    exists t, star cap (fun l => negb (is_env l)) s t /\
              (pp t = PPDone \/ pp t = PPNone) /\ pend t = 0 /\ run t = false /\ mon t = MDone.

Lemma thm_backlog_leak_refuted :
  (exists s, (forall cap, reach cap (init_served true) s) /\
     ldie s = true /\ sock s = true /\ mon s = MDone /\ wh s = WBacklog /\
     forall cap t, star cap not_accept s t ->
       die t = false /\ pp t = PPSel /\ wh t = WBacklog /\ pend t + b2n (run t) = 1) /\
  (exists s, (forall cap, reach cap (init_served false) s) /\ ldie s = true /\
     forall cap, exists t, step cap s M_dispatch_new t /\ wh t = WBacklog /\ pp t = PPSel /\ pend t = 1) /\
  ~ all_exit_full.
Proof.
  assert (L0 : Leaked leak_state) by (repeat split; reflexivity).
  split; [| split].
  - exists leak_state. split; [intro; apply leak_reachable|].
    split; [reflexivity|]. split; [reflexivity|]. split; [reflexivity|]. split; [reflexivity|].
    intros cap t St. destruct (leaked_forever cap _ _ L0 St) as [L1 [L2 [L3 [_ L5]]]]. auto.
  - exists closed_listening. split; [intro; apply (proj1 (dispatch_after_close cap))|].
    split; [reflexivity|]. intro cap. apply (proj2 (proj2 (dispatch_after_close cap))).
  - intro F. destruct (F 1 true leak_state (leak_reachable 1) eq_refl eq_refl) as [t [St [Hp _]]].
    { simpl. discriminate. }
    assert (St' : star 1 not_accept leak_state t).
    { eapply star_weaken; [| exact St]. intros l; destruct l; simpl; auto. }
    destruct (leaked_forever 1 _ _ L0 St') as [_ [L2 _]]. rewrite L2 in Hp. destruct Hp; discriminate.
Qed.

Lemma ex_exit :
  let s := mkS true true false 2 PPSel 1 false RLRead MNone WHeld true in
  reach 8 (init_client true) s /\
  star 8 (fun l => negb (is_env l)) s (mkS true true false 0 PPDone 0 false RLDone MNone WHeld true).
Proof.
  split.
  - eapply reach_step; [eapply reach_step; [eapply reach_step; [apply reach_init|] |] |].
    + apply s_enqueue_ok; [discriminate | repeat constructor].
    + apply s_enqueue_ok; [discriminate | repeat constructor].
    + apply (s_close_sess 8 false false false 2 PPSel 1 false RLRead MNone true).
  - eapply star_step; [apply s_pp_die_more | reflexivity |].
    eapply star_step; [apply s_pp_consume_blk | reflexivity |].
    eapply star_step; [apply s_pp_consume | reflexivity |].
    eapply star_step; [apply s_pp_die_exit | reflexivity |].
    eapply star_step; [apply s_u_fire_dead | reflexivity |].
    eapply star_step; [apply s_rl_err | reflexivity |].
    apply star_refl.
Qed.
