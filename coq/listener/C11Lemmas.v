(* Restatements of two lemmas of ListenerProofs.v in the vocabulary of the model file only
   (used by the statement file C11.v). *)
From Coq Require Import ZArith List Bool Lia.
From KV.Base Require Import Consts Word.
From KV.Listener Require Import Listener TableLemmas ListenerProofs.
Import ListNotations.
Local Open Scope Z_scope.

Section C11Lemmas.
  Context {addr : Type} (addr_eqb : addr -> addr -> bool).
  Hypothesis addr_eqb_spec : forall a b, addr_eqb a b = true <-> a = b.
  Context {sess : Type}
          (sess_new : Z -> addr -> sess)
          (sess_input : sess -> bytes -> sess)
          (sess_conv : sess -> Z).
  Context (gate_ok : bytes -> option bytes).

  Notation listener := (@listener addr sess).
  Notation step := (step addr_eqb sess_new sess_input sess_conv gate_ok).
  Notation run := (run addr_eqb sess_new sess_input sess_conv gate_ok).
  Notation wants_session := (wants_session addr_eqb sess_conv gate_ok).

  Lemma removal_ex : forall (l : listener) ev a e,
      inv l -> lookup addr_eqb a (sessions l) = Some e ->
      (exists e', lookup addr_eqb a (sessions (step l ev)) = Some e' /\ e_id e' = e_id e) \/
      ev = EvCloseEnd (e_id e) \/
      (exists raw conv data, ev = EvPacket raw a /\ wants_session l raw a = Some (conv, data)).
  Proof.
    intros l ev a e Hi He.
    destruct (removal_only_by_own_close_or_reset addr_eqb addr_eqb_spec sess_new sess_input sess_conv gate_ok l ev a e Hi He) as [H|[H|H]]; auto.
    left. destruct (lookup addr_eqb a (sessions (step l ev))) as [e'|]; simpl in H; try contradiction.
    exists e'. auto.
  Qed.

  Lemma live_ex : forall evs (l : listener) a e,
      inv l -> lookup addr_eqb a (sessions l) = Some e ->
      ~ In (EvCloseEnd (e_id e)) evs ->
      (forall pre raw post, evs = pre ++ EvPacket raw a :: post -> wants_session (run l pre) raw a = None) ->
      exists e', lookup addr_eqb a (sessions (run l evs)) = Some e' /\ e_id e' = e_id e.
  Proof.
    intros evs l a e Hi He Hc Hr.
    pose proof (live_session_stays_reachable addr_eqb addr_eqb_spec sess_new sess_input sess_conv gate_ok evs l a e Hi He Hc Hr) as H.
    destruct (lookup addr_eqb a (sessions (run l evs))) as [e'|]; simpl in H; try contradiction.
    exists e'. auto.
  Qed.

  Lemma inv_meaning : forall (l : listener), inv l ->
      NoDup (map fst (sessions l)) /\
      Z.of_nat (length (accepts l)) <= c_acceptBacklog /\
      NoDup (map (fun x => e_id (snd x)) (sessions l)) /\
      NoDup (map snd (accepts l)) /\
      (forall a e, In (a, e) (sessions l) -> 0 <= e_id e < next_id l) /\
      (forall a i, In (a, i) (accepts l) -> 0 <= i < next_id l) /\
      (forall a i b e, In (a, i) (accepts l) -> In (b, e) (sessions l) -> e_id e = i -> a = b).
  Proof.
    intros l [H1 H2 H3 H4 H5 H6 H7 H8]. repeat split; auto.
    - apply (H4 (e_id e)). apply In_tids. exists a, e. auto.
    - apply (H4 (e_id e)). apply In_tids. exists a, e. auto.
    - apply (H5 i). apply in_map_iff. exists (a, i). auto.
    - apply (H5 i). apply in_map_iff. exists (a, i). auto.
  Qed.
End C11Lemmas.
