(* Proofs about the listener model (property C11). *)
From Coq Require Import ZArith List Bool Lia.
From KV.Base Require Import Consts Word.
From KV.Listener Require Import Listener TableLemmas.
Import ListNotations.
Local Open Scope Z_scope.

Section Proofs.
  Context {addr : Type} (addr_eqb : addr -> addr -> bool).
  Hypothesis addr_eqb_spec : forall a b, addr_eqb a b = true <-> a = b.
  Context {sess : Type}
          (sess_new : Z -> addr -> sess)
          (sess_input : sess -> bytes -> sess)
          (sess_conv : sess -> Z).
  Context (gate_ok : bytes -> option bytes).

  Notation listener := (@listener addr sess).
  Notation entry := (@entry sess).
  Notation lookup := (lookup addr_eqb).
  Notation others := (@others addr entry addr_eqb).
  Notation l_packet_input := (l_packet_input addr_eqb sess_new sess_input sess_conv gate_ok).
  Notation create := (create addr_eqb sess_new sess_input).
  Notation feed := (feed addr_eqb sess_input).
  Notation close_at := (close_at addr_eqb).
  Notation reset_close := (reset_close addr_eqb).
  Notation l_close_begin := (l_close_begin addr_eqb).
  Notation l_close_end := (l_close_end addr_eqb).
  Notation wants_session := (wants_session addr_eqb sess_conv gate_ok).
  Notation creation_event := (creation_event addr_eqb sess_conv gate_ok).
  Notation step := (step addr_eqb sess_new sess_input sess_conv gate_ok).
  Notation run := (run addr_eqb sess_new sess_input sess_conv gate_ok).
  Notation new_accepts := (new_accepts addr_eqb sess_new sess_input sess_conv gate_ok).
  Notation created_log := (created_log addr_eqb sess_new sess_input sess_conv gate_ok).
  Notation dequeued_log := (dequeued_log addr_eqb sess_new sess_input sess_conv gate_ok).
  Notation creation_events_at := (creation_events_at addr_eqb sess_new sess_input sess_conv gate_ok).
  Notation count_at := (count_at addr_eqb).
  Notation fed_by := (fed_by addr_eqb gate_ok).
  Notation fed_seq := (fed_seq addr_eqb gate_ok).
  Notation l_close_session := (l_close_session addr_eqb).

  Let eqb_refl := eqb_refl addr_eqb addr_eqb_spec.
  Let eqb_neq := eqb_neq addr_eqb addr_eqb_spec.

  (* ---------------------------------------------------------------------------------- *)
  (* One equation for packetInput: what it does, in the property's vocabulary.           *)

  (* the datagram is dispatched to the session living at a *)
  Definition fed_to (l : listener) (raw : bytes) (a : addr) : option (entry * bytes) :=
    match gate_ok raw with
    | None => None
    | Some data =>
      if too_short data then None
      else match lookup a (sessions l) with
           | None => None
           | Some e => if for_conv (sess_conv (e_sess e)) data then Some (e, data) else None
           end
    end.

  Lemma remove_absent : forall a (t : list (addr * entry)),
      lookup a t = None -> remove_key addr_eqb a t = t.
  Proof.
    induction t as [|[k v] r IH]; simpl; auto.
    destruct (addr_eqb a k); try discriminate. intro H. rewrite IH; auto.
  Qed.

  Lemma close_at_absent : forall (l : listener) a, lookup a (sessions l) = None -> close_at l a = l.
  Proof.
    intros [t q n c] a H. unfold Listener.close_at. simpl in *. rewrite remove_absent; auto.
  Qed.

  (* s.Close() of whatever lives under a, as called by packetInput *)
  Definition reset_at (l : listener) (a : addr) : listener :=
    match lookup a (sessions l) with
    | Some e => reset_close l a e
    | None => l
    end.

  Lemma packet_input_spec : forall (l : listener) raw a,
      l_packet_input l raw a =
      match wants_session l raw a with
      | Some (conv, data) => create (reset_at l a) conv data a
      | None => match fed_to l raw a with
                | Some (e, data) => feed l a e data
                | None => l
                end
      end.
  Proof.
    intros l raw a. unfold Listener.l_packet_input, Listener.wants_session, fed_to, for_conv, reset_at.
    destruct (gate_ok raw) as [data|]; auto.
    destruct (too_short data); auto.
    destruct (parse_conv data) as [| |conv sn].
    - destruct (lookup a (sessions l)); auto.
    - destruct (lookup a (sessions l)); auto.
    - destruct (lookup a (sessions l)) as [e|] eqn:E; auto.
      destruct (conv =? sess_conv (e_sess e)); simpl; auto.
      destruct (sn =? 0); simpl; auto.
  Qed.

  Lemma wants_fed_exclusive : forall (l : listener) raw a p,
      wants_session l raw a = Some p -> fed_to l raw a = None.
  Proof.
    intros l raw a p. unfold Listener.wants_session, fed_to, for_conv.
    destruct (gate_ok raw) as [data|]; auto.
    destruct (too_short data); auto.
    destruct (parse_conv data) as [| |conv sn]; try discriminate.
    destruct (lookup a (sessions l)) as [e|]; auto.
    destruct (conv =? sess_conv (e_sess e)); simpl; auto. discriminate.
  Qed.

  Lemma backlog_full_reset_at : forall (l : listener) a, no_room (reset_at l a) = no_room l.
  Proof.
    intros. unfold reset_at, Listener.reset_close. destruct (lookup a (sessions l)); auto.
    destruct (e_dead e); auto.
  Qed.

  Lemma reset_at_fields : forall (l : listener) a,
      accepts (reset_at l a) = accepts l /\ next_id (reset_at l a) = next_id l /\
      closed (reset_at l a) = closed l /\ pending (reset_at l a) = pending l.
  Proof.
    intros. unfold reset_at, Listener.reset_close. destruct (lookup a (sessions l)); auto.
    destruct (e_dead e); auto.
  Qed.

  Lemma reset_at_sessions : forall (l : listener) a,
      sessions (reset_at l a) = sessions l \/
      sessions (reset_at l a) = remove_key addr_eqb a (sessions l).
  Proof.
    intros. unfold reset_at, Listener.reset_close. destruct (lookup a (sessions l)); auto.
    destruct (e_dead e); auto.
  Qed.

  (* ---------------------------------------------------------------------------------- *)
  (* Frame.                                                                              *)

  Lemma others_reset_at : forall (l : listener) a, others a (sessions (reset_at l a)) = others a (sessions l).
  Proof.
    intros. destruct (reset_at_sessions l a) as [H|H]; rewrite H; auto. apply others_remove.
  Qed.

  Lemma sessions_create : forall (l : listener) conv data a,
      no_room l = false ->
      sessions (create l conv data a) =
      set_key addr_eqb a (mkE (next_id l) false (sess_input (sess_new conv a) data)) (sessions l).
  Proof. intros. unfold Listener.create. rewrite H. auto. Qed.

  Lemma frame_others : forall (l : listener) raw a,
      others a (sessions (l_packet_input l raw a)) = others a (sessions l).
  Proof.
    intros. rewrite packet_input_spec.
    destruct (wants_session l raw a) as [[conv data]|].
    - destruct (no_room l) eqn:Hb.
      + unfold Listener.create. rewrite backlog_full_reset_at, Hb. apply others_reset_at.
      + rewrite sessions_create by (rewrite backlog_full_reset_at; auto).
        rewrite (others_set addr_eqb addr_eqb_spec). apply others_reset_at.
    - destruct (fed_to l raw a) as [[e data]|]; auto. simpl. apply others_replace.
  Qed.

  Lemma frame_lookup : forall (l : listener) raw a b, b <> a ->
      lookup b (sessions (l_packet_input l raw a)) = lookup b (sessions l).
  Proof.
    intros. eapply (others_lookup addr_eqb addr_eqb_spec); eauto. apply frame_others.
  Qed.

  Lemma frame_closed : forall (l : listener) raw a,
      closed (l_packet_input l raw a) = closed l /\ pending (l_packet_input l raw a) = pending l.
  Proof.
    intros. rewrite packet_input_spec.
    destruct (wants_session l raw a) as [[conv data]|].
    - unfold Listener.create. destruct (reset_at_fields l a) as [_ [_ [H1 H2]]].
      destruct (no_room (reset_at l a)); auto.
    - destruct (fed_to l raw a) as [[e data]|]; auto.
  Qed.

  (* the accept queue and the id counter *)
  Lemma step_accepts : forall (l : listener) raw a,
      accepts (l_packet_input l raw a) =
      accepts l ++ (if creation_event l raw a then [(a, next_id l)] else []) /\
      next_id (l_packet_input l raw a) = next_id l + (if creation_event l raw a then 1 else 0).
  Proof.
    intros. rewrite packet_input_spec. unfold Listener.creation_event.
    destruct (wants_session l raw a) as [[conv data]|].
    - unfold Listener.create. rewrite backlog_full_reset_at.
      destruct (reset_at_fields l a) as [H1 [H2 _]].
      destruct (no_room l); simpl; rewrite ?app_nil_r, ?H1, ?H2; split; auto; lia.
    - destruct (fed_to l raw a) as [[e data]|]; simpl; rewrite app_nil_r; split; auto; lia.
  Qed.

  (* a creation event installs, under a, the fresh session fed with the creating datagram *)
  Lemma creation_installs : forall (l : listener) raw a conv data,
      wants_session l raw a = Some (conv, data) -> no_room l = false ->
      lookup a (sessions (l_packet_input l raw a)) =
      Some (mkE (next_id l) false (sess_input (sess_new conv a) data)).
  Proof.
    intros l raw a conv data H Hb. rewrite packet_input_spec, H.
    rewrite sessions_create by (rewrite backlog_full_reset_at; auto).
    destruct (reset_at_fields l a) as [_ [H2 _]]. rewrite H2.
    apply (lookup_set_same addr_eqb addr_eqb_spec).
  Qed.

  Theorem frame : forall (l : listener) raw a,
      let l' := l_packet_input l raw a in
      others a (sessions l') = others a (sessions l) /\
      (forall b, b <> a -> lookup b (sessions l') = lookup b (sessions l)) /\
      closed l' = closed l /\ pending l' = pending l /\
      ((accepts l' = accepts l /\ next_id l' = next_id l) \/
       (exists conv data,
           accepts l' = accepts l ++ [(a, next_id l)] /\ next_id l' = next_id l + 1 /\
           lookup a (sessions l') = Some (mkE (next_id l) false (sess_input (sess_new conv a) data)))).
  Proof.
    intros l raw a l'. subst l'. split; [apply frame_others|].
    split; [intros; apply frame_lookup; auto|].
    destruct (frame_closed l raw a) as [Hc Hp]. split; auto. split; auto.
    destruct (step_accepts l raw a) as [Ha Hn].
    destruct (creation_event l raw a) eqn:E.
    - right. unfold Listener.creation_event in E.
      destruct (wants_session l raw a) as [[conv data]|] eqn:W; try discriminate.
      exists conv, data. split; [auto|]. split; [lia|].
      apply creation_installs; auto. destruct (no_room l); auto; discriminate.
    - left. rewrite app_nil_r in Ha. split; auto; lia.
  Qed.

  (* ---------------------------------------------------------------------------------- *)
  (* The invariant.                                                                      *)

  Definition tids (l : listener) : list Z := map (fun x => e_id (snd x)) (sessions l).
  Definition qids (l : listener) : list Z := map snd (accepts l).

  Record inv (l : listener) : Prop := mkInv {
    inv_keys : NoDup (map fst (sessions l));
    inv_backlog : Z.of_nat (length (accepts l)) <= c_acceptBacklog;
    inv_next : 0 <= next_id l;
    inv_tids : forall i, In i (tids l) -> 0 <= i < next_id l;
    inv_qids : forall i, In i (qids l) -> 0 <= i < next_id l;
    inv_tnodup : NoDup (tids l);
    inv_qnodup : NoDup (qids l);
    (* a queued session that is still in the table sits under its own remote address *)
    inv_qaddr : forall a i b e, In (a, i) (accepts l) -> In (b, e) (sessions l) -> e_id e = i -> a = b
  }.

  Lemma inv_empty : inv l_empty.
  Proof.
    constructor; simpl; try constructor; try (intros; contradiction); try lia.
    unfold c_acceptBacklog. lia.
  Qed.

  Lemma In_tids : forall (l : listener) i, In i (tids l) <-> exists a e, In (a, e) (sessions l) /\ e_id e = i.
  Proof.
    intros. unfold tids. rewrite in_map_iff. split.
    - intros [[a e] [H1 H2]]. exists a, e. auto.
    - intros [a [e [H1 H2]]]. exists (a, e). auto.
  Qed.

  Lemma NoDup_map_filter : forall (A B : Type) (f : A -> B) (p : A -> bool) (l : list A),
      NoDup (map f l) -> NoDup (map f (filter p l)).
  Proof.
    induction l as [|x r IH]; simpl; intros H; auto.
    inversion H; subst. destruct (p x); simpl; auto.
    constructor; auto. intro Hin. apply H2. apply in_map_iff in Hin.
    destruct Hin as [y [Hy1 Hy2]]. apply filter_In in Hy2. apply in_map_iff. exists y. tauto.
  Qed.

  Lemma inv_close_at : forall (l : listener) a, inv l -> inv (close_at l a).
  Proof.
    intros l a [H1 H2 H3 H4 H5 H6 H7 H8].
    assert (Hsub : forall x, In x (sessions (close_at l a)) -> In x (sessions l)).
    { simpl. intros x. rewrite remove_is_others. intro H. apply (In_others addr_eqb addr_eqb_spec) in H. tauto. }
    constructor; simpl; auto.
    - rewrite remove_is_others. apply NoDup_others; auto.
    - intros i Hi. apply H4. apply In_tids in Hi. destruct Hi as [b [e [Hi1 Hi2]]].
      apply In_tids. exists b, e. split; auto.
    - unfold tids. simpl. rewrite remove_is_others. unfold TableLemmas.others.
      apply NoDup_map_filter. exact H6.
    - intros b i c e Hq Ht. apply H8; auto.
  Qed.

  Lemma inv_reset_at : forall (l : listener) a, inv l -> inv (reset_at l a).
  Proof.
    intros l a Hi. unfold reset_at, Listener.reset_close.
    destruct (lookup a (sessions l)); auto. destruct (e_dead e); auto. apply inv_close_at. auto.
  Qed.

  (* replacing the object under a by one with the same identity *)
  Lemma tids_replace : forall a (e e' : entry) (t : list (addr * entry)),
      lookup a t = Some e -> e_id e' = e_id e ->
      map (fun x => e_id (snd x)) (replace_key addr_eqb a e' t) = map (fun x => e_id (snd x)) t.
  Proof.
    induction t as [|[k v] r IH]; simpl; intros He Hid; auto.
    destruct (addr_eqb a k) eqn:E; simpl.
    - inversion He; subst. rewrite Hid. auto.
    - rewrite IH; auto.
  Qed.

  Lemma inv_replace : forall (l : listener) a e e' p,
      inv l -> lookup a (sessions l) = Some e -> e_id e' = e_id e ->
      inv (mkL (replace_key addr_eqb a e' (sessions l)) (accepts l) (next_id l) (closed l) p).
  Proof.
    intros l a e e' p [H1 H2 H3 H4 H5 H6 H7 H8] He Hid.
    assert (Hin : In (a, e) (sessions l)) by (apply (lookup_In addr_eqb addr_eqb_spec); auto).
    assert (Htid : tids (mkL (replace_key addr_eqb a e' (sessions l)) (accepts l) (next_id l) (closed l) p) = tids l).
    { unfold tids. simpl. eapply tids_replace; eauto. }
    constructor; simpl; auto.
    - rewrite map_fst_replace. auto.
    - rewrite Htid. auto.
    - rewrite Htid. auto.
    - intros b i c x Hq Ht Hx. apply (In_replace addr_eqb addr_eqb_spec) in Ht. destruct Ht as [Ht|Ht].
      + eapply H8; eauto.
      + inversion Ht; subst. eapply H8; eauto.
  Qed.

  Lemma inv_feed : forall (l : listener) a e data,
      inv l -> lookup a (sessions l) = Some e -> inv (feed l a e data).
  Proof. intros. unfold Listener.feed. eapply inv_replace; eauto. Qed.

  Lemma inv_set_pending : forall (l : listener) p,
      inv l -> inv (mkL (sessions l) (accepts l) (next_id l) (closed l) p).
  Proof. intros l p [H1 H2 H3 H4 H5 H6 H7 H8]. constructor; auto. Qed.

  Lemma inv_create : forall (l : listener) conv data a, inv l -> inv (create l conv data a).
  Proof.
    intros l conv data a Hi. unfold Listener.create.
    destruct (no_room l) eqn:Hb; auto.
    destruct Hi as [H1 H2 H3 H4 H5 H6 H7 H8].
    unfold Listener.no_room in Hb. apply orb_false_iff in Hb. destruct Hb as [_ Hb].
    unfold Listener.backlog_full in Hb. apply Z.leb_gt in Hb.
    assert (Hnew_t : ~ In (next_id l) (tids l)) by (intro H; apply H4 in H; lia).
    assert (Hnew_q : ~ In (next_id l) (qids l)) by (intro H; apply H5 in H; lia).
    set (ne := mkE (next_id l) false (sess_input (sess_new conv a) data)).
    assert (Htids : forall i, In i (tids (mkL (set_key addr_eqb a ne (sessions l)) (accepts l ++ [(a, next_id l)]) (next_id l + 1) (closed l) (pending l))) -> In i (tids l) \/ i = next_id l).
    { intros i Hi. apply In_tids in Hi. destruct Hi as [b [e [Hi1 Hi2]]]. simpl in Hi1.
      apply (In_set addr_eqb addr_eqb_spec) in Hi1. destruct Hi1 as [[Hi1 _]|Hi1].
      - left. apply In_tids. exists b, e. auto.
      - inversion Hi1; subst. simpl. auto. }
    constructor; simpl.
    - apply NoDup_set; auto.
    - rewrite app_length. simpl. lia.
    - lia.
    - intros i Hi. apply Htids in Hi. destruct Hi as [Hi|Hi]; [apply H4 in Hi|]; lia.
    - unfold qids. simpl. rewrite map_app. simpl. intros i Hi. apply in_app_iff in Hi.
      destruct Hi as [Hi|[Hi|[]]]; [apply H5 in Hi|]; lia.
    - unfold tids. simpl. unfold set_key. rewrite map_app, remove_is_others. simpl.
      apply NoDup_snoc.
      + unfold TableLemmas.others. apply NoDup_map_filter. exact H6.
      + intro Hin. apply Hnew_t. apply in_map_iff in Hin. destruct Hin as [x [Hx1 Hx2]].
        apply (In_others addr_eqb addr_eqb_spec) in Hx2. apply in_map_iff. exists x. tauto.
    - unfold qids. simpl. rewrite map_app. simpl. apply NoDup_snoc; auto.
    - intros b i c e Hq Ht Hid. apply in_app_iff in Hq.
      apply (In_set addr_eqb addr_eqb_spec) in Ht.
      destruct Hq as [Hq|[Hq|[]]]; destruct Ht as [[Ht _]|Ht].
      + eapply H8; eauto.
      + inversion Ht; subst. simpl in *. exfalso. apply Hnew_q. apply in_map_iff. exists (b, next_id l). auto.
      + inversion Hq; subst. exfalso. apply Hnew_t. apply In_tids. exists c, e. auto.
      + inversion Hq; inversion Ht; subst. auto.
  Qed.

  Lemma fed_to_lookup : forall (l : listener) raw a e data,
      fed_to l raw a = Some (e, data) -> lookup a (sessions l) = Some e.
  Proof.
    intros l raw a e data. unfold fed_to.
    destruct (gate_ok raw); try discriminate. destruct (too_short b); try discriminate.
    destruct (lookup a (sessions l)) as [e'|]; try discriminate.
    destruct (for_conv (sess_conv (e_sess e')) b); intro H; inversion H; subst; auto.
  Qed.

  Lemma inv_packet_input : forall (l : listener) raw a, inv l -> inv (l_packet_input l raw a).
  Proof.
    intros l raw a Hi. rewrite packet_input_spec.
    destruct (wants_session l raw a) as [[conv data]|].
    - apply inv_create. apply inv_reset_at. auto.
    - destruct (fed_to l raw a) as [[e data]|] eqn:F; auto.
      apply inv_feed; auto. eapply fed_to_lookup; eauto.
  Qed.

  Lemma inv_accept : forall (l : listener), inv l -> inv (snd (l_accept l)).
  Proof.
    intros l [H1 H2 H3 H4 H5 H6 H7 H8]. unfold l_accept.
    destruct (accepts l) as [|x r] eqn:E; simpl.
    - constructor; auto; rewrite ?E; auto.
    - unfold qids in *. rewrite E in *. simpl in *. constructor; simpl; auto.
      + lia.
      + inversion H7; auto.
      + intros. eapply H8; eauto.
  Qed.

  Lemma key_of_id_lookup : forall id (t : list (addr * entry)) a e,
      NoDup (map fst t) -> key_of_id id t = Some (a, e) -> lookup a t = Some e /\ e_id e = id.
  Proof.
    induction t as [|[k v] r IH]; simpl; intros a e Hnd H; try discriminate.
    inversion Hnd; subst.
    destruct (e_id v =? id) eqn:E.
    - inversion H; subst. rewrite eqb_refl. apply Z.eqb_eq in E. auto.
    - destruct (IH a e H3 H) as [Hl Hid]. split; auto.
      destruct (addr_eqb a k) eqn:Ea; auto.
      apply addr_eqb_spec in Ea. subst. exfalso. apply H2.
      apply (lookup_In addr_eqb addr_eqb_spec) in Hl. apply in_map_iff. exists (k, e). auto.
  Qed.

  Lemma inv_close_begin : forall (l : listener) id, inv l -> inv (l_close_begin l id).
  Proof.
    intros l id Hi. unfold Listener.l_close_begin.
    destruct (key_of_id id (sessions l)) as [[a e]|] eqn:K; auto.
    destruct (e_dead e); auto.
    apply key_of_id_lookup in K; [|apply (inv_keys l Hi)]. destruct K as [Hl _].
    eapply inv_replace; eauto.
  Qed.

  Lemma inv_close_end : forall (l : listener) id, inv l -> inv (l_close_end l id).
  Proof.
    intros l id Hi. unfold Listener.l_close_end.
    destruct (pending_addr id (pending l)) as [a|]; auto.
    destruct (lookup a (sessions l)) as [e|].
    - destruct (e_id e =? id).
      + apply (inv_set_pending (close_at l a)). apply inv_close_at. auto.
      + apply (inv_set_pending l). auto.
    - apply (inv_set_pending l). auto.
  Qed.

  Lemma inv_backlog_close : forall (l : listener), inv l -> inv (l_backlog_close addr_eqb l).
  Proof.
    intros l Hi. pose proof (inv_accept l Hi) as Ha. unfold Listener.l_backlog_close.
    unfold l_accept in Ha. destruct (accepts l) as [|[a id] r]; auto.
    apply inv_close_begin. exact Ha.
  Qed.

  Lemma inv_step : forall (l : listener) ev, inv l -> inv (step l ev).
  Proof.
    intros l [raw a| |id|id| |] Hi; simpl.
    - apply inv_packet_input; auto.
    - apply inv_accept; auto.
    - apply inv_close_begin; auto.
    - apply inv_close_end; auto.
    - destruct Hi. constructor; auto.
    - apply inv_backlog_close; auto.
  Qed.

  Theorem inv_run : forall evs (l : listener), inv l -> inv (run l evs).
  Proof.
    induction evs as [|ev r IH]; simpl; intros; auto. apply IH. apply inv_step. auto.
  Qed.

  (* ---------------------------------------------------------------------------------- *)
  (* One Accept per creation event.                                                      *)

  Lemma skipn_app_exact : forall (A : Type) (l m : list A), skipn (length l) (l ++ m) = m.
  Proof. induction l; simpl; auto. Qed.

  Lemma new_accepts_spec : forall (l : listener) raw a,
      new_accepts l (EvPacket raw a) = if creation_event l raw a then [(a, next_id l)] else [].
  Proof.
    intros. unfold Listener.new_accepts. destruct (step_accepts l raw a) as [H _].
    rewrite H. apply skipn_app_exact.
  Qed.

  Lemma count_at_app : forall a (x y : list (addr * Z)), count_at a (x ++ y) = (count_at a x + count_at a y)%nat.
  Proof. intros. unfold Listener.count_at. rewrite filter_app, app_length. auto. Qed.

  Theorem one_accept_count : forall evs (l : listener) a,
      count_at a (created_log l evs) = creation_events_at a l evs.
  Proof.
    induction evs as [|ev r IH]; intros l a; simpl; auto.
    rewrite count_at_app, IH. f_equal.
    destruct ev as [raw b| | | | |]; auto.
    rewrite new_accepts_spec. destruct (creation_event l raw b); simpl.
    - unfold Listener.count_at. simpl. destruct (addr_eqb b a); auto.
    - rewrite andb_false_r. auto.
  Qed.

  Lemma reset_at_absent : forall (l : listener) a, lookup a (sessions l) = None -> reset_at l a = l.
  Proof. intros. unfold reset_at. rewrite H. auto. Qed.

  (* a new peer's datagram when the backlog is full (or the listener closed) changes nothing
     at all *)
  Theorem full_backlog_no_state : forall (l : listener) raw a,
      lookup a (sessions l) = None -> no_room l = true -> l_packet_input l raw a = l.
  Proof.
    intros l raw a Hn Hb. rewrite packet_input_spec.
    destruct (wants_session l raw a) as [[conv data]|].
    - rewrite reset_at_absent by auto. unfold Listener.create. rewrite Hb. auto.
    - unfold fed_to. destruct (gate_ok raw); auto. destruct (too_short b); auto. rewrite Hn. auto.
  Qed.

  (* ... and more generally a datagram from an address without a session either creates the
     session or changes nothing *)
  Theorem no_session_no_creation_no_state : forall (l : listener) raw a,
      lookup a (sessions l) = None -> creation_event l raw a = false -> l_packet_input l raw a = l.
  Proof.
    intros l raw a Hn Hc. rewrite packet_input_spec. unfold Listener.creation_event in Hc.
    destruct (wants_session l raw a) as [[conv data]|].
    - rewrite reset_at_absent by auto. unfold Listener.create.
      destruct (no_room l); try discriminate. auto.
    - unfold fed_to. destruct (gate_ok raw); auto. destruct (too_short b); auto. rewrite Hn. auto.
  Qed.

  Lemma accepts_close_begin : forall (l : listener) id, accepts (l_close_begin l id) = accepts l.
  Proof.
    intros. unfold Listener.l_close_begin.
    destruct (key_of_id id (sessions l)) as [[a e]|]; auto. destruct (e_dead e); auto.
  Qed.

  Lemma accept_conservation_step : forall (l : listener) ev,
      dequeued l ev ++ accepts (step l ev) = accepts l ++ new_accepts l ev.
  Proof.
    intros l [raw a| |id|id| |].
    - rewrite new_accepts_spec. destruct (step_accepts l raw a) as [H _]. simpl. exact H.
    - destruct l as [t q n c p]. unfold l_accept. simpl. destruct q; simpl; rewrite ?app_nil_r; auto.
    - simpl. rewrite app_nil_r. apply accepts_close_begin.
    - simpl. rewrite app_nil_r. unfold Listener.l_close_end.
      destruct (pending_addr id (pending l)); auto.
    - simpl. rewrite app_nil_r. auto.
    - destruct l as [t q n c p]. simpl. rewrite app_nil_r. unfold Listener.l_backlog_close. simpl.
      destruct q as [|[a id] r]; auto. simpl. rewrite accepts_close_begin. auto.
  Qed.

  (* every session ever queued leaves the queue - through Accept or through Listener.Close -
     exactly in creation order, or is still queued *)
  Theorem accept_conservation : forall evs (l : listener),
      dequeued_log l evs ++ accepts (run l evs) = accepts l ++ created_log l evs.
  Proof.
    induction evs as [|ev r IH]; intros l; simpl.
    - rewrite app_nil_r. auto.
    - rewrite <- app_assoc, IH, app_assoc, accept_conservation_step, <- app_assoc. auto.
  Qed.

  Lemma next_id_step_mono : forall (l : listener) ev, next_id l <= next_id (step l ev).
  Proof.
    assert (Hcb : forall (l : listener) id, next_id (l_close_begin l id) = next_id l).
    { intros l id. unfold Listener.l_close_begin. destruct (key_of_id id (sessions l)) as [[a e]|]; auto.
      destruct (e_dead e); auto. }
    intros l [raw a| |id|id| |]; simpl; try lia.
    - destruct (step_accepts l raw a) as [_ H]. rewrite H. destruct (creation_event l raw a); lia.
    - unfold l_accept. destruct (accepts l); simpl; lia.
    - rewrite Hcb. lia.
    - unfold Listener.l_close_end. destruct (pending_addr id (pending l)); simpl; lia.
    - unfold Listener.l_backlog_close. destruct (accepts l) as [|[a id] r]; try lia.
      rewrite Hcb. simpl. lia.
  Qed.

  Lemma new_accepts_ids : forall (l : listener) ev x,
      In x (new_accepts l ev) -> snd x = next_id l /\ next_id (step l ev) = next_id l + 1.
  Proof.
    intros l [raw a| |id|id| |] x; try (simpl; contradiction).
    rewrite new_accepts_spec. destruct (step_accepts l raw a) as [_ H].
    destruct (creation_event l raw a); simpl; try contradiction.
    intros [Hx|[]]. subst. simpl. split; auto.
  Qed.

  Lemma created_ids_lower : forall evs (l : listener) x, In x (created_log l evs) -> next_id l <= snd x.
  Proof.
    induction evs as [|ev r IH]; simpl; intros l x H; try contradiction.
    apply in_app_iff in H. destruct H as [H|H].
    - apply new_accepts_ids in H. lia.
    - apply IH in H. pose proof (next_id_step_mono l ev). lia.
  Qed.

  (* no session is ever queued twice *)
  Theorem created_ids_nodup : forall evs (l : listener), NoDup (map snd (created_log l evs)).
  Proof.
    induction evs as [|ev r IH]; simpl; intros l; [constructor|].
    rewrite map_app.
    destruct (new_accepts l ev) as [|x [|y t]] eqn:E; simpl; auto.
    - constructor; auto. intro Hin. apply in_map_iff in Hin. destruct Hin as [z [Hz1 Hz2]].
      apply created_ids_lower in Hz2.
      assert (Hx : In x (new_accepts l ev)) by (rewrite E; simpl; auto).
      apply new_accepts_ids in Hx. lia.
    - exfalso. destruct ev as [raw a| | | | |]; try (simpl in E; discriminate).
      rewrite new_accepts_spec in E.
      destruct (creation_event l raw a); discriminate.
  Qed.

  Lemma NoDup_app_intro : forall (A : Type) (x y : list A),
      NoDup x -> NoDup y -> (forall a, In a x -> In a y -> False) -> NoDup (x ++ y).
  Proof.
    induction x as [|a r IH]; simpl; intros y Hx Hy Hd; auto.
    inversion Hx; subst. constructor.
    - rewrite in_app_iff. intros [H|H]; auto. eapply Hd; eauto.
    - apply IH; auto. intros b Hb1 Hb2. eapply Hd; eauto.
  Qed.

  Theorem accepted_nodup : forall evs (l : listener),
      inv l -> NoDup (map snd (dequeued_log l evs ++ accepts (run l evs))).
  Proof.
    intros evs l Hi. rewrite accept_conservation, map_app.
    apply NoDup_app_intro; [apply (inv_qnodup l Hi) | apply created_ids_nodup |].
    intros i H1 H2. apply (inv_qids l Hi) in H1.
    apply in_map_iff in H2. destruct H2 as [x [Hx1 Hx2]]. apply created_ids_lower in Hx2. lia.
  Qed.

  (* ---------------------------------------------------------------------------------- *)
  (* A datagram of another conversation is never merged.                                 *)

  Theorem no_merge : forall (l : listener) raw a e data conv sn,
      gate_ok raw = Some data -> too_short data = false ->
      lookup a (sessions l) = Some e ->
      parse_conv data = HConv conv sn -> conv <> sess_conv (e_sess e) ->
      let l' := l_packet_input l raw a in
      (* not the first packet of a conversation: ignored *)
      (sn <> 0 /\ l' = l) \/
      (* first packet, no room in the backlog: the old session is closed (unless an
         application Close of it is already under way), nothing is created *)
      (sn = 0 /\ no_room l = true /\ l' = reset_close l a e /\
       (e_dead e = false -> lookup a (sessions l') = None)) \/
      (* first packet, room: replaced by a fresh session fed with this datagram only *)
      (sn = 0 /\ no_room l = false /\
       lookup a (sessions l') = Some (mkE (next_id l) false (sess_input (sess_new conv a) data)) /\
       accepts l' = accepts l ++ [(a, next_id l)] /\
       others a (sessions l') = others a (sessions l)).
  Proof.
    intros l raw a e data conv sn Hg Hs He Hp Hc l'. subst l'.
    pose proof (frame_others l raw a) as Hfr. revert Hfr.
    assert (Hw : sn = 0 -> wants_session l raw a = Some (conv, data)).
    { intro. unfold Listener.wants_session. rewrite Hg, Hs, Hp, He.
      apply Z.eqb_neq in Hc. rewrite Hc. subst. auto. }
    unfold Listener.l_packet_input. rewrite Hg, Hs, Hp, He.
    apply Z.eqb_neq in Hc. rewrite Hc.
    destruct (sn =? 0) eqn:Esn; simpl.
    - apply Z.eqb_eq in Esn. intro Hfr. right. specialize (Hw Esn).
      assert (Hbf : no_room (reset_close l a e) = no_room l).
      { unfold Listener.reset_close. destruct (e_dead e); auto. }
      destruct (no_room l) eqn:Hb.
      + left. unfold Listener.create. rewrite Hbf. repeat split; auto.
        intro Hd. unfold Listener.reset_close. rewrite Hd. simpl.
        apply (lookup_remove_same addr_eqb).
      + right. pose proof (creation_installs l raw a conv data Hw Hb) as Hi.
        destruct (step_accepts l raw a) as [Ha _].
        unfold Listener.creation_event in Ha. rewrite Hw, Hb in Ha. simpl in Ha.
        revert Hi Ha. unfold Listener.l_packet_input. rewrite Hg, Hs, Hp, He, Hc, Esn. simpl.
        intros Hi Ha. repeat split; auto.
    - apply Z.eqb_neq in Esn. auto.
  Qed.

  (* the one case in which the listener cannot decide: no readable conv (parity packet, or
     an FEC data packet too short to hold a segment header) - handed to the session *)
  Theorem no_merge_undecidable : forall (l : listener) raw a e data,
      gate_ok raw = Some data -> too_short data = false ->
      lookup a (sessions l) = Some e -> parse_conv data = HNoConv ->
      let l' := l_packet_input l raw a in
      l' = feed l a e data /\
      lookup a (sessions l') = Some (mkE (e_id e) (e_dead e) (sess_input (e_sess e) data)) /\
      accepts l' = accepts l /\
      (* whatever the session-level input does not change is not changed by the listener *)
      (forall (T : Type) (obs : sess -> T),
          obs (sess_input (e_sess e) data) = obs (e_sess e) ->
          option_map (fun x => obs (e_sess x)) (lookup a (sessions l')) =
          option_map (fun x => obs (e_sess x)) (lookup a (sessions l))).
  Proof.
    intros l raw a e data Hg Hs He Hp l'. subst l'.
    unfold Listener.l_packet_input. rewrite Hg, Hs, Hp, He.
    assert (Hl : lookup a (sessions (feed l a e data)) = Some (mkE (e_id e) (e_dead e) (sess_input (e_sess e) data))).
    { simpl. eapply (lookup_replace_same addr_eqb); eauto. }
    repeat split; auto.
    intros T obs Hobs. rewrite Hl. simpl. rewrite Hobs. auto.
  Qed.

  (* while a session lives at a, only a datagram of ANOTHER conversation can be a creation
     event there *)
  Theorem live_session_same_conv_no_creation : forall (l : listener) raw a e c d,
      lookup a (sessions l) = Some e -> wants_session l raw a = Some (c, d) ->
      c <> sess_conv (e_sess e).
  Proof.
    intros l raw a e c d He. unfold Listener.wants_session.
    destruct (gate_ok raw); try discriminate. destruct (too_short b); try discriminate.
    destruct (parse_conv b) as [| |conv sn]; try discriminate. rewrite He.
    destruct (conv =? sess_conv (e_sess e)) eqn:E; simpl; try discriminate.
    destruct (sn =? 0); try discriminate. intro H. inversion H; subst.
    apply Z.eqb_neq. auto.
  Qed.

  (* a new peer with room: exactly one session, exactly one queue entry *)
  Theorem new_peer_one_accept : forall (l : listener) raw a conv data,
      wants_session l raw a = Some (conv, data) -> no_room l = false ->
      let l' := l_packet_input l raw a in
      creation_event l raw a = true /\
      accepts l' = accepts l ++ [(a, next_id l)] /\
      lookup a (sessions l') = Some (mkE (next_id l) false (sess_input (sess_new conv a) data)).
  Proof.
    intros l raw a conv data Hw Hb l'. subst l'.
    destruct (step_accepts l raw a) as [Ha _].
    assert (Hc : creation_event l raw a = true).
    { unfold Listener.creation_event. rewrite Hw, Hb. auto. }
    rewrite Hc in Ha. repeat split; auto. apply creation_installs; auto.
  Qed.

  (* ---------------------------------------------------------------------------------- *)
  (* A session leaves the table only through its own Close or through a datagram from its  *)
  (* own address that starts a new conversation (the repaired removeSession).              *)

  Lemma lookup_remove_some : forall a k (t : list (addr * entry)) e,
      lookup a (remove_key addr_eqb k t) = Some e -> lookup a t = Some e.
  Proof.
    intros a k t e H. destruct (addr_eqb a k) eqn:E.
    - apply addr_eqb_spec in E. subst. rewrite (lookup_remove_same addr_eqb) in H. discriminate.
    - rewrite remove_is_others, (lookup_others addr_eqb addr_eqb_spec) in H; auto.
      intro. subst. rewrite eqb_refl in E. discriminate.
  Qed.

  Lemma lookup_remove_other : forall a k (t : list (addr * entry)),
      a <> k -> lookup a (remove_key addr_eqb k t) = lookup a t.
  Proof. intros. rewrite remove_is_others. apply (lookup_others addr_eqb addr_eqb_spec). auto. Qed.

  Lemma lookup_replace_other : forall a k v (t : list (addr * entry)),
      a <> k -> lookup a (replace_key addr_eqb k v t) = lookup a t.
  Proof.
    intros. apply (others_lookup addr_eqb addr_eqb_spec k); auto. apply others_replace.
  Qed.

  Definition same_session (x y : option entry) : Prop :=
    match x, y with
    | Some e, Some e' => e_id e' = e_id e
    | _, _ => False
    end.

  (* the first step of a Close changes no identity and no session state, at any address *)
  Lemma close_begin_lookup : forall (l : listener) id a,
      NoDup (map fst (sessions l)) ->
      match lookup a (sessions l), lookup a (sessions (l_close_begin l id)) with
      | Some e, Some e' => e_id e' = e_id e /\ e_sess e' = e_sess e
      | None, None => True
      | _, _ => False
      end.
  Proof.
    intros l id a Hnd. unfold Listener.l_close_begin.
    assert (Hsame : match lookup a (sessions l), lookup a (sessions l) with
                    | Some e, Some e' => e_id e' = e_id e /\ e_sess e' = e_sess e
                    | None, None => True
                    | _, _ => False
                    end) by (destruct (lookup a (sessions l)); auto).
    destruct (key_of_id id (sessions l)) as [[k x]|] eqn:K; auto.
    destruct (e_dead x); auto. simpl.
    apply key_of_id_lookup in K; auto. destruct K as [Hk Hid].
    destruct (addr_eqb a k) eqn:Eak.
    - apply addr_eqb_spec in Eak. subst k. rewrite Hk.
      rewrite (lookup_replace_same addr_eqb a _ _ x Hk). simpl. auto.
    - rewrite lookup_replace_other; auto.
      intro. subst. rewrite eqb_refl in Eak. discriminate.
  Qed.

  Theorem removal_only_by_own_close_or_reset : forall (l : listener) ev a e,
      inv l -> lookup a (sessions l) = Some e ->
      same_session (Some e) (lookup a (sessions (step l ev))) \/
      ev = EvCloseEnd (e_id e) \/
      (exists raw conv data, ev = EvPacket raw a /\ wants_session l raw a = Some (conv, data)).
  Proof.
    intros l ev a e Hi He. destruct ev as [raw b| |id|id| |]; simpl.
    - destruct (addr_eqb b a) eqn:Eab.
      + apply addr_eqb_spec in Eab. subst b. rewrite packet_input_spec.
        destruct (wants_session l raw a) as [[conv data]|] eqn:W.
        * right. right. exists raw, conv, data. auto.
        * left. destruct (fed_to l raw a) as [[e1 data]|] eqn:F.
          { pose proof (fed_to_lookup _ _ _ _ _ F) as H1. rewrite He in H1. inversion H1; subst e1.
            simpl. rewrite (lookup_replace_same addr_eqb a _ _ e He). simpl. auto. }
          { rewrite He. simpl. auto. }
      + left. rewrite frame_lookup, He. simpl. auto.
        intro. subst. rewrite eqb_refl in Eab. discriminate.
    - left. unfold l_accept. destruct (accepts l); simpl; rewrite He; simpl; auto.
    - left. pose proof (close_begin_lookup l id a (inv_keys l Hi)) as H. rewrite He in H.
      destruct (lookup a (sessions (l_close_begin l id))); simpl; tauto.
    - unfold Listener.l_close_end.
      destruct (pending_addr id (pending l)) as [k|]; [|left; rewrite He; simpl; auto]. simpl.
      destruct (addr_eqb a k) eqn:Eak.
      * apply addr_eqb_spec in Eak. subst k. rewrite He.
        destruct (e_id e =? id) eqn:E.
        { right. left. apply Z.eqb_eq in E. subst. auto. }
        { left. rewrite He. simpl. auto. }
      * assert (Hne : a <> k) by (intro; subst; rewrite eqb_refl in Eak; discriminate).
        left. destruct (lookup k (sessions l)) as [x|]; [|rewrite He; simpl; auto].
        destruct (e_id x =? id); [rewrite lookup_remove_other by auto|]; rewrite He; simpl; auto.
    - left. rewrite He. simpl. auto.
    - left. unfold Listener.l_backlog_close. destruct (accepts l) as [|[k id] r] eqn:Ea.
      + rewrite He. simpl. auto.
      + pose proof (close_begin_lookup (mkL (sessions l) r (next_id l) (closed l) (pending l)) id a (inv_keys l Hi)) as H.
        simpl in H. rewrite He in H.
        destruct (lookup a (sessions (l_close_begin (mkL (sessions l) r (next_id l) (closed l) (pending l)) id))); simpl; tauto.
  Qed.

  (* history form: a session that is never the target of a Close and whose address never
     starts a new conversation is in the table after any history, whatever else happens *)
  Definition no_reset_at (a : addr) (l : listener) (evs : list event) : Prop :=
    forall pre raw post, evs = pre ++ EvPacket raw a :: post -> wants_session (run l pre) raw a = None.

  Theorem live_session_stays_reachable : forall evs (l : listener) a e,
      inv l -> lookup a (sessions l) = Some e ->
      ~ In (EvCloseEnd (e_id e)) evs -> no_reset_at a l evs ->
      same_session (Some e) (lookup a (sessions (run l evs))).
  Proof.
    induction evs as [|ev r IH]; intros l a e Hi He Hc Hr.
    - simpl. rewrite He. simpl. auto.
    - simpl. destruct (removal_only_by_own_close_or_reset l ev a e Hi He) as [H|[H|H]].
      + destruct (lookup a (sessions (step l ev))) as [e'|] eqn:E'; simpl in H; try contradiction.
        assert (Hx : same_session (Some e') (lookup a (sessions (run (step l ev) r)))).
        { apply IH; auto.
          - apply inv_step; auto.
          - rewrite H. intro Hin. apply Hc. right. auto.
          - intros pre raw post Heq. apply (Hr (ev :: pre) raw post). simpl. rewrite Heq. auto. }
        destruct (lookup a (sessions (run (step l ev) r))); simpl in *; try contradiction. congruence.
      + exfalso. apply Hc. left. auto.
      + destruct H as [raw [conv [data [H1 H2]]]]. subst ev.
        pose proof (Hr [] raw r eq_refl) as H3. simpl in H3. rewrite H3 in H2. discriminate.
  Qed.

  (* ---------------------------------------------------------------------------------- *)
  (* What a session has been fed.                                                        *)

  Section Isolation.
    Hypothesis conv_new : forall c a, sess_conv (sess_new c a) = c.
    Hypothesis conv_input : forall s d, sess_conv (sess_input s d) = sess_conv s.

    Lemma conv_fold : forall ds s, sess_conv (fold_left sess_input ds s) = sess_conv s.
    Proof. induction ds; simpl; intros; auto. rewrite IHds. auto. Qed.

    (* the session (identity i, state s) found under a after the history evs from l0, of
       conversation c, is either a session of l0 fed with exactly its share of evs, or was
       created by one event of evs and has been fed with exactly its share of the events
       after that one *)
    Definition hist (l0 : listener) (evs : list event) (a : addr) (i : Z) (s : sess) (c : Z) : Prop :=
      (exists e0, lookup a (sessions l0) = Some e0 /\ i = e_id e0 /\
                  c = sess_conv (e_sess e0) /\
                  s = fold_left sess_input (fed_seq a c evs) (e_sess e0))
      \/
      (exists pre raw post data,
          evs = pre ++ EvPacket raw a :: post /\
          wants_session (run l0 pre) raw a = Some (c, data) /\
          no_room (run l0 pre) = false /\
          i = next_id (run l0 pre) /\
          s = fold_left sess_input (fed_seq a c post) (sess_input (sess_new c a) data)).

    Lemma hist_conv : forall l0 evs a i s c, hist l0 evs a i s c -> sess_conv s = c.
    Proof.
      intros l0 evs a i s c [[e0 [_ [_ [Hc H]]]]|[pre [raw [post [data [_ [_ [_ [_ H]]]]]]]]];
        rewrite H, conv_fold; auto. rewrite conv_input. auto.
    Qed.

    Lemma fed_seq_snoc : forall a c evs ev, fed_seq a c (evs ++ [ev]) = fed_seq a c evs ++ fed_by a c ev.
    Proof. intros. unfold Listener.fed_seq. rewrite flat_map_app. simpl. rewrite app_nil_r. auto. Qed.

    Lemma hist_extend : forall l0 evs a i s c ev,
        hist l0 evs a i s c ->
        hist l0 (evs ++ [ev]) a i (fold_left sess_input (fed_by a c ev) s) c.
    Proof.
      intros l0 evs a i s c ev [[e0 [H1 [H2 [H3 H4]]]]|[pre [raw [post [data [H1 [H2 [H3 [H4 H5]]]]]]]]].
      - left. exists e0. repeat split; auto.
        rewrite fed_seq_snoc, fold_left_app, <- H4. auto.
      - right. exists pre, raw, (post ++ [ev]), data. repeat split; auto.
        + rewrite H1, <- app_assoc. auto.
        + rewrite fed_seq_snoc, fold_left_app, <- H5. auto.
    Qed.

    Lemma run_snoc : forall (l : listener) evs ev, run l (evs ++ [ev]) = step (run l evs) ev.
    Proof. intros. unfold Listener.run. rewrite fold_left_app. auto. Qed.

    Lemma fed_to_inv : forall (l : listener) raw a e data,
        fed_to l raw a = Some (e, data) ->
        gate_ok raw = Some data /\ too_short data = false /\ lookup a (sessions l) = Some e /\
        for_conv (sess_conv (e_sess e)) data = true.
    Proof.
      intros l raw a e data. unfold fed_to.
      destruct (gate_ok raw); try discriminate. destruct (too_short b) eqn:Ts; try discriminate.
      destruct (lookup a (sessions l)) as [e'|]; try discriminate.
      destruct (for_conv (sess_conv (e_sess e')) b) eqn:F; try discriminate.
      intro H. inversion H; subst. auto.
    Qed.

    Lemma fed_by_not_fed : forall (l : listener) raw a e,
        fed_to l raw a = None -> lookup a (sessions l) = Some e ->
        fed_by a (sess_conv (e_sess e)) (EvPacket raw a) = [].
    Proof.
      intros l raw a e. unfold fed_to. simpl. rewrite eqb_refl.
      destruct (gate_ok raw); auto. destruct (too_short b); auto.
      intros H He. rewrite He in H. destruct (for_conv (sess_conv (e_sess e)) b); auto. discriminate.
    Qed.

    Theorem stream_isolation : forall evs (l0 : listener) a e,
        inv l0 -> lookup a (sessions (run l0 evs)) = Some e ->
        exists c, hist l0 evs a (e_id e) (e_sess e) c.
    Proof.
      induction evs as [|ev evs IH] using rev_ind; intros l0 a e Hi0 He.
      - simpl in He. exists (sess_conv (e_sess e)). left. exists e. simpl. auto.
      - rewrite run_snoc in He. set (l := run l0 evs) in *.
        assert (Hil : inv l) by (apply inv_run; auto).
        (* the entry before the step had the same identity and state, and ev feeds it nothing *)
        assert (Hsame : forall e1, lookup a (sessions l) = Some e1 ->
                                   e_id e = e_id e1 -> e_sess e = e_sess e1 ->
                                   (forall c, sess_conv (e_sess e1) = c -> fed_by a c ev = []) ->
                                   exists c, hist l0 (evs ++ [ev]) a (e_id e) (e_sess e) c).
        { intros e1 H1 Hid Hs Hf. destruct (IH l0 a e1 Hi0 H1) as [c Hh]. exists c.
          pose proof (hist_extend l0 evs a _ _ c ev Hh) as Hx.
          rewrite (Hf c (hist_conv _ _ _ _ _ _ Hh)) in Hx. simpl in Hx. rewrite Hid, Hs. exact Hx. }
        destruct ev as [raw b| |id|id| |].
        + destruct (addr_eqb b a) eqn:Eab.
          * apply addr_eqb_spec in Eab. subst b. simpl in He. rewrite packet_input_spec in He.
            destruct (wants_session l raw a) as [[conv data]|] eqn:W.
            { destruct (no_room l) eqn:Hb.
              - unfold Listener.create in He. rewrite backlog_full_reset_at, Hb in He.
                (* nothing is created; what is under a afterwards was there before (a session
                   of another conversation whose Close is under way): it is fed nothing *)
                assert (Hf0 : fed_to l raw a = None) by (eapply wants_fed_exclusive; eauto).
                unfold reset_at, Listener.reset_close in He.
                destruct (lookup a (sessions l)) as [e1|] eqn:E1.
                + destruct (e_dead e1).
                  * rewrite E1 in He. inversion He; subst e1. apply (Hsame e); auto.
                    intros c Hc. subst c. eapply fed_by_not_fed; eauto.
                  * simpl in He. rewrite (lookup_remove_same addr_eqb) in He. discriminate.
                + rewrite E1 in He. discriminate.
              - rewrite sessions_create in He by (rewrite backlog_full_reset_at; auto).
                rewrite (lookup_set_same addr_eqb addr_eqb_spec) in He.
                inversion He; subst e. simpl. destruct (reset_at_fields l a) as [_ [Hn _]]. rewrite Hn.
                exists conv. right. exists evs, raw, [], data. simpl. repeat split; auto. }
            { destruct (fed_to l raw a) as [[e1 data]|] eqn:F.
              - apply fed_to_inv in F. destruct F as [Hg [Hs [He1 Hf]]].
                simpl in He. erewrite (lookup_replace_same addr_eqb) in He; eauto.
                inversion He; subst e. simpl.
                destruct (IH l0 a e1 Hi0 He1) as [c Hh].
                pose proof (hist_conv _ _ _ _ _ _ Hh) as Hc. subst c.
                exists (sess_conv (e_sess e1)).
                pose proof (hist_extend l0 evs a _ _ _ (EvPacket raw a) Hh) as Hx.
                simpl in Hx. rewrite eqb_refl, Hg, Hs, Hf in Hx. simpl in Hx. exact Hx.
              - apply (Hsame e); auto. intros c Hc. subst c. eapply fed_by_not_fed; eauto. }
          * assert (Hne : a <> b) by (intro; subst; rewrite eqb_refl in Eab; discriminate).
            simpl in He. rewrite frame_lookup in He by auto.
            apply (Hsame e); auto. intros. simpl. rewrite Eab. auto.
        + apply (Hsame e); auto.
          revert He. simpl. unfold l_accept. destruct (accepts l); auto.
        + pose proof (close_begin_lookup l id a (inv_keys l Hil)) as H. simpl in He. rewrite He in H.
          destruct (lookup a (sessions l)) as [e1|] eqn:E1; try contradiction.
          destruct H as [H1 H2]. apply (Hsame e1); auto.
        + revert He. simpl. unfold Listener.l_close_end.
          destruct (pending_addr id (pending l)) as [k|]; [|intro; apply (Hsame e); auto]. simpl.
          destruct (lookup k (sessions l)) as [x|]; [|intro; apply (Hsame e); auto].
          destruct (e_id x =? id); [|intro; apply (Hsame e); auto].
          intro He. apply lookup_remove_some in He. apply (Hsame e); auto.
        + apply (Hsame e); auto.
        + revert He. simpl. unfold Listener.l_backlog_close.
          destruct (accepts l) as [|[k id] r] eqn:Ea; [intro; apply (Hsame e); auto|].
          intro He.
          pose proof (close_begin_lookup (mkL (sessions l) r (next_id l) (closed l) (pending l)) id a (inv_keys l Hil)) as H.
          rewrite He in H. simpl in H.
          destruct (lookup a (sessions l)) as [e1|] eqn:E1; try contradiction.
          destruct H as [H1 H2]. apply (Hsame e1); auto.
    Qed.

    (* the instance the property speaks about: a listener that starts empty *)
    Corollary stream_isolation_from_empty : forall evs a e,
        lookup a (sessions (run l_empty evs)) = Some e ->
        exists c pre raw post data,
          evs = pre ++ EvPacket raw a :: post /\
          wants_session (run l_empty pre) raw a = Some (c, data) /\
          no_room (run l_empty pre) = false /\
          e_id e = next_id (run l_empty pre) /\
          sess_conv (e_sess e) = c /\
          e_sess e = fold_left sess_input (fed_seq a c post) (sess_input (sess_new c a) data).
    Proof.
      intros evs a e He. destruct (stream_isolation evs l_empty a e inv_empty He) as [c Hh].
      pose proof (hist_conv _ _ _ _ _ _ Hh) as Hc.
      destruct Hh as [[e0 [H1 _]]|[pre [raw [post [data [H1 [H2 [H3 [H4 H5]]]]]]]]].
      - simpl in H1. discriminate.
      - exists c, pre, raw, post, data. repeat split; auto.
    Qed.

    (* while a session of conversation c lives at a - not closed by the application, its
       address not starting another conversation - no datagram of conversation c from a
       creates a second session, whatever else happens on the listener *)
    Theorem one_session_per_conversation : forall evs (l : listener) a e raw c d,
        inv l -> lookup a (sessions l) = Some e ->
        ~ In (EvCloseEnd (e_id e)) evs -> no_reset_at a l evs ->
        wants_session (run l evs) raw a = Some (c, d) -> c <> sess_conv (e_sess e).
    Proof.
      intros evs l a e raw c d Hi He Hc Hr Hw.
      pose proof (live_session_stays_reachable evs l a e Hi He Hc Hr) as Hs.
      destruct (lookup a (sessions (run l evs))) as [e'|] eqn:E'; simpl in Hs; try contradiction.
      pose proof (live_session_same_conv_no_creation _ _ _ _ _ _ E' Hw) as Hne.
      destruct (stream_isolation evs l a e' Hi E') as [c' Hh].
      pose proof (hist_conv _ _ _ _ _ _ Hh) as Hc'.
      destruct Hh as [[e0 [H1 [_ [H3 _]]]]|[pre [raw' [post [data [H1 [H2 _]]]]]]].
      - rewrite He in H1. inversion H1; subst e0. congruence.
      - rewrite (Hr pre raw' post H1) in H2. discriminate.
    Qed.
  End Isolation.

End Proofs.
