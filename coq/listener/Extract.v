(* Extraction of the executable listener model.  ExtrOcamlBasic only; Z, positive, nat stay
   the extracted inductive types; no Extract Constant. *)
From Coq Require Import Extraction ExtrOcamlBasic ZArith.
From KV.Listener Require Import Listener.
Extraction "listener_model.ml" l_empty l_packet_input l_accept l_close_begin l_close_end l_close_session l_close l_backlog_close
  creation_event parse_conv too_short r_new r_input
  filter_init filter_step dialled_accepts same_source.
