(* The source filter of a dialled session's read loop (property C11, last clause). *)
From Coq Require Import ZArith List Bool Lia.
From KV.Listener Require Import Listener.
Import ListNotations.
Local Open Scope Z_scope.

(* a remote address that the loop treats as "set": any *net.UDPAddr, or another Addr whose
   String() is not empty *)
Definition remote_set (r : naddr) : Prop :=
  match r with NUdp _ _ _ _ => True | NOther s => s <> [] end.

Lemma same_udp_is_same_source : forall ip p z s ip' p' z' s',
    same_udp_addr (ip, p, z) (ip', p', z') = same_source (NUdp ip p z s) (NUdp ip' p' z' s').
Proof.
  intros. simpl. destruct (p =? p'); simpl; auto. destruct (bytes_eqb z z'); simpl; auto.
Qed.

Lemma filter_step_fixed : forall r from, remote_set r ->
    filter_step (filter_init (Some r)) from = (filter_init (Some r), same_source r from).
Proof.
  intros [ip p z s|s] from Hr; simpl.
  - destruct from as [ip' p' z' s'|s']; auto.
    unfold filter_step. simpl. f_equal.
    destruct (p =? p'); simpl; auto. destruct (bytes_eqb z z'); simpl; auto.
  - unfold filter_step. simpl. destruct s; [contradiction|]. auto.
Qed.

(* The loop variables never change once the remote is known, and packetInput is called for
   a datagram iff it comes from the peer's address. *)
Theorem filter_run_fixed : forall froms r, remote_set r ->
    filter_run (filter_init (Some r)) froms = (filter_init (Some r), map (same_source r) froms).
Proof.
  induction froms as [|x rest IH]; intros r Hr; auto.
  change (filter_run (filter_init (Some r)) (x :: rest)) with
      (let '(f1, b) := filter_step (filter_init (Some r)) x in
       let '(f2, bs) := filter_run f1 rest in (f2, b :: bs)).
  rewrite filter_step_fixed by auto. rewrite IH by auto. auto.
Qed.

Theorem dialled_accepts_iff : forall r from, remote_set r ->
    dialled_accepts r from = same_source r from.
Proof.
  intros. unfold dialled_accepts. rewrite filter_step_fixed; auto.
Qed.

(* A session created without a remote address (s.remote == nil) adopts the source of the
   first datagram and is then exactly as above. *)
Theorem filter_run_unset : forall x froms, remote_set x ->
    filter_run (filter_init None) (x :: froms) =
    (filter_init (Some x), true :: map (same_source x) froms).
Proof.
  intros x froms Hx.
  assert (H : filter_step (filter_init None) x = (filter_init (Some x), true)).
  { unfold filter_step. simpl. destruct x; auto. }
  change (filter_run (filter_init None) (x :: froms)) with
      (let '(f1, b) := filter_step (filter_init None) x in
       let '(f2, bs) := filter_run f1 froms in (f2, b :: bs)).
  rewrite H. rewrite filter_run_fixed by auto. auto.
Qed.

(* in particular a datagram from any other UDP port, zone or IP, and any non-UDP source, is
   ignored by a session dialled to a UDP address *)
Corollary dialled_udp_rejects : forall ip p z s from,
    dialled_accepts (NUdp ip p z s) from = true ->
    exists ip' p' z' s', from = NUdp ip' p' z' s' /\ p' = p /\ bytes_eqb z z' = true /\ ip_equal ip ip' = true.
Proof.
  intros ip p z s from H. rewrite dialled_accepts_iff in H by exact I.
  destruct from as [ip' p' z' s'|s']; simpl in H; try discriminate.
  apply andb_prop in H. destruct H as [H H3]. apply andb_prop in H. destruct H as [H1 H2].
  exists ip', p', z', s'. repeat split; auto. apply Z.eqb_eq in H1. auto.
Qed.

Lemma bytes_eqb_eq : forall x y, bytes_eqb x y = true <-> x = y.
Proof.
  induction x as [|a x IH]; destruct y as [|b y]; simpl; split; intro H; try discriminate; auto.
  - apply andb_prop in H. destruct H as [H1 H2]. apply Z.eqb_eq in H1. apply IH in H2. subst. auto.
  - inversion H; subst. rewrite Z.eqb_refl. simpl. apply IH. auto.
Qed.
