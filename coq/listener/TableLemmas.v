(* Facts about the association-list table of Listener.v. *)
From Coq Require Import ZArith List Bool Lia.
From KV.Listener Require Import Listener.
Import ListNotations.

Section TableLemmas.
  Context {K V : Type} (eqb : K -> K -> bool).
  Hypothesis eqb_spec : forall a b, eqb a b = true <-> a = b.

  Lemma eqb_refl : forall a, eqb a a = true.
  Proof. intro a. apply eqb_spec. reflexivity. Qed.

  Lemma eqb_neq : forall a b, a <> b -> eqb a b = false.
  Proof.
    intros a b H. destruct (eqb a b) eqn:E; auto. apply eqb_spec in E. contradiction.
  Qed.

  Lemma eqb_false_neq : forall a b, eqb a b = false -> a <> b.
  Proof.
    intros a b H E. subst. rewrite eqb_refl in H. discriminate.
  Qed.

  Lemma eqb_sym : forall a b, eqb a b = eqb b a.
  Proof.
    intros a b. destruct (eqb a b) eqn:E.
    - apply eqb_spec in E. subst. symmetry. apply eqb_refl.
    - symmetry. apply eqb_neq. intro H. subst. rewrite eqb_refl in E. discriminate.
  Qed.

  Definition others (k : K) (t : list (K * V)) : list (K * V) :=
    filter (fun x => negb (eqb k (fst x))) t.

  Lemma others_remove : forall k (t : list (K * V)), others k (remove_key eqb k t) = others k t.
  Proof.
    induction t as [|[k' v] r IH]; simpl; auto.
    destruct (eqb k k') eqn:E; simpl; rewrite ?E; simpl; rewrite IH; auto.
  Qed.

  Lemma remove_is_others : forall k (t : list (K * V)), remove_key eqb k t = others k t.
  Proof.
    induction t as [|[k' v] r IH]; simpl; auto.
    destruct (eqb k k') eqn:E; simpl; rewrite IH; auto.
  Qed.

  Lemma others_app : forall k (t u : list (K * V)), others k (t ++ u) = others k t ++ others k u.
  Proof. intros. unfold others. apply filter_app. Qed.

  Lemma others_set : forall k v (t : list (K * V)), others k (set_key eqb k v t) = others k t.
  Proof.
    intros. unfold set_key. rewrite others_app, others_remove. simpl. rewrite eqb_refl. simpl.
    apply app_nil_r.
  Qed.

  Lemma others_replace : forall k v (t : list (K * V)), others k (replace_key eqb k v t) = others k t.
  Proof.
    induction t as [|[k' v'] r IH]; simpl; auto.
    destruct (eqb k k') eqn:E; simpl; rewrite E; simpl; auto. rewrite IH. auto.
  Qed.

  Lemma lookup_others : forall k k' (t : list (K * V)), k' <> k -> lookup eqb k' (others k t) = lookup eqb k' t.
  Proof.
    induction t as [|[k2 v] r IH]; simpl; intros; auto.
    destruct (eqb k k2) eqn:E; simpl.
    - apply eqb_spec in E. subst k2. rewrite (eqb_neq k' k) by auto. auto.
    - destruct (eqb k' k2); auto.
  Qed.

  Lemma lookup_others_same : forall k (t : list (K * V)), lookup eqb k (others k t) = None.
  Proof.
    induction t as [|[k2 v] r IH]; simpl; auto.
    destruct (eqb k k2) eqn:E; simpl; auto. rewrite E. auto.
  Qed.

  (* two tables that agree outside k agree on every other key *)
  Lemma others_lookup : forall k k' (t u : list (K * V)),
      others k t = others k u -> k' <> k -> lookup eqb k' t = lookup eqb k' u.
  Proof.
    intros. rewrite <- (lookup_others k k' t), <- (lookup_others k k' u) by auto. congruence.
  Qed.

  Lemma lookup_remove_same : forall k (t : list (K * V)), lookup eqb k (remove_key eqb k t) = None.
  Proof. intros. rewrite remove_is_others. apply lookup_others_same. Qed.

  Lemma lookup_app : forall k (t u : list (K * V)),
      lookup eqb k (t ++ u) = match lookup eqb k t with Some v => Some v | None => lookup eqb k u end.
  Proof.
    induction t as [|[k2 v] r IH]; simpl; intros; auto. destruct (eqb k k2); auto.
  Qed.

  Lemma lookup_set_same : forall k v (t : list (K * V)), lookup eqb k (set_key eqb k v t) = Some v.
  Proof.
    intros. unfold set_key. rewrite lookup_app, lookup_remove_same. simpl. rewrite eqb_refl. auto.
  Qed.

  Lemma lookup_replace_same : forall k v (t : list (K * V)) v0,
      lookup eqb k t = Some v0 -> lookup eqb k (replace_key eqb k v t) = Some v.
  Proof.
    induction t as [|[k2 v2] r IH]; simpl; intros; try discriminate.
    destruct (eqb k k2) eqn:E; simpl; rewrite E; auto. eapply IH; eauto.
  Qed.

  Lemma lookup_In : forall k v (t : list (K * V)), lookup eqb k t = Some v -> In (k, v) t.
  Proof.
    induction t as [|[k2 v2] r IH]; simpl; intros; try discriminate.
    destruct (eqb k k2) eqn:E.
    - apply eqb_spec in E. inversion H. subst. auto.
    - right. auto.
  Qed.

  Lemma In_lookup : forall k v (t : list (K * V)),
      NoDup (map fst t) -> In (k, v) t -> lookup eqb k t = Some v.
  Proof.
    induction t as [|[k2 v2] r IH]; simpl; intros Hnd Hin; try contradiction.
    inversion Hnd; subst. destruct Hin as [H|H].
    - inversion H; subst. rewrite eqb_refl. auto.
    - destruct (eqb k k2) eqn:E.
      + apply eqb_spec in E. subst. exfalso. apply H1. apply in_map_iff. exists (k2, v). auto.
      + auto.
  Qed.

  Lemma lookup_None_notin : forall k (t : list (K * V)), lookup eqb k t = None -> ~ In k (map fst t).
  Proof.
    induction t as [|[k2 v2] r IH]; simpl; intros H; auto.
    destruct (eqb k k2) eqn:E; try discriminate.
    intros [H1|H1]; [subst; rewrite eqb_refl in E; discriminate | apply IH; auto].
  Qed.

  Lemma In_others : forall k x (t : list (K * V)), In x (others k t) <-> In x t /\ fst x <> k.
  Proof.
    intros. unfold others. rewrite filter_In. split; intros [H1 H2]; split; auto.
    - intro. subst. rewrite eqb_refl in H2. discriminate.
    - rewrite eqb_neq; auto.
  Qed.

  Lemma In_set : forall k v x (t : list (K * V)),
      In x (set_key eqb k v t) <-> (In x t /\ fst x <> k) \/ x = (k, v).
  Proof.
    intros. unfold set_key. rewrite in_app_iff, remove_is_others, In_others. simpl.
    intuition.
  Qed.

  Lemma In_replace : forall k v x (t : list (K * V)),
      In x (replace_key eqb k v t) -> In x t \/ x = (k, v).
  Proof.
    induction t as [|[k2 v2] r IH]; simpl; intros H; try contradiction.
    destruct (eqb k k2) eqn:E.
    - apply eqb_spec in E. subst k2. destruct H as [H|H]; auto.
    - destruct H as [H|H]; auto. apply IH in H. tauto.
  Qed.

  Lemma map_fst_replace : forall k v (t : list (K * V)),
      map fst (replace_key eqb k v t) = map fst t.
  Proof.
    induction t as [|[k2 v2] r IH]; simpl; auto.
    destruct (eqb k k2); simpl; congruence.
  Qed.

  Lemma NoDup_others : forall k (t : list (K * V)), NoDup (map fst t) -> NoDup (map fst (others k t)).
  Proof.
    induction t as [|[k2 v2] r IH]; simpl; intros H; auto.
    inversion H; subst. destruct (eqb k k2); simpl; auto.
    constructor; auto. intro Hin. apply H2.
    apply in_map_iff in Hin. destruct Hin as [x [Hx1 Hx2]]. apply In_others in Hx2.
    apply in_map_iff. exists x. tauto.
  Qed.

  Lemma notin_others : forall k (t : list (K * V)), ~ In k (map fst (others k t)).
  Proof.
    intros k t H. apply in_map_iff in H. destruct H as [x [H1 H2]]. apply In_others in H2. tauto.
  Qed.

  Lemma NoDup_snoc : forall (A : Type) (l : list A) (x : A), NoDup l -> ~ In x l -> NoDup (l ++ [x]).
  Proof.
    induction l as [|y r IH]; simpl; intros x Hnd Hx.
    - constructor; auto.
    - inversion Hnd; subst. constructor.
      + rewrite in_app_iff. simpl. intros [H|[H|[]]]; auto.
      + apply IH; auto.
  Qed.

  Lemma NoDup_set : forall k v (t : list (K * V)), NoDup (map fst t) -> NoDup (map fst (set_key eqb k v t)).
  Proof.
    intros. unfold set_key. rewrite map_app, remove_is_others. simpl.
    apply NoDup_snoc; auto using NoDup_others, notin_others.
  Qed.

End TableLemmas.
