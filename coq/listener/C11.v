(* C11 - sessions on one socket are isolated; one Accept per new peer.
   Statements only; every proof is `exact <lemma>`.  The model is coq/listener/Listener.v.

   All theorems are stated for an arbitrary address type with a decidable equality (the
   value of addr.String()), an ARBITRARY session type (sess_new = newUDPSession: fresh and
   empty, sess_input = UDPSession.kcpInput, sess_conv = kcp.conv) and an arbitrary integrity
   gate (gate_ok = None for a datagram that fails the length test / AEAD open / CRC compare,
   Some plaintext otherwise): they hold whatever a session does with what it is fed and
   whatever the gate lets through - "valid, stale or forged".

   Events are the atomic sections of the code in ANY interleaving: a datagram processed by
   Listener.packetInput, an Accept, the two steps of an application's UDPSession.Close
   (EvCloseBegin = `die` closed, EvCloseEnd = Listener.removeSession), and the steps of
   Listener.Close (EvListenerClose = l.die closed, EvBacklogClose = one queued session taken
   from the backlog and its Close begun). *)
From Coq Require Import ZArith List Bool.
From KV.Base Require Import Consts.
From KV.Listener Require Import Listener TableLemmas ListenerProofs FilterProofs C11Lemmas Examples.
Import ListNotations.
Local Open Scope Z_scope.

Section C11.
  Context {addr : Type} (addr_eqb : addr -> addr -> bool).
  Hypothesis addr_eqb_spec : forall a b, addr_eqb a b = true <-> a = b.
  Context {sess : Type}
          (sess_new : Z -> addr -> sess)
          (sess_input : sess -> bytes -> sess)
          (sess_conv : sess -> Z).
  Context (gate_ok : bytes -> option bytes).

  Notation listener := (@listener addr sess).
  Notation entry := (@entry sess).
  Notation lookup := (lookup addr_eqb).
  Notation l_packet_input := (l_packet_input addr_eqb sess_new sess_input sess_conv gate_ok).
  Notation wants_session := (wants_session addr_eqb sess_conv gate_ok).
  Notation creation_event := (creation_event addr_eqb sess_conv gate_ok).
  Notation step := (step addr_eqb sess_new sess_input sess_conv gate_ok).
  Notation run := (run addr_eqb sess_new sess_input sess_conv gate_ok).
  Notation created_log := (created_log addr_eqb sess_new sess_input sess_conv gate_ok).
  Notation dequeued_log := (dequeued_log addr_eqb sess_new sess_input sess_conv gate_ok).
  Notation creation_events_at := (creation_events_at addr_eqb sess_new sess_input sess_conv gate_ok).
  Notation fed_seq := (fed_seq addr_eqb gate_ok).

  (* ---- invariant: one entry per address, backlog within its capacity, identities unique -- *)
  Theorem c11_invariant :
    inv (@l_empty addr sess) /\
    (forall (l : listener) ev, inv l -> inv (step l ev)) /\
    (forall (l : listener) evs, inv l -> inv (run l evs)) /\
    (forall (l : listener), inv l ->
        NoDup (map fst (sessions l)) /\
        Z.of_nat (length (accepts l)) <= c_acceptBacklog /\
        NoDup (map (fun x => e_id (snd x)) (sessions l)) /\
        NoDup (map snd (accepts l)) /\
        (forall a e, In (a, e) (sessions l) -> 0 <= e_id e < next_id l) /\
        (forall a i, In (a, i) (accepts l) -> 0 <= i < next_id l) /\
        (forall a i b e, In (a, i) (accepts l) -> In (b, e) (sessions l) -> e_id e = i -> a = b)).
  Proof.
    exact (conj (@inv_empty addr sess)
          (conj (inv_step addr_eqb addr_eqb_spec sess_new sess_input sess_conv gate_ok)
          (conj (fun l evs => inv_run addr_eqb addr_eqb_spec sess_new sess_input sess_conv gate_ok evs l)
                (@inv_meaning addr sess)))).
  Qed.

  (* ---- frame: a datagram from a - valid, stale or forged, any content - leaves every table
     entry of another address EQUAL (identity, dead flag, full session state), leaves the
     closed flag and the pending Closes alone, and changes the accept queue at most by
     appending the session it created under a ------------------------------------------------ *)
  Theorem c11_frame : forall (l : listener) raw a,
      let l' := l_packet_input l raw a in
      filter (fun x => negb (addr_eqb a (fst x))) (sessions l') =
      filter (fun x => negb (addr_eqb a (fst x))) (sessions l) /\
      (forall b, b <> a -> lookup b (sessions l') = lookup b (sessions l)) /\
      closed l' = closed l /\ pending l' = pending l /\
      ((accepts l' = accepts l /\ next_id l' = next_id l) \/
       (exists conv data,
           accepts l' = accepts l ++ [(a, next_id l)] /\ next_id l' = next_id l + 1 /\
           lookup a (sessions l') = Some (mkE (next_id l) false (sess_input (sess_new conv a) data)))).
  Proof. exact (frame addr_eqb addr_eqb_spec sess_new sess_input sess_conv gate_ok). Qed.

  (* ---- one Accept per creation event ---------------------------------------------------- *)
  (* creation_event l raw a (Listener.v): raw passes the gate, is long enough, has a readable
     conv, a has no session - or one of another conversation and sn = 0 (this includes every
     OOB datagram, boundary B3) - and the backlog has room.  After a server-side Close the
     address has no session, so the peer's next datagram is a creation event (boundary B9). *)
  Theorem c11_one_accept :
    (* over any history: sessions ever appended for address a = creation events at a *)
    (forall evs (l : listener) a,
        count_at addr_eqb a (created_log l evs) = creation_events_at a l evs) /\
    (* a step appends exactly the session created by a creation event, nothing otherwise *)
    (forall (l : listener) raw a,
        accepts (l_packet_input l raw a) =
        accepts l ++ (if creation_event l raw a then [(a, next_id l)] else []) /\
        next_id (l_packet_input l raw a) = next_id l + (if creation_event l raw a then 1 else 0)) /\
    (* everything created leaves the queue in creation order exactly once - handed out by
       Accept, or taken and closed by Listener.Close - or is still queued *)
    (forall evs (l : listener),
        dequeued_log l evs ++ accepts (run l evs) = accepts l ++ created_log l evs) /\
    (forall evs (l : listener), inv l -> NoDup (map snd (dequeued_log l evs ++ accepts (run l evs)))) /\
    (* a new peer while the backlog is full (no_room l = closed l || backlog_full l): dropped
       with NO state change ... *)
    (forall (l : listener) raw a,
        lookup a (sessions l) = None -> no_room l = true -> l_packet_input l raw a = l) /\
    (forall (l : listener) raw a,
        lookup a (sessions l) = None -> creation_event l raw a = false -> l_packet_input l raw a = l) /\
    (* ... and exactly one session, fresh and fed with the creating datagram only, as soon as
       there is room *)
    (forall (l : listener) raw a conv data,
        wants_session l raw a = Some (conv, data) -> no_room l = false ->
        let l' := l_packet_input l raw a in
        creation_event l raw a = true /\
        accepts l' = accepts l ++ [(a, next_id l)] /\
        lookup a (sessions l') = Some (mkE (next_id l) false (sess_input (sess_new conv a) data))) /\
    (* while a session lives at a, a datagram of ITS conversation is never a creation event *)
    (forall (l : listener) raw a e c d,
        lookup a (sessions l) = Some e -> wants_session l raw a = Some (c, d) ->
        c <> sess_conv (e_sess e)).
  Proof.
    exact (conj (one_accept_count addr_eqb sess_new sess_input sess_conv gate_ok)
          (conj (step_accepts addr_eqb sess_new sess_input sess_conv gate_ok)
          (conj (accept_conservation addr_eqb sess_new sess_input sess_conv gate_ok)
          (conj (accepted_nodup addr_eqb sess_new sess_input sess_conv gate_ok)
          (conj (full_backlog_no_state addr_eqb sess_new sess_input sess_conv gate_ok)
          (conj (no_session_no_creation_no_state addr_eqb sess_new sess_input sess_conv gate_ok)
          (conj (new_peer_one_accept addr_eqb addr_eqb_spec sess_new sess_input sess_conv gate_ok)
                (live_session_same_conv_no_creation addr_eqb sess_conv gate_ok)))))))).
  Qed.

  (* ---- a session leaves the table only through its own Close or through a datagram from
     its own address that starts a new conversation - for every interleaving of the two steps
     of Close with datagrams (the repaired Listener.removeSession) ---------------------------- *)
  Theorem c11_live_session_reachable :
    (forall (l : listener) ev a e,
        inv l -> lookup a (sessions l) = Some e ->
        (exists e', lookup a (sessions (step l ev)) = Some e' /\ e_id e' = e_id e) \/
        ev = EvCloseEnd (e_id e) \/
        (exists raw conv data, ev = EvPacket raw a /\ wants_session l raw a = Some (conv, data))) /\
    (forall evs (l : listener) a e,
        inv l -> lookup a (sessions l) = Some e ->
        ~ In (EvCloseEnd (e_id e)) evs ->
        (forall pre raw post, evs = pre ++ EvPacket raw a :: post -> wants_session (run l pre) raw a = None) ->
        exists e', lookup a (sessions (run l evs)) = Some e' /\ e_id e' = e_id e).
  Proof.
    exact (conj (removal_ex addr_eqb addr_eqb_spec sess_new sess_input sess_conv gate_ok)
                (live_ex addr_eqb addr_eqb_spec sess_new sess_input sess_conv gate_ok)).
  Qed.

  (* ---- never merged: a datagram from a whose readable conv differs from the live session's
     is ignored, or closes that session, or replaces it by a FRESH one ------------------------ *)
  Theorem c11_no_merge : forall (l : listener) raw a e data conv sn,
      gate_ok raw = Some data -> too_short data = false ->
      lookup a (sessions l) = Some e ->
      parse_conv data = HConv conv sn -> conv <> sess_conv (e_sess e) ->
      let l' := l_packet_input l raw a in
      (sn <> 0 /\ l' = l) \/
      (sn = 0 /\ no_room l = true /\ l' = reset_close addr_eqb l a e /\
       (e_dead e = false -> lookup a (sessions l') = None)) \/
      (sn = 0 /\ no_room l = false /\
       lookup a (sessions l') = Some (mkE (next_id l) false (sess_input (sess_new conv a) data)) /\
       accepts l' = accepts l ++ [(a, next_id l)] /\
       filter (fun x => negb (addr_eqb a (fst x))) (sessions l') =
       filter (fun x => negb (addr_eqb a (fst x))) (sessions l)).
  Proof. exact (no_merge addr_eqb addr_eqb_spec sess_new sess_input sess_conv gate_ok). Qed.

  (* The one case the code really has: NO readable conv (a parity packet, or an FEC data
     packet too short for a segment header).  It is handed to the session living at a.  The
     listener adds nothing to what the session-level input does: whatever observation `obs`
     of the session is unchanged by sess_input on that payload is unchanged at the listener.
     Session-level premise, discharged elsewhere: for a short FEC data packet the core's
     `input` returns -1 before touching state (Kcp.v, first segment shorter than the
     overhead / conv differs); a parity packet is only stored by the FEC decoder and can
     reach the stream solely through a reconstruction, whose result again passes the core's
     conv compare.  (A stale parity packet of an EARLIER conversation of the same address can
     take part in such a reconstruction - boundary B3, property C16.) *)
  Theorem c11_no_merge_undecidable : forall (l : listener) raw a e data,
      gate_ok raw = Some data -> too_short data = false ->
      lookup a (sessions l) = Some e -> parse_conv data = HNoConv ->
      let l' := l_packet_input l raw a in
      l' = feed addr_eqb sess_input l a e data /\
      lookup a (sessions l') = Some (mkE (e_id e) (e_dead e) (sess_input (e_sess e) data)) /\
      accepts l' = accepts l /\
      (forall (T : Type) (obs : sess -> T),
          obs (sess_input (e_sess e) data) = obs (e_sess e) ->
          option_map (fun x => obs (e_sess x)) (lookup a (sessions l')) =
          option_map (fun x => obs (e_sess x)) (lookup a (sessions l))).
  Proof. exact (no_merge_undecidable addr_eqb sess_new sess_input sess_conv gate_ok). Qed.

  (* ---- stream isolation (composition with C01) ------------------------------------------ *)
  Section Isolation.
    (* kcp.conv is set by NewKCP and never written again *)
    Hypothesis conv_new : forall c a, sess_conv (sess_new c a) = c.
    Hypothesis conv_input : forall s d, sess_conv (sess_input s d) = sess_conv s.

    (* After ANY history from the empty listener, the session found under a was created by
       one datagram from a and has since been fed EXACTLY fed_seq a c post: the payloads, in
       order, of the later datagrams FROM a that pass the gate, are long enough and carry
       conv c or no readable conv.  Nothing sent from another address is in that list, so by
       C01 (with sess := the session model) the stream read from it is a prefix of what the
       peer (a, c) wrote. *)
    Theorem c11_stream_isolation : forall evs a e,
        lookup a (sessions (run l_empty evs)) = Some e ->
        exists c pre raw post data,
          evs = pre ++ EvPacket raw a :: post /\
          wants_session (run l_empty pre) raw a = Some (c, data) /\
          no_room (run l_empty pre) = false /\
          e_id e = next_id (run l_empty pre) /\
          sess_conv (e_sess e) = c /\
          e_sess e = fold_left sess_input (fed_seq a c post) (sess_input (sess_new c a) data).
    Proof.
      exact (stream_isolation_from_empty addr_eqb addr_eqb_spec sess_new sess_input sess_conv gate_ok
                                         conv_new conv_input).
    Qed.

    (* the same from any listener satisfying the invariant: a session that was there at the
       start has been fed exactly its share of the whole history *)
    Theorem c11_stream_isolation_general : forall evs (l0 : listener) a e,
        inv l0 -> lookup a (sessions (run l0 evs)) = Some e ->
        exists c,
          (exists e0, lookup a (sessions l0) = Some e0 /\ e_id e = e_id e0 /\
                      c = sess_conv (e_sess e0) /\
                      e_sess e = fold_left sess_input (fed_seq a c evs) (e_sess e0))
          \/
          (exists pre raw post data,
              evs = pre ++ EvPacket raw a :: post /\
              wants_session (run l0 pre) raw a = Some (c, data) /\
              no_room (run l0 pre) = false /\
              e_id e = next_id (run l0 pre) /\
              e_sess e = fold_left sess_input (fed_seq a c post) (sess_input (sess_new c a) data)).
    Proof.
      exact (stream_isolation addr_eqb addr_eqb_spec sess_new sess_input sess_conv gate_ok
                              conv_new conv_input).
    Qed.

    (* one session per conversation: while a session of conversation c lives at a - the
       application has not closed it, its address has not started another conversation - no
       datagram of conversation c from a creates a second session, whatever else happens *)
    Theorem c11_one_session_per_conversation : forall evs (l : listener) a e raw c d,
        inv l -> lookup a (sessions l) = Some e ->
        ~ In (EvCloseEnd (e_id e)) evs ->
        (forall pre raw post, evs = pre ++ EvPacket raw a :: post -> wants_session (run l pre) raw a = None) ->
        wants_session (run l evs) raw a = Some (c, d) -> c <> sess_conv (e_sess e).
    Proof.
      exact (one_session_per_conversation addr_eqb addr_eqb_spec sess_new sess_input sess_conv gate_ok
                                          conv_new conv_input).
    Qed.
  End Isolation.
End C11.

(* ---- the dialled session's read loop -------------------------------------------------------
   remote_set r: r is a *net.UDPAddr, or another net.Addr whose String() is not empty.
   same_source (Listener.v): both UDP with equal port, zone and IP (net.IP.Equal), or the
   remote is not a UDP address and the strings are equal. *)
Theorem c11_dialled_filter :
  (* the loop variables never change and packetInput is called exactly for the datagrams that
     come from the peer's address *)
  (forall froms r, remote_set r ->
      filter_run (filter_init (Some r)) froms = (filter_init (Some r), map (same_source r) froms)) /\
  (forall r from, remote_set r -> dialled_accepts r from = same_source r from) /\
  (* a session dialled to a UDP address ignores every other port, zone, IP and every non-UDP
     source *)
  (forall ip p z s from, dialled_accepts (NUdp ip p z s) from = true ->
      exists ip' p' z' s', from = NUdp ip' p' z' s' /\ p' = p /\ bytes_eqb z z' = true /\ ip_equal ip ip' = true) /\
  (* without a remote address the first datagram's source is adopted, then as above *)
  (forall x froms, remote_set x ->
      filter_run (filter_init None) (x :: froms) = (filter_init (Some x), true :: map (same_source x) froms)).
Proof.
  exact (conj filter_run_fixed (conj dialled_accepts_iff (conj dialled_udp_rejects filter_run_unset))).
Qed.

Print Assumptions c11_invariant.
Print Assumptions c11_frame.
Print Assumptions c11_one_accept.
Print Assumptions c11_live_session_reachable.
Print Assumptions c11_no_merge.
Print Assumptions c11_no_merge_undecidable.
Print Assumptions c11_stream_isolation.
Print Assumptions c11_stream_isolation_general.
Print Assumptions c11_one_session_per_conversation.
Print Assumptions c11_dialled_filter.

(* ---- non-vacuity: concrete, non-trivial listeners (Examples.v; addresses are numbers, the
   gate is the identity, sessions record what they are fed) -------------------------------- *)

(* the byte-level reader on every packet type *)
Example c11_parse_examples :
  parse_conv (push 7 3) = HConv 7 3 /\
  parse_conv (fecdata 12 (push 9 0)) = HConv 9 0 /\
  parse_conv (parity 14) = HNoConv /\
  parse_conv (fecdata 12 [1; 2; 3; 4; 5; 6]) = HNoConv /\
  parse_conv (oob 5 [1; 2]) = HConv 5 0 /\
  parse_conv (firstn 20 (push 7 3)) = HReturn /\
  too_short (firstn 11 (push 7 3)) = true /\ too_short (oob 5 []) = false.
Proof. exact parse_examples. Qed.

(* a history with two peers sharing a conv, a third address, foreign / reset / parity / OOB /
   short datagrams, an Accept and a Close in two steps with a datagram in between: the
   invariant holds at its end, and the table, the queue and the feed logs are as stated *)
Example c11_history_example :
  xinv xfinal /\
  map (fun x => (fst x, e_id (snd x), r_conv (e_sess (snd x)), length (r_log (e_sess (snd x))))) (sessions xfinal)
  = [(2, 2, 9, 1%nat); (3, 3, 7, 1%nat); (1, 4, 7, 1%nat)] /\
  accepts xfinal = [(2, 1); (2, 2); (3, 3); (1, 4)] /\ next_id xfinal = 5 /\ pending xfinal = [] /\
  option_map (fun e => r_log (e_sess e))
             (lookup Z.eqb 1 (sessions (xrun l_empty (firstn 12 xhistory))))
  = Some [push 7 0; push 7 1; fecdata 0 (push 7 2); parity 2; push 7 3].
Proof.
  exact (conj xfinal_inv (conj (proj1 xfinal_shape) (conj (proj1 (proj2 xfinal_shape))
        (conj (proj1 (proj2 (proj2 xfinal_shape))) (conj (proj2 (proj2 (proj2 xfinal_shape))) xfed_session0))))).
Qed.

(* the hypotheses of c11_no_merge are satisfiable, and its outcomes occur *)
Example c11_no_merge_example :
  lookup Z.eqb 2 (sessions xmid) = Some (mkE 1 false (mkR 7 2 [push 7 0])) /\
  xpkt xmid (push 9 1) 2 = xmid /\
  lookup Z.eqb 2 (sessions (xpkt xmid (push 9 0) 2)) = Some (mkE 2 false (mkR 9 2 [push 9 0])) /\
  lookup Z.eqb 1 (sessions (xpkt xmid (push 9 0) 2)) = lookup Z.eqb 1 (sessions xmid).
Proof. exact xno_merge_cases. Qed.

(* a full backlog (128 queued sessions): the 129th peer is dropped without state and is
   accepted as soon as one Accept has made room; a reset while full closes without replacing *)
Example c11_full_backlog_example :
  backlog_full xfull = true /\ length (accepts xfull) = 128%nat /\
  lookup Z.eqb 500 (sessions xfull) = None /\
  xpkt xfull (push 7 0) 500 = xfull /\
  lookup Z.eqb 5 (sessions (xpkt xfull (push 8 0) 5)) = None /\
  length (accepts (xpkt xfull (push 8 0) 5)) = 128%nat /\
  let l1 := xstep xfull EvAccept in
  creation_event Z.eqb xconv xgate l1 (push 7 0) 500 = true /\
  lookup Z.eqb 500 (sessions (xpkt l1 (push 7 0) 500)) = Some (mkE 128 false (mkR 7 500 [push 7 0])) /\
  backlog_full (xpkt l1 (push 7 0) 500) = true.
Proof. exact xfull_backlog. Qed.

(* Listener.Close: queued sessions are closed and removed, the accepted one is still served,
   nothing is created afterwards *)
Example c11_closed_listener_example :
  let l := xrun l_empty xclosing in
  closed l = true /\ accepts l = [] /\ pending l = [] /\ next_id l = 3 /\
  sessions l = [(1, mkE 0 false (mkR 7 1 [push 7 0; push 7 1]))] /\
  dequeued_log Z.eqb r_new r_input xconv xgate l_empty xclosing = [(1, 0); (2, 1); (3, 2)].
Proof. exact xclosed_listener. Qed.

(* the Close / reset interleaving on the repaired code: the successor stays reachable *)
Example c11_close_race_repaired :
  lookup Z.eqb 1 (sessions (l_close_end Z.eqb xrace_pre 0)) = Some (mkE 1 false (mkR 2 1 [push 2 0])) /\
  let l := xpkt (l_close_end Z.eqb xrace_pre 0) (push 2 1) 1 in
  lookup Z.eqb 1 (sessions l) = Some (mkE 1 false (mkR 2 1 [push 2 0; push 2 1])) /\ next_id l = 2.
Proof. exact xrace_repaired. Qed.

(* regression note: what Listener.closeSession(remote) - delete by address - did on the same
   interleaving before the repair: the live successor lost its entry, and its peer's next
   datagram created a second session for the same peer and conversation *)
Example c11_close_by_addr_legacy_regression :
  lookup Z.eqb 1 (sessions (close_by_addr_legacy Z.eqb xrace_pre 0)) = None /\
  accepts (close_by_addr_legacy Z.eqb xrace_pre 0) = [(1, 1)] /\
  let l := xpkt (close_by_addr_legacy Z.eqb xrace_pre 0) (push 2 1) 1 in
  lookup Z.eqb 1 (sessions l) = Some (mkE 2 false (mkR 2 1 [push 2 1])) /\
  accepts l = [(1, 1); (1, 2)].
Proof. exact xrace_legacy. Qed.

(* the dialled filter on concrete addresses: IPv4 and IPv4-in-IPv6 forms are the same peer;
   another port, zone, IP or a non-UDP address printing the same are not *)
Example c11_dialled_filter_example :
  filter_run (filter_init (Some xremote))
             [NUdp ip4 9000 [] [49]; NUdp ip16 9001 [] [50]; NUdp ip16 9000 [101] [51];
              NOther [49]; NUdp [10; 1; 1; 2] 9000 [] [52]; xremote]
  = (filter_init (Some xremote), [true; false; false; false; false; true]) /\
  snd (filter_run (filter_init None) [NOther [120]; NUdp ip4 1 [] [120]; NOther [121]; NOther [120]])
  = [true; true; false; true].
Proof. exact xfilter. Qed.
