(* Concrete, non-trivial listeners for the statements of C11.v: addresses are numbers, the
   integrity gate is the identity (no cipher configured), sessions are recording sessions. *)
From Coq Require Import ZArith List Bool Lia.
From KV.Base Require Import Consts Word.
From KV.Listener Require Import Listener TableLemmas ListenerProofs.
Import ListNotations.
Local Open Scope Z_scope.

Definition xgate (raw : bytes) : option bytes := Some raw.
Definition xconv (s : rsess Z) : Z := r_conv s.
Notation xlistener := (@listener Z (rsess Z)).
Definition xpkt (l : xlistener) raw a := l_packet_input Z.eqb r_new r_input xconv xgate l raw a.
Definition xstep : xlistener -> event -> xlistener := step Z.eqb r_new r_input xconv xgate.
Definition xrun : xlistener -> list event -> xlistener := run Z.eqb r_new r_input xconv xgate.
Definition xinv : xlistener -> Prop := @inv Z (rsess Z).

(* a KCP segment: conv cmd frg wnd ts sn una len data *)
Definition seg (conv cmd sn : Z) (data : bytes) : bytes :=
  le32 conv ++ [cmd; 0] ++ le16 32 ++ le32 0 ++ le32 sn ++ le32 0 ++ le32 (blen data) ++ data.
Definition push (conv sn : Z) : bytes := seg conv 81 sn [conv mod 256; sn mod 256].
(* FEC framing: seqid, type, (size), body *)
Definition fecdata (seqid : Z) (inner : bytes) : bytes :=
  le32 seqid ++ le16 c_typeData ++ le16 (blen inner + 2) ++ inner.
Definition parity (seqid : Z) : bytes := le32 seqid ++ le16 c_typeParity ++ repeat 7 30.
Definition oob (conv : Z) (payload : bytes) : bytes :=
  le32 4294967295 ++ le16 c_typeOOB ++ le16 (blen payload + 6) ++ le32 conv ++ payload.

Lemma parse_examples :
  parse_conv (push 7 3) = HConv 7 3 /\
  parse_conv (fecdata 12 (push 9 0)) = HConv 9 0 /\
  parse_conv (parity 14) = HNoConv /\
  parse_conv (fecdata 12 [1; 2; 3; 4; 5; 6]) = HNoConv /\
  parse_conv (oob 5 [1; 2]) = HConv 5 0 /\
  parse_conv (firstn 20 (push 7 3)) = HReturn /\
  too_short (firstn 11 (push 7 3)) = true /\ too_short (oob 5 []) = false.
Proof. vm_compute. repeat split; reflexivity. Qed.

(* two peers with the SAME conv on different addresses, a third address; stale, foreign,
   reset, parity, OOB, junk; Accept and a Close in two steps *)
Definition xhistory : list (@event Z) :=
  [ EvPacket (push 7 0) 1;                 (* peer 1 connects, conv 7 *)
    EvPacket (push 7 0) 2;                 (* peer 2 connects, same conv *)
    EvPacket (push 7 1) 1;
    EvPacket (push 9 1) 2;                 (* peer 2, another conversation, not its first packet: ignored *)
    EvPacket (fecdata 0 (push 7 2)) 1;
    EvAccept;
    EvPacket (parity 2) 1;                 (* unreadable conv: handed to the session of peer 1 *)
    EvPacket (firstn 20 (push 7 5)) 1;     (* too short for a header: dropped *)
    EvPacket (push 9 0) 2;                 (* peer 2 starts conversation 9: session replaced *)
    EvPacket (oob 7 [42]) 3;               (* OOB from a new address: a new peer *)
    EvCloseBegin 0;                        (* the application closes peer 1's session ... *)
    EvPacket (push 7 3) 1;                 (* ... a datagram in between is still dispatched *)
    EvCloseEnd 0;
    EvPacket (push 7 4) 1 ].               (* boundary B9: peer 1 is a new peer now *)

Definition xfinal : xlistener := xrun l_empty xhistory.

Lemma xfinal_inv : xinv xfinal.
Proof. apply inv_run. exact Z.eqb_eq. apply inv_empty. Qed.

Lemma xfinal_shape :
  map (fun x => (fst x, e_id (snd x), r_conv (e_sess (snd x)), length (r_log (e_sess (snd x))))) (sessions xfinal)
  = [(2, 2, 9, 1%nat); (3, 3, 7, 1%nat); (1, 4, 7, 1%nat)] /\
  accepts xfinal = [(2, 1); (2, 2); (3, 3); (1, 4)] /\ next_id xfinal = 5 /\ pending xfinal = [].
Proof. vm_compute. repeat split; reflexivity. Qed.

(* what peer 1's first session (id 0) had been fed when it was closed: its own five datagrams,
   nothing of peer 2 although the conv is the same *)
Lemma xfed_session0 :
  option_map (fun e => r_log (e_sess e))
             (lookup Z.eqb 1 (sessions (xrun l_empty (firstn 12 xhistory))))
  = Some [push 7 0; push 7 1; fecdata 0 (push 7 2); parity 2; push 7 3].
Proof. vm_compute. reflexivity. Qed.

(* the three outcomes of c11_no_merge on a state with a live session of conversation 7 at 2 *)
Definition xmid : xlistener := xrun l_empty (firstn 3 xhistory).
Lemma xno_merge_cases :
  lookup Z.eqb 2 (sessions xmid) = Some (mkE 1 false (mkR 7 2 [push 7 0])) /\
  xpkt xmid (push 9 1) 2 = xmid /\
  lookup Z.eqb 2 (sessions (xpkt xmid (push 9 0) 2)) = Some (mkE 2 false (mkR 9 2 [push 9 0])) /\
  lookup Z.eqb 1 (sessions (xpkt xmid (push 9 0) 2)) = lookup Z.eqb 1 (sessions xmid).
Proof. vm_compute. repeat split; reflexivity. Qed.

(* a full backlog: 128 new peers are queued, the 129th is dropped without any state, and is
   accepted as soon as one Accept has made room *)
Definition xfull : xlistener :=
  xrun l_empty (map (fun i => EvPacket (push 7 0) (Z.of_nat i)) (seq 0 128)).
Lemma xfull_backlog :
  backlog_full xfull = true /\ length (accepts xfull) = 128%nat /\
  lookup Z.eqb 500 (sessions xfull) = None /\
  xpkt xfull (push 7 0) 500 = xfull /\
  (* a live address starting a new conversation while the queue is full loses its session *)
  lookup Z.eqb 5 (sessions (xpkt xfull (push 8 0) 5)) = None /\
  length (accepts (xpkt xfull (push 8 0) 5)) = 128%nat /\
  let l1 := xstep xfull EvAccept in
  creation_event Z.eqb xconv xgate l1 (push 7 0) 500 = true /\
  lookup Z.eqb 500 (sessions (xpkt l1 (push 7 0) 500)) = Some (mkE 128 false (mkR 7 500 [push 7 0])) /\
  backlog_full (xpkt l1 (push 7 0) 500) = true.
Proof. vm_compute. repeat split; reflexivity. Qed.

(* Listener.Close: l.die closed, then the backlog is drained and every queued session closed.
   Accepted sessions stay and are still fed; no new session is created afterwards. *)
Definition xclosing : list (@event Z) :=
  [ EvPacket (push 7 0) 1; EvPacket (push 7 0) 2; EvPacket (push 7 0) 3; EvAccept;
    EvListenerClose;
    EvBacklogClose; EvCloseEnd 1; EvBacklogClose; EvCloseEnd 2;
    EvPacket (push 7 1) 1;                 (* the accepted session is still served *)
    EvPacket (push 7 0) 4;                 (* a new peer: nothing is created any more *)
    EvPacket (push 7 0) 2 ].               (* nor for a peer whose queued session was closed *)
Lemma xclosed_listener :
  let l := xrun l_empty xclosing in
  closed l = true /\ accepts l = [] /\ pending l = [] /\ next_id l = 3 /\
  sessions l = [(1, mkE 0 false (mkR 7 1 [push 7 0; push 7 1]))] /\
  dequeued_log Z.eqb r_new r_input xconv xgate l_empty xclosing = [(1, 0); (2, 1); (3, 2)].
Proof. vm_compute. repeat split; reflexivity. Qed.

(* ---- regression note: the Close race that the repaired removeSession excludes ----------- *)
(* s0 (conv 1) accepted at address 1; the application's Close closes `die`; the peer's new
   conversation (conv 2) replaces s0 by s1; the parked Close finishes. *)
Definition xrace_pre : xlistener :=
  xrun l_empty [EvPacket (push 1 0) 1; EvAccept; EvCloseBegin 0; EvPacket (push 2 0) 1].

Lemma xrace_repaired :
  lookup Z.eqb 1 (sessions (l_close_end Z.eqb xrace_pre 0)) = Some (mkE 1 false (mkR 2 1 [push 2 0])) /\
  (* the successor keeps receiving its peer's datagrams and no second session appears *)
  let l := xpkt (l_close_end Z.eqb xrace_pre 0) (push 2 1) 1 in
  lookup Z.eqb 1 (sessions l) = Some (mkE 1 false (mkR 2 1 [push 2 0; push 2 1])) /\ next_id l = 2.
Proof. vm_compute. repeat split; reflexivity. Qed.

Lemma xrace_legacy :
  (* before the repair (closeSession deleted by address): the live successor s1 - queued,
     never closed - lost its table entry, and its peer's next datagram created a second
     session for the same peer and conversation *)
  lookup Z.eqb 1 (sessions (close_by_addr_legacy Z.eqb xrace_pre 0)) = None /\
  accepts (close_by_addr_legacy Z.eqb xrace_pre 0) = [(1, 1)] /\
  let l := xpkt (close_by_addr_legacy Z.eqb xrace_pre 0) (push 2 1) 1 in
  lookup Z.eqb 1 (sessions l) = Some (mkE 2 false (mkR 2 1 [push 2 1])) /\
  accepts l = [(1, 1); (1, 2)].
Proof. vm_compute. repeat split; reflexivity. Qed.

(* ---- the dialled filter on concrete addresses ------------------------------------------- *)
Definition ip4 : bytes := [10; 1; 1; 1].
Definition ip16 : bytes := v4InV6Prefix ++ ip4.
Definition xremote : naddr := NUdp ip16 9000 [] [49].
Lemma xfilter :
  filter_run (filter_init (Some xremote))
             [NUdp ip4 9000 [] [49]; NUdp ip16 9001 [] [50]; NUdp ip16 9000 [101] [51];
              NOther [49]; NUdp [10; 1; 1; 2] 9000 [] [52]; xremote]
  = (filter_init (Some xremote), [true; false; false; false; false; true]) /\
  snd (filter_run (filter_init None) [NOther [120]; NUdp ip4 1 [] [120]; NOther [121]; NOther [120]])
  = [true; true; false; true].
Proof. vm_compute. split; reflexivity. Qed.
