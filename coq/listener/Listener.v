(* Executable model of the listener demultiplexer of sess.go - Listener.packetInput,
   AcceptKCP, UDPSession.Close of a listener session in its two steps (die closed / flush /
   Listener.removeSession), Listener.Close with closeBacklog - and of the source-address
   filter of a dialled session's read loop (readloop.go / readloop_linux.go).

   No proofs in this file.

   What is abstract (Section variables, instantiated by the OCaml driver and by the callers of
   the theorems):
     addr        the key of l.sessions, i.e. the value of addr.String()
     sess        one session object (UDPSession: core + FEC decoder + OOB hook)
     sess_new    newUDPSession(conv, ..., remote): a fresh session with empty queues
     sess_input  UDPSession.kcpInput(data): everything a datagram payload does to a session
     sess_conv   s.kcp.conv
     gate_ok     the integrity gate at the top of Listener.packetInput: None = dropped by the
                 length test / AEAD open / CRC compare, Some data = the decrypted payload
                 (the inside of the gate is property C06's model).

   Boundaries modelled as the code has them: an OOB datagram has a readable conv and sn = 0,
   so an OOB datagram of another conversation resets the session (B3); a parity packet has
   no readable conv and is handed to the live session (B3); there is no FIN, so after a
   server-side Close the address has no session and the peer's next datagram creates one
   (B9). *)
From Coq Require Import ZArith List Bool.
From KV.Base Require Import Consts Word.
Import ListNotations.
Local Open Scope Z_scope.

Definition bytes := list Z.
Definition blen (d : bytes) : Z := Z.of_nat (length d).
Definition drop (n : Z) (d : bytes) : bytes := skipn (Z.to_nat n) d.

(* ------------------------------------------------------------------------------------ *)
(* Reading conv and sn out of a gate-passing payload: sess.go 1203-1235.                 *)

Inductive hdr :=
| HReturn                 (* `return` inside the switch: the datagram is dropped outright *)
| HNoConv                 (* hasConv = false *)
| HConv (conv sn : Z).    (* hasConv = true; sn stays 0 where the code does not read it *)

Definition parse_conv (data : bytes) : hdr :=
  (* fecFlag := binary.LittleEndian.Uint16(data[4:]) *)
  let fecFlag := rd16 (drop 4 data) in
  if fecFlag =? c_typeData then
    (* case typeData: if len(data) < fecHeaderSizePlus2+IKCP_OVERHEAD { break } *)
    if blen data <? c_fecHeaderSizePlus2 + c_IKCP_OVERHEAD then HNoConv
    else HConv (rd32 (drop c_fecHeaderSizePlus2 data))
               (rd32 (drop (c_fecHeaderSizePlus2 + c_IKCP_SN_OFFSET) data))
  else if fecFlag =? c_typeParity then
    (* case typeParity: nothing readable *)
    HNoConv
  else if fecFlag =? c_typeOOB then
    (* case typeOOB: conv right after the FEC header; sn is left 0 *)
    HConv (rd32 (drop c_fecHeaderSizePlus2 data)) 0
  else
    (* default: packet without FEC *)
    if blen data <? c_IKCP_OVERHEAD then HReturn
    else HConv (rd32 data) (rd32 (drop c_IKCP_SN_OFFSET data)).

(* the minimum-size test after the gate: len(data) < min(IKCP_OVERHEAD, fecHeaderSizePlus2+convSize) *)
Definition too_short (data : bytes) : bool :=
  blen data <? Z.min c_IKCP_OVERHEAD (c_fecHeaderSizePlus2 + c_convSize).

(* ------------------------------------------------------------------------------------ *)
(* The session table: an association list with at most one entry per key.                *)

Section Table.
  Context {K V : Type} (eqb : K -> K -> bool).

  Fixpoint lookup (k : K) (t : list (K * V)) : option V :=
    match t with
    | [] => None
    | (k', v) :: r => if eqb k k' then Some v else lookup k r
    end.

  (* delete(m, k) *)
  Fixpoint remove_key (k : K) (t : list (K * V)) : list (K * V) :=
    match t with
    | [] => []
    | (k', v) :: r => if eqb k k' then remove_key k r else (k', v) :: remove_key k r
    end.

  (* m[k] = v *)
  Definition set_key (k : K) (v : V) (t : list (K * V)) : list (K * V) :=
    remove_key k t ++ [(k, v)].

  (* in-place mutation of the object stored under k *)
  Fixpoint replace_key (k : K) (v : V) (t : list (K * V)) : list (K * V) :=
    match t with
    | [] => []
    | (k', v') :: r => if eqb k k' then (k', v) :: r else (k', v') :: replace_key k v r
    end.
End Table.

(* ------------------------------------------------------------------------------------ *)

Section Listener.
  Context {addr : Type} (addr_eqb : addr -> addr -> bool).
  Context {sess : Type}
          (sess_new : Z -> addr -> sess)
          (sess_input : sess -> bytes -> sess)
          (sess_conv : sess -> Z).
  Context (gate_ok : bytes -> option bytes).

  (* A session object with its identity (the order of creation on this listener; in Go the
     identity is the pointer) and whether its `die` channel is closed (Close has begun). *)
  Record entry := mkE { e_id : Z; e_dead : bool; e_sess : sess }.

  Record listener := mkL {
    sessions : list (addr * entry);   (* l.sessions *)
    accepts  : list (addr * Z);       (* content of l.chAccepts, oldest first: (remote, id) *)
    next_id  : Z;                     (* sessions created so far *)
    closed   : bool;                  (* l.die closed *)
    pending  : list (Z * addr)        (* Close calls of the application that have closed `die`
                                         and have not yet reached removeSession: (id, remote) *)
  }.

  Definition l_empty : listener := mkL [] [] 0 false [].

  (* len(l.chAccepts) >= cap(l.chAccepts) *)
  Definition backlog_full (l : listener) : bool :=
    c_acceptBacklog <=? Z.of_nat (length (accepts l)).

  (* s.kcpInput(data) on the session stored under a *)
  Definition feed (l : listener) (a : addr) (e : entry) (data : bytes) : listener :=
    mkL (replace_key addr_eqb a (mkE (e_id e) (e_dead e) (sess_input (e_sess e) data)) (sessions l))
        (accepts l) (next_id l) (closed l) (pending l).

  (* the table entry of a leaves the table *)
  Definition close_at (l : listener) (a : addr) : listener :=
    mkL (remove_key addr_eqb a (sessions l)) (accepts l) (next_id l) (closed l) (pending l).

  (* s.Close() called from packetInput on the session e stored under a.  If the application's
     Close of that session has already closed `die` (dieOnce), this call returns ErrClosedPipe
     and does nothing - the entry stays until that other Close reaches removeSession.
     Otherwise the whole Close runs here: die, flush, removeSession(s) - s is the entry of a,
     so it is deleted. *)
  Definition reset_close (l : listener) (a : addr) (e : entry) : listener :=
    if e_dead e then l else close_at l a.

  (* a closed listener creates no more sessions; nor does one whose backlog is full *)
  Definition no_room (l : listener) : bool := closed l || backlog_full l.

  (* sess.go, tail of packetInput: die test, backlog test, newUDPSession, kcpInput, table
     insert, queue append.  (The closeBacklog call after the append only matters when
     Listener.Close ran between the die test and the append; the outcome is then that of
     the order "packetInput, then Listener.Close".) *)
  Definition create (l : listener) (conv : Z) (data : bytes) (a : addr) : listener :=
    if no_room l then l
    else
      let s := sess_input (sess_new conv a) data in
      mkL (set_key addr_eqb a (mkE (next_id l) false s) (sessions l))
          (accepts l ++ [(a, next_id l)])
          (next_id l + 1) (closed l) (pending l).

  (* Listener.packetInput(data, addr) *)
  Definition l_packet_input (l : listener) (raw : bytes) (a : addr) : listener :=
    match gate_ok raw with
    | None => l
    | Some data =>
      if too_short data then l
      else
        let ex := lookup addr_eqb a (sessions l) in
        match parse_conv data with
        | HReturn => l
        | HNoConv =>
            match ex with
            | Some e => feed l a e data           (* !hasConv: fed to the existing session *)
            | None => l                           (* no session and no conv: dropped *)
            end
        | HConv conv sn =>
            match ex with
            | Some e =>
                if conv =? sess_conv (e_sess e) then feed l a e data
                else if negb (sn =? 0) then l     (* other conversation, not its first packet *)
                else create (reset_close l a e) conv data a  (* reset: Close, then a fresh session *)
            | None => create l conv data a
            end
        end
    end.

  (* AcceptKCP when it returns a session: the oldest queued one. *)
  Definition l_accept (l : listener) : option (addr * Z) * listener :=
    match accepts l with
    | [] => (None, l)
    | x :: r => (Some x, mkL (sessions l) r (next_id l) (closed l) (pending l))
    end.

  (* UDPSession.Close of the session with identity id by the application, in its two steps.

     Step 1 (dieOnce.Do): `die` is closed.  Only the first Close of a session gets further;
     a session that is not in the table any more has been closed before (it left the table
     through a Close), so there is nothing to do for it either. *)
  Fixpoint key_of_id (id : Z) (t : list (addr * entry)) : option (addr * entry) :=
    match t with
    | [] => None
    | (a, e) :: r => if e_id e =? id then Some (a, e) else key_of_id id r
    end.

  Definition l_close_begin (l : listener) (id : Z) : listener :=
    match key_of_id id (sessions l) with
    | Some (a, e) =>
        if e_dead e then l
        else mkL (replace_key addr_eqb a (mkE (e_id e) true (e_sess e)) (sessions l))
                 (accepts l) (next_id l) (closed l) ((id, a) :: pending l)
    | None => l
    end.

  Fixpoint pending_addr (id : Z) (p : list (Z * addr)) : option addr :=
    match p with
    | [] => None
    | (i, a) :: r => if i =? id then Some a else pending_addr id r
    end.

  Definition pending_remove (id : Z) (p : list (Z * addr)) : list (Z * addr) :=
    filter (fun x => negb (fst x =? id)) p.

  (* Step 2, after the flush under s.mu: Listener.removeSession(s) - the entry under
     s.remote.String() is deleted only if it still is s. *)
  Definition l_close_end (l : listener) (id : Z) : listener :=
    match pending_addr id (pending l) with
    | None => l
    | Some a =>
        let t := match lookup addr_eqb a (sessions l) with
                 | Some e => if e_id e =? id then remove_key addr_eqb a (sessions l) else sessions l
                 | None => sessions l
                 end in
        mkL t (accepts l) (next_id l) (closed l) (pending_remove id (pending l))
    end.

  (* What step 2 did before the repair "a closing session no longer evicts the session that
     replaced it on the listener": Listener.closeSession(remote) deleted whatever was stored
     under the address.  Kept only for the regression example in C11.v. *)
  Definition close_by_addr_legacy (l : listener) (id : Z) : listener :=
    match pending_addr id (pending l) with
    | None => l
    | Some a => mkL (remove_key addr_eqb a (sessions l)) (accepts l) (next_id l) (closed l)
                    (pending_remove id (pending l))
    end.

  (* a Close that is not interleaved with anything *)
  Definition l_close_session (l : listener) (id : Z) : listener :=
    l_close_end (l_close_begin l id) id.

  (* Listener.Close, first step: l.die is closed.  From then on packetInput creates no
     session (datagrams of live sessions are still dispatched). *)
  Definition l_close (l : listener) : listener :=
    mkL (sessions l) (accepts l) (next_id l) true (pending l).

  (* Listener.closeBacklog, one round of its loop: `s := <-l.chAccepts; s.Close()` up to the
     point where `die` of s is closed; the rest of that Close is an EvCloseEnd like any
     other.  (Listener.Close = l_close, then this for every queued session.) *)
  Definition l_backlog_close (l : listener) : listener :=
    match accepts l with
    | [] => l
    | (_, id) :: r => l_close_begin (mkL (sessions l) r (next_id l) (closed l) (pending l)) id
    end.

  (* The atomic sections of the code, in any interleaving: a datagram processed by
     packetInput, an Accept, the two steps of an application's Close, the two kinds of step
     of Listener.Close. *)
  Inductive event :=
  | EvPacket (raw : bytes) (a : addr)
  | EvAccept
  | EvCloseBegin (id : Z)
  | EvCloseEnd (id : Z)
  | EvListenerClose
  | EvBacklogClose.

  Definition step (l : listener) (ev : event) : listener :=
    match ev with
    | EvPacket raw a => l_packet_input l raw a
    | EvAccept => snd (l_accept l)
    | EvCloseBegin id => l_close_begin l id
    | EvCloseEnd id => l_close_end l id
    | EvListenerClose => l_close l
    | EvBacklogClose => l_backlog_close l
    end.

  Definition run (l : listener) (evs : list event) : listener := fold_left step evs l.

  (* ---- the vocabulary of the property, as executable predicates ---------------------- *)

  (* "creation event": the datagram passes the gate, has a readable conv, comes from an
     address with no live session - or with a session of another conversation and sn = 0 -
     and the backlog has room (and the listener is not closed). *)
  Definition wants_session (l : listener) (raw : bytes) (a : addr) : option (Z * bytes) :=
    match gate_ok raw with
    | None => None
    | Some data =>
      if too_short data then None
      else match parse_conv data with
           | HConv conv sn =>
               match lookup addr_eqb a (sessions l) with
               | None => Some (conv, data)
               | Some e => if negb (conv =? sess_conv (e_sess e)) && (sn =? 0)
                           then Some (conv, data) else None
               end
           | _ => None
           end
    end.

  Definition creation_event (l : listener) (raw : bytes) (a : addr) : bool :=
    match wants_session l raw a with
    | Some _ => negb (no_room l)
    | None => false
    end.

  (* what a step appends to the accept queue (read off the queue, not off creation_event) *)
  Definition new_accepts (l : listener) (ev : event) : list (addr * Z) :=
    match ev with
    | EvPacket raw a => skipn (length (accepts l)) (accepts (l_packet_input l raw a))
    | _ => []
    end.

  Fixpoint created_log (l : listener) (evs : list event) : list (addr * Z) :=
    match evs with
    | [] => []
    | ev :: r => new_accepts l ev ++ created_log (step l ev) r
    end.

  (* what leaves the accept queue: handed to the application by Accept, or taken (and
     closed) by Listener.Close *)
  Definition dequeued (l : listener) (ev : event) : list (addr * Z) :=
    match ev with
    | EvAccept | EvBacklogClose => match accepts l with x :: _ => [x] | [] => [] end
    | _ => []
    end.

  Fixpoint dequeued_log (l : listener) (evs : list event) : list (addr * Z) :=
    match evs with
    | [] => []
    | ev :: r => dequeued l ev ++ dequeued_log (step l ev) r
    end.

  Fixpoint creation_events_at (a : addr) (l : listener) (evs : list event) : nat :=
    match evs with
    | [] => 0%nat
    | ev :: r =>
        (match ev with
         | EvPacket raw b => if addr_eqb b a && creation_event l raw b then 1%nat else 0%nat
         | _ => 0%nat
         end + creation_events_at a (step l ev) r)%nat
    end.

  Definition count_at (a : addr) (log : list (addr * Z)) : nat :=
    length (filter (fun x => addr_eqb (fst x) a) log).

  (* The payload that a session of conversation conv living at address a is fed by one event:
     a gate-passing, long-enough datagram FROM a whose conv is the session's, or is not
     readable (parity / short FEC data packet). *)
  Definition for_conv (conv : Z) (data : bytes) : bool :=
    match parse_conv data with
    | HReturn => false
    | HNoConv => true
    | HConv c _ => c =? conv
    end.

  Definition fed_by (a : addr) (conv : Z) (ev : event) : list bytes :=
    match ev with
    | EvPacket raw b =>
        if addr_eqb b a then
          match gate_ok raw with
          | Some data => if negb (too_short data) && for_conv conv data then [data] else []
          | None => []
          end
        else []
    | _ => []
    end.

  Definition fed_seq (a : addr) (conv : Z) (evs : list event) : list bytes :=
    flat_map (fed_by a conv) evs.

End Listener.

Arguments mkE {sess}.
Arguments e_id {sess}.
Arguments e_dead {sess}.
Arguments e_sess {sess}.
Arguments mkL {addr sess}.
Arguments sessions {addr sess}.
Arguments accepts {addr sess}.
Arguments next_id {addr sess}.
Arguments closed {addr sess}.
Arguments pending {addr sess}.
Arguments l_empty {addr sess}.
Arguments EvPacket {addr}.
Arguments EvAccept {addr}.
Arguments EvCloseBegin {addr}.
Arguments EvCloseEnd {addr}.
Arguments EvListenerClose {addr}.
Arguments EvBacklogClose {addr}.

(* ------------------------------------------------------------------------------------ *)
(* The recording session used by the differential run and by the examples: its state is the
   conversation id, its remote address and the list of payloads it has been fed.           *)

Record rsess (addr : Type) := mkR { r_conv : Z; r_addr : addr; r_log : list bytes }.
Arguments mkR {addr}.
Arguments r_conv {addr}.
Arguments r_addr {addr}.
Arguments r_log {addr}.
Definition r_new {addr : Type} (conv : Z) (a : addr) : rsess addr := mkR conv a [].
Definition r_input {addr : Type} (s : rsess addr) (d : bytes) : rsess addr :=
  mkR (r_conv s) (r_addr s) (r_log s ++ [d]).

(* ------------------------------------------------------------------------------------ *)
(* The source filter of a dialled session: defaultReadLoop / readLoop (x/net version).    *)

(* A net.Addr as the read loop sees it: a *net.UDPAddr (IP, Port, Zone; `str` is what
   String() returns) or any other implementation (only String() is used). *)
Inductive naddr :=
| NUdp (ip : bytes) (port : Z) (zone : bytes) (str : bytes)
| NOther (str : bytes).

Definition naddr_str (a : naddr) : bytes :=
  match a with NUdp _ _ _ s => s | NOther s => s end.

Fixpoint bytes_eqb (x y : bytes) : bool :=
  match x, y with
  | [], [] => true
  | a :: x', b :: y' => (a =? b) && bytes_eqb x' y'
  | _, _ => false
  end.

(* net.IP.Equal: same length -> same bytes; a 4-byte and a 16-byte form are equal when the
   long one is the IPv4-in-IPv6 form of the short one. *)
Definition v4InV6Prefix : bytes := [0; 0; 0; 0; 0; 0; 0; 0; 0; 0; 255; 255].
Definition ip_equal (ip x : bytes) : bool :=
  if (length ip =? length x)%nat then bytes_eqb ip x
  else if ((length ip =? 4) && (length x =? 16))%nat then
    bytes_eqb (firstn 12 x) v4InV6Prefix && bytes_eqb ip (skipn 12 x)
  else if ((length ip =? 16) && (length x =? 4))%nat then
    bytes_eqb (firstn 12 ip) v4InV6Prefix && bytes_eqb (skipn 12 ip) x
  else false.

(* sameUDPAddr for two non-nil addresses *)
Definition same_udp_addr (a b : bytes * Z * bytes) : bool :=
  let '(ipa, pa, za) := a in
  let '(ipb, pb, zb) := b in
  if negb (pa =? pb) || negb (bytes_eqb za zb) then false else ip_equal ipa ipb.

(* the loop's two variables: src *net.UDPAddr (None = nil) and srcStr *)
Record fstate := mkF { f_src : option (bytes * Z * bytes); f_str : bytes }.

(* before the loop: from s.remote (None = nil) *)
Definition filter_init (remote : option naddr) : fstate :=
  match remote with
  | None => mkF None []
  | Some (NUdp ip p z _) => mkF (Some (ip, p, z)) []
  | Some (NOther s) => mkF None s
  end.

(* one datagram: new loop variables, and whether s.packetInput is called *)
Definition filter_step (f : fstate) (from : naddr) : fstate * bool :=
  match f_src f with
  | None =>
      match f_str f with
      | [] =>   (* src == nil && srcStr == "": adopt the first source *)
          (match from with
           | NUdp ip p z _ => mkF (Some (ip, p, z)) []
           | NOther s => mkF None s
           end, true)
      | _ => (f, bytes_eqb (naddr_str from) (f_str f))      (* addr.String() != srcStr -> continue *)
      end
  | Some src =>
      (f, match from with
          | NUdp ip p z _ => same_udp_addr src (ip, p, z)    (* !ok || !sameUDPAddr -> continue *)
          | NOther _ => false
          end)
  end.

Fixpoint filter_run (f : fstate) (froms : list naddr) : fstate * list bool :=
  match froms with
  | [] => (f, [])
  | x :: r => let '(f1, b) := filter_step f x in
              let '(f2, bs) := filter_run f1 r in (f2, b :: bs)
  end.

Definition dialled_accepts (remote from : naddr) : bool :=
  snd (filter_step (filter_init (Some remote)) from).

(* "comes from its peer's address", written from the property text *)
Definition same_source (remote from : naddr) : bool :=
  match remote with
  | NUdp ip p z _ =>
      match from with
      | NUdp ip' p' z' _ => (p =? p') && bytes_eqb z z' && ip_equal ip ip'
      | NOther _ => false
      end
  | NOther s => bytes_eqb (naddr_str from) s
  end.
