(* C13 - blocked Read / Write / Accept always wake: data, deadline, close, error.
   Statements only; every proof is `exact <lemma of WaitProofs / ProofsExamples>`.

   Reading guide.
   * `skel` (GenWait.v) is REGENERATED from /repo/sess.go on every run; Model.v interprets it.
     So every theorem below is about what the source says now; a source edit that changes a
     skeleton (reordered select, dropped `goto RESET_TIMER`, missing drain, `c` not restored,
     a removed notify) changes the term the theorems are checked against.
   * `sreach d st` : st is reachable in system d by ANY number of steps in ANY interleaving of
     the thread steps and the environment steps of d (Explore.reachable).
   * Each theorem is `computed check = true` (vm_compute, inside the kernel) lifted by
     Explore.explore_sound / check_sound, which is proved once by induction over `reachable`.
   * `async : bool` quantifies over both timer-channel semantics (pre-1.23 and Go >= 1.23).
   * Deadline changes are BROADCAST (type deadlineSignal in sess.go): `changed := X.watch()` at
     RESET_TIMER (SWatch, a yield point: the call can be preempted between the watch and the load
     of the deadline), `case <-changed:` in the select (RcvChanged), `X.broadcast()` in the setters
     (PBroadcast).  The translator also compares the bodies of watch/broadcast with the text these
     primitives were modelled from.
   * Systems (Systems.v): sys_tm = one call against an environment that may do everything
     the rest of the program can do to it, including other callers stealing its wake-up token
     and consuming data / window (hence any number of concurrent callers, for per-call safety);
     sys_1 = one caller of a kind, calls repeated; sys_n .. n = explicit product of n identical
     callers; sys_rearm = deadline stored before the call, replaced but never cleared;
     sys_change_n .. n wake = n identical callers while the deadline they wait on is set, replaced
     and cleared in every order (and, with wake, their wake-up event happens now and then).
     sys_n has no deadline setter in its environment: there the yield point after watch() is left
     out (s_gap = false) and the bundles check that no caller ever finds its generation moved.
   * `witness d inv labels` : the labelled path `labels` (found by the checker's breadth-first
     search, re-validated step by step against `next`) leads from an initial state of d to a
     state where `inv` is false.  These paths are the scripts of the harness scenarios.      *)
From Coq Require Import List Bool PArith.
From KV.Wait Require Import Ir GenWait Model Explore Systems WaitLemmas Fixed.
From KV.Wait Require Import ProofsRead ProofsWrite ProofsAccept ProofsMulti ProofsChange ProofsFixed WaitProofs ProofsExamples.
Import ListNotations.

(* The real theorem behind every `= true` below: whatever `explore` returns contains every
   reachable state. *)
Theorem c13_explore_sound :
  forall (St Lab : Type) (eqb : St -> St -> bool), (forall a b, eqb a b = true -> a = b) ->
  forall (key : St -> positive) (init : list St) (next : St -> list (Lab * St)) (fuel : nat) (R : list St),
    explore eqb key init next fuel = Some R ->
    forall s, reachable init next s -> In s R.
Proof. exact explore_sound. Qed.
Print Assumptions c13_explore_sound.

(* ------------------------------------------------------------------------------------------
   never before the deadline *)

(* The interpreter never leaves its domain (no nil-timer dereference, no double close, no lock
   misuse) and a timeout is returned only on a value sent by the timer's CURRENT arming, i.e.
   at a clock >= the deadline that was stored when the timer was last (re)armed.  One call
   against the thread-modular environment: holds with any number of other callers. *)
Theorem c13_no_early_timeout :
  forall (c : caller) (async : bool) (st : state),
    sreach (sys_tm skel c async) st ->
    inv_ok st = true /\ inv_no_early st = true.
Proof. exact no_early_timeout. Qed.
Print Assumptions c13_no_early_timeout.

(* Read / Write / Accept, one caller: with the deadline cleared and no wake-up pending the timeout
   case is disabled; and a timeout before the STORED deadline is possible only while a wake-up is
   pending for the call (boundary B11: the select found both ready and picked the timer). *)
Theorem c13_no_early_timeout_cleared :
  forall (c : caller) (async : bool) (st : state),
    sreach (sys_1 skel c async) st ->
    inv_cleared (sys_1 skel c async) st = true /\
    inv_no_early_quiet (sys_1 skel c async) st = true.
Proof. exact no_early_cleared. Qed.
Print Assumptions c13_no_early_timeout_cleared.

(* The strong reading (boundary B11 closed by re-validating the stored deadline when the timer
   fires): Read / Write / Accept return a timeout only when the deadline stored AT THAT MOMENT
   has passed - any number of callers (thread-modular), one caller, and two callers parked under
   a deadline that is then extended. *)
Theorem c13_no_early_timeout_strong :
  forall (c : caller) (async : bool) (st : state),
    (sreach (sys_tm skel c async) st -> inv_no_early_strong (sys_tm skel c async) st = true) /\
    (sreach (sys_1 skel c async) st -> inv_no_early_strong (sys_1 skel c async) st = true) /\
    (sreach (sys_extend_n skel c 2 async) st -> inv_no_early_strong (sys_extend_n skel c 2 async) st = true).
Proof. exact no_early_strong. Qed.
Print Assumptions c13_no_early_timeout_strong.

(* ------------------------------------------------------------------------------------------
   deadline changes while blocked *)

(* Full statement, every caller kind (F10, F11 and F12 repaired): in every reachable state, a
   parked call with no wake-up pending and a deadline stored has its timeout case enabled on a
   timer armed for THAT deadline - whatever SetReadDeadline / SetWriteDeadline /
   Listener.SetReadDeadline values (none->set, set->later/earlier, set->zero->set, past,
   cleared) were stored while it was parked - and when the stored deadline has expired the
   timeout case can fire. *)
Theorem c13_deadline_change_seen :
  forall (c : caller) (async : bool) (st : state),
    sreach (sys_1 skel c async) st ->
    inv_deadline_seen (sys_1 skel c async) st = true /\
    inv_expiry_wakes (sys_1 skel c async) st = true.
Proof. exact deadline_change_seen_all. Qed.
Print Assumptions c13_deadline_change_seen.

(* The special case of a deadline stored before the call and replaced (later / earlier / already
   past) while the call is parked - never cleared - in the smaller system without the other
   setters (kept: it was the provable part before the repairs). *)
Theorem c13_deadline_rearm :
  forall (c : caller) (async : bool) (st : state),
    sreach (sys_rearm skel c async) st ->
    inv_ok st = true /\
    inv_deadline_seen (sys_rearm skel c async) st = true /\
    inv_expiry_wakes (sys_rearm skel c async) st = true.
Proof. exact deadline_rearm_partial. Qed.
Print Assumptions c13_deadline_rearm.

(* SEVERAL callers (the statement that was false while a deadline change was announced by ONE
   wake-up token; true since the setters broadcast).  Goroutines blocked in the same call - Read,
   Write, Accept (c) - while SetReadDeadline / SetWriteDeadline / Listener.SetReadDeadline store
   every value (no deadline, a future instant, an instant already past) in every order and any number
   of times, starting without a deadline, with a pending one or with an expired one: the classes
   none->set, set->later, set->earlier, set->zero->set, set->past and cleared are all paths of the two
   systems below.
     First conjunct, ANY number of callers: one call against everything the rest of the program can
   do to it (sys_tm: the setters, the clock, its timer, data / acknowledgements / new peers arriving,
   Close, socket errors, and OTHER CALLERS taking the wake-up token, the data, the window room, the
   queued session).  Because a change is broadcast, following it does not depend on winning anything
   against the other callers, so the statement is one about each call.
     Second conjunct, literally: the product of TWO callers (sys_change_n .. 2), every interleaving of
   the two, the setters, the clock and the runtime's timers.  (The products of two callers with their
   own wake-up event interleaved and of THREE callers are c13_deadline_change_seen_products in C13n.v.)
   In EVERY reachable state and for EVERY caller:
     inv_ok               the interpreter never left its domain;
     inv_no_early_strong  a timeout is returned only when the deadline stored at that moment has
                          passed (nobody returns it earlier);
     inv_cleared          parked, nothing pending, no deadline stored: the timeout case is disabled;
     inv_deadline_seen    parked, nothing pending, a deadline stored: the timeout case is enabled
                          on a timer armed for THAT deadline (not for a replaced one);
     inv_expiry_wakes /   parked, nothing pending, the stored deadline has expired: the timer's
     inv_expiry_returns   value is in the channel and the caller's step returns the timeout, or the
                          timer is armed for that deadline and due, so that the runtime delivers it
                          (nobody stays parked past the deadline);
     inv_changed_moves    whenever the signal a caller watches has been broadcast, that caller has
                          an enabled step (every caller is told, not one).
   "nothing pending" = no deadline change, token or queued session is waiting for that caller; a
   caller for which something is pending has an enabled step and reaches one of these states again. *)
Theorem c13_deadline_change_seen_multi :
  forall (c : caller) (async : bool) (st : state),
    (let d := sys_tm skel c async in
     sreach d st ->
     inv_ok st = true /\ inv_no_early_strong d st = true /\ inv_cleared d st = true /\
     inv_deadline_seen d st = true /\ inv_expiry_wakes d st = true /\
     inv_expiry_returns d st = true /\ inv_changed_moves d st = true) /\
    (let d := sys_change_n skel c 2 false async in
     sreach d st ->
     inv_ok st = true /\ inv_no_early_strong d st = true /\ inv_cleared d st = true /\
     inv_deadline_seen d st = true /\ inv_expiry_wakes d st = true /\
     inv_expiry_returns d st = true /\ inv_changed_moves d st = true).
Proof. exact deadline_change_seen_multi. Qed.
Print Assumptions c13_deadline_change_seen_multi.

(* The environment procedures run atomically in the model, so the order INSIDE a setter is a
   statement about its skeleton: every deadline setter is straight-line code in which the
   broadcast of a deadline's signal comes after the Store of that deadline (a setter that
   broadcast first could wake a caller that re-loads the old value and parks again). *)
Theorem c13_setters_store_then_broadcast : setter_order_ok skel = true.
Proof. exact setters_store_then_broadcast. Qed.
Print Assumptions c13_setters_store_then_broadcast.

(* What the broadcast replaced, kept as a witness that the several-callers statement is not
   vacuous: with the callers and setters of the one-token design (Fixed.v: fixed_skel FixAll2 =
   Read / WriteBuffers before the broadcast, setters posting the data / window token) the labelled
   paths given lead to a state where a caller is parked, nothing is pending for it and it has no
   timer for the stored deadline - thread-modular (the call parks, a deadline is set, ANOTHER caller
   takes the token) and in the product of two (both park, a deadline is set, the caller that gets the
   token re-arms, the other one is left behind). *)
Theorem c13_single_token_refuted :
  forall (async : bool),
    witness (sys_tm (fixed_skel FixAll2) Reader async)
            (inv_deadline_seen (sys_tm (fixed_skel FixAll2) Reader async))
            [LThread 0; LThread 0; LThread 0; LSetRD DFuture; LStealR] /\
    witness (sys_tm (fixed_skel FixAll2) Writer async)
            (inv_deadline_seen (sys_tm (fixed_skel FixAll2) Writer async))
            [LThread 0; LThread 0; LThread 0; LSetWD DFuture; LStealW] /\
    witness (sys_change_n (fixed_skel FixAll2) Reader 2 false async)
            (inv_deadline_seen (sys_change_n (fixed_skel FixAll2) Reader 2 false async))
            [LThread 0; LThread 0; LThread 0; LThread 1; LThread 1; LThread 1; LSetRD DFuture; LThread 0] /\
    witness (sys_change_n (fixed_skel FixAll2) Writer 2 false async)
            (inv_deadline_seen (sys_change_n (fixed_skel FixAll2) Writer 2 false async))
            [LThread 0; LThread 0; LThread 0; LThread 1; LThread 1; LThread 1; LSetWD DFuture; LThread 0].
Proof.
  intro a. repeat split; apply found_witness;
    [exact (single_token_leaves_multi_tm_read a) | exact (single_token_leaves_multi_tm_write a)
    | exact (single_token_leaves_multi_read a) | exact (single_token_leaves_multi_write a)].
Qed.
Print Assumptions c13_single_token_refuted.

(* ------------------------------------------------------------------------------------------
   close and socket error are broadcast *)

(* In every reachable state with die (the listener's die) closed, every parked call has an
   enabled step that returns ErrClosedPipe and every call that is not parked can move.
   Thread-modular (any number of callers) and literally for products of 2 and 3 callers. *)
Theorem c13_close_wakes_all :
  forall (c : caller) (async : bool) (st : state),
    (sreach (sys_tm skel c async) st -> inv_close_wakes (sys_tm skel c async) st = true) /\
    (sreach (sys_n skel c 2 async) st -> inv_close_wakes (sys_n skel c 2 async) st = true) /\
    (sreach (sys_n skel c 3 async) st -> inv_close_wakes (sys_n skel c 3 async) st = true).
Proof. exact close_wakes_all. Qed.
Print Assumptions c13_close_wakes_all.

Theorem c13_error_wakes_all :
  forall (c : caller) (async : bool) (st : state),
    (sreach (sys_tm skel c async) st -> inv_error_wakes (sys_tm skel c async) st = true) /\
    (sreach (sys_n skel c 2 async) st -> inv_error_wakes (sys_n skel c 2 async) st = true) /\
    (sreach (sys_n skel c 3 async) st -> inv_error_wakes (sys_n skel c 3 async) st = true).
Proof. exact error_wakes_all. Qed.
Print Assumptions c13_error_wakes_all.

(* After Close: a Write that started after Close never succeeds; a locked check of Read that
   finds data returns it whether or not the session is closed; a Read that started after Close
   with data buffered does not fail; Close closes, its first call does not report
   ErrClosedPipe and every later call does (session and listener). *)
Theorem c13_after_close :
  forall (async : bool) (st : state),
    (sreach (sys_tm skel Writer async) st -> inv_write_after_close st = true) /\
    (sreach (sys_tm skel Reader async) st -> inv_data_first (sys_tm skel Reader async) st = true) /\
    (sreach (sys_1 skel Reader async) st -> inv_read_drains st = true) /\
    (forall c : caller, sreach (sys_1 skel c async) st ->
                        inv_second_close (sys_1 skel c async) (close_fn c) st = true).
Proof. exact after_close. Qed.
Print Assumptions c13_after_close.

(* ------------------------------------------------------------------------------------------
   no lost wake-up *)

(* One caller of a kind: parked with its condition true => its wake-up is pending. *)
Theorem c13_single_waiter_no_lost_wakeup :
  forall (c : caller) (async : bool) (st : state),
    sreach (sys_1 skel c async) st ->
    inv_ok st = true /\ inv_single (sys_1 skel c async) st = true.
Proof. exact single_waiter_no_lost_wakeup. Qed.
Print Assumptions c13_single_waiter_no_lost_wakeup.

(* the same with SetDeadline (which stores and broadcasts both deadlines) as the deadline setter *)
Theorem c13_single_waiter_set_deadline :
  forall (async : bool) (st : state),
    (sreach (sys_1d skel Reader async) st -> inv_single (sys_1d skel Reader async) st = true) /\
    (sreach (sys_1d skel Writer async) st -> inv_single (sys_1d skel Writer async) st = true).
Proof. exact single_waiter_set_deadline. Qed.
Print Assumptions c13_single_waiter_set_deadline.

(* Several writers: whenever a parked writer has room, no token and nobody in flight, the
   session is closed (which wakes everybody) or the periodic update() is enabled and its one
   step posts the token. *)
Theorem c13_multi_writer :
  forall (async : bool) (st : state),
    (sreach (sys_n skel Writer 2 async) st -> inv_multi_writer (sys_n skel Writer 2 async) st = true) /\
    (sreach (sys_n skel Writer 3 async) st -> inv_multi_writer (sys_n skel Writer 3 async) st = true).
Proof. exact multi_writer. Qed.
Print Assumptions c13_multi_writer.

(* Several accepters: the backlog channel is itself the queue: nothing is left unclaimed. *)
Theorem c13_multi_accepter :
  forall (async : bool) (st : state),
    (sreach (sys_n skel Accepter 2 async) st -> inv_multi (sys_n skel Accepter 2 async) st = true) /\
    (sreach (sys_n skel Accepter 3 async) st -> inv_multi (sys_n skel Accepter 3 async) st = true).
Proof. exact multi_accepter. Qed.
Print Assumptions c13_multi_accepter.

(* F4 repaired: with 2 and 3 readers, a parked reader with data readable has a token pending or
   another reader is between its wake-up and its locked check. *)
Theorem c13_multi_reader :
  forall (async : bool) (st : state),
    (sreach (sys_n skel Reader 2 async) st -> inv_multi (sys_n skel Reader 2 async) st = true) /\
    (sreach (sys_n skel Reader 3 async) st -> inv_multi (sys_n skel Reader 3 async) st = true).
Proof. exact multi_reader. Qed.
Print Assumptions c13_multi_reader.

(* ------------------------------------------------------------------------------------------
   the proposed repairs (Fixed.v: f11 + f12 + f4), checked against the same statements:
   every per-call safety statement still holds; the FULL deadline-change statement and the
   expiry statement hold for Read and Write with every SetDeadline value incl. clearing; with
   2 and 3 readers data is never left unclaimed.  When the repairs are committed, the
   `_refuted` theorems above stop compiling and these statements, with `fixed_skel FixAll`
   replaced by `skel`, take their place. *)
Theorem c13_repairs_checked :
  forall (async : bool) (st : state),
    (forall c, c <> Accepter -> sreach (sys_tm (fixed_skel FixAll) c async) st ->
               tm_inv (sys_tm (fixed_skel FixAll) c async) st = true) /\
    (forall c, c <> Accepter -> sreach (sys_1 (fixed_skel FixAll) c async) st ->
               fixed_one_inv c (sys_1 (fixed_skel FixAll) c async) st = true) /\
    (sreach (sys_n (fixed_skel FixAll) Reader 2 async) st ->
     fixed_n_inv (sys_n (fixed_skel FixAll) Reader 2 async) st = true) /\
    (sreach (sys_n (fixed_skel FixAll) Reader 3 async) st ->
     fixed_n_inv (sys_n (fixed_skel FixAll) Reader 3 async) st = true).
Proof. exact fixed_all. Qed.
Print Assumptions c13_repairs_checked.

(* With the further repair `all2` (on `case <-c` re-read the stored deadline and re-arm unless it
   has passed) the STRONG reading of "never before the deadline" holds for Read and Write: a
   timeout is returned only when the deadline stored at that moment has passed - thread-modular
   (any number of callers), for one caller, and for two callers parked under a deadline that is
   then extended (the early timeout of c13_deadline_extend_multi_refuted is gone); everything
   of c13_repairs_checked still holds. *)
Theorem c13_repairs_strong_checked :
  forall (async : bool) (st : state),
    (forall c, c <> Accepter -> sreach (sys_tm (fixed_skel FixAll2) c async) st ->
               strong_tm_inv (sys_tm (fixed_skel FixAll2) c async) st = true) /\
    (forall c, c <> Accepter -> sreach (sys_1 (fixed_skel FixAll2) c async) st ->
               strong_one_inv c (sys_1 (fixed_skel FixAll2) c async) st = true) /\
    (forall c, c <> Accepter -> sreach (sys_extend_n (fixed_skel FixAll2) c 2 async) st ->
               strong_extend_inv (sys_extend_n (fixed_skel FixAll2) c 2 async) st = true) /\
    (sreach (sys_n (fixed_skel FixAll2) Reader 2 async) st ->
     fixed_n_inv (sys_n (fixed_skel FixAll2) Reader 2 async) st = true).
Proof. exact fixed_all2. Qed.
Print Assumptions c13_repairs_strong_checked.

(* ------------------------------------------------------------------------------------------
   non-vacuity *)
Example c13_ex_close : reaches (sys_tm skel Reader false) (ex_closed_parked (sys_tm skel Reader false)).
Proof. exact ex_close. Qed.
Example c13_ex_error : reaches (sys_tm skel Writer false) (ex_err_parked (sys_tm skel Writer false)).
Proof. exact ex_error. Qed.
Example c13_ex_timeouts : forall c, reaches (sys_tm skel c false) ex_timeout.
Proof. exact ex_timeouts. Qed.
Example c13_ex_after_close :
  reaches (sys_1 skel Reader false) ex_drained /\ reaches (sys_1 skel Reader false) ex_failed_after.
Proof. exact ex_after_close. Qed.
Example c13_ex_single : forall c, reaches (sys_1 skel c false) (ex_parked_cond (sys_1 skel c false)).
Proof. exact ex_single. Qed.
Example c13_ex_accept_rearmed :
  reaches (sys_1 skel Accepter false)
          (fun st => existsb (fun t => at_select (sys_1 skel Accepter false) t && timer_follows t &&
                                       match lrd (sh st) with DFuture => true | _ => false end) (ths st)).
Proof. exact ex_accept_rearmed. Qed.
Example c13_ex_rearm : forall c, reaches (sys_rearm skel c false) (ex_rearmed (sys_rearm skel c false)).
Proof. exact ex_rearm. Qed.
Example c13_ex_multi_writer_gap :
  reaches (sys_n skel Writer 2 false) (fun st => negb (inv_multi (sys_n skel Writer 2 false) st)).
Proof. exact ex_multi_writer_gap. Qed.
Example c13_ex_change_multi :
  forall c, reaches (sys_change_n skel c 2 false false) (ex_change_pending_all (sys_change_n skel c 2 false false)).
Proof. exact ex_change_multi. Qed.
Example c13_ex_change_followed :
  forall c, reaches (sys_change_n skel c 2 false false) (ex_change_followed_all (sys_change_n skel c 2 false false)).
Proof. exact ex_change_followed. Qed.
Example c13_ex_change_tm :
  forall c, reaches (sys_tm skel c false) (ex_change_pending_all (sys_tm skel c false)).
Proof. exact ex_change_tm. Qed.
