(* WaitLemmas.v - the bridge from the computed checks to statements about all reachable states. *)
From Coq Require Import List Bool Arith NArith.
From KV.Wait Require Import Ir Model Explore Systems.
Import ListNotations.

Lemma state_beq_eq : forall a b, state_beq a b = true -> a = b.
Proof.
  intros [s1 t1 b1] [s2 t2 b2]; unfold state_beq; simpl; intro H.
  apply andb_true_iff in H. destruct H as [H H3].
  apply andb_true_iff in H. destruct H as [H1 H2].
  apply internal_shared_dec_bl in H1.
  apply internal_list_dec_bl in H2; [|exact internal_thread_dec_bl].
  apply Nat.eqb_eq in H3. subst. reflexivity.
Qed.

(* the verified checker, instantiated: a computed `true` holds in every reachable state *)
Theorem scheck_sound :
  forall d inv, scheck d inv = true -> forall st, sreach d st -> inv st = true.
Proof.
  intros d inv H st Hr. unfold scheck in H.
  eapply check_sound; [exact state_beq_eq | exact H | exact Hr].
Qed.

Theorem srefutes_sound :
  forall d inv s0 tr, srefutes d inv s0 tr = true -> exists st, sreach d st /\ inv st = false.
Proof.
  intros d inv s0 tr H. unfold srefutes in H.
  eapply refutes_sound; [exact state_beq_eq | exact H].
Qed.

Lemma inv_and_in : forall ps st p, inv_and ps st = true -> In p ps -> p st = true.
Proof. unfold inv_and; intros ps st p H Hin. rewrite forallb_forall in H. apply H, Hin. Qed.

(* one exploration serves every weaker invariant: a computed check of p gives the check of any q
   that p implies state by state (same system, same explored set) *)
Lemma scheck_weaken :
  forall d (p q : state -> bool), (forall st, p st = true -> q st = true) ->
    scheck d p = true -> scheck d q = true.
Proof.
  intros d p q Hpq H. unfold scheck, check in *.
  destruct (explore state_beq key (s_init d) (s_next d) BIGFUEL) as [R|]; [|discriminate].
  rewrite forallb_forall in *. intros x Hx. apply Hpq, H, Hx.
Qed.

(* a bundle implies each of its members, and any bundle made of members of it *)
Lemma inv_and_member : forall ps p, In p ps -> forall st, inv_and ps st = true -> p st = true.
Proof. intros ps p Hin st H. eapply inv_and_in; eassumption. Qed.
Lemma inv_and_subset :
  forall ps qs, (forall q, In q qs -> In q ps) -> forall st, inv_and ps st = true -> inv_and qs st = true.
Proof.
  intros ps qs Hsub st H. unfold inv_and. rewrite forallb_forall. intros q Hq.
  eapply inv_and_in; [exact H | apply Hsub, Hq].
Qed.

(* a labelled witness: the path computed by the breadth-first search, re-validated *)
Definition witness (d : sysdef) (inv : state -> bool) (labels : list label) : Prop :=
  exists s0 tr, srefutes d inv s0 tr = true /\ map fst tr = labels.

Lemma witness_refutes :
  forall d inv labels, witness d inv labels -> exists st, sreach d st /\ inv st = false.
Proof. intros d inv labels (s0 & tr & H & _). eapply srefutes_sound; exact H. Qed.

(* proof of a witness statement by running the search and re-validating its result *)
Definition found_ok (d : sysdef) (inv : state -> bool) (labels : list label) : bool :=
  match sfind d inv with
  | Some (s0, tr) => srefutes d inv s0 tr && list_beq label label_beq (map fst tr) labels
  | None => false
  end.

Lemma found_witness : forall d inv labels, found_ok d inv labels = true -> witness d inv labels.
Proof.
  unfold found_ok, witness; intros d inv labels H.
  destruct (sfind d inv) as [[s0 tr]|]; [|discriminate].
  apply andb_true_iff in H. destruct H as [H1 H2].
  exists s0, tr. split; [exact H1|].
  apply internal_list_dec_bl in H2; [exact H2 | exact internal_label_dec_bl].
Qed.

(* existence of a reachable state with a given property (non-vacuity examples) *)
Definition reaches (d : sysdef) (P : state -> bool) : Prop := exists st, sreach d st /\ P st = true.

Definition found_some (d : sysdef) (P : state -> bool) : bool :=
  match sfind d (fun s => negb (P s)) with
  | Some (s0, tr) => srefutes d (fun s => negb (P s)) s0 tr
  | None => false
  end.

Lemma found_reaches : forall d P, found_some d P = true -> reaches d P.
Proof.
  unfold found_some, reaches; intros d P H.
  destruct (sfind d (fun s => negb (P s))) as [[s0 tr]|]; [|discriminate].
  apply srefutes_sound in H. destruct H as (st & Hr & Hp).
  exists st. split; [exact Hr | apply negb_false_iff; exact Hp].
Qed.
