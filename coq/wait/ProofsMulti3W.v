(* ProofsMulti3W.v - products of three identical callers on the generated skeletons: writers
   (one file per statement so that the explorations build in parallel; ProofsMulti3.v re-exports them). *)
From Coq Require Import List Bool.
From KV.Wait Require Import Ir GenWait Model Explore Systems WaitLemmas.
Import ListNotations.

Lemma write_3_checked : forall a, let d := sys_n skel Writer 3 a in scheck d (n_inv Writer d) = true.
Proof. intros []; vm_cast_no_check (eq_refl true). Qed.
