(* Model.v - the labelled transition system of blocked Read / Write / Accept (property C13).

   The threads are INTERPRETED from the generated statement skeletons (GenWait.v, terms of
   Ir.stmt): `run` executes a continuation (a flat list of statements) until the next yield
   point.  Yield points are: function entry, every label, every s.mu.Lock(), every
   `changed := X.watch()` (it takes the signal's mutex: one yield point before and one after
   the watch), every select without a default clause.  Between two yield points a thread only touches its own locals
   (timer, c) or runs one critical section of s.mu, or evaluates a non-blocking select over
   the monotone closed-channel flags; that is the atomicity assumption of the model.
   The environment transitions that exist in the code (kcpInput, update, SetDeadline.., Close,
   socket errors, the Listener's counterparts) are interpreted from their generated skeletons
   too, as one atomic step each; the clock (LTick..), the runtime timers (LFire) and the
   thread-modular interference (LSteal.., LTake..) are written here.

   Abstractions: a stored deadline is DNone / DFuture / DPast (its order relative to `now`);
   an armed timer knows whether `now` has reached the deadline it was armed for (due) and
   whether that deadline is still the stored one (fresh); the core is (readable : saturating
   counter, bufptr non-empty : bool, room : bool); the accept backlog is a saturating counter.
   Deadline-change broadcast (deadlineSignal): the code keeps one generation (a channel that is
   closed and replaced by broadcast()) per deadline and every call remembers the generation it
   watched.  The two are only ever compared for equality (`<-changed` is ready iff the watched
   generation is no longer the current one), so the model keeps exactly that bit per call:
   WSeen w = "watched the current generation of w", WMoved w = "the generation of w has moved
   since" (broadcast turns every WSeen w into WMoved w).  This quotient of (shared counter,
   per-call seen counter) is exact and keeps the state space finite although a setter may be
   called any number of times.
   Timer semantics: `async = true` is the pre-Go-1.23 buffered timer channel (a fired value
   stays in the channel across Stop/Reset), `async = false` is the Go >= 1.23 semantics (Stop and
   Reset leave the channel empty).  Theorems are stated for both.

   No proofs in this file. *)
From Coq Require Import List Bool Arith NArith PArith.
From KV.Wait Require Import Ir.
Import ListNotations.

(* ------------------------------------------------------------------ domains *)
Inductive dlv := DNone | DFuture | DPast.
Inductive tmr := TNil | TIdle | TRun (w : which) (due fresh : bool).
Inductive chv := CEmpty | CCur | CStale.
Inductive wst := WNone | WSeen (w : which) | WMoved (w : which).   (* the local `changed` *)

Record shared := mkShared {
  rtok : bool; wtok : bool;                 (* chReadEvent / chWriteEvent hold a token *)
  die : bool; rerr : bool; werr : bool;     (* closed: die, chSocketReadError, chSocketWriteError *)
  readable : nat; bufptr : bool; room : bool;
  rd : dlv; wd : dlv;
  accepts : nat; ldie : bool; lerr : bool; lrd : dlv;
  o_die : bool; o_rerr : bool; o_werr : bool; o_ldie : bool; o_lerr : bool   (* sync.Once done *)
}.

Record loc := mkLoc { tm : tmr; ch : chv; cv : bool; wt : wst }.   (* timeout, content of timeout.C, c != nil, changed *)

Inductive point := PEntry | PAt (id : nat) | PDone (r : ret) (legit : bool) | PFail (code : nat).

Record thread := mkThread {
  fn : proc; pc : point; lc : loc;
  g_closed : bool;      (* ghost: die (ldie) was closed when the call started *)
  g_data : bool         (* ghost: data was buffered when the call started *)
}.

Record state := mkState { sh : shared; ths : list thread; bad : nat }.

Scheme Equality for which.
Scheme Equality for proc.
Scheme Equality for ret.
Scheme Equality for dlv.
Scheme Equality for tmr.
Scheme Equality for chv.
Scheme Equality for wst.
Scheme Equality for shared.
Scheme Equality for loc.
Scheme Equality for point.
Scheme Equality for thread.
Scheme Equality for list.

Definition state_beq (p q : state) : bool :=
  shared_beq (sh p) (sh q) && list_beq thread thread_beq (ths p) (ths q) && Nat.eqb (bad p) (bad q).

Inductive label :=
| LThread (i : nat)
| LInput (k : nat) (opens : bool)           (* kcpInput of a datagram: k new messages, window opens? *)
| LUpdate
| LSetD (v : dlv) | LSetRD (v : dlv) | LSetWD (v : dlv)
| LClose | LRErr | LWErr
| LLSetD (v : dlv) | LLSetRD (v : dlv) | LLClose | LLErr
| LArrive                                    (* Listener.packetInput: l.chAccepts <- s *)
| LTick (w : which)                          (* now reaches the stored deadline w *)
| LTickStale (i : nat)                       (* now reaches the (replaced) deadline of thread i's timer *)
| LFire (i : nat)                            (* the runtime delivers thread i's due timer *)
| LStealR | LStealW | LStealAccept           (* another caller consumes the token / backlog entry *)
| LTakeData | LTakeBuf | LTakeRoom           (* another caller consumes data / window *)
| LRecall (i : nat).                         (* the finished call is followed by a new one *)

Scheme Equality for label.

(* ------------------------------------------------------------------ setters *)
Definition set_rtok b s := mkShared b (wtok s) (die s) (rerr s) (werr s) (readable s) (bufptr s) (room s) (rd s) (wd s) (accepts s) (ldie s) (lerr s) (lrd s) (o_die s) (o_rerr s) (o_werr s) (o_ldie s) (o_lerr s).
Definition set_wtok b s := mkShared (rtok s) b (die s) (rerr s) (werr s) (readable s) (bufptr s) (room s) (rd s) (wd s) (accepts s) (ldie s) (lerr s) (lrd s) (o_die s) (o_rerr s) (o_werr s) (o_ldie s) (o_lerr s).
Definition set_die b s := mkShared (rtok s) (wtok s) b (rerr s) (werr s) (readable s) (bufptr s) (room s) (rd s) (wd s) (accepts s) (ldie s) (lerr s) (lrd s) (o_die s) (o_rerr s) (o_werr s) (o_ldie s) (o_lerr s).
Definition set_rerr b s := mkShared (rtok s) (wtok s) (die s) b (werr s) (readable s) (bufptr s) (room s) (rd s) (wd s) (accepts s) (ldie s) (lerr s) (lrd s) (o_die s) (o_rerr s) (o_werr s) (o_ldie s) (o_lerr s).
Definition set_werr b s := mkShared (rtok s) (wtok s) (die s) (rerr s) b (readable s) (bufptr s) (room s) (rd s) (wd s) (accepts s) (ldie s) (lerr s) (lrd s) (o_die s) (o_rerr s) (o_werr s) (o_ldie s) (o_lerr s).
Definition set_readable n s := mkShared (rtok s) (wtok s) (die s) (rerr s) (werr s) n (bufptr s) (room s) (rd s) (wd s) (accepts s) (ldie s) (lerr s) (lrd s) (o_die s) (o_rerr s) (o_werr s) (o_ldie s) (o_lerr s).
Definition set_bufptr b s := mkShared (rtok s) (wtok s) (die s) (rerr s) (werr s) (readable s) b (room s) (rd s) (wd s) (accepts s) (ldie s) (lerr s) (lrd s) (o_die s) (o_rerr s) (o_werr s) (o_ldie s) (o_lerr s).
Definition set_room b s := mkShared (rtok s) (wtok s) (die s) (rerr s) (werr s) (readable s) (bufptr s) b (rd s) (wd s) (accepts s) (ldie s) (lerr s) (lrd s) (o_die s) (o_rerr s) (o_werr s) (o_ldie s) (o_lerr s).
Definition set_rd v s := mkShared (rtok s) (wtok s) (die s) (rerr s) (werr s) (readable s) (bufptr s) (room s) v (wd s) (accepts s) (ldie s) (lerr s) (lrd s) (o_die s) (o_rerr s) (o_werr s) (o_ldie s) (o_lerr s).
Definition set_wd v s := mkShared (rtok s) (wtok s) (die s) (rerr s) (werr s) (readable s) (bufptr s) (room s) (rd s) v (accepts s) (ldie s) (lerr s) (lrd s) (o_die s) (o_rerr s) (o_werr s) (o_ldie s) (o_lerr s).
Definition set_accepts n s := mkShared (rtok s) (wtok s) (die s) (rerr s) (werr s) (readable s) (bufptr s) (room s) (rd s) (wd s) n (ldie s) (lerr s) (lrd s) (o_die s) (o_rerr s) (o_werr s) (o_ldie s) (o_lerr s).
Definition set_ldie b s := mkShared (rtok s) (wtok s) (die s) (rerr s) (werr s) (readable s) (bufptr s) (room s) (rd s) (wd s) (accepts s) b (lerr s) (lrd s) (o_die s) (o_rerr s) (o_werr s) (o_ldie s) (o_lerr s).
Definition set_lerr b s := mkShared (rtok s) (wtok s) (die s) (rerr s) (werr s) (readable s) (bufptr s) (room s) (rd s) (wd s) (accepts s) (ldie s) b (lrd s) (o_die s) (o_rerr s) (o_werr s) (o_ldie s) (o_lerr s).
Definition set_lrd v s := mkShared (rtok s) (wtok s) (die s) (rerr s) (werr s) (readable s) (bufptr s) (room s) (rd s) (wd s) (accepts s) (ldie s) (lerr s) v (o_die s) (o_rerr s) (o_werr s) (o_ldie s) (o_lerr s).

Definition once_done (o : once) (s : shared) : bool :=
  match o with ODie => o_die s | ORErr => o_rerr s | OWErr => o_werr s | OLDie => o_ldie s | OLErr => o_lerr s end.
Definition set_once (o : once) (s : shared) : shared :=
  match o with
  | ODie => mkShared (rtok s) (wtok s) (die s) (rerr s) (werr s) (readable s) (bufptr s) (room s) (rd s) (wd s) (accepts s) (ldie s) (lerr s) (lrd s) true (o_rerr s) (o_werr s) (o_ldie s) (o_lerr s)
  | ORErr => mkShared (rtok s) (wtok s) (die s) (rerr s) (werr s) (readable s) (bufptr s) (room s) (rd s) (wd s) (accepts s) (ldie s) (lerr s) (lrd s) (o_die s) true (o_werr s) (o_ldie s) (o_lerr s)
  | OWErr => mkShared (rtok s) (wtok s) (die s) (rerr s) (werr s) (readable s) (bufptr s) (room s) (rd s) (wd s) (accepts s) (ldie s) (lerr s) (lrd s) (o_die s) (o_rerr s) true (o_ldie s) (o_lerr s)
  | OLDie => mkShared (rtok s) (wtok s) (die s) (rerr s) (werr s) (readable s) (bufptr s) (room s) (rd s) (wd s) (accepts s) (ldie s) (lerr s) (lrd s) (o_die s) (o_rerr s) (o_werr s) true (o_lerr s)
  | OLErr => mkShared (rtok s) (wtok s) (die s) (rerr s) (werr s) (readable s) (bufptr s) (room s) (rd s) (wd s) (accepts s) (ldie s) (lerr s) (lrd s) (o_die s) (o_rerr s) (o_werr s) (o_ldie s) true
  end.

Definition dl (w : which) (s : shared) : dlv := match w with RD => rd s | WD => wd s | LRD => lrd s end.
Definition set_dl (w : which) (v : dlv) (s : shared) : shared :=
  match w with RD => set_rd v s | WD => set_wd v s | LRD => set_lrd v s end.

(* saturating counters: the value `cap` stands for "cap or more" *)
Definition sat_inc (cap n : nat) : nat := Nat.min cap (S n).
Definition sat_add (cap n k : nat) : nat := Nat.min cap (n + k).
Definition sat_dec (cap n : nat) : list nat :=
  match n with O => [] | S m => if Nat.eqb n cap then [n; m] else [m] end.

(* ------------------------------------------------------------------ frames *)
(* What a running activation owns besides the thread's persistent locals. *)
Record frame := mkFrame {
  f_loc : loc;
  f_once : bool;            (* the local `once` of Close *)
  f_held : bool;            (* s.mu held *)
  f_dunlock : bool;         (* defer s.mu.Unlock() registered *)
  f_legit : bool;           (* the value received from c was sent by the current arming *)
  f_argd : dlv;             (* argument t of SetDeadline* *)
  f_argk : nat;             (* messages carried by the datagram handed to kcpInput *)
  f_argo : bool;            (* that datagram acknowledges enough to open the window *)
  f_stored : list which;    (* deadlines stored by this activation *)
  f_bcast : list which;     (* deadline signals broadcast by this activation *)
  f_bad : nat               (* non-zero: the code did something the model has no semantics for *)
}.

Definition fr_loc l f := mkFrame l (f_once f) (f_held f) (f_dunlock f) (f_legit f) (f_argd f) (f_argk f) (f_argo f) (f_stored f) (f_bcast f) (f_bad f).
Definition fr_once b f := mkFrame (f_loc f) b (f_held f) (f_dunlock f) (f_legit f) (f_argd f) (f_argk f) (f_argo f) (f_stored f) (f_bcast f) (f_bad f).
Definition fr_held b f := mkFrame (f_loc f) (f_once f) b (f_dunlock f) (f_legit f) (f_argd f) (f_argk f) (f_argo f) (f_stored f) (f_bcast f) (f_bad f).
Definition fr_dunlock b f := mkFrame (f_loc f) (f_once f) (f_held f) b (f_legit f) (f_argd f) (f_argk f) (f_argo f) (f_stored f) (f_bcast f) (f_bad f).
Definition fr_legit b f := mkFrame (f_loc f) (f_once f) (f_held f) (f_dunlock f) b (f_argd f) (f_argk f) (f_argo f) (f_stored f) (f_bcast f) (f_bad f).
Definition fr_noinput f := mkFrame (f_loc f) (f_once f) (f_held f) (f_dunlock f) (f_legit f) (f_argd f) 0 false (f_stored f) (f_bcast f) (f_bad f).
Definition fr_stored w f := mkFrame (f_loc f) (f_once f) (f_held f) (f_dunlock f) (f_legit f) (f_argd f) (f_argk f) (f_argo f) (w :: f_stored f) (f_bcast f) (f_bad f).
Definition fr_bcast w f := mkFrame (f_loc f) (f_once f) (f_held f) (f_dunlock f) (f_legit f) (f_argd f) (f_argk f) (f_argo f) (f_stored f) (w :: f_bcast f) (f_bad f).
Definition fr_bad n f := mkFrame (f_loc f) (f_once f) (f_held f) (f_dunlock f) (f_legit f) (f_argd f) (f_argk f) (f_argo f) (f_stored f) (f_bcast f) n.

Definition fr_tm t f := fr_loc (mkLoc t (ch (f_loc f)) (cv (f_loc f)) (wt (f_loc f))) f.
Definition fr_ch c f := fr_loc (mkLoc (tm (f_loc f)) c (cv (f_loc f)) (wt (f_loc f))) f.
Definition fr_cv b f := fr_loc (mkLoc (tm (f_loc f)) (ch (f_loc f)) b (wt (f_loc f))) f.
Definition fr_wt x f := fr_loc (mkLoc (tm (f_loc f)) (ch (f_loc f)) (cv (f_loc f)) x) f.

Definition frame0 (l : loc) (d : dlv) (k : nat) (o : bool) : frame :=
  mkFrame l false false false true d k o [] [] 0.

(* error codes (f_bad / PFail / bad) *)
Definition E_FUEL := 1.        Definition E_ASSIGN := 2.      Definition E_LABEL := 3.
Definition E_BLOCK_ATOMIC := 4. Definition E_RELOCK := 5.      Definition E_UNLOCK := 6.
Definition E_RET_LOCKED := 7.  Definition E_NIL_TIMER := 8.   Definition E_RECV_EMPTY := 9.
Definition E_DOUBLE_CLOSE := 10. Definition E_YIELD_LOCKED := 11. Definition E_ENV_YIELD := 12.
Definition E_NO_POINT := 13.   Definition E_THREAD_BCAST := 14.

(* ------------------------------------------------------------------ timers *)
Section Sem.
Variable async : bool.                      (* pre-1.23 timer channels *)
Variable cap : nat.                         (* saturation bound of the counters *)
Variable prog : proc -> list stmt.          (* the skeletons *)
Variable gap : bool.                        (* the yield point AFTER `changed := X.watch()` exists.  false only in
                                               systems whose environment never broadcasts (no deadline setter):
                                               there the generation never moves, watch() commutes with every
                                               other step and the point would only multiply the states; those
                                               systems check `no caller ever finds its generation moved` *)
Variable ghost : bool.                      (* track the g_closed / g_data history flags *)

Definition is_nil (t : tmr) : bool := match t with TNil => true | _ => false end.
Definition ch_nonempty (c : chv) : bool := match c with CEmpty => false | _ => true end.

(* timeout.Stop(): possible (result, frame) pairs *)
Definition timer_stop (f : frame) : list (bool * frame) :=
  let l := f_loc f in
  match tm l with
  | TNil => [(false, fr_bad E_NIL_TIMER f)]
  | TIdle =>
      if async then [(false, f)]
      else if ch_nonempty (ch l) then [(true, fr_ch CEmpty f); (false, fr_ch CEmpty f)]
      else [(false, f)]
  | TRun _ _ _ =>
      let f' := fr_tm TIdle f in
      [(true, if async then f' else fr_ch CEmpty f')]
  end.

Definition timer_arm (w : which) (s : shared) : tmr :=
  TRun w (match dl w s with DFuture => false | _ => true end) true.

Definition timer_new (w : which) (f : frame) (s : shared) : frame :=
  fr_ch CEmpty (fr_tm (timer_arm w s) f).

Definition timer_reset (w : which) (f : frame) (s : shared) : frame :=
  let l := f_loc f in
  match tm l with
  | TNil => fr_bad E_NIL_TIMER f
  | _ =>
    let c' := if async then (if ch_nonempty (ch l) then CStale else CEmpty) else CEmpty in
    fr_ch c' (fr_tm (timer_arm w s) f)
  end.

(* ------------------------------------------------------------------ leaves *)
Definition eval_cond (c : cond) (f : frame) (s : shared) : list (bool * frame) :=
  match c with
  | CDeadlineSet w => [(match dl w s with DNone => false | _ => true end, f)]
  | CDeadlineNotDue w => [(match dl w s with DPast => false | _ => true end, f)]
  | CTimerNil => [(is_nil (tm (f_loc f)), f)]
  | CTimerNonNil => [(negb (is_nil (tm (f_loc f))), f)]
  | CNotTimerStop => map (fun bf : bool * frame => (negb (fst bf), snd bf)) (timer_stop f)
  | CBufNonEmpty => [(bufptr s, f)]
  | CPeekPositive => [(negb (Nat.eqb (readable s) 0), f)]
  | CHasData => [(bufptr s || negb (Nat.eqb (readable s) 0), f)]
  | CRoom => [(room s, f)]
  | CNotOnce => [(negb (f_once f), f)]
  | CData => [(true, f); (false, f)]
  end.

Definition close_flag (already : bool) (f : frame) : frame :=
  if already then fr_bad E_DOUBLE_CLOSE f else f.

Definition exec_prim (p : prim) (f : frame) (s : shared) : list (frame * shared) :=
  match p with
  | PNop | PDeferTimerStop | PFlush | PStoreErr | PResched | PPropagateErr | PProc _ => [(f, s)]
  | PTimerNew w => [(timer_new w f s, s)]
  | PTimerReset w => [(timer_reset w f s, s)]
  | PTimerStop => map (fun bf : bool * frame => (snd bf, s)) (timer_stop f)
  | PDeferUnlock => [(fr_dunlock true f, s)]
  | PAdvanceBuf => [(f, set_bufptr true s); (f, set_bufptr false s)]
  | PRecv =>
      match sat_dec cap (readable s) with
      | [] => [(fr_bad E_RECV_EMPTY f, s)]
      | l => map (fun n => (f, set_readable n s)) l
      end
  | PSetBufRest => [(f, set_bufptr true s)]
  | PCloseBacklog => [(f, set_accepts 0 s)]
  | PSendAll => [(f, set_room true s); (f, set_room false s)]
  | PInput =>
      let s1 := set_readable (sat_add cap (readable s) (f_argk f)) s in
      let s2 := if f_argo f then set_room true s1 else s1 in
      [(fr_noinput f, s2)]
  | PStore w => [(fr_stored w f, set_dl w (f_argd f) s)]
  | PBroadcast w => [(fr_bcast w f, s)]      (* applied to the callers by env_call *)
  | PCloseDie => [(close_flag (die s) f, set_die true s)]
  | PCloseRErr => [(close_flag (rerr s) f, set_rerr true s)]
  | PCloseWErr => [(close_flag (werr s) f, set_werr true s)]
  | PCloseLDie => [(close_flag (ldie s) f, set_ldie true s)]
  | PCloseLErr => [(close_flag (lerr s) f, set_lerr true s)]
  end.

Definition ready (op : chanop) (f : frame) (s : shared) : bool :=
  match op with
  | RcvReadEvent => rtok s
  | RcvWriteEvent => wtok s
  | RcvC => cv (f_loc f) && ch_nonempty (ch (f_loc f))
  | RcvTimerC => ch_nonempty (ch (f_loc f))
  | RcvRErr => rerr s
  | RcvWErr => werr s
  | RcvDie => die s
  | RcvAccept => negb (Nat.eqb (accepts s) 0)
  | RcvLErr => lerr s
  | RcvLDie => ldie s
  | SndReadEvent => negb (rtok s)
  | SndWriteEvent => negb (wtok s)
  | RcvChanged => match wt (f_loc f) with WMoved _ => true | _ => false end
  end.

Definition fire (op : chanop) (f : frame) (s : shared) : list (frame * shared) :=
  match op with
  | RcvReadEvent => [(f, set_rtok false s)]
  | RcvWriteEvent => [(f, set_wtok false s)]
  | RcvC => [(fr_ch CEmpty (fr_legit (match ch (f_loc f) with CCur => true | _ => false end) f), s)]
  | RcvTimerC => [(fr_ch CEmpty f, s)]
  | RcvRErr | RcvWErr | RcvDie | RcvLErr | RcvLDie => [(f, s)]
  | RcvAccept => map (fun n => (f, set_accepts n s)) (sat_dec cap (accepts s))
  | SndReadEvent => [(f, set_rtok true s)]
  | SndWriteEvent => [(f, set_wtok true s)]
  | RcvChanged => [(f, s)]      (* a closed channel stays ready until the next watch() *)
  end.

Definition uses_timer_c (cases : list (chanop * list stmt)) : bool :=
  existsb (fun c : chanop * list stmt => match fst c with RcvTimerC => true | _ => false end) cases.

(* ------------------------------------------------------------------ continuations *)
Definition orelse {A} (a b : option A) : option A := match a with Some _ => a | None => b end.

(* the continuation that starts at yield point `id` of the block `ss` followed by `k` *)
Fixpoint find_point (fuel : nat) (id : nat) (ss k : list stmt) : option (list stmt) :=
  match fuel with
  | O => None
  | S n =>
    match ss with
    | [] => None
    | st :: rest =>
      let k' := rest ++ k in
      let here :=
        match st with
        | SLabel i | SLock i => if Nat.eqb i id then Some (st :: k') else None
        | SWatch i _ =>
            (* two yield points: i = before the watch, S i = after it (the watch is done) *)
            if Nat.eqb i id then Some (st :: k')
            else if Nat.eqb (S i) id then Some (SCall PNop :: k') else None
        | SSelect i cases d =>
            if Nat.eqb i id then Some (st :: k')
            else orelse
                   ((fix go (cs : list (chanop * list stmt)) : option (list stmt) :=
                       match cs with
                       | [] => None
                       | c :: r => orelse (find_point n id (snd c) k') (go r)
                       end) cases)
                   (match d with Some b => find_point n id b k' | None => None end)
        | SIf _ a b => orelse (find_point n id a k') (find_point n id b k')
        | SLoop body => find_point n id body (st :: k')
        | SChoice alts =>
            (fix go (l : list (list stmt)) : option (list stmt) :=
               match l with
               | [] => None
               | a :: r => orelse (find_point n id a k') (go r)
               end) alts
        | SOnce _ b => find_point n id b k'
        | _ => None
        end in
      match here with
      | Some r => Some r
      | None => find_point n id rest k
      end
    end
  end.

Definition FUEL := 400.

Definition cont_at (f : proc) (id : nat) : option (list stmt) := find_point FUEL id (prog f) [].

(* ------------------------------------------------------------------ the interpreter *)
Inductive res :=
| RYield (id : nat) (f : frame) (s : shared)
| RDone (r : ret) (f : frame) (s : shared)
| RFail (code : nat).

Definition finish (r : ret) (f : frame) (s : shared) : list res :=
  if f_held f && negb (f_dunlock f) then [RFail E_RET_LOCKED] else [RDone r (fr_held false f) s].

Definition yield (id : nat) (f : frame) (s : shared) : list res :=
  if f_held f then [RFail E_YIELD_LOCKED] else [RYield id f s].

(* `me`: the function whose body `k` belongs to (for goto); `atomic`: environment procedure,
   runs to completion; `first`: the head of `k` is the yield point the thread resumes at. *)
Fixpoint run (fuel : nat) (me : proc) (atomic first : bool) (k : list stmt) (f : frame) (s : shared)
  : list res :=
  match fuel with
  | O => [RFail E_FUEL]
  | S n =>
    if negb (Nat.eqb (f_bad f) 0) then [RFail (f_bad f)] else
    match k with
    | [] => finish RVoid f s
    | st :: k' =>
      match st with
      | SAssign VC ENil => run n me atomic false k' (fr_cv false f) s
      | SAssign VC ETimerC =>
          if is_nil (tm (f_loc f)) then [RFail E_NIL_TIMER]
          else run n me atomic false k' (fr_cv true f) s
      | SAssign VOnce ETrue => run n me atomic false k' (fr_once true f) s
      | SAssign _ _ => [RFail E_ASSIGN]
      | SIf c th el =>
          flat_map (fun bf : bool * frame => run n me atomic false ((if fst bf then th else el) ++ k') (snd bf) s)
                   (eval_cond c f s)
      | SLoop body => run n me atomic false (body ++ st :: k') f s
      | SLabel id =>
          (* a label directly followed by `changed := X.watch()`: the label's yield point and the
             one before the watch are the same point (nothing lies between them), so a call
             resumed at the label goes on into the watch *)
          if atomic then run n me atomic false k' f s
          else if first then run n me atomic (match k' with SWatch _ _ :: _ => true | _ => false end) k' f s
          else yield id f s
      | SGoto id =>
          match cont_at me id with
          | Some k2 => run n me atomic false k2 f s
          | None => [RFail E_LABEL]
          end
      | SSelect id cases dflt =>
          if uses_timer_c cases && is_nil (tm (f_loc f)) then [RFail E_NIL_TIMER] else
          let rdy := filter (fun c : chanop * list stmt => ready (fst c) f s) cases in
          let take :=
            flat_map (fun c : chanop * list stmt => flat_map (fun fs : frame * shared => run n me atomic false (snd c ++ k') (fst fs) (snd fs))
                                        (fire (fst c) f s)) rdy in
          match dflt with
          | Some d => match rdy with [] => run n me atomic false (d ++ k') f s | _ => take end
          | None =>
              if atomic then [RFail E_BLOCK_ATOMIC]
              else if first then take          (* [] = blocked *)
              else yield id f s
          end
      | SChoice alts => flat_map (fun a => run n me atomic false (a ++ k') f s) alts
      | SLock id =>
          if f_held f then [RFail E_RELOCK]
          else if atomic || first then run n me atomic false k' (fr_held true f) s
          else yield id f s
      | SWatch id w =>
          (* like s.mu.Lock() the call may be preempted BEFORE it takes the signal's mutex (yield
             point id); once the generation is recorded it may be preempted again before its next
             statement (yield point S id).  Either way a setter can run between the watch and
             the load of the deadline, whichever comes first in the source. *)
          if atomic then run n me atomic false k' (fr_wt (WSeen w) f) s
          else if first then
            (if gap then yield (S id) (fr_wt (WSeen w) f) s
             else run n me atomic false k' (fr_wt (WSeen w) f) s)
          else yield id f s
      | SUnlock =>
          if f_held f then run n me atomic false k' (fr_held false f) s else [RFail E_UNLOCK]
      | SReturn r => finish r f s
      | SCall (PProc g) =>
          (* inlined call: fresh `once`/defer, same lock ownership, runs to completion *)
          flat_map (fun r =>
                      match r with
                      | RDone _ f' s' =>
                          run n me atomic false k'
                              (fr_held (f_held f) (fr_dunlock (f_dunlock f) (fr_once (f_once f) f'))) s'
                      | RYield _ _ _ => [RFail E_ENV_YIELD]
                      | RFail c => [RFail c]
                      end)
                   (run n g true false (prog g) (fr_dunlock true (fr_once false f)) s)
      | SCall p => flat_map (fun fs : frame * shared => run n me atomic false k' (fst fs) (snd fs)) (exec_prim p f s)
      | SOnce o body =>
          if once_done o s then run n me atomic false k' f s
          else run n me atomic false (body ++ k') f (set_once o s)
      end
    end
  end.

(* ------------------------------------------------------------------ transitions *)
Definition upd_nth {A} (i : nat) (x : A) (l : list A) : list A :=
  firstn i l ++ match skipn i l with [] => [] | _ :: r => x :: r end.

Definition closed_for (f : proc) (s : shared) : bool :=
  match f with FAcceptKCP => ldie s | _ => die s end.
Definition has_data (s : shared) : bool := bufptr s || negb (Nat.eqb (readable s) 0).

Definition res_thread (t : thread) (entry : bool) (s0 : shared) (r : res) : (thread * shared * nat) :=
  let gc := if entry then ghost && closed_for (fn t) s0 else g_closed t in
  let gd := if entry then ghost && has_data s0 else g_data t in
  let nob (f : frame) (x : thread * shared * nat) : thread * shared * nat :=
    match f_bcast f with
    | [] => x
    | _ => (mkThread (fn t) (PFail E_THREAD_BCAST) (lc t) gc gd, s0, E_THREAD_BCAST)
    end in
  match r with
  | RYield id f s => nob f (mkThread (fn t) (PAt id) (f_loc f) gc gd, s, 0)
  | RDone r f s => nob f (mkThread (fn t) (PDone r (f_legit f)) (f_loc f) gc gd, s, 0)
  | RFail c => (mkThread (fn t) (PFail c) (lc t) gc gd, s0, c)
  end.

Definition thread_results (t : thread) (s : shared) : list (thread * shared * nat) :=
  match pc t with
  | PEntry =>
      map (res_thread t true s) (run FUEL (fn t) false false (prog (fn t)) (frame0 (lc t) DNone 0 false) s)
  | PAt id =>
      match cont_at (fn t) id with
      | Some k => map (res_thread t false s) (run FUEL (fn t) false true k (frame0 (lc t) DNone 0 false) s)
      | None => [(mkThread (fn t) (PFail E_NO_POINT) (lc t) (g_closed t) (g_data t), s, E_NO_POINT)]
      end
  | PDone _ _ | PFail _ => []
  end.

Definition thread_steps (st : state) : list (label * state) :=
  flat_map (fun it : nat * thread =>
              map (fun r : thread * shared * nat => let '(t', s', b) := r in
                            (LThread (fst it), mkState s' (upd_nth (fst it) t' (ths st)) (Nat.max b (bad st))))
                  (thread_results (snd it) (sh st)))
           (combine (seq 0 (length (ths st))) (ths st)).

(* a deadline was stored: timers armed for the previous value are no longer fresh *)
Definition stale_timer (ws : list which) (t : thread) : thread :=
  match tm (lc t) with
  | TRun w due true =>
      if existsb (which_beq w) ws
      then mkThread (fn t) (pc t) (mkLoc (TRun w due false) (ch (lc t)) (cv (lc t)) (wt (lc t))) (g_closed t) (g_data t)
      else t
  | _ => t
  end.

(* a deadline signal was broadcast: the generation every caller watched is no longer current *)
Definition moved_thread (ws : list which) (t : thread) : thread :=
  match wt (lc t) with
  | WSeen w =>
      if existsb (which_beq w) ws
      then mkThread (fn t) (pc t) (mkLoc (tm (lc t)) (ch (lc t)) (cv (lc t)) (WMoved w)) (g_closed t) (g_data t)
      else t
  | _ => t
  end.

Definition no_loc : loc := mkLoc TNil CEmpty false WNone.

(* one atomic environment call of the generated procedure g.  The arguments (k, o) describe the
   datagram handed to kcpInput (it carries k new messages / it opens the window): executions
   that never feed it to the core (the OOB clause, the too-short-FEC-header exit) are not
   executions on THAT datagram and are dropped; datagrams without effect are LInput 0 false. *)
Definition env_call (g : proc) (d : dlv) (k : nat) (o : bool) (st : state) : list state :=
  flat_map (fun r =>
         match r with
         | RDone _ f s =>
             if Nat.eqb (f_argk f) 0 && negb (f_argo f)
             then [mkState s (map (moved_thread (f_bcast f)) (map (stale_timer (f_stored f)) (ths st))) (bad st)]
             else []
         | RYield _ _ _ => [mkState (sh st) (ths st) E_ENV_YIELD]
         | RFail c => [mkState (sh st) (ths st) c]
         end)
      (run FUEL g true false (prog g) (frame0 no_loc d k o) (sh st)).

Definition map_timer (g : tmr -> chv -> option (tmr * chv)) (i : nat) (st : state) : list state :=
  match nth_error (ths st) i with
  | Some t =>
      match g (tm (lc t)) (ch (lc t)) with
      | Some (t', c') =>
          [mkState (sh st) (upd_nth i (mkThread (fn t) (pc t) (mkLoc t' c' (cv (lc t)) (wt (lc t))) (g_closed t) (g_data t)) (ths st)) (bad st)]
      | None => []
      end
  | None => []
  end.

Definition tick_thread (w : which) (t : thread) : thread :=
  match tm (lc t) with
  | TRun w' false true =>
      if which_beq w w'
      then mkThread (fn t) (pc t) (mkLoc (TRun w' true true) (ch (lc t)) (cv (lc t)) (wt (lc t))) (g_closed t) (g_data t)
      else t
  | _ => t
  end.

Definition with_sh (st : state) (s : shared) : state := mkState s (ths st) (bad st).

Definition env_step (l : label) (st : state) : list state :=
  let s := sh st in
  match l with
  | LThread _ => []
  | LInput k o => env_call FKcpInput DNone k o st
  | LUpdate => env_call FUpdate DNone 0 false st
  | LSetD v => env_call FSetDeadline v 0 false st
  | LSetRD v => env_call FSetReadDeadline v 0 false st
  | LSetWD v => env_call FSetWriteDeadline v 0 false st
  | LClose => env_call FClose DNone 0 false st
  | LRErr => env_call FNotifyReadError DNone 0 false st
  | LWErr => env_call FNotifyWriteError DNone 0 false st
  | LLSetD v => env_call FLSetDeadline v 0 false st
  | LLSetRD v => env_call FLSetReadDeadline v 0 false st
  | LLClose => env_call FLClose DNone 0 false st
  | LLErr => env_call FLNotifyReadError DNone 0 false st
  | LArrive => [with_sh st (set_accepts (sat_inc cap (accepts s)) s)]
  | LTick w =>
      match dl w s with
      | DFuture => [mkState (set_dl w DPast s) (map (tick_thread w) (ths st)) (bad st)]
      | _ => []
      end
  | LTickStale i =>
      map_timer (fun t c => match t with TRun w false false => Some (TRun w true false, c) | _ => None end) i st
  | LFire i =>
      map_timer (fun t c => match t with
                            | TRun _ true _ => Some (TIdle, match c with CEmpty => CCur | _ => c end)
                            | _ => None end) i st
  | LStealR => if rtok s then [with_sh st (set_rtok false s)] else []
  | LStealW => if wtok s then [with_sh st (set_wtok false s)] else []
  | LStealAccept => map (fun n => with_sh st (set_accepts n s)) (sat_dec cap (accepts s))
  | LTakeData => map (fun n => with_sh st (set_readable n s)) (sat_dec cap (readable s))
  | LTakeBuf => if bufptr s then [with_sh st (set_bufptr false s)] else []
  | LTakeRoom => if room s then [with_sh st (set_room false s)] else []
  | LRecall i =>
      match nth_error (ths st) i with
      | Some t =>
          match pc t with
          | PDone _ _ => [mkState s (upd_nth i (mkThread (fn t) PEntry no_loc false false) (ths st)) (bad st)]
          | _ => []
          end
      | None => []
      end
  end.

(* `env`: the environment labels of this system (per-thread ones are instantiated for every
   thread index by the caller).  A failed state has no successors. *)
Definition next (env : list label) (st : state) : list (label * state) :=
  if negb (Nat.eqb (bad st) 0) then [] else
  thread_steps st ++ flat_map (fun l => map (fun s' => (l, s')) (env_step l st)) env.

End Sem.

(* ------------------------------------------------------------------ hashing *)
(* A hash of the state as a bit string (a positive built by consing bits: no arithmetic).
   It need not be injective (Explore compares full states inside a bucket). *)
Definition pb (b : bool) (p : positive) : positive := if b then xI p else xO p.
Fixpoint pnat (w : nat) (n : nat) (p : positive) : positive :=   (* w low bits of n *)
  match w with
  | O => p
  | S w' => pnat w' (Nat.div2 n) (pb (Nat.odd n) p)
  end.
Definition pdl (d : dlv) (p : positive) : positive :=
  match d with DNone => xO (xO p) | DFuture => xI (xO p) | DPast => xO (xI p) end.
Definition ptm (t : tmr) (p : positive) : positive :=
  match t with
  | TNil => xO (xO p)
  | TIdle => xI (xO p)
  | TRun w d f => xO (xI (pb d (pb f (match w with RD => xO (xO p) | WD => xI (xO p) | LRD => xO (xI p) end))))
  end.
Definition pch (c : chv) (p : positive) : positive :=
  match c with CEmpty => xO (xO p) | CCur => xI (xO p) | CStale => xO (xI p) end.
Definition nret (r : ret) : nat :=
  match r with RData => 0 | RWritten => 1 | RAccepted => 2 | RTimeout => 3 | RClosed => 4 | RSockErr => 5
             | RNil => 6 | RConnClose => 7 | RInvalid => 8 | RVoid => 9 end.
Definition ppoint (q : point) (p : positive) : positive :=
  match q with
  | PEntry => xO (xO p)
  | PAt id => xI (xO (pnat 5 id p))
  | PDone r l => xO (xI (pb l (pnat 4 (nret r) p)))
  | PFail c => xI (xI (pnat 5 c p))
  end.
Definition pwt (x : wst) (p : positive) : positive :=
  match x with WNone => xO (xO p) | WSeen _ => xI (xO p) | WMoved _ => xO (xI p) end.
Definition pthread (t : thread) (p : positive) : positive :=
  ppoint (pc t) (ptm (tm (lc t)) (pch (ch (lc t)) (pb (cv (lc t)) (pwt (wt (lc t)) (pb (g_closed t) (pb (g_data t) p)))))).
Definition pshared (s : shared) (p : positive) : positive :=
  pb (rtok s) (pb (wtok s) (pb (die s) (pb (rerr s) (pb (werr s) (pnat 2 (readable s) (pb (bufptr s)
  (pb (room s) (pdl (rd s) (pdl (wd s) (pnat 2 (accepts s) (pb (ldie s) (pb (lerr s) (pdl (lrd s) p))))))))))))).
Definition key (st : state) : positive :=
  pshared (sh st) (fold_right pthread xH (ths st)).
