(* ProofsExamples.v - non-vacuity: the hypotheses of the C13 implications are satisfied by
   reachable, non-trivial states of the systems they speak about. *)
From Coq Require Import List Bool Arith.
From KV.Wait Require Import Ir GenWait Model Explore Systems WaitLemmas.
Import ListNotations.

Definition some_thread (p : thread -> bool) (st : state) : bool := existsb p (ths st).

(* closed while a Read is parked in its select *)
Definition ex_closed_parked (d : sysdef) (st : state) : bool :=
  die (sh st) && some_thread (at_select d) st.
Lemma ex_close : reaches (sys_tm skel Reader false) (ex_closed_parked (sys_tm skel Reader false)).
Proof. apply found_reaches. vm_cast_no_check (eq_refl true). Qed.

(* socket error while a Write is parked *)
Definition ex_err_parked (d : sysdef) (st : state) : bool :=
  werr (sh st) && some_thread (at_select d) st.
Lemma ex_error : reaches (sys_tm skel Writer false) (ex_err_parked (sys_tm skel Writer false)).
Proof. apply found_reaches. vm_cast_no_check (eq_refl true). Qed.

(* a legitimate timeout return exists (all three calls) *)
Definition ex_timeout (st : state) : bool :=
  some_thread (fun t => match pc t with PDone RTimeout true => true | _ => false end) st.
Lemma ex_timeouts : forall c, reaches (sys_tm skel c false) ex_timeout.
Proof. intros []; apply found_reaches; vm_cast_no_check (eq_refl true). Qed.

(* a Read that started after Close with data buffered and returned the data; one that started
   after Close without data and returned ErrClosedPipe *)
Definition ex_drained (st : state) : bool :=
  some_thread (fun t => g_closed t && g_data t && match pc t with PDone RData _ => true | _ => false end) st.
Definition ex_failed_after (st : state) : bool :=
  some_thread (fun t => g_closed t && negb (g_data t) && match pc t with PDone RClosed _ => true | _ => false end) st.
Lemma ex_after_close :
  reaches (sys_1 skel Reader false) ex_drained /\ reaches (sys_1 skel Reader false) ex_failed_after.
Proof. split; apply found_reaches; vm_cast_no_check (eq_refl true). Qed.

(* parked with the condition true (and hence, by the theorem, a token) *)
Definition ex_parked_cond (d : sysdef) (st : state) : bool :=
  some_thread (fun t => at_select d t && cond_true t (sh st)) st.
Lemma ex_single : forall c, reaches (sys_1 skel c false) (ex_parked_cond (sys_1 skel c false)).
Proof. intros []; apply found_reaches; vm_cast_no_check (eq_refl true). Qed.

(* a deadline replaced while the call is parked, and the replacement has expired *)
Definition ex_rearmed (d : sysdef) (st : state) : bool :=
  some_thread (fun t => at_select d t && negb (wake_pending t (sh st)) &&
                        match dl_of t (sh st), tm (lc t) with DPast, TRun _ true true => true | _, _ => false end) st.
Lemma ex_rearm : forall c, reaches (sys_rearm skel c false) (ex_rearmed (sys_rearm skel c false)).
Proof. intros []; apply found_reaches; vm_cast_no_check (eq_refl true). Qed.

(* writers: the literal multi-waiter invariant does fail between two update() ticks, so the
   update clause of inv_multi_writer is what carries the theorem *)
Lemma ex_multi_writer_gap :
  reaches (sys_n skel Writer 2 false) (fun st => negb (inv_multi (sys_n skel Writer 2 false) st)).
Proof. apply found_reaches. vm_cast_no_check (eq_refl true). Qed.

(* non-vacuity of the deadline-change statement for Accept: a parked Accept whose timer was re-armed
   for a deadline set while it was parked is reachable *)
Lemma ex_accept_rearmed :
  reaches (sys_1 skel Accepter false)
          (fun st => existsb (fun t => at_select (sys_1 skel Accepter false) t && timer_follows t &&
                                       match lrd (sh st) with DFuture => true | _ => false end) (ths st)).
Proof. apply found_reaches; vm_cast_no_check (eq_refl true). Qed.

(* non-vacuity of the several-callers deadline-change statement: ONE deadline change is pending at
   BOTH parked callers at once - each is parked in its select with `<-changed` ready and a timer
   still armed for the replaced deadline.  (With one wake-up token this state did not exist: only
   one caller could be told.) *)
Definition ex_change_pending_all (d : sysdef) (st : state) : bool :=
  forallb (fun t => at_select d t && changed_pending t &&
                    match tm (lc t) with TRun _ _ false => true | _ => false end) (ths st).
Lemma ex_change_multi : forall c, reaches (sys_change_n skel c 2 false false) (ex_change_pending_all (sys_change_n skel c 2 false false)).
Proof. intros []; apply found_reaches; vm_cast_no_check (eq_refl true). Qed.

(* ... and afterwards both are parked again, nothing pending, each on a timer armed for the deadline
   stored now, which then expires: the hypotheses of inv_deadline_seen / inv_expiry_returns *)
Definition ex_change_followed_all (d : sysdef) (st : state) : bool :=
  forallb (fun t => at_select d t && negb (wake_pending t (sh st)) &&
                    match dl_of t (sh st), tm (lc t) with DPast, TRun _ true true => true | _, _ => false end) (ths st).
Lemma ex_change_followed : forall c, reaches (sys_change_n skel c 2 false false) (ex_change_followed_all (sys_change_n skel c 2 false false)).
Proof. intros []; apply found_reaches; vm_cast_no_check (eq_refl true). Qed.

(* thread-modular: the call is parked with a deadline change pending although another caller has
   just taken the data / window token (resp. a queued session): what the others do cannot hide it *)
Lemma ex_change_tm : forall c, reaches (sys_tm skel c false) (ex_change_pending_all (sys_tm skel c false)).
Proof. intros []; apply found_reaches; vm_cast_no_check (eq_refl true). Qed.
