(* C13n - the deadline-change broadcast on the LITERAL products of callers (companion of C13.v;
   statements only).  C13.c13_deadline_change_seen_multi states the several-callers property for any
   number of callers (thread-modular) and for the product of two; here are the two larger products:
   two callers with their own wake-up event (a datagram / an acknowledgement and update() / a new
   peer) interleaved with the deadline changes, and THREE callers (setters, clock, timers; with the
   wake-up event the three-caller product exceeds the explorer's budget of 300 000 states).
   These are the largest explorations of the development (59 541 states per three-caller system); they
   are compiled - checked by the kernel - on every run, quick and thorough, but they are kept out of
   C13.v so that the thorough tier's coqchk re-check of C13.v (about 20 times slower than coqc on these
   computations) stays within its budget.  Reading guide: see C13.v. *)
From Coq Require Import List Bool.
From KV.Wait Require Import Ir GenWait Model Explore Systems WaitLemmas ProofsExamples WaitProofsN.
Import ListNotations.

(* n = 2 (with the wake-up event) and n = 3 blocked callers of each kind c, every deadline change
   class (every setter value in every order, any number of times; no deadline / a pending one / an
   expired one at entry), every interleaving, both timer semantics: in every reachable state every
   caller satisfies the seven invariants explained at C13.c13_deadline_change_seen_multi - a timeout
   only when the deadline stored at that moment has passed, the timer of a parked caller armed for
   the deadline stored NOW, the timeout delivered when it expires, every caller told about a change. *)
Theorem c13_deadline_change_seen_products :
  forall (c : caller) (async : bool) (st : state),
    (let d := sys_change_n skel c 2 true async in
     sreach d st ->
     inv_ok st = true /\ inv_no_early_strong d st = true /\ inv_cleared d st = true /\
     inv_deadline_seen d st = true /\ inv_expiry_wakes d st = true /\
     inv_expiry_returns d st = true /\ inv_changed_moves d st = true) /\
    (let d := sys_change_n skel c 3 false async in
     sreach d st ->
     inv_ok st = true /\ inv_no_early_strong d st = true /\ inv_cleared d st = true /\
     inv_deadline_seen d st = true /\ inv_expiry_wakes d st = true /\
     inv_expiry_returns d st = true /\ inv_changed_moves d st = true).
Proof. exact deadline_change_seen_products. Qed.
Print Assumptions c13_deadline_change_seen_products.

(* non-vacuity: one deadline change pending at ALL THREE parked callers at once *)
Example c13_ex_change_multi3 :
  forall c, reaches (sys_change_n skel c 3 false false) (ex_change_pending_all (sys_change_n skel c 3 false false)).
Proof. exact ex_change_multi3. Qed.
