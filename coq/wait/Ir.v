(* Ir.v - the statement IR of the wait-loop skeletons (DESIGN.md Appendix A.3).

   /verif/extract/wait reads /repo/sess.go and emits GenWait.v: one `list stmt` per function
   below.  Every leaf (condition, call, assignment, channel operation, return) is mapped
   through a dictionary keyed by the printed source text of that leaf inside that function;
   a leaf that is not in the dictionary, or a statement shape that is not listed here, makes
   the translator exit non-zero.  Nothing in this file is a model: Model.v interprets terms. *)
From Coq Require Import List.
Import ListNotations.

(* which stored deadline *)
Inductive which := RD | WD | LRD.

(* the functions whose skeletons are generated *)
Inductive proc :=
| FRead | FWriteBuffers | FAcceptKCP
| FNotifyReadEvent | FNotifyWriteEvent
| FSetDeadline | FSetReadDeadline | FSetWriteDeadline
| FClose | FNotifyReadError | FNotifyWriteError
| FKcpInput | FUpdate
| FLSetDeadline | FLSetReadDeadline | FLSetWriteDeadline
| FLClose | FLNotifyReadError.

Inductive var := VC | VOnce.
Inductive expr := ENil | ETimerC | ETrue.

Inductive cond :=
| CDeadlineSet (w : which)   (* t, ok := X.Load().(time.Time); ok && !t.IsZero() *)
| CDeadlineNotDue (w : which) (* t, ok := X.Load().(time.Time); !ok || t.IsZero() || time.Now().Before(t) *)
| CTimerNil                  (* timeout == nil *)
| CTimerNonNil               (* timeout != nil *)
| CNotTimerStop              (* !timeout.Stop()      -- performs the Stop *)
| CBufNonEmpty               (* len(s.bufptr) > 0 *)
| CPeekPositive              (* size := s.kcp.PeekSize(); size > 0 *)
| CHasData                   (* len(s.bufptr) > 0 || s.kcp.PeekSize() > 0 *)
| CRoom                      (* waitsnd < int(s.kcp.snd_wnd) *)
| CNotOnce                   (* !once *)
| CData.                     (* depends on data / configuration the model does not track:
                                both branches are explored *)

Inductive prim :=
| PNop                       (* declarations, SNMP counters, pure data movement *)
| PTimerNew (w : which)      (* timeout = time.NewTimer(time.Until(<deadline w>)) *)
| PTimerReset (w : which)    (* timeout.Reset(time.Until(<deadline w>)) *)
| PTimerStop                 (* timeout.Stop() *)
| PDeferTimerStop            (* defer timeout.Stop() *)
| PDeferUnlock               (* defer s.mu.Unlock() *)
| PAdvanceBuf                (* n = copy(b, s.bufptr); s.bufptr = s.bufptr[n:] (second half) *)
| PRecv                      (* s.kcp.Recv(..): one message leaves the core *)
| PSetBufRest                (* s.bufptr = s.recvbuf[n:] after a short copy *)
| PSendAll                   (* the range loop of WriteBuffers: s.kcp.Send of every chunk *)
| PFlush                     (* s.kcp.flush(..) *)
| PInput                     (* s.kcp.Input(..) (possibly guarded by data) *)
| PStore (w : which)         (* X.Store(t) *)
| PStoreErr                  (* socketXError.Store(err) *)
| PCloseDie | PCloseRErr | PCloseWErr | PCloseLDie | PCloseLErr   (* close(chan) *)
| PPropagateErr              (* Listener.notifyReadError: for each session s.notifyReadError *)
| PCloseBacklog              (* Listener.closeBacklog: drain chAccepts, closing the sessions *)
| PResched                   (* SystemTimedSched.Put(s.update, ..) *)
| PBroadcast (w : which)     (* X.broadcast(): the generation of deadline w's signal moves; every
                                caller that watched the previous generation finds `<-changed` ready *)
| PProc (f : proc).          (* call of another generated function, inlined *)

Inductive chanop :=
| RcvReadEvent | RcvWriteEvent       (* <-s.chReadEvent, <-s.chWriteEvent *)
| RcvC                               (* <-c  (the possibly-nil copy of timeout.C) *)
| RcvTimerC                          (* <-timeout.C *)
| RcvRErr | RcvWErr | RcvDie         (* closed-channel broadcasts of the session *)
| RcvAccept | RcvLErr | RcvLDie      (* listener *)
| RcvChanged                         (* <-changed: ready iff the generation recorded by this call's
                                        last `changed := X.watch()` is no longer the current one *)
| SndReadEvent | SndWriteEvent.      (* s.chReadEvent <- struct{}{} *)

Inductive ret :=
| RData        (* Read: n, nil *)
| RWritten     (* WriteBuffers: n, nil *)
| RAccepted    (* AcceptKCP: c, nil *)
| RTimeout     (* errTimeout *)
| RClosed      (* io.ErrClosedPipe *)
| RSockErr     (* the stored socket error *)
| RNil         (* nil *)
| RConnClose   (* result of conn.Close() *)
| RInvalid     (* errInvalidOperation *)
| RVoid.       (* plain return / end of a function without results *)

Inductive once := ODie | ORErr | OWErr | OLDie | OLErr.

(* Yield points (labels, Lock, watch, select) carry the number the translator gave them (pre-order,
   unique within a function). *)
Inductive stmt :=
| SAssign (v : var) (e : expr)
| SIf (c : cond) (th el : list stmt)
| SLoop (body : list stmt)                        (* for { .. } *)
| SLabel (id : nat)                               (* L:  *)
| SGoto (id : nat)                                (* goto L *)
| SSelect (id : nat) (cases : list (chanop * list stmt)) (dflt : option (list stmt))
| SChoice (alts : list (list stmt))               (* switch on data the model does not track *)
| SLock (id : nat)                                (* s.mu.Lock() *)
| SWatch (id : nat) (w : which)                   (* changed := X.watch(): records the current generation
                                                     of deadline w's signal in the call's local `changed`.
                                                     It takes the signal's mutex, so like s.mu.Lock() it is
                                                     a yield point - two of them, numbered id (before the
                                                     watch) and S id (after it): the call can be preempted
                                                     between the watch and the load of the deadline in
                                                     whichever order the source has them, which is what
                                                     makes their order matter *)
| SUnlock                                         (* s.mu.Unlock() *)
| SReturn (r : ret)
| SCall (p : prim)
| SOnce (o : once) (body : list stmt).            (* X.Do(func() { .. }) *)
