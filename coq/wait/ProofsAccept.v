(* ProofsAccept.v - computed checks for AcceptKCP on the generated skeleton. *)
From Coq Require Import List Bool.
From KV.Wait Require Import Ir GenWait Model Explore Systems WaitLemmas.
Import ListNotations.

Lemma accept_tm_checked : forall a, let d := sys_tm skel Accepter a in scheck d (tm_inv d) = true.
Proof. intros []; vm_cast_no_check (eq_refl true). Qed.
Lemma accept_one_checked : forall a, let d := sys_1 skel Accepter a in scheck d (one_inv Accepter d) = true.
Proof. intros []; vm_cast_no_check (eq_refl true). Qed.
Lemma accept_rearm_checked : forall a, let d := sys_rearm skel Accepter a in scheck d (rearm_inv d) = true.
Proof. intros []; vm_cast_no_check (eq_refl true). Qed.

(* F10 repaired: the FULL deadline-change statement for Accept (every Listener.SetReadDeadline value
   incl. clearing, set while the call is parked) and the strong no-early-timeout reading *)
Lemma accept_oned_checked : forall a, let d := sys_1d skel Accepter a in scheck d (oned_inv d) = true.
Proof. intros []; vm_cast_no_check (eq_refl true). Qed.
Lemma accept_full_checked : forall a, let d := sys_1 skel Accepter a in scheck d (fixed_one_inv Accepter d) = true.
Proof. intros []; vm_cast_no_check (eq_refl true). Qed.
Lemma accept_strong_tm_checked : forall a, let d := sys_tm skel Accepter a in scheck d (strong_tm_inv d) = true.
Proof. intros []; vm_cast_no_check (eq_refl true). Qed.
Lemma accept_strong_one_checked : forall a, let d := sys_1 skel Accepter a in scheck d (strong_one_inv Accepter d) = true.
Proof. intros []; vm_cast_no_check (eq_refl true). Qed.
Lemma accept_extend_checked : forall a, let d := sys_extend_n skel Accepter 2 a in scheck d (strong_extend_inv d) = true.
Proof. intros []; vm_cast_no_check (eq_refl true). Qed.
