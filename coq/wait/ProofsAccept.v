(* ProofsAccept.v - computed checks for AcceptKCP on the generated skeleton. *)
From Coq Require Import List Bool.
From KV.Wait Require Import Ir GenWait Model Explore Systems WaitLemmas.
Import ListNotations.

Lemma accept_tm_checked : forall a, let d := sys_tm skel Accepter a in scheck d (tm_inv d) = true.
Proof. intros []; vm_cast_no_check (eq_refl true). Qed.
Lemma accept_one_checked : forall a, let d := sys_1 skel Accepter a in scheck d (one_inv Accepter d) = true.
Proof. intros []; vm_cast_no_check (eq_refl true). Qed.
Lemma accept_rearm_checked : forall a, let d := sys_rearm skel Accepter a in scheck d (rearm_inv d) = true.
Proof. intros []; vm_cast_no_check (eq_refl true). Qed.

(* F10: Accept parked without deadline; one is set; it expires; nothing wakes the call *)
Definition f10_labels : list label := [LThread 0; LLSetRD DFuture; LTick LRD].
Lemma accept_deadline_found :
  forall a, let d := sys_none_then_set skel Accepter a in found_ok d (inv_expiry_wakes d) f10_labels = true.
Proof. intros []; vm_cast_no_check (eq_refl true). Qed.

(* ... and a deadline cleared while Accept is parked still fires *)
Definition f10_cleared_labels : list label := [LLSetRD DFuture; LThread 0; LLSetRD DNone].
Lemma accept_cleared_found :
  forall a, let d := sys_1 skel Accepter a in found_ok d (inv_cleared d) f10_cleared_labels = true.
Proof. intros []; vm_cast_no_check (eq_refl true). Qed.
