(* ProofsAccept.v - computed checks for AcceptKCP on the generated skeleton. *)
From Coq Require Import List Bool.
From KV.Wait Require Import Ir GenWait Model Explore Systems WaitLemmas.
Import ListNotations.

Lemma accept_rearm_checked : forall a, let d := sys_rearm skel Accepter a in scheck d (rearm_inv d) = true.
Proof. intros []; vm_cast_no_check (eq_refl true). Qed.

(* F10 repaired: the FULL deadline-change statement for Accept (every Listener.SetReadDeadline value
   incl. clearing, set while the call is parked) and the strong no-early-timeout reading *)
Lemma accept_oned_checked : forall a, let d := sys_1d skel Accepter a in scheck d (oned_inv d) = true.
Proof. intros []; vm_cast_no_check (eq_refl true). Qed.
(* the deadline-change broadcast, thread-modular: ONE call against everything the rest of the program can
   do to it follows every deadline change (change_inv) - hence any number of callers; the same exploration
   carries the per-call safety bundles (change_tm_inv = [strong_tm_inv; change_inv]) *)
Lemma accept_change_tm_checked : forall a, let d := sys_tm skel Accepter a in scheck d (change_tm_inv d) = true.
Proof. intros []; vm_cast_no_check (eq_refl true). Qed.
Lemma accept_strong_tm_checked : forall a, let d := sys_tm skel Accepter a in scheck d (strong_tm_inv d) = true.
Proof.
  intros a d. apply (scheck_weaken d (change_tm_inv d)); [|apply accept_change_tm_checked].
  apply inv_and_member. simpl; tauto.
Qed.
Lemma accept_strong_one_checked : forall a, let d := sys_1 skel Accepter a in scheck d (strong_one_inv Accepter d) = true.
Proof. intros []; vm_cast_no_check (eq_refl true). Qed.
Lemma accept_extend_checked : forall a, let d := sys_extend_n skel Accepter 2 a in scheck d (strong_extend_inv d) = true.
Proof. intros []; vm_cast_no_check (eq_refl true). Qed.

(* the weaker bundles on the same systems follow from the explorations above (WaitLemmas.scheck_weaken):
   strong_tm_inv = [tm_inv; ..], strong_one_inv = [fixed_one_inv; ..], fixed_one_inv = [one_inv; ..] *)
Lemma accept_tm_checked : forall a, let d := sys_tm skel Accepter a in scheck d (tm_inv d) = true.
Proof.
  intros a d. apply (scheck_weaken d (strong_tm_inv d)); [|apply accept_strong_tm_checked].
  apply inv_and_member. simpl; tauto.
Qed.
Lemma accept_full_checked : forall a, let d := sys_1 skel Accepter a in scheck d (fixed_one_inv Accepter d) = true.
Proof.
  intros a d. apply (scheck_weaken d (strong_one_inv Accepter d)); [|apply accept_strong_one_checked].
  apply inv_and_member. simpl; tauto.
Qed.
Lemma accept_one_checked : forall a, let d := sys_1 skel Accepter a in scheck d (one_inv Accepter d) = true.
Proof.
  intros a d. apply (scheck_weaken d (fixed_one_inv Accepter d)); [|apply accept_full_checked].
  apply inv_and_member. simpl; tauto.
Qed.
