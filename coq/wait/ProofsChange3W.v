(* ProofsChange3W.v - the deadline-change broadcast: the product of THREE identical callers (Writer),
   every deadline change class (setters, clock, timers; the callers' own wake-up event is part of
   the two-caller systems of ProofsChange.v only - with it the three-caller product exceeds the
   explorer's budget).  One file per caller kind so that they build in parallel. *)
From Coq Require Import List Bool.
From KV.Wait Require Import Ir GenWait Model Explore Systems WaitLemmas.
Import ListNotations.

Lemma write_change_3_checked : forall a, let d := sys_change_n skel Writer 3 false a in scheck d (change_inv d) = true.
Proof. intros []; vm_cast_no_check (eq_refl true). Qed.
