(* ProofsMulti.v - products of two identical callers on the generated skeletons. *)
From Coq Require Import List Bool.
From KV.Wait Require Import Ir GenWait Model Explore Systems WaitLemmas.
Import ListNotations.

(* F4 repaired: with several readers data is never left unclaimed *)
Lemma read_2_full_checked : forall a, let d := sys_n skel Reader 2 a in scheck d (fixed_n_inv d) = true.
Proof. intros []; vm_cast_no_check (eq_refl true). Qed.
(* n_inv Reader = [inv_ok; inv_close_wakes; inv_error_wakes] is a sub-bundle of fixed_n_inv: same exploration *)
Lemma read_2_checked : forall a, let d := sys_n skel Reader 2 a in scheck d (n_inv Reader d) = true.
Proof.
  intros a d. apply (scheck_weaken d (fixed_n_inv d)); [|apply read_2_full_checked].
  apply inv_and_subset. simpl; tauto.
Qed.
Lemma write_2_checked : forall a, let d := sys_n skel Writer 2 a in scheck d (n_inv Writer d) = true.
Proof. intros []; vm_cast_no_check (eq_refl true). Qed.
Lemma accept_2_checked : forall a, let d := sys_n skel Accepter 2 a in scheck d (n_inv Accepter d) = true.
Proof. intros []; vm_cast_no_check (eq_refl true). Qed.

(* writers: the literal multi-waiter invariant fails between two update() ticks ... *)
Definition multi_writer_gap_labels : list label :=
  [LThread 0; LThread 0; LThread 0; LThread 0; LThread 1; LThread 1; LThread 1; LThread 1;
   LInput 0 true; LThread 0; LThread 0; LThread 0].

(* two callers parked under a deadline that is then extended: nobody times out before the
   stored deadline any more *)
Lemma read_extend_checked : forall a, let d := sys_extend_n skel Reader 2 a in scheck d (strong_extend_inv d) = true.
Proof. intros []; vm_cast_no_check (eq_refl true). Qed.
Lemma write_extend_checked : forall a, let d := sys_extend_n skel Writer 2 a in scheck d (strong_extend_inv d) = true.
Proof. intros []; vm_cast_no_check (eq_refl true). Qed.
