(* ProofsMulti.v - products of two identical callers on the generated skeletons. *)
From Coq Require Import List Bool.
From KV.Wait Require Import Ir GenWait Model Explore Systems WaitLemmas.
Import ListNotations.

Lemma read_2_checked : forall a, let d := sys_n skel Reader 2 a in scheck d (n_inv Reader d) = true.
Proof. intros []; vm_cast_no_check (eq_refl true). Qed.
Lemma write_2_checked : forall a, let d := sys_n skel Writer 2 a in scheck d (n_inv Writer d) = true.
Proof. intros []; vm_cast_no_check (eq_refl true). Qed.
Lemma accept_2_checked : forall a, let d := sys_n skel Accepter 2 a in scheck d (n_inv Accepter d) = true.
Proof. intros []; vm_cast_no_check (eq_refl true). Qed.

(* F4: two parked readers, one datagram with two messages, one token: the first reader takes a
   message and returns; PeekSize() > 0, the second reader is parked, no token, nobody in flight *)
Definition f4_labels : list label :=
  [LThread 0; LThread 0; LThread 0; LThread 1; LThread 1; LThread 1; LInput 2 false; LThread 0; LThread 0].
Lemma read_multi_found :
  forall a, let d := sys_n skel Reader 2 a in found_ok d (inv_multi_peek d) f4_labels = true.
Proof. intros []; vm_cast_no_check (eq_refl true). Qed.

(* the same defect with ONE message and a short read buffer: the remainder stays in bufptr *)
Definition f4_short_labels : list label :=
  [LThread 0; LThread 0; LThread 0; LThread 1; LThread 1; LThread 1; LInput 1 false; LThread 0; LThread 0].
Lemma read_multi_short_found :
  forall a, let d := sys_n skel Reader 2 a in found_ok d (inv_multi d) f4_short_labels = true.
Proof. intros []; vm_cast_no_check (eq_refl true). Qed.

(* writers: the literal multi-waiter invariant fails between two update() ticks ... *)
Definition multi_writer_gap_labels : list label :=
  [LThread 0; LThread 0; LThread 0; LThread 0; LThread 1; LThread 1; LThread 1; LThread 1;
   LInput 0 true; LThread 0; LThread 0; LThread 0].

(* two callers parked under a deadline; the deadline is replaced by a later one: one token, one
   caller re-arms, the other keeps the timer of the old deadline and returns a timeout while
   the stored deadline is still in the future and no wake-up is pending for it *)
Definition extend_read_labels : list label :=
  [LThread 0; LThread 0; LThread 0; LThread 1; LThread 1; LThread 1; LSetRD DFuture; LThread 0;
   LTickStale 1; LFire 1].
Definition extend_write_labels : list label :=
  [LThread 0; LThread 0; LThread 0; LThread 1; LThread 1; LThread 1; LSetWD DFuture; LThread 0;
   LTickStale 1; LFire 1].
Lemma read_extend_found :
  forall a, let d := sys_extend_n skel Reader 2 a in found_ok d (inv_no_early_quiet d) extend_read_labels = true.
Proof. intros []; vm_cast_no_check (eq_refl true). Qed.
Lemma write_extend_found :
  forall a, let d := sys_extend_n skel Writer 2 a in found_ok d (inv_no_early_quiet d) extend_write_labels = true.
Proof. intros []; vm_cast_no_check (eq_refl true). Qed.
