(* ProofsMulti3.v - products of three identical callers on the generated skeletons. *)
From Coq Require Import List Bool.
From KV.Wait Require Import Ir GenWait Model Explore Systems WaitLemmas.
Import ListNotations.

Lemma read_3_checked : forall a, let d := sys_n skel Reader 3 a in scheck d (n_inv Reader d) = true.
Proof. intros []; vm_cast_no_check (eq_refl true). Qed.
Lemma read_3_full_checked : forall a, let d := sys_n skel Reader 3 a in scheck d (fixed_n_inv d) = true.
Proof. intros []; vm_cast_no_check (eq_refl true). Qed.
Lemma write_3_checked : forall a, let d := sys_n skel Writer 3 a in scheck d (n_inv Writer d) = true.
Proof. intros []; vm_cast_no_check (eq_refl true). Qed.
Lemma accept_3_checked : forall a, let d := sys_n skel Accepter 3 a in scheck d (n_inv Accepter d) = true.
Proof. intros []; vm_cast_no_check (eq_refl true). Qed.
