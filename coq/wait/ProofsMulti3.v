(* ProofsMulti3.v - products of three identical callers on the generated skeletons.  The four
   explorations live in ProofsMulti3{R,F,W,A}.v (they build in parallel); this file re-exports them. *)
From KV.Wait Require Export ProofsMulti3R ProofsMulti3F ProofsMulti3W ProofsMulti3A.
