(* Explore.v - a verified reachability checker for finite labelled transition systems.

   `explore` computes (work-list fixpoint, fuel = an upper bound on the number of states;
   exhaustion is the error value None) a list R of states and then CHECKS that R contains
   the initial states and is closed under `next`; `explore_sound` (proved once, by induction
   on `reachable`) lifts that to every execution of any length and any interleaving.
   The search itself is therefore untrusted: only `closed` matters for soundness.

   `check`/`check_edges` evaluate a boolean state/edge predicate over R; `find_bad` is a
   breadth-first search returning a shortest labelled path to a state violating a predicate
   (the `_refuted` witnesses); `trace_ok` re-validates such a path step by step.            *)
From Coq Require Import List Bool PArith NArith FMapPositive.
Import ListNotations.

Section Explore.
  Variables St Lab : Type.
  Variable eqb : St -> St -> bool.
  Hypothesis eqb_eq : forall a b, eqb a b = true -> a = b.
  Variable leqb : Lab -> Lab -> bool.
  Variable key : St -> positive.          (* any hash; need not be injective *)
  Variable init : list St.
  Variable next : St -> list (Lab * St).

  Inductive reachable : St -> Prop :=
  | r_init : forall s, In s init -> reachable s
  | r_step : forall s l s', reachable s -> In (l, s') (next s) -> reachable s'.

  (* ---- hashed set of states: buckets of full states, compared with eqb ---- *)
  Definition tbl := PositiveMap.t (list St).

  Definition bucket (k : positive) (m : tbl) : list St :=
    match PositiveMap.find k m with Some b => b | None => [] end.

  Definition mem (s : St) (m : tbl) : bool := existsb (eqb s) (bucket (key s) m).

  Definition add (s : St) (m : tbl) : tbl :=
    PositiveMap.add (key s) (s :: bucket (key s) m) m.

  Definition build (R : list St) : tbl := fold_right add (PositiveMap.empty _) R.

  Lemma mem_add : forall s t m, mem s (add t m) = true -> s = t \/ mem s m = true.
  Proof.
    unfold mem, add, bucket; intros s t m H.
    destruct (Pos.eq_dec (key s) (key t)) as [E|E].
    - rewrite E in *. rewrite PositiveMap.gss in H. simpl in H.
      apply orb_true_iff in H. destruct H as [H|H]; [left; apply eqb_eq; exact H | right; exact H].
    - rewrite PositiveMap.gso in H by exact E. right; exact H.
  Qed.

  Lemma mem_build : forall R s, mem s (build R) = true -> In s R.
  Proof.
    induction R as [|t R IH]; simpl; intros s H.
    - unfold mem, bucket in H. rewrite PositiveMap.gempty in H. discriminate.
    - apply mem_add in H. destruct H as [H|H]; [left; symmetry; exact H | right; apply IH; exact H].
  Qed.

  (* ---- the closure check: the only thing soundness rests on ---- *)
  Definition closed (R : list St) : bool :=
    let m := build R in
    forallb (fun s => mem s m) init &&
    forallb (fun s => forallb (fun ls => mem (snd ls) m) (next s)) R.

  Lemma closed_sound : forall R, closed R = true -> forall s, reachable s -> In s R.
  Proof.
    intros R H. unfold closed in H. apply andb_true_iff in H. destruct H as [Hi Hn].
    rewrite forallb_forall in Hi, Hn.
    induction 1 as [s Hs | s l s' Hr IH Hs].
    - apply mem_build, Hi, Hs.
    - apply mem_build. specialize (Hn s IH). rewrite forallb_forall in Hn.
      exact (Hn (l, s') Hs).
  Qed.

  (* ---- the search: depth-first work list ---- *)
  Definition visit (acc : tbl * list St * list St) (t : St) : tbl * list St * list St :=
    let '(m, w, r) := acc in
    if mem t m then acc else (add t m, t :: w, t :: r).

  Fixpoint loop (fuel : nat) (work : list St) (m : tbl) (r : list St) : option (list St) :=
    match fuel with
    | O => None
    | S f =>
      match work with
      | [] => Some r
      | s :: w =>
        let '(m', w', r') := fold_left visit (map snd (next s)) (m, w, r) in
        loop f w' m' r'
      end
    end.

  Definition explore (fuel : nat) : option (list St) :=
    let '(m0, w0, r0) := fold_left visit init (PositiveMap.empty _, [], []) in
    match loop fuel w0 m0 r0 with
    | Some R => if closed R then Some R else None
    | None => None
    end.

  Theorem explore_sound :
    forall fuel R, explore fuel = Some R -> forall s, reachable s -> In s R.
  Proof.
    unfold explore; intros fuel R H.
    destruct (fold_left visit init (PositiveMap.empty (list St), [], [])) as [[m0 w0] r0].
    destruct (loop fuel w0 m0 r0) as [R'|]; [|discriminate].
    destruct (closed R') eqn:C; [|discriminate].
    injection H as <-. apply closed_sound, C.
  Qed.

  (* ---- state invariants ---- *)
  Definition check (fuel : nat) (inv : St -> bool) : bool :=
    match explore fuel with Some R => forallb inv R | None => false end.

  Theorem check_sound :
    forall fuel inv, check fuel inv = true -> forall s, reachable s -> inv s = true.
  Proof.
    unfold check; intros fuel inv H s Hs.
    destruct (explore fuel) as [R|] eqn:E; [|discriminate].
    rewrite forallb_forall in H. apply H. eapply explore_sound; eassumption.
  Qed.

  (* ---- edge invariants: every transition out of every reachable state ---- *)
  Definition check_edges (fuel : nat) (p : St -> Lab -> St -> bool) : bool :=
    match explore fuel with
    | Some R => forallb (fun s => forallb (fun ls => p s (fst ls) (snd ls)) (next s)) R
    | None => false
    end.

  Theorem check_edges_sound :
    forall fuel p, check_edges fuel p = true ->
      forall s l s', reachable s -> In (l, s') (next s) -> p s l s' = true.
  Proof.
    unfold check_edges; intros fuel p H s l s' Hs Hn.
    destruct (explore fuel) as [R|] eqn:E; [|discriminate].
    rewrite forallb_forall in H. specialize (H s (explore_sound _ _ E s Hs)).
    rewrite forallb_forall in H. exact (H (l, s') Hn).
  Qed.

  Definition count (fuel : nat) : option nat :=
    match explore fuel with Some R => Some (length R) | None => None end.

  (* ---- labelled paths (witnesses) ---- *)
  Fixpoint trace_ok (s : St) (tr : list (Lab * St)) : bool :=
    match tr with
    | [] => true
    | (l, t) :: r =>
      existsb (fun lt => leqb l (fst lt) && eqb t (snd lt)) (next s) && trace_ok t r
    end.

  Fixpoint final (s : St) (tr : list (Lab * St)) : St :=
    match tr with [] => s | (_, t) :: r => final t r end.

  Lemma trace_reachable :
    forall tr s, reachable s -> trace_ok s tr = true -> reachable (final s tr).
  Proof.
    induction tr as [|[l t] r IH]; simpl; intros s Hs H; [exact Hs|].
    apply andb_true_iff in H. destruct H as [H1 H2].
    apply IH; [|exact H2].
    apply existsb_exists in H1. destruct H1 as [[l' t'] [Hin Heq]]. simpl in Heq.
    apply andb_true_iff in Heq. destruct Heq as [_ Heq]. apply eqb_eq in Heq. subst t'.
    eapply r_step; eassumption.
  Qed.

  (* A refutation: an initial state, a validated labelled path, the invariant false at its end. *)
  Definition refutes (inv : St -> bool) (s0 : St) (tr : list (Lab * St)) : bool :=
    existsb (eqb s0) init && trace_ok s0 tr && negb (inv (final s0 tr)).

  Theorem refutes_sound :
    forall inv s0 tr, refutes inv s0 tr = true ->
      exists s, reachable s /\ inv s = false.
  Proof.
    unfold refutes; intros inv s0 tr H.
    apply andb_true_iff in H. destruct H as [H H3].
    apply andb_true_iff in H. destruct H as [H1 H2].
    apply existsb_exists in H1. destruct H1 as [s1 [Hin He]]. apply eqb_eq in He. subst s1.
    exists (final s0 tr). split.
    - apply trace_reachable; [apply r_init; exact Hin | exact H2].
    - apply negb_true_iff, H3.
  Qed.

  (* Breadth-first search for a shortest path to a state where `inv` is false.  Each frontier
     element carries its reversed path.  Untrusted: its result is re-validated by `refutes`. *)
  Definition item := (St * St * list (Lab * St))%type.   (* start, current, reversed path *)

  Definition bvisit (it : item) (acc : tbl * list item) (lt : Lab * St) : tbl * list item :=
    let '(m, fr) := acc in
    let '(s0, _, p) := it in
    if mem (snd lt) m then acc else (add (snd lt) m, (s0, snd lt, lt :: p) :: fr).

  Definition bexpand (acc : tbl * list item) (it : item) : tbl * list item :=
    let '(_, s, _) := it in fold_left (bvisit it) (next s) acc.

  Fixpoint bfs (fuel : nat) (inv : St -> bool) (fr : list item) (m : tbl)
    : option (St * list (Lab * St)) :=
    match fuel with
    | O => None
    | S f =>
      match find (fun it => let '(_, s, _) := it in negb (inv s)) fr with
      | Some (s0, _, p) => Some (s0, rev p)
      | None =>
        match fr with
        | [] => None
        | _ => let '(m', fr') := fold_left bexpand fr (m, []) in bfs f inv (rev fr') m'
        end
      end
    end.

  Definition find_bad (fuel : nat) (inv : St -> bool) : option (St * list (Lab * St)) :=
    bfs fuel inv (map (fun s => (s, s, [])) init) (build init).

End Explore.

Arguments reachable {St Lab} init next _.
Arguments explore {St Lab} eqb key init next fuel.
Arguments check {St Lab} eqb key init next fuel inv.
Arguments check_edges {St Lab} eqb key init next fuel p.
Arguments count {St Lab} eqb key init next fuel.
Arguments trace_ok {St Lab} eqb leqb next s tr.
Arguments final {St Lab} s tr.
Arguments refutes {St Lab} eqb leqb init next inv s0 tr.
Arguments find_bad {St Lab} eqb key init next fuel inv.
