(* ProofsRead.v - computed checks for Read on the generated skeleton (both timer semantics). *)
From Coq Require Import List Bool.
From KV.Wait Require Import Ir GenWait Model Explore Systems WaitLemmas.
Import ListNotations.

Lemma read_tm_checked : forall a, let d := sys_tm skel Reader a in scheck d (tm_inv d) = true.
Proof. intros []; vm_cast_no_check (eq_refl true). Qed.
Lemma read_one_checked : forall a, let d := sys_1 skel Reader a in scheck d (one_inv Reader d) = true.
Proof. intros []; vm_cast_no_check (eq_refl true). Qed.
Lemma read_oned_checked : forall a, let d := sys_1d skel Reader a in scheck d (oned_inv d) = true.
Proof. intros []; vm_cast_no_check (eq_refl true). Qed.
Lemma read_rearm_checked : forall a, let d := sys_rearm skel Reader a in scheck d (rearm_inv d) = true.
Proof. intros []; vm_cast_no_check (eq_refl true). Qed.

(* F12: no deadline at entry, one is set while the call is parked, it expires: nothing fires *)
Definition f12_read_labels : list label :=
  [LThread 0; LThread 0; LThread 0; LSetRD DFuture; LThread 0; LThread 0; LTick RD].
Lemma read_none_then_set_found :
  forall a, let d := sys_none_then_set skel Reader a in found_ok d (inv_expiry_wakes d) f12_read_labels = true.
Proof. intros []; vm_cast_no_check (eq_refl true). Qed.

(* F11: deadline at entry, cleared, set again, expires: c is still nil *)
Definition f11_read_labels : list label :=
  [LThread 0; LThread 0; LThread 0; LSetRD DNone; LThread 0; LThread 0; LThread 0; LSetRD DFuture;
   LThread 0; LThread 0; LThread 0; LTick RD].
Lemma read_set_zero_set_found :
  forall a, let d := sys_set_zero_set skel Reader a in found_ok d (inv_expiry_wakes_timer d) f11_read_labels = true.
Proof. intros []; vm_cast_no_check (eq_refl true). Qed.

(* B11: the deadline is extended just before the old one fires; the select may pick the timer *)
Definition b11_read_labels : list label :=
  [LThread 0; LSetRD DPast; LThread 0; LThread 0; LSetRD DFuture; LFire 0].
Lemma read_strong_no_early_found :
  forall a, let d := sys_1 skel Reader a in found_ok d (inv_no_early_strong d) b11_read_labels = true.
Proof. intros []; vm_cast_no_check (eq_refl true). Qed.
