(* ProofsRead.v - computed checks for Read on the generated skeleton (both timer semantics). *)
From Coq Require Import List Bool.
From KV.Wait Require Import Ir GenWait Model Explore Systems WaitLemmas.
Import ListNotations.

Lemma read_tm_checked : forall a, let d := sys_tm skel Reader a in scheck d (tm_inv d) = true.
Proof. intros []; vm_cast_no_check (eq_refl true). Qed.
Lemma read_one_checked : forall a, let d := sys_1 skel Reader a in scheck d (one_inv Reader d) = true.
Proof. intros []; vm_cast_no_check (eq_refl true). Qed.
Lemma read_oned_checked : forall a, let d := sys_1d skel Reader a in scheck d (oned_inv d) = true.
Proof. intros []; vm_cast_no_check (eq_refl true). Qed.
(* F11 and F12 repaired: the FULL deadline-change statement (every setter value, incl. clearing) *)
Lemma read_full_checked : forall a, let d := sys_1 skel Reader a in scheck d (fixed_one_inv Reader d) = true.
Proof. intros []; vm_cast_no_check (eq_refl true). Qed.
Lemma read_rearm_checked : forall a, let d := sys_rearm skel Reader a in scheck d (rearm_inv d) = true.
Proof. intros []; vm_cast_no_check (eq_refl true). Qed.

(* stale-timer timeouts repaired: a timeout is returned only when the deadline stored at that
   moment has passed (the strong reading; boundary B11 is closed) *)
Lemma read_strong_tm_checked : forall a, let d := sys_tm skel Reader a in scheck d (strong_tm_inv d) = true.
Proof. intros []; vm_cast_no_check (eq_refl true). Qed.
Lemma read_strong_one_checked : forall a, let d := sys_1 skel Reader a in scheck d (strong_one_inv Reader d) = true.
Proof. intros []; vm_cast_no_check (eq_refl true). Qed.
