(* WaitProofsN.v - the deadline-change broadcast on the LITERAL products: two callers with their own
   wake-up event interleaved, three callers (statement file C13n.v).  Kept apart from WaitProofs.v /
   C13.v because these are the largest explorations of the development. *)
From Coq Require Import List Bool.
From KV.Wait Require Import Ir GenWait Model Explore Systems WaitLemmas WaitProofs ProofsExamples.
From KV.Wait Require Import ProofsChange2 ProofsChange3R ProofsChange3W ProofsChange3A.
Import ListNotations.

Lemma change_2w_checked : forall c a, let d := sys_change_n skel c 2 true a in scheck d (change_inv d) = true.
Proof. intros [] a; [apply read_change_2w_checked | apply write_change_2w_checked | apply accept_change_2w_checked]. Qed.
Lemma change_3_checked : forall c a, let d := sys_change_n skel c 3 false a in scheck d (change_inv d) = true.
Proof. intros [] a; [apply read_change_3_checked | apply write_change_3_checked | apply accept_change_3_checked]. Qed.

Lemma deadline_change_seen_products :
  forall c async st,
    (let d := sys_change_n skel c 2 true async in
     sreach d st ->
     inv_ok st = true /\ inv_no_early_strong d st = true /\ inv_cleared d st = true /\
     inv_deadline_seen d st = true /\ inv_expiry_wakes d st = true /\
     inv_expiry_returns d st = true /\ inv_changed_moves d st = true) /\
    (let d := sys_change_n skel c 3 false async in
     sreach d st ->
     inv_ok st = true /\ inv_no_early_strong d st = true /\ inv_cleared d st = true /\
     inv_deadline_seen d st = true /\ inv_expiry_wakes d st = true /\
     inv_expiry_returns d st = true /\ inv_changed_moves d st = true).
Proof.
  intros c a st. split; intros d H; subst d; (apply change_inv_all; [|exact H]).
  - apply change_2w_checked.
  - apply change_3_checked.
Qed.

(* non-vacuity on the three-caller product: one change pending at ALL THREE parked callers at once *)
Lemma ex_change_multi3 : forall c, reaches (sys_change_n skel c 3 false false) (ex_change_pending_all (sys_change_n skel c 3 false false)).
Proof. intros []; apply found_reaches; vm_cast_no_check (eq_refl true). Qed.
