(* ProofsFixed.v - the same checks on the skeletons with the proposed repairs applied (Fixed.v):
   the repairs are complete for F4, F11, F12 and break none of the positive statements. *)
From Coq Require Import List Bool.
From KV.Wait Require Import Ir GenWait Model Explore Systems WaitLemmas Fixed.
Import ListNotations.

Lemma fixed_read_tm_checked : forall a, let d := sys_tm (fixed_skel FixAll) Reader a in scheck d (tm_inv d) = true.
Proof. intros []; vm_cast_no_check (eq_refl true). Qed.
Lemma fixed_write_tm_checked : forall a, let d := sys_tm (fixed_skel FixAll) Writer a in scheck d (tm_inv d) = true.
Proof. intros []; vm_cast_no_check (eq_refl true). Qed.
(* full deadline-change statement (every SetReadDeadline / SetWriteDeadline value, incl. clearing) *)
Lemma fixed_read_one_checked : forall a, let d := sys_1 (fixed_skel FixAll) Reader a in scheck d (fixed_one_inv Reader d) = true.
Proof. intros []; vm_cast_no_check (eq_refl true). Qed.
Lemma fixed_write_one_checked : forall a, let d := sys_1 (fixed_skel FixAll) Writer a in scheck d (fixed_one_inv Writer d) = true.
Proof. intros []; vm_cast_no_check (eq_refl true). Qed.
(* several readers: data is never left unclaimed *)
Lemma fixed_read_2_checked : forall a, let d := sys_n (fixed_skel FixAll) Reader 2 a in scheck d (fixed_n_inv d) = true.
Proof. intros []; vm_cast_no_check (eq_refl true). Qed.
Lemma fixed_read_3_checked : forall a, let d := sys_n (fixed_skel FixAll) Reader 3 a in scheck d (fixed_n_inv d) = true.
Proof. intros []; vm_cast_no_check (eq_refl true). Qed.

(* all2 = all + re-validation of the stored deadline when the timer fires: the STRONG reading of
   "never before the deadline" (boundary B11) holds, also for a caller that kept a stale timer *)
Lemma fixed2_read_tm_checked : forall a, let d := sys_tm (fixed_skel FixAll2) Reader a in scheck d (strong_tm_inv d) = true.
Proof. intros []; vm_cast_no_check (eq_refl true). Qed.
Lemma fixed2_write_tm_checked : forall a, let d := sys_tm (fixed_skel FixAll2) Writer a in scheck d (strong_tm_inv d) = true.
Proof. intros []; vm_cast_no_check (eq_refl true). Qed.
Lemma fixed2_read_one_checked : forall a, let d := sys_1 (fixed_skel FixAll2) Reader a in scheck d (strong_one_inv Reader d) = true.
Proof. intros []; vm_cast_no_check (eq_refl true). Qed.
Lemma fixed2_write_one_checked : forall a, let d := sys_1 (fixed_skel FixAll2) Writer a in scheck d (strong_one_inv Writer d) = true.
Proof. intros []; vm_cast_no_check (eq_refl true). Qed.
Lemma fixed2_read_extend_checked : forall a, let d := sys_extend_n (fixed_skel FixAll2) Reader 2 a in scheck d (strong_extend_inv d) = true.
Proof. intros []; vm_cast_no_check (eq_refl true). Qed.
Lemma fixed2_write_extend_checked : forall a, let d := sys_extend_n (fixed_skel FixAll2) Writer 2 a in scheck d (strong_extend_inv d) = true.
Proof. intros []; vm_cast_no_check (eq_refl true). Qed.
Lemma fixed2_read_2_checked : forall a, let d := sys_n (fixed_skel FixAll2) Reader 2 a in scheck d (fixed_n_inv d) = true.
Proof. intros []; vm_cast_no_check (eq_refl true). Qed.

(* each repair is needed: f11 alone leaves F12, f12 alone leaves F11, the PeekSize-only form of
   the F4 repair leaves the short-buffer variant *)
Lemma f11_alone_leaves_f12 :
  forall a, let d := sys_none_then_set (fixed_skel FixF11) Reader a in
            found_ok d (inv_expiry_wakes d)
              [LThread 0; LThread 0; LThread 0; LSetRD DFuture; LThread 0; LThread 0; LTick RD] = true.
Proof. intros []; vm_cast_no_check (eq_refl true). Qed.
Lemma f12_alone_leaves_f11 :
  forall a, let d := sys_set_zero_set (fixed_skel FixF12) Reader a in
            found_ok d (inv_expiry_wakes_timer d)
              [LThread 0; LThread 0; LThread 0; LSetRD DNone; LThread 0; LThread 0; LThread 0; LSetRD DFuture;
               LThread 0; LThread 0; LThread 0; LTick RD] = true.
Proof. intros []; vm_cast_no_check (eq_refl true). Qed.
Lemma f4peek_incomplete :
  forall a, let d := sys_n (fixed_skel FixF4Peek) Reader 2 a in
            found_ok d (inv_multi d)
              [LThread 0; LThread 0; LThread 0; LThread 1; LThread 1; LThread 1; LInput 1 false; LThread 0; LThread 0] = true.
Proof. intros []; vm_cast_no_check (eq_refl true). Qed.

(* the wake-up by ONE token (the setters and the callers as they were before the deadline-change
   broadcast: fixed_skel FixAll2) does not satisfy the several-callers statement.  Thread-modular:
   the call parks, a deadline is set (one token posted), another caller takes the token: the call
   is parked with nothing pending and no timer for the stored deadline.  Product of two: both park,
   a deadline is set, the caller that gets the token re-arms, the other one is left like that. *)
Lemma single_token_leaves_multi_tm_read :
  forall a, let d := sys_tm (fixed_skel FixAll2) Reader a in
            found_ok d (inv_deadline_seen d) [LThread 0; LThread 0; LThread 0; LSetRD DFuture; LStealR] = true.
Proof. intros []; vm_cast_no_check (eq_refl true). Qed.
Lemma single_token_leaves_multi_tm_write :
  forall a, let d := sys_tm (fixed_skel FixAll2) Writer a in
            found_ok d (inv_deadline_seen d) [LThread 0; LThread 0; LThread 0; LSetWD DFuture; LStealW] = true.
Proof. intros []; vm_cast_no_check (eq_refl true). Qed.
Lemma single_token_leaves_multi_read :
  forall a, let d := sys_change_n (fixed_skel FixAll2) Reader 2 false a in
            found_ok d (inv_deadline_seen d)
              [LThread 0; LThread 0; LThread 0; LThread 1; LThread 1; LThread 1; LSetRD DFuture; LThread 0] = true.
Proof. intros []; vm_cast_no_check (eq_refl true). Qed.
Lemma single_token_leaves_multi_write :
  forall a, let d := sys_change_n (fixed_skel FixAll2) Writer 2 false a in
            found_ok d (inv_deadline_seen d)
              [LThread 0; LThread 0; LThread 0; LThread 1; LThread 1; LThread 1; LSetWD DFuture; LThread 0] = true.
Proof. intros []; vm_cast_no_check (eq_refl true). Qed.
