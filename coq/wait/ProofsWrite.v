(* ProofsWrite.v - computed checks for WriteBuffers on the generated skeleton (both timer semantics). *)
From Coq Require Import List Bool.
From KV.Wait Require Import Ir GenWait Model Explore Systems WaitLemmas.
Import ListNotations.

Lemma write_oned_checked : forall a, let d := sys_1d skel Writer a in scheck d (oned_inv d) = true.
Proof. intros []; vm_cast_no_check (eq_refl true). Qed.
(* F11 and F12 repaired: the FULL deadline-change statement (every setter value, incl. clearing) *)
Lemma write_rearm_checked : forall a, let d := sys_rearm skel Writer a in scheck d (rearm_inv d) = true.
Proof. intros []; vm_cast_no_check (eq_refl true). Qed.

(* stale-timer timeouts repaired: a timeout is returned only when the deadline stored at that
   moment has passed (the strong reading; boundary B11 is closed) *)
(* the deadline-change broadcast, thread-modular: ONE call against everything the rest of the program can
   do to it follows every deadline change (change_inv) - hence any number of callers; the same exploration
   carries the per-call safety bundles (change_tm_inv = [strong_tm_inv; change_inv]) *)
Lemma write_change_tm_checked : forall a, let d := sys_tm skel Writer a in scheck d (change_tm_inv d) = true.
Proof. intros []; vm_cast_no_check (eq_refl true). Qed.
Lemma write_strong_tm_checked : forall a, let d := sys_tm skel Writer a in scheck d (strong_tm_inv d) = true.
Proof.
  intros a d. apply (scheck_weaken d (change_tm_inv d)); [|apply write_change_tm_checked].
  apply inv_and_member. simpl; tauto.
Qed.
Lemma write_strong_one_checked : forall a, let d := sys_1 skel Writer a in scheck d (strong_one_inv Writer d) = true.
Proof. intros []; vm_cast_no_check (eq_refl true). Qed.

(* the weaker bundles on the same systems follow from the explorations above (WaitLemmas.scheck_weaken):
   strong_tm_inv = [tm_inv; ..], strong_one_inv = [fixed_one_inv; ..], fixed_one_inv = [one_inv; ..] *)
Lemma write_tm_checked : forall a, let d := sys_tm skel Writer a in scheck d (tm_inv d) = true.
Proof.
  intros a d. apply (scheck_weaken d (strong_tm_inv d)); [|apply write_strong_tm_checked].
  apply inv_and_member. simpl; tauto.
Qed.
Lemma write_full_checked : forall a, let d := sys_1 skel Writer a in scheck d (fixed_one_inv Writer d) = true.
Proof.
  intros a d. apply (scheck_weaken d (strong_one_inv Writer d)); [|apply write_strong_one_checked].
  apply inv_and_member. simpl; tauto.
Qed.
Lemma write_one_checked : forall a, let d := sys_1 skel Writer a in scheck d (one_inv Writer d) = true.
Proof.
  intros a d. apply (scheck_weaken d (fixed_one_inv Writer d)); [|apply write_full_checked].
  apply inv_and_member. simpl; tauto.
Qed.
