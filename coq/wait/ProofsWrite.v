(* ProofsWrite.v - computed checks for WriteBuffers on the generated skeleton (both timer semantics). *)
From Coq Require Import List Bool.
From KV.Wait Require Import Ir GenWait Model Explore Systems WaitLemmas.
Import ListNotations.

Lemma write_tm_checked : forall a, let d := sys_tm skel Writer a in scheck d (tm_inv d) = true.
Proof. intros []; vm_cast_no_check (eq_refl true). Qed.
Lemma write_one_checked : forall a, let d := sys_1 skel Writer a in scheck d (one_inv Writer d) = true.
Proof. intros []; vm_cast_no_check (eq_refl true). Qed.
Lemma write_oned_checked : forall a, let d := sys_1d skel Writer a in scheck d (oned_inv d) = true.
Proof. intros []; vm_cast_no_check (eq_refl true). Qed.
Lemma write_rearm_checked : forall a, let d := sys_rearm skel Writer a in scheck d (rearm_inv d) = true.
Proof. intros []; vm_cast_no_check (eq_refl true). Qed.

(* F12: no deadline at entry, one is set while the call is parked, it expires: nothing fires *)
Definition f12_write_labels : list label :=
  [LThread 0; LThread 0; LThread 0; LSetWD DFuture; LThread 0; LThread 0; LTick WD].
Lemma write_none_then_set_found :
  forall a, let d := sys_none_then_set skel Writer a in found_ok d (inv_expiry_wakes d) f12_write_labels = true.
Proof. intros []; vm_cast_no_check (eq_refl true). Qed.

(* F11: deadline at entry, cleared, set again, expires: c is still nil *)
Definition f11_write_labels : list label :=
  [LThread 0; LThread 0; LThread 0; LSetWD DNone; LThread 0; LThread 0; LThread 0; LSetWD DFuture;
   LThread 0; LThread 0; LThread 0; LTick WD].
Lemma write_set_zero_set_found :
  forall a, let d := sys_set_zero_set skel Writer a in found_ok d (inv_expiry_wakes_timer d) f11_write_labels = true.
Proof. intros []; vm_cast_no_check (eq_refl true). Qed.

(* B11: the deadline is extended just before the old one fires; the select may pick the timer *)
Definition b11_write_labels : list label :=
  [LThread 0; LSetWD DPast; LThread 0; LThread 0; LSetWD DFuture; LFire 0].
Lemma write_strong_no_early_found :
  forall a, let d := sys_1 skel Writer a in found_ok d (inv_no_early_strong d) b11_write_labels = true.
Proof. intros []; vm_cast_no_check (eq_refl true). Qed.
