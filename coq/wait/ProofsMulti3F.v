(* ProofsMulti3F.v - products of three identical callers on the generated skeletons: readers, data is never left unclaimed (F4 repaired)
   (one file per statement so that the explorations build in parallel; ProofsMulti3.v re-exports them). *)
From Coq Require Import List Bool.
From KV.Wait Require Import Ir GenWait Model Explore Systems WaitLemmas.
Import ListNotations.

Lemma read_3_full_checked : forall a, let d := sys_n skel Reader 3 a in scheck d (fixed_n_inv d) = true.
Proof. intros []; vm_cast_no_check (eq_refl true). Qed.
