(* ProofsMulti3R.v - products of three identical callers on the generated skeletons: readers, close /
   error broadcast.  n_inv Reader = [inv_ok; inv_close_wakes; inv_error_wakes] is a sub-bundle of
   fixed_n_inv, so the exploration of ProofsMulti3F.v serves it (WaitLemmas.scheck_weaken). *)
From Coq Require Import List Bool.
From KV.Wait Require Import Ir GenWait Model Explore Systems WaitLemmas ProofsMulti3F.
Import ListNotations.

Lemma read_3_checked : forall a, let d := sys_n skel Reader 3 a in scheck d (n_inv Reader d) = true.
Proof.
  intros a d. apply (scheck_weaken d (fixed_n_inv d)); [|apply read_3_full_checked].
  apply inv_and_subset. simpl; tauto.
Qed.
