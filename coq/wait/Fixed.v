(* Fixed.v - the skeletons of Read / WriteBuffers with the proposed repairs applied.

   Each term below is what /verif/extract/wait emits for /repo/sess.go with the corresponding
   patch applied (produced by running the translator on a patched copy; fixes_all.diff and
   fixes_all2.diff in this directory are the patches `all` and `all2`).  They are NOT part of
   the tie to the source: they exist so that the repairs are checked against the same theorems
   before they are committed, and so that the positive theorems which replace the `_refuted`
   ones are already proved.
     f11    : `c = timeout.C` after `timeout.Reset(..)`            (Read and WriteBuffers)
     f12    : `goto RESET_TIMER` moved out of `if timeout != nil`   (Read and WriteBuffers)
     f4     : `if len(s.bufptr) > 0 || s.kcp.PeekSize() > 0 { s.notifyReadEvent() }` before the
              Unlock of the three successful paths of Read
     f4peek : the same with the weaker test `s.kcp.PeekSize() > 0` (DESIGN section 6 candidate)
     all    : f11 + f12 + f4
     all2   : all + on `case <-c` re-read the stored deadline and `goto RESET_TIMER` unless it has
              passed (repairs the early timeout of a caller that kept a stale timer: boundary
              B11 and the several-callers deadline change)                                     *)
From Coq Require Import List.
From KV.Wait Require Import Ir GenWait.
Import ListNotations.

Definition read_skel_f11 : list stmt :=
  [SCall PNop; SCall PNop; SLabel 1; SIf (CDeadlineSet RD) [SIf (CTimerNil) [SCall (PTimerNew RD); SAssign VC ETimerC; SCall PDeferTimerStop] [SCall (PTimerReset RD); SAssign VC ETimerC]] [SIf (CTimerNonNil) [SCall PTimerStop; SAssign VC ENil] []]; SLoop [SLock 2; SIf (CBufNonEmpty) [SCall PNop; SCall PAdvanceBuf; SUnlock; SCall PNop; SReturn RData] []; SIf (CPeekPositive) [SIf (CData) [SCall PRecv; SUnlock; SCall PNop; SReturn RData] []; SCall PNop; SCall PNop; SCall PRecv; SCall PNop; SCall PSetBufRest; SUnlock; SCall PNop; SReturn RData] []; SUnlock; SSelect 3 [(RcvReadEvent, [SIf (CTimerNonNil) [SIf (CNotTimerStop) [SSelect 4 [(RcvTimerC, [])] (Some [])] []; SGoto 1] []]); (RcvC, [SReturn RTimeout]); (RcvRErr, [SReturn RSockErr]); (RcvDie, [SReturn RClosed])] None]].

Definition write_skel_f11 : list stmt :=
  [SCall PNop; SCall PNop; SLabel 1; SIf (CDeadlineSet WD) [SIf (CTimerNil) [SCall (PTimerNew WD); SAssign VC ETimerC; SCall PDeferTimerStop] [SCall (PTimerReset WD); SAssign VC ETimerC]] [SIf (CTimerNonNil) [SCall PTimerStop; SAssign VC ENil] []]; SLoop [SSelect 2 [(RcvWErr, [SReturn RSockErr]); (RcvDie, [SReturn RClosed])] (Some []); SLock 3; SCall PNop; SIf (CRoom) [SCall PSendAll; SCall PNop; SCall PFlush; SUnlock; SCall PNop; SReturn RWritten] []; SUnlock; SSelect 4 [(RcvWriteEvent, [SIf (CTimerNonNil) [SIf (CNotTimerStop) [SSelect 5 [(RcvTimerC, [])] (Some [])] []; SGoto 1] []]); (RcvC, [SReturn RTimeout]); (RcvWErr, [SReturn RSockErr]); (RcvDie, [SReturn RClosed])] None]].

Definition read_skel_f12 : list stmt :=
  [SCall PNop; SCall PNop; SLabel 1; SIf (CDeadlineSet RD) [SIf (CTimerNil) [SCall (PTimerNew RD); SAssign VC ETimerC; SCall PDeferTimerStop] [SCall (PTimerReset RD)]] [SIf (CTimerNonNil) [SCall PTimerStop; SAssign VC ENil] []]; SLoop [SLock 2; SIf (CBufNonEmpty) [SCall PNop; SCall PAdvanceBuf; SUnlock; SCall PNop; SReturn RData] []; SIf (CPeekPositive) [SIf (CData) [SCall PRecv; SUnlock; SCall PNop; SReturn RData] []; SCall PNop; SCall PNop; SCall PRecv; SCall PNop; SCall PSetBufRest; SUnlock; SCall PNop; SReturn RData] []; SUnlock; SSelect 3 [(RcvReadEvent, [SIf (CTimerNonNil) [SIf (CNotTimerStop) [SSelect 4 [(RcvTimerC, [])] (Some [])] []] []; SGoto 1]); (RcvC, [SReturn RTimeout]); (RcvRErr, [SReturn RSockErr]); (RcvDie, [SReturn RClosed])] None]].

Definition write_skel_f12 : list stmt :=
  [SCall PNop; SCall PNop; SLabel 1; SIf (CDeadlineSet WD) [SIf (CTimerNil) [SCall (PTimerNew WD); SAssign VC ETimerC; SCall PDeferTimerStop] [SCall (PTimerReset WD)]] [SIf (CTimerNonNil) [SCall PTimerStop; SAssign VC ENil] []]; SLoop [SSelect 2 [(RcvWErr, [SReturn RSockErr]); (RcvDie, [SReturn RClosed])] (Some []); SLock 3; SCall PNop; SIf (CRoom) [SCall PSendAll; SCall PNop; SCall PFlush; SUnlock; SCall PNop; SReturn RWritten] []; SUnlock; SSelect 4 [(RcvWriteEvent, [SIf (CTimerNonNil) [SIf (CNotTimerStop) [SSelect 5 [(RcvTimerC, [])] (Some [])] []] []; SGoto 1]); (RcvC, [SReturn RTimeout]); (RcvWErr, [SReturn RSockErr]); (RcvDie, [SReturn RClosed])] None]].

Definition read_skel_f4 : list stmt :=
  [SCall PNop; SCall PNop; SLabel 1; SIf (CDeadlineSet RD) [SIf (CTimerNil) [SCall (PTimerNew RD); SAssign VC ETimerC; SCall PDeferTimerStop] [SCall (PTimerReset RD)]] [SIf (CTimerNonNil) [SCall PTimerStop; SAssign VC ENil] []]; SLoop [SLock 2; SIf (CBufNonEmpty) [SCall PNop; SCall PAdvanceBuf; SIf (CHasData) [SCall (PProc FNotifyReadEvent)] []; SUnlock; SCall PNop; SReturn RData] []; SIf (CPeekPositive) [SIf (CData) [SCall PRecv; SIf (CHasData) [SCall (PProc FNotifyReadEvent)] []; SUnlock; SCall PNop; SReturn RData] []; SCall PNop; SCall PNop; SCall PRecv; SCall PNop; SCall PSetBufRest; SIf (CHasData) [SCall (PProc FNotifyReadEvent)] []; SUnlock; SCall PNop; SReturn RData] []; SUnlock; SSelect 3 [(RcvReadEvent, [SIf (CTimerNonNil) [SIf (CNotTimerStop) [SSelect 4 [(RcvTimerC, [])] (Some [])] []; SGoto 1] []]); (RcvC, [SReturn RTimeout]); (RcvRErr, [SReturn RSockErr]); (RcvDie, [SReturn RClosed])] None]].

Definition write_skel_f4 : list stmt :=
  [SCall PNop; SCall PNop; SLabel 1; SIf (CDeadlineSet WD) [SIf (CTimerNil) [SCall (PTimerNew WD); SAssign VC ETimerC; SCall PDeferTimerStop] [SCall (PTimerReset WD)]] [SIf (CTimerNonNil) [SCall PTimerStop; SAssign VC ENil] []]; SLoop [SSelect 2 [(RcvWErr, [SReturn RSockErr]); (RcvDie, [SReturn RClosed])] (Some []); SLock 3; SCall PNop; SIf (CRoom) [SCall PSendAll; SCall PNop; SCall PFlush; SUnlock; SCall PNop; SReturn RWritten] []; SUnlock; SSelect 4 [(RcvWriteEvent, [SIf (CTimerNonNil) [SIf (CNotTimerStop) [SSelect 5 [(RcvTimerC, [])] (Some [])] []; SGoto 1] []]); (RcvC, [SReturn RTimeout]); (RcvWErr, [SReturn RSockErr]); (RcvDie, [SReturn RClosed])] None]].

Definition read_skel_f4peek : list stmt :=
  [SCall PNop; SCall PNop; SLabel 1; SIf (CDeadlineSet RD) [SIf (CTimerNil) [SCall (PTimerNew RD); SAssign VC ETimerC; SCall PDeferTimerStop] [SCall (PTimerReset RD)]] [SIf (CTimerNonNil) [SCall PTimerStop; SAssign VC ENil] []]; SLoop [SLock 2; SIf (CBufNonEmpty) [SCall PNop; SCall PAdvanceBuf; SIf (CPeekPositive) [SCall (PProc FNotifyReadEvent)] []; SUnlock; SCall PNop; SReturn RData] []; SIf (CPeekPositive) [SIf (CData) [SCall PRecv; SIf (CPeekPositive) [SCall (PProc FNotifyReadEvent)] []; SUnlock; SCall PNop; SReturn RData] []; SCall PNop; SCall PNop; SCall PRecv; SCall PNop; SCall PSetBufRest; SIf (CPeekPositive) [SCall (PProc FNotifyReadEvent)] []; SUnlock; SCall PNop; SReturn RData] []; SUnlock; SSelect 3 [(RcvReadEvent, [SIf (CTimerNonNil) [SIf (CNotTimerStop) [SSelect 4 [(RcvTimerC, [])] (Some [])] []; SGoto 1] []]); (RcvC, [SReturn RTimeout]); (RcvRErr, [SReturn RSockErr]); (RcvDie, [SReturn RClosed])] None]].

Definition write_skel_f4peek : list stmt :=
  [SCall PNop; SCall PNop; SLabel 1; SIf (CDeadlineSet WD) [SIf (CTimerNil) [SCall (PTimerNew WD); SAssign VC ETimerC; SCall PDeferTimerStop] [SCall (PTimerReset WD)]] [SIf (CTimerNonNil) [SCall PTimerStop; SAssign VC ENil] []]; SLoop [SSelect 2 [(RcvWErr, [SReturn RSockErr]); (RcvDie, [SReturn RClosed])] (Some []); SLock 3; SCall PNop; SIf (CRoom) [SCall PSendAll; SCall PNop; SCall PFlush; SUnlock; SCall PNop; SReturn RWritten] []; SUnlock; SSelect 4 [(RcvWriteEvent, [SIf (CTimerNonNil) [SIf (CNotTimerStop) [SSelect 5 [(RcvTimerC, [])] (Some [])] []; SGoto 1] []]); (RcvC, [SReturn RTimeout]); (RcvWErr, [SReturn RSockErr]); (RcvDie, [SReturn RClosed])] None]].

Definition read_skel_all : list stmt :=
  [SCall PNop; SCall PNop; SLabel 1; SIf (CDeadlineSet RD) [SIf (CTimerNil) [SCall (PTimerNew RD); SAssign VC ETimerC; SCall PDeferTimerStop] [SCall (PTimerReset RD); SAssign VC ETimerC]] [SIf (CTimerNonNil) [SCall PTimerStop; SAssign VC ENil] []]; SLoop [SLock 2; SIf (CBufNonEmpty) [SCall PNop; SCall PAdvanceBuf; SIf (CHasData) [SCall (PProc FNotifyReadEvent)] []; SUnlock; SCall PNop; SReturn RData] []; SIf (CPeekPositive) [SIf (CData) [SCall PRecv; SIf (CHasData) [SCall (PProc FNotifyReadEvent)] []; SUnlock; SCall PNop; SReturn RData] []; SCall PNop; SCall PNop; SCall PRecv; SCall PNop; SCall PSetBufRest; SIf (CHasData) [SCall (PProc FNotifyReadEvent)] []; SUnlock; SCall PNop; SReturn RData] []; SUnlock; SSelect 3 [(RcvReadEvent, [SIf (CTimerNonNil) [SIf (CNotTimerStop) [SSelect 4 [(RcvTimerC, [])] (Some [])] []] []; SGoto 1]); (RcvC, [SReturn RTimeout]); (RcvRErr, [SReturn RSockErr]); (RcvDie, [SReturn RClosed])] None]].

Definition write_skel_all : list stmt :=
  [SCall PNop; SCall PNop; SLabel 1; SIf (CDeadlineSet WD) [SIf (CTimerNil) [SCall (PTimerNew WD); SAssign VC ETimerC; SCall PDeferTimerStop] [SCall (PTimerReset WD); SAssign VC ETimerC]] [SIf (CTimerNonNil) [SCall PTimerStop; SAssign VC ENil] []]; SLoop [SSelect 2 [(RcvWErr, [SReturn RSockErr]); (RcvDie, [SReturn RClosed])] (Some []); SLock 3; SCall PNop; SIf (CRoom) [SCall PSendAll; SCall PNop; SCall PFlush; SUnlock; SCall PNop; SReturn RWritten] []; SUnlock; SSelect 4 [(RcvWriteEvent, [SIf (CTimerNonNil) [SIf (CNotTimerStop) [SSelect 5 [(RcvTimerC, [])] (Some [])] []] []; SGoto 1]); (RcvC, [SReturn RTimeout]); (RcvWErr, [SReturn RSockErr]); (RcvDie, [SReturn RClosed])] None]].

Definition read_skel_all2 : list stmt :=
  [SCall PNop; SCall PNop; SLabel 1; SIf (CDeadlineSet RD) [SIf (CTimerNil) [SCall (PTimerNew RD); SAssign VC ETimerC; SCall PDeferTimerStop] [SCall (PTimerReset RD); SAssign VC ETimerC]] [SIf (CTimerNonNil) [SCall PTimerStop; SAssign VC ENil] []]; SLoop [SLock 2; SIf (CBufNonEmpty) [SCall PNop; SCall PAdvanceBuf; SIf (CHasData) [SCall (PProc FNotifyReadEvent)] []; SUnlock; SCall PNop; SReturn RData] []; SIf (CPeekPositive) [SIf (CData) [SCall PRecv; SIf (CHasData) [SCall (PProc FNotifyReadEvent)] []; SUnlock; SCall PNop; SReturn RData] []; SCall PNop; SCall PNop; SCall PRecv; SCall PNop; SCall PSetBufRest; SIf (CHasData) [SCall (PProc FNotifyReadEvent)] []; SUnlock; SCall PNop; SReturn RData] []; SUnlock; SSelect 3 [(RcvReadEvent, [SIf (CTimerNonNil) [SIf (CNotTimerStop) [SSelect 4 [(RcvTimerC, [])] (Some [])] []] []; SGoto 1]); (RcvC, [SIf (CDeadlineNotDue RD) [SGoto 1] []; SReturn RTimeout]); (RcvRErr, [SReturn RSockErr]); (RcvDie, [SReturn RClosed])] None]].

Definition write_skel_all2 : list stmt :=
  [SCall PNop; SCall PNop; SLabel 1; SIf (CDeadlineSet WD) [SIf (CTimerNil) [SCall (PTimerNew WD); SAssign VC ETimerC; SCall PDeferTimerStop] [SCall (PTimerReset WD); SAssign VC ETimerC]] [SIf (CTimerNonNil) [SCall PTimerStop; SAssign VC ENil] []]; SLoop [SSelect 2 [(RcvWErr, [SReturn RSockErr]); (RcvDie, [SReturn RClosed])] (Some []); SLock 3; SCall PNop; SIf (CRoom) [SCall PSendAll; SCall PNop; SCall PFlush; SUnlock; SCall PNop; SReturn RWritten] []; SUnlock; SSelect 4 [(RcvWriteEvent, [SIf (CTimerNonNil) [SIf (CNotTimerStop) [SSelect 5 [(RcvTimerC, [])] (Some [])] []] []; SGoto 1]); (RcvC, [SIf (CDeadlineNotDue WD) [SGoto 1] []; SReturn RTimeout]); (RcvWErr, [SReturn RSockErr]); (RcvDie, [SReturn RClosed])] None]].


(* The deadline setters as they were when these repairs were proposed and checked: they told the
   blocked callers about a new deadline by posting the ONE data / window wake-up token (the
   broadcast of type deadlineSignal replaced that later).  The skeletons above wake up on that
   token only, so they are checked against the setters of their time. *)
Definition set_deadline_skel_tok : list stmt :=
  [SCall (PStore RD); SCall (PStore WD); SCall (PProc FNotifyReadEvent); SCall (PProc FNotifyWriteEvent); SReturn RNil].
Definition set_read_deadline_skel_tok : list stmt :=
  [SCall (PStore RD); SCall (PProc FNotifyReadEvent); SReturn RNil].
Definition set_write_deadline_skel_tok : list stmt :=
  [SCall (PStore WD); SCall (PProc FNotifyWriteEvent); SReturn RNil].

Inductive fixset := FixF11 | FixF12 | FixF4 | FixF4Peek | FixAll | FixAll2.

Definition fixed_skel (x : fixset) (f : proc) : list stmt :=
  match f, x with
  | FRead, FixF11 => read_skel_f11
  | FRead, FixF12 => read_skel_f12
  | FRead, FixF4 => read_skel_f4
  | FRead, FixF4Peek => read_skel_f4peek
  | FRead, FixAll => read_skel_all
  | FRead, FixAll2 => read_skel_all2
  | FWriteBuffers, FixF11 => write_skel_f11
  | FWriteBuffers, FixF12 => write_skel_f12
  | FWriteBuffers, FixF4 => write_skel_f4
  | FWriteBuffers, FixF4Peek => write_skel_f4peek
  | FWriteBuffers, FixAll => write_skel_all
  | FWriteBuffers, FixAll2 => write_skel_all2
  | FSetDeadline, _ => set_deadline_skel_tok
  | FSetReadDeadline, _ => set_read_deadline_skel_tok
  | FSetWriteDeadline, _ => set_write_deadline_skel_tok
  | _, _ => skel f
  end.
