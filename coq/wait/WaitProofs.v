(* WaitProofs.v - the C13 lemmas, assembled from the computed checks of Proofs*.v and lifted to
   all reachable states by the verified reachability checker (WaitLemmas.scheck_sound). *)
From Coq Require Import List Bool.
From KV.Wait Require Import Ir GenWait Model Explore Systems WaitLemmas Fixed.
From KV.Wait Require Import ProofsRead ProofsWrite ProofsAccept ProofsMulti ProofsMulti3 ProofsFixed.
From KV.Wait Require Import ProofsChange.
Import ListNotations.

Lemma from_bundle :
  forall d ps p, scheck d (inv_and ps) = true -> In p ps ->
    forall st, sreach d st -> p st = true.
Proof.
  intros d ps p H Hin st Hr. eapply inv_and_in; [|exact Hin].
  eapply scheck_sound; [exact H | exact Hr].
Qed.

Ltac bundle H := eapply (from_bundle _ _ _ H); [simpl; tauto | eassumption].

Lemma tm_checked : forall c a, let d := sys_tm skel c a in scheck d (tm_inv d) = true.
Proof. intros [] a; [apply read_tm_checked | apply write_tm_checked | apply accept_tm_checked]. Qed.
Lemma one_checked : forall c a, let d := sys_1 skel c a in scheck d (one_inv c d) = true.
Proof. intros [] a; [apply read_one_checked | apply write_one_checked | apply accept_one_checked]. Qed.
Lemma rearm_checked : forall c a, let d := sys_rearm skel c a in scheck d (rearm_inv d) = true.
Proof. intros [] a; [apply read_rearm_checked | apply write_rearm_checked | apply accept_rearm_checked]. Qed.
Lemma two_checked : forall c a, let d := sys_n skel c 2 a in scheck d (n_inv c d) = true.
Proof. intros [] a; [apply read_2_checked | apply write_2_checked | apply accept_2_checked]. Qed.
Lemma three_checked : forall c a, let d := sys_n skel c 3 a in scheck d (n_inv c d) = true.
Proof. intros [] a; [apply read_3_checked | apply write_3_checked | apply accept_3_checked]. Qed.

(* ---- no early timeout ---- *)
Lemma no_early_timeout :
  forall c async st, sreach (sys_tm skel c async) st ->
    inv_ok st = true /\ inv_no_early st = true.
Proof.
  intros c a st H. pose proof (tm_checked c a) as K. unfold tm_inv in K.
  split; bundle K.
Qed.

Lemma no_early_cleared :
  forall c async st, sreach (sys_1 skel c async) st ->
    inv_cleared (sys_1 skel c async) st = true /\
    inv_no_early_quiet (sys_1 skel c async) st = true.
Proof.
  intros c a st H. pose proof (one_checked c a) as K. unfold one_inv in K.
  destruct c; simpl in K; split; bundle K.
Qed.

Lemma no_early_strong :
  forall c async st,
    (sreach (sys_tm skel c async) st -> inv_no_early_strong (sys_tm skel c async) st = true) /\
    (sreach (sys_1 skel c async) st -> inv_no_early_strong (sys_1 skel c async) st = true) /\
    (sreach (sys_extend_n skel c 2 async) st -> inv_no_early_strong (sys_extend_n skel c 2 async) st = true).
Proof.
  intros c a st.
  assert (K1 : scheck (sys_tm skel c a) (strong_tm_inv (sys_tm skel c a)) = true)
    by (destruct c; [apply read_strong_tm_checked | apply write_strong_tm_checked | apply accept_strong_tm_checked]).
  assert (K2 : scheck (sys_1 skel c a) (strong_one_inv c (sys_1 skel c a)) = true)
    by (destruct c; [apply read_strong_one_checked | apply write_strong_one_checked | apply accept_strong_one_checked]).
  assert (K3 : scheck (sys_extend_n skel c 2 a) (strong_extend_inv (sys_extend_n skel c 2 a)) = true)
    by (destruct c; [apply read_extend_checked | apply write_extend_checked | apply accept_extend_checked]).
  unfold strong_tm_inv in K1. unfold strong_one_inv in K2. unfold strong_extend_inv in K3.
  repeat split; intro H; [bundle K1 | bundle K2 | bundle K3].
Qed.

(* ---- deadline changes ---- *)
Lemma deadline_rearm_partial :
  forall c async st, sreach (sys_rearm skel c async) st ->
    inv_ok st = true /\
    inv_deadline_seen (sys_rearm skel c async) st = true /\
    inv_expiry_wakes (sys_rearm skel c async) st = true.
Proof.
  intros c a st H. pose proof (rearm_checked c a) as K. unfold rearm_inv in K.
  repeat split; bundle K.
Qed.

(* the FULL statement, every caller kind (F10, F11, F12 repaired) *)
Lemma deadline_change_seen_all :
  forall c async st, sreach (sys_1 skel c async) st ->
    inv_deadline_seen (sys_1 skel c async) st = true /\
    inv_expiry_wakes (sys_1 skel c async) st = true.
Proof.
  intros c a st H.
  assert (K : scheck (sys_1 skel c a) (fixed_one_inv c (sys_1 skel c a)) = true)
    by (destruct c; [apply read_full_checked | apply write_full_checked | apply accept_full_checked]).
  unfold fixed_one_inv in K. split; bundle K.
Qed.

(* several callers, every deadline change class: the deadline-change broadcast *)
Lemma change_tm_checked : forall c a, let d := sys_tm skel c a in scheck d (change_tm_inv d) = true.
Proof. intros [] a; [apply read_change_tm_checked | apply write_change_tm_checked | apply accept_change_tm_checked]. Qed.
Lemma change_2_checked : forall c a, let d := sys_change_n skel c 2 false a in scheck d (change_inv d) = true.
Proof. intros [] a; [apply read_change_2_checked | apply write_change_2_checked | apply accept_change_2_checked]. Qed.

Lemma change_inv_all :
  forall d, scheck d (change_inv d) = true -> forall st, sreach d st ->
    inv_ok st = true /\ inv_no_early_strong d st = true /\ inv_cleared d st = true /\
    inv_deadline_seen d st = true /\ inv_expiry_wakes d st = true /\
    inv_expiry_returns d st = true /\ inv_changed_moves d st = true.
Proof.
  intros d K st H. unfold change_inv in K. repeat split; bundle K.
Qed.

Lemma deadline_change_seen_multi :
  forall c async st,
    (let d := sys_tm skel c async in
     sreach d st ->
     inv_ok st = true /\ inv_no_early_strong d st = true /\ inv_cleared d st = true /\
     inv_deadline_seen d st = true /\ inv_expiry_wakes d st = true /\
     inv_expiry_returns d st = true /\ inv_changed_moves d st = true) /\
    (let d := sys_change_n skel c 2 false async in
     sreach d st ->
     inv_ok st = true /\ inv_no_early_strong d st = true /\ inv_cleared d st = true /\
     inv_deadline_seen d st = true /\ inv_expiry_wakes d st = true /\
     inv_expiry_returns d st = true /\ inv_changed_moves d st = true).
Proof.
  intros c a st. split; intros d H; subst d.
  - apply change_inv_all; [|exact H].
    apply (scheck_weaken _ (change_tm_inv (sys_tm skel c a))); [|apply change_tm_checked].
    apply inv_and_member. simpl; tauto.
  - apply change_inv_all; [apply change_2_checked | exact H].
Qed.

Lemma setters_store_then_broadcast : setter_order_ok skel = true.
Proof. exact setter_order_checked. Qed.

(* ---- close / error broadcast ---- *)
Lemma close_wakes_all :
  forall c async st,
    (sreach (sys_tm skel c async) st -> inv_close_wakes (sys_tm skel c async) st = true) /\
    (sreach (sys_n skel c 2 async) st -> inv_close_wakes (sys_n skel c 2 async) st = true) /\
    (sreach (sys_n skel c 3 async) st -> inv_close_wakes (sys_n skel c 3 async) st = true).
Proof.
  intros c a st. pose proof (tm_checked c a) as K1. pose proof (two_checked c a) as K2.
  pose proof (three_checked c a) as K3. unfold tm_inv in K1. unfold n_inv in K2, K3.
  repeat split; intro H; [bundle K1 | destruct c; simpl in K2; bundle K2 | destruct c; simpl in K3; bundle K3].
Qed.

Lemma error_wakes_all :
  forall c async st,
    (sreach (sys_tm skel c async) st -> inv_error_wakes (sys_tm skel c async) st = true) /\
    (sreach (sys_n skel c 2 async) st -> inv_error_wakes (sys_n skel c 2 async) st = true) /\
    (sreach (sys_n skel c 3 async) st -> inv_error_wakes (sys_n skel c 3 async) st = true).
Proof.
  intros c a st. pose proof (tm_checked c a) as K1. pose proof (two_checked c a) as K2.
  pose proof (three_checked c a) as K3. unfold tm_inv in K1. unfold n_inv in K2, K3.
  repeat split; intro H; [bundle K1 | destruct c; simpl in K2; bundle K2 | destruct c; simpl in K3; bundle K3].
Qed.

(* ---- after Close ---- *)
Lemma after_close :
  forall async st,
    (sreach (sys_tm skel Writer async) st -> inv_write_after_close st = true) /\
    (sreach (sys_tm skel Reader async) st -> inv_data_first (sys_tm skel Reader async) st = true) /\
    (sreach (sys_1 skel Reader async) st -> inv_read_drains st = true) /\
    (forall c, sreach (sys_1 skel c async) st ->
               inv_second_close (sys_1 skel c async) (close_fn c) st = true).
Proof.
  intros a st.
  pose proof (tm_checked Writer a) as K1. pose proof (tm_checked Reader a) as K2. unfold tm_inv in K1, K2.
  pose proof (one_checked Reader a) as K3. unfold one_inv in K3. simpl in K3.
  repeat split.
  - intro H. bundle K1.
  - intro H. bundle K2.
  - intro H. bundle K3.
  - intros c H. pose proof (one_checked c a) as K. unfold one_inv in K. destruct c; simpl in K; bundle K.
Qed.

(* ---- no lost wake-up ---- *)
Lemma single_waiter_no_lost_wakeup :
  forall c async st, sreach (sys_1 skel c async) st ->
    inv_ok st = true /\ inv_single (sys_1 skel c async) st = true.
Proof.
  intros c a st H. pose proof (one_checked c a) as K. unfold one_inv in K.
  destruct c; simpl in K; split; bundle K.
Qed.

Lemma single_waiter_set_deadline :
  forall async st,
    (sreach (sys_1d skel Reader async) st -> inv_single (sys_1d skel Reader async) st = true) /\
    (sreach (sys_1d skel Writer async) st -> inv_single (sys_1d skel Writer async) st = true).
Proof.
  intros a st. pose proof (read_oned_checked a) as K1. pose proof (write_oned_checked a) as K2.
  unfold oned_inv in K1, K2. split; intro H; [bundle K1 | bundle K2].
Qed.

Lemma multi_writer :
  forall async st,
    (sreach (sys_n skel Writer 2 async) st -> inv_multi_writer (sys_n skel Writer 2 async) st = true) /\
    (sreach (sys_n skel Writer 3 async) st -> inv_multi_writer (sys_n skel Writer 3 async) st = true).
Proof.
  intros a st. pose proof (write_2_checked a) as K2. pose proof (write_3_checked a) as K3.
  unfold n_inv in K2, K3. simpl in K2, K3. split; intro H; [bundle K2 | bundle K3].
Qed.

Lemma multi_accepter :
  forall async st,
    (sreach (sys_n skel Accepter 2 async) st -> inv_multi (sys_n skel Accepter 2 async) st = true) /\
    (sreach (sys_n skel Accepter 3 async) st -> inv_multi (sys_n skel Accepter 3 async) st = true).
Proof.
  intros a st. pose proof (accept_2_checked a) as K2. pose proof (accept_3_checked a) as K3.
  unfold n_inv in K2, K3. simpl in K2, K3. split; intro H; [bundle K2 | bundle K3].
Qed.

Lemma multi_reader :
  forall async st,
    (sreach (sys_n skel Reader 2 async) st -> inv_multi (sys_n skel Reader 2 async) st = true) /\
    (sreach (sys_n skel Reader 3 async) st -> inv_multi (sys_n skel Reader 3 async) st = true).
Proof.
  intros a st. pose proof (read_2_full_checked a) as K2. pose proof (read_3_full_checked a) as K3.
  unfold fixed_n_inv in K2, K3. split; intro H; [bundle K2 | bundle K3].
Qed.

(* ---- the repairs ---- *)
Lemma fixed_all2 :
  forall async st,
    (forall c, c <> Accepter -> sreach (sys_tm (fixed_skel FixAll2) c async) st ->
               strong_tm_inv (sys_tm (fixed_skel FixAll2) c async) st = true) /\
    (forall c, c <> Accepter -> sreach (sys_1 (fixed_skel FixAll2) c async) st ->
               strong_one_inv c (sys_1 (fixed_skel FixAll2) c async) st = true) /\
    (forall c, c <> Accepter -> sreach (sys_extend_n (fixed_skel FixAll2) c 2 async) st ->
               strong_extend_inv (sys_extend_n (fixed_skel FixAll2) c 2 async) st = true) /\
    (sreach (sys_n (fixed_skel FixAll2) Reader 2 async) st ->
     fixed_n_inv (sys_n (fixed_skel FixAll2) Reader 2 async) st = true).
Proof.
  intros a st. repeat split.
  - intros [] Hc H; [| |congruence]; eapply scheck_sound; try eassumption;
      [apply fixed2_read_tm_checked | apply fixed2_write_tm_checked].
  - intros [] Hc H; [| |congruence]; eapply scheck_sound; try eassumption;
      [apply fixed2_read_one_checked | apply fixed2_write_one_checked].
  - intros [] Hc H; [| |congruence]; eapply scheck_sound; try eassumption;
      [apply fixed2_read_extend_checked | apply fixed2_write_extend_checked].
  - intro H; eapply scheck_sound; try eassumption; apply fixed2_read_2_checked.
Qed.

Lemma fixed_all :
  forall async st,
    (forall c, c <> Accepter -> sreach (sys_tm (fixed_skel FixAll) c async) st ->
               tm_inv (sys_tm (fixed_skel FixAll) c async) st = true) /\
    (forall c, c <> Accepter -> sreach (sys_1 (fixed_skel FixAll) c async) st ->
               fixed_one_inv c (sys_1 (fixed_skel FixAll) c async) st = true) /\
    (sreach (sys_n (fixed_skel FixAll) Reader 2 async) st -> fixed_n_inv (sys_n (fixed_skel FixAll) Reader 2 async) st = true) /\
    (sreach (sys_n (fixed_skel FixAll) Reader 3 async) st -> fixed_n_inv (sys_n (fixed_skel FixAll) Reader 3 async) st = true).
Proof.
  intros a st. repeat split.
  - intros [] Hc H; [| |congruence]; eapply scheck_sound; try eassumption;
      [apply fixed_read_tm_checked | apply fixed_write_tm_checked].
  - intros [] Hc H; [| |congruence]; eapply scheck_sound; try eassumption;
      [apply fixed_read_one_checked | apply fixed_write_one_checked].
  - intro H; eapply scheck_sound; try eassumption; apply fixed_read_2_checked.
  - intro H; eapply scheck_sound; try eassumption; apply fixed_read_3_checked.
Qed.
