(* Systems.v - the concrete transition systems and the state predicates of property C13.
   Definitions only (no proofs).  Every system is parametric in the skeleton table `prog`
   (GenWait.skel for the current source; Fixed.v supplies patched tables) and in the timer
   semantics `async`. *)
From Coq Require Import List Bool Arith NArith.
From KV.Wait Require Import Ir Model Explore.
Import ListNotations.

Record sysdef := mkSys {
  s_async : bool;
  s_cap : nat;
  s_prog : proc -> list stmt;
  s_gap : bool;            (* Model.gap: false only for systems without a deadline setter *)
  s_ghost : bool;
  s_env : list label;
  s_init : list state
}.

Definition s_next (d : sysdef) : state -> list (label * state) :=
  next (s_async d) (s_cap d) (s_prog d) (s_gap d) (s_ghost d) (s_env d).

(* the reachable states of a system: the least set containing s_init, closed under s_next *)
Definition sreach (d : sysdef) : state -> Prop := reachable (s_init d) (s_next d).

Definition BIGFUEL : nat := N.to_nat 300000.

Definition scheck (d : sysdef) (inv : state -> bool) : bool :=
  check state_beq key (s_init d) (s_next d) BIGFUEL inv.
Definition scount (d : sysdef) : option nat :=
  count state_beq key (s_init d) (s_next d) BIGFUEL.
Definition sfind (d : sysdef) (inv : state -> bool) :=
  find_bad state_beq key (s_init d) (s_next d) 200 inv.
Definition srefutes (d : sysdef) (inv : state -> bool) (s0 : state) (tr : list (label * state)) : bool :=
  refutes state_beq label_beq (s_init d) (s_next d) inv s0 tr.

(* ------------------------------------------------------------------ initial states *)
Definition sh0 : shared :=
  mkShared false false false false false 0 false false DNone DNone 0 false false DNone
           false false false false false.
Definition th0 (f : proc) : thread := mkThread f PEntry no_loc false false.
Definition st0 (fs : list proc) : state := mkState sh0 (map th0 fs) 0.
Definition st_with (s : shared) (fs : list proc) : state := mkState s (map th0 fs) 0.

(* ------------------------------------------------------------------ predicates *)
Section Pred.
Variable d : sysdef.

Definition results (t : thread) (s : shared) : list (thread * shared * nat) :=
  thread_results (s_async d) (s_cap d) (s_prog d) (s_gap d) (s_ghost d) t s.

(* the thread is parked at a select without default *)
Definition at_select (t : thread) : bool :=
  match pc t with
  | PAt id =>
      match cont_at (s_prog d) (fn t) id with
      | Some (SSelect _ _ None :: _) => true
      | _ => false
      end
  | _ => false
  end.

(* between two yield points of a call that is not parked: it will re-check under the lock *)
Definition in_flight (t : thread) : bool :=
  match pc t with PAt _ => negb (at_select t) | _ => false end.

Definition is_done (t : thread) : bool := match pc t with PDone _ _ => true | _ => false end.
Definition done_with (r : ret) (t : thread) : bool :=
  match pc t with PDone r' _ => ret_beq r r' | _ => false end.
Definition failed (t : thread) : bool := match pc t with PFail _ => true | _ => false end.

Definition can_return_with (r : ret) (t : thread) (s : shared) : bool :=
  existsb (fun x : thread * shared * nat => done_with r (fst (fst x))) (results t s).
Definition can_move (t : thread) (s : shared) : bool :=
  match results t s with [] => false | _ => true end.

(* what the call waits for *)
Definition cond_true (t : thread) (s : shared) : bool :=
  match fn t with
  | FRead => has_data s
  | FWriteBuffers => room s
  | FAcceptKCP => negb (Nat.eqb (accepts s) 0)
  | _ => false
  end.
(* the deadline signal it watches has been broadcast: `<-changed` is ready *)
Definition changed_pending (t : thread) : bool :=
  match wt (lc t) with WMoved _ => true | _ => false end.
(* a wake-up is pending for it: the token / a queued session, or a deadline change *)
Definition wake_pending (t : thread) (s : shared) : bool :=
  changed_pending t ||
  match fn t with
  | FRead => rtok s
  | FWriteBuffers => wtok s
  | FAcceptKCP => negb (Nat.eqb (accepts s) 0)
  | _ => false
  end.
Definition dl_of (t : thread) (s : shared) : dlv :=
  match fn t with FRead => rd s | FWriteBuffers => wd s | FAcceptKCP => lrd s | _ => DNone end.
Definition err_of (t : thread) (s : shared) : bool :=
  match fn t with FRead => rerr s | FWriteBuffers => werr s | FAcceptKCP => lerr s | _ => false end.

Definition running (t : tmr) : bool := match t with TRun _ _ _ => true | _ => false end.
Definition running_fresh (t : tmr) : bool := match t with TRun _ _ true => true | _ => false end.
(* the timeout case of the select can fire now or later without any further event *)
Definition timeout_enabled (t : thread) : bool :=
  cv (lc t) && (ch_nonempty (ch (lc t)) || running (tm (lc t))).
(* ... and the timer is armed for the deadline that is stored now (or has already fired) *)
Definition timer_follows (t : thread) : bool :=
  cv (lc t) && (ch_nonempty (ch (lc t)) || running_fresh (tm (lc t))).

Definition all_threads (p : thread -> shared -> bool) (st : state) : bool :=
  forallb (fun t => p t (sh st)) (ths st).

(* -- I0: the interpreter never left its domain (no nil timer, double close, lock misuse ...) *)
Definition inv_ok (st : state) : bool :=
  Nat.eqb (bad st) 0 && forallb (fun t => negb (failed t)) (ths st).

(* -- no early timeout: a timeout is returned only on a value sent by the current arming *)
Definition inv_no_early (st : state) : bool :=
  forallb (fun t => match pc t with PDone RTimeout l => l | _ => true end) (ths st).

(* -- stronger reading (boundary B11): at the moment of a timeout return the STORED deadline has
      passed.  Evaluated on the successors of a state. *)
Definition inv_no_early_strong (st : state) : bool :=
  all_threads (fun t s =>
    forallb (fun x : thread * shared * nat =>
               negb (done_with RTimeout (fst (fst x))) ||
               match dl_of t (snd (fst x)) with DFuture => false | _ => true end)
            (results t s)) st.

(* -- the B11 race is the ONLY way to a timeout before the stored deadline: whenever a call can
      return a timeout while the stored deadline is still in the future, a wake-up is pending
      for it at that moment (the select had both ready and picked the timer) *)
Definition inv_no_early_quiet (st : state) : bool :=
  all_threads (fun t s =>
    wake_pending t s ||
    forallb (fun x : thread * shared * nat =>
               negb (done_with RTimeout (fst (fst x))) ||
               match dl_of t (snd (fst x)) with DFuture => false | _ => true end)
            (results t s)) st.

(* -- with the deadline cleared and no wake-up pending, the timeout case is disabled *)
Definition inv_cleared (st : state) : bool :=
  all_threads (fun t s =>
    negb (at_select t && negb (wake_pending t s) && match dl_of t s with DNone => true | _ => false end)
    || negb (timeout_enabled t)) st.

(* -- deadline change seen: parked, no wake-up pending, a deadline is stored => the timeout case
      is enabled and follows THAT deadline *)
Definition inv_deadline_seen (st : state) : bool :=
  all_threads (fun t s =>
    negb (at_select t && negb (wake_pending t s) && match dl_of t s with DNone => false | _ => true end)
    || timer_follows t) st.
(* the same, but only for calls that already own a timer (isolates F11 from F12) *)
Definition inv_deadline_seen_timer (st : state) : bool :=
  all_threads (fun t s =>
    negb (at_select t && negb (wake_pending t s) && match dl_of t s with DNone => false | _ => true end
          && negb (is_nil (tm (lc t))))
    || timer_follows t) st.

(* -- expiry wakes: parked, no wake-up pending, the stored deadline has PASSED => the timeout case
      can still fire (c is the timer channel and the timer runs or has delivered) *)
Definition inv_expiry_wakes (st : state) : bool :=
  all_threads (fun t s =>
    negb (at_select t && negb (wake_pending t s) && match dl_of t s with DPast => true | _ => false end)
    || timeout_enabled t) st.
(* the same, only for calls that already own a timer (isolates F11 from F12) *)
Definition inv_expiry_wakes_timer (st : state) : bool :=
  all_threads (fun t s =>
    negb (at_select t && negb (wake_pending t s) && match dl_of t s with DPast => true | _ => false end
          && negb (is_nil (tm (lc t))))
    || timeout_enabled t) st.

(* -- expiry returns: parked, no wake-up pending, the stored deadline has PASSED => either the
      timer's value is in the channel and the call's step returns the timeout, or the timer
      is armed for the stored deadline and due (the runtime's LFire is enabled and leads to the
      former): nobody stays parked past the deadline *)
Definition inv_expiry_returns (st : state) : bool :=
  all_threads (fun t s =>
    negb (at_select t && negb (wake_pending t s) && match dl_of t s with DPast => true | _ => false end)
    || (cv (lc t) &&
        ((ch_nonempty (ch (lc t)) && can_return_with RTimeout t s) ||
         match tm (lc t) with TRun _ true true => true | _ => false end))) st.

(* -- a deadline change reaches every caller: whenever the deadline signal a call watches has
      been broadcast, the call can move (it is parked with `<-changed` ready, or on its way
      to the select that will find it ready) *)
Definition inv_changed_moves (st : state) : bool :=
  all_threads (fun t s =>
    negb (changed_pending t) ||
    match pc t with PEntry | PAt _ => can_move t s | _ => true end) st.

(* -- systems without a deadline setter: no caller ever finds the generation it watched moved *)
Definition inv_never_moved (st : state) : bool :=
  forallb (fun t => negb (changed_pending t)) (ths st).

(* -- closed channels are broadcast *)
Definition inv_close_wakes (st : state) : bool :=
  all_threads (fun t s =>
    negb (closed_for (fn t) s) ||
    (if at_select t then can_return_with RClosed t s
     else match pc t with PEntry | PAt _ => can_move t s | _ => true end)) st.
Definition inv_error_wakes (st : state) : bool :=
  all_threads (fun t s =>
    negb (err_of t s) ||
    (if at_select t then can_return_with RSockErr t s
     else match pc t with PEntry | PAt _ => can_move t s | _ => true end)) st.

(* -- after Close *)
Definition inv_write_after_close (st : state) : bool :=
  forallb (fun t => negb (done_with RWritten t && g_closed t)) (ths st).
Definition inv_read_drains (st : state) : bool :=       (* closed systems only: nobody else reads *)
  forallb (fun t => negb (is_done t && negb (done_with RData t) && g_closed t && g_data t)) (ths st).
(* a locked check that finds data returns it, whether or not the session is closed *)
Definition inv_data_first (st : state) : bool :=
  all_threads (fun t s =>
    match fn t, pc t with
    | FRead, PAt _ =>
        if at_select t then true
        else negb (has_data s) ||
             forallb (fun x : thread * shared * nat =>
                        match pc (fst (fst x)) with PAt id' => negb (at_select (fst (fst x))) | PDone r _ => ret_beq r RData | _ => true end)
                     (results t s)
    | _, _ => true
    end) st.

(* Close itself: first call closes and succeeds, any later call reports ErrClosedPipe *)
Definition close_outcomes (g : proc) (st : state) : list res :=
  run (s_async d) (s_cap d) (s_prog d) (s_gap d) FUEL g true false (s_prog d g) (frame0 no_loc DNone 0 false) (sh st).
Definition inv_second_close (g : proc) (st : state) : bool :=
  let was := closed_for (match g with FLClose => FAcceptKCP | _ => FRead end) (sh st) in
  match close_outcomes g st with
  | [] => false
  | l => forallb (fun r =>
           match r with
           | RDone r _ s' =>
               closed_for (match g with FLClose => FAcceptKCP | _ => FRead end) s' &&
               (if was then ret_beq r RClosed else negb (ret_beq r RClosed))
           | _ => false
           end) l
  end.

(* -- no lost wake-up, one caller of a kind *)
Definition inv_single (st : state) : bool :=
  all_threads (fun t s => negb (at_select t && cond_true t s) || wake_pending t s) st.

(* -- several callers: readable data / free window is never left unclaimed while someone waits:
      a parked caller whose condition holds has a wake-up pending, or another call of the same
      session is between its wake-up and its locked check *)
Definition inv_multi (st : state) : bool :=
  all_threads (fun t s =>
    negb (at_select t && cond_true t s) || wake_pending t s || existsb in_flight (ths st)) st.

(* -- writers: whenever the previous invariant fails, the periodic update() is enabled and
      posts the token (or the session is closed, which wakes everybody) *)
Definition inv_multi_writer (st : state) : bool :=
  inv_multi st || die (sh st) ||
  match env_call (s_async d) (s_cap d) (s_prog d) (s_gap d) FUpdate DNone 0 false st with
  | [] => false
  | l => forallb (fun st' => wtok (sh st') && Nat.eqb (bad st') 0) l
  end.

(* the two-message form of the multi-reader statement: PeekSize() > 0 is left unclaimed *)
Definition inv_multi_peek (st : state) : bool :=
  all_threads (fun t s =>
    negb (at_select t && match fn t with FRead => negb (Nat.eqb (readable s) 0) | _ => false end)
    || wake_pending t s || existsb in_flight (ths st)) st.

Definition inv_and (ps : list (state -> bool)) (st : state) : bool := forallb (fun p => p st) ps.

End Pred.

(* ------------------------------------------------------------------ environments *)
Definition env_timer (n : nat) : list label :=
  flat_map (fun i => [LTickStale i; LFire i]) (seq 0 n).
Definition env_recall (n : nat) : list label := map LRecall (seq 0 n).

(* thread-modular reader: everything the rest of the program can do to one Read *)
Definition env_read_tm : list label :=
  [LInput 0 false; LInput 1 false; LSetRD DNone; LSetRD DFuture; LSetRD DPast; LClose; LRErr;
   LTick RD; LStealR; LTakeData; LTakeBuf] ++ env_timer 1.
Definition env_write_tm : list label :=
  [LInput 0 false; LInput 0 true; LUpdate; LSetWD DNone; LSetWD DFuture; LSetWD DPast; LClose; LWErr;
   LTick WD; LStealW; LTakeRoom] ++ env_timer 1.
Definition env_accept_tm : list label :=
  [LArrive; LLSetRD DNone; LLSetRD DFuture; LLSetRD DPast; LLClose; LLErr; LTick LRD; LStealAccept]
  ++ env_timer 1.

(* closed systems: one caller, nobody else consumes; the call may be repeated *)
Definition env_read_1 : list label :=
  [LInput 0 false; LInput 1 false; LInput 2 false; LSetRD DNone; LSetRD DFuture; LSetRD DPast; LClose; LRErr; LTick RD]
  ++ env_timer 1 ++ env_recall 1.
Definition env_write_1 : list label :=
  [LInput 0 false; LInput 0 true; LUpdate; LSetWD DNone; LSetWD DFuture; LSetWD DPast; LClose; LWErr; LTick WD]
  ++ env_timer 1 ++ env_recall 1.
Definition env_accept_1 : list label :=
  [LArrive; LLSetRD DNone; LLSetRD DFuture; LLSetRD DPast; LLSetD DFuture; LLClose; LLErr; LTick LRD]
  ++ env_timer 1 ++ env_recall 1.

(* SetDeadline (both directions at once) instead of the single-direction setters *)
Definition env_read_1d : list label :=
  [LInput 1 false; LSetD DNone; LSetD DFuture; LSetD DPast; LClose; LTick RD] ++ env_timer 1 ++ env_recall 1.
Definition env_write_1d : list label :=
  [LInput 0 true; LUpdate; LSetD DNone; LSetD DFuture; LSetD DPast; LClose; LTick WD] ++ env_timer 1 ++ env_recall 1.

(* deadline present at entry and never cleared: set -> later / earlier / past *)
Definition env_read_rearm : list label :=
  [LInput 0 false; LInput 1 false; LSetRD DFuture; LSetRD DPast; LClose; LRErr; LTick RD] ++ env_timer 1 ++ env_recall 1.
Definition env_write_rearm : list label :=
  [LInput 0 false; LInput 0 true; LUpdate; LSetWD DFuture; LSetWD DPast; LClose; LWErr; LTick WD] ++ env_timer 1 ++ env_recall 1.

(* the three refuted deadline sequences, smallest environments *)
Definition env_read_dl : list label := [LSetRD DNone; LSetRD DFuture; LTick RD] ++ env_timer 1.
Definition env_write_dl : list label := [LSetWD DNone; LSetWD DFuture; LTick WD] ++ env_timer 1.
Definition env_accept_dl : list label := [LLSetRD DNone; LLSetRD DFuture; LTick LRD] ++ env_timer 1.

(* products of identical callers *)
Definition env_read_n (n : nat) : list label :=
  [LInput 0 false; LInput 1 false; LInput 2 false; LClose; LRErr] ++ env_recall n.
Definition env_write_n (n : nat) : list label :=
  [LInput 0 false; LInput 0 true; LUpdate; LClose; LWErr] ++ env_recall n.
Definition env_accept_n (n : nat) : list label :=
  [LArrive; LLClose; LLErr] ++ env_recall n.
(* ... with deadlines (for the close / error broadcast over timers too) *)
Definition env_read_n_dl (n : nat) : list label :=
  [LInput 1 false; LSetRD DNone; LSetRD DFuture; LClose; LRErr; LTick RD] ++ env_timer n.

Definition sh_rd (v : dlv) : shared := set_rd v sh0.
Definition sh_wd (v : dlv) : shared := set_wd v sh0.

Definition rep {A} (n : nat) (x : A) : list A := repeat x n.

(* ------------------------------------------------------------------ the named systems *)
Inductive caller := Reader | Writer | Accepter.
Definition fn_of (c : caller) : proc :=
  match c with Reader => FRead | Writer => FWriteBuffers | Accepter => FAcceptKCP end.

(* one call against everything the rest of the program may do to it (covers any number of
   other callers for per-call safety statements) *)
Definition sys_tm (prog : proc -> list stmt) (c : caller) (async : bool) : sysdef :=
  mkSys async 2 prog true true
        (match c with Reader => env_read_tm | Writer => env_write_tm | Accepter => env_accept_tm end)
        [st0 [fn_of c]].

(* one caller of a kind, nobody else consumes, calls may follow each other *)
Definition sys_1 (prog : proc -> list stmt) (c : caller) (async : bool) : sysdef :=
  mkSys async 2 prog true true
        (match c with Reader => env_read_1 | Writer => env_write_1 | Accepter => env_accept_1 end)
        [st0 [fn_of c]].

(* the same with SetDeadline (both directions) as the setter *)
Definition sys_1d (prog : proc -> list stmt) (c : caller) (async : bool) : sysdef :=
  mkSys async 2 prog true false
        (match c with Reader => env_read_1d | Writer => env_write_1d | Accepter => env_accept_1 end)
        [st0 [fn_of c]].

(* a deadline is stored before the call and is only ever replaced by another deadline
   (later, earlier, already past), never cleared *)
Definition sys_rearm (prog : proc -> list stmt) (c : caller) (async : bool) : sysdef :=
  match c with
  | Reader => mkSys async 2 prog true false env_read_rearm
                    [st_with (sh_rd DFuture) [FRead]; st_with (sh_rd DPast) [FRead]]
  | Writer => mkSys async 2 prog true false env_write_rearm
                    [st_with (sh_wd DFuture) [FWriteBuffers]; st_with (sh_wd DPast) [FWriteBuffers]]
  | Accepter => mkSys async 2 prog true false ([LArrive; LLSetRD DFuture; LLSetRD DPast; LLClose; LLErr; LTick LRD] ++ env_timer 1 ++ env_recall 1)
                    [st_with (set_lrd DFuture sh0) [FAcceptKCP]; st_with (set_lrd DPast sh0) [FAcceptKCP]]
  end.

(* smallest systems exhibiting the refuted deadline sequences *)
Definition sys_none_then_set (prog : proc -> list stmt) (c : caller) (async : bool) : sysdef :=
  mkSys async 1 prog true false
        (match c with Reader => env_read_dl | Writer => env_write_dl | Accepter => env_accept_dl end)
        [st0 [fn_of c]].
Definition sys_set_zero_set (prog : proc -> list stmt) (c : caller) (async : bool) : sysdef :=
  mkSys async 1 prog true false
        (match c with Reader => env_read_dl | Writer => env_write_dl | Accepter => env_accept_dl end)
        [st_with (match c with Reader => sh_rd DFuture | Writer => sh_wd DFuture | Accepter => set_lrd DFuture sh0 end)
                 [fn_of c]].

(* n identical callers parked with a deadline that is then replaced by a later one *)
Definition sys_extend_n (prog : proc -> list stmt) (c : caller) (n : nat) (async : bool) : sysdef :=
  match c with
  | Writer => mkSys async 1 prog true false ([LSetWD DFuture; LTick WD] ++ env_timer n)
                    [st_with (sh_wd DFuture) (rep n FWriteBuffers)]
  | Accepter => mkSys async 1 prog true false ([LLSetRD DFuture; LTick LRD] ++ env_timer n)
                      [st_with (set_lrd DFuture sh0) (rep n FAcceptKCP)]
  | _ => mkSys async 1 prog true false ([LSetRD DFuture; LTick RD] ++ env_timer n)
               [st_with (sh_rd DFuture) (rep n FRead)]
  end.

(* n identical callers parked (or about to park) on one session / listener while the deadline
   they wait on is set, replaced and cleared in every order: every setter value (none / some
   future instant / an instant already past) any number of times, the clock reaching the stored
   deadline, the runtime's timers (incl. timers still armed for a replaced deadline) and - with
   `wake` - what the callers wait for becoming possible once in a while (so that the data /
   window / backlog wake-up and the deadline broadcast interleave).  The initial states cover a
   deadline that is absent, pending or already expired at entry.  Hence the change classes
   none->set, set->later, set->earlier, set->zero->set, set->past and cleared are all paths of
   this system. *)
Definition env_change_n (c : caller) (n : nat) (wake : bool) : list label :=
  match c with
  | Reader => [LSetRD DNone; LSetRD DFuture; LSetRD DPast; LTick RD] ++ (if wake then [LInput 1 false] else [])
  | Writer => [LSetWD DNone; LSetWD DFuture; LSetWD DPast; LTick WD] ++ (if wake then [LInput 0 true; LUpdate] else [])
  | Accepter => [LLSetRD DNone; LLSetRD DFuture; LLSetRD DPast; LTick LRD] ++ (if wake then [LArrive] else [])
  end ++ env_timer n.
Definition sys_change_n (prog : proc -> list stmt) (c : caller) (n : nat) (wake : bool) (async : bool) : sysdef :=
  let w := match c with Reader => set_rd | Writer => set_wd | Accepter => set_lrd end in
  mkSys async 1 prog true false (env_change_n c n wake)
        [st0 (rep n (fn_of c)); st_with (w DFuture sh0) (rep n (fn_of c)); st_with (w DPast sh0) (rep n (fn_of c))].

(* the order inside a deadline setter (the environment procedures run atomically in this model,
   so the order is checked on the skeleton): straight-line code in which every X.broadcast()
   comes after the X.Store(t) of the same deadline and no store follows its broadcast.  A
   setter that broadcasts first could wake a caller that then re-loads the OLD deadline. *)
Fixpoint store_then_bcast (stored bcast : list which) (ss : list stmt) : bool :=
  match ss with
  | [] => true
  | SCall (PStore w) :: r => negb (existsb (which_beq w) bcast) && store_then_bcast (w :: stored) bcast r
  | SCall (PBroadcast w) :: r => existsb (which_beq w) stored && store_then_bcast stored (w :: bcast) r
  | SCall _ :: r => store_then_bcast stored bcast r
  | SReturn _ :: r => store_then_bcast stored bcast r
  | _ => false
  end.
Definition setter_order_ok (prog : proc -> list stmt) : bool :=
  forallb (fun g => store_then_bcast [] [] (prog g))
          [FSetDeadline; FSetReadDeadline; FSetWriteDeadline; FLSetDeadline; FLSetReadDeadline; FLSetWriteDeadline].

(* n identical callers on one session / listener.  No deadline setter in the environment: the
   generation of the deadline signals never moves (inv_never_moved, part of the bundles below), so
   the yield point after watch() is left out (s_gap = false). *)
Definition sys_n (prog : proc -> list stmt) (c : caller) (n : nat) (async : bool) : sysdef :=
  mkSys async 3 prog false false
        (match c with Reader => env_read_n n | Writer => env_write_n n | Accepter => env_accept_n n end)
        [st0 (rep n (fn_of c))].

(* ------------------------------------------------------------------ the invariant bundles *)
Definition close_fn (c : caller) : proc := match c with Accepter => FLClose | _ => FClose end.

(* per-call safety, thread-modular *)
Definition tm_inv (d : sysdef) : state -> bool :=
  inv_and [inv_ok; inv_no_early; inv_close_wakes d; inv_error_wakes d; inv_data_first d;
           inv_write_after_close].
(* one caller of a kind, closed system *)
Definition one_inv (c : caller) (d : sysdef) : state -> bool :=
  inv_and ([inv_ok; inv_single d; inv_read_drains; inv_write_after_close; inv_second_close d (close_fn c);
            inv_close_wakes d; inv_error_wakes d]
           ++ [inv_cleared d; inv_no_early_quiet d]).
Definition oned_inv (d : sysdef) : state -> bool := inv_and [inv_ok; inv_single d; inv_cleared d].
Definition rearm_inv (d : sysdef) : state -> bool :=
  inv_and [inv_ok; inv_deadline_seen d; inv_expiry_wakes d].
(* products *)
Definition n_inv (c : caller) (d : sysdef) : state -> bool :=
  inv_and ([inv_ok; inv_close_wakes d; inv_error_wakes d; inv_never_moved]
           ++ match c with Reader => [] | Writer => [inv_multi_writer d] | Accepter => [inv_multi d] end).
(* what the repaired Read / WriteBuffers satisfy in the closed one-caller system *)
Definition fixed_one_inv (c : caller) (d : sysdef) : state -> bool :=
  inv_and [one_inv c d; inv_deadline_seen d; inv_expiry_wakes d].
Definition fixed_n_inv (d : sysdef) : state -> bool :=
  inv_and [inv_ok; inv_close_wakes d; inv_error_wakes d; inv_never_moved; inv_multi d].
(* ... and with the stored deadline re-validated when the timer fires (repair `all2`) *)
Definition strong_tm_inv (d : sysdef) : state -> bool := inv_and [tm_inv d; inv_no_early_strong d].
Definition strong_one_inv (c : caller) (d : sysdef) : state -> bool :=
  inv_and [fixed_one_inv c d; inv_no_early_strong d].
Definition strong_extend_inv (d : sysdef) : state -> bool :=
  inv_and [inv_ok; inv_no_early_strong d; inv_expiry_wakes d].
(* several callers, every deadline change class (the broadcast repair) *)
Definition change_inv (d : sysdef) : state -> bool :=
  inv_and [inv_ok; inv_no_early_strong d; inv_cleared d; inv_deadline_seen d; inv_expiry_wakes d;
           inv_expiry_returns d; inv_changed_moves d].
(* ... and the same for ONE call against everything the rest of the program can do to it (sys_tm):
   since a deadline change is broadcast, following it no longer depends on winning a token, so the
   statement is per call and holds with ANY number of other callers; one exploration serves this
   bundle and the per-call safety bundles *)
Definition change_tm_inv (d : sysdef) : state -> bool := inv_and [strong_tm_inv d; change_inv d].
