(* ProofsChange2.v - the deadline-change broadcast: the product of two identical callers WITH the callers'
   own wake-up event (a datagram / an acknowledgement and update() / a new peer) interleaved with the
   deadline changes.  Part of the products development (C13n.v), not of C13.v. *)
From Coq Require Import List Bool.
From KV.Wait Require Import Ir GenWait Model Explore Systems WaitLemmas.
Import ListNotations.

Lemma read_change_2w_checked : forall a, let d := sys_change_n skel Reader 2 true a in scheck d (change_inv d) = true.
Proof. intros []; vm_cast_no_check (eq_refl true). Qed.
Lemma write_change_2w_checked : forall a, let d := sys_change_n skel Writer 2 true a in scheck d (change_inv d) = true.
Proof. intros []; vm_cast_no_check (eq_refl true). Qed.
Lemma accept_change_2w_checked : forall a, let d := sys_change_n skel Accepter 2 true a in scheck d (change_inv d) = true.
Proof. intros []; vm_cast_no_check (eq_refl true). Qed.
