(* Scenarios.v - what the model (the interpreter over the generated skeletons) allows as the
   outcome of each real-time scenario of harness/wait_test.go.  checks/C13.py asks, for every
   scenario the harness ran, whether the observed multiset of call results is one of the
   outcomes computed here (`allowed`).  Definitions only.

   A script alternates environment events with `SSettle` = "let every caller run until it is
   parked or has returned, timers that are due fire".  The clock is explicit: `LTick w` = the
   stored deadline w passes, `SStaleAll` = the replaced deadlines of all stale timers pass.
   A deadline setter broadcasts (deadlineSignal): after `set v; SSettle` EVERY parked caller has
   been through RESET_TIMER again and follows the deadline stored now, whatever n is.
   `SMarkEarly` relabels the timeouts returned so far as "early" (they happened before the
   deadline in force passes in the script).                                                  *)
From Coq Require Import List Bool Arith NArith.
From KV.Wait Require Import Ir Model Explore Systems.
Import ListNotations.

Inductive sstep :=
| SEnv (l : label)
| SSettle
| SStaleAll
| SMarkEarly.

Inductive scen :=
| ScWake | ScWakeSeparate | ScWakeShort | ScClose | ScSockErr
| ScMulti (k : nat)       (* n readers (any buffer sizes), ONE datagram carrying k messages (any lengths) *)
| ScDlBefore | ScDlBeforeBoth | ScDlPastBefore
| ScNoneThenSet | ScSetLater | ScSetEarlier | ScSetZeroSet | ScSetPast | ScCleared
| ScSetDOther (far : bool).   (* the OTHER direction's deadline was set on its own and has passed; this
                               direction has no deadline (far = false) or a distant one (far = true);
                               SetDeadline (both directions) while the calls are parked *)

Inductive oc := OBlocked | OData | OWritten | OAccepted | OTimeout | OTimeoutEarly | OClosed | OSockErr | OOther
            | OBlockedData.   (* a Read still parked at the end although data is readable *)
Definition oc_code (o : oc) : nat :=
  match o with OBlocked => 0 | OData => 1 | OWritten => 2 | OAccepted => 3 | OTimeout => 4
             | OTimeoutEarly => 5 | OClosed => 6 | OSockErr => 7 | OOther => 8 | OBlockedData => 9 end.

Section Scen.
Variable prog : proc -> list stmt.
Let async := false.
Let cap := 3.

Definition internal_next (n : nat) (st : state) : list (label * state) :=
  next async cap prog true false (map LFire (seq 0 n)) st.

(* all states reachable by internal steps, then those in which nothing internal is enabled *)
Definition settle (n : nat) (sts : list state) : list state :=
  match explore state_beq key sts (internal_next n) BIGFUEL with
  | Some R => filter (fun s => match internal_next n s with [] => true | _ => false end) R
  | None => [mkState sh0 [] E_FUEL]
  end.

Definition apply_env (l : label) (st : state) : list state :=
  match env_step async cap prog true l st with
  | [] => [st]                    (* not enabled: the event changes nothing *)
  | r => r
  end.

Definition stale_all (n : nat) (st : state) : state :=
  fold_left (fun s i => match env_step async cap prog true (LTickStale i) s with s' :: _ => s' | [] => s end)
            (seq 0 n) st.

Definition mark_early (st : state) : state :=
  mkState (sh st)
          (map (fun t => match pc t with
                         | PDone RTimeout l => mkThread (fn t) (PDone RInvalid l) (lc t) (g_closed t) (g_data t)
                         | _ => t end) (ths st))
          (bad st).

Definition dedup (l : list state) : list state :=
  fold_right (fun s acc => if existsb (state_beq s) acc then acc else s :: acc) [] l.

Definition sstep_run (n : nat) (sts : list state) (x : sstep) : list state :=
  match x with
  | SEnv l => dedup (flat_map (apply_env l) sts)
  | SSettle => settle n sts
  | SStaleAll => dedup (map (stale_all n) sts)
  | SMarkEarly => dedup (map mark_early sts)
  end.

Definition outcome_of (s : shared) (t : thread) : oc :=
  match pc t with
  | PDone RData _ => OData
  | PDone RWritten _ => OWritten
  | PDone RAccepted _ => OAccepted
  | PDone RTimeout _ => OTimeout
  | PDone RInvalid _ => OTimeoutEarly
  | PDone RClosed _ => OClosed
  | PDone RSockErr _ => OSockErr
  | PDone _ _ | PFail _ => OOther
  | PEntry | PAt _ => match fn t with FRead => if has_data s then OBlockedData else OBlocked | _ => OBlocked end
  end.

Fixpoint insert_code (x : nat) (l : list nat) : list nat :=
  match l with [] => [x] | y :: r => if Nat.leb x y then x :: l else y :: insert_code x r end.
Definition sort_codes (l : list nat) : list nat := fold_right insert_code [] l.

Definition outcome (st : state) : list nat :=
  if Nat.eqb (bad st) 0 then sort_codes (map (fun t => oc_code (outcome_of (sh st) t)) (ths st)) else [99].

Definition dedup_nats (l : list (list nat)) : list (list nat) :=
  fold_right (fun s acc => if existsb (list_beq nat Nat.eqb s) acc then acc else s :: acc) [] l.

Definition run_script (c : caller) (n : nat) (script : list sstep) : list (list nat) :=
  dedup_nats (map outcome (fold_left (sstep_run n) script [st0 (rep n (fn_of c))])).

(* ---- the scripts, mirroring harness/wait_test.go ---- *)
Definition which_of (c : caller) : which := match c with Reader => RD | Writer => WD | Accepter => LRD end.
Definition set_dl_label (c : caller) (v : dlv) : label :=
  match c with Reader => LSetRD v | Writer => LSetWD v | Accepter => LLSetRD v end.
Definition close_label (c : caller) : label := match c with Accepter => LLClose | _ => LClose end.
Definition err_label (c : caller) : label := match c with Reader => LRErr | Writer => LWErr | Accepter => LLErr end.

Definition wake_steps (c : caller) (n : nat) : list sstep :=
  match c with
  | Reader => [SEnv (LInput n false); SSettle]                      (* n messages, ONE datagram *)
  | Writer => flat_map (fun _ => [SEnv (LInput 0 true); SEnv LUpdate; SSettle]) (seq 0 n)
                                                                   (* ACKs keep arriving, update() keeps ticking *)
  | Accepter => map (fun _ => SEnv LArrive) (seq 0 n) ++ [SSettle]
  end.

Definition script (c : caller) (s : scen) (n : nat) : list sstep :=
  let tick := SEnv (LTick (which_of c)) in
  let set v := SEnv (set_dl_label c v) in
  match s with
  | ScWake => SSettle :: wake_steps c n
  | ScWakeSeparate => SSettle :: flat_map (fun _ => [SEnv (LInput 1 false); SSettle]) (seq 0 n)
  | ScWakeShort => [SSettle; SEnv (LInput 1 false); SSettle]
  | ScMulti k => [SSettle; SEnv (LInput k false); SSettle]
  | ScClose => [SSettle; SEnv (close_label c); SSettle]
  | ScSockErr => [SSettle; SEnv (err_label c); SSettle]
  | ScDlBefore => [set DFuture; SSettle; SMarkEarly; tick; SSettle]
  | ScDlBeforeBoth => [SEnv (LSetD DFuture); SSettle; SMarkEarly; tick; SSettle]
  | ScDlPastBefore => [set DPast; SSettle]
  | ScNoneThenSet => [SSettle; set DFuture; SSettle; SMarkEarly; tick; SSettle]
  | ScSetLater => [set DFuture; SSettle; set DFuture; SSettle; SStaleAll; SSettle; SMarkEarly; tick; SSettle]
  | ScSetEarlier => [set DFuture; SSettle; set DFuture; SSettle; SMarkEarly; tick; SSettle]
  | ScSetZeroSet => [set DFuture; SSettle; set DNone; SSettle; set DFuture; SSettle; SMarkEarly; tick; SSettle]
  | ScSetPast => [set DFuture; SSettle; set DPast; SSettle]
  | ScCleared => [set DFuture; SSettle; set DNone; SSettle; SStaleAll; SSettle; SMarkEarly] ++ wake_steps c n
  | ScSetDOther far =>
      let other := match c with Reader => [SEnv (LSetWD DFuture); SEnv (LTick WD)]
                              | Writer => [SEnv (LSetRD DFuture); SEnv (LTick RD)]
                              | Accepter => [] end in
      let both := match c with Accepter => LLSetD DFuture | _ => LSetD DFuture end in
      other ++ (if far then [set DFuture] else []) ++ [SSettle; SEnv both; SSettle; SMarkEarly; tick; SSettle]
  end.

Definition allowed (c : caller) (s : scen) (n : nat) : list (list nat) := run_script c n (script c s n).

Definition allows (c : caller) (s : scen) (n : nat) (observed : list nat) : bool :=
  existsb (list_beq nat Nat.eqb (sort_codes observed)) (allowed c s n).

End Scen.
