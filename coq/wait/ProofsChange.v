(* ProofsChange.v - the deadline-change broadcast: the product of two identical callers on the generated
   skeletons, every deadline change class (setters, clock, timers), and the order inside the setters.
   (The thread-modular form - any number of callers - is in ProofsRead/Write/Accept.v; the products with
   the callers' own wake-up event and of three callers are in ProofsChange2.v / ProofsChange3*.v.) *)
From Coq Require Import List Bool.
From KV.Wait Require Import Ir GenWait Model Explore Systems WaitLemmas.
Import ListNotations.

Lemma read_change_2_checked : forall a, let d := sys_change_n skel Reader 2 false a in scheck d (change_inv d) = true.
Proof. intros []; vm_cast_no_check (eq_refl true). Qed.
Lemma write_change_2_checked : forall a, let d := sys_change_n skel Writer 2 false a in scheck d (change_inv d) = true.
Proof. intros []; vm_cast_no_check (eq_refl true). Qed.
Lemma accept_change_2_checked : forall a, let d := sys_change_n skel Accepter 2 false a in scheck d (change_inv d) = true.
Proof. intros []; vm_cast_no_check (eq_refl true). Qed.

(* the setters store the deadline before they broadcast *)
Lemma setter_order_checked : setter_order_ok skel = true.
Proof. vm_cast_no_check (eq_refl true). Qed.
