(* fecEncoder.encode: layout of the data packets, zero padding to the group maximum, parity
   packets = the codec applied to the padded size-prefixed images, ids advancing modulo paws with
   groups aligned to multiples of shardSize, reset of shardCount/maxSize per group (C07 encoder
   layout; DESIGN Appendix B.3). *)
From Coq Require Import ZArith List Bool Lia Arith.
From KV.Base Require Import Consts Word WordLemmas.
From KV.Fec Require Import Codec AutoTune Fec FecSpec FecProofs FecProofs2.
Import ListNotations.
Local Open Scope Z_scope.

Ltac Zify.zify_post_hook ::= Z.div_mod_to_equations.

Definition enc_inv (d p : Z) (e : fecenc) (g : Z) (done : list bytes) : Prop :=
  e_data e = d /\ e_parity e = p /\ e_size e = d + p /\ e_paws e = paws_of (d + p) /\
  0 <= e_hoff e /\ e_cache e = done /\ e_count e = Z.of_nat (length done) /\
  Z.of_nat (length done) < d /\
  0 <= g < paws_of (d + p) / (d + p) /\ e_next e = g * (d + p) + Z.of_nat (length done) /\
  e_max e = match done with [] => 0 | _ => e_hoff e + c_fecHeaderSize + Z.of_nat (grp_len done) end.

Definition next_group (d p g : Z) : Z := (g + 1) mod (paws_of (d + p) / (d + p)).

Lemma seal_parity_spec paws par : forall p k next,
  0 <= next < paws -> next + Z.of_nat p <= paws ->
  seal_parity paws next par k p =
  (map (fun j => le32 (next + Z.of_nat j) ++ le16 c_typeParity ++ nth (k + j) par []) (seq 0 p),
   (next + Z.of_nat p) mod paws).
Proof.
  induction p as [|p IH]; intros k next H0 Hle.
  - simpl. rewrite Z.add_0_r. rewrite Z.mod_small by lia. reflexivity.
  - simpl seal_parity.
    destruct (Z.eq_dec (next + 1) paws) as [Heq|Hne].
    + (* only possible for the last one *)
      assert (p = 0)%nat by lia. subst p. simpl. rewrite Heq, Z_mod_same_full.
      rewrite Z.add_0_r, Nat.add_0_r. reflexivity.
    + rewrite (Z.mod_small (next + 1) paws) by lia.
      rewrite IH by lia. simpl. rewrite Z.add_0_r, Nat.add_0_r. f_equal.
      * f_equal. rewrite <- seq_shift, map_map. apply map_ext. intros j.
        replace (next + 1 + Z.of_nat j) with (next + Z.of_nat (S j)) by lia.
        replace (k + S j)%nat with (S (k + j)) by lia. reflexivity.
      * f_equal. lia.
Qed.

Lemma grp_len_app a b : grp_len (a ++ b) = Nat.max (grp_len a) (grp_len b).
Proof. unfold grp_len. rewrite map_app. apply list_max_app. Qed.

Lemma grp_len_single x : grp_len [x] = length x.
Proof. unfold grp_len. simpl. apply Nat.max_0_r. Qed.

Section Encoder.
Variable mk : Z -> Z -> codec.
Variables d p : Z.
Hypothesis Hcfg : cfg_ok d p.
Local Notation ss := (d + p).
Local Notation C := (mk d p).
Local Notation G := (paws_of (d + p) / (d + p)).

Lemma enc_new_inv off : 0 <= off -> exists e, enc_new d p off = Some e /\ enc_inv d p e 0 [] /\ e_hoff e = off.
Proof.
  intros Hoff. destruct Hcfg as (Hd & Hp & Hs). unfold enc_new.
  destruct ((d <=? 0) || (p <=? 0)) eqn:E1.
  { apply orb_true_iff in E1. destruct E1 as [E|E]; apply Z.leb_le in E; lia. }
  destruct (256 <? d + p) eqn:E2; [apply Z.ltb_lt in E2; lia|].
  eexists. split; [reflexivity|]. split; [|reflexivity].
  unfold enc_inv; simpl. destruct (paws_groups ss ltac:(lia)) as (_ & HG & _).
  repeat split; try reflexivity; lia.
Qed.

(* one call of encode *)
Lemma enc_step e g done buf now rto :
  enc_inv d p e g done ->
  c_fecHeaderSizePlus2 <= blen buf -> e_hoff e + blen buf <= c_mtuLimit ->
  let img := image (skipn 8 buf) in
  let dpkt := le32 (g * ss + Z.of_nat (length done)) ++ le16 c_typeData ++ img in
  exists e', 
    (Z.of_nat (length done) + 1 < d ->
       enc_encode mk e buf now rto = Ok (e', dpkt, []) /\ enc_inv d p e' g (done ++ [img]) /\ (e_hoff e' = e_hoff e /\ e_ts e' = now)) /\
    (Z.of_nat (length done) + 1 = d ->
       enc_encode mk e buf now rto =
         Ok (e', dpkt, if now - e_ts e <? rto then parity_packets C d p (done ++ [img]) g else []) /\
       enc_inv d p e' (next_group d p g) [] /\ (e_hoff e' = e_hoff e /\ e_ts e' = now)).
Proof.
  intros (Hd & Hp & Hs & Hw & Hoff & Hcache & Hcount & Hlt & Hg & Hnext & Hmax) Hlo Hhi img dpkt.
  destruct Hcfg as (Hd0 & Hp0 & Hsum).
  destruct (paws_groups ss ltac:(lia)) as (HG & HG0 & Hpw & Hgap).
  assert (Hgrp : g * ss + ss <= paws_of ss) by nia.
  assert (Himg : blen buf - c_fecHeaderSize = blen (skipn 8 buf) + 2).
  { unfold blen, c_fecHeaderSize, c_fecHeaderSizePlus2 in *. rewrite skipn_length. lia. }
  assert (Hu16 : u16 (blen buf - c_fecHeaderSize) = blen (skipn 8 buf) + 2).
  { rewrite Himg. unfold u16. apply Z.mod_small. unfold blen, c_fecHeaderSizePlus2, c_mtuLimit in *.
    rewrite skipn_length. lia. }
  assert (Himglen : Z.of_nat (length img) = blen buf - c_fecHeaderSize).
  { unfold img. rewrite image_length. unfold blen in *. lia. }
  unfold enc_encode.
  destruct (blen buf <? c_fecHeaderSizePlus2) eqn:E1; [apply Z.ltb_lt in E1; lia|].
  destruct (c_mtuLimit <? e_hoff e + blen buf) eqn:E2; [apply Z.ltb_lt in E2; lia|].
  rewrite Hu16. fold (image (skipn 8 buf)). fold img.
  rewrite Hnext, Hw, Hcount, Hd, Hp, Hcache, Hs.
  assert (Hnext1 : (g * ss + Z.of_nat (length done) + 1) mod paws_of ss = g * ss + Z.of_nat (length done) + 1).
  { apply Z.mod_small. lia. }
  rewrite Hnext1.
  assert (Hmx : Z.max (e_max e) (e_hoff e + blen buf) =
                e_hoff e + c_fecHeaderSize + Z.of_nat (grp_len (done ++ [img]))).
  { rewrite grp_len_app, grp_len_single.
    rewrite Hmax. destruct done as [|x t]; [change (grp_len []) with 0%nat|]; unfold c_fecHeaderSize in *; lia. }
  destruct (Z.of_nat (length done) + 1 =? d) eqn:Ed.
  - (* group complete *)
    apply Z.eqb_eq in Ed.
    assert (Hfin : (g * ss + Z.of_nat (length done) + 1 + p) mod paws_of ss = next_group d p g * ss).
    { unfold next_group. replace (g * ss + Z.of_nat (length done) + 1 + p) with ((g + 1) * ss) by lia.
      rewrite HG at 1. rewrite Z.mul_mod_distr_r by lia. reflexivity. }
    assert (Hng : 0 <= next_group d p g < G) by (unfold next_group; apply Z.mod_pos_bound; lia).
    destruct (now - e_ts e <? rto) eqn:Et.
    + rewrite Hmx.
      replace (Z.to_nat (e_hoff e + c_fecHeaderSize + Z.of_nat (grp_len (done ++ [img])) - e_hoff e - c_fecHeaderSize))
        with (grp_len (done ++ [img])) by lia.
      rewrite seal_parity_spec by lia.
      assert (Hpar : map (fun j : nat => le32 (g * ss + Z.of_nat (length done) + 1 + Z.of_nat j) ++ le16 c_typeParity ++
                                nth (0 + j) (c_encode C (map (pad_to (grp_len (done ++ [img]))) (done ++ [img]))) [])
                         (seq 0 (Z.to_nat p)) = parity_packets C d p (done ++ [img]) g).
      { unfold parity_packets. apply map_ext_in. intros j Hj. apply in_seq in Hj.
        unfold grp_packet.
        assert (Hjd : (Z.of_nat (Z.to_nat d + j) <? d) = false) by (apply Z.ltb_ge; lia).
        rewrite Hjd. unfold grp_shard.
        rewrite app_nth2 by (rewrite app_length; simpl; lia).
        replace (Z.to_nat d + j - length (done ++ [img]))%nat with j by (rewrite app_length; simpl; lia).
        replace (g * ss + Z.of_nat (Z.to_nat d + j)) with (g * ss + Z.of_nat (length done) + 1 + Z.of_nat j) by lia.
        reflexivity. }
      assert (Hfin' : (g * ss + Z.of_nat (length done) + 1 + Z.of_nat (Z.to_nat p)) mod paws_of ss = next_group d p g * ss).
      { rewrite <- Hfin. f_equal. lia. }
      eexists. split; [intros Hc; exfalso; clear - Hc Ed; lia|]. intros _. split; [|split].
      * apply f_equal. apply f_equal2; [reflexivity|exact Hpar].
      * unfold enc_inv; simpl. rewrite Hfin'. repeat split; try assumption; try reflexivity; lia.
      * split; reflexivity.
    + eexists. split; [intros Hc; exfalso; clear - Hc Ed; lia|]. intros _. split; [reflexivity|]. split; [|split; reflexivity].
      unfold enc_inv; simpl. rewrite Hfin. repeat split; try assumption; try reflexivity; lia.
  - apply Z.eqb_neq in Ed.
    eexists. split; [|intros Hc; exfalso; clear - Hc Ed; lia]. intros Hlt1. split; [reflexivity|]. split; [|split; reflexivity].
    unfold enc_inv; simpl. rewrite app_length. simpl length.
    repeat split; try assumption; try reflexivity; try lia.
    rewrite Hmx. destruct (done ++ [img]) eqn:Ea; [destruct done; discriminate|reflexivity].
Qed.

Lemma enc_run_cons e buf now t rto :
  enc_run mk e ((buf, now) :: t) rto =
  match enc_encode mk e buf now rto with
  | Panic w => Panic w
  | Ok (e1, dp, ps) =>
      match enc_run mk e1 t rto with
      | Panic w => Panic w
      | Ok (e2, outs) => Ok (e2, (dp, ps) :: outs)
      end
  end.
Proof. reflexivity. Qed.

Lemma enc_spec_cons g done ts buf now x t rto :
  enc_spec C d p g done ts ((buf, now) :: x :: t) rto =
  (le32 (g * ss + Z.of_nat (length done)) ++ le16 c_typeData ++ image (skipn 8 buf), [])
  :: enc_spec C d p g (done ++ [image (skipn 8 buf)]) now (x :: t) rto.
Proof. reflexivity. Qed.

(* a whole group *)
Lemma enc_run_group ins rto : forall e g done,
  enc_inv d p e g done -> Z.of_nat (length done) + Z.of_nat (length ins) = d -> ins <> [] ->
  Forall (fun x : bytes * Z => c_fecHeaderSizePlus2 <= blen (fst x) /\ e_hoff e + blen (fst x) <= c_mtuLimit) ins ->
  exists e', enc_run mk e ins rto = Ok (e', enc_spec C d p g done (e_ts e) ins rto) /\
    enc_inv d p e' (next_group d p g) [] /\ e_hoff e' = e_hoff e.
Proof.
  induction ins as [|[buf now] t IH]; intros e g done Hinv Hlen Hne Hall; [congruence|].
  apply Forall_cons_iff in Hall as [(Hlo & Hhi) Ht]. simpl fst in *.
  destruct (enc_step e g done buf now rto Hinv Hlo Hhi) as (e1 & Hnf & Hf).
  destruct t as [|x t'].
  - (* last packet of the group *)
    simpl length in Hlen. destruct Hf as (He & Hinv1 & Hh & _); [lia|].
    exists e1. simpl. rewrite He. split; [reflexivity|]. split; assumption.
  - destruct Hnf as (He & Hinv1 & Hh & Hts); [simpl length in *; lia|].
    destruct (IH e1 g (done ++ [image (skipn 8 buf)]) Hinv1) as (e2 & He2 & Hinv2 & Hh2).
    + rewrite app_length. simpl length in *. lia.
    + discriminate.
    + rewrite Hh. assumption.
    + exists e2. rewrite enc_run_cons, He, He2, enc_spec_cons. rewrite Hts.
      split; [reflexivity|]. split; [assumption|congruence].
Qed.

(* the data packets of the group are exactly the genuine packets the decoder theorems speak of *)
Lemma enc_spec_data ins rto : forall g done ts,
  Z.of_nat (length done) + Z.of_nat (length ins) = d ->
  map fst (enc_spec C d p g done ts ins rto) =
  map (fun k => grp_packet C d ss (done ++ map (fun x => image (skipn 8 (fst x))) ins) g (length done + k))
      (seq 0 (length ins)).
Proof.
  induction ins as [|[buf now] t IH]; intros g done ts Hlen; [reflexivity|].
  assert (Hhead : le32 (g * ss + Z.of_nat (length done)) ++ le16 c_typeData ++ image (skipn 8 buf) =
                  grp_packet C d ss (done ++ image (skipn 8 buf) :: map (fun x => image (skipn 8 (fst x))) t) g (length done + 0)).
  { unfold grp_packet. rewrite Nat.add_0_r.
    assert (Hk : (Z.of_nat (length done) <? d) = true) by (apply Z.ltb_lt; simpl length in Hlen; lia).
    rewrite Hk. unfold grp_shard. rewrite <- app_assoc. rewrite app_nth2 by lia. rewrite Nat.sub_diag. reflexivity. }
  change (length ((buf, now) :: t)) with (S (length t)).
  change (seq 0 (S (length t))) with (0%nat :: seq 1 (length t)). rewrite <- seq_shift.
  rewrite map_cons, map_map.
  destruct t as [|x t'].
  - simpl. f_equal. exact Hhead.
  - rewrite enc_spec_cons. rewrite map_cons. cbn [fst]. f_equal; [exact Hhead|].
    rewrite IH by (rewrite app_length; simpl length in *; lia).
    apply map_ext. intros k. rewrite app_length. simpl length.
    replace (length done + 1 + k)%nat with (length done + S k)%nat by lia.
    rewrite <- app_assoc. reflexivity.
Qed.

End Encoder.
