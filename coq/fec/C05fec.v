(* C05, the FEC decoder part - no datagram can crash or bloat the process: arbitrary byte strings
   fed directly to the FEC decoder.  Statements only; every proof is `exact <lemma>`. *)
From Coq Require Import ZArith List Bool Lia.
From KV.Base Require Import Consts Word.
From KV.Fec Require Import Codec AutoTune Fec FecSpec C05Proofs.
Import ListNotations.
Local Open Scope Z_scope.

(* TOTAL.  decode returns the model's Panic outcome (= a Go slice fault) only for packets shorter
   than the 6-byte FEC header or longer than mtuLimit: for EVERY decoder state whatsoever (no
   invariant needed), every codec and every packet of 6..mtuLimit bytes with ANY header and body
   bytes it returns normally.  (The session only passes packets of >= 8 bytes.) *)
Theorem c05_fec_decode_total :
  forall (mk : Z -> Z -> codec) (st : fecdec) (pkt : bytes),
    c_fecHeaderSize <= blen pkt <= c_mtuLimit ->
    exists st' out, dec_decode mk st pkt = Ok (st', out).
Proof. exact decode_total. Qed.
Print Assumptions c05_fec_decode_total.

(* BOUNDED.  From a new decoder (any accepted ratio), after ANY sequence of arbitrary packets of
   8..mtuLimit bytes - forged seqids, forged types, random bytes, in any order, through any number
   of re-tunings: decode never faulted; the decoder holds at most K = maxShardSets + 1 groups,
   each group fewer than dataShards (<= shardSize) packets of at most mtuLimit bytes; the autotune
   ring is the fixed array of maxAutoTuneSamples pulses and its window never exceeds it. *)
Theorem c05_fec_bounded :
  forall (mk : Z -> Z -> codec) (d p : Z) (st0 : fecdec) (h : list bytes),
    dec_new d p = Some st0 -> Forall arbitrary_pkt h ->
    exists st' outs, run_dec mk st0 h = Ok (st', outs) /\
      (length (d_sets st') <= Z.to_nat (c_maxShardSets + 1))%nat /\
      Forall (fun ge : Z * list bytes =>
                Z.of_nat (length (snd ge)) < d_data st' /\ Forall (fun e => blen e <= c_mtuLimit) (snd ge))
             (d_sets st') /\
      length (at_pulses (d_at st')) = Z.to_nat c_maxAutoTuneSamples /\
      (length (at_window (d_at st')) <= Z.to_nat c_maxAutoTuneSamples)%nat.
Proof. exact c05_bounded_from_new. Qed.
Print Assumptions c05_fec_bounded.

(* ... and from any state satisfying the two invariants (which every reachable state does). *)
Theorem c05_fec_bounded_inv :
  forall (mk : Z -> Z -> codec) (h : list bytes) (st : fecdec),
    c05_inv st -> pos_inv st -> Forall arbitrary_pkt h ->
    exists st' outs, run_dec mk st h = Ok (st', outs) /\ c05_inv st' /\ pos_inv st' /\
      (length (d_sets st') <= Z.to_nat (c_maxShardSets + 1))%nat /\
      Forall (fun ge : Z * list bytes =>
                Z.of_nat (length (snd ge)) < d_data st' /\ Forall (fun e => blen e <= c_mtuLimit) (snd ge))
             (d_sets st') /\
      length (at_pulses (d_at st')) = Z.to_nat c_maxAutoTuneSamples /\
      (length (at_window (d_at st')) <= Z.to_nat c_maxAutoTuneSamples)%nat.
Proof. exact c05_bounded_lemma. Qed.
Print Assumptions c05_fec_bounded_inv.

(* non-vacuity: the invariants hold for a new 10/3 decoder and K = 4 *)
Example c05_fec_example :
  (exists st0, dec_new 10 3 = Some st0 /\ c05_inv st0 /\ pos_inv st0) /\ Z.to_nat (c_maxShardSets + 1) = 4%nat.
Proof. exact c05_example_lemma. Qed.
