(* Correctness of the Gauss-Jordan inversion `invert` of Rs.v.
   The elimination runs on the augmented rows [A | I].  Every step (scale the pivot row by a
   non-zero factor, add a multiple of the pivot row to another row) preserves the common right
   kernel of the rows IN BOTH DIRECTIONS.  From that single invariant:
     - X = (x | A x) is in the kernel of [A | I], hence of the final rows [I | inv]: inv (A x) = x;
     - X = (0 | y) with inv y = 0 is in the kernel of [A | I]: y = 0;
     - if no pivot exists in column c, X = (T[0][c],..,T[c-1][c],1,0,.. | 0) is in the kernel of the
       current rows, hence of [A | I]: a non-zero kernel vector of A.
   So: A has trivial right kernel ==> invert n A = Some inv, inv A x = x, inv has trivial kernel,
   A inv y = y. *)
From Coq Require Import ZArith List Bool Lia Arith Permutation.
From KV.Fec Require Import Gf256 Rs RsProofs GfField LinAlg.
Import ListNotations.
Local Open Scope Z_scope.

(* ------------------------------------------------------------ kerl *)

Lemma kerl_app M N x : kerl (M ++ N) x <-> kerl M x /\ kerl N x.
Proof. apply Forall_app. Qed.

Lemma kerl_cons r M x : kerl (r :: M) x <-> dot r x = 0 /\ kerl M x.
Proof. apply Forall_cons_iff. Qed.

Lemma kerl_perm M N x : Permutation M N -> kerl M x -> kerl N x.
Proof. intros P H. unfold kerl in *. eapply Permutation_Forall; eassumption. Qed.

(* ------------------------------------------------------------ elim *)

Lemma elim_bvec w c pv r : bvec w pv -> bvec w r -> bvec w (elim c pv r).
Proof.
  intros Hpv Hr. unfold elim. cbv zeta. destruct (nth c r 0 =? 0); [exact Hr|].
  apply bvec_vxor; [exact Hr|]. apply bvec_vscale; [apply byte_nth; apply Hr|apply Hpv].
Qed.

Lemma elim_nth w c pv r j : bvec w pv -> bvec w r ->
  nth j (elim c pv r) 0 = Z.lxor (nth j r 0) (gmul (nth c r 0) (nth j pv 0)).
Proof.
  intros [Lp Bp] [Lr Br]. unfold elim. cbv zeta. destruct (Z.eqb_spec (nth c r 0) 0) as [E|E].
  - rewrite E, gmul_0_l, Z.lxor_0_r. reflexivity.
  - rewrite nth_vxor by (rewrite vscale_length; congruence). rewrite nth_vscale. reflexivity.
Qed.

Lemma elim_dot w c pv r x : bvec w pv -> bvec w r -> Forall byte x ->
  dot (elim c pv r) x = Z.lxor (dot r x) (gmul (nth c r 0) (dot pv x)).
Proof.
  intros [Lp Bp] [Lr Br] Bx. unfold elim; cbv zeta. destruct (Z.eqb_spec (nth c r 0) 0) as [E|E].
  - rewrite E, gmul_0_l, Z.lxor_0_r. reflexivity.
  - rewrite dot_vxor_l;
      [|rewrite vscale_length; congruence|exact Br|apply Forall_byte_vscale; apply byte_nth; exact Br].
    rewrite dot_vscale; [reflexivity|apply byte_nth; exact Br|exact Bp|exact Bx].
Qed.

(* ------------------------------------------------------------ pick *)

Lemma pick_none c : forall rest, pick c rest = None -> Forall (fun r => nth c r 0 = 0) rest.
Proof.
  induction rest as [|r rs IH]; intros H; [constructor|]. cbn [pick] in H.
  destruct (Z.eqb_spec (nth c r 0) 0) as [E|E]; [|discriminate].
  destruct (pick c rs) as [[pv oth]|]; [discriminate|]. constructor; [exact E|apply IH; reflexivity].
Qed.

Lemma pick_some c : forall rest pv others, pick c rest = Some (pv, others) ->
  nth c pv 0 <> 0 /\ Permutation rest (pv :: others).
Proof.
  induction rest as [|r rs IH]; intros pv others H; cbn [pick] in H; [discriminate|].
  destruct (Z.eqb_spec (nth c r 0) 0) as [E|E].
  - destruct (pick c rs) as [[pv' oth']|] eqn:P; [|discriminate]. injection H as <- <-.
    destruct (IH pv' oth' eq_refl) as [N Pm]. split; [exact N|].
    apply perm_trans with (r :: pv' :: oth'); [apply perm_skip; exact Pm|apply perm_swap].
  - injection H as <- <-. split; [exact E|apply Permutation_refl].
Qed.

(* ------------------------------------------------------------ the augmented matrix *)

Definition aug (n : nat) (A : matrix) : matrix := map (fun '(r, e) => r ++ e) (combine A (ident n)).

Lemma aug_gen n : forall A s,
  map (fun '(r, e) => r ++ e) (combine A (map (unit_at n) (seq s (length A)))) =
  map (fun i => nth (i - s) A [] ++ unit_at n i) (seq s (length A)).
Proof.
  induction A as [|a A IH]; intros s; [reflexivity|].
  cbn [length seq map combine]. f_equal.
  - rewrite Nat.sub_diag. reflexivity.
  - rewrite IH. apply map_ext_in. intros i Hi. apply in_seq in Hi.
    replace (i - s)%nat with (S (i - S s)) by lia. reflexivity.
Qed.

Lemma aug_eq n A : length A = n -> aug n A = map (fun i => nth i A [] ++ unit_at n i) (seq 0 n).
Proof.
  intros L. unfold aug, ident. subst n. rewrite aug_gen. apply map_ext. intros i.
  rewrite Nat.sub_0_r. reflexivity.
Qed.

Lemma aug_length n A : length A = n -> length (aug n A) = n.
Proof. intros L. rewrite aug_eq by exact L. rewrite map_length, seq_length. reflexivity. Qed.

Lemma bmat_row r c M i : bmat r c M -> (i < r)%nat -> bvec c (nth i M []).
Proof. intros [L B] Hi. rewrite Forall_forall in B. apply B. apply nth_In. lia. Qed.

Lemma aug_bvec n A : bmat n n A -> Forall (bvec (n + n)) (aug n A).
Proof.
  intros HA. rewrite aug_eq by apply HA. apply Forall_map. apply Forall_forall. intros i Hi.
  apply in_seq in Hi. apply bvec_app; [apply (bmat_row n n A i HA); lia|apply bvec_unit_at].
Qed.

Lemma aug_ker n A x y : bmat n n A -> bvec n x -> bvec n y ->
  (kerl (aug n A) (x ++ y) <-> forall i, (i < n)%nat -> Z.lxor (dot (nth i A []) x) (nth i y 0) = 0).
Proof.
  intros HA Hx Hy. rewrite aug_eq by apply HA. unfold kerl. rewrite Forall_map, Forall_forall.
  assert (E : forall i, (i < n)%nat ->
     dot (nth i A [] ++ unit_at n i) (x ++ y) = Z.lxor (dot (nth i A []) x) (nth i y 0)).
  { intros i Hi. rewrite dot_app.
    - rewrite dot_unit_at by exact Hy. reflexivity.
    - destruct (bmat_row n n A i HA Hi) as [L _]. destruct Hx as [Lx _]. congruence. }
  split.
  - intros H i Hi. rewrite <- E by exact Hi. apply H. apply in_seq. lia.
  - intros H i Hi. apply in_seq in Hi. rewrite E by lia. apply H. lia.
Qed.

(* r . (u | 1 | 0..0) *)
Lemma dot_split_row r u k c : length u = c -> length r = (c + S k)%nat -> Forall byte r ->
  dot r (u ++ 1 :: repeat 0 k) = Z.lxor (dot (firstn c r) u) (nth c r 0).
Proof.
  intros Lu Lr Br.
  transitivity (dot (firstn c r ++ skipn c r) (u ++ 1 :: repeat 0 k)); [rewrite firstn_skipn; reflexivity|].
  rewrite dot_app by (rewrite firstn_length_le; lia).
  f_equal. rewrite (skipn_cons_nth r c 0) by lia. cbn [dot].
  rewrite dot_zeros, gmul_1_r by (apply byte_nth; exact Br). apply Z.lxor_0_r.
Qed.

(* ------------------------------------------------------------ the elimination *)

Section Gauss.
Variable n : nat.
Variable A : matrix.
Hypothesis HA : bmat n n A.

(* the state after c columns: `don` (c rows) is reduced in columns < c, `rest` vanishes there *)
Definition gstate (c : nat) (don rest : matrix) : Prop :=
  length don = c /\ (c + length rest = n)%nat /\
  Forall (bvec (n + n)) don /\ Forall (bvec (n + n)) rest /\
  (forall i j, (i < c)%nat -> (j < c)%nat -> nth j (nth i don []) 0 = if (j =? i)%nat then 1 else 0) /\
  Forall (fun r => forall j, (j < c)%nat -> nth j r 0 = 0) rest /\
  (forall X, bvec (n + n) X -> (kerl (don ++ rest) X <-> kerl (aug n A) X)).

Lemma gstate_init : gstate 0 [] (aug n A).
Proof.
  unfold gstate. split; [reflexivity|]. split; [rewrite aug_length by apply HA; reflexivity|].
  split; [constructor|]. split; [apply aug_bvec; exact HA|].
  split; [intros; lia|]. split; [apply Forall_forall; intros; lia|].
  intros X _. reflexivity.
Qed.

Lemma gstate_step c don rest pv others :
  gstate c don rest -> pick c rest = Some (pv, others) ->
  gstate (S c) (map (elim c (vscale (ginv (nth c pv 0)) pv)) don ++ [vscale (ginv (nth c pv 0)) pv])
               (map (elim c (vscale (ginv (nth c pv 0)) pv)) others).
Proof.
  intros (Ld & Ln & Bd & Br & I1 & I2 & K) Hp.
  destruct (pick_some _ _ _ _ Hp) as [Hnz Pm].
  assert (Br' : Forall (bvec (n + n)) (pv :: others)) by (eapply Permutation_Forall; eassumption).
  assert (I2' : Forall (fun r => forall j, (j < c)%nat -> nth j r 0 = 0) (pv :: others))
    by (eapply Permutation_Forall; eassumption).
  apply Forall_cons_iff in Br' as [Bpv Bo]. apply Forall_cons_iff in I2' as [Zpv Zo].
  pose proof (Permutation_length Pm) as Lr. cbn [length] in Lr.
  set (g := ginv (nth c pv 0)).
  set (pv1 := vscale g pv).
  assert (Hpvc : byte (nth c pv 0)) by (apply byte_nth; apply Bpv).
  assert (Hg : byte g) by (apply ginv_byte; exact Hpvc).
  assert (Hgn : g <> 0) by (apply ginv_nz; assumption).
  assert (Bpv1 : bvec (n + n) pv1) by (apply bvec_vscale; [exact Hg|apply Bpv]).
  assert (P1 : forall j, (j < c)%nat -> nth j pv1 0 = 0).
  { intros j Hj. unfold pv1. rewrite nth_vscale, (Zpv j Hj). apply gmul_0_r. }
  assert (P2 : nth c pv1 0 = 1).
  { unfold pv1. rewrite nth_vscale. apply gmul_inv_l; assumption. }
  assert (E1 : forall r j, bvec (n + n) r -> (j < c)%nat -> nth j (elim c pv1 r) 0 = nth j r 0).
  { intros r j Hr Hj. rewrite (elim_nth (n + n)) by assumption.
    rewrite (P1 j Hj), gmul_0_r, Z.lxor_0_r. reflexivity. }
  assert (E2 : forall r, bvec (n + n) r -> nth c (elim c pv1 r) 0 = 0).
  { intros r Hr. rewrite (elim_nth (n + n)) by assumption.
    rewrite P2, gmul_1_r by (apply byte_nth; apply Hr). apply Z.lxor_nilpotent. }
  unfold gstate. split; [|split; [|split; [|split; [|split; [|split]]]]].
  - rewrite app_length, map_length. cbn [length]. lia.
  - rewrite map_length. lia.
  - apply Forall_app. split.
    + apply Forall_map. eapply Forall_impl; [|exact Bd]. intros r Hr. apply elim_bvec; assumption.
    + constructor; [exact Bpv1|constructor].
  - apply Forall_map. eapply Forall_impl; [|exact Bo]. intros r Hr. apply elim_bvec; assumption.
  - intros i j Hi Hj. destruct (Nat.eq_dec i c) as [->|Ni].
    + rewrite app_nth2 by (rewrite map_length; lia). rewrite map_length, Ld, Nat.sub_diag. cbn [nth].
      destruct (Nat.eqb_spec j c) as [->|Nj]; [exact P2|apply P1; lia].
    + assert (Hic : (i < c)%nat) by lia. rewrite app_nth1 by (rewrite map_length; lia).
      rewrite (nth_map_in (elim c pv1) don i [] []) by lia.
      assert (Hr : bvec (n + n) (nth i don [])).
      { rewrite Forall_forall in Bd. apply Bd. apply nth_In. lia. }
      destruct (Nat.eq_dec j c) as [->|Nj].
      * rewrite E2 by exact Hr. destruct (Nat.eqb_spec c i); [lia|reflexivity].
      * rewrite E1 by (try exact Hr; lia). apply I1; lia.
  - apply Forall_map. apply Forall_forall. intros r Hr j Hj.
    rewrite Forall_forall in Bo, Zo. destruct (Nat.eq_dec j c) as [->|Nj].
    + apply E2. apply Bo. exact Hr.
    + rewrite E1 by (try (apply Bo; exact Hr); lia). apply Zo; [exact Hr|lia].
  - intros X HX. rewrite <- (K X HX).
    assert (D1 : dot pv1 X = gmul g (dot pv X)).
    { unfold pv1. apply dot_vscale; [exact Hg|apply Bpv|apply HX]. }
    assert (D2 : dot pv1 X = 0 -> forall r, bvec (n + n) r -> dot (elim c pv1 r) X = dot r X).
    { intros Z0 r Hr. rewrite (elim_dot (n + n)) by (try assumption; apply HX).
      rewrite Z0, gmul_0_r, Z.lxor_0_r. reflexivity. }
    assert (D3 : dot pv1 X = 0 -> forall l, Forall (bvec (n + n)) l ->
                 (kerl (map (elim c pv1) l) X <-> kerl l X)).
    { intros Z0 l Hl. unfold kerl. rewrite Forall_map. rewrite !Forall_forall. rewrite Forall_forall in Hl.
      split; intros H r Hr.
      - rewrite <- (D2 Z0 r (Hl r Hr)). apply H. exact Hr.
      - rewrite (D2 Z0 r (Hl r Hr)). apply H. exact Hr. }
    rewrite !kerl_app, kerl_cons. split.
    + intros [[H1 [H2 _]] H3].
      assert (Zpv0 : dot pv X = 0).
      { rewrite D1 in H2. apply (gmul_nz_cancel g); try assumption. apply dot_byte. apply Bpv. }
      split; [apply (D3 H2 don Bd); exact H1|].
      apply (kerl_perm (pv :: others)); [apply Permutation_sym; exact Pm|].
      apply kerl_cons. split; [exact Zpv0|apply (D3 H2 others Bo); exact H3].
    + intros [H1 H2]. apply (kerl_perm _ _ _ Pm) in H2. apply kerl_cons in H2 as [H2 H3].
      assert (Z0 : dot pv1 X = 0) by (rewrite D1, H2; apply gmul_0_r).
      split; [split|].
      * apply (D3 Z0 don Bd); exact H1.
      * split; [exact Z0|apply Forall_nil].
      * apply (D3 Z0 others Bo); exact H3.
Qed.

(* no pivot in column c: a non-zero kernel vector of A *)
Lemma pick_fail c don rest :
  gstate c don rest -> (c < n)%nat -> Forall (fun r => nth c r 0 = 0) rest ->
  exists x, bvec n x /\ kerl A x /\ x <> repeat 0 n.
Proof.
  intros (Ld & Ln & Bd & Br & I1 & I2 & K) Hc Hz.
  set (colc := map (fun r => nth c r 0) don).
  set (x := colc ++ 1 :: repeat 0 (n - c - 1)).
  exists x.
  assert (Lc : length colc = c) by (unfold colc; rewrite map_length; exact Ld).
  assert (Bc : Forall byte colc).
  { unfold colc. apply Forall_map. eapply Forall_impl; [|exact Bd]. intros r [_ Hr]. apply byte_nth. exact Hr. }
  assert (Hx : bvec n x).
  { split.
    - unfold x. rewrite app_length. cbn [length]. rewrite repeat_length. lia.
    - unfold x. apply Forall_app. split; [exact Bc|]. constructor; [apply byte_1|apply Forall_byte_repeat0]. }
  assert (EX : x ++ repeat 0 n = colc ++ 1 :: repeat 0 ((n - c - 1) + n)).
  { unfold x. rewrite <- app_assoc. cbn [app]. rewrite repeat_app. reflexivity. }
  assert (HX : bvec (n + n) (x ++ repeat 0 n)) by (apply bvec_app; [exact Hx|apply bvec_zeros]).
  assert (Ker : kerl (don ++ rest) (x ++ repeat 0 n)).
  { rewrite EX. apply kerl_app. split.
    - apply kerl_nth. intros i Hi. rewrite Ld in Hi.
      assert (Hr : bvec (n + n) (nth i don [])).
      { rewrite Forall_forall in Bd. apply Bd. apply nth_In. lia. }
      destruct Hr as [Lr Brr].
      rewrite (dot_split_row _ _ _ c); [|exact Lc|rewrite Lr; lia|exact Brr].
      rewrite (dot_delta _ colc i).
      + unfold colc. rewrite (nth_map_in (fun r => nth c r 0) don i 0 []) by (change (i < length don)%nat; lia). apply Z.lxor_nilpotent.
      + rewrite firstn_length_le; [congruence|lia].
      + exact Bc.
      + intros j Hj. rewrite firstn_length_le in Hj by lia. rewrite nth_firstn_lt by exact Hj.
        apply I1; assumption.
    - unfold kerl. rewrite Forall_forall. intros r Hr.
      rewrite Forall_forall in Br, I2, Hz.
      specialize (Br r Hr). specialize (I2 r Hr). specialize (Hz r Hr). destruct Br as [Lr Brr].
      rewrite (dot_split_row _ _ _ c); [|exact Lc|rewrite Lr; lia|exact Brr].
      rewrite Hz, Z.lxor_0_r.
      rewrite (dot_delta _ colc c).
      + apply nth_overflow. lia.
      + rewrite firstn_length_le; [congruence|lia].
      + exact Bc.
      + intros j Hj. rewrite firstn_length_le in Hj by lia. rewrite nth_firstn_lt by exact Hj.
        rewrite (I2 j Hj). destruct (Nat.eqb_spec j c); [lia|reflexivity]. }
  apply (K _ HX) in Ker. rewrite (aug_ker n A x (repeat 0 n) HA Hx (bvec_zeros n)) in Ker.
  split; [exact Hx|]. split.
  - apply kerl_nth. intros i Hi. destruct HA as [LA _]. rewrite LA in Hi. specialize (Ker i Hi).
    rewrite nth_repeat0, Z.lxor_0_r in Ker. exact Ker.
  - intros E. assert (E1 : nth c x 0 = 1).
    { unfold x. rewrite app_nth2 by lia. rewrite Lc, Nat.sub_diag. reflexivity. }
    rewrite E, nth_repeat0 in E1. discriminate.
Qed.

(* ---- reading off the final state [I | inv] ---- *)

Lemma gfinal_row fin i : gstate n fin [] -> (i < n)%nat -> bvec (n + n) (nth i fin []).
Proof.
  intros (Ld & _ & Bd & _) Hi. rewrite Forall_forall in Bd. apply Bd. apply nth_In. lia.
Qed.

Lemma gfinal_dot fin i x y : gstate n fin [] -> (i < n)%nat -> bvec n x -> bvec n y ->
  dot (nth i fin []) (x ++ y) = Z.lxor (nth i x 0) (dot (skipn n (nth i fin [])) y).
Proof.
  intros St Hi Hx Hy. pose proof (gfinal_row fin i St Hi) as [Lr Brr].
  destruct St as (Ld & _ & _ & _ & I1 & _).
  transitivity (dot (firstn n (nth i fin []) ++ skipn n (nth i fin [])) (x ++ y));
    [rewrite firstn_skipn; reflexivity|].
  destruct Hx as [Lx Bx].
  rewrite dot_app by (rewrite firstn_length_le; lia). f_equal.
  apply dot_delta; [rewrite firstn_length_le; lia|exact Bx|].
  intros j Hj. rewrite firstn_length_le in Hj by lia. rewrite nth_firstn_lt by exact Hj.
  apply I1; assumption.
Qed.

Lemma gfinal_bmat fin : gstate n fin [] -> bmat n n (map (skipn n) fin).
Proof.
  intros (Ld & _ & Bd & _). split; [rewrite map_length; exact Ld|].
  apply Forall_map. eapply Forall_impl; [|exact Bd]. intros r Hr. apply (bvec_skipn n n). exact Hr.
Qed.

Lemma gfinal_inv_row fin i : gstate n fin [] -> (i < n)%nat ->
  nth i (map (skipn n) fin) [] = skipn n (nth i fin []).
Proof.
  intros (Ld & _) Hi. apply (nth_map_in (skipn n) fin i [] []). change (i < length fin)%nat. lia.
Qed.

Lemma gfinal_L fin : gstate n fin [] -> forall x, bvec n x -> mv (map (skipn n) fin) (mv A x) = x.
Proof.
  intros St x Hx. pose proof St as (Ld & _ & _ & _ & _ & _ & K).
  assert (Hy : bvec n (mv A x)) by (apply (mv_bvec n n); exact HA).
  assert (HX : bvec (n + n) (x ++ mv A x)) by (apply bvec_app; assumption).
  assert (K0 : kerl (aug n A) (x ++ mv A x)).
  { apply aug_ker; try assumption. intros i Hi. rewrite mv_nth by (destruct HA as [LA _]; lia).
    apply Z.lxor_nilpotent. }
  apply (K _ HX) in K0. rewrite app_nil_r in K0. rewrite kerl_nth in K0.
  apply nth_ext with (d := 0) (d' := 0).
  - rewrite mv_length, map_length. destruct Hx as [Lx _]. rewrite Lx. exact Ld.
  - intros i Hi. rewrite mv_length, map_length in Hi. change (i < length fin)%nat in Hi. rewrite Ld in Hi.
    rewrite mv_nth by (rewrite map_length; change (i < length fin)%nat; lia). rewrite gfinal_inv_row by assumption.
    specialize (K0 i ltac:(lia)). rewrite (gfinal_dot fin i x (mv A x) St Hi Hx Hy) in K0.
    apply lxor_eq0 in K0. symmetry. exact K0.
Qed.

Lemma gfinal_K fin : gstate n fin [] -> forall y, bvec n y -> kerl (map (skipn n) fin) y -> y = repeat 0 n.
Proof.
  intros St y Hy Ky. pose proof St as (Ld & _ & _ & _ & _ & _ & K).
  assert (HX : bvec (n + n) (repeat 0 n ++ y)) by (apply bvec_app; [apply bvec_zeros|exact Hy]).
  assert (K1 : kerl (fin ++ []) (repeat 0 n ++ y)).
  { rewrite app_nil_r. apply kerl_nth. intros i Hi. rewrite Ld in Hi.
    rewrite (gfinal_dot fin i _ y St Hi (bvec_zeros n) Hy). rewrite nth_repeat0, Z.lxor_0_l.
    rewrite kerl_nth in Ky. specialize (Ky i ltac:(rewrite map_length; change (i < length fin)%nat; lia)).
    rewrite gfinal_inv_row in Ky by assumption. exact Ky. }
  apply (K _ HX) in K1. rewrite (aug_ker n A _ y HA (bvec_zeros n) Hy) in K1.
  apply nth_ext with (d := 0) (d' := 0).
  - rewrite repeat_length. apply Hy.
  - intros i Hi. destruct Hy as [Ly _]. rewrite Ly in Hi. specialize (K1 i Hi).
    rewrite dot_zeros, Z.lxor_0_l in K1. rewrite nth_repeat0. exact K1.
Qed.

Hypothesis Hker : forall x, bvec n x -> kerl A x -> x = repeat 0 n.

Lemma gauss_total : forall fuel c don rest, length rest = fuel -> gstate c don rest ->
  exists fin, gauss fuel c don rest = Some fin /\ gstate n fin [].
Proof.
  induction fuel as [|fuel IH]; intros c don rest Lf St.
  - cbn [gauss]. exists don. split; [reflexivity|].
    destruct rest; [|discriminate].
    assert (E : c = n) by (destruct St as (_ & Ln & _); cbn [length] in Ln; lia).
    rewrite <- E. exact St.
  - cbn [gauss]. destruct (pick c rest) as [[pv others]|] eqn:Hp.
    + cbv zeta. apply IH; [|apply (gstate_step c don rest); assumption].
      rewrite map_length. pose proof (Permutation_length (proj2 (pick_some _ _ _ _ Hp))) as L.
      cbn [length] in L. lia.
    + exfalso. destruct (pick_fail c don rest St) as (x & Hx & Kx & Nx).
      * destruct St as (_ & Ln & _). lia.
      * apply pick_none. exact Hp.
      * apply Nx. apply Hker; assumption.
Qed.

End Gauss.

(* ------------------------------------------------------------ the theorem *)

Theorem invert_ok n A :
  bmat n n A -> (forall x, bvec n x -> kerl A x -> x = repeat 0 n) ->
  exists inv, invert n A = Some inv /\ bmat n n inv /\
    (forall x, bvec n x -> mv inv (mv A x) = x) /\
    (forall y, bvec n y -> kerl inv y -> y = repeat 0 n) /\
    (forall y, bvec n y -> mv A (mv inv y) = y).
Proof.
  intros HA Hker.
  destruct (gauss_total n A HA Hker n 0%nat [] (aug n A) (aug_length n A (proj1 HA)) (gstate_init n A HA))
    as (fin & G & St).
  exists (map (skipn n) fin).
  pose proof (gfinal_bmat n A fin St) as Bi.
  pose proof (gfinal_L n A HA fin St) as L.
  pose proof (gfinal_K n A HA fin St) as K.
  split; [unfold invert; unfold aug in G; rewrite G; reflexivity|].
  split; [exact Bi|]. split; [exact L|]. split; [exact K|].
  intros y Hy. set (inv := map (skipn n) fin) in *.
  assert (Hiy : bvec n (mv inv y)) by (apply (mv_bvec n n); exact Bi).
  assert (Hz : bvec n (mv A (mv inv y))) by (apply (mv_bvec n n); exact HA).
  pose proof (L (mv inv y) Hiy) as E.
  assert (Z0 : kerl inv (vxor (mv A (mv inv y)) y)).
  { apply mv_zero_iff. rewrite mv_vxor by (destruct Hz, Hy; congruence). rewrite E.
    rewrite vxor_nilpotent, mv_length. reflexivity. }
  apply K in Z0; [|apply bvec_vxor; assumption].
  apply vxor_eq0; [destruct Hz, Hy; congruence|]. destruct Hz as [Lz _]. rewrite Lz. exact Z0.
Qed.
