(* autotune.go: FindPeriod returns only widths of complete pulses over consecutive seqs
   (find_period_pulse), hence never a wrong ratio on samples of one sender (soundness, for ANY
   order the sort may leave equal or incomparable samples in); the sort is the identity on an
   in-order window; completeness on aligned clean windows; the ring holds the last 258 samples. *)
From Coq Require Import ZArith List Bool Lia Arith.
From KV.Base Require Import Consts Word WordLemmas.
From KV.Fec Require Import AutoTune.
Import ListNotations.
Local Open Scope Z_scope.

Ltac Zify.zify_post_hook ::= Z.div_mod_to_equations.

(* consecutive seqs along a list, starting after `last` *)
Fixpoint chain (last : pulse) (l : list pulse) : Prop :=
  match l with
  | [] => True
  | x :: t => p_seq x = u32 (p_seq last + 1) /\ chain x t
  end.

(* ------------------------------------------------------------ what an edge loop returns *)

(* the loop for `bit` started at `last` (not yet at an edge) returns Edge only at the first
   element cur whose predecessor has the other bit and which has `bit` itself; everything
   before is a chain of consecutive seqs *)
Lemma scan_edge_spec bit : forall l last idx e cur rest,
  scan_edge bit last l idx = Edge e cur rest ->
  exists pre prev,
    last :: l = pre ++ prev :: cur :: rest /\ e = idx + Z.of_nat (length pre) /\
    p_bit prev = negb bit /\ p_bit cur = bit /\ p_seq cur = u32 (p_seq prev + 1).
Proof.
  induction l as [|x t IH]; intros last idx e cur rest H; simpl in H; [discriminate|].
  destruct (u32 (p_seq last + 1) =? p_seq x) eqn:Es; [|discriminate].
  apply Z.eqb_eq in Es.
  destruct (negb (Bool.eqb (p_bit last) bit) && Bool.eqb (p_bit x) bit) eqn:Eb.
  - inversion H; subst. exists [], last. apply andb_true_iff in Eb as [E1 E2].
    apply negb_true_iff in E1. apply eqb_prop in E2.
    split; [reflexivity|]. split; [simpl; lia|]. split; [|split; [assumption|symmetry; assumption]].
    destruct (p_bit last), bit; simpl in *; try reflexivity; discriminate.
  - destruct (IH x (idx + 1) e cur rest H) as (pre & prev & Hl & He & Hb1 & Hb2 & Hs).
    exists (last :: pre), prev. rewrite Hl. simpl length. repeat split; auto. lia.
Qed.

(* the second loop, started AT the left edge (whose bit is `bit`), looking for the falling edge *)
Lemma scan_run_spec bit : forall l last idx e cur rest,
  p_bit last = bit ->
  scan_edge (negb bit) last l idx = Edge e cur rest ->
  exists mid,
    l = mid ++ cur :: rest /\ e = idx + Z.of_nat (length mid) /\
    Forall (fun x => p_bit x = bit) mid /\ p_bit cur = negb bit /\ chain last (mid ++ [cur]).
Proof.
  induction l as [|x t IH]; intros last idx e cur rest Hlast H; simpl in H; [discriminate|].
  destruct (u32 (p_seq last + 1) =? p_seq x) eqn:Es; [|discriminate].
  apply Z.eqb_eq in Es.
  destruct (negb (Bool.eqb (p_bit last) (negb bit)) && Bool.eqb (p_bit x) (negb bit)) eqn:Eb.
  - inversion H; subst. exists []. apply andb_true_iff in Eb as [_ E2]. apply eqb_prop in E2.
    simpl. repeat split; auto; lia.
  - assert (Hx : p_bit x = bit).
    { rewrite Hlast in Eb. destruct bit, (p_bit x); simpl in Eb; try reflexivity; discriminate. }
    destruct (IH x (idx + 1) e cur rest Hx H) as (mid & Hl & He & Hm & Hc & Hch).
    exists (x :: mid). rewrite Hl. simpl. repeat split; auto; try lia; try (constructor; assumption).
Qed.

(* a positive result of FindPeriod is the width m >= 1 of a complete pulse: a predecessor with
   the other bit, then m samples with `bit`, then one with the other bit, all seqs consecutive,
   all of them samples of the sorted list *)
Lemma find_period_pulse sorted bit v :
  find_period_sorted sorted bit = v -> 0 < v ->
  exists prev run stop,
    p_bit prev = negb bit /\ Forall (fun x => p_bit x = bit) run /\ p_bit stop = negb bit /\
    chain prev (run ++ [stop]) /\ v = Z.of_nat (length run) /\ run <> [] /\
    In prev sorted /\ In stop sorted /\ (forall x, In x run -> In x sorted).
Proof.
  unfold find_period_sorted. intros H Hv. destruct sorted as [|first rest]; [lia|].
  destruct (scan_edge bit first rest 1) as [le cur rest'| |] eqn:E1; try lia.
  destruct (scan_edge (negb bit) cur rest' (le + 1)) as [re stop rest''| |] eqn:E2; try lia.
  destruct (scan_edge_spec bit _ _ _ _ _ _ E1) as (pre & prev & Hl & Hle & Hb1 & Hb2 & Hs).
  destruct (scan_run_spec bit _ _ _ _ _ _ Hb2 E2) as (mid & Hl2 & Hre & Hm & Hc & Hch).
  exists prev, (cur :: mid), stop.
  assert (Hin : forall x, In x (prev :: cur :: mid ++ [stop]) -> In x (first :: rest)).
  { intros x Hx. rewrite Hl, Hl2. apply in_or_app. right.
    destruct Hx as [<-|[<-|Hx]]; [left; reflexivity|right; left; reflexivity|].
    right; right. apply in_app_or in Hx. apply in_or_app. destruct Hx as [Hx|[<-|[]]]; [left; assumption|right; left; reflexivity]. }
  split; [assumption|]. split; [constructor; assumption|]. split; [assumption|].
  split; [simpl; split; assumption|]. split; [simpl length; lia|]. split; [discriminate|].
  split; [apply Hin; left; reflexivity|].
  split; [apply Hin; right; right; apply in_or_app; right; left; reflexivity|].
  intros x Hx. apply Hin. right. destruct Hx as [<-|Hx]; [left; reflexivity|].
  right. apply in_or_app. left; assumption.
Qed.

(* ------------------------------------------------------------ samples of one sender *)

(* a sample of a sender with ratio d/p: the type is the pattern of the seqid *)
Definition consistent (d p : Z) (x : pulse) : Prop :=
  p_bit x = (p_seq x mod (d + p) <? d) /\ 0 <= p_seq x < 4294967295.

Lemma chain_nth d p : forall l last,
  Forall (consistent d p) (last :: l) -> chain last l ->
  forall k, (k < length l)%nat -> p_seq (nth k l pulse0) = p_seq last + 1 + Z.of_nat k.
Proof.
  induction l as [|x t IH]; intros last Hc Hch k Hk; simpl in Hk; [lia|].
  apply Forall_cons_iff in Hc as [Hlast Hc]. destruct Hch as [Hs Hch].
  assert (Hx : p_seq x = p_seq last + 1).
  { rewrite Hs. apply u32_id. destruct Hlast as (_ & Hr). unfold W32. lia. }
  destruct k; simpl; [lia|]. rewrite (IH x Hc Hch k) by lia. lia.
Qed.

Lemma mod_shift ss q r k : 0 < ss -> 0 <= r -> 0 <= k -> r + k < ss -> (ss * q + r + k) mod ss = r + k.
Proof.
  intros. replace (ss * q + r + k) with (r + k + q * ss) by lia.
  rewrite Z.mod_add by lia. apply Z.mod_small. lia.
Qed.

(* the arithmetic core: a complete pulse of a block pattern has the width of the block *)
Lemma pattern_pulse d p s m bit :
  0 < d -> 0 < p -> 0 < m -> 0 <= s - 1 ->
  ((s - 1) mod (d + p) <? d) = negb bit ->
  (forall k, 0 <= k < m -> ((s + k) mod (d + p) <? d) = bit) ->
  ((s + m) mod (d + p) <? d) = negb bit ->
  m = if bit then d else p.
Proof.
  intros Hd Hp Hm Hs Hprev Hrun Hstop. set (ss := d + p) in *.
  assert (Hss : 0 < ss) by (unfold ss; lia).
  pose proof (Z.div_mod (s - 1) ss ltac:(lia)) as Hdm.
  pose proof (Z.mod_pos_bound (s - 1) ss Hss) as Hr.
  set (q := (s - 1) / ss) in *. set (r := (s - 1) mod ss) in *.
  assert (Hs0 : s = ss * q + r + 1) by lia.
  pose proof (Hrun 0 ltac:(lia)) as H0. rewrite Z.add_0_r in H0.
  destruct bit; simpl in *.
  - (* data: the pulse starts at a multiple of ss *)
    apply Z.ltb_ge in Hprev. apply Z.ltb_lt in H0.
    assert (Hrr : r = ss - 1).
    { destruct (Z.eq_dec r (ss - 1)); [assumption|exfalso].
      rewrite Hs0 in H0. rewrite (mod_shift ss q r 1) in H0 by lia. lia. }
    assert (Hsm : forall k, 0 <= k < ss -> (s + k) mod ss = k).
    { intros k Hk. replace (s + k) with (ss * (q + 1) + 0 + k) by lia. apply mod_shift; lia. }
    destruct (Z_lt_le_dec d m) as [Hlt|Hle].
    + pose proof (Hrun d ltac:(lia)) as Hdd. rewrite Hsm in Hdd by (unfold ss; lia).
      apply Z.ltb_lt in Hdd. lia.
    + rewrite Hsm in Hstop by (unfold ss; lia). apply Z.ltb_ge in Hstop. lia.
  - (* parity: the pulse starts at d mod ss *)
    apply Z.ltb_lt in Hprev. apply Z.ltb_ge in H0.
    assert (Hrr : r = d - 1).
    { destruct (Z.eq_dec r (d - 1)); [assumption|exfalso].
      rewrite Hs0 in H0. rewrite (mod_shift ss q r 1) in H0 by (unfold ss; lia). lia. }
    assert (Hsm : forall k, 0 <= k < p -> (s + k) mod ss = d + k).
    { intros k Hk. replace (s + k) with (ss * q + d + k) by lia. apply mod_shift; unfold ss; lia. }
    destruct (Z_lt_le_dec p m) as [Hlt|Hle].
    + pose proof (Hrun p ltac:(lia)) as Hpp.
      replace (s + p) with (ss * (q + 1) + 0 + 0) in Hpp by (unfold ss; lia).
      rewrite mod_shift in Hpp by lia. apply Z.ltb_ge in Hpp. lia.
    + destruct (Z.eq_dec m p); [assumption|exfalso].
      rewrite Hsm in Hstop by lia. apply Z.ltb_lt in Hstop. lia.
Qed.

(* soundness on the sorted list, for samples of one sender *)
Lemma find_period_sorted_sound d p sorted bit v :
  0 < d -> 0 < p -> Forall (consistent d p) sorted ->
  find_period_sorted sorted bit = v -> 0 < v -> v = if bit then d else p.
Proof.
  intros Hd Hp Hall Hf Hv.
  destruct (find_period_pulse sorted bit v Hf Hv) as (prev & run & stop & Hb1 & Hrun & Hb2 & Hch & Hvl & Hne & Hi1 & Hi2 & Hi3).
  rewrite Forall_forall in Hall.
  assert (Hcons : Forall (consistent d p) (prev :: run ++ [stop])).
  { constructor; [apply Hall; assumption|]. apply Forall_app. split.
    - apply Forall_forall. intros x Hx. apply Hall. apply Hi3. assumption.
    - constructor; [apply Hall; assumption|constructor]. }
  pose proof (chain_nth d p _ _ Hcons Hch) as Hnth.
  destruct (Hall prev Hi1) as (Hpb & Hpr).
  assert (Hlen : Z.of_nat (length run) = v) by lia.
  apply (pattern_pulse d p (p_seq prev + 1) v bit Hd Hp Hv); try lia.
  - replace (p_seq prev + 1 - 1) with (p_seq prev) by lia. rewrite <- Hpb. assumption.
  - intros k Hk. specialize (Hnth (Z.to_nat k)). rewrite app_length in Hnth. simpl length in Hnth.
    specialize (Hnth ltac:(lia)). rewrite app_nth1 in Hnth by lia. rewrite Z2Nat.id in Hnth by lia.
    assert (Hin : In (nth (Z.to_nat k) run pulse0) run) by (apply nth_In; lia).
    rewrite Forall_forall in Hrun. pose proof (Hrun _ Hin) as Hbk.
    destruct (Hall _ (Hi3 _ Hin)) as (Hbc & _). rewrite Hnth in Hbc. rewrite <- Hbc. assumption.
  - specialize (Hnth (length run)). rewrite app_length in Hnth. simpl length in Hnth.
    specialize (Hnth ltac:(lia)). rewrite app_nth2, Nat.sub_diag in Hnth by lia. simpl in Hnth.
    destruct (Hall stop Hi2) as (Hbc & _). rewrite Hnth, Hlen in Hbc. rewrite <- Hbc. assumption.
Qed.

(* the sort only permutes: every sample of the output is a sample of the input *)
Lemma insert_desc_in x y : forall acc, In x (insert_desc y acc) -> x = y \/ In x acc.
Proof.
  induction acc as [|z acc IH]; simpl; intros H.
  - destruct H as [<-|[]]; auto.
  - destruct (plt y z).
    + destruct H as [<-|H]; [right; left; reflexivity|]. destruct (IH H); auto.
    + destruct H as [<-|H]; auto.
Qed.

Lemma isort_in x l : In x (isort l) -> In x l.
Proof.
  unfold isort. rewrite <- in_rev.
  assert (H : forall l acc, In x (fold_left (fun racc y => insert_desc y racc) l acc) -> In x l \/ In x acc).
  { clear. induction l as [|y l IH]; intros acc H; simpl in *; [auto|].
    destruct (IH _ H) as [H1|H1]; [auto|]. apply insert_desc_in in H1. destruct H1 as [->|H1]; auto. }
  intros Hx. destruct (H l [] Hx) as [|[]]; assumption.
Qed.

(* FindPeriod never reports a wrong width on a ring holding samples of one sender - whatever
   was lost, duplicated or reordered, and in whatever order the sort leaves them *)
Theorem find_period_sound d p t bit v :
  0 < d -> 0 < p -> Forall (consistent d p) (at_window t) ->
  find_period t bit = v -> 0 < v -> v = if bit then d else p.
Proof.
  intros Hd Hp Hall Hf Hv. unfold find_period in Hf.
  destruct (at_count t <? 3); [lia|].
  apply (find_period_sorted_sound d p (isort (at_window t)) bit v Hd Hp); try assumption.
  apply Forall_forall. intros x Hx. apply isort_in in Hx. rewrite Forall_forall in Hall. auto.
Qed.

(* ------------------------------------------------------------ the ring holds the last 258 samples *)

Definition at_wf (t : autotune) : Prop :=
  length (at_pulses t) = 258%nat /\
  ((0 <= at_count t < 258 /\ at_head t = 0 /\ at_tail t = at_count t) \/
   (at_count t = 258 /\ at_head t = at_tail t /\ 0 <= at_head t < 258)).

(* the window after one more sample: append, dropping the oldest when full *)
Definition push_window (w : list pulse) (x : pulse) : list pulse :=
  (if Nat.ltb (length w) 258 then w else tl w) ++ [x].

Lemma map_nth_shift {A} (d0 : A) : forall l k n, (k + n <= length l)%nat ->
  map (fun i => nth (k + i) l d0) (seq 0 n) = firstn n (skipn k l).
Proof.
  induction l as [|a l IH]; intros k n H; simpl in H.
  - assert (n = 0)%nat by lia. subst. destruct k; reflexivity.
  - destruct k.
    + destruct n; [reflexivity|]. simpl. f_equal. rewrite <- seq_shift, map_map.
      apply (IH 0%nat n). lia.
    + simpl. apply (IH k n). lia.
Qed.

Lemma upd_firstn_le {A} (l : list A) i x : forall n, (n <= i)%nat -> firstn n (upd l i x) = firstn n l.
Proof.
  revert i; induction l as [|a l IH]; intros i n H; [destruct i, n; reflexivity|].
  destruct i, n; simpl; try reflexivity; try lia. f_equal. apply IH. lia.
Qed.

Lemma upd_firstn_S {A} (l : list A) i x : (i < length l)%nat -> firstn (S i) (upd l i x) = firstn i l ++ [x].
Proof.
  revert i; induction l as [|a l IH]; intros i H; simpl in H; [lia|].
  destruct i; simpl; [reflexivity|]. f_equal. apply IH. lia.
Qed.

Lemma upd_skipn_S {A} (l : list A) i x : skipn (S i) (upd l i x) = skipn (S i) l.
Proof.
  revert i; induction l as [|a l IH]; intros i; [destruct i; reflexivity|].
  destruct i; [reflexivity|]. simpl. apply IH.
Qed.

Lemma seq_add_map k n : seq k n = map (fun j => (k + j)%nat) (seq 0 n).
Proof.
  induction k as [|k IH]; [rewrite map_id; reflexivity|].
  rewrite <- seq_shift, IH, map_map. reflexivity.
Qed.

Lemma skipn_cons_nth {A} (l : list A) i d0 : (i < length l)%nat -> skipn i l = nth i l d0 :: skipn (S i) l.
Proof.
  revert i; induction l as [|a l IH]; intros i H; simpl in H; [lia|].
  destruct i; [reflexivity|]. simpl. apply IH. lia.
Qed.

Lemma at_window_small t : at_wf t -> at_count t < 258 ->
  at_window t = firstn (Z.to_nat (at_count t)) (at_pulses t).
Proof.
  intros (Hl & [(Hc & Hh & Ht)|(Hc & _)]) Hlt; [|lia].
  unfold at_window, at_N, c_maxAutoTuneSamples. rewrite Hh.
  pose proof (map_nth_shift pulse0 (at_pulses t) 0 (Z.to_nat (at_count t)) ltac:(rewrite Hl; lia)) as E.
  simpl in E. rewrite <- E.
  apply map_ext_in. intros i Hi. apply in_seq in Hi. f_equal. lia.
Qed.

Lemma at_window_full t : at_wf t -> at_count t = 258 ->
  at_window t = skipn (Z.to_nat (at_head t)) (at_pulses t) ++ firstn (Z.to_nat (at_head t)) (at_pulses t).
Proof.
  intros (Hl & [(Hc & _)|(Hc & Ht & Hh)]) Heq; [lia|].
  unfold at_window, at_N, c_maxAutoTuneSamples. rewrite Hc.
  set (h := Z.to_nat (at_head t)).
  replace (Z.to_nat 258) with ((258 - h) + h)%nat by (unfold h; lia).
  rewrite seq_app, map_app. f_equal.
  - rewrite <- (firstn_all (skipn h (at_pulses t))) at 1. rewrite skipn_length, Hl.
    rewrite <- (map_nth_shift pulse0 (at_pulses t) h (258 - h)) by (rewrite Hl; unfold h; lia).
    apply map_ext_in. intros i Hi. apply in_seq in Hi. f_equal. unfold h in *. lia.
  - pose proof (map_nth_shift pulse0 (at_pulses t) 0 h ltac:(rewrite Hl; unfold h; lia)) as E.
    simpl in E. rewrite <- E.
    rewrite (seq_add_map (0 + (258 - h)) h), map_map. apply map_ext_in. intros i Hi. apply in_seq in Hi. f_equal. unfold h in *. lia.
Qed.

Lemma upd_len {A} (l : list A) i x : length (upd l i x) = length l.
Proof. revert i; induction l; destruct i; simpl; auto. Qed.

Lemma at_init_wf : at_wf at_init /\ at_window at_init = [].
Proof.
  split; [|reflexivity]. unfold at_wf, at_init. cbn [at_pulses at_count at_head at_tail].
  rewrite repeat_length. split; [reflexivity|]. left. lia.
Qed.

Lemma at_window_len t : length (at_window t) = Z.to_nat (at_count t).
Proof. unfold at_window. rewrite map_length, seq_length. reflexivity. Qed.

(* Sample appends to the window and drops the oldest sample once 258 are held *)
Lemma at_sample_window t b s :
  at_wf t -> at_wf (at_sample t b s) /\ at_window (at_sample t b s) = push_window (at_window t) (mkPulse b s).
Proof.
  intros Hwf. pose proof Hwf as (Hl & Hcase).
  unfold push_window. rewrite at_window_len.
  destruct Hcase as [(Hc & Hh & Ht)|(Hc & Ht & Hh)].
  - (* not yet full *)
    assert (Hltb : Nat.ltb (Z.to_nat (at_count t)) 258 = true) by (apply Nat.ltb_lt; lia).
    rewrite Hltb. rewrite (at_window_small t Hwf) by lia.
    assert (Hs : at_sample t b s =
      mkAT (upd (at_pulses t) (Z.to_nat (at_count t)) (mkPulse b s)) 0 ((at_count t + 1) mod 258) (at_count t + 1)).
    { unfold at_sample, at_N, c_maxAutoTuneSamples. rewrite Ht, Hh.
      destruct (at_count t <? 258) eqn:E; [reflexivity|apply Z.ltb_ge in E; lia]. }
    rewrite Hs. destruct (Z.eq_dec (at_count t + 1) 258) as [Hfull|Hnf].
    + assert (Hwf' : at_wf (mkAT (upd (at_pulses t) (Z.to_nat (at_count t)) (mkPulse b s)) 0 ((at_count t + 1) mod 258) (at_count t + 1))).
      { unfold at_wf; simpl. rewrite upd_len. split; [assumption|]. right. rewrite Hfull. simpl. lia. }
      split; [assumption|]. rewrite (at_window_full _ Hwf') by (simpl; lia). simpl at_head. simpl at_pulses.
      simpl skipn. simpl firstn. rewrite app_nil_r.
      rewrite <- (firstn_all (upd _ _ _)). rewrite upd_len, Hl.
      replace 258%nat with (S (Z.to_nat (at_count t))) by lia.
      apply upd_firstn_S. lia.
    + assert (Hwf' : at_wf (mkAT (upd (at_pulses t) (Z.to_nat (at_count t)) (mkPulse b s)) 0 ((at_count t + 1) mod 258) (at_count t + 1))).
      { unfold at_wf; simpl. rewrite upd_len. split; [assumption|]. left.
        rewrite Z.mod_small by lia. lia. }
      split; [assumption|]. rewrite (at_window_small _ Hwf') by (simpl; lia). simpl at_count. simpl at_pulses.
      replace (Z.to_nat (at_count t + 1)) with (S (Z.to_nat (at_count t))) by lia.
      apply upd_firstn_S. lia.
  - (* full: overwrite the oldest *)
    assert (Hltb : Nat.ltb (Z.to_nat (at_count t)) 258 = false) by (apply Nat.ltb_ge; lia).
    rewrite Hltb. rewrite (at_window_full t Hwf Hc).
    set (h := Z.to_nat (at_head t)).
    assert (Hs : at_sample t b s =
      mkAT (upd (at_pulses t) h (mkPulse b s)) ((at_head t + 1) mod 258) ((at_head t + 1) mod 258) 258).
    { unfold at_sample, at_N, c_maxAutoTuneSamples. rewrite <- Ht, Hc.
      destruct (258 <? 258) eqn:E; [apply Z.ltb_lt in E; lia|reflexivity]. }
    rewrite Hs.
    assert (Hwf' : at_wf (mkAT (upd (at_pulses t) h (mkPulse b s)) ((at_head t + 1) mod 258) ((at_head t + 1) mod 258) 258)).
    { unfold at_wf; simpl. rewrite upd_len. split; [assumption|]. right. lia. }
    split; [assumption|]. rewrite (at_window_full _ Hwf') by reflexivity. simpl at_head. simpl at_pulses.
    rewrite (skipn_cons_nth (at_pulses t) h pulse0) by (unfold h; lia).
    rewrite <- app_comm_cons. cbn [tl].
    destruct (Z.eq_dec (at_head t + 1) 258) as [Hlast|Hnl].
    + replace (Z.to_nat ((at_head t + 1) mod 258)) with 0%nat by (rewrite Hlast; reflexivity).
      rewrite skipn_O. cbn [firstn]. rewrite app_nil_r.
      rewrite (skipn_all2 (n := S h) (at_pulses t)) by (unfold h; lia). cbn [app].
      rewrite <- (firstn_all (upd _ _ _)). rewrite upd_len, Hl.
      replace 258%nat with (S h) by (unfold h; lia). apply upd_firstn_S. unfold h; lia.
    + rewrite Z.mod_small by lia.
      replace (Z.to_nat (at_head t + 1)) with (S h) by (unfold h; lia).
      rewrite upd_skipn_S, upd_firstn_S by (unfold h; lia). rewrite app_assoc. reflexivity.
Qed.

(* consequence: a ring that only ever sampled one sender holds only that sender's samples *)
Lemma at_sample_consistent d p t b s :
  at_wf t -> Forall (consistent d p) (at_window t) -> consistent d p (mkPulse b s) ->
  Forall (consistent d p) (at_window (at_sample t b s)).
Proof.
  intros Hwf Hall Hx. destruct (at_sample_window t b s Hwf) as (_ & ->). unfold push_window.
  apply Forall_app. split; [|constructor; [assumption|constructor]].
  destruct (Nat.ltb _ _); [assumption|]. destruct (at_window t); [constructor|].
  apply Forall_cons_iff in Hall. apply Hall.
Qed.

(* ------------------------------------------------------------ the sort on an in-order window *)

Fixpoint ascending (l : list pulse) : Prop :=
  match l with
  | x :: ((y :: _) as t) => plt y x = false /\ ascending t
  | _ => True
  end.

Lemma fold_insert_ascending l : forall racc,
  match racc, l with y :: _, x :: _ => plt x y = false | _, _ => True end ->
  ascending l ->
  fold_left (fun racc y => insert_desc y racc) l racc = rev l ++ racc.
Proof.
  induction l as [|x t IH]; intros racc Hh Ha; [reflexivity|].
  simpl fold_left.
  assert (Hins : insert_desc x racc = x :: racc).
  { destruct racc as [|y r]; [reflexivity|]. simpl. rewrite Hh. reflexivity. }
  rewrite Hins. rewrite IH.
  - simpl. rewrite <- app_assoc. reflexivity.
  - destruct t as [|y t']; [exact I|]. simpl in Ha. apply Ha.
  - destruct t as [|y t']; [exact I|]. simpl in Ha. apply Ha.
Qed.

Lemma isort_ascending l : ascending l -> isort l = l.
Proof.
  intros Ha. unfold isort. rewrite (fold_insert_ascending l []); [|destruct l; exact I|assumption].
  rewrite app_nil_r. apply rev_involutive.
Qed.

(* ------------------------------------------------------------ scanning a contiguous run *)

Lemma scan_edge_cons bit last cur rest idx :
  scan_edge bit last (cur :: rest) idx =
  if u32 (p_seq last + 1) =? p_seq cur then
    if negb (Bool.eqb (p_bit last) bit) && Bool.eqb (p_bit cur) bit then Edge idx cur rest
    else scan_edge bit cur rest (idx + 1)
  else Broken.
Proof. reflexivity. Qed.

Section Run.
Variable b : nat -> bool.     (* the type of the i-th sample of the run *)
Variable s0 : Z.              (* seq of sample 0 *)
Hypothesis Hs0 : 0 <= s0.

Definition rp (i : nat) : pulse := mkPulse (b i) (s0 + Z.of_nat i).
Definition rw (k n : nat) : list pulse := map rp (seq k n).

Lemma rw_S k n : rw k (S n) = rp k :: rw (S k) n.
Proof. reflexivity. Qed.

Lemma rw_ascending : forall n k, s0 + Z.of_nat (k + n) <= 4294967296 -> ascending (rw k n).
Proof.
  induction n as [|n IH]; intros k H; [exact I|].
  rewrite rw_S. destruct n as [|n']; [exact I|]. rewrite rw_S. rewrite <- rw_S.
  split; [|apply IH; lia].
  unfold plt, rp, itimediff; cbn [p_seq].
  replace (s0 + Z.of_nat (S k) - (s0 + Z.of_nat k)) with 1 by lia. reflexivity.
Qed.

(* no edge among the next m samples: the loop walks over them *)
Lemma scan_rw_skip bit : forall m k n idx,
  s0 + Z.of_nat (S k + m + n) <= 4294967296 ->
  (forall i, (S k <= i < S k + m)%nat -> ~ (b (i - 1) = negb bit /\ b i = bit)) ->
  scan_edge bit (rp k) (rw (S k) (m + n)) idx = scan_edge bit (rp (k + m)) (rw (S k + m) n) (idx + Z.of_nat m).
Proof.
  induction m as [|m IH]; intros k n idx Hr Hno.
  - rewrite !Nat.add_0_r, Z.add_0_r. reflexivity.
  - change (S m + n)%nat with (S (m + n)). rewrite rw_S, scan_edge_cons.
    assert (Hc : (u32 (p_seq (rp k) + 1) =? p_seq (rp (S k))) = true).
    { apply Z.eqb_eq. unfold rp; cbn [p_seq]. rewrite u32_id by (unfold W32; lia). lia. }
    rewrite Hc.
    assert (He : negb (Bool.eqb (p_bit (rp k)) bit) && Bool.eqb (p_bit (rp (S k))) bit = false).
    { unfold rp; cbn [p_bit]. specialize (Hno (S k) ltac:(lia)). simpl in Hno. rewrite Nat.sub_0_r in Hno.
      destruct (b k), (b (S k)), bit; simpl in *; try reflexivity; exfalso; apply Hno; auto. }
    rewrite He. rewrite (IH (S k) n (idx + 1)).
    + replace (S k + m)%nat with (k + S m)%nat by lia. replace (S (S k) + m)%nat with (S k + S m)%nat by lia.
      f_equal. lia.
    + lia.
    + intros i Hi. apply Hno. lia.
Qed.

Lemma scan_rw_hit bit k n idx :
  s0 + Z.of_nat (S k) < 4294967296 -> b k = negb bit -> b (S k) = bit ->
  scan_edge bit (rp k) (rw (S k) (S n)) idx = Edge idx (rp (S k)) (rw (S (S k)) n).
Proof.
  intros Hr H1 H2. rewrite rw_S, scan_edge_cons.
  assert (Hc : (u32 (p_seq (rp k) + 1) =? p_seq (rp (S k))) = true).
  { apply Z.eqb_eq. unfold rp; cbn [p_seq]. rewrite u32_id by (unfold W32; lia). lia. }
  rewrite Hc.
  assert (He : negb (Bool.eqb (p_bit (rp k)) bit) && Bool.eqb (p_bit (rp (S k))) bit = true).
  { unfold rp; cbn [p_bit]. rewrite H1, H2. destruct bit; reflexivity. }
  rewrite He. reflexivity.
Qed.

(* a run whose first complete pulse of `bit` spans samples L .. R-1 (1 <= L < R < n) *)
Lemma find_period_run bit (L R n : nat) :
  (1 <= L)%nat -> (L < R)%nat -> (R < n)%nat -> s0 + Z.of_nat n <= 4294967296 ->
  (forall i, (1 <= i < L)%nat -> ~ (b (i - 1) = negb bit /\ b i = bit)) ->
  b (L - 1) = negb bit -> b L = bit ->
  (forall i, (L < i < R)%nat -> b i = bit) -> b R = negb bit ->
  find_period_sorted (rw 0 n) bit = Z.of_nat R - Z.of_nat L.
Proof.
  intros HL HLR HRn Hr Hpre HL1 HL2 Hrun HR.
  destruct n as [|n]; [lia|]. rewrite rw_S. unfold find_period_sorted.
  (* left edge *)
  replace n with ((L - 1) + (S (n - L)))%nat by lia.
  rewrite (scan_rw_skip bit (L - 1) 0 (S (n - L)) 1) by (try lia; intros i Hi; apply Hpre; lia).
  replace (0 + (L - 1))%nat with (L - 1)%nat by lia. replace (1 + (L - 1))%nat with L by lia.
  replace L with (S (L - 1)) at 2 by lia.
  rewrite (scan_rw_hit bit (L - 1) (n - L)) by (try lia; replace (S (L - 1)) with L by lia; assumption).
  replace (S (L - 1)) with L by lia.
  (* right edge *)
  replace (n - L)%nat with ((R - L - 1) + S (n - R))%nat by lia.
  rewrite (scan_rw_skip (negb bit) (R - L - 1) L (S (n - R))).
  - replace (L + (R - L - 1))%nat with (R - 1)%nat by lia. replace (S L + (R - L - 1))%nat with R by lia.
    replace R with (S (R - 1)) at 2 by lia.
    rewrite (scan_rw_hit (negb bit) (R - 1) (n - R)).
    + lia.
    + lia.
    + rewrite negb_involutive. destruct (Nat.eq_dec (R - 1) L) as [->|Hne]; [assumption|apply Hrun; lia].
    + replace (S (R - 1)) with R by lia. assumption.
  - lia.
  - intros i Hi [H1 H2]. rewrite negb_involutive in H1.
    assert (b i = bit) by (apply Hrun; lia). rewrite H2 in H. destruct bit; discriminate.
Qed.

End Run.

(* ------------------------------------------------------------ completeness on an aligned clean window *)

(* the samples of an uninterrupted in-order run of a d/p sender starting at seqid s0 *)
Definition run_pulses (d p s0 : Z) (n : nat) : list pulse :=
  rw (fun i => (s0 + Z.of_nat i) mod (d + p) <? d) s0 0 n.

Lemma run_pulses_consistent d p s0 n :
  0 <= s0 -> s0 + Z.of_nat n <= 4294967295 -> Forall (consistent d p) (run_pulses d p s0 n).
Proof.
  intros H0 Hn. unfold run_pulses, rw. apply Forall_forall. intros x Hx. apply in_map_iff in Hx.
  destruct Hx as (i & <- & Hi). apply in_seq in Hi. unfold rp, consistent; simpl. split; [reflexivity|lia].
Qed.

Theorem find_period_complete_sorted d p s0 n :
  0 < d -> 0 < p -> 0 <= s0 -> s0 mod (d + p) = d + p - 1 ->
  (Z.to_nat (d + p) + 2 <= n)%nat -> s0 + Z.of_nat n <= 4294967296 ->
  find_period_sorted (run_pulses d p s0 n) true = d /\ find_period_sorted (run_pulses d p s0 n) false = p.
Proof.
  intros Hd Hp H0 Hal Hn Hr. set (ss := d + p) in *.
  assert (Hss : 0 < ss) by (unfold ss; lia).
  pose proof (Z.div_mod s0 ss ltac:(lia)) as Hdm. rewrite Hal in Hdm. set (q := s0 / ss) in *.
  assert (Hm1 : forall i, 1 <= i <= ss -> (s0 + i) mod ss = i - 1).
  { intros i Hi. replace (s0 + i) with (ss * (q + 1) + (i - 1) + 0) by lia. rewrite mod_shift by lia. lia. }
  assert (Hm2 : (s0 + (ss + 1)) mod ss = 0).
  { replace (s0 + (ss + 1)) with (ss * (q + 2) + 0 + 0) by lia. apply mod_shift; lia. }
  set (b := fun i : nat => (s0 + Z.of_nat i) mod ss <? d).
  assert (Hb0 : b 0%nat = false).
  { unfold b. simpl Z.of_nat. rewrite Z.add_0_r, Hal. apply Z.ltb_ge. unfold ss. lia. }
  assert (HbD : forall i, (1 <= i <= Z.to_nat d)%nat -> b i = true).
  { intros i Hi. unfold b. rewrite Hm1 by (unfold ss; lia). apply Z.ltb_lt. lia. }
  assert (HbP : forall i, (Z.to_nat d + 1 <= i <= Z.to_nat ss)%nat -> b i = false).
  { intros i Hi. unfold b. rewrite Hm1 by (unfold ss in *; lia). apply Z.ltb_ge. lia. }
  assert (HbN : b (Z.to_nat ss + 1)%nat = true).
  { unfold b. replace (Z.of_nat (Z.to_nat ss + 1)) with (ss + 1) by lia. rewrite Hm2. apply Z.ltb_lt. lia. }
  unfold run_pulses. fold ss. fold b. split.
  - rewrite (find_period_run b s0 H0 true 1 (Z.to_nat d + 1) n
               ltac:(lia) ltac:(lia) ltac:(unfold ss in *; lia) Hr
               ltac:(intros i Hi; lia) Hb0 (HbD 1%nat ltac:(lia))
               ltac:(intros i Hi; apply HbD; lia) (HbP (Z.to_nat d + 1)%nat ltac:(unfold ss; lia))). lia.
  - assert (Hpre : forall i, (1 <= i < Z.to_nat d + 1)%nat -> ~ (b (i - 1)%nat = negb false /\ b i = false)).
    { intros i Hi [_ H2]. rewrite HbD in H2 by lia. discriminate. }
    assert (HL1 : b (Z.to_nat d + 1 - 1)%nat = negb false).
    { replace (Z.to_nat d + 1 - 1)%nat with (Z.to_nat d) by lia. apply HbD. lia. }
    rewrite (find_period_run b s0 H0 false (Z.to_nat d + 1) (Z.to_nat ss + 1) n
               ltac:(lia) ltac:(unfold ss; lia) ltac:(lia) Hr Hpre HL1 (HbP (Z.to_nat d + 1)%nat ltac:(unfold ss; lia))
               ltac:(intros i Hi; apply HbP; lia) HbN). unfold ss. lia.
Qed.

(* on the ring: a window that is exactly such a run (the sort is the identity on it) *)
Theorem find_period_complete d p s0 n t :
  0 < d -> 0 < p -> 0 <= s0 -> s0 mod (d + p) = d + p - 1 ->
  (Z.to_nat (d + p) + 2 <= n)%nat -> s0 + Z.of_nat n <= 4294967296 ->
  at_window t = run_pulses d p s0 n ->
  find_period t true = d /\ find_period t false = p.
Proof.
  intros Hd Hp H0 Hal Hn Hr Hw. unfold find_period.
  assert (Hc : (at_count t <? 3) = false).
  { apply Z.ltb_ge. pose proof (at_window_len t) as Hl. rewrite Hw in Hl. unfold run_pulses, rw in Hl.
    rewrite map_length, seq_length in Hl. lia. }
  rewrite Hc, Hw.
  assert (Hs : isort (run_pulses d p s0 n) = run_pulses d p s0 n).
  { unfold run_pulses. apply isort_ascending. apply rw_ascending. simpl. lia. }
  rewrite Hs. apply find_period_complete_sorted; assumption.
Qed.
