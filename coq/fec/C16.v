(* C16 - FEC ratio mismatch is harmless and the decoder converges to the peer's ratio.
   Statements only; every proof is `exact <lemma>`. *)
From Coq Require Import ZArith List Bool Lia.
From KV.Base Require Import Consts Word.
From KV.Fec Require Import Gf256 Codec Rs AutoTune Fec FecSpec FecProofs FecProofs2 AutoTuneProofs TuneProofs TuneTheorems.
Import ListNotations.
Local Open Scope Z_scope.

(* STABLE (full).  A decoder configured d/p with shouldTune = false, in ANY state (any group table,
   any ring contents, any newestShardId); ANY sequence of packets of 6..mtuLimit bytes whose type
   agrees with the position of their seqid (type = data <=> seqid mod (d+p) < d) whenever
   seqid < paws - lost, duplicated, reordered in any way, on both sides of the wrap, any payload
   bytes: decode never faults, dataShards / parityShards / shardSize / paws never change and
   shouldTune stays false (decoding is never suspended), at the end and - every prefix of such a
   sequence being such a sequence - after every packet. *)
Theorem c16_stable :
  forall (mk : Z -> Z -> codec) (d p : Z) (h : list bytes) (st : fecdec),
    d_data st = d -> d_parity st = p -> d_size st = d + p -> d_paws st = paws_of (d + p) ->
    d_should st = false -> Forall (matching_pkt d p) h ->
    exists st' outs, run_dec mk st h = Ok (st', outs) /\
      d_data st' = d /\ d_parity st' = p /\ d_size st' = d + p /\ d_paws st' = paws_of (d + p) /\
      d_should st' = false /\ length outs = length h.
Proof. exact run_dec_stable. Qed.
Print Assumptions c16_stable.

(* ... and the packets of a matching genuine sender are such packets. *)
Theorem c16_genuine_is_matching :
  forall (mk : Z -> Z -> codec) (d p : Z) (book : Z -> list bytes),
    cfg_ok d p -> mds (mk d p) d p -> book_ok d book ->
  forall g i pkt, genuine_at (mk d p) d p book g i pkt -> matching_pkt d p pkt.
Proof. exact genuine_matching. Qed.
Print Assumptions c16_genuine_is_matching.

(* FINDPERIOD IS SOUND.  Whatever the ring holds, as long as every sample stems from ONE sender
   with ratio d/p (its type is the pattern of its seqid) - any loss, duplication, reordering,
   any ids incl. spans >= 2^31, and for ANY order in which the sort leaves the samples - a
   positive result of FindPeriod(true) is d and a positive result of FindPeriod(false) is p:
   the detector never reports a wrong ratio (stronger than the clean-window statement of the
   design: no assumption on the window being contiguous or in order). *)
Theorem c16_findperiod_sound :
  forall (d p : Z) (t : autotune) (bit : bool) (v : Z),
    0 < d -> 0 < p -> Forall (consistent d p) (at_window t) ->
    find_period t bit = v -> 0 < v -> v = if bit then d else p.
Proof. exact find_period_sound. Qed.
Print Assumptions c16_findperiod_sound.

(* MISMATCH IS DETECTED.  A receiver configured dr/pr <> d/p: among any (d+p)+(dr+pr)
   (<= 258 + 2(d+p) for dr+pr <= 256) consecutive ids, from any start, there is one whose sender
   type fails the receiver's type-vs-position test. *)
Theorem c16_mismatch_detected :
  forall (st : fecdec) (d p s0 : Z),
    0 < d -> 0 < p -> 0 < d_data st -> 0 < d_parity st -> d_size st = d_data st + d_parity st ->
    (d <> d_data st \/ p <> d_parity st) -> 0 <= s0 ->
    exists s, s0 <= s < s0 + (d + p) + d_size st /\ type_mismatch st s (sender_flag d p s) = true.
Proof. exact mismatch_detected. Qed.
Print Assumptions c16_mismatch_detected.
