(* C16 - FEC ratio mismatch is harmless and the decoder converges to the peer's ratio.
   Statements only; every proof is `exact <lemma>`. *)
From Coq Require Import ZArith List Bool Lia.
From KV.Base Require Import Consts Word.
From KV.Fec Require Import Gf256 Codec Rs AutoTune Fec FecSpec FecProofs FecProofs2 AutoTuneProofs TuneProofs ConvProofs TuneTheorems RsProofs RsMds RsMdsAll.
Import ListNotations.
Local Open Scope Z_scope.

(* STABLE (full).  A decoder configured d/p with shouldTune = false, in ANY state (any group table,
   any ring contents, any newestShardId); ANY sequence of packets of 6..mtuLimit bytes whose type
   agrees with the position of their seqid (type = data <=> seqid mod (d+p) < d) whenever
   seqid < paws - lost, duplicated, reordered in any way, on both sides of the wrap, any payload
   bytes: decode never faults, dataShards / parityShards / shardSize / paws never change and
   shouldTune stays false (decoding is never suspended), at the end and - every prefix of such a
   sequence being such a sequence - after every packet. *)
Theorem c16_stable :
  forall (mk : Z -> Z -> codec) (d p : Z) (h : list bytes) (st : fecdec),
    d_data st = d -> d_parity st = p -> d_size st = d + p -> d_paws st = paws_of (d + p) ->
    d_should st = false -> Forall (matching_pkt d p) h ->
    exists st' outs, run_dec mk st h = Ok (st', outs) /\
      d_data st' = d /\ d_parity st' = p /\ d_size st' = d + p /\ d_paws st' = paws_of (d + p) /\
      d_should st' = false /\ length outs = length h.
Proof. exact run_dec_stable. Qed.
Print Assumptions c16_stable.

(* ... and the packets of a matching genuine sender are such packets. *)
Theorem c16_genuine_is_matching :
  forall (mk : Z -> Z -> codec) (d p : Z) (book : Z -> list bytes),
    cfg_ok d p -> mds (mk d p) d p -> book_ok d book ->
  forall g i pkt, genuine_at (mk d p) d p book g i pkt -> matching_pkt d p pkt.
Proof. exact genuine_matching. Qed.
Print Assumptions c16_genuine_is_matching.

(* FINDPERIOD IS SOUND.  Whatever the ring holds, as long as every sample stems from ONE sender
   with ratio d/p (its type is the pattern of its seqid) - any loss, duplication, reordering,
   any ids incl. spans >= 2^31, and for ANY order in which the sort leaves the samples - a
   positive result of FindPeriod(true) is d and a positive result of FindPeriod(false) is p:
   the detector never reports a wrong ratio (stronger than the clean-window statement of the
   design: no assumption on the window being contiguous or in order). *)
Theorem c16_findperiod_sound :
  forall (d p : Z) (t : autotune) (bit : bool) (v : Z),
    0 < d -> 0 < p -> Forall (consistent d p) (at_window t) ->
    find_period t bit = v -> 0 < v -> v = if bit then d else p.
Proof. exact find_period_sound. Qed.
Print Assumptions c16_findperiod_sound.

(* MISMATCH IS DETECTED.  A receiver configured dr/pr <> d/p: among any (d+p)+(dr+pr)
   (<= 258 + 2(d+p) for dr+pr <= 256) consecutive ids, from any start, there is one whose sender
   type fails the receiver's type-vs-position test. *)
Theorem c16_mismatch_detected :
  forall (st : fecdec) (d p s0 : Z),
    0 < d -> 0 < p -> 0 < d_data st -> 0 < d_parity st -> d_size st = d_data st + d_parity st ->
    (d <> d_data st \/ p <> d_parity st) -> 0 <= s0 ->
    exists s, s0 <= s < s0 + (d + p) + d_size st /\ type_mismatch st s (sender_flag d p s) = true.
Proof. exact mismatch_detected. Qed.
Print Assumptions c16_mismatch_detected.

(* THE RING HOLDS THE LAST 258 SAMPLES.  Sample appends to the window and drops the oldest sample
   once maxAutoTuneSamples are held (so after an uninterrupted run of 258 packets nothing older is
   left), for every well-formed ring; new rings are well formed and empty. *)
Theorem c16_ring_holds_last_samples :
  (at_wf at_init /\ at_window at_init = []) /\
  (forall t b s, at_wf t ->
     at_wf (at_sample t b s) /\ at_window (at_sample t b s) = push_window (at_window t) (mkPulse b s)).
Proof. exact (conj at_init_wf at_sample_window). Qed.
Print Assumptions c16_ring_holds_last_samples.

(* FINDPERIOD IS COMPLETE on aligned clean windows.  If the ring holds exactly an in-order
   uninterrupted run of the sender (n samples from seqid s0, no u32 wrap inside) that starts one id
   before a group boundary (one start in every d+p consecutive starts) and holds at least d+p+2
   samples (258 >= d+p+2 for every d+p <= 256), both periods are found: FindPeriod(true) = d and
   FindPeriod(false) = p.  (The sort is the identity on such a window.) *)
Theorem c16_findperiod_complete :
  forall (d p s0 : Z) (n : nat) (t : autotune),
    0 < d -> 0 < p -> 0 <= s0 -> s0 mod (d + p) = d + p - 1 ->
    (Z.to_nat (d + p) + 2 <= n)%nat -> s0 + Z.of_nat n <= 4294967296 ->
    at_window t = run_pulses d p s0 n ->
    find_period t true = d /\ find_period t false = p.
Proof. exact find_period_complete. Qed.
Print Assumptions c16_findperiod_complete.

(* CONVERGENCE (full, under the premises spelled out).  A decoder in ANY state with any accepted
   ratio dr/pr (J: 0 < dr, 0 < pr, dr+pr <= 256, paws consistent, ring well formed - every state a
   decoder can be in), tune flag set or clear, any group table, whose ring holds only samples of
   the d/p sender (empty ring, or whatever earlier packets of that sender arrived, lost /
   duplicated / reordered in any way - NOT arbitrary junk of another pattern); d+p <= 255.
   Feed the uninterrupted in-order run of N = 258 + 2(d+p) packets with seqids s0 .. s0+N-1 typed
   by the sender's pattern (any bodies of admissible length), from ANY start id s0 with
   s0 + N <= 2^32 - 257 (no u32 wrap inside the run; the sender's own wrap at paws, where its ids
   jump, must not lie inside the run).  Then decode never faulted, and afterwards the decoder has
   exactly d/p (shardSize d+p, paws of d+p) and the tune flag is clear - from where C07 applies
   and c16_stable keeps it so. *)
Theorem c16_converges :
  forall (mk : Z -> Z -> codec) (d p s0 : Z) (body : nat -> bytes) (N : nat),
    0 < d -> 0 < p -> d + p <= 255 -> 0 <= s0 ->
    (forall i, blen (body i) + c_fecHeaderSize <= c_mtuLimit) ->
    s0 + Z.of_nat N <= 4294967296 - 257 ->
  forall st : fecdec,
    N = Z.to_nat (258 + 2 * (d + p)) ->
    J st -> Forall (consistent d p) (at_window (d_at st)) ->
    exists st' outs,
      run_dec mk st (pks d p s0 body 0 N) = Ok (st', outs) /\ has_cfg st' d p /\ d_should st' = false.
Proof. exact converges. Qed.
Print Assumptions c16_converges.

(* the run, spelled out: packet i has seqid s0+i, the sender's type for that id, and body i *)
Theorem c16_run_is :
  forall d p s0 body i n,
    pks d p s0 body i n =
    map (fun k => le32 (s0 + Z.of_nat k) ++ le16 (sender_flag d p (s0 + Z.of_nat k)) ++ body k) (seq i n).
Proof. exact (fun d p s0 body i n => eq_refl). Qed.

(* the steps the composition is made of (also usable on their own):
   (1) while the tune flag is set or the packet fails the type test, decode stores nothing and runs
       the period search on the ring that already holds the packet's sample;
   (2) on a ring holding samples of ONE d/p sender such a step either leaves the ratio and the group
       table alone or adopts exactly d/p, clears the flag and empties the table - never a wrong ratio;
   (3) on an aligned clean window (c16_findperiod_complete) it adopts d/p (d+p <= 255). *)
Theorem c16_tuning_steps :
  (forall mk st pkt,
     c_fecHeaderSize <= blen pkt -> pk_seqid pkt < d_paws st ->
     d_should st || type_mismatch st (pk_seqid pkt) (pk_flag pkt) = true ->
     dec_decode mk st pkt =
       Ok (dec_retune (set_at st (at_sample (d_at st) (pk_flag pkt =? c_typeData) (pk_seqid pkt))), [])) /\
  (forall d p st, 0 < d -> 0 < p -> Forall (consistent d p) (at_window (d_at st)) ->
     (d_data (dec_retune st) = d_data st /\ d_parity (dec_retune st) = d_parity st /\
      d_size (dec_retune st) = d_size st /\ d_paws (dec_retune st) = d_paws st /\ d_sets (dec_retune st) = d_sets st)
     \/ (has_cfg (dec_retune st) d p /\ d_should (dec_retune st) = false /\ d_sets (dec_retune st) = [])) /\
  (forall d p s0 n st,
     0 < d -> 0 < p -> d + p <= 255 -> 0 <= s0 -> s0 mod (d + p) = d + p - 1 ->
     (Z.to_nat (d + p) + 2 <= n)%nat -> s0 + Z.of_nat n <= 4294967296 ->
     at_window (d_at st) = run_pulses d p s0 n ->
     d_size st = d_data st + d_parity st -> d_paws st = paws_of (d_size st) ->
     has_cfg (dec_retune st) d p /\ d_should (dec_retune st) = false).
Proof. exact (conj decode_tuning_step (conj retune_sound retune_complete)). Qed.
Print Assumptions c16_tuning_steps.

(* what is NOT covered by c16_converges: a ring holding junk of ANOTHER pattern before the run
   (a wrong ratio may then be adopted once before the ring is clean; measured on the real decoder:
   the bound still held on every generated case) - kept as the open full statement *)
Definition c16_converges_any_ring_full : Prop :=
  forall (mk : Z -> Z -> codec) (d p s0 : Z) (body : nat -> bytes) (N : nat) (st : fecdec),
    0 < d -> 0 < p -> d + p <= 255 -> 0 <= s0 ->
    (forall i, blen (body i) + c_fecHeaderSize <= c_mtuLimit) ->
    s0 + Z.of_nat N <= 4294967296 - 257 -> N = Z.to_nat (258 + 2 * (d + p)) -> J st ->
    exists st' outs,
      run_dec mk st (pks d p s0 body 0 N) = Ok (st', outs) /\ has_cfg st' d p /\ d_should st' = false.

(* STREAM INTACT (partial).  For ANY decoder state - mismatched ratio, tuning, any table, any ring -
   (a) the session feeds the payload of every arriving data packet to the ARQ core first and
   independently of decode: a mistuned or suspended decoder cannot remove or alter data; (b) what
   decode adds is fed only if it passes the size test 2 <= sz <= len, as r[2:sz].  With the
   matching ratio every such addition is an original payload (c07_only_originals); with equal data
   counts and different parity counts parity row i is the same code (measured, harness); with
   DIFFERENT data counts a reconstruction may be garbage and the code relies on the ARQ core's
   conv/cmd/len filter to reject it - that event is outside these theorems (probabilistic in the
   code itself), hence `partial`. *)
Theorem c16_stream_intact_partial :
  (forall mk st pkt st' fed,
     sess_fec_input mk st pkt = Ok (st', fed) -> c_fecHeaderSizePlus2 <= blen pkt ->
     exists rec, dec_decode mk st pkt = Ok (st', rec) /\
       fed = (if pk_flag pkt =? c_typeData then [(skipn 8 pkt, c_IKCP_PACKET_REGULAR)] else [])
             ++ concat (map strip_rec rec)) /\
  (forall r, strip_rec r = [] \/
     exists sz, sz = rd16 r /\ 2 <= sz <= blen r /\
       strip_rec r = [(firstn (Z.to_nat (sz - 2)) (skipn 2 r), c_IKCP_PACKET_FEC)]).
Proof. exact (conj sess_feeds_data_first strip_rec_spec). Qed.
Print Assumptions c16_stream_intact_partial.

(* ---- non-vacuity ---- *)
(* a 3/2 sender, a run of 7 samples starting at seqid 4 (4 mod 5 = 4 = d+p-1): both periods found;
   a 2/1 receiver meets a mismatch among ids 0..7 of a 3/2 sender; a matching packet exists *)
Example c16_example :
  (let t := fold_left (fun t i => at_sample t ((4 + Z.of_nat i) mod 5 <? 3) (4 + Z.of_nat i)) (seq 0 7) at_init in
   at_wf t /\ at_window t = run_pulses 3 2 4 7 /\ find_period t true = 3 /\ find_period t false = 2) /\
  (exists st, dec_new 2 1 = Some st /\ type_mismatch st 2 (sender_flag 3 2 2) = true) /\
  matching_pkt 3 2 (le32 8 ++ le16 c_typeParity ++ [1; 2; 3]) /\
  (* the premises of c16_converges hold for a fresh 2/1 decoder facing a 3/2 sender from id 1000 *)
  (exists st, dec_new 2 1 = Some st /\ J st /\ Forall (consistent 3 2) (at_window (d_at st))).
Proof. exact c16_example_lemma. Qed.

(* equal data counts: parity row i of d/p1 is parity row i of d/p2 - PROVED for every d, p1 <= p2
   with d + p2 <= 256 (both are rows of Vandermonde * the same top inverse) - so a receiver with the sender's data count but another
   parity count reconstructs genuine packets from the parity rows it knows *)
Theorem c16_parity_rows_indep_all :
  forall d p1 p2 : nat, (0 < d)%nat -> (p1 <= p2)%nat -> (d + p2 <= 256)%nat -> rows_prefix d p1 p2 = true.
Proof. exact rows_prefix_all. Qed.
Print Assumptions c16_parity_rows_indep_all.

(* the same fact by computation on small ratios (independent path through vm_compute) *)
Theorem c16_parity_rows_indep :
  forallb (fun d => forallb (fun p2 => forallb (fun p1 => rows_prefix d p1 p2) (seq 1 p2)) (seq 1 4)) (seq 1 6) = true
  /\ rows_prefix 10 1 3 = true.
Proof. exact (conj rs_parity_row_indep_small rs_parity_row_indep_10). Qed.
Print Assumptions c16_parity_rows_indep.
