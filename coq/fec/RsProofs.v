(* Lifting a finite computation to the `mds` premise for the executable codec Rs.v.
   The code acts on every byte column independently and linearly over GF(2) (gmul is linear in
   its data argument bit by bit).  Hence, for a given set of present shards, "reconstruct o
   restrict o encode = id" for ALL data follows from checking it on the 8*d basis vectors
   2^i e_j of one column.  `check_mds` performs that check for every arrival mask; it is run by
   vm_compute in RsMds.v. *)
From Coq Require Import ZArith List Bool Lia Arith.
From KV.Base Require Import Word.
From KV.Fec Require Import Gf256 Codec Rs AutoTune Fec FecSpec FecProofs.
Import ListNotations.
Local Open Scope Z_scope.

(* ------------------------------------------------------------ xor, linearity of gmul *)

Lemma lxor_swap4 a b c d :
  Z.lxor (Z.lxor a b) (Z.lxor c d) = Z.lxor (Z.lxor a c) (Z.lxor b d).
Proof.
  apply Z.bits_inj'. intros n _. rewrite !Z.lxor_spec.
  destruct (Z.testbit a n), (Z.testbit b n), (Z.testbit c n), (Z.testbit d n); reflexivity.
Qed.

Lemma gmul_bits_lin n : forall i a x y,
  gmul_bits n i a (Z.lxor x y) = Z.lxor (gmul_bits n i a x) (gmul_bits n i a y).
Proof.
  induction n as [|n IH]; intros i a x y; simpl; [reflexivity|].
  rewrite IH, Z.lxor_spec. rewrite <- lxor_swap4. f_equal.
  destruct (Z.testbit x i), (Z.testbit y i); simpl;
    rewrite ?Z.lxor_nilpotent, ?Z.lxor_0_r, ?Z.lxor_0_l; reflexivity.
Qed.

Lemma gmul_lin a x y : gmul a (Z.lxor x y) = Z.lxor (gmul a x) (gmul a y).
Proof. apply gmul_bits_lin. Qed.

Lemma gmul_bits_0 n : forall i a, gmul_bits n i a 0 = 0.
Proof. induction n as [|n IH]; intros; simpl; [reflexivity|]. rewrite IH, Z.testbit_0_l. reflexivity. Qed.

Lemma gmul_0_r a : gmul a 0 = 0.
Proof. apply gmul_bits_0. Qed.

(* ------------------------------------------------------------ vectors *)

Fixpoint dot (c x : list Z) : Z :=
  match c, x with
  | a :: c', b :: x' => Z.lxor (gmul a b) (dot c' x')
  | _, _ => 0
  end.

Lemma vxor_length x : forall y, length x = length y -> length (vxor x y) = length x.
Proof. induction x; destruct y; simpl; intros; try discriminate; auto. Qed.

Lemma nth_vxor x : forall y i, length x = length y ->
  nth i (vxor x y) 0 = Z.lxor (nth i x 0) (nth i y 0).
Proof.
  induction x as [|a x IH]; destruct y as [|b y]; simpl; intros i H; try discriminate.
  - destruct i; reflexivity.
  - destruct i; [reflexivity|]. apply IH. lia.
Qed.

Lemma dot_lin c : forall x y, length x = length y ->
  dot c (vxor x y) = Z.lxor (dot c x) (dot c y).
Proof.
  induction c as [|a c IH]; intros x y H; [reflexivity|].
  destruct x as [|u x]; destruct y as [|v y]; simpl in H; try discriminate.
  - reflexivity.
  - simpl. rewrite gmul_lin, IH by lia. apply lxor_swap4.
Qed.

Lemma dot_zeros c : forall n, dot c (repeat 0 n) = 0.
Proof. induction c; destruct n; simpl; rewrite ?gmul_0_r, ?IHc; auto. Qed.

Lemma nth_vscale a x : forall i, nth i (vscale a x) 0 = gmul a (nth i x 0).
Proof.
  unfold vscale. induction x; destruct i; simpl; rewrite ?gmul_0_r; auto.
Qed.

Lemma vscale_length a x : length (vscale a x) = length x.
Proof. apply map_length. Qed.

Lemma nth_repeat0 n i : nth i (repeat 0 n) 0 = 0.
Proof. revert i; induction n; destruct i; simpl; auto. Qed.

Lemma lin_comb_length len c : forall xs,
  Forall (fun x : list Z => length x = len) xs -> length (lin_comb len c xs) = len.
Proof.
  induction c as [|a c IH]; intros xs H; simpl; [apply repeat_length|].
  destruct xs as [|x xs]; [apply repeat_length|].
  apply Forall_cons_iff in H as [Hx Hxs].
  rewrite vxor_length; rewrite vscale_length; [assumption|]. rewrite IH; assumption.
Qed.

Lemma lin_comb_nth len ci c : forall xs,
  Forall (fun x : list Z => length x = len) xs ->
  nth ci (lin_comb len c xs) 0 = dot c (map (fun x => nth ci x 0) xs).
Proof.
  induction c as [|a c IH]; intros xs H; simpl; [apply nth_repeat0|].
  destruct xs as [|x xs]; simpl; [apply nth_repeat0|].
  apply Forall_cons_iff in H as [Hx Hxs].
  rewrite nth_vxor by (rewrite vscale_length, lin_comb_length; assumption).
  rewrite nth_vscale, IH by assumption. reflexivity.
Qed.

(* ------------------------------------------------------------ decomposition into basis vectors *)

Definition bytes256 : list Z := map Z.of_nat (seq 0 256).

Lemma in_bytes256 b : 0 <= b < 256 -> In b bytes256.
Proof.
  intros H. unfold bytes256. apply in_map_iff. exists (Z.to_nat b). split; [lia|].
  apply in_seq. lia.
Qed.

Definition bits_of (b : Z) : Z :=
  fold_right (fun i acc => Z.lxor (if Z.testbit b (Z.of_nat i) then 2 ^ Z.of_nat i else 0) acc) 0 (seq 0 8).

Lemma bits_of_all : forallb (fun b => bits_of b =? b) bytes256 = true.
Proof. vm_compute. reflexivity. Qed.

Lemma byte_decomp (P : Z -> Prop) :
  P 0 -> (forall i, (i < 8)%nat -> P (2 ^ Z.of_nat i)) ->
  (forall u v, P u -> P v -> P (Z.lxor u v)) ->
  forall b, 0 <= b < 256 -> P b.
Proof.
  intros P0 Pb Px b Hb.
  pose proof (proj1 (forallb_forall _ _) bits_of_all b (in_bytes256 b Hb)) as E.
  apply Z.eqb_eq in E. rewrite <- E. unfold bits_of.
  assert (H : forall l, Forall (fun i => (i < 8)%nat) l ->
     P (fold_right (fun i acc => Z.lxor (if Z.testbit b (Z.of_nat i) then 2 ^ Z.of_nat i else 0) acc) 0 l)).
  { induction l as [|i l IH]; intros Hl; simpl; [assumption|].
    apply Forall_cons_iff in Hl as [Hi Hl]. apply Px; [|apply IH; assumption].
    destruct (Z.testbit b (Z.of_nat i)); [apply Pb; assumption|assumption]. }
  apply H. apply Forall_forall. intros i Hi. apply in_seq in Hi. lia.
Qed.

Definition unit_vec (d j : nat) (v : Z) : list Z := repeat 0 j ++ v :: repeat 0 (d - j - 1).
Definition basis (d : nat) : list (list Z) :=
  flat_map (fun j => map (fun i => unit_vec d j (2 ^ Z.of_nat i)) (seq 0 8)) (seq 0 d).

Lemma in_basis d j i : (j < d)%nat -> (i < 8)%nat -> In (unit_vec d j (2 ^ Z.of_nat i)) (basis d).
Proof.
  intros Hj Hi. unfold basis. apply in_flat_map. exists j. split; [apply in_seq; lia|].
  apply in_map_iff. exists i. split; [reflexivity|apply in_seq; lia].
Qed.

Lemma vxor_zeros_l x : vxor (repeat 0 (length x)) x = x.
Proof. induction x; simpl; [reflexivity|]. rewrite IHx. reflexivity. Qed.

Lemma vxor_zeros n : vxor (repeat 0 n) (repeat 0 n) = repeat 0 n.
Proof. induction n; simpl; congruence. Qed.

Lemma vec_decomp : forall d (P : list Z -> Prop),
  P (repeat 0 d) ->
  (forall j i, (j < d)%nat -> (i < 8)%nat -> P (unit_vec d j (2 ^ Z.of_nat i))) ->
  (forall u v, length u = d -> length v = d -> P u -> P v -> P (vxor u v)) ->
  forall x, length x = d -> Forall (fun b => 0 <= b < 256) x -> P x.
Proof.
  induction d as [|d IH]; intros P P0 Pb Px x Hl Hb.
  - destruct x; [exact P0|discriminate].
  - destruct x as [|b xs]; [discriminate|]. simpl in Hl.
    apply Forall_cons_iff in Hb as [Hb Hxs].
    assert (E : b :: xs = vxor (b :: repeat 0 d) (0 :: xs)).
    { simpl. rewrite Z.lxor_0_r. f_equal. replace d with (length xs) by lia. symmetry. apply vxor_zeros_l. }
    rewrite E. apply Px; [simpl; rewrite repeat_length; reflexivity|simpl; lia| |].
    + (* the head byte *)
      apply (byte_decomp (fun b => P (b :: repeat 0 d))); [exact P0| | |assumption].
      * intros i Hi. specialize (Pb 0%nat i ltac:(lia) Hi). unfold unit_vec in Pb. simpl in Pb.
        rewrite Nat.sub_0_r in Pb. exact Pb.
      * intros u v Hu Hv.
        replace (Z.lxor u v :: repeat 0 d) with (vxor (u :: repeat 0 d) (v :: repeat 0 d))
          by (simpl; rewrite vxor_zeros; reflexivity).
        apply Px; simpl; rewrite ?repeat_length; auto.
    + (* the tail *)
      apply (IH (fun v => P (0 :: v))); [exact P0| | |lia|assumption].
      * intros j i Hj Hi. specialize (Pb (S j) i ltac:(lia) Hi). unfold unit_vec in *. simpl in Pb. exact Pb.
      * intros u v Hu Hv Pu Pv.
        replace (0 :: vxor u v) with (vxor (0 :: u) (0 :: v)) by reflexivity.
        apply Px; simpl; auto.
Qed.

(* ------------------------------------------------------------ the finite check *)

Fixpoint positions (i : nat) (mask : list bool) : list nat :=
  match mask with
  | [] => []
  | b :: t => if b then i :: positions (S i) t else positions (S i) t
  end.

(* column view of the codeword: shard i of the codeword of the data column x *)
Definition cw_col (m : matrix) (d : nat) (x : list Z) (i : nat) : Z :=
  if Nat.ltb i d then nth i x 0 else dot (nth i m []) x.

Definition check_mask (m : matrix) (d : nat) (mask : list bool) : bool :=
  let idxs := firstn d (positions 0 mask) in
  match invert d (map (fun i => nth i m []) idxs) with
  | None => false
  | Some inv =>
      forallb (fun k => nth k mask false ||
                 forallb (fun e => dot (nth k inv []) (map (cw_col m d e) idxs) =? nth k e 0) (basis d))
              (seq 0 d)
  end.

Fixpoint all_masks (n : nat) : list (list bool) :=
  match n with
  | O => [[]]
  | S n' => flat_map (fun m => [true :: m; false :: m]) (all_masks n')
  end.

Definition check_mds (d p : nat) : bool :=
  match rs_matrix d p with
  | None => false
  | Some m =>
      Nat.eqb (length m) (d + p) &&
      forallb (fun mask => Nat.ltb (count_true mask) d || check_mask m d mask) (all_masks (d + p))
  end.

Lemma all_masks_complete n : forall mask, length mask = n -> In mask (all_masks n).
Proof.
  induction n as [|n IH]; intros mask H.
  - destruct mask; [left; reflexivity|discriminate].
  - destruct mask as [|b t]; [discriminate|]. simpl. apply in_flat_map. exists t.
    split; [apply IH; simpl in H; lia|]. destruct b; simpl; auto.
Qed.

Lemma positions_ge mask : forall i0 i, In i (positions i0 mask) -> (i0 <= i < i0 + length mask)%nat.
Proof.
  induction mask as [|b t IH]; intros i0 i H; simpl in *; [contradiction|].
  destruct b; [destruct H as [<-|H]; [lia|]|]; apply IH in H; lia.
Qed.

Lemma positions_length mask : forall i0, length (positions i0 mask) = count_true mask.
Proof.
  unfold count_true. induction mask as [|b t IH]; intros i0; simpl; [reflexivity|].
  destruct b; simpl; rewrite IH; reflexivity.
Qed.

Lemma positions_mask mask : forall i0 i, In i (positions i0 mask) -> nth (i - i0) mask false = true.
Proof.
  induction mask as [|b t IH]; intros i0 i H; [contradiction|].
  assert (Hrec : In i (positions (S i0) t) -> nth (i - i0) (b :: t) false = true).
  { intros H'. pose proof (positions_ge _ _ _ H'). apply IH in H'.
    replace (i - i0)%nat with (S (i - S i0)) by lia. exact H'. }
  destruct b; simpl in H.
  - destruct H as [H|H]; [subst i; rewrite Nat.sub_diag; reflexivity|auto].
  - auto.
Qed.

Lemma present_restrict mask : forall cw i0, length mask = length cw ->
  present i0 (restrict mask cw) = map (fun i => (i, nth (i - i0) cw [])) (positions i0 mask).
Proof.
  unfold restrict. induction mask as [|b t IH]; intros cw i0 Hl; [reflexivity|].
  destruct cw as [|x cw]; [discriminate|]. simpl in Hl. simpl combine. simpl map at 1. simpl positions.
  assert (Hrest : present (S i0) (map (fun bx : bool * bytes => if fst bx then Some (snd bx) else None) (combine t cw)) =
                  map (fun i => (i, nth (i - i0) (x :: cw) [])) (positions (S i0) t)).
  { rewrite IH by lia. apply map_ext_in. intros i Hi. apply positions_ge in Hi.
    replace (i - i0)%nat with (S (i - S i0)) by lia. reflexivity. }
  destruct b; simpl.
  - rewrite Nat.sub_diag. simpl. f_equal. exact Hrest.
  - exact Hrest.
Qed.

(* ------------------------------------------------------------ from the check to mds *)

Lemma cw_col_lin m d x y i : length x = length y ->
  cw_col m d (vxor x y) i = Z.lxor (cw_col m d x i) (cw_col m d y i).
Proof.
  intros H. unfold cw_col. destruct (Nat.ltb i d); [apply nth_vxor; assumption|apply dot_lin; assumption].
Qed.

Lemma cw_col_zeros m d n i : cw_col m d (repeat 0 n) i = 0.
Proof. unfold cw_col. destruct (Nat.ltb i d); [apply nth_repeat0|apply dot_zeros]. Qed.

Lemma check_mask_all m d mask k x :
  check_mask m d mask = true -> (k < d)%nat -> nth k mask false = false ->
  length x = d -> Forall (fun b => 0 <= b < 256) x ->
  exists inv, invert d (map (fun i => nth i m []) (firstn d (positions 0 mask))) = Some inv /\
    dot (nth k inv []) (map (cw_col m d x) (firstn d (positions 0 mask))) = nth k x 0.
Proof.
  unfold check_mask. intros Hc Hk Hm Hl Hb.
  destruct (invert d _) as [inv|]; [|discriminate]. exists inv. split; [reflexivity|].
  rewrite forallb_forall in Hc. specialize (Hc k ltac:(apply in_seq; lia)). rewrite Hm in Hc. simpl in Hc.
  rewrite forallb_forall in Hc.
  set (idxs := firstn d (positions 0 mask)) in *.
  apply (vec_decomp d (fun x => dot (nth k inv []) (map (cw_col m d x) idxs) = nth k x 0)); try assumption.
  - rewrite nth_repeat0. rewrite (map_ext _ (fun _ => 0)) by (intros; apply cw_col_zeros).
    clear. generalize (nth k inv []). induction idxs; intros c; destruct c; simpl; rewrite ?gmul_0_r, ?IHidxs; auto.
  - intros j i Hj Hi. apply Z.eqb_eq. apply Hc. apply in_basis; assumption.
  - intros u v Hu Hv Pu Pv.
    assert (E : map (cw_col m d (vxor u v)) idxs = vxor (map (cw_col m d u) idxs) (map (cw_col m d v) idxs)).
    { clear - Hu Hv. induction idxs; simpl; [reflexivity|]. rewrite cw_col_lin by congruence. f_equal. assumption. }
    rewrite E, dot_lin by (rewrite !map_length; reflexivity).
    rewrite Pu, Pv. symmetry. apply nth_vxor. congruence.
Qed.

Lemma nth_map_col (data : list (list Z)) ci i :
  nth i (map (fun x => nth ci x 0) data) 0 = nth ci (nth i data []) 0.
Proof.
  destruct (Nat.lt_ge_cases i (length data)).
  - rewrite nth_indep with (d' := nth ci [] 0) by (rewrite map_length; assumption).
    apply (map_nth (fun x => nth ci x 0)).
  - rewrite (nth_overflow (map (fun x => nth ci x 0) data)) by (rewrite map_length; assumption).
    rewrite (nth_overflow data) by assumption. destruct ci; reflexivity.
Qed.

Lemma nth_map_in {A B} (f : A -> B) l : forall i d0 d1, (i < length l)%nat -> nth i (map f l) d0 = f (nth i l d1).
Proof. induction l; destruct i; simpl; intros; try lia; auto. apply IHl. lia. Qed.

Lemma nth_skipn' {A} (l : list A) : forall n i d0, nth i (skipn n l) d0 = nth (n + i) l d0.
Proof. induction l; destruct n; simpl; intros; auto. destruct i; reflexivity. Qed.

Lemma in_firstn {A} (x : A) n : forall l, In x (firstn n l) -> In x l.
Proof. induction n; destruct l; simpl; intros H; try contradiction. destruct H; auto. Qed.

Theorem check_mds_sound d p :
  (0 < d)%nat -> check_mds d p = true ->
  mds (rs_codec (Z.of_nat d) (Z.of_nat p)) (Z.of_nat d) (Z.of_nat p).
Proof.
  intros Hd0 Hc. unfold check_mds in Hc. unfold rs_codec. rewrite !Nat2Z.id.
  destruct (rs_matrix d p) as [m|]; [|discriminate].
  apply andb_true_iff in Hc as [Hlen Hall]. apply Nat.eqb_eq in Hlen.
  rewrite forallb_forall in Hall.
  intros data L Hdl Hdok HL. simpl c_encode. simpl c_reconstruct. rewrite Nat2Z.id in Hdl.
  unfold bytes in *.
  assert (HdL : Forall (fun x : list Z => length x = L) data).
  { apply Forall_forall. intros s Hs. rewrite Forall_forall in Hdok. apply (Hdok s Hs). }
  assert (Hlen0 : match data with x :: _ => length x | [] => 0%nat end = L).
  { destruct data as [|x t]; [simpl in Hdl; lia|]. apply Forall_cons_iff in HdL as [Hx _]. exact Hx. }
  assert (Henc : rs_encode_with m d data = map (fun r => lin_comb L r data) (skipn d m)).
  { unfold rs_encode_with. cbv zeta. f_equal. rewrite <- Hlen0. reflexivity. }
  rewrite Henc. clear Henc.
  remember (map (fun r => lin_comb L r data) (skipn d m)) as parity eqn:Epar.
  assert (Hpl : length parity = p) by (rewrite Epar, map_length, skipn_length; lia).
  assert (HpL : Forall (fun s : list Z => length s = L) parity).
  { rewrite Epar. apply Forall_forall. intros s Hs. apply in_map_iff in Hs. destruct Hs as (r & <- & _).
    apply lin_comb_length. assumption. }
  split; [rewrite ?Nat2Z.id; assumption|]. split; [assumption|].
  intros mask Hml Hcnt. rewrite <- Nat2Z.inj_add, Nat2Z.id in Hml. rewrite Nat2Z.id in Hcnt.
  unfold bytes in *.
  remember (data ++ parity) as cw eqn:Ecw.
  assert (Hcwl : length cw = (d + p)%nat) by (rewrite Ecw, app_length; lia).
  assert (HcwL : Forall (fun s : list Z => length s = L) cw) by (rewrite Ecw; apply Forall_app; auto).
  pose proof (Hall mask (all_masks_complete _ mask Hml)) as Hchk.
  apply orb_true_iff in Hchk. destruct Hchk as [Hlt|Hchk]; [apply Nat.ltb_lt in Hlt; lia|].
  unfold rs_reconstruct_with.
  rewrite present_restrict by (transitivity (d + p)%nat; [exact Hml|symmetry; exact Hcwl]).
  unfold bytes in *.
  remember (firstn d (positions 0 mask)) as idxs eqn:Eidx.
  assert (Hpr : firstn d (map (fun i => (i, nth (i - 0) cw [])) (positions 0 mask)) =
                map (fun i => (i, nth i cw [])) idxs).
  { rewrite firstn_map, <- Eidx. apply map_ext. intros i. rewrite Nat.sub_0_r. reflexivity. }
  rewrite Hpr.
  assert (Hil : length idxs = d).
  { rewrite Eidx, firstn_length, positions_length. lia. }
  assert (Hiin : forall i, In i idxs -> (i < d + p)%nat /\ nth i mask false = true).
  { intros i Hi. rewrite Eidx in Hi. apply in_firstn in Hi. split.
    - apply positions_ge in Hi. lia.
    - apply positions_mask in Hi. rewrite Nat.sub_0_r in Hi. exact Hi. }
  rewrite map_length, Hil, Nat.ltb_irrefl.
  assert (Hfirst : match map (fun i => (i, nth i cw [])) idxs with (_, s) :: _ => length s | [] => 0%nat end = L).
  { destruct idxs as [|i0 rest] eqn:Ei; [simpl in Hil; lia|]. simpl.
    rewrite Forall_forall in HcwL. apply HcwL. apply nth_In. rewrite Hcwl.
    apply (Hiin i0). left; reflexivity. }
  rewrite Hfirst. destruct (Nat.eqb L 0) eqn:EL; [apply Nat.eqb_eq in EL; lia|].
  rewrite map_map. simpl.
  (* the inverse exists for this mask *)
  assert (Hinv : exists inv, invert d (map (fun i => nth i m []) idxs) = Some inv).
  { unfold check_mask in Hchk. rewrite <- Eidx in Hchk. destruct (invert d _) as [inv|]; [eauto|discriminate]. }
  destruct Hinv as (inv & Hinv). rewrite Hinv. f_equal.
  apply nth_ext with (d := []) (d' := []); [rewrite map_length, seq_length; lia|].
  intros k Hk. rewrite map_length, seq_length in Hk.
  rewrite FecProofs.map_seq_nth by assumption.
  rewrite FecProofs.restrict_nth by (unfold bytes in *; lia).
  assert (Hkd : nth k cw [] = nth k data []) by (rewrite Ecw; apply app_nth1; lia).
  destruct (nth k mask false) eqn:Emk; [exact Hkd|].
  (* a missing data shard: column by column *)
  rewrite map_map. simpl snd.
  assert (HhaveL : Forall (fun s : list Z => length s = L) (map (fun i => nth i cw []) idxs)).
  { apply Forall_forall. intros s Hs. apply in_map_iff in Hs. destruct Hs as (i & <- & Hi).
    rewrite Forall_forall in HcwL. apply HcwL. apply nth_In. rewrite Hcwl. apply (Hiin i Hi). }
  assert (HkL : length (nth k data []) = L).
  { rewrite Forall_forall in HdL. apply HdL. apply nth_In. lia. }
  apply nth_ext with (d := 0) (d' := 0); [rewrite lin_comb_length by assumption; congruence|].
  intros ci Hci. rewrite lin_comb_length in Hci by assumption.
  rewrite lin_comb_nth by assumption. rewrite map_map.
  remember (map (fun s => nth ci s 0) data) as xcol eqn:Ex.
  assert (Hxl : length xcol = d) by (rewrite Ex, map_length; assumption).
  assert (Hxb : Forall (fun b => 0 <= b < 256) xcol).
  { rewrite Ex. apply Forall_forall. intros b Hb. apply in_map_iff in Hb. destruct Hb as (s & <- & Hs).
    rewrite Forall_forall in Hdok. destruct (Hdok s Hs) as (Hsl & Hsb).
    unfold bytes_ok in Hsb. rewrite Forall_forall in Hsb. apply Hsb. apply nth_In. lia. }
  destruct (check_mask_all m d mask k xcol Hchk Hk Emk Hxl Hxb) as (inv' & Hinv' & Hdot).
  rewrite <- Eidx in Hinv', Hdot. rewrite Hinv in Hinv'. inversion Hinv'; subst inv'.
  assert (Hcols : map (fun i => nth ci (nth i cw []) 0) idxs = map (cw_col m d xcol) idxs).
  { apply map_ext_in. intros i Hi. destruct (Hiin i Hi) as (Hin & _). unfold cw_col.
    destruct (Nat.ltb i d) eqn:Eid.
    - apply Nat.ltb_lt in Eid. rewrite Ecw, app_nth1 by lia. rewrite Ex. symmetry. apply nth_map_col.
    - apply Nat.ltb_ge in Eid. rewrite Ecw, app_nth2 by lia. rewrite Hdl.
      rewrite Epar.
      rewrite (nth_map_in (fun r => lin_comb L r data) (skipn d m) (i - d) [] []) by (rewrite skipn_length; lia).
      rewrite nth_skipn'. replace (d + (i - d))%nat with i by lia.
      rewrite Ex. apply lin_comb_nth. assumption. }
  rewrite Hcols, Hdot. rewrite Ex. apply nth_map_col.
Qed.
