(* Lifting a finite computation to the `mds` premise for the executable codec Rs.v.
   The code acts on every byte column independently and linearly over GF(2) (gmul is linear in
   its data argument bit by bit).  Hence, for a given set of present shards, "reconstruct o
   restrict o encode = id" for ALL data follows from checking it on the 8*d basis vectors
   2^i e_j of one column.  `check_mds` performs that check for every arrival mask; it is run by
   vm_compute in RsMds.v. *)
From Coq Require Import ZArith List Bool Lia Arith.
From KV.Base Require Import Word.
From KV.Fec Require Import Gf256 Codec Rs AutoTune Fec FecSpec.
Import ListNotations.
Local Open Scope Z_scope.

(* ------------------------------------------------------------ xor, linearity of gmul *)

Lemma lxor_swap4 a b c d :
  Z.lxor (Z.lxor a b) (Z.lxor c d) = Z.lxor (Z.lxor a c) (Z.lxor b d).
Proof.
  apply Z.bits_inj'. intros n _. rewrite !Z.lxor_spec.
  destruct (Z.testbit a n), (Z.testbit b n), (Z.testbit c n), (Z.testbit d n); reflexivity.
Qed.

Lemma gmul_bits_lin n : forall i a x y,
  gmul_bits n i a (Z.lxor x y) = Z.lxor (gmul_bits n i a x) (gmul_bits n i a y).
Proof.
  induction n as [|n IH]; intros i a x y; simpl; [reflexivity|].
  rewrite IH, Z.lxor_spec. rewrite <- lxor_swap4. f_equal.
  destruct (Z.testbit x i), (Z.testbit y i); simpl;
    rewrite ?Z.lxor_nilpotent, ?Z.lxor_0_r, ?Z.lxor_0_l; reflexivity.
Qed.

Lemma gmul_lin a x y : gmul a (Z.lxor x y) = Z.lxor (gmul a x) (gmul a y).
Proof. apply gmul_bits_lin. Qed.

Lemma gmul_bits_0 n : forall i a, gmul_bits n i a 0 = 0.
Proof. induction n as [|n IH]; intros; simpl; [reflexivity|]. rewrite IH, Z.testbit_0_l. reflexivity. Qed.

Lemma gmul_0_r a : gmul a 0 = 0.
Proof. apply gmul_bits_0. Qed.

(* ------------------------------------------------------------ vectors *)

Fixpoint dot (c x : list Z) : Z :=
  match c, x with
  | a :: c', b :: x' => Z.lxor (gmul a b) (dot c' x')
  | _, _ => 0
  end.

Lemma vxor_length x : forall y, length x = length y -> length (vxor x y) = length x.
Proof. induction x; destruct y; simpl; intros; try discriminate; auto. Qed.

Lemma nth_vxor x : forall y i, length x = length y ->
  nth i (vxor x y) 0 = Z.lxor (nth i x 0) (nth i y 0).
Proof.
  induction x as [|a x IH]; destruct y as [|b y]; simpl; intros i H; try discriminate.
  - destruct i; reflexivity.
  - destruct i; [reflexivity|]. apply IH. lia.
Qed.

Lemma dot_lin c : forall x y, length x = length y ->
  dot c (vxor x y) = Z.lxor (dot c x) (dot c y).
Proof.
  induction c as [|a c IH]; intros x y H; [reflexivity|].
  destruct x as [|u x]; destruct y as [|v y]; simpl in H; try discriminate.
  - reflexivity.
  - simpl. rewrite gmul_lin, IH by lia. apply lxor_swap4.
Qed.

Lemma dot_zeros c : forall n, dot c (repeat 0 n) = 0.
Proof. induction c; destruct n; simpl; rewrite ?gmul_0_r, ?IHc; auto. Qed.

Lemma nth_vscale a x : forall i, nth i (vscale a x) 0 = gmul a (nth i x 0).
Proof.
  unfold vscale. induction x; destruct i; simpl; rewrite ?gmul_0_r; auto.
Qed.

Lemma vscale_length a x : length (vscale a x) = length x.
Proof. apply map_length. Qed.

Lemma nth_repeat0 n i : nth i (repeat 0 n) 0 = 0.
Proof. revert i; induction n; destruct i; simpl; auto. Qed.

Lemma lin_comb_length len c : forall xs,
  Forall (fun x : list Z => length x = len) xs -> length (lin_comb len c xs) = len.
Proof.
  induction c as [|a c IH]; intros xs H; simpl; [apply repeat_length|].
  destruct xs as [|x xs]; [apply repeat_length|].
  apply Forall_cons_iff in H as [Hx Hxs].
  rewrite vxor_length; rewrite vscale_length; [assumption|]. rewrite IH; assumption.
Qed.

Lemma lin_comb_nth len ci c : forall xs,
  Forall (fun x : list Z => length x = len) xs ->
  nth ci (lin_comb len c xs) 0 = dot c (map (fun x => nth ci x 0) xs).
Proof.
  induction c as [|a c IH]; intros xs H; simpl; [apply nth_repeat0|].
  destruct xs as [|x xs]; simpl; [apply nth_repeat0|].
  apply Forall_cons_iff in H as [Hx Hxs].
  rewrite nth_vxor by (rewrite vscale_length, lin_comb_length; assumption).
  rewrite nth_vscale, IH by assumption. reflexivity.
Qed.

(* ------------------------------------------------------------ decomposition into basis vectors *)

Definition bytes256 : list Z := map Z.of_nat (seq 0 256).

Lemma in_bytes256 b : 0 <= b < 256 -> In b bytes256.
Proof.
  intros H. unfold bytes256. apply in_map_iff. exists (Z.to_nat b). split; [lia|].
  apply in_seq. lia.
Qed.

Definition bits_of (b : Z) : Z :=
  fold_right (fun i acc => Z.lxor (if Z.testbit b (Z.of_nat i) then 2 ^ Z.of_nat i else 0) acc) 0 (seq 0 8).

Lemma bits_of_all : forallb (fun b => bits_of b =? b) bytes256 = true.
Proof. vm_compute. reflexivity. Qed.

Lemma byte_decomp (P : Z -> Prop) :
  P 0 -> (forall i, (i < 8)%nat -> P (2 ^ Z.of_nat i)) ->
  (forall u v, P u -> P v -> P (Z.lxor u v)) ->
  forall b, 0 <= b < 256 -> P b.
Proof.
  intros P0 Pb Px b Hb.
  pose proof (proj1 (forallb_forall _ _) bits_of_all b (in_bytes256 b Hb)) as E.
  apply Z.eqb_eq in E. rewrite <- E. unfold bits_of.
  assert (H : forall l, Forall (fun i => (i < 8)%nat) l ->
     P (fold_right (fun i acc => Z.lxor (if Z.testbit b (Z.of_nat i) then 2 ^ Z.of_nat i else 0) acc) 0 l)).
  { induction l as [|i l IH]; intros Hl; simpl; [assumption|].
    apply Forall_cons_iff in Hl as [Hi Hl]. apply Px; [|apply IH; assumption].
    destruct (Z.testbit b (Z.of_nat i)); [apply Pb; assumption|assumption]. }
  apply H. apply Forall_forall. intros i Hi. apply in_seq in Hi. lia.
Qed.

Definition unit_vec (d j : nat) (v : Z) : list Z := repeat 0 j ++ v :: repeat 0 (d - j - 1).
Definition basis (d : nat) : list (list Z) :=
  flat_map (fun j => map (fun i => unit_vec d j (2 ^ Z.of_nat i)) (seq 0 8)) (seq 0 d).

Lemma in_basis d j i : (j < d)%nat -> (i < 8)%nat -> In (unit_vec d j (2 ^ Z.of_nat i)) (basis d).
Proof.
  intros Hj Hi. unfold basis. apply in_flat_map. exists j. split; [apply in_seq; lia|].
  apply in_map_iff. exists i. split; [reflexivity|apply in_seq; lia].
Qed.

Lemma vxor_zeros_l x : vxor (repeat 0 (length x)) x = x.
Proof. induction x; simpl; [reflexivity|]. rewrite IHx. reflexivity. Qed.

Lemma vxor_zeros n : vxor (repeat 0 n) (repeat 0 n) = repeat 0 n.
Proof. induction n; simpl; congruence. Qed.

Lemma vec_decomp : forall d (P : list Z -> Prop),
  P (repeat 0 d) ->
  (forall j i, (j < d)%nat -> (i < 8)%nat -> P (unit_vec d j (2 ^ Z.of_nat i))) ->
  (forall u v, length u = d -> length v = d -> P u -> P v -> P (vxor u v)) ->
  forall x, length x = d -> Forall (fun b => 0 <= b < 256) x -> P x.
Proof.
  induction d as [|d IH]; intros P P0 Pb Px x Hl Hb.
  - destruct x; [exact P0|discriminate].
  - destruct x as [|b xs]; [discriminate|]. simpl in Hl.
    apply Forall_cons_iff in Hb as [Hb Hxs].
    assert (E : b :: xs = vxor (b :: repeat 0 d) (0 :: xs)).
    { simpl. rewrite Z.lxor_0_r. f_equal. replace d with (length xs) by lia. symmetry. apply vxor_zeros_l. }
    rewrite E. apply Px; [simpl; rewrite repeat_length; reflexivity|simpl; lia| |].
    + (* the head byte *)
      apply (byte_decomp (fun b => P (b :: repeat 0 d))); [exact P0| | |assumption].
      * intros i Hi. specialize (Pb 0%nat i ltac:(lia) Hi). unfold unit_vec in Pb. simpl in Pb.
        rewrite Nat.sub_0_r in Pb. exact Pb.
      * intros u v Hu Hv.
        replace (Z.lxor u v :: repeat 0 d) with (vxor (u :: repeat 0 d) (v :: repeat 0 d))
          by (simpl; rewrite vxor_zeros; reflexivity).
        apply Px; simpl; rewrite ?repeat_length; auto.
    + (* the tail *)
      apply (IH (fun v => P (0 :: v))); [exact P0| | |lia|assumption].
      * intros j i Hj Hi. specialize (Pb (S j) i ltac:(lia) Hi). unfold unit_vec in *. simpl in Pb. exact Pb.
      * intros u v Hu Hv Pu Pv.
        replace (0 :: vxor u v) with (vxor (0 :: u) (0 :: v)) by reflexivity.
        apply Px; simpl; auto.
Qed.
