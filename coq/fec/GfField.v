(* Field laws of GF(2^8) (Gf256.v: gmul / Z.lxor / ginv) on the carrier [0,256).
   Method: gmul is bilinear over GF(2) on bytes (right-linear by construction: RsProofs.gmul_lin;
   left-linear because xtime is linear on bytes), so commutativity / associativity / the unit law
   follow from the 8x8 / 8x8x8 / 8 basis cases 2^i (vm_compute, < 600 products) by byte_decomp.
   The inverse law is one sweep over the 256 bytes. *)
From Coq Require Import ZArith List Bool Lia Arith.
From KV.Fec Require Import Gf256 Rs RsProofs.
Import ListNotations.
Local Open Scope Z_scope.

Arguments gmul : simpl never.
Arguments ginv : simpl never.
Arguments xtime : simpl never.

Definition byte (a : Z) : Prop := 0 <= a < 256.

Lemma byte_0 : byte 0. Proof. unfold byte; lia. Qed.
Lemma byte_1 : byte 1. Proof. unfold byte; lia. Qed.

Lemma log2_byte a : byte a -> Z.log2 a < 8.
Proof.
  unfold byte. intros H. destruct (Z.eq_dec a 0) as [->|N]; [cbv; reflexivity|].
  apply Z.log2_lt_pow2; [lia|]. change (2 ^ 8) with 256. lia.
Qed.

Lemma lxor_byte a b : byte a -> byte b -> byte (Z.lxor a b).
Proof.
  intros Ha Hb. pose proof (log2_byte a Ha) as La. pose proof (log2_byte b Hb) as Lb.
  unfold byte in *.
  assert (N : 0 <= Z.lxor a b) by (apply Z.lxor_nonneg; lia).
  split; [exact N|].
  destruct (Z.eq_dec (Z.lxor a b) 0) as [E|E]; [lia|].
  change 256 with (2 ^ 8). apply Z.log2_lt_pow2; [lia|].
  pose proof (Z.log2_lxor a b ltac:(lia) ltac:(lia)). lia.
Qed.

Lemma lxor_eq0 a b : Z.lxor a b = 0 -> a = b.
Proof. apply Z.lxor_eq. Qed.

Lemma pow2_byte i : (i < 8)%nat -> byte (2 ^ Z.of_nat i).
Proof.
  intros H. unfold byte. split; [apply Z.pow_nonneg; lia|].
  change 256 with (2 ^ 8). apply Z.pow_lt_mono_r; lia.
Qed.

(* byte_decomp with byte-ness available in the closure step *)
Lemma byte_ind2 (P : Z -> Prop) :
  P 0 -> (forall i, (i < 8)%nat -> P (2 ^ Z.of_nat i)) ->
  (forall u v, byte u -> byte v -> P u -> P v -> P (Z.lxor u v)) ->
  forall b, byte b -> P b.
Proof.
  intros P0 Pb Px b Hb.
  assert (H : byte b /\ P b); [|tauto].
  apply (byte_decomp (fun b => byte b /\ P b)).
  - split; [apply byte_0|exact P0].
  - intros i Hi. split; [apply pow2_byte; exact Hi|apply Pb; exact Hi].
  - intros u v [Hu Pu] [Hv Pv]. split; [apply lxor_byte; assumption|apply Px; assumption].
  - exact Hb.
Qed.

(* ------------------------------------------------------------ xtime *)

Lemma xtime_byte a : byte a -> byte (xtime a).
Proof.
  intros H. unfold xtime. cbv zeta. destruct (256 <=? 2 * a) eqn:E.
  - apply Z.leb_le in E. apply lxor_byte; unfold byte in *; lia.
  - apply Z.leb_gt in E. unfold byte in *; lia.
Qed.

Lemma xtime_0 : xtime 0 = 0.
Proof. reflexivity. Qed.

(* the GF(2)-linearisation of a function on bytes *)
Definition linz (f : Z -> Z) (a : Z) : Z :=
  fold_right (fun i acc => Z.lxor (if Z.testbit a (Z.of_nat i) then f (2 ^ Z.of_nat i) else 0) acc)
             0 (seq 0 8).

Lemma linz_lin f a b : linz f (Z.lxor a b) = Z.lxor (linz f a) (linz f b).
Proof.
  unfold linz. generalize (seq 0 8) as l. induction l as [|i l IH]; cbn [fold_right]; [reflexivity|].
  rewrite IH, Z.lxor_spec. rewrite <- lxor_swap4. f_equal.
  destruct (Z.testbit a (Z.of_nat i)), (Z.testbit b (Z.of_nat i)); cbn [xorb];
    rewrite ?Z.lxor_nilpotent, ?Z.lxor_0_r, ?Z.lxor_0_l; reflexivity.
Qed.

Lemma xtime_linz_all : forallb (fun a => xtime a =? linz xtime a) bytes256 = true.
Proof. vm_compute. reflexivity. Qed.

Lemma xtime_linz a : byte a -> xtime a = linz xtime a.
Proof.
  intros H. apply Z.eqb_eq.
  exact (proj1 (forallb_forall _ _) xtime_linz_all a (in_bytes256 a H)).
Qed.

Lemma xtime_lin a b : byte a -> byte b -> xtime (Z.lxor a b) = Z.lxor (xtime a) (xtime b).
Proof.
  intros Ha Hb. rewrite (xtime_linz a Ha), (xtime_linz b Hb), (xtime_linz _ (lxor_byte a b Ha Hb)).
  apply linz_lin.
Qed.

(* ------------------------------------------------------------ gmul: closure, zero, left linearity *)

Lemma gmul_bits_byte n : forall i a x, byte a -> byte (gmul_bits n i a x).
Proof.
  induction n as [|n IH]; intros i a x Ha; cbn [gmul_bits]; [apply byte_0|].
  apply lxor_byte; [destruct (Z.testbit x i); [exact Ha|apply byte_0]|].
  apply IH. apply xtime_byte. exact Ha.
Qed.

Lemma gmul_byte a x : byte a -> byte (gmul a x).
Proof. apply gmul_bits_byte. Qed.

Lemma gmul_bits_0_l n : forall i x, gmul_bits n i 0 x = 0.
Proof.
  induction n as [|n IH]; intros i x; cbn [gmul_bits]; [reflexivity|].
  rewrite xtime_0, IH. destruct (Z.testbit x i); reflexivity.
Qed.

Lemma gmul_0_l x : gmul 0 x = 0.
Proof. apply gmul_bits_0_l. Qed.

Lemma gmul_bits_lin_l n : forall i a b x, byte a -> byte b ->
  gmul_bits n i (Z.lxor a b) x = Z.lxor (gmul_bits n i a x) (gmul_bits n i b x).
Proof.
  induction n as [|n IH]; intros i a b x Ha Hb; cbn [gmul_bits]; [reflexivity|].
  rewrite xtime_lin by assumption. rewrite IH by (apply xtime_byte; assumption).
  rewrite (lxor_swap4 (if Z.testbit x i then a else 0)). f_equal.
  destruct (Z.testbit x i); [reflexivity|rewrite Z.lxor_0_l; reflexivity].
Qed.

Lemma gmul_lin_l a b x : byte a -> byte b -> gmul (Z.lxor a b) x = Z.lxor (gmul a x) (gmul b x).
Proof. apply gmul_bits_lin_l. Qed.

(* ------------------------------------------------------------ the basis cases *)

Definition p2 (i : nat) : Z := 2 ^ Z.of_nat i.

Lemma comm_basis :
  forallb (fun i => forallb (fun j => gmul (p2 i) (p2 j) =? gmul (p2 j) (p2 i)) (seq 0 8)) (seq 0 8) = true.
Proof. vm_compute. reflexivity. Qed.

Lemma assoc_basis :
  forallb (fun i => forallb (fun j => forallb (fun k =>
     gmul (gmul (p2 i) (p2 j)) (p2 k) =? gmul (p2 i) (gmul (p2 j) (p2 k))) (seq 0 8)) (seq 0 8)) (seq 0 8) = true.
Proof. vm_compute. reflexivity. Qed.

Lemma one_basis : forallb (fun i => gmul 1 (p2 i) =? p2 i) (seq 0 8) = true.
Proof. vm_compute. reflexivity. Qed.

Lemma inv_all : forallb (fun a => (a =? 0) || (gmul (ginv a) a =? 1)) bytes256 = true.
Proof. vm_compute. reflexivity. Qed.

Lemma in_seq8 i : (i < 8)%nat -> In i (seq 0 8).
Proof. intros. apply in_seq. lia. Qed.

(* ------------------------------------------------------------ commutativity *)

Lemma gmul_comm a b : byte a -> byte b -> gmul a b = gmul b a.
Proof.
  intros Ha. revert b. pattern a. apply byte_ind2; [| | |exact Ha].
  - intros b _. rewrite gmul_0_l, gmul_0_r. reflexivity.
  - intros i Hi b Hb. pattern b. apply byte_ind2; [| | |exact Hb].
    + rewrite gmul_0_l, gmul_0_r. reflexivity.
    + intros j Hj. apply Z.eqb_eq.
      pose proof (proj1 (forallb_forall _ _) comm_basis i (in_seq8 i Hi)) as H.
      exact (proj1 (forallb_forall _ _) H j (in_seq8 j Hj)).
    + intros u v Hu Hv Pu Pv. rewrite gmul_lin, gmul_lin_l by assumption. rewrite Pu, Pv. reflexivity.
  - intros u v Hu Hv Pu Pv b Hb. rewrite gmul_lin, gmul_lin_l by assumption.
    rewrite (Pu b Hb), (Pv b Hb). reflexivity.
Qed.

(* ------------------------------------------------------------ associativity *)

Lemma gmul_assoc a b c : byte a -> byte b -> byte c -> gmul (gmul a b) c = gmul a (gmul b c).
Proof.
  intros Ha. revert b c. pattern a. apply byte_ind2; [| | |exact Ha].
  - intros b c _ _. rewrite !gmul_0_l. reflexivity.
  - intros i Hi b c Hb. revert c. pattern b. apply byte_ind2; [| | |exact Hb].
    + intros c _. rewrite gmul_0_r, !gmul_0_l, gmul_0_r. reflexivity.
    + intros j Hj c Hc. pattern c. apply byte_ind2; [| | |exact Hc].
      * rewrite !gmul_0_r. reflexivity.
      * intros k Hk. apply Z.eqb_eq.
        pose proof (proj1 (forallb_forall _ _) assoc_basis i (in_seq8 i Hi)) as H.
        pose proof (proj1 (forallb_forall _ _) H j (in_seq8 j Hj)) as H'.
        exact (proj1 (forallb_forall _ _) H' k (in_seq8 k Hk)).
      * intros u v Hu Hv Pu Pv. rewrite !gmul_lin. rewrite Pu, Pv. reflexivity.
    + intros u v Hu Hv Pu Pv c Hc.
      pose proof (pow2_byte i Hi) as Hpi.
      rewrite gmul_lin. rewrite !gmul_lin_l by (try apply gmul_byte; assumption).
      rewrite gmul_lin. rewrite (Pu c Hc), (Pv c Hc). reflexivity.
  - intros u v Hu Hv Pu Pv b c Hb Hc.
    rewrite !gmul_lin_l by (try apply gmul_byte; assumption).
    rewrite (Pu b c Hb Hc), (Pv b c Hb Hc). reflexivity.
Qed.

(* ------------------------------------------------------------ unit, inverse, no zero divisors *)

Lemma gmul_1_l a : byte a -> gmul 1 a = a.
Proof.
  intros Ha. pattern a. apply byte_ind2; [| | |exact Ha].
  - apply gmul_0_r.
  - intros i Hi. apply Z.eqb_eq. exact (proj1 (forallb_forall _ _) one_basis i (in_seq8 i Hi)).
  - intros u v _ _ Pu Pv. rewrite gmul_lin, Pu, Pv. reflexivity.
Qed.

Lemma gmul_1_r a : byte a -> gmul a 1 = a.
Proof. intros Ha. rewrite gmul_comm by (try apply byte_1; assumption). apply gmul_1_l. exact Ha. Qed.

Lemma ginv_byte a : byte a -> byte (ginv a).
Proof. intros Ha. unfold ginv. cbv zeta. repeat apply gmul_byte. exact Ha. Qed.

Lemma gmul_inv_l a : byte a -> a <> 0 -> gmul (ginv a) a = 1.
Proof.
  intros Ha Hn. pose proof (proj1 (forallb_forall _ _) inv_all a (in_bytes256 a Ha)) as H.
  cbv beta in H. apply orb_true_iff in H. destruct H as [H|H]; apply Z.eqb_eq in H; [contradiction|exact H].
Qed.

Lemma ginv_nz a : byte a -> a <> 0 -> ginv a <> 0.
Proof.
  intros Ha Hn E. pose proof (gmul_inv_l a Ha Hn) as H. rewrite E, gmul_0_l in H. discriminate.
Qed.

Lemma gmul_nz_cancel a b : byte a -> byte b -> a <> 0 -> gmul a b = 0 -> b = 0.
Proof.
  intros Ha Hb Hn E.
  rewrite <- (gmul_1_l b Hb). rewrite <- (gmul_inv_l a Ha Hn).
  rewrite gmul_assoc by (try apply ginv_byte; assumption). rewrite E. apply gmul_0_r.
Qed.

Lemma gmul_swap a b c : byte a -> byte b -> byte c -> gmul a (gmul b c) = gmul b (gmul a c).
Proof.
  intros Ha Hb Hc. rewrite <- !gmul_assoc by assumption. rewrite (gmul_comm a b) by assumption. reflexivity.
Qed.
