(* Proofs about the decoder of fec.go: stability of the configuration under well-typed input
   (C16), and reconstruction of exactly the missing data packets (C07) relative to `mds`. *)
From Coq Require Import ZArith List Bool Lia Arith.
From KV.Base Require Import Consts Word WordLemmas.
From KV.Fec Require Import Codec AutoTune Fec FecSpec.
Import ListNotations.
Local Open Scope Z_scope.

Ltac Zify.zify_post_hook ::= Z.div_mod_to_equations.

(* ------------------------------------------------------------ small list / byte facts *)

Lemma blen_app a b : blen (a ++ b) = blen a + blen b.
Proof. unfold blen. rewrite app_length. lia. Qed.

Lemma blen_nonneg a : 0 <= blen a.
Proof. unfold blen. lia. Qed.

Lemma rd32_le32' x r : 0 <= x < 4294967296 -> rd32 (le32 x ++ r) = x.
Proof. intros. apply rd32_le32. unfold W32. lia. Qed.

Lemma skipn_le32 x r : skipn 4 (le32 x ++ r) = r.
Proof. reflexivity. Qed.

Lemma skipn6_hdr x y r : skipn 6 (le32 x ++ le16 y ++ r) = r.
Proof. reflexivity. Qed.

Lemma paws_of_bounds ss : 0 < ss <= 256 -> 0 < paws_of ss <= 4294967295 /\ paws_of ss mod ss = 0 /\ 4294967295 - ss < paws_of ss.
Proof.
  intros H. unfold paws_of.
  assert (Hm : (4294967295 / ss * ss) mod ss = 0) by (apply Z.mod_mul; lia).
  pose proof (Z.div_mod 4294967295 ss ltac:(lia)).
  pose proof (Z.mod_pos_bound 4294967295 ss ltac:(lia)).
  split; [|split]; try assumption; nia.
Qed.

(* ------------------------------------------------------------ fields of a genuine packet *)

Section Genuine.
Variable C : codec.
Variables d p : Z.
Variable book : Z -> list bytes.
Hypothesis Hcfg : cfg_ok d p.
Local Notation ss := (d + p).

Lemma genuine_seqid g i pkt :
  genuine_at C d p book g i pkt -> pk_seqid pkt = g * ss + Z.of_nat i.
Proof.
  intros (Hg & Hi & Hlt & ->). unfold grp_packet, pk_seqid.
  destruct Hcfg as (Hd & Hp & Hs).
  pose proof (paws_of_bounds (d + p) ltac:(lia)) as (Hb & _).
  apply rd32_le32'. nia.
Qed.

Lemma genuine_flag g i pkt :
  genuine_at C d p book g i pkt ->
  pk_flag pkt = if Z.of_nat i <? d then c_typeData else c_typeParity.
Proof.
  intros (Hg & Hi & Hlt & ->). unfold grp_packet, pk_flag.
  rewrite skipn_le32. apply rd16_le16.
  destruct (Z.of_nat i <? d); unfold c_typeData, c_typeParity; lia.
Qed.

Lemma genuine_data g i pkt :
  genuine_at C d p book g i pkt -> pk_data pkt = grp_shard C (imgs_of book g) i.
Proof. intros (Hg & Hi & Hlt & ->). unfold grp_packet, pk_data. apply skipn6_hdr. Qed.

Lemma genuine_pos g i pkt :
  genuine_at C d p book g i pkt ->
  pk_seqid pkt mod ss = Z.of_nat i /\ pk_seqid pkt / ss = g /\ pos_of ss pkt = i.
Proof.
  intros H. pose proof (genuine_seqid _ _ _ H) as Hs. destruct H as (Hg & Hi & Hlt & _).
  destruct Hcfg as (Hd & Hp & Hsum).
  assert (Hi' : 0 <= Z.of_nat i < ss) by lia.
  assert (Hm : pk_seqid pkt mod ss = Z.of_nat i).
  { rewrite Hs. replace (g * ss + Z.of_nat i) with (Z.of_nat i + g * ss) by lia.
    rewrite Z.mod_add by lia. apply Z.mod_small; lia. }
  split; [exact Hm|]. split.
  - rewrite Hs. replace (g * ss + Z.of_nat i) with (Z.of_nat i + g * ss) by lia.
    rewrite Z.div_add by lia. rewrite Z.div_small by lia. lia.
  - unfold pos_of. rewrite Hm. lia.
Qed.

Lemma genuine_blen g i pkt :
  genuine_at C d p book g i pkt -> blen pkt = 6 + blen (grp_shard C (imgs_of book g) i).
Proof.
  intros (Hg & Hi & Hlt & ->). unfold grp_packet. rewrite !blen_app.
  change (blen (le32 _)) with 4. change (blen (le16 _)) with 2. lia.
Qed.

End Genuine.

(* ------------------------------------------------------------ C16: stability *)

Definition same_cfg (a b : fecdec) : Prop :=
  d_data b = d_data a /\ d_parity b = d_parity a /\ d_size b = d_size a /\ d_paws b = d_paws a /\
  d_should b = d_should a.

Lemma dec_store_ok mk st pkt s :
  blen pkt <= c_mtuLimit ->
  exists st' out, dec_store mk st pkt s = Ok (st', out) /\ same_cfg st st' /\ d_at st' = d_at st.
Proof.
  intros Hlen. unfold dec_store.
  destruct (set_find (s / d_size st) (d_sets st)) as [e|];
    (destruct (has_seqid s _); [eexists; eexists; split; [reflexivity|]; unfold same_cfg; simpl; tauto|]);
    (destruct (c_mtuLimit <? blen pkt) eqn:E; [apply Z.ltb_lt in E; lia|]);
    (destruct (d_data st <=? _); eexists; eexists; (split; [reflexivity|]); unfold same_cfg; simpl; tauto).
Qed.

Lemma type_ok_no_mismatch st pkt d p :
  d_data st = d -> d_size st = d + p ->
  (pk_flag pkt = c_typeData <-> pk_seqid pkt mod (d + p) < d) ->
  (pk_flag pkt = c_typeData \/ pk_flag pkt = c_typeParity) ->
  type_mismatch st (pk_seqid pkt) (pk_flag pkt) = false.
Proof.
  intros Hd Hs Hiff Hor. unfold type_mismatch. rewrite Hd, Hs.
  destruct (pk_seqid pkt mod (d + p) <? d) eqn:E.
  - apply Z.ltb_lt in E. apply Hiff in E. rewrite E. reflexivity.
  - apply Z.ltb_ge in E. destruct Hor as [Hf|Hf].
    + apply Hiff in Hf. lia.
    + rewrite Hf. reflexivity.
Qed.

Lemma decode_matching mk d p st pkt :
  d_data st = d -> d_parity st = p -> d_size st = d + p -> d_paws st = paws_of (d + p) ->
  d_should st = false -> matching_pkt d p pkt ->
  exists st' out, dec_decode mk st pkt = Ok (st', out) /\ same_cfg st st'.
Proof.
  intros Hd Hp Hs Hw Hsh ((Hlo & Hhi) & Hty). unfold dec_decode.
  destruct (blen pkt <? c_fecHeaderSize) eqn:E; [apply Z.ltb_lt in E; lia|].
  set (st1 := set_at st _).
  assert (H1 : d_data st1 = d /\ d_size st1 = d + p /\ d_paws st1 = paws_of (d + p) /\ d_should st1 = false /\ same_cfg st st1).
  { unfold st1, same_cfg; simpl. tauto. }
  destruct H1 as (H1d & H1s & H1w & H1sh & H1c).
  destruct (d_paws st1 <=? pk_seqid pkt) eqn:Ew.
  - eexists; eexists; split; [reflexivity|exact H1c].
  - apply Z.leb_gt in Ew. rewrite H1w in Ew. destruct (Hty Ew) as (Hiff & Hor).
    rewrite H1sh, (type_ok_no_mismatch st1 pkt d p H1d H1s Hiff Hor). simpl.
    destruct (dec_store_ok mk st1 pkt (pk_seqid pkt) Hhi) as (st' & out & He & Hc & _).
    exists st', out. split; [exact He|].
    unfold same_cfg in *. intuition congruence.
Qed.

Lemma run_dec_stable mk d p h : forall st,
  d_data st = d -> d_parity st = p -> d_size st = d + p -> d_paws st = paws_of (d + p) ->
  d_should st = false -> Forall (matching_pkt d p) h ->
  exists st' outs, run_dec mk st h = Ok (st', outs) /\
    d_data st' = d /\ d_parity st' = p /\ d_size st' = d + p /\ d_paws st' = paws_of (d + p) /\
    d_should st' = false /\ length outs = length h.
Proof.
  induction h as [|pkt t IH]; intros st Hd Hp Hs Hw Hsh Hall.
  - exists st, []. simpl. tauto.
  - apply Forall_cons_iff in Hall as [Hpkt Ht].
    destruct (decode_matching mk d p st pkt Hd Hp Hs Hw Hsh Hpkt) as (st1 & out & He & Hc).
    destruct Hc as (c1 & c2 & c3 & c4 & c5).
    destruct (IH st1) as (st2 & outs & He2 & R); try congruence; try assumption.
    exists st2, (out :: outs). simpl. rewrite He, He2. split; [reflexivity|].
    destruct R as (?&?&?&?&?&?). repeat split; try assumption. simpl. congruence.
Qed.

(* ------------------------------------------------------------ upd / fill_shards *)

Lemma upd_length {A} (l : list A) i x : length (upd l i x) = length l.
Proof. revert i; induction l; destruct i; simpl; auto. Qed.

Lemma upd_nth_same {A} (l : list A) i x d0 : (i < length l)%nat -> nth i (upd l i x) d0 = x.
Proof. revert i; induction l; destruct i; simpl; intros; try lia; auto. apply IHl; lia. Qed.

Lemma upd_nth_other {A} (l : list A) i k x d0 : i <> k -> nth k (upd l i x) d0 = nth k l d0.
Proof. revert i k; induction l; destruct i, k; simpl; intros; try congruence; auto. Qed.

Section Fill.
Variable pos : bytes -> nat.

Lemma fold_upd_length elems : forall arr : list (option bytes),
  length (fold_left (fun a e => upd a (pos e) (Some (pk_data e))) elems arr) = length arr.
Proof. induction elems; simpl; intros; auto. rewrite IHelems. apply upd_length. Qed.

Lemma fold_upd_nth k elems : forall arr : list (option bytes),
  NoDup (map pos elems) -> (forall e, In e elems -> (pos e < length arr)%nat) ->
  nth k (fold_left (fun a e => upd a (pos e) (Some (pk_data e))) elems arr) None =
  match find (fun e => Nat.eqb (pos e) k) elems with
  | Some e => Some (pk_data e)
  | None => nth k arr None
  end.
Proof.
  induction elems as [|e t IH]; intros arr Hnd Hlt; simpl; [reflexivity|].
  inversion Hnd as [|? ? Hnin Hnd']; subst.
  rewrite IH; [|assumption|intros; rewrite upd_length; apply Hlt; right; assumption].
  destruct (Nat.eqb (pos e) k) eqn:E.
  - apply Nat.eqb_eq in E. subst k.
    destruct (find (fun e0 => Nat.eqb (pos e0) (pos e)) t) eqn:F.
    + apply find_some in F. destruct F as [Hin Heq]. apply Nat.eqb_eq in Heq.
      exfalso. apply Hnin. rewrite <- Heq. apply in_map. assumption.
    + apply upd_nth_same. apply Hlt. left; reflexivity.
  - apply Nat.eqb_neq in E.
    destruct (find (fun e0 => Nat.eqb (pos e0) k) t); [reflexivity|].
    apply upd_nth_other. assumption.
Qed.
End Fill.

Lemma fill_shards_length ss elems : length (fill_shards ss elems) = Z.to_nat ss.
Proof. unfold fill_shards. rewrite fold_upd_length with (pos := pos_of ss). apply repeat_length. Qed.

Lemma fill_shards_nth ss elems k :
  NoDup (map (pos_of ss) elems) -> (forall e, In e elems -> (pos_of ss e < Z.to_nat ss)%nat) ->
  nth k (fill_shards ss elems) None =
  option_map pk_data (find (fun e => Nat.eqb (pos_of ss e) k) elems).
Proof.
  intros Hnd Hlt. unfold fill_shards.
  rewrite (fold_upd_nth (pos_of ss) k elems); [|assumption|intros; rewrite repeat_length; auto].
  destruct (find _ elems); simpl; [reflexivity|].
  destruct (Nat.lt_ge_cases k (Z.to_nat ss)).
  - apply nth_repeat.
  - apply nth_overflow. rewrite repeat_length. assumption.
Qed.

(* ------------------------------------------------------------ restrict / small list lemmas *)

Lemma restrict_length mask l : length (restrict mask l) = Nat.min (length mask) (length l).
Proof. unfold restrict. rewrite map_length, combine_length. reflexivity. Qed.

Lemma restrict_nth mask : forall l k, (k < length mask)%nat -> (k < length l)%nat ->
  nth k (restrict mask l) None = if nth k mask false then Some (nth k l []) else None.
Proof.
  unfold restrict. induction mask as [|b m IH]; intros l k Hm Hl; simpl in *; [lia|].
  destruct l as [|x l]; simpl in *; [lia|].
  destruct k; simpl; [reflexivity|]. apply IH; lia.
Qed.

Lemma concat_map_filter {A B} (b : A -> bool) (f : A -> B) l :
  concat (map (fun k => if b k then [f k] else []) l) = map f (filter b l).
Proof. induction l; simpl; auto. destruct (b a); simpl; congruence. Qed.

Lemma pad_to_full n (b : bytes) : (n <= length b)%nat -> pad_to n b = b.
Proof. intros. unfold pad_to. replace (n - length b)%nat with 0%nat by lia. apply app_nil_r. Qed.

Lemma pad_to_length n (b : bytes) : (length b <= n)%nat -> length (pad_to n b) = n.
Proof. intros. unfold pad_to. rewrite app_length, repeat_length. lia. Qed.

Lemma bytes_ok_app a b : bytes_ok a -> bytes_ok b -> bytes_ok (a ++ b).
Proof. unfold bytes_ok. intros. apply Forall_app; auto. Qed.

Lemma bytes_ok_repeat0 n : bytes_ok (repeat 0 n).
Proof. unfold bytes_ok. apply Forall_forall. intros x Hx. apply repeat_spec in Hx. subst. unfold is_byte; lia. Qed.

Lemma pad_to_bytes_ok n b : bytes_ok b -> bytes_ok (pad_to n b).
Proof. intros. unfold pad_to. apply bytes_ok_app; auto. apply bytes_ok_repeat0. Qed.

Lemma list_max_ge l x : In x l -> (x <= list_max l)%nat.
Proof.
  intros Hin. pose proof (proj1 (list_max_le l (list_max l)) (Nat.le_refl _)) as Hall.
  rewrite Forall_forall in Hall. apply Hall; assumption.
Qed.

(* ------------------------------------------------------------ facts about one group *)

Lemma image_length pl : length (image pl) = (2 + length pl)%nat.
Proof. unfold image. rewrite app_length. reflexivity. Qed.

Lemma image_bytes_ok pl : bytes_ok pl -> bytes_ok (image pl).
Proof. intros. unfold image. apply bytes_ok_app; auto. apply le16_bytes. Qed.

Section Group.
Variable C : codec.
Variables d p : Z.
Variable book : Z -> list bytes.
Hypothesis Hcfg : cfg_ok d p.
Hypothesis Hmds : mds C d p.
Hypothesis Hbook : book_ok d book.
Variable g : Z.
Local Notation ss := (d + p).
Local Notation imgs := (imgs_of book g).
Local Notation M := (grp_len (imgs_of book g)).
Local Notation padded := (grp_padded (imgs_of book g)).
Local Notation parity := (grp_parity C (imgs_of book g)).

Lemma imgs_length : length imgs = Z.to_nat d.
Proof. unfold imgs_of. rewrite map_length. apply Hbook. Qed.

Lemma imgs_in_ok im : In im imgs -> (2 <= length im <= M)%nat /\ (length im <= 1494)%nat /\ bytes_ok im.
Proof.
  intros Hin. unfold imgs_of in Hin. apply in_map_iff in Hin. destruct Hin as (pl & <- & Hpl).
  destruct (Hbook g) as (_ & Hall). rewrite Forall_forall in Hall. destruct (Hall _ Hpl) as (Hsz & Hok).
  rewrite image_length. split; [split; [lia|]|split].
  - rewrite <- image_length. apply list_max_ge. apply in_map. unfold imgs_of. apply in_map. assumption.
  - unfold blen, c_fecHeaderSizePlus2, c_mtuLimit in Hsz. lia.
  - apply image_bytes_ok; assumption.
Qed.

Lemma M_pos : (2 <= M)%nat.
Proof.
  destruct Hcfg as (Hd & _). pose proof imgs_length as Hl.
  destruct imgs as [|im rest] eqn:E; [simpl in Hl; lia|].
  assert (Hin : In im imgs) by (rewrite E; left; reflexivity).
  rewrite <- E. pose proof (imgs_in_ok im Hin). lia.
Qed.

Lemma M_le : (M <= 1494)%nat.
Proof.
  unfold grp_len. apply list_max_le. apply Forall_forall. intros n Hn.
  apply in_map_iff in Hn. destruct Hn as (im & <- & Hin). apply imgs_in_ok; assumption.
Qed.

Lemma padded_length : length padded = Z.to_nat d.
Proof. unfold grp_padded. rewrite map_length. apply imgs_length. Qed.

Lemma padded_ok : Forall (shard_ok M) padded.
Proof.
  unfold grp_padded. apply Forall_forall. intros s Hs. apply in_map_iff in Hs.
  destruct Hs as (im & <- & Hin). destruct (imgs_in_ok im Hin) as (Hl & _ & Hok). split.
  - apply pad_to_length. lia.
  - apply pad_to_bytes_ok; assumption.
Qed.

Lemma parity_shape : length parity = Z.to_nat p /\ Forall (fun s => length s = M) parity.
Proof.
  destruct (Hmds padded M padded_length padded_ok) as (H1 & H2 & _); [pose proof M_pos; lia|].
  split; assumption.
Qed.

Lemma group_reconstruct mask :
  length mask = Z.to_nat ss -> (Z.to_nat d <= count_true mask)%nat ->
  c_reconstruct C (restrict mask (padded ++ parity)) = Some padded.
Proof.
  destruct (Hmds padded M padded_length padded_ok) as (_ & _ & H3); [pose proof M_pos; lia|].
  apply H3.
Qed.

(* the shard at position i, padded to M, is the i-th shard of the codeword *)
Lemma shard_padded i : (i < Z.to_nat ss)%nat ->
  (length (grp_shard C imgs i) <= M)%nat /\
  pad_to M (grp_shard C imgs i) = nth i (padded ++ parity) [] /\
  ((Z.to_nat d <= i)%nat -> length (grp_shard C imgs i) = M).
Proof.
  intros Hi. unfold grp_shard. destruct parity_shape as (Hpl & Hpa).
  destruct (Nat.lt_ge_cases i (Z.to_nat d)) as [Hd|Hd].
  - rewrite !app_nth1 by (rewrite ?padded_length, ?imgs_length; assumption).
    assert (Hin : In (nth i imgs []) imgs) by (apply nth_In; rewrite imgs_length; assumption).
    destruct (imgs_in_ok _ Hin) as (Hl & _). split; [lia|]. split; [|lia].
    unfold grp_padded.
    rewrite (nth_indep (map (pad_to M) imgs) [] (pad_to M [])) by (rewrite map_length, imgs_length; assumption).
    rewrite map_nth. reflexivity.
  - rewrite !app_nth2 by (rewrite ?padded_length, ?imgs_length; assumption).
    rewrite padded_length, imgs_length.
    assert (Hin : In (nth (i - Z.to_nat d) parity []) parity).
    { apply nth_In. rewrite Hpl. destruct Hcfg as (? & ? & ?). lia. }
    rewrite Forall_forall in Hpa. pose proof (Hpa _ Hin) as Hlen.
    split; [lia|]. split; [|intros; assumption]. apply pad_to_full. lia.
Qed.

End Group.

(* ------------------------------------------------------------ the trigger: d distinct packets held *)

Lemma NoDup_map_factor {A B K} (f : A -> B) (k : A -> K) (h : K -> B) l :
  NoDup (map f l) -> (forall x, In x l -> f x = h (k x)) -> NoDup (map k l).
Proof.
  induction l as [|x t IH]; simpl; intros Hnd Hf; [constructor|].
  inversion Hnd as [|? ? Hnin Hnd']; subst. constructor.
  - intros Hin. apply in_map_iff in Hin. destruct Hin as (y & Hky & Hy).
    apply Hnin. rewrite (Hf x (or_introl eq_refl)), <- Hky, <- (Hf y (or_intror Hy)).
    apply in_map; assumption.
  - apply IH; auto.
Qed.

Lemma fold_max_spec {A} (f : A -> nat) l : forall a,
  fold_left (fun m e => Nat.max m (f e)) l a = Nat.max a (list_max (map f l)).
Proof. induction l; simpl; intros; [lia|]. rewrite IHl. lia. Qed.

Lemma max_len_spec elems : max_len elems = list_max (map (fun e => length (pk_data e)) elems).
Proof. unfold max_len. rewrite fold_max_spec. reflexivity. Qed.

Lemma map_seq_nth {A} (h : nat -> A) n k dflt : (k < n)%nat -> nth k (map h (seq 0 n)) dflt = h k.
Proof.
  intros. rewrite nth_indep with (d' := h 0%nat) by (rewrite map_length, seq_length; assumption).
  rewrite map_nth, seq_nth by assumption. reflexivity.
Qed.

Lemma count_true_map_seq (b : nat -> bool) n :
  count_true (map b (seq 0 n)) = length (filter b (seq 0 n)).
Proof.
  unfold count_true. generalize (seq 0 n). induction l; simpl; auto.
  destruct (b a); simpl; congruence.
Qed.

Lemma filter_len_le {A} (f : A -> bool) l : (length (filter f l) <= length l)%nat.
Proof. induction l; simpl; [lia|]. destruct (f a); simpl; lia. Qed.

Lemma filter_len_all {A} (f : A -> bool) l :
  length (filter f l) = length l -> forall x, In x l -> f x = true.
Proof.
  induction l as [|a l IH]; simpl; intros Hl x Hx; [contradiction|].
  pose proof (filter_len_le f l). destruct (f a) eqn:E; simpl in Hl; [|lia].
  destruct Hx as [<-|Hx]; [assumption|]. apply IH; [lia|assumption].
Qed.

Lemma filter_all_false {A} (f : A -> bool) l : (forall x, In x l -> f x = false) -> filter f l = [].
Proof.
  induction l as [|a l IH]; simpl; intros H; [reflexivity|].
  rewrite (H a (or_introl eq_refl)). apply IH. intros; apply H; right; assumption.
Qed.

Lemma filter_len_neq {A} (f : A -> bool) l :
  length (filter f l) <> length l -> exists x, In x l /\ f x = false.
Proof.
  induction l as [|a l IH]; simpl; intros Hl; [congruence|].
  destruct (f a) eqn:E; simpl in Hl.
  - destruct IH as (x & Hx & Hf); [lia|]. exists x; auto.
  - exists a; auto.
Qed.

Section Trigger.
Variable C : codec.
Variables d p : Z.
Variable book : Z -> list bytes.
Hypothesis Hcfg : cfg_ok d p.
Hypothesis Hmds : mds C d p.
Hypothesis Hbook : book_ok d book.
Variable g : Z.
Local Notation ss := (d + p).
Local Notation imgs := (imgs_of book g).
Local Notation M := (grp_len (imgs_of book g)).
Local Notation padded := (grp_padded (imgs_of book g)).
Local Notation parity := (grp_parity C (imgs_of book g)).
Local Notation gen e := (exists i, genuine_at C d p book g i e).

Variable elems : list bytes.
Hypothesis Hgen : Forall (fun e => gen e) elems.
Hypothesis Hnd : NoDup (map pk_seqid elems).

Lemma elem_pos e : In e elems ->
  genuine_at C d p book g (pos_of ss e) e /\ (pos_of ss e < Z.to_nat ss)%nat /\
  pk_seqid e = g * ss + Z.of_nat (pos_of ss e).
Proof.
  intros Hin. rewrite Forall_forall in Hgen. destruct (Hgen e Hin) as (i & Hi).
  destruct (genuine_pos C d p book Hcfg g i e Hi) as (_ & _ & Hp). rewrite Hp.
  split; [assumption|]. split; [apply Hi|]. apply (genuine_seqid C d p book Hcfg); assumption.
Qed.

Lemma pos_nodup : NoDup (map (pos_of ss) elems).
Proof.
  apply NoDup_map_factor with (f := pk_seqid) (h := fun k => g * ss + Z.of_nat k); [assumption|].
  intros e He. apply elem_pos; assumption.
Qed.

Definition mask_of : list bool :=
  map (fun k => existsb (fun e => Nat.eqb (pos_of ss e) k) elems) (seq 0 (Z.to_nat ss)).

Lemma find_pos_spec k :
  match find (fun e => Nat.eqb (pos_of ss e) k) elems with
  | Some e => In e elems /\ pos_of ss e = k /\ existsb (fun e => Nat.eqb (pos_of ss e) k) elems = true
  | None => existsb (fun e => Nat.eqb (pos_of ss e) k) elems = false
  end.
Proof.
  destruct (find _ elems) as [e|] eqn:F.
  - apply find_some in F. destruct F as [Hin Heq]. split; [assumption|]. split; [apply Nat.eqb_eq; assumption|].
    apply existsb_exists. exists e; auto.
  - destruct (existsb _ elems) eqn:E; [|reflexivity].
    apply existsb_exists in E. destruct E as (e & Hin & Heq).
    pose proof (find_none _ _ F e Hin) as Hn. simpl in Hn. congruence.
Qed.

Lemma shards_are_restricted_codeword :
  map (option_map (pad_to M)) (fill_shards ss elems) = restrict mask_of (padded ++ parity).
Proof.
  destruct (parity_shape C d p book Hcfg Hmds Hbook g) as (Hpl & _).
  assert (Hn : length (padded ++ parity) = Z.to_nat ss).
  { rewrite app_length, (padded_length d book Hbook g), Hpl. destruct Hcfg as (?&?&?). lia. }
  assert (Hml : length mask_of = Z.to_nat ss) by (unfold mask_of; rewrite map_length, seq_length; reflexivity).
  apply nth_ext with (d := None) (d' := None).
  - rewrite map_length, fill_shards_length, restrict_length, Hml, Hn. lia.
  - intros k Hk. rewrite map_length, fill_shards_length in Hk.
    change (@None bytes) with (option_map (pad_to M) None) at 1. rewrite map_nth.
    rewrite fill_shards_nth; [|apply pos_nodup|intros e He; apply elem_pos; assumption].
    rewrite restrict_nth by lia. unfold mask_of. rewrite map_seq_nth by assumption.
    pose proof (find_pos_spec k) as F. destruct (find _ elems) as [e|].
    + destruct F as (Hin & Hpk & ->). simpl.
      destruct (elem_pos e Hin) as (Hge & _ & _). rewrite Hpk in Hge.
      rewrite (genuine_data C d p book g k e Hge).
      destruct (shard_padded C d p book Hcfg Hmds Hbook g k Hk) as (_ & -> & _). reflexivity.
    + rewrite F. reflexivity.
Qed.

Lemma mask_count : (length elems <= count_true mask_of)%nat.
Proof.
  unfold mask_of. rewrite count_true_map_seq. rewrite <- (map_length (pos_of ss) elems).
  apply NoDup_incl_length; [apply pos_nodup|].
  intros k Hk. apply in_map_iff in Hk. destruct Hk as (e & <- & He).
  apply filter_In. split.
  - apply in_seq. destruct (elem_pos e He) as (_ & Hlt & _). lia.
  - apply existsb_exists. exists e. split; [assumption|apply Nat.eqb_refl].
Qed.

Lemma shard_absent k :
  nth k (fill_shards ss elems) None = None <->
  existsb (Nat.eqb k) (map (pos_of ss) elems) = false.
Proof.
  rewrite fill_shards_nth; [|apply pos_nodup|intros e He; apply elem_pos; assumption].
  pose proof (find_pos_spec k) as F. destruct (find _ elems) as [e|].
  - destruct F as (Hin & Hpk & _). simpl. split; [discriminate|].
    intros Hf. assert (Ht : existsb (Nat.eqb k) (map (pos_of ss) elems) = true).
    { apply existsb_exists. exists k. split; [rewrite <- Hpk; apply in_map; assumption|apply Nat.eqb_refl]. }
    congruence.
  - simpl. split; [|reflexivity]. intros _.
    destruct (existsb (Nat.eqb k) _) eqn:E; [|reflexivity].
    apply existsb_exists in E. destruct E as (k' & Hin & Heq). apply Nat.eqb_eq in Heq. subst k'.
    apply in_map_iff in Hin. destruct Hin as (e & Hpe & He).
    assert (Ht : existsb (fun e0 => Nat.eqb (pos_of ss e0) k) elems = true).
    { apply existsb_exists. exists e. split; [assumption|apply Nat.eqb_eq; assumption]. }
    congruence.
Qed.

Lemma is_data_iff e : In e elems -> (pk_flag e =? c_typeData) = (Z.of_nat (pos_of ss e) <? d).
Proof.
  intros He. destruct (elem_pos e He) as (Hge & _ & _).
  rewrite (genuine_flag C d p book g _ e Hge).
  destruct (Z.of_nat (pos_of ss e) <? d); reflexivity.
Qed.

(* all d held packets are data packets: nothing is missing *)
Lemma all_data_none_missing :
  Z.of_nat (length elems) = d -> num_data elems = d ->
  missing_images d imgs (map (pos_of ss) elems) = [].
Proof.
  intros Hlen Hnum. unfold missing_images.
  assert (Hall : forall e, In e elems -> (pos_of ss e < Z.to_nat d)%nat).
  { unfold num_data in Hnum. intros e He.
    assert (Hfl : (pk_flag e =? c_typeData) = true).
    { apply (filter_len_all (fun e => pk_flag e =? c_typeData) elems); [lia|assumption]. }
    rewrite (is_data_iff e He) in Hfl. apply Z.ltb_lt in Hfl. lia. }
  assert (Hincl : incl (seq 0 (Z.to_nat d)) (map (pos_of ss) elems)).
  { apply NoDup_length_incl; [apply pos_nodup|rewrite map_length, seq_length; lia|].
    intros k Hk. apply in_map_iff in Hk. destruct Hk as (e & <- & He). apply in_seq.
    pose proof (Hall e He). lia. }
  rewrite filter_all_false; [reflexivity|].
  intros k Hk. apply negb_false_iff. apply existsb_exists. exists k.
  split; [apply Hincl; assumption|apply Nat.eqb_refl].
Qed.

Lemma parity_present_max_len e :
  In e elems -> (pk_flag e =? c_typeData) = false -> max_len elems = M.
Proof.
  intros He Hfl. rewrite max_len_spec. apply Nat.le_antisymm.
  - apply list_max_le. apply Forall_forall. intros n Hn. apply in_map_iff in Hn.
    destruct Hn as (e' & <- & He'). destruct (elem_pos e' He') as (Hge & Hlt & _).
    rewrite (genuine_data C d p book g _ e' Hge).
    apply (shard_padded C d p book Hcfg Hmds Hbook g _ Hlt).
  - destruct (elem_pos e He) as (Hge & Hlt & _).
    rewrite (is_data_iff e He) in Hfl. apply Z.ltb_ge in Hfl.
    destruct (shard_padded C d p book Hcfg Hmds Hbook g _ Hlt) as (_ & _ & Heq).
    rewrite <- Heq by lia. rewrite <- (genuine_data C d p book g _ e Hge).
    apply list_max_ge. apply in_map_iff. exists e; auto.
Qed.

Lemma recover_output :
  Z.of_nat (length elems) = d -> num_data elems <> d ->
  recover C d (fill_shards ss elems) (max_len elems) = missing_images d imgs (map (pos_of ss) elems).
Proof.
  intros Hlen Hnum.
  destruct (filter_len_neq (fun e => pk_flag e =? c_typeData) elems) as (e & He & Hfl).
  { unfold num_data in Hnum. lia. }
  rewrite (parity_present_max_len e He Hfl). unfold recover.
  rewrite shards_are_restricted_codeword.
  rewrite (group_reconstruct C d p book Hcfg Hmds Hbook g).
  2:{ unfold mask_of. rewrite map_length, seq_length. reflexivity. }
  2:{ pose proof mask_count. lia. }
  unfold missing_images. rewrite <- concat_map_filter. f_equal. apply map_ext_in.
  intros k Hk. apply in_seq in Hk.
  assert (Hpad : nth k padded [] = pad_to M (nth k imgs [])).
  { unfold grp_padded.
    rewrite (nth_indep (map (pad_to M) imgs) [] (pad_to M [])) by (rewrite map_length, (imgs_length d book Hbook g); lia).
    rewrite map_nth. reflexivity. }
  pose proof (shard_absent k) as Habs.
  destruct (nth k (fill_shards ss elems) None) as [x|].
  - destruct (existsb (Nat.eqb k) (map (pos_of ss) elems)) eqn:E; [reflexivity|].
    destruct Habs as [_ Hb]. specialize (Hb eq_refl). discriminate.
  - destruct Habs as [Ha _]. rewrite (Ha eq_refl). simpl. rewrite Hpad. reflexivity.
Qed.

(* every element of the output is the zero padded image of a data packet of the group *)
Lemma missing_images_original present r :
  In r (missing_images d imgs present) ->
  exists k, (k < Z.to_nat d)%nat /\ r = pad_to M (nth k imgs []).
Proof.
  unfold missing_images. intros Hin. apply in_map_iff in Hin. destruct Hin as (k & <- & Hk).
  apply filter_In in Hk. destruct Hk as (Hk & _). apply in_seq in Hk. exists k. split; [lia|reflexivity].
Qed.

End Trigger.

(* ------------------------------------------------------------ the group table *)

Lemma set_find_in id sets e : set_find id sets = Some e -> In (id, e) sets.
Proof.
  induction sets as [|[i e0] t IH]; simpl; [discriminate|].
  destruct (i =? id) eqn:E; intros H.
  - apply Z.eqb_eq in E. inversion H; subst. left; reflexivity.
  - right; auto.
Qed.

Lemma set_put_forall (P : Z * list bytes -> Prop) id e sets :
  Forall P sets -> P (id, e) -> Forall P (set_put id e sets).
Proof.
  induction sets as [|[i e0] t IH]; simpl; intros Hall Hp; [constructor; auto|].
  inversion Hall; subst. destruct (i =? id) eqn:E.
  - apply Z.eqb_eq in E. subst. constructor; auto.
  - constructor; auto.
Qed.

Lemma set_put_keys id e sets k :
  In k (map fst (set_put id e sets)) <-> k = id \/ In k (map fst sets).
Proof.
  induction sets as [|[i e0] t IH]; simpl; [intuition congruence|].
  destruct (i =? id) eqn:E; simpl.
  - apply Z.eqb_eq in E. subst. intuition congruence.
  - rewrite IH. intuition congruence.
Qed.

Lemma set_put_nodup id e sets : NoDup (map fst sets) -> NoDup (map fst (set_put id e sets)).
Proof.
  induction sets as [|[i e0] t IH]; simpl; intros Hnd.
  - constructor; [intros []|constructor].
  - inversion Hnd as [|? ? Hnin Hnd']; subst. destruct (i =? id) eqn:E; simpl.
    + constructor; assumption.
    + constructor; [|auto]. rewrite set_put_keys. intros [->|H]; [rewrite Z.eqb_refl in E; discriminate|auto].
Qed.

Lemma set_find_put_same id e sets : set_find id (set_put id e sets) = Some e.
Proof.
  induction sets as [|[i e0] t IH]; simpl; [rewrite Z.eqb_refl; reflexivity|].
  destruct (i =? id) eqn:E; simpl; rewrite E; auto.
Qed.

Lemma set_find_put_other id id' e sets : id' <> id -> set_find id' (set_put id e sets) = set_find id' sets.
Proof.
  intros Hne. induction sets as [|[i e0] t IH]; simpl.
  - destruct (id =? id') eqn:E; [apply Z.eqb_eq in E; congruence|reflexivity].
  - destruct (i =? id) eqn:E; simpl.
    + apply Z.eqb_eq in E. subst. destruct (id =? id') eqn:E2; [apply Z.eqb_eq in E2; congruence|reflexivity].
    + destruct (i =? id'); auto.
Qed.

Lemma has_seqid_false s elems : has_seqid s elems = false <-> ~ In s (map pk_seqid elems).
Proof.
  unfold has_seqid. split.
  - intros H Hin. apply in_map_iff in Hin. destruct Hin as (e & <- & He).
    assert (Ht : existsb (fun e0 => pk_seqid e0 =? pk_seqid e) elems = true).
    { apply existsb_exists. exists e. split; [assumption|apply Z.eqb_refl]. }
    congruence.
  - intros H. destruct (existsb _ elems) eqn:E; [|reflexivity].
    apply existsb_exists in E. destruct E as (e & He & Heq). apply Z.eqb_eq in Heq.
    exfalso. apply H. rewrite <- Heq. apply in_map; assumption.
Qed.

Lemma discard_forall (P : Z * list bytes -> Prop) ss n sets : Forall P sets -> Forall P (discard ss n sets).
Proof.
  unfold discard. intros H. apply Forall_forall. intros x Hx. apply filter_In in Hx.
  rewrite Forall_forall in H. apply H. apply Hx.
Qed.

Lemma NoDup_map_filter {A B} (f : A -> B) (b : A -> bool) l : NoDup (map f l) -> NoDup (map f (filter b l)).
Proof.
  induction l as [|a l IH]; simpl; intros H; [constructor|].
  inversion H as [|? ? Hnin Hnd]; subst. destruct (b a); simpl; [|auto].
  constructor; [|auto]. intros Hin. apply Hnin. apply in_map_iff in Hin. destruct Hin as (x & Hx & Hf).
  apply filter_In in Hf. rewrite <- Hx. apply in_map. apply Hf.
Qed.

(* ------------------------------------------------------------ one genuine packet into the decoder *)

Section Decode.
Variable mk : Z -> Z -> codec.
Variables d p : Z.
Variable book : Z -> list bytes.
Hypothesis Hcfg : cfg_ok d p.
Hypothesis Hmds : mds (mk d p) d p.
Hypothesis Hbook : book_ok d book.
Local Notation ss := (d + p).
Local Notation C := (mk d p).
Local Notation inv := (dec_inv (mk d p) d p book).

(* what decode returns for a genuine packet of group g given the packets held for g *)
Definition expected_out (st : fecdec) (g : Z) (pkt : bytes) : list bytes :=
  if has_seqid (pk_seqid pkt) (held st g) then []
  else if d <=? Z.of_nat (length (pkt :: held st g))
       then missing_images d (imgs_of book g) (map (pos_of ss) (pkt :: held st g))
       else [].

Lemma held_inv st g : inv st -> set_inv C d p book (g, held st g).
Proof.
  intros (_ & _ & _ & _ & _ & _ & Hall). unfold held.
  destruct (set_find g (d_sets st)) as [e|] eqn:F.
  - apply set_find_in in F. rewrite Forall_forall in Hall. apply (Hall _ F).
  - simpl. destruct Hcfg as (? & _). repeat split; [constructor|constructor|simpl; lia].
Qed.

Lemma dec_store_genuine st g i pkt :
  inv st -> genuine_at C d p book g i pkt ->
  exists st', dec_store mk st pkt (pk_seqid pkt) = Ok (st', expected_out st g pkt) /\ inv st' /\ d_at st' = d_at st.
Proof.
  intros Hinv Hgen. pose proof (held_inv st g Hinv) as (Hnd & Hgens & Hlen).
  destruct Hinv as (Hd & Hp & Hs & Hw & Hsh & Hkeys & Hall).
  destruct (genuine_pos C d p book Hcfg g i pkt Hgen) as (Hmod & Hdiv & Hpos).
  unfold dec_store, expected_out. rewrite Hs, Hdiv, Hd, Hp.
  assert (Hsets0 : exists sets0,
    (match set_find g (d_sets st) with Some e => (e, d_sets st) | None => ([], set_put g [] (d_sets st)) end)
      = (held st g, sets0) /\ NoDup (map fst sets0) /\ Forall (set_inv C d p book) sets0).
  { unfold held. destruct (set_find g (d_sets st)) as [e|].
    - exists (d_sets st). auto.
    - exists (set_put g [] (d_sets st)). split; [reflexivity|]. split; [apply set_put_nodup; assumption|].
      apply set_put_forall; [assumption|]. simpl. destruct Hcfg as (? & _). repeat split; [constructor|constructor|simpl; lia]. }
  destruct Hsets0 as (sets0 & -> & Hk0 & Hall0).
  destruct (has_seqid (pk_seqid pkt) (held st g)) eqn:Hdup.
  - eexists. split; [reflexivity|]. split; [|reflexivity].
    unfold dec_inv; simpl. tauto.
  - (* a new packet of the group *)
    assert (Hblen : blen pkt <= c_mtuLimit).
    { rewrite (genuine_blen C d p book g i pkt Hgen).
      destruct Hgen as (_ & Hi & _).
      destruct (shard_padded C d p book Hcfg Hmds Hbook g i Hi) as (Hle & _).
      pose proof (M_le d book Hbook g). unfold blen, c_mtuLimit. lia. }
    destruct (c_mtuLimit <? blen pkt) eqn:E; [apply Z.ltb_lt in E; lia|].
    apply has_seqid_false in Hdup.
    assert (Hnd1 : NoDup (map pk_seqid (pkt :: held st g))) by (simpl; constructor; assumption).
    assert (Hgen1 : Forall (fun e => exists i, genuine_at C d p book g i e) (pkt :: held st g)).
    { constructor; [exists i; assumption|assumption]. }
    destruct (d <=? Z.of_nat (length (pkt :: held st g))) eqn:Etr.
    + (* trigger *)
      apply Z.leb_le in Etr.
      assert (Hlen1 : Z.of_nat (length (pkt :: held st g)) = d) by (simpl length in *; lia).
      eexists. split.
      * f_equal. f_equal.
        destruct (num_data (pkt :: held st g) =? d) eqn:En.
        -- apply Z.eqb_eq in En. symmetry.
           apply (all_data_none_missing C d p book Hcfg g _ Hgen1 Hnd1 Hlen1 En).
        -- apply Z.eqb_neq in En.
           apply (recover_output C d p book Hcfg Hmds Hbook g _ Hgen1 Hnd1 Hlen1 En).
      * split; [|reflexivity]. unfold dec_inv; simpl. repeat (split; [assumption|]). split.
        -- unfold discard. apply NoDup_map_filter. apply set_put_nodup. assumption.
        -- apply discard_forall. apply set_put_forall; [assumption|].
           simpl. destruct Hcfg as (? & _). repeat split; [constructor|constructor|simpl; lia].
    + apply Z.leb_gt in Etr.
      eexists. split; [reflexivity|]. split; [|reflexivity].
      unfold dec_inv; simpl. repeat (split; [assumption|]). split.
      * unfold discard. apply NoDup_map_filter. apply set_put_nodup. assumption.
      * apply discard_forall. apply set_put_forall; [assumption|].
        simpl. repeat split; assumption.
Qed.

End Decode.

(* ------------------------------------------------------------ decode on genuine packets *)

Lemma strip_padded_image pl n :
  payload_ok pl -> (length (image pl) <= n)%nat ->
  strip_rec (pad_to n (image pl)) = [(pl, c_IKCP_PACKET_FEC)].
Proof.
  intros (Hsz & Hok) Hn. unfold strip_rec.
  assert (Hlen : blen (pad_to n (image pl)) = Z.of_nat n) by (unfold blen; rewrite pad_to_length; auto).
  rewrite image_length in Hn. unfold blen, c_fecHeaderSizePlus2, c_mtuLimit in Hsz.
  rewrite Hlen.
  assert (Hrd : rd16 (pad_to n (image pl)) = blen pl + 2).
  { unfold pad_to, image. rewrite <- app_assoc. apply rd16_le16. unfold blen. lia. }
  rewrite Hrd. unfold blen.
  destruct (2 <=? Z.of_nat n) eqn:E1; [|apply Z.leb_gt in E1; lia].
  destruct (Z.of_nat (length pl) + 2 <=? Z.of_nat n) eqn:E2; [|apply Z.leb_gt in E2; lia].
  destruct (2 <=? Z.of_nat (length pl) + 2) eqn:E3; [|apply Z.leb_gt in E3; lia].
  simpl andb. cbv iota. f_equal. f_equal.
  replace (Z.to_nat (Z.of_nat (length pl) + 2 - 2)) with (length pl) by lia.
  unfold pad_to, image. rewrite <- app_assoc. change (skipn 2 (le16 _ ++ ?x)) with x.
  rewrite firstn_app, Nat.sub_diag, firstn_all. simpl. apply app_nil_r.
Qed.

Section DecodeGenuine.
Variable mk : Z -> Z -> codec.
Variables d p : Z.
Variable book : Z -> list bytes.
Hypothesis Hcfg : cfg_ok d p.
Hypothesis Hmds : mds (mk d p) d p.
Hypothesis Hbook : book_ok d book.
Local Notation ss := (d + p).
Local Notation C := (mk d p).
Local Notation inv := (dec_inv (mk d p) d p book).

Lemma dec_new_inv : exists st0, dec_new d p = Some st0 /\ inv st0 /\ d_sets st0 = [].
Proof.
  destruct Hcfg as (Hd & Hp & Hs). unfold dec_new.
  destruct ((d <=? 0) || (p <=? 0)) eqn:E1.
  { apply orb_true_iff in E1. destruct E1 as [E|E]; apply Z.leb_le in E; lia. }
  destruct (256 <? d + p) eqn:E2; [apply Z.ltb_lt in E2; lia|].
  eexists. split; [reflexivity|]. split; [|reflexivity].
  unfold dec_inv; simpl. repeat split; constructor.
Qed.

Lemma genuine_matching g i pkt : genuine_at C d p book g i pkt -> matching_pkt d p pkt.
Proof.
  intros Hgen. pose proof (genuine_blen C d p book g i pkt Hgen) as Hb.
  pose proof (genuine_flag C d p book g i pkt Hgen) as Hf.
  destruct (genuine_pos C d p book Hcfg g i pkt Hgen) as (Hmod & _ & _).
  destruct Hgen as (_ & Hi & _ & _).
  destruct (shard_padded C d p book Hcfg Hmds Hbook g i Hi) as (Hle & _).
  pose proof (M_le d book Hbook g) as HM.
  split.
  - unfold c_fecHeaderSize, c_mtuLimit. unfold blen in *. lia.
  - intros _. rewrite Hmod, Hf. destruct (Z.of_nat i <? d) eqn:E.
    + apply Z.ltb_lt in E. split; [tauto|left; reflexivity].
    + apply Z.ltb_ge in E. split; [|right; reflexivity].
      unfold c_typeParity, c_typeData. split; [discriminate|lia].
Qed.

Lemma decode_genuine_eq st g i pkt :
  inv st -> genuine_at C d p book g i pkt ->
  let st1 := set_at st (at_sample (d_at st) (pk_flag pkt =? c_typeData) (pk_seqid pkt)) in
  dec_decode mk st pkt = dec_store mk st1 pkt (pk_seqid pkt) /\ inv st1 /\
  d_sets st1 = d_sets st /\ d_newest st1 = d_newest st.
Proof.
  intros Hinv Hgen st1. destruct (genuine_matching g i pkt Hgen) as ((Hlo & Hhi) & Hty).
  pose proof Hinv as (Hd & Hp & Hs & Hw & Hsh & Hkeys & Hall).
  assert (Hinv1 : inv st1) by (unfold st1, dec_inv; simpl; tauto).
  split; [|split; [assumption|split; reflexivity]].
  unfold dec_decode.
  destruct (blen pkt <? c_fecHeaderSize) eqn:E; [apply Z.ltb_lt in E; lia|].
  fold st1.
  assert (Hlt : pk_seqid pkt < paws_of ss).
  { rewrite (genuine_seqid (mk d p) d p book Hcfg g i pkt Hgen). apply Hgen. }
  replace (d_paws st1) with (paws_of ss) by (unfold st1; simpl; congruence).
  destruct (paws_of ss <=? pk_seqid pkt) eqn:Ew; [apply Z.leb_le in Ew; lia|].
  destruct (Hty Hlt) as (Hiff & Hor).
  replace (d_should st1) with false by (unfold st1; simpl; congruence).
  rewrite (type_ok_no_mismatch st1 pkt d p) by (unfold st1; simpl; assumption). reflexivity.
Qed.

Lemma decode_genuine st g i pkt :
  inv st -> genuine_at C d p book g i pkt ->
  exists st', dec_decode mk st pkt = Ok (st', expected_out d p book st g pkt) /\ inv st'.
Proof.
  intros Hinv Hgen. destruct (decode_genuine_eq st g i pkt Hinv Hgen) as (He0 & Hinv1 & _ & _).
  destruct (dec_store_genuine mk d p book Hcfg Hmds Hbook _ g i pkt Hinv1 Hgen) as (st' & He & Hi' & _).
  exists st'. split; [|assumption]. rewrite He0, He. reflexivity.
Qed.

(* the decoder's output on a genuine packet consists of originals of that packet's group *)
Definition original_of (g : Z) (r : bytes) : Prop :=
  exists k, (k < Z.to_nat d)%nat /\
    r = pad_to (grp_len (imgs_of book g)) (image (nth k (book g) [])) /\
    strip_rec r = [(nth k (book g) [], c_IKCP_PACKET_FEC)].

Lemma strip_padded_nth g k : (k < Z.to_nat d)%nat ->
  nth k (imgs_of book g) [] = image (nth k (book g) []) /\
  strip_rec (pad_to (grp_len (imgs_of book g)) (nth k (imgs_of book g) [])) = [(nth k (book g) [], c_IKCP_PACKET_FEC)].
Proof.
  intros Hk.
  assert (Hnth : nth k (imgs_of book g) [] = image (nth k (book g) [])).
  { unfold imgs_of. rewrite (nth_indep (map image (book g)) [] (image [])) by (rewrite map_length; destruct (Hbook g) as (-> & _); assumption).
    apply map_nth. }
  split; [assumption|]. rewrite Hnth.
  apply strip_padded_image.
  - destruct (Hbook g) as (Hl & Hall). rewrite Forall_forall in Hall. apply Hall. apply nth_In. lia.
  - rewrite <- Hnth. apply (imgs_in_ok d book Hbook g). apply nth_In. rewrite (imgs_length d book Hbook g). assumption.
Qed.

Lemma expected_out_original st g pkt r : In r (expected_out d p book st g pkt) -> original_of g r.
Proof.
  unfold expected_out. destruct (has_seqid _ _); [intros []|].
  destruct (d <=? _); [|intros []]. intros Hin.
  apply (missing_images_original d book g) in Hin. destruct Hin as (k & Hk & ->).
  exists k. split; [assumption|]. destruct (strip_padded_nth g k Hk) as (Hn & Hs).
  split; [rewrite Hn; reflexivity|assumption].
Qed.

Lemma run_dec_only_originals h : forall st,
  inv st -> Forall (genuine C d p book) h ->
  exists st' outs, run_dec mk st h = Ok (st', outs) /\ inv st' /\
    Forall2 (fun pkt out => forall r, In r out ->
               exists g i, genuine_at C d p book g i pkt /\ original_of g r) h outs.
Proof.
  induction h as [|pkt t IH]; intros st Hinv Hall.
  - exists st, []. simpl. auto.
  - apply Forall_cons_iff in Hall as [(g & i & Hgen) Ht].
    destruct (decode_genuine st g i pkt Hinv Hgen) as (st1 & He & Hinv1).
    destruct (IH st1 Hinv1 Ht) as (st2 & outs & He2 & Hinv2 & Hf).
    exists st2, (expected_out d p book st g pkt :: outs). simpl. rewrite He, He2.
    split; [reflexivity|]. split; [assumption|]. constructor; [|assumption].
    intros r Hr. exists g, i. split; [assumption|]. apply (expected_out_original st g pkt r Hr).
Qed.

(* recover: the d-th distinct packet of a group triggers the reconstruction of exactly the
   data packets not held *)
Lemma decode_recover st g i pkt :
  inv st -> genuine_at C d p book g i pkt ->
  ~ In (pk_seqid pkt) (map pk_seqid (held st g)) ->
  Z.of_nat (length (held st g)) + 1 = d ->
  exists st', dec_decode mk st pkt =
      Ok (st', missing_images d (imgs_of book g) (map (pos_of ss) (pkt :: held st g))) /\ inv st' /\
    concat (map strip_rec (missing_images d (imgs_of book g) (map (pos_of ss) (pkt :: held st g)))) =
    map (fun k => (nth k (book g) [], c_IKCP_PACKET_FEC))
        (filter (fun k => negb (existsb (Nat.eqb k) (map (pos_of ss) (pkt :: held st g)))) (seq 0 (Z.to_nat d))).
Proof.
  intros Hinv Hgen Hnew Hlen.
  destruct (decode_genuine st g i pkt Hinv Hgen) as (st' & He & Hinv').
  exists st'. unfold expected_out in He.
  apply has_seqid_false in Hnew. rewrite Hnew in He.
  destruct (d <=? Z.of_nat (length (pkt :: held st g))) eqn:E; [|apply Z.leb_gt in E; simpl length in E; lia].
  split; [exact He|]. split; [assumption|].
  unfold missing_images. rewrite map_map.
  assert (Hks : Forall (fun k => (k < Z.to_nat d)%nat)
            (filter (fun k => negb (existsb (Nat.eqb k) (map (pos_of ss) (pkt :: held st g)))) (seq 0 (Z.to_nat d)))).
  { apply Forall_forall. intros k Hk. apply filter_In in Hk. destruct Hk as (Hk & _). apply in_seq in Hk. lia. }
  revert Hks.
  generalize (filter (fun k => negb (existsb (Nat.eqb k) (map (pos_of ss) (pkt :: held st g)))) (seq 0 (Z.to_nat d))) as ks.
  induction ks as [|k ks IH]; intros Hf; [reflexivity|]. apply Forall_cons_iff in Hf as [Hk Hf]. simpl.
  rewrite IH by assumption. destruct (strip_padded_nth g k Hk) as (_ & ->). reflexivity.
Qed.

(* retention: which groups survive the packet, and what they hold afterwards *)
Definition next_newest (st : fecdec) (g : Z) : Z :=
  let n0 := match d_sets st with [] => g | _ => d_newest st end in
  if itimediff (u32 (g * ss)) (u32 (n0 * ss)) >? 0 then g else n0.

Lemma set_find_discard id n sets :
  set_find id (discard ss n sets) = if too_old ss n id then None else set_find id sets.
Proof.
  unfold discard. induction sets as [|[i e] t IH]; simpl; [destruct (too_old ss n id); reflexivity|].
  destruct (too_old ss n i) eqn:Ei; simpl.
  - destruct (i =? id) eqn:E; [apply Z.eqb_eq in E; subst; rewrite Ei in *; assumption|assumption].
  - destruct (i =? id) eqn:E; [apply Z.eqb_eq in E; subst; rewrite Ei; reflexivity|assumption].
Qed.

Lemma decode_accumulate st g i pkt :
  inv st -> genuine_at C d p book g i pkt ->
  ~ In (pk_seqid pkt) (map pk_seqid (held st g)) ->
  Z.of_nat (length (held st g)) + 1 < d ->
  exists st', dec_decode mk st pkt = Ok (st', []) /\ inv st' /\
    d_newest st' = next_newest st g /\
    forall g', held st' g' =
      if too_old ss (next_newest st g) g' then []
      else if g' =? g then pkt :: held st g else held st g'.
Proof.
  intros Hinv Hgen Hnew Hlen.
  destruct (decode_genuine st g i pkt Hinv Hgen) as (st'' & He'' & Hinv'').
  destruct (decode_genuine_eq st g i pkt Hinv Hgen) as (He0 & Hinv1 & Hsets1 & Hnw1).
  set (st1 := set_at st _) in *.
  assert (Hheld1 : forall x, held st1 x = held st x) by (intros; unfold held; rewrite Hsets1; reflexivity).
  pose proof Hinv1 as (Hd & Hp & Hs & Hw & Hsh & Hkeys & Hall).
  destruct (genuine_pos C d p book Hcfg g i pkt Hgen) as (Hmod & Hdiv & Hpos).
  destruct (genuine_matching g i pkt Hgen) as ((Hlo & Hhi) & _).
  apply has_seqid_false in Hnew.
  rewrite He0 in *. unfold dec_store in *. rewrite Hs, Hdiv, Hd, Hp in *.
  assert (Hsets0 : exists sets0,
    (match set_find g (d_sets st1) with Some e => (e, d_sets st1) | None => ([], set_put g [] (d_sets st1)) end)
      = (held st g, sets0) /\ forall g', g' <> g -> set_find g' sets0 = set_find g' (d_sets st)).
  { rewrite <- Hheld1. unfold held. rewrite Hsets1. destruct (set_find g (d_sets st)) as [e|].
    - exists (d_sets st). auto.
    - exists (set_put g [] (d_sets st)). split; [reflexivity|].
      intros. apply set_find_put_other; assumption. }
  destruct Hsets0 as (sets0 & Hm & Hother). rewrite Hm in *.
  rewrite Hnew in *.
  destruct (c_mtuLimit <? blen pkt) eqn:E; [apply Z.ltb_lt in E; lia|].
  destruct (d <=? Z.of_nat (length (pkt :: held st g))) eqn:Etr; [apply Z.leb_le in Etr; simpl length in Etr; lia|].
  eexists. split; [reflexivity|]. split.
  { inversion He''; subst. assumption. }
  assert (Hnn : (if itimediff (u32 (g * ss)) (u32 (match d_sets st1 with [] => g | _ :: _ => d_newest st1 end * ss)) >? 0
                 then g else match d_sets st1 with [] => g | _ :: _ => d_newest st1 end) = next_newest st g).
  { unfold next_newest. rewrite Hsets1, Hnw1. reflexivity. }
  rewrite Hnn. split; [reflexivity|].
  intros g'. unfold held at 1. simpl d_sets. rewrite set_find_discard.
  destruct (too_old ss (next_newest st g) g'); [reflexivity|].
  destruct (g' =? g) eqn:Eg.
  - apply Z.eqb_eq in Eg. subst g'. rewrite set_find_put_same. reflexivity.
  - apply Z.eqb_neq in Eg. rewrite set_find_put_other by assumption. rewrite Hother by assumption. reflexivity.
Qed.

End DecodeGenuine.
