(* The abstract erasure codec the FEC framing of fec.go is parameterised by
   (github.com/klauspost/reedsolomon in the Go code; Rs.v for the executable instance).
   encode      : the dataShards equal-length data shards  |->  the parityShards parity shards
   reconstruct : the dataShards+parityShards slots (None = missing)  |->  all data shards
                 (None = ReconstructData returned an error).  No proofs in this file. *)
From Coq Require Import ZArith List.
Import ListNotations.

Definition bytes := list Z.
Definition blen (b : bytes) : Z := Z.of_nat (length b).

Record codec := mkCodec {
  c_encode : list bytes -> list bytes;
  c_reconstruct : list (option bytes) -> option (list bytes)
}.
