(* `mds` for the executable codec, PROVED BY COMPUTATION: for every (d, p) with d + p <= 8 and for
   10/3, every arrival mask with >= d shards present is checked (check_mds: the sub-matrix of the
   first d present rows is invertible and maps the present shards back to the data on all 8d
   basis columns), and check_mds_sound lifts the check to all data of all lengths.
   Heavy vm_compute sweeps live in this file only. *)
From Coq Require Import ZArith List Bool Lia Arith.
From KV.Fec Require Import Gf256 Codec Rs AutoTune Fec FecSpec RsProofs.
Import ListNotations.
Local Open Scope Z_scope.

Definition small_pairs (B : nat) : list (nat * nat) :=
  flat_map (fun d => map (fun p => (d, p)) (seq 1 (B - d))) (seq 1 (B - 1)).

Lemma in_small_pairs B d p : (1 <= d)%nat -> (1 <= p)%nat -> (d + p <= B)%nat -> In (d, p) (small_pairs B).
Proof.
  intros. unfold small_pairs. apply in_flat_map. exists d. split; [apply in_seq; lia|].
  apply in_map_iff. exists p. split; [reflexivity|apply in_seq; lia].
Qed.

Lemma rs_check_le8 : forallb (fun dp => check_mds (fst dp) (snd dp)) (small_pairs 8) = true.
Proof. vm_cast_no_check (eq_refl true). Qed.

Lemma rs_check_10_3 : check_mds 10 3 = true.
Proof. vm_cast_no_check (eq_refl true). Qed.

Theorem rs_mds_le8 : forall d p : Z, 0 < d -> 0 < p -> d + p <= 8 -> mds (rs_codec d p) d p.
Proof.
  intros d p Hd Hp Hs.
  pose proof (proj1 (forallb_forall _ _) rs_check_le8 (Z.to_nat d, Z.to_nat p)
                (in_small_pairs 8 (Z.to_nat d) (Z.to_nat p) ltac:(lia) ltac:(lia) ltac:(lia))) as Hc. simpl in Hc.
  pose proof (check_mds_sound (Z.to_nat d) (Z.to_nat p) ltac:(lia) Hc) as H.
  rewrite !Z2Nat.id in H by lia. exact H.
Qed.

Theorem rs_mds_10_3 : mds (rs_codec 10 3) 10 3.
Proof. exact (check_mds_sound 10 3 ltac:(lia) rs_check_10_3). Qed.

(* parity row i of the d/p code depends on d and i only, not on p (why "10/3 vs 10/1" is benign):
   checked for every d <= 6 with p1 <= p2 <= 4, and for 10/1 vs 10/3 *)
Definition rows_prefix (d p1 p2 : nat) : bool :=
  match rs_matrix d p1, rs_matrix d p2 with
  | Some m1, Some m2 =>
      if list_eq_dec (list_eq_dec Z.eq_dec) (skipn d m1) (firstn p1 (skipn d m2)) then true else false
  | _, _ => false
  end.

Lemma rs_parity_row_indep_small :
  forallb (fun d => forallb (fun p2 => forallb (fun p1 => rows_prefix d p1 p2) (seq 1 p2)) (seq 1 4)) (seq 1 6) = true.
Proof. vm_cast_no_check (eq_refl true). Qed.

Lemma rs_parity_row_indep_10 : rows_prefix 10 1 3 = true.
Proof. vm_cast_no_check (eq_refl true). Qed.
