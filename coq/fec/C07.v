(* C07 - FEC reconstructs exactly the missing packets from any k of n.
   Statements only; every proof is `exact <lemma>`.  The codec is the abstract record of Codec.v;
   `mds (mk d p) d p` is a visible premise of the codec-generic theorems; it is PROVED for the
   executable codec Rs.v (klauspost's buildMatrix: Vandermonde times the inverse of its top
   square over GF(2^8)/0x11d, independent implementation) for EVERY ratio with d + p <= 256
   (c07_mds_rs_all: field laws of gmul, correctness of the Gauss-Jordan inversion, the
   Vandermonde kernel theorem), so that c07_recover_rs / c07_only_originals_rs carry no codec
   premise at all. *)
From Coq Require Import ZArith List Bool Lia.
From KV.Base Require Import Consts Word.
From KV.Fec Require Import Gf256 Codec Rs AutoTune Fec FecSpec FecProofs FecProofs2 EncProofs RsProofs RsMds RsMdsAll FecTheorems.
Import ListNotations.
Local Open Scope Z_scope.

(* RECOVER.  A decoder in any state reachable under matching genuine traffic (dec_inv), holding
   d-1 distinct packets of group g; the d-th distinct packet of g - data or parity, any position -
   makes decode return exactly the zero padded size-prefixed images of the data packets of g whose
   position is not among the d packets, in position order; stripped as the session strips them
   (2 <= sz <= len always passes) they are the original payloads byte for byte with their exact
   lengths. *)
Theorem c07_recover :
  forall (mk : Z -> Z -> codec) (d p : Z) (book : Z -> list bytes),
    cfg_ok d p -> mds (mk d p) d p -> book_ok d book ->
  forall (st : fecdec) (g : Z) (i : nat) (pkt : bytes),
    dec_inv (mk d p) d p book st -> genuine_at (mk d p) d p book g i pkt ->
    ~ In (pk_seqid pkt) (map pk_seqid (held st g)) ->
    Z.of_nat (length (held st g)) + 1 = d ->
    exists st',
      dec_decode mk st pkt =
        Ok (st', missing_images d (imgs_of book g) (map (pos_of (d + p)) (pkt :: held st g))) /\
      dec_inv (mk d p) d p book st' /\
      concat (map strip_rec (missing_images d (imgs_of book g) (map (pos_of (d + p)) (pkt :: held st g)))) =
      map (fun k => (nth k (book g) [], c_IKCP_PACKET_FEC))
          (filter (fun k => negb (existsb (Nat.eqb k) (map (pos_of (d + p)) (pkt :: held st g))))
                  (seq 0 (Z.to_nat d))).
Proof. exact decode_recover. Qed.
Print Assumptions c07_recover.

(* ... and until then the group accumulates: a new packet of g that is not the d-th is stored,
   nothing is emitted, and afterwards every group g' holds what it held (g: plus the packet) unless
   it is more than maxShardSets groups behind the newest group (`too_old`, see c07_wrap); the
   invariant gives  |held| < d  at all times, so "the d-th distinct packet" is the first trigger. *)
Theorem c07_held_accumulates :
  forall (mk : Z -> Z -> codec) (d p : Z) (book : Z -> list bytes),
    cfg_ok d p -> mds (mk d p) d p -> book_ok d book ->
  forall (st : fecdec) (g : Z) (i : nat) (pkt : bytes),
    dec_inv (mk d p) d p book st -> genuine_at (mk d p) d p book g i pkt ->
    ~ In (pk_seqid pkt) (map pk_seqid (held st g)) ->
    Z.of_nat (length (held st g)) + 1 < d ->
    exists st', dec_decode mk st pkt = Ok (st', []) /\ dec_inv (mk d p) d p book st' /\
      d_newest st' = next_newest d p st g /\
      forall g', held st' g' =
        if too_old (d + p) (next_newest d p st g) g' then []
        else if g' =? g then pkt :: held st g else held st g'.
Proof. exact decode_accumulate. Qed.
Print Assumptions c07_held_accumulates.

(* ONLY ORIGINALS.  Over ANY history of genuine packets of a matching sender - any order, any
   duplicates, any interleaving of groups, any positions incl. both sides of the wrap - from the
   fresh decoder: decode never faults, and every packet it ever returns is the zero padded image
   of an original data packet of the group of the packet just fed, which the session strips to
   that original payload exactly. *)
Theorem c07_only_originals :
  forall (mk : Z -> Z -> codec) (d p : Z) (book : Z -> list bytes),
    cfg_ok d p -> mds (mk d p) d p -> book_ok d book ->
  forall (h : list bytes), Forall (genuine (mk d p) d p book) h ->
  exists st0 st' outs,
    dec_new d p = Some st0 /\ run_dec mk st0 h = Ok (st', outs) /\
    Forall2 (fun pkt out => forall r, In r out ->
               exists g i, genuine_at (mk d p) d p book g i pkt /\ original_of d book g r) h outs.
Proof. exact t_c07_only_originals. Qed.
Print Assumptions c07_only_originals.

(* WRAP.  ids < paws = floor((2^32-1)/ss)*ss, a multiple of ss within ss of 2^32: no group
   straddles the wrap; the signed comparison of discardShards is exact when no wrap lies between
   the two groups (a group is dropped iff it is more than 3 groups behind the newest) and across
   the wrap the distance is inflated by 2^32-paws <= ss only (groups up to 2 behind are kept); the
   newest group follows the sender, also across the wrap. *)
Theorem c07_wrap :
  forall ss : Z, 0 < ss <= 256 ->
  let paws := paws_of ss in let G := paws_of ss / ss in
  (paws = G * ss /\ 0 < G /\ 0 < paws < W32 /\ W32 - paws <= ss) /\
  (forall s, 0 <= s < paws -> s / ss * ss + ss <= paws /\ 0 <= s / ss < G) /\
  (forall n g, 0 <= g <= n -> n < G -> (n - g) * ss < H32 -> too_old ss n g = (3 <? n - g)) /\
  (forall n g, 0 <= n < g -> g < G -> n + G - g <= 2 -> too_old ss n g = false) /\
  (forall n g, 0 <= n < g -> g < G -> (g - n) * ss < H32 -> itimediff (u32 (g * ss)) (u32 (n * ss)) > 0) /\
  (forall n g, 0 <= g < n -> n < G -> (g + G - n) * ss + ss < H32 -> itimediff (u32 (g * ss)) (u32 (n * ss)) > 0).
Proof. exact t_c07_wrap. Qed.
Print Assumptions c07_wrap.

(* PARITY LOSS IS HARMLESS.  (a) data packets only (all parity lost, or skipped by the sender):
   for ANY such history - lost, duplicated, reordered, forged contents - decode never faults and
   never emits anything (no codec premise at all); (b) whatever the decoder does or holds, the
   session feeds a data packet's payload to the ARQ core first and independently of decode. *)
Theorem c07_parity_loss_harmless :
  forall (mk : Z -> Z -> codec) (d p : Z), cfg_ok d p ->
  (forall h, Forall (fun pkt => matching_pkt d p pkt /\ pk_flag pkt = c_typeData) h ->
     exists st0 st', dec_new d p = Some st0 /\ run_dec mk st0 h = Ok (st', map (fun _ => []) h)) /\
  (forall st pkt st' fed, sess_fec_input mk st pkt = Ok (st', fed) -> c_fecHeaderSizePlus2 <= blen pkt ->
     exists rec, dec_decode mk st pkt = Ok (st', rec) /\
       fed = (if pk_flag pkt =? c_typeData then [(skipn 8 pkt, c_IKCP_PACKET_REGULAR)] else [])
             ++ concat (map strip_rec rec)).
Proof. exact t_c07_parity_loss_harmless. Qed.
Print Assumptions c07_parity_loss_harmless.

(* ENCODER LAYOUT.  From the fresh encoder (or any state between two groups: enc_inv e g []), the
   d calls of encode for one group return: each call the sealed data packet
   seqid | 0xf1 | size = payload+2 | payload; the last call also the p parity packets - the codec
   applied to the images zero padded to the group maximum, each of the group-maximum length, ids
   consecutive - unless the last two data packets are >= rto apart (then none, the ids are
   consumed all the same); ids advance modulo paws, the next group starts at a multiple of ss,
   shardCount/maxSize/cache are reset; the packets are exactly the `genuine` packets the decoder
   theorems quantify over. *)
Theorem c07_encoder_layout :
  forall (mk : Z -> Z -> codec) (d p : Z), cfg_ok d p ->
  (forall off, 0 <= off -> exists e, enc_new d p off = Some e /\ enc_inv d p e 0 [] /\ e_hoff e = off) /\
  (forall ins rto e g,
     enc_inv d p e g [] -> Z.of_nat (length ins) = d ->
     Forall (fun x : bytes * Z => c_fecHeaderSizePlus2 <= blen (fst x) /\ e_hoff e + blen (fst x) <= c_mtuLimit) ins ->
     exists e', enc_run mk e ins rto = Ok (e', enc_spec (mk d p) d p g [] (e_ts e) ins rto) /\
       enc_inv d p e' (next_group d p g) [] /\ e_hoff e' = e_hoff e) /\
  (forall ins rto g ts, Z.of_nat (length ins) = d ->
     map fst (enc_spec (mk d p) d p g [] ts ins rto) =
     map (fun k => grp_packet (mk d p) d (d + p) (map (fun x => image (skipn 8 (fst x))) ins) g k)
         (seq 0 (length ins))).
Proof. exact t_c07_encoder_layout. Qed.
Print Assumptions c07_encoder_layout.

(* MDS, PROVED for the executable Reed-Solomon codec and every ratio the library can configure
   (reedsolomon.New needs d + p <= 256): any d of the d+p shards of a codeword determine the data.
   Proof: GF(2^8) field laws (GfField.v), Gauss-Jordan `invert` returns a two-sided inverse of
   every matrix with trivial kernel (GaussInv.v), a Vandermonde matrix on distinct points has
   trivial kernel (Vander.v: a polynomial of degree < d with d distinct roots is zero), hence
   every d rows of  V * (V_top)^-1  are invertible and its top square is the identity. *)
Theorem c07_mds_rs_all : forall d p : Z, 0 < d -> 0 <= p -> d + p <= 256 -> mds (rs_codec d p) d p.
Proof. exact rs_mds_all. Qed.
Print Assumptions c07_mds_rs_all.

(* ... so for the library's codec RECOVER and ONLY ORIGINALS hold with no premise on the codec *)
Theorem c07_recover_rs :
  forall (d p : Z) (book : Z -> list bytes),
    cfg_ok d p -> book_ok d book ->
  forall (st : fecdec) (g : Z) (i : nat) (pkt : bytes),
    dec_inv (rs_codec d p) d p book st -> genuine_at (rs_codec d p) d p book g i pkt ->
    ~ In (pk_seqid pkt) (map pk_seqid (held st g)) ->
    Z.of_nat (length (held st g)) + 1 = d ->
    exists st',
      dec_decode rs_codec st pkt =
        Ok (st', missing_images d (imgs_of book g) (map (pos_of (d + p)) (pkt :: held st g))) /\
      dec_inv (rs_codec d p) d p book st' /\
      concat (map strip_rec (missing_images d (imgs_of book g) (map (pos_of (d + p)) (pkt :: held st g)))) =
      map (fun k => (nth k (book g) [], c_IKCP_PACKET_FEC))
          (filter (fun k => negb (existsb (Nat.eqb k) (map (pos_of (d + p)) (pkt :: held st g))))
                  (seq 0 (Z.to_nat d))).
Proof.
  exact (fun d p book Hc => decode_recover rs_codec d p book Hc
           (rs_mds_all d p (proj1 Hc) (Z.lt_le_incl _ _ (proj1 (proj2 Hc))) (proj2 (proj2 Hc)))).
Qed.
Print Assumptions c07_recover_rs.

Theorem c07_only_originals_rs :
  forall (d p : Z) (book : Z -> list bytes),
    cfg_ok d p -> book_ok d book ->
  forall (h : list bytes), Forall (genuine (rs_codec d p) d p book) h ->
  exists st0 st' outs,
    dec_new d p = Some st0 /\ run_dec rs_codec st0 h = Ok (st', outs) /\
    Forall2 (fun pkt out => forall r, In r out ->
               exists g i, genuine_at (rs_codec d p) d p book g i pkt /\ original_of d book g r) h outs.
Proof.
  exact (fun d p book Hc => t_c07_only_originals rs_codec d p book Hc
           (rs_mds_all d p (proj1 Hc) (Z.lt_le_incl _ _ (proj1 (proj2 Hc))) (proj2 (proj2 Hc)))).
Qed.
Print Assumptions c07_only_originals_rs.

(* the earlier computational instances (kept: they exercise check_mds by vm_compute, an
   independent path to the same fact for d+p <= 8 and 10/3) *)
Theorem c07_mds_rs_le8 : forall d p : Z, 0 < d -> 0 < p -> d + p <= 8 -> mds (rs_codec d p) d p.
Proof. exact rs_mds_le8. Qed.
Print Assumptions c07_mds_rs_le8.

Theorem c07_mds_rs_10_3 : mds (rs_codec 10 3) 10 3.
Proof. exact rs_mds_10_3. Qed.
Print Assumptions c07_mds_rs_10_3.

(* ---- non-vacuity: a concrete 2/1 group through the model encoder, the codec Rs.v and the model
   decoder: data packet 0 lost, data packet 1 and the parity arrive (parity first) ---- *)
Example c07_example :
  ex_run = Some ([ [0;0;0;0; 241;0; 5;0; 10;20;30]; [1;0;0;0; 241;0; 3;0; 7]; [2;0;0;0; 242;0; 9;0; 16;60;34] ],
                 [ []; [[5;0;10;20;30]] ]) /\
  concat (map strip_rec [[5;0;10;20;30]]) = [([10;20;30], c_IKCP_PACKET_FEC)] /\
  cfg_ok 2 1 /\ mds (rs_codec 2 1) 2 1.
Proof. exact t_c07_example. Qed.
