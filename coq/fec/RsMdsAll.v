(* The Reed-Solomon code of Rs.v is MDS for EVERY (d, p) with 0 < d, d + p <= 256 - by proof, not by
   computation: field laws (GfField.v), Gauss-Jordan correctness (GaussInv.v), Vandermonde kernel
   (Vander.v).  rs_matrix d p = V * T with V = vandermonde (d+p) d and T = (top square of V)^-1:
     - the top square has trivial kernel, so T exists, T has trivial kernel and V_top T y = y;
     - any d rows of V * T (distinct indices < 256) have trivial kernel: V_sub (T x) = 0 => T x = 0
       => x = 0; so the sub-matrix is inverted by `invert` and inv (sub e) = e for all e. *)
From Coq Require Import ZArith List Bool Lia Arith.
From KV.Fec Require Import Gf256 Codec Rs AutoTune Fec FecSpec RsProofs RsMds GfField LinAlg GaussInv Vander.
Import ListNotations.
Local Open Scope Z_scope.

(* ------------------------------------------------------------ seq / firstn / skipn *)

Lemma firstn_seq s : forall a b, (a <= b)%nat -> firstn a (seq s b) = seq s a.
Proof.
  intros a b H. replace b with (a + (b - a))%nat by lia. rewrite seq_app, firstn_app, seq_length.
  rewrite Nat.sub_diag. cbn [firstn]. rewrite app_nil_r. apply firstn_all2. rewrite seq_length. lia.
Qed.

Lemma skipn_seq0 d p : skipn d (seq 0 (d + p)) = seq d p.
Proof.
  rewrite seq_app, skipn_app, seq_length, Nat.sub_diag. cbn [skipn].
  rewrite skipn_all2 by (rewrite seq_length; lia). reflexivity.
Qed.

Lemma NoDup_firstn {A} n : forall l : list A, NoDup l -> NoDup (firstn n l).
Proof.
  induction n as [|n IH]; intros l H; cbn [firstn]; [constructor|]. destruct l as [|a l]; [constructor|].
  apply NoDup_cons_iff in H as [Nin ND]. constructor; [|apply IH; exact ND].
  intros Hin. apply in_firstn in Hin. contradiction.
Qed.

(* ------------------------------------------------------------ masks, positions, basis *)

Lemma all_masks_length n : forall mask, In mask (all_masks n) -> length mask = n.
Proof.
  induction n as [|n IH]; intros mask H; cbn [all_masks] in H.
  - destruct H as [<-|[]]. reflexivity.
  - apply in_flat_map in H. destruct H as (t & Ht & Hm). apply IH in Ht.
    destruct Hm as [<-|[<-|[]]]; cbn [length]; lia.
Qed.

Lemma positions_NoDup mask : forall i0, NoDup (positions i0 mask).
Proof.
  induction mask as [|b t IH]; intros i0; cbn [positions]; [constructor|].
  destruct b; [|apply IH]. constructor; [|apply IH].
  intros Hin. apply positions_ge in Hin. lia.
Qed.

Lemma unit_vec_bvec d j v : (j < d)%nat -> byte v -> bvec d (unit_vec d j v).
Proof.
  intros Hj Hv. unfold unit_vec. split.
  - rewrite app_length. cbn [length]. rewrite !repeat_length. lia.
  - apply Forall_app. split; [apply Forall_byte_repeat0|]. constructor; [exact Hv|apply Forall_byte_repeat0].
Qed.

Lemma basis_bvec d e : In e (basis d) -> bvec d e.
Proof.
  unfold basis. intros H. apply in_flat_map in H. destruct H as (j & Hj & H).
  apply in_map_iff in H. destruct H as (i & <- & Hi). apply in_seq in Hj. apply in_seq in Hi.
  apply unit_vec_bvec; [lia|apply pow2_byte; lia].
Qed.

(* ------------------------------------------------------------ vandermonde *)

Lemma vandermonde_length rows cols : length (vandermonde rows cols) = rows.
Proof. unfold vandermonde. rewrite map_length, seq_length. reflexivity. Qed.

Lemma vandermonde_nth rows cols i : (i < rows)%nat ->
  nth i (vandermonde rows cols) [] = pow_row (Z.of_nat i) 1 cols.
Proof.
  intros H. unfold vandermonde.
  rewrite (nth_map_in (fun r => pow_row (Z.of_nat r) 1 cols) (seq 0 rows) i [] 0%nat) by (rewrite seq_length; exact H).
  rewrite seq_nth by exact H. reflexivity.
Qed.

Lemma vandermonde_bmat rows cols : bmat rows cols (vandermonde rows cols).
Proof.
  split; [apply vandermonde_length|]. unfold vandermonde. apply Forall_map. apply Forall_forall.
  intros i _. apply bvec_pow_row.
Qed.

Lemma firstn_vandermonde d p : firstn d (vandermonde (d + p) d) = vandermonde d d.
Proof. unfold vandermonde. rewrite firstn_map, firstn_seq by lia. reflexivity. Qed.

Lemma vtop_kernel d : (d <= 256)%nat ->
  forall x, bvec d x -> kerl (vandermonde d d) x -> x = repeat 0 d.
Proof.
  intros Hd x Hx Hk. apply (vander_kernel d (seq 0 d) x); [apply seq_length|apply seq_NoDup| |exact Hx|].
  - intros i Hi. apply in_seq in Hi. lia.
  - intros i Hi. unfold kerl, vandermonde in Hk. rewrite Forall_map, Forall_forall in Hk. apply Hk. exact Hi.
Qed.

(* ------------------------------------------------------------ the code matrix m = V * T *)

Lemma lin_comb_byte d c : forall B, Forall byte c -> Forall byte (lin_comb d c B).
Proof.
  induction c as [|a c IH]; intros B Bc; cbn [lin_comb]; [apply Forall_byte_repeat0|].
  destruct B as [|b B]; [apply Forall_byte_repeat0|].
  apply Forall_cons_iff in Bc as [Ha Bc].
  apply Forall_byte_vxor; [apply Forall_byte_vscale; exact Ha|apply IH; exact Bc].
Qed.

Section Code.
Variables d p : nat.
Variable ti : matrix.
Hypothesis Hsz : (d + p <= 256)%nat.
Hypothesis Hti : invert d (vandermonde d d) = Some ti.
Hypothesis Bti : bmat d d ti.
Hypothesis Kti : forall y, bvec d y -> kerl ti y -> y = repeat 0 d.
Hypothesis Rti : forall y, bvec d y -> mv (vandermonde d d) (mv ti y) = y.

Let m := mat_mul (vandermonde (d + p) d) ti d.

Lemma rs_matrix_eq : rs_matrix d p = Some m.
Proof. unfold rs_matrix. cbv zeta. rewrite firstn_vandermonde, Hti. reflexivity. Qed.

Lemma m_length : length m = (d + p)%nat.
Proof. unfold m, mat_mul. rewrite map_length. apply vandermonde_length. Qed.

Lemma m_row i : (i < d + p)%nat -> nth i m [] = lin_comb d (pow_row (Z.of_nat i) 1 d) ti.
Proof.
  intros H. unfold m, mat_mul. unfold row.
  rewrite (nth_map_in _ (vandermonde (d + p) d) i [] [])
    by (rewrite vandermonde_length; exact H).
  rewrite vandermonde_nth by exact H. reflexivity.
Qed.

Lemma m_row_bvec i : (i < d + p)%nat -> bvec d (nth i m []).
Proof.
  intros H. rewrite m_row by exact H. split.
  - apply lin_comb_length. destruct Bti as [_ B]. eapply Forall_impl; [|exact B]. intros r [L _]. exact L.
  - apply lin_comb_byte. apply pow_row_byte. apply byte_1.
Qed.

Lemma m_dot i e : (i < d + p)%nat -> Forall byte e ->
  dot (nth i m []) e = dot (pow_row (Z.of_nat i) 1 d) (mv ti e).
Proof.
  intros H Be. rewrite m_row by exact H. apply dot_lin_comb; [|apply Bti|exact Be].
  apply pow_row_byte. apply byte_1.
Qed.

(* the top d rows act as the identity *)
Lemma m_top i e : (i < d)%nat -> bvec d e -> dot (nth i m []) e = nth i e 0.
Proof.
  intros H He. rewrite m_dot by (try apply He; lia).
  rewrite <- (vandermonde_nth d d i H).
  rewrite <- mv_nth by (rewrite vandermonde_length; exact H).
  rewrite Rti by exact He. reflexivity.
Qed.

Lemma cw_col_dot e i : (i < d + p)%nat -> bvec d e -> cw_col m d e i = dot (nth i m []) e.
Proof.
  intros H He. unfold cw_col. destruct (Nat.ltb_spec i d) as [L|L]; [|reflexivity].
  symmetry. apply m_top; assumption.
Qed.

(* any d distinct rows of m have trivial kernel *)
Lemma m_sub_kernel idxs : length idxs = d -> NoDup idxs -> (forall i, In i idxs -> (i < d + p)%nat) ->
  forall x, bvec d x -> kerl (map (fun i => nth i m []) idxs) x -> x = repeat 0 d.
Proof.
  intros Li ND Hlt x Hx Hk. apply Kti; [exact Hx|].
  assert (Hy : bvec d (mv ti x)) by (apply (mv_bvec d d); exact Bti).
  assert (E : mv ti x = repeat 0 d).
  { apply (vander_kernel d idxs); [exact Li|exact ND| |exact Hy|].
    - intros i Hi. specialize (Hlt i Hi). lia.
    - intros i Hi. rewrite <- m_dot by (try apply Hx; apply Hlt; exact Hi).
      unfold kerl in Hk. rewrite Forall_map, Forall_forall in Hk. apply Hk. exact Hi. }
  apply mv_zero_iff. destruct Bti as [Lt _]. rewrite Lt. exact E.
Qed.

Lemma check_mask_ok mask : length mask = (d + p)%nat -> (d <= count_true mask)%nat ->
  check_mask m d mask = true.
Proof.
  intros Lm Hc. unfold check_mask. cbv zeta.
  set (idxs := firstn d (positions 0 mask)).
  assert (Li : length idxs = d) by (unfold idxs; rewrite firstn_length, positions_length; lia).
  assert (ND : NoDup idxs) by (apply NoDup_firstn; apply positions_NoDup).
  assert (Hlt : forall i, In i idxs -> (i < d + p)%nat).
  { intros i Hi. apply in_firstn in Hi. apply positions_ge in Hi. lia. }
  set (sub := map (fun i => nth i m []) idxs).
  assert (Bs : bmat d d sub).
  { split; [unfold sub; rewrite map_length; exact Li|].
    unfold sub. apply Forall_map. apply Forall_forall. intros i Hi. apply m_row_bvec. apply Hlt. exact Hi. }
  destruct (invert_ok d sub Bs (m_sub_kernel idxs Li ND Hlt)) as (inv & Hinv & [Linv Binv] & L & _ & _).
  rewrite Hinv. apply forallb_forall. intros k Hk. apply in_seq in Hk.
  apply orb_true_iff. right. apply forallb_forall. intros e He. apply Z.eqb_eq.
  pose proof (basis_bvec d e He) as Be.
  assert (E : map (cw_col m d e) idxs = mv sub e).
  { unfold mv, sub. rewrite map_map. apply map_ext_in. intros i Hi. apply cw_col_dot; [apply Hlt; exact Hi|exact Be]. }
  rewrite E. rewrite <- mv_nth by lia. rewrite L by exact Be. reflexivity.
Qed.

Lemma check_mds_code : check_mds d p = true.
Proof.
  unfold check_mds. rewrite rs_matrix_eq. rewrite m_length, Nat.eqb_refl. cbn [andb].
  apply forallb_forall. intros mask Hm. apply all_masks_length in Hm.
  destruct (Nat.ltb_spec (count_true mask) d) as [L|L]; [reflexivity|].
  cbn [orb]. apply check_mask_ok; assumption.
Qed.

End Code.

(* ------------------------------------------------------------ the theorems *)

Lemma top_inverse d : (d <= 256)%nat ->
  exists ti, invert d (vandermonde d d) = Some ti /\ bmat d d ti /\
    (forall y, bvec d y -> kerl ti y -> y = repeat 0 d) /\
    (forall y, bvec d y -> mv (vandermonde d d) (mv ti y) = y).
Proof.
  intros Hd.
  destruct (invert_ok d (vandermonde d d) (vandermonde_bmat d d) (vtop_kernel d Hd))
    as (ti & Hti & Bti & _ & Kti & Rti).
  exists ti. split; [exact Hti|]. split; [exact Bti|]. split; [exact Kti|exact Rti].
Qed.

Theorem check_mds_all : forall d p : nat, (0 < d)%nat -> (d + p <= 256)%nat -> check_mds d p = true.
Proof.
  intros d p _ Hsz. destruct (top_inverse d ltac:(lia)) as (ti & Hti & Bti & Kti & Rti).
  exact (check_mds_code d p ti Hsz Hti Bti Kti Rti).
Qed.

Theorem rs_mds_all : forall d p : Z, 0 < d -> 0 <= p -> d + p <= 256 -> mds (rs_codec d p) d p.
Proof.
  intros d p Hd Hp Hs.
  pose proof (check_mds_sound (Z.to_nat d) (Z.to_nat p) ltac:(lia)
                (check_mds_all (Z.to_nat d) (Z.to_nat p) ltac:(lia) ltac:(lia))) as H.
  rewrite !Z2Nat.id in H by lia. exact H.
Qed.

Theorem rows_prefix_all : forall d p1 p2 : nat, (0 < d)%nat -> (p1 <= p2)%nat -> (d + p2 <= 256)%nat ->
  rows_prefix d p1 p2 = true.
Proof.
  intros d p1 p2 _ Hp Hsz. destruct (top_inverse d ltac:(lia)) as (ti & Hti & _).
  unfold rows_prefix. rewrite (rs_matrix_eq d p1 ti Hti), (rs_matrix_eq d p2 ti Hti).
  match goal with |- (if ?c then true else false) = true => destruct c as [_|N]; [reflexivity|exfalso; apply N] end.
  unfold mat_mul. rewrite !skipn_map, firstn_map. f_equal.
  unfold vandermonde. rewrite !skipn_map, firstn_map. f_equal.
  rewrite !skipn_seq0. symmetry. apply firstn_seq. exact Hp.
Qed.

Print Assumptions check_mds_all.
Print Assumptions rs_mds_all.
Print Assumptions rows_prefix_all.
