(* Glue lemmas for the C16 statement file (so that C16.v consists of `exact` only). *)
From Coq Require Import ZArith List Bool Lia.
From KV.Base Require Import Consts Word.
From KV.Fec Require Import Gf256 Codec Rs AutoTune Fec FecSpec FecProofs FecProofs2 AutoTuneProofs TuneProofs.
Import ListNotations.
Local Open Scope Z_scope.
