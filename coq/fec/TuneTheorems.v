(* Glue lemmas for the C16 statement file (so that C16.v consists of `exact` only). *)
From Coq Require Import ZArith List Bool Lia.
From KV.Base Require Import Consts Word.
From KV.Fec Require Import Gf256 Codec Rs AutoTune Fec FecSpec FecProofs FecProofs2 AutoTuneProofs TuneProofs ConvProofs.
Import ListNotations.
Local Open Scope Z_scope.

Lemma c16_example_lemma :
  (let t := fold_left (fun t i => at_sample t ((4 + Z.of_nat i) mod 5 <? 3) (4 + Z.of_nat i)) (seq 0 7) at_init in
   at_wf t /\ at_window t = run_pulses 3 2 4 7 /\ find_period t true = 3 /\ find_period t false = 2) /\
  (exists st, dec_new 2 1 = Some st /\ type_mismatch st 2 (sender_flag 3 2 2) = true) /\
  matching_pkt 3 2 (le32 8 ++ le16 c_typeParity ++ [1; 2; 3]) /\
  (exists st, dec_new 2 1 = Some st /\ J st /\ Forall (consistent 3 2) (at_window (d_at st))).
Proof.
  split; [|split; [|split]].
  - cbv zeta. split.
    + simpl fold_left. repeat apply at_sample_window. apply at_init_wf.
    + split; [vm_compute; reflexivity|]. split; vm_compute; reflexivity.
  - eexists. split; [reflexivity|]. vm_compute. reflexivity.
  - unfold matching_pkt. split; [unfold blen, c_fecHeaderSize, c_mtuLimit; simpl; lia|].
    intros _. split; [|right; vm_compute; reflexivity].
    split; [intros H; vm_compute in H; discriminate|intros H; exfalso; vm_compute in H; discriminate].
  - eexists. split; [reflexivity|]. split.
    + unfold J; simpl. repeat split; try lia; try reflexivity. apply at_init_wf.
    + simpl. constructor.
Qed.
