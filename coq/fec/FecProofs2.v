(* Further decoder facts for C07/C16: data-only traffic never makes the decoder emit anything
   (losing or skipping all parity is harmless), what the session feeds to the ARQ core, and the
   wrap-around arithmetic of group ids (paws, retention window). *)
From Coq Require Import ZArith List Bool Lia Arith.
From KV.Base Require Import Consts Word WordLemmas.
From KV.Fec Require Import Codec AutoTune Fec FecSpec FecProofs.
Import ListNotations.
Local Open Scope Z_scope.

Ltac Zify.zify_post_hook ::= Z.div_mod_to_equations.

(* ------------------------------------------------------------ data packets only *)

Section DataOnly.
Variable mk : Z -> Z -> codec.
Variables d p : Z.
Hypothesis Hcfg : cfg_ok d p.

Definition set_data_only (ge : Z * list bytes) : Prop :=
  Z.of_nat (length (snd ge)) < d /\ Forall (fun e => pk_flag e = c_typeData) (snd ge).

Definition data_only_inv (st : fecdec) : Prop :=
  d_data st = d /\ d_parity st = p /\ d_size st = d + p /\ d_paws st = paws_of (d + p) /\
  d_should st = false /\ Forall set_data_only (d_sets st).

Lemma num_data_all elems : Forall (fun e => pk_flag e = c_typeData) elems -> num_data elems = Z.of_nat (length elems).
Proof.
  intros H. unfold num_data. f_equal. induction H as [|e l He Hl IH]; simpl; [reflexivity|].
  rewrite He, Z.eqb_refl. simpl. congruence.
Qed.

Lemma dec_store_data_only st pkt s :
  data_only_inv st -> blen pkt <= c_mtuLimit -> pk_flag pkt = c_typeData ->
  exists st', dec_store mk st pkt s = Ok (st', []) /\ data_only_inv st'.
Proof.
  intros (Hd & Hp & Hs & Hw & Hsh & Hall) Hlen Hfl. unfold dec_store.
  assert (Hsets0 : exists elems sets0,
    (match set_find (s / d_size st) (d_sets st) with Some e => (e, d_sets st) | None => ([], set_put (s / d_size st) [] (d_sets st)) end)
      = (elems, sets0) /\ set_data_only (s / d_size st, elems) /\ Forall set_data_only sets0).
  { destruct (set_find (s / d_size st) (d_sets st)) as [e|] eqn:F.
    - exists e, (d_sets st). split; [reflexivity|]. split; [|assumption].
      apply set_find_in in F. rewrite Forall_forall in Hall. apply (Hall _ F).
    - destruct Hcfg as (? & _). exists [], (set_put (s / d_size st) [] (d_sets st)). split; [reflexivity|].
      assert (set_data_only (s / d_size st, [])) by (split; simpl; [lia|constructor]).
      split; [assumption|]. apply set_put_forall; assumption. }
  destruct Hsets0 as (elems & sets0 & -> & (Hel & Hed) & Hall0). simpl in Hel, Hed.
  destruct (has_seqid s elems).
  { eexists. split; [reflexivity|]. unfold data_only_inv; simpl. tauto. }
  destruct (c_mtuLimit <? blen pkt) eqn:E; [apply Z.ltb_lt in E; lia|].
  rewrite Hd. destruct (d <=? Z.of_nat (length (pkt :: elems))) eqn:Etr.
  - apply Z.leb_le in Etr.
    rewrite num_data_all by (constructor; assumption).
    assert (Heq : Z.of_nat (length (pkt :: elems)) = d) by (simpl length in *; lia).
    rewrite Heq, Z.eqb_refl.
    eexists. split; [reflexivity|]. unfold data_only_inv; simpl. repeat (split; [assumption|]).
    apply discard_forall. apply set_put_forall; [assumption|].
    destruct Hcfg as (? & _). split; simpl; [lia|constructor].
  - apply Z.leb_gt in Etr.
    eexists. split; [reflexivity|]. unfold data_only_inv; simpl. repeat (split; [assumption|]).
    apply discard_forall. apply set_put_forall; [assumption|].
    split; simpl; [simpl length in Etr; lia|constructor; assumption].
Qed.

Lemma decode_data_only st pkt :
  data_only_inv st -> matching_pkt d p pkt -> pk_flag pkt = c_typeData ->
  exists st', dec_decode mk st pkt = Ok (st', []) /\ data_only_inv st'.
Proof.
  intros Hinv ((Hlo & Hhi) & Hty) Hfl. pose proof Hinv as (Hd & Hp & Hs & Hw & Hsh & Hall).
  unfold dec_decode.
  destruct (blen pkt <? c_fecHeaderSize) eqn:E; [apply Z.ltb_lt in E; lia|].
  set (st1 := set_at st _).
  assert (Hinv1 : data_only_inv st1) by (unfold st1, data_only_inv; simpl; tauto).
  replace (d_paws st1) with (paws_of (d + p)) by (unfold st1; simpl; congruence).
  destruct (paws_of (d + p) <=? pk_seqid pkt) eqn:Ew.
  { eexists. split; [reflexivity|assumption]. }
  apply Z.leb_gt in Ew. destruct (Hty Ew) as (Hiff & Hor).
  replace (d_should st1) with false by (unfold st1; simpl; congruence).
  rewrite (type_ok_no_mismatch st1 pkt d p) by (unfold st1; simpl; assumption). simpl.
  apply dec_store_data_only; assumption.
Qed.

Lemma run_dec_data_only h : forall st,
  data_only_inv st -> Forall (fun pkt => matching_pkt d p pkt /\ pk_flag pkt = c_typeData) h ->
  exists st', run_dec mk st h = Ok (st', map (fun _ => []) h) /\ data_only_inv st'.
Proof.
  induction h as [|pkt t IH]; intros st Hinv Hall.
  - exists st. simpl. auto.
  - apply Forall_cons_iff in Hall as [(Hm & Hf) Ht].
    destruct (decode_data_only st pkt Hinv Hm Hf) as (st1 & He & Hinv1).
    destruct (IH st1 Hinv1 Ht) as (st2 & He2 & Hinv2).
    exists st2. simpl. rewrite He, He2. auto.
Qed.

Lemma dec_new_data_only : exists st0, dec_new d p = Some st0 /\ data_only_inv st0.
Proof.
  destruct Hcfg as (Hd & Hp & Hs). unfold dec_new.
  destruct ((d <=? 0) || (p <=? 0)) eqn:E1.
  { apply orb_true_iff in E1. destruct E1 as [E|E]; apply Z.leb_le in E; lia. }
  destruct (256 <? d + p) eqn:E2; [apply Z.ltb_lt in E2; lia|].
  eexists. split; [reflexivity|]. unfold data_only_inv; simpl. repeat split; constructor.
Qed.

End DataOnly.

(* ------------------------------------------------------------ what the session feeds to the core *)

(* a data packet's payload is fed BEFORE and independently of decode, whatever the decoder's state,
   configuration or tuning mode; everything else that is fed comes out of decode *)
Lemma sess_feeds_data_first mk st pkt st' fed :
  sess_fec_input mk st pkt = Ok (st', fed) -> c_fecHeaderSizePlus2 <= blen pkt ->
  exists rec, dec_decode mk st pkt = Ok (st', rec) /\
    fed = (if pk_flag pkt =? c_typeData then [(skipn 8 pkt, c_IKCP_PACKET_REGULAR)] else [])
          ++ concat (map strip_rec rec).
Proof.
  unfold sess_fec_input. intros H Hlen.
  destruct (blen pkt <? c_fecHeaderSizePlus2) eqn:E; [apply Z.ltb_lt in E; lia|].
  destruct (dec_decode mk st pkt) as [[st1 rec]|w]; [|discriminate].
  inversion H; subst. exists rec. split; reflexivity.
Qed.

(* ------------------------------------------------------------ wrap-around of group ids *)

Lemma i32_shift x k : - H32 <= x + k * W32 < H32 -> i32 x = x + k * W32.
Proof. unfold i32, W32, H32. intros. lia. Qed.

Lemma itimediff_plain a b : 0 <= a < W32 -> 0 <= b < W32 -> - H32 <= a - b < H32 ->
  itimediff (u32 a) (u32 b) = a - b.
Proof.
  intros Ha Hb Hr. rewrite (u32_id a), (u32_id b) by assumption.
  unfold itimediff. rewrite (i32_shift (a - b) 0); lia.
Qed.

Lemma itimediff_wrapped a b : 0 <= a < W32 -> 0 <= b < W32 -> - H32 <= a - b + W32 < H32 ->
  itimediff (u32 a) (u32 b) = a - b + W32.
Proof.
  intros Ha Hb Hr. rewrite (u32_id a), (u32_id b) by assumption.
  unfold itimediff. rewrite (i32_shift (a - b) 1); lia.
Qed.

Section Wrap.
Variable ss : Z.
Hypothesis Hss : 0 < ss <= 256.
Let paws := paws_of ss.
Let G := paws_of ss / ss.

Lemma paws_groups : paws = G * ss /\ 0 < G /\ 0 < paws < W32 /\ W32 - paws <= ss.
Proof.
  destruct (paws_of_bounds ss Hss) as ((Hp0 & Hp1) & Hm & Hlo). unfold paws, G, W32.
  pose proof (Z.div_mod (paws_of ss) ss ltac:(lia)) as Hdm. rewrite Hm in Hdm.
  split; [lia|]. split; [|lia].
  apply Z.div_str_pos. split; [lia|].
  unfold paws_of. assert (1 <= 4294967295 / ss) by (apply Z.div_le_lower_bound; lia). nia.
Qed.

(* every group that starts below paws lies entirely below paws: no group straddles the wrap *)
Lemma group_below_paws s : 0 <= s < paws -> s / ss * ss + ss <= paws /\ 0 <= s / ss < G.
Proof.
  intros Hs. destruct paws_groups as (HG & HG0 & _ & _).
  assert (Hq : s / ss < G).
  { apply Z.div_lt_upper_bound; [lia|]. rewrite Z.mul_comm. lia. }
  assert (0 <= s / ss) by (apply Z.div_pos; lia).
  split; [nia|lia].
Qed.

(* no wrap between the two groups: the signed comparison of discardShards is exact *)
Lemma too_old_nowrap n g : 0 <= g <= n -> n < G -> (n - g) * ss < H32 ->
  too_old ss n g = (3 <? n - g).
Proof.
  intros Hgn Hn Hr. destruct paws_groups as (HG & HG0 & Hpw & _).
  assert (Ha : 0 <= n * ss < W32) by nia. assert (Hb : 0 <= g * ss < W32) by nia.
  unfold too_old. cbv zeta. rewrite itimediff_plain by (try assumption; unfold H32 in *; nia).
  unfold c_maxShardSets.
  assert (Hnn : (n * ss - g * ss <? 0) = false) by (apply Z.ltb_ge; nia).
  rewrite Hnn, orb_false_r.
  destruct (3 <? n - g) eqn:E.
  - apply Z.ltb_lt in E. apply Z.gtb_lt. nia.
  - apply Z.ltb_ge in E. destruct (n * ss - g * ss >? 3 * ss) eqn:E2; [|reflexivity].
    apply Z.gtb_lt in E2. nia.
Qed.

(* across the wrap (g before paws, n after it) the distance is inflated by 2^32 - paws <= ss:
   a group at most two groups behind the newest is still retained *)
Lemma too_old_wrap n g : 0 <= n < g -> g < G -> n + G - g <= 2 -> too_old ss n g = false.
Proof.
  intros Hng Hg Hk. destruct paws_groups as (HG & HG0 & Hpw & Hgap).
  assert (Ha : 0 <= n * ss < W32) by nia. assert (Hb : 0 <= g * ss < W32) by nia.
  assert (Hval : n * ss - g * ss + W32 = (n + G - g) * ss + (W32 - paws)) by nia.
  unfold too_old. cbv zeta. rewrite itimediff_wrapped; [|assumption|assumption|unfold H32, W32 in *; nia].
  unfold c_maxShardSets.
  assert (Hnn : (n * ss - g * ss + W32 <? 0) = false) by (apply Z.ltb_ge; nia).
  rewrite Hnn, orb_false_r.
  destruct (n * ss - g * ss + W32 >? 3 * ss) eqn:E; [|reflexivity].
  apply Z.gtb_lt in E. nia.
Qed.

(* the newest group follows the sender, also across the wrap *)
Lemma newest_follows_nowrap n g : 0 <= n < g -> g < G -> (g - n) * ss < H32 ->
  itimediff (u32 (g * ss)) (u32 (n * ss)) > 0.
Proof.
  intros Hng Hg Hr. destruct paws_groups as (HG & HG0 & Hpw & _).
  rewrite itimediff_plain; unfold H32, W32 in *; nia.
Qed.

Lemma newest_follows_wrap n g : 0 <= g < n -> n < G -> (g + G - n) * ss + ss < H32 ->
  itimediff (u32 (g * ss)) (u32 (n * ss)) > 0.
Proof.
  intros Hgn Hn Hr. destruct paws_groups as (HG & HG0 & Hpw & Hgap).
  assert (Hval : g * ss - n * ss + W32 = (g + G - n) * ss + (W32 - paws)) by nia.
  rewrite itimediff_wrapped; unfold H32, W32 in *; nia.
Qed.

End Wrap.
