(* GF(2^8) with the reduction polynomial x^8+x^4+x^3+x^2+1 (0x11d) - the field of
   klauspost/reedsolomon (generatingPolynomial = 29, generator 2).  INDEPENDENT of that library:
   no log/exp tables; multiplication is the shift-and-add ("Russian peasant") product reduced by
   0x11d (the coefficient a is multiplied by X once per bit of the data byte x, which makes the
   product linear in x by construction), the inverse is a^254.  Elements are Z in [0,256).  No proofs in this file. *)
From Coq Require Import ZArith List Bool.
Import ListNotations.
Local Open Scope Z_scope.

(* multiply by x: shift left, reduce by 0x11d = 256 + 29 *)
Definition xtime (x : Z) : Z :=
  let y := 2 * x in if 256 <=? y then Z.lxor (y - 256) 29 else y.

(* a * x = sum over the set bits i of x of (a * X^i): linear in x bit by bit *)
Fixpoint gmul_bits (n : nat) (i : Z) (a x : Z) : Z :=
  match n with
  | O => 0
  | S n' => Z.lxor (if Z.testbit x i then a else 0) (gmul_bits n' (i + 1) (xtime a) x)
  end.

Definition gmul (a x : Z) : Z := gmul_bits 8 0 a x.
Definition gadd (a b : Z) : Z := Z.lxor a b.

(* a^n, with a^0 = 1 for every a (galExp(a, 0) = 1, also for a = 0) *)
Fixpoint gpow (a : Z) (n : nat) : Z :=
  match n with O => 1 | S n' => gmul a (gpow a n') end.

(* a^-1 = a^254 = a^2 a^4 a^8 a^16 a^32 a^64 a^128 ; ginv 0 = 0 *)
Definition ginv (a : Z) : Z :=
  let a2 := gmul a a in let a4 := gmul a2 a2 in let a8 := gmul a4 a4 in
  let a16 := gmul a8 a8 in let a32 := gmul a16 a16 in let a64 := gmul a32 a32 in
  let a128 := gmul a64 a64 in
  gmul a2 (gmul a4 (gmul a8 (gmul a16 (gmul a32 (gmul a64 a128))))).

(* vectors over the field: lists of equal length *)
Fixpoint vxor (x y : list Z) : list Z :=
  match x, y with
  | a :: x', b :: y' => Z.lxor a b :: vxor x' y'
  | _, _ => []
  end.
Definition vscale (c : Z) (x : list Z) : list Z := map (gmul c) x.
