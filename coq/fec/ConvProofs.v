(* C16: composition of the convergence bound.  An uninterrupted in-order run of N = 258 + 2(d+p)
   packets of a d/p sender, from any start id (not straddling the sender's wrap), into a decoder
   with ANY valid ratio, any group table, tune flag set or not, whose ring holds only samples of
   that sender (e.g. empty, or earlier packets of the same sender lost/duplicated/reordered):
   afterwards the decoder has d/p and the flag is clear. *)
From Coq Require Import ZArith List Bool Lia Arith.
From KV.Base Require Import Consts Word WordLemmas.
From KV.Fec Require Import Codec AutoTune Fec FecSpec FecProofs FecProofs2 AutoTuneProofs TuneProofs.
Import ListNotations.
Local Open Scope Z_scope.

Ltac Zify.zify_post_hook ::= idtac.

(* ------------------------------------------------------------ last n elements *)

Definition lastn {A} (n : nat) (l : list A) : list A := skipn (length l - n) l.

Lemma lastn_short {A} n (l : list A) : (length l <= n)%nat -> lastn n l = l.
Proof. intros. unfold lastn. replace (length l - n)%nat with 0%nat by lia. reflexivity. Qed.

Lemma lastn_length {A} n (l : list A) : length (lastn n l) = Nat.min n (length l).
Proof. unfold lastn. rewrite skipn_length. lia. Qed.

Lemma skipn_S_1 {A} (l : list A) : forall k, skipn (S k) l = skipn 1 (skipn k l).
Proof.
  induction l as [|a l IH]; intros k; [destruct k; reflexivity|].
  destruct k as [|k]; [reflexivity|]. exact (IH k).
Qed.

Lemma lastn_app_snoc {A} n (l : list A) x : (0 < n)%nat -> lastn n (lastn n l ++ [x]) = lastn n (l ++ [x]).
Proof.
  intros Hn. unfold lastn. rewrite !app_length, skipn_length. simpl length.
  destruct (Nat.le_gt_cases (length l) n) as [Hle|Hgt].
  - replace (length l - n)%nat with 0%nat by lia. simpl skipn. rewrite Nat.sub_0_r. reflexivity.
  - replace (length l - (length l - n) + 1 - n)%nat with 1%nat by lia.
    replace (length l + 1 - n)%nat with (S (length l - n)) by lia.
    rewrite skipn_app. rewrite skipn_length.
    replace (1 - (length l - (length l - n)))%nat with 0%nat by lia. simpl (skipn 0 [x]).
    rewrite (skipn_app (S (length l - n))).
    replace (S (length l - n) - length l)%nat with 0%nat by lia. simpl (skipn 0 [x]).
    f_equal. symmetry. apply skipn_S_1.
Qed.

Lemma push_window_lastn w x : (length w <= 258)%nat -> push_window w x = lastn 258 (w ++ [x]).
Proof.
  intros H. unfold push_window, lastn. rewrite app_length. simpl length.
  destruct (Nat.ltb (length w) 258) eqn:E.
  - apply Nat.ltb_lt in E. replace (length w + 1 - 258)%nat with 0%nat by lia. reflexivity.
  - apply Nat.ltb_ge in E. replace (length w + 1 - 258)%nat with 1%nat by lia.
    destruct w; [simpl in E; lia|reflexivity].
Qed.

Lemma lastn_app_long {A} n (a b : list A) : (n <= length b)%nat -> lastn n (a ++ b) = lastn n b.
Proof.
  intros H. unfold lastn. rewrite app_length, skipn_app.
  replace (length a + length b - n - length a)%nat with (length b - n)%nat by lia.
  rewrite (skipn_all2 a) by lia. reflexivity.
Qed.

Lemma in_skipn' {A} (x : A) : forall n l, In x (skipn n l) -> In x l.
Proof. induction n; destruct l; simpl; intros H; auto. Qed.

Lemma skipn_map_seq {A} (f : nat -> A) : forall n k j, skipn j (map f (seq k n)) = map f (seq (k + j) (n - j)).
Proof.
  induction n as [|n IH]; intros k j; [destruct j; reflexivity|].
  destruct j; [simpl; rewrite Nat.add_0_r; reflexivity|].
  simpl. rewrite IH. replace (S k + j)%nat with (k + S j)%nat by lia. reflexivity.
Qed.

Lemma dec_retune_at st : d_at (dec_retune st) = d_at st.
Proof.
  unfold dec_retune.
  destruct ((0 <? find_period (d_at st) true) && (0 <? find_period (d_at st) false) &&
            (find_period (d_at st) true + find_period (d_at st) false <? 256));
    [destruct (negb (find_period (d_at st) true =? d_data st) || negb (find_period (d_at st) false =? d_parity st))|];
    reflexivity.
Qed.

(* ------------------------------------------------------------ the run *)

Section Converge.
Variable mk : Z -> Z -> codec.
Variables d p s0 : Z.
Variable body : nat -> bytes.
Variable N : nat.
Hypothesis Hd : 0 < d.
Hypothesis Hp : 0 < p.
Hypothesis Hss : d + p <= 255.
Hypothesis Hs0 : 0 <= s0.
Hypothesis Hbody : forall i, blen (body i) + c_fecHeaderSize <= c_mtuLimit.
Hypothesis HN : s0 + Z.of_nat N <= 4294967296 - 257.
Local Notation ss := (d + p).

Definition pbit (i : nat) : bool := (s0 + Z.of_nat i) mod ss <? d.
Definition pk (i : nat) : bytes :=
  le32 (s0 + Z.of_nat i) ++ le16 (sender_flag d p (s0 + Z.of_nat i)) ++ body i.
Definition pks (i n : nat) : list bytes := map pk (seq i n).

Lemma pk_fields i : (i < N)%nat ->
  pk_seqid (pk i) = s0 + Z.of_nat i /\ pk_flag (pk i) = sender_flag d p (s0 + Z.of_nat i) /\
  (pk_flag (pk i) =? c_typeData) = pbit i /\ c_fecHeaderSize <= blen (pk i) <= c_mtuLimit.
Proof.
  intros Hi. unfold pk.
  assert (H1 : pk_seqid (le32 (s0 + Z.of_nat i) ++ le16 (sender_flag d p (s0 + Z.of_nat i)) ++ body i) = s0 + Z.of_nat i).
  { unfold pk_seqid. apply rd32_le32'. lia. }
  assert (H2 : pk_flag (le32 (s0 + Z.of_nat i) ++ le16 (sender_flag d p (s0 + Z.of_nat i)) ++ body i) = sender_flag d p (s0 + Z.of_nat i)).
  { unfold pk_flag. rewrite skipn_le32. apply rd16_le16. unfold sender_flag, c_typeData, c_typeParity.
    destruct (_ <? d); lia. }
  split; [exact H1|]. split; [exact H2|]. split.
  - rewrite H2. unfold sender_flag, pbit. destruct ((s0 + Z.of_nat i) mod ss <? d); reflexivity.
  - rewrite !blen_app. change (blen (le32 _)) with 4. change (blen (le16 _)) with 2.
    pose proof (Hbody i). pose proof (blen_nonneg (body i)). unfold c_fecHeaderSize, c_mtuLimit in *. lia.
Qed.

Lemma rw_snoc i : run_pulses d p s0 (S i) = run_pulses d p s0 i ++ [mkPulse (pbit i) (s0 + Z.of_nat i)].
Proof. unfold run_pulses, rw. rewrite seq_S, map_app. reflexivity. Qed.

Lemma pulse_consistent i : (i < N)%nat -> consistent d p (mkPulse (pbit i) (s0 + Z.of_nat i)).
Proof. intros. unfold consistent, pbit; simpl. split; [reflexivity|lia]. Qed.

(* ---- the decoder along the run ---- *)

Definition J (st : fecdec) : Prop :=
  0 < d_data st /\ 0 < d_parity st /\ d_size st = d_data st + d_parity st /\ d_size st <= 256 /\
  d_paws st = paws_of (d_size st) /\ at_wf (d_at st).

Ltac solveJ := unfold J; simpl;
  (split; [lia|split; [lia|split; [lia|split; [lia|split; [try reflexivity; try assumption|try assumption]]]]]).

Definition Win (w0 : list pulse) (st : fecdec) (i : nat) : Prop :=
  at_window (d_at st) = lastn 258 (w0 ++ run_pulses d p s0 i).

Definition Adopted (st : fecdec) : Prop := has_cfg st d p /\ d_should st = false.

Definition cfg_same (a b : fecdec) : Prop :=
  d_data b = d_data a /\ d_parity b = d_parity a /\ d_size b = d_size a /\ d_paws b = d_paws a.

Lemma J_paws st i : J st -> (i < N)%nat -> s0 + Z.of_nat i < d_paws st.
Proof.
  intros (H1 & H2 & H3 & H4 & H5 & _) Hi. rewrite H5.
  destruct (paws_of_bounds (d_size st) ltac:(lia)) as (_ & _ & Hlo). lia.
Qed.

Lemma win_consistent w0 st i : Forall (consistent d p) w0 -> (i <= N)%nat -> Win w0 st i ->
  Forall (consistent d p) (at_window (d_at st)).
Proof.
  intros Hw Hi ->. unfold lastn. apply Forall_forall. intros x Hx. apply in_skipn' in Hx.
  apply in_app_or in Hx. destruct Hx as [Hx|Hx]; [rewrite Forall_forall in Hw; auto|].
  unfold run_pulses, rw in Hx. apply in_map_iff in Hx. destruct Hx as (k & <- & Hk). apply in_seq in Hk.
  apply (pulse_consistent k). lia.
Qed.

Lemma win_step w0 st i t' :
  at_wf (d_at st) -> Win w0 st i ->
  t' = at_sample (d_at st) (pbit i) (s0 + Z.of_nat i) ->
  at_wf t' /\ at_window t' = lastn 258 (w0 ++ run_pulses d p s0 (S i)).
Proof.
  intros Hwf Hw ->. destruct (at_sample_window (d_at st) (pbit i) (s0 + Z.of_nat i) Hwf) as (Hwf' & Hpush).
  split; [assumption|]. rewrite Hpush, Hw.
  rewrite push_window_lastn by (rewrite lastn_length; lia).
  rewrite lastn_app_snoc by lia. rewrite rw_snoc, app_assoc. reflexivity.
Qed.

(* one packet of the run *)
Lemma step st i :
  J st -> (i < N)%nat ->
  exists st' out, dec_decode mk st (pk i) = Ok (st', out) /\
    d_at st' = at_sample (d_at st) (pbit i) (s0 + Z.of_nat i) /\
    ((d_should st || type_mismatch st (s0 + Z.of_nat i) (sender_flag d p (s0 + Z.of_nat i)) = true /\
      st' = dec_retune (set_at st (at_sample (d_at st) (pbit i) (s0 + Z.of_nat i)))) \/
     (d_should st || type_mismatch st (s0 + Z.of_nat i) (sender_flag d p (s0 + Z.of_nat i)) = false /\
      cfg_same st st' /\ d_should st' = false)).
Proof.
  intros HJ Hi. destruct (pk_fields i Hi) as (Hseq & Hflag & Hbit & Hlen).
  pose proof (J_paws st i HJ Hi) as Hpw.
  destruct (d_should st || type_mismatch st (s0 + Z.of_nat i) (sender_flag d p (s0 + Z.of_nat i))) eqn:E.
  - exists (dec_retune (set_at st (at_sample (d_at st) (pbit i) (s0 + Z.of_nat i)))), [].
    split; [|split].
    + rewrite (decode_tuning_step mk st (pk i)); [rewrite Hbit, Hseq; reflexivity|lia|rewrite Hseq; assumption|rewrite Hseq, Hflag; assumption].
    + rewrite dec_retune_at. reflexivity.
    + left. split; reflexivity.
  - apply orb_false_iff in E as [Es Em].
    unfold dec_decode. destruct (blen (pk i) <? c_fecHeaderSize) eqn:El; [apply Z.ltb_lt in El; lia|].
    rewrite Hbit, Hseq, Hflag.
    set (st1 := set_at st (at_sample (d_at st) (pbit i) (s0 + Z.of_nat i))).
    replace (d_paws st1) with (d_paws st) by reflexivity.
    destruct (d_paws st <=? s0 + Z.of_nat i) eqn:Ew; [apply Z.leb_le in Ew; lia|].
    replace (d_should st1) with (d_should st) by reflexivity.
    replace (type_mismatch st1 (s0 + Z.of_nat i) (sender_flag d p (s0 + Z.of_nat i)))
      with (type_mismatch st (s0 + Z.of_nat i) (sender_flag d p (s0 + Z.of_nat i))) by reflexivity.
    rewrite Es, Em. simpl orb. cbv iota.
    destruct (dec_store_ok mk st1 (pk i) (s0 + Z.of_nat i) ltac:(lia)) as (st' & out & He & Hc & Hat).
    exists st', out. split; [exact He|]. split; [rewrite Hat; reflexivity|].
    right. split; [reflexivity|]. destruct Hc as (c1 & c2 & c3 & c4 & c5).
    split; [unfold cfg_same; simpl in *; auto|]. rewrite c5. exact Es.
Qed.

Lemma retune_J st1 : J st1 -> Forall (consistent d p) (at_window (d_at st1)) ->
  J (dec_retune st1) /\
  (Adopted (dec_retune st1) \/ (cfg_same st1 (dec_retune st1) /\ d_should (dec_retune st1) = true)).
Proof.
  intros (H1 & H2 & H3 & H4 & H5 & H6) Hcons.
  unfold dec_retune in *.
  destruct ((0 <? find_period (d_at st1) true) && (0 <? find_period (d_at st1) false) &&
            (find_period (d_at st1) true + find_period (d_at st1) false <? 256)) eqn:E.
  - apply andb_true_iff in E as [E _]. apply andb_true_iff in E as [E1 E2].
    apply Z.ltb_lt in E1. apply Z.ltb_lt in E2.
    pose proof (find_period_sound d p (d_at st1) true _ Hd Hp Hcons eq_refl E1) as F1.
    pose proof (find_period_sound d p (d_at st1) false _ Hd Hp Hcons eq_refl E2) as F2.
    simpl in F1, F2. rewrite F1, F2 in *.
    destruct (negb (d =? d_data st1) || negb (p =? d_parity st1)) eqn:En.
    + split; [solveJ|].
      left. unfold Adopted, has_cfg; simpl. repeat split; reflexivity.
    + apply orb_false_iff in En as [Ea Eb]. apply negb_false_iff in Ea. apply negb_false_iff in Eb.
      apply Z.eqb_eq in Ea. apply Z.eqb_eq in Eb.
      split; [solveJ|].
      left. unfold Adopted, has_cfg; simpl. rewrite H5, H3, <- Ea, <- Eb. repeat split; reflexivity.
  - split; [solveJ|].
    right. unfold cfg_same; simpl. repeat split; reflexivity.
Qed.

(* the invariants along one packet, and what can happen to the mode *)
Lemma step_inv w0 st i :
  J st -> Forall (consistent d p) w0 -> (length w0 <= 258)%nat -> Win w0 st i -> (i < N)%nat ->
  exists st' out, dec_decode mk st (pk i) = Ok (st', out) /\ J st' /\ Win w0 st' (S i) /\
    (Adopted st -> Adopted st') /\
    (d_should st = true -> Adopted st' \/ (cfg_same st st' /\ d_should st' = true)) /\
    (d_should st = false ->
       (type_mismatch st (s0 + Z.of_nat i) (sender_flag d p (s0 + Z.of_nat i)) = false /\ cfg_same st st' /\ d_should st' = false)
       \/ (type_mismatch st (s0 + Z.of_nat i) (sender_flag d p (s0 + Z.of_nat i)) = true /\
           (Adopted st' \/ (cfg_same st st' /\ d_should st' = true)))).
Proof.
  intros HJ Hw0 Hl0 Hwin Hi.
  destruct (step st i HJ Hi) as (st' & out & He & Hat & Hcase).
  pose proof HJ as (H1 & H2 & H3 & H4 & H5 & H6).
  destruct (win_step w0 st i (d_at st') H6 Hwin Hat) as (Hwf' & Hwin').
  exists st', out. split; [exact He|].
  destruct Hcase as [(Etrue & Hst')|(Efalse & Hsame & Hsh')].
  - (* tuning step *)
    set (st1 := set_at st (at_sample (d_at st) (pbit i) (s0 + Z.of_nat i))) in *.
    assert (HJ1 : J st1) by (unfold st1; unfold J; simpl; rewrite <- Hat; tauto).
    assert (Hc1 : Forall (consistent d p) (at_window (d_at st1))).
    { unfold st1; simpl. rewrite <- Hat. apply (win_consistent w0 st' (S i) Hw0 ltac:(lia) Hwin'). }
    destruct (retune_J st1 HJ1 Hc1) as (HJ' & Hmode). rewrite <- Hst' in *.
    assert (Hmode' : Adopted st' \/ cfg_same st st' /\ d_should st' = true) by exact Hmode.
    split; [exact HJ'|]. split; [exact Hwin'|]. split; [|split].
    + intros (Hcfg & Hsh). destruct Hmode' as [Ha|(Hc & Hs)]; [exact Ha|].
      (* adopted and yet a tuning step: the flag was clear, so the type test failed - impossible *)
      exfalso. rewrite Hsh in Etrue. simpl in Etrue.
      destruct Hcfg as (c1 & c2 & c3 & c4).
      unfold type_mismatch, sender_flag in Etrue. rewrite c1, c3 in Etrue.
      destruct ((s0 + Z.of_nat i) mod ss <? d); discriminate.
    + intros _. exact Hmode'.
    + intros Hsf. right. rewrite Hsf in Etrue. simpl in Etrue. split; [exact Etrue|exact Hmode'].
  - (* stored *)
    apply orb_false_iff in Efalse as [Es Em].
    assert (HJ' : J st').
    { destruct Hsame as (c1 & c2 & c3 & c4). unfold J. rewrite c1, c2, c3, c4. tauto. }
    split; [exact HJ'|]. split; [exact Hwin'|]. split; [|split].
    + intros ((c1 & c2 & c3 & c4) & _). destruct Hsame as (e1 & e2 & e3 & e4).
      unfold Adopted, has_cfg. rewrite e1, e2, e3, e4. repeat split; assumption.
    + intros Ht. rewrite Ht in Es. discriminate.
    + intros _. left. split; [exact Em|split; [exact Hsame|exact Hsh']].
Qed.

(* ---- several packets ---- *)

Lemma pks_S i n : pks i (S n) = pk i :: pks (S i) n.
Proof. reflexivity. Qed.

Lemma run_dec_cons st x t :
  run_dec mk st (x :: t) =
  match dec_decode mk st x with
  | Panic w => Panic w
  | Ok (st1, out) => match run_dec mk st1 t with Panic w => Panic w | Ok (st2, outs) => Ok (st2, out :: outs) end
  end.
Proof. reflexivity. Qed.

Lemma cfg_same_trans a b c : cfg_same a b -> cfg_same b c -> cfg_same a c.
Proof. unfold cfg_same. intros (a1 & a2 & a3 & a4) (b1 & b2 & b3 & b4). repeat split; congruence. Qed.

Lemma type_mismatch_cfg a b s f : cfg_same a b -> type_mismatch b s f = type_mismatch a s f.
Proof. intros (c1 & _ & c3 & _). unfold type_mismatch. rewrite c1, c3. reflexivity. Qed.

Section Phases.
Variable w0 : list pulse.
Hypothesis Hw0 : Forall (consistent d p) w0.
Hypothesis Hl0 : (length w0 <= 258)%nat.

(* once adopted, always adopted *)
Lemma run_adopted n : forall i st,
  J st -> Win w0 st i -> Adopted st -> (i + n <= N)%nat ->
  exists st' outs, run_dec mk st (pks i n) = Ok (st', outs) /\ J st' /\ Win w0 st' (i + n) /\ Adopted st'.
Proof.
  induction n as [|n IH]; intros i st HJ Hw Ha Hn.
  - exists st, []. rewrite Nat.add_0_r. simpl. auto.
  - destruct (step_inv w0 st i HJ Hw0 Hl0 Hw ltac:(lia)) as (st1 & out & He & HJ1 & Hw1 & Had & _ & _).
    destruct (IH (S i) st1 HJ1 Hw1 (Had Ha) ltac:(lia)) as (st2 & outs & He2 & HJ2 & Hw2 & Ha2).
    exists st2, (out :: outs). rewrite pks_S, run_dec_cons, He, He2.
    replace (i + S n)%nat with (S i + n)%nat by lia. auto.
Qed.

(* while tuning: adopted, or still tuning with the same ratio *)
Lemma run_tuning n : forall i st,
  J st -> Win w0 st i -> (Adopted st \/ d_should st = true) -> (i + n <= N)%nat ->
  exists st' outs, run_dec mk st (pks i n) = Ok (st', outs) /\ J st' /\ Win w0 st' (i + n) /\
    (Adopted st' \/ d_should st' = true).
Proof.
  induction n as [|n IH]; intros i st HJ Hw Hm Hn.
  - exists st, []. rewrite Nat.add_0_r. simpl. auto.
  - destruct (step_inv w0 st i HJ Hw0 Hl0 Hw ltac:(lia)) as (st1 & out & He & HJ1 & Hw1 & Had & Htu & _).
    assert (Hm1 : Adopted st1 \/ d_should st1 = true).
    { destruct Hm as [Ha|Ht]; [left; auto|]. destruct (Htu Ht) as [Ha|(_ & Hs)]; auto. }
    destruct (IH (S i) st1 HJ1 Hw1 Hm1 ltac:(lia)) as (st2 & outs & He2 & HJ2 & Hw2 & Hm2).
    exists st2, (out :: outs). rewrite pks_S, run_dec_cons, He, He2.
    replace (i + S n)%nat with (S i + n)%nat by lia. auto.
Qed.

(* flag clear, and the packet k steps ahead fails the type test of the present ratio: after it
   (at the latest) the decoder is tuning or has adopted *)
Lemma run_until_mismatch k : forall i st,
  J st -> Win w0 st i -> d_should st = false ->
  type_mismatch st (s0 + Z.of_nat (i + k)) (sender_flag d p (s0 + Z.of_nat (i + k))) = true ->
  (i + k < N)%nat ->
  exists st' outs, run_dec mk st (pks i (S k)) = Ok (st', outs) /\ J st' /\ Win w0 st' (i + S k) /\
    (Adopted st' \/ d_should st' = true).
Proof.
  induction k as [|k IH]; intros i st HJ Hw Hsf Hmis Hn.
  - rewrite Nat.add_0_r in Hmis.
    destruct (step_inv w0 st i HJ Hw0 Hl0 Hw ltac:(lia)) as (st1 & out & He & HJ1 & Hw1 & _ & _ & Hq).
    exists st1, [out]. rewrite pks_S, run_dec_cons, He. simpl.
    replace (i + 1)%nat with (S i) by lia. split; [reflexivity|]. split; [assumption|]. split; [assumption|].
    destruct (Hq Hsf) as [(Hno & _)|(_ & [Ha|(_ & Hs)])]; [congruence|auto|auto].
  - destruct (step_inv w0 st i HJ Hw0 Hl0 Hw ltac:(lia)) as (st1 & out & He & HJ1 & Hw1 & _ & _ & Hq).
    destruct (Hq Hsf) as [(Hno & Hsame & Hs1)|(_ & Hm1)].
    + (* stored; the ratio is unchanged, so is the verdict on the packet ahead *)
      destruct (IH (S i) st1 HJ1 Hw1 Hs1) as (st2 & outs & He2 & HJ2 & Hw2 & Hm2).
      * rewrite (type_mismatch_cfg st st1 _ _ Hsame). replace (S i + k)%nat with (i + S k)%nat by lia. exact Hmis.
      * lia.
      * exists st2, (out :: outs). rewrite pks_S, run_dec_cons, He, He2.
        replace (i + S (S k))%nat with (S i + S k)%nat by lia. auto.
    + (* an earlier packet already failed the test *)
      assert (Hm1' : Adopted st1 \/ d_should st1 = true) by (destruct Hm1 as [Ha|(_ & Hs)]; auto).
      destruct (run_tuning (S k) (S i) st1 HJ1 Hw1 Hm1' ltac:(lia)) as (st2 & outs & He2 & HJ2 & Hw2 & Hm2).
      exists st2, (out :: outs). rewrite pks_S, run_dec_cons, He, He2.
      replace (i + S (S k))%nat with (S i + S k)%nat by lia. auto.
Qed.

(* the window after packet j >= 257 is the last 258 samples of the run itself *)
Lemma window_clean st j :
  Win w0 st (S j) -> (257 <= j)%nat ->
  at_window (d_at st) = run_pulses d p (s0 + Z.of_nat (j - 257)) 258.
Proof.
  intros Hw Hj. rewrite Hw. unfold run_pulses at 1. unfold rw.
  rewrite lastn_app_long by (rewrite map_length, seq_length; lia).
  unfold lastn. rewrite map_length, seq_length, skipn_map_seq.
  replace (0 + (S j - 258))%nat with (j - 257)%nat by lia. replace (S j - (S j - 258))%nat with 258%nat by lia.
  unfold run_pulses, rw. rewrite (seq_add_map (j - 257) 258), map_map.
  apply map_ext. intros k. unfold rp.
  replace (s0 + Z.of_nat (j - 257) + Z.of_nat k) with (s0 + Z.of_nat (j - 257 + k)) by lia. reflexivity.
Qed.

(* tuning, and packet j completes an aligned clean window: d/p is adopted *)
Lemma tuning_adopts st j :
  J st -> Win w0 st j -> d_should st = true -> (j < N)%nat -> (257 <= j)%nat ->
  (s0 + Z.of_nat (j - 257)) mod ss = ss - 1 ->
  exists st' out, dec_decode mk st (pk j) = Ok (st', out) /\ J st' /\ Win w0 st' (S j) /\ Adopted st'.
Proof.
  intros HJ Hw Hs Hj H257 Hal.
  destruct (step_inv w0 st j HJ Hw0 Hl0 Hw Hj) as (st' & out & He & HJ' & Hw' & _ & _ & _).
  exists st', out. split; [exact He|]. split; [exact HJ'|]. split; [exact Hw'|].
  destruct (step st j HJ Hj) as (st'' & out'' & He'' & Hat & Hcase). rewrite He in He''. inversion He''; subst st'' out''.
  destruct Hcase as [(_ & Hst')|(Ef & _)]; [|rewrite Hs in Ef; discriminate].
  set (st1 := set_at st (at_sample (d_at st) (pbit j) (s0 + Z.of_nat j))) in *.
  pose proof HJ as (H1 & H2 & H3 & H4 & H5 & H6).
  assert (Hwin1 : at_window (d_at st1) = run_pulses d p (s0 + Z.of_nat (j - 257)) 258).
  { unfold st1; simpl. rewrite <- Hat. apply (window_clean st' j Hw' H257). }
  destruct (retune_complete d p (s0 + Z.of_nat (j - 257)) 258 st1 Hd Hp Hss ltac:(lia) Hal ltac:(lia) ltac:(lia) Hwin1 H3 H5)
    as (Hcfg & Hsh).
  rewrite Hst'. split; assumption.
Qed.

(* an aligned index within d+p of any m *)
Lemma aligned_index m : (257 <= m)%nat ->
  exists j, (m <= j < m + Z.to_nat ss)%nat /\ (s0 + Z.of_nat (j - 257)) mod ss = ss - 1.
Proof.
  intros Hm. set (x := s0 + Z.of_nat (m - 257)).
  pose proof (Z.div_mod x ss ltac:(lia)) as Hdm. pose proof (Z.mod_pos_bound x ss ltac:(lia)) as Hr.
  remember (x mod ss) as r eqn:Er. remember (x / ss) as q eqn:Eq. clear Er Eq.
  exists (m + Z.to_nat (ss - 1 - r))%nat. split; [lia|].
  replace (s0 + Z.of_nat (m + Z.to_nat (ss - 1 - r) - 257)) with (ss * q + (ss - 1)) by (unfold x in Hdm; lia).
  apply mod_mult_shift; lia.
Qed.

(* from any point up to index d+p+256 with the decoder tuning or adopted: adopted at the end *)
Lemma finish i st :
  J st -> Win w0 st i -> (Adopted st \/ d_should st = true) ->
  (Z.of_nat i <= ss + 256) -> N = Z.to_nat (258 + 2 * ss) ->
  exists st' outs, run_dec mk st (pks i (N - i)) = Ok (st', outs) /\ J st' /\ Adopted st'.
Proof.
  intros HJ Hw Hm Hi HN'.
  destruct (aligned_index (Nat.max i 257) ltac:(lia)) as (j & Hj & Hal).
  assert (HjN : (j < N)%nat) by lia.
  (* packets i .. j-1 *)
  destruct (run_tuning (j - i) i st HJ Hw Hm ltac:(lia)) as (st1 & outs1 & He1 & HJ1 & Hw1 & Hm1).
  replace (i + (j - i))%nat with j in Hw1 by lia.
  (* packet j *)
  assert (Hstep : exists st2 out2, dec_decode mk st1 (pk j) = Ok (st2, out2) /\ J st2 /\ Win w0 st2 (S j) /\ Adopted st2).
  { destruct Hm1 as [Ha|Ht].
    - destruct (step_inv w0 st1 j HJ1 Hw0 Hl0 Hw1 HjN) as (st2 & out2 & He2 & HJ2 & Hw2 & Had & _ & _).
      exists st2, out2. auto.
    - apply (tuning_adopts st1 j HJ1 Hw1 Ht HjN ltac:(lia) Hal). }
  destruct Hstep as (st2 & out2 & He2 & HJ2 & Hw2 & Ha2).
  (* the rest *)
  destruct (run_adopted (N - S j) (S j) st2 HJ2 Hw2 Ha2 ltac:(lia)) as (st3 & outs3 & He3 & HJ3 & _ & Ha3).
  exists st3, (outs1 ++ out2 :: outs3). split; [|split; assumption].
  replace (N - i)%nat with ((j - i) + S (N - S j))%nat by lia.
  unfold pks. rewrite seq_app, map_app. fold (pks i (j - i)).
  replace (i + (j - i))%nat with j by lia. fold (pks j (S (N - S j))). rewrite pks_S.
  clear - He1 He2 He3.
  revert st He1. generalize (pks i (j - i)) as l. intros l. revert outs1.
  induction l as [|x l IH]; intros outs1 st He1.
  - simpl in He1. inversion He1; subst. simpl app. rewrite run_dec_cons, He2, He3. reflexivity.
  - rewrite run_dec_cons in He1. simpl app. rewrite run_dec_cons.
    destruct (dec_decode mk st x) as [[sta outa]|w]; [|discriminate].
    destruct (run_dec mk sta l) as [[stb outsb]|w] eqn:Er; [|discriminate].
    inversion He1; subst. rewrite (IH outsb sta Er). reflexivity.
Qed.

End Phases.

(* THE BOUND *)
Theorem converges st :
  N = Z.to_nat (258 + 2 * ss) ->
  J st -> Forall (consistent d p) (at_window (d_at st)) ->
  exists st' outs, run_dec mk st (pks 0 N) = Ok (st', outs) /\ has_cfg st' d p /\ d_should st' = false.
Proof.
  intros HN' HJ Hcons.
  set (w0 := at_window (d_at st)).
  assert (Hl0 : (length w0 <= 258)%nat).
  { unfold w0. rewrite at_window_len. destruct HJ as (_ & _ & _ & _ & _ & (_ & [H|H])); lia. }
  assert (Hw : Win w0 st 0).
  { unfold Win. unfold run_pulses, rw. simpl. rewrite app_nil_r. rewrite lastn_short by assumption. reflexivity. }
  assert (Hfin : forall i st1, J st1 -> Win w0 st1 i -> (Adopted st1 \/ d_should st1 = true) -> Z.of_nat i <= ss + 256 ->
            forall outs0, run_dec mk st (pks 0 i) = Ok (st1, outs0) ->
            exists st' outs, run_dec mk st (pks 0 N) = Ok (st', outs) /\ has_cfg st' d p /\ d_should st' = false).
  { intros i st1 HJ1 Hw1 Hm1 Hi outs0 He0.
    destruct (finish w0 Hcons Hl0 i st1 HJ1 Hw1 Hm1 Hi HN') as (st' & outs & He & _ & (Hc & Hs)).
    exists st', (outs0 ++ outs). split; [|split; assumption].
    replace N with (i + (N - i))%nat by lia. unfold pks. rewrite seq_app, map_app. simpl plus.
    fold (pks 0 i). fold (pks i (N - i)).
    clear - He0 He. revert st outs0 He0. generalize (pks 0 i) as l.
    induction l as [|x l IH]; intros st outs0 He0.
    - simpl in He0. inversion He0; subst. exact He.
    - rewrite run_dec_cons in He0. simpl app. rewrite run_dec_cons.
      destruct (dec_decode mk st x) as [[sta outa]|w]; [|discriminate].
      destruct (run_dec mk sta l) as [[stb outsb]|w] eqn:Er; [|discriminate].
      inversion He0; subst. rewrite (IH sta outsb Er). reflexivity. }
  destruct (d_should st) eqn:Es.
  - (* already tuning *)
    apply (Hfin 0%nat st HJ Hw (or_intror Es) ltac:(lia) []). reflexivity.
  - destruct (Z.eq_dec d (d_data st)) as [Ed|Ed]; [destruct (Z.eq_dec p (d_parity st)) as [Ep|Ep]|].
    + (* the ratio already matches *)
      assert (Ha : Adopted st).
      { destruct HJ as (_ & _ & H3 & _ & H5 & _). unfold Adopted, has_cfg. rewrite H5, H3, <- Ed, <- Ep. auto. }
      apply (Hfin 0%nat st HJ Hw (or_introl Ha) ltac:(lia) []). reflexivity.
    + pose proof HJ as (H1 & H2 & H3 & H4 & H5 & H6).
      destruct (mismatch_detected st d p s0 Hd Hp H1 H2 H3 (or_intror Ep) Hs0) as (s & Hr & Hmis).
      destruct (run_until_mismatch w0 Hcons Hl0 (Z.to_nat (s - s0)) 0 st HJ Hw Es) as (st1 & outs1 & He1 & HJ1 & Hw1 & Hm1).
      * simpl plus. rewrite Z2Nat.id by lia. replace (s0 + (s - s0)) with s by lia. exact Hmis.
      * lia.
      * apply (Hfin (0 + S (Z.to_nat (s - s0)))%nat st1 HJ1 Hw1 Hm1 ltac:(lia) outs1 He1).
    + pose proof HJ as (H1 & H2 & H3 & H4 & H5 & H6).
      destruct (mismatch_detected st d p s0 Hd Hp H1 H2 H3 (or_introl Ed) Hs0) as (s & Hr & Hmis).
      destruct (run_until_mismatch w0 Hcons Hl0 (Z.to_nat (s - s0)) 0 st HJ Hw Es) as (st1 & outs1 & He1 & HJ1 & Hw1 & Hm1).
      * simpl plus. rewrite Z2Nat.id by lia. replace (s0 + (s - s0)) with s by lia. exact Hmis.
      * lia.
      * apply (Hfin (0 + S (Z.to_nat (s - s0)))%nat st1 HJ1 Hw1 Hm1 ltac:(lia) outs1 He1).
Qed.

End Converge.
