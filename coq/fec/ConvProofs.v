(* C16: composition of the convergence bound.  An uninterrupted in-order run of N = 258 + 2(d+p)
   packets of a d/p sender, from any start id (not straddling the sender's wrap), into a decoder
   with ANY valid ratio, any group table, tune flag set or not, whose ring holds only samples of
   that sender (e.g. empty, or earlier packets of the same sender lost/duplicated/reordered):
   afterwards the decoder has d/p and the flag is clear. *)
From Coq Require Import ZArith List Bool Lia Arith.
From KV.Base Require Import Consts Word WordLemmas.
From KV.Fec Require Import Codec AutoTune Fec FecSpec FecProofs FecProofs2 AutoTuneProofs TuneProofs.
Import ListNotations.
Local Open Scope Z_scope.

Ltac Zify.zify_post_hook ::= idtac.

(* ------------------------------------------------------------ last n elements *)

Definition lastn {A} (n : nat) (l : list A) : list A := skipn (length l - n) l.

Lemma lastn_short {A} n (l : list A) : (length l <= n)%nat -> lastn n l = l.
Proof. intros. unfold lastn. replace (length l - n)%nat with 0%nat by lia. reflexivity. Qed.

Lemma lastn_length {A} n (l : list A) : length (lastn n l) = Nat.min n (length l).
Proof. unfold lastn. rewrite skipn_length. lia. Qed.

Lemma skipn_S_1 {A} (l : list A) : forall k, skipn (S k) l = skipn 1 (skipn k l).
Proof.
  induction l as [|a l IH]; intros k; [destruct k; reflexivity|].
  destruct k as [|k]; [reflexivity|]. exact (IH k).
Qed.

Lemma lastn_app_snoc {A} n (l : list A) x : (0 < n)%nat -> lastn n (lastn n l ++ [x]) = lastn n (l ++ [x]).
Proof.
  intros Hn. unfold lastn. rewrite !app_length, skipn_length. simpl length.
  destruct (Nat.le_gt_cases (length l) n) as [Hle|Hgt].
  - replace (length l - n)%nat with 0%nat by lia. simpl skipn. rewrite Nat.sub_0_r. reflexivity.
  - replace (length l - (length l - n) + 1 - n)%nat with 1%nat by lia.
    replace (length l + 1 - n)%nat with (S (length l - n)) by lia.
    rewrite skipn_app. rewrite skipn_length.
    replace (1 - (length l - (length l - n)))%nat with 0%nat by lia. simpl (skipn 0 [x]).
    rewrite (skipn_app (S (length l - n))).
    replace (S (length l - n) - length l)%nat with 0%nat by lia. simpl (skipn 0 [x]).
    f_equal. symmetry. apply skipn_S_1.
Qed.

Lemma push_window_lastn w x : (length w <= 258)%nat -> push_window w x = lastn 258 (w ++ [x]).
Proof.
  intros H. unfold push_window, lastn. rewrite app_length. simpl length.
  destruct (Nat.ltb (length w) 258) eqn:E.
  - apply Nat.ltb_lt in E. replace (length w + 1 - 258)%nat with 0%nat by lia. reflexivity.
  - apply Nat.ltb_ge in E. replace (length w + 1 - 258)%nat with 1%nat by lia.
    destruct w; [simpl in E; lia|reflexivity].
Qed.

Lemma lastn_app_long {A} n (a b : list A) : (n <= length b)%nat -> lastn n (a ++ b) = lastn n b.
Proof.
  intros H. unfold lastn. rewrite app_length, skipn_app.
  replace (length a + length b - n - length a)%nat with (length b - n)%nat by lia.
  rewrite (skipn_all2 a) by lia. reflexivity.
Qed.

Lemma in_skipn' {A} (x : A) : forall n l, In x (skipn n l) -> In x l.
Proof. induction n; destruct l; simpl; intros H; auto. Qed.

Lemma skipn_map_seq {A} (f : nat -> A) : forall n k j, skipn j (map f (seq k n)) = map f (seq (k + j) (n - j)).
Proof.
  induction n as [|n IH]; intros k j; [destruct j; reflexivity|].
  destruct j; [simpl; rewrite Nat.add_0_r; reflexivity|].
  simpl. rewrite IH. replace (S k + j)%nat with (k + S j)%nat by lia. reflexivity.
Qed.

(* ------------------------------------------------------------ the run *)

Section Converge.
Variable mk : Z -> Z -> codec.
Variables d p s0 : Z.
Variable body : nat -> bytes.
Variable N : nat.
Hypothesis Hd : 0 < d.
Hypothesis Hp : 0 < p.
Hypothesis Hss : d + p <= 255.
Hypothesis Hs0 : 0 <= s0.
Hypothesis Hbody : forall i, blen (body i) + c_fecHeaderSize <= c_mtuLimit.
Hypothesis HN : s0 + Z.of_nat N <= 4294967296 - 257.
Local Notation ss := (d + p).

Definition pbit (i : nat) : bool := (s0 + Z.of_nat i) mod ss <? d.
Definition pk (i : nat) : bytes :=
  le32 (s0 + Z.of_nat i) ++ le16 (sender_flag d p (s0 + Z.of_nat i)) ++ body i.
Definition pks (i n : nat) : list bytes := map pk (seq i n).

Lemma pk_fields i : (i < N)%nat ->
  pk_seqid (pk i) = s0 + Z.of_nat i /\ pk_flag (pk i) = sender_flag d p (s0 + Z.of_nat i) /\
  (pk_flag (pk i) =? c_typeData) = pbit i /\ c_fecHeaderSize <= blen (pk i) <= c_mtuLimit.
Proof.
  intros Hi. unfold pk.
  assert (H1 : pk_seqid (le32 (s0 + Z.of_nat i) ++ le16 (sender_flag d p (s0 + Z.of_nat i)) ++ body i) = s0 + Z.of_nat i).
  { unfold pk_seqid. apply rd32_le32'. lia. }
  assert (H2 : pk_flag (le32 (s0 + Z.of_nat i) ++ le16 (sender_flag d p (s0 + Z.of_nat i)) ++ body i) = sender_flag d p (s0 + Z.of_nat i)).
  { unfold pk_flag. rewrite skipn_le32. apply rd16_le16. unfold sender_flag, c_typeData, c_typeParity.
    destruct (_ <? d); lia. }
  split; [exact H1|]. split; [exact H2|]. split.
  - rewrite H2. unfold sender_flag, pbit. destruct ((s0 + Z.of_nat i) mod ss <? d); reflexivity.
  - rewrite !blen_app. change (blen (le32 _)) with 4. change (blen (le16 _)) with 2.
    pose proof (Hbody i). pose proof (blen_nonneg (body i)). unfold c_fecHeaderSize, c_mtuLimit in *. lia.
Qed.

Lemma rw_snoc i : run_pulses d p s0 (S i) = run_pulses d p s0 i ++ [mkPulse (pbit i) (s0 + Z.of_nat i)].
Proof. unfold run_pulses, rw. rewrite seq_S, map_app. reflexivity. Qed.

Lemma pulse_consistent i : (i < N)%nat -> consistent d p (mkPulse (pbit i) (s0 + Z.of_nat i)).
Proof. intros. unfold consistent, pbit; simpl. split; [reflexivity|lia]. Qed.

(* ---- the decoder along the run ---- *)

Definition J (st : fecdec) : Prop :=
  0 < d_data st /\ 0 < d_parity st /\ d_size st = d_data st + d_parity st /\ d_size st <= 256 /\
  d_paws st = paws_of (d_size st) /\ at_wf (d_at st).

Definition Win (w0 : list pulse) (st : fecdec) (i : nat) : Prop :=
  at_window (d_at st) = lastn 258 (w0 ++ run_pulses d p s0 i).

Definition Adopted (st : fecdec) : Prop := has_cfg st d p /\ d_should st = false.

Definition cfg_same (a b : fecdec) : Prop :=
  d_data b = d_data a /\ d_parity b = d_parity a /\ d_size b = d_size a /\ d_paws b = d_paws a.

Lemma J_paws st i : J st -> (i < N)%nat -> s0 + Z.of_nat i < d_paws st.
Proof.
  intros (H1 & H2 & H3 & H4 & H5 & _) Hi. rewrite H5.
  destruct (paws_of_bounds (d_size st) ltac:(lia)) as (_ & _ & Hlo). lia.
Qed.

Lemma win_consistent w0 st i : Forall (consistent d p) w0 -> (i <= N)%nat -> Win w0 st i ->
  Forall (consistent d p) (at_window (d_at st)).
Proof.
  intros Hw Hi ->. unfold lastn. apply Forall_forall. intros x Hx. apply in_skipn' in Hx.
  apply in_app_or in Hx. destruct Hx as [Hx|Hx]; [rewrite Forall_forall in Hw; auto|].
  unfold run_pulses, rw in Hx. apply in_map_iff in Hx. destruct Hx as (k & <- & Hk). apply in_seq in Hk.
  apply (pulse_consistent k). lia.
Qed.

Lemma win_step w0 st i t' :
  at_wf (d_at st) -> Win w0 st i ->
  t' = at_sample (d_at st) (pbit i) (s0 + Z.of_nat i) ->
  at_wf t' /\ at_window t' = lastn 258 (w0 ++ run_pulses d p s0 (S i)).
Proof.
  intros Hwf Hw ->. destruct (at_sample_window (d_at st) (pbit i) (s0 + Z.of_nat i) Hwf) as (Hwf' & Hpush).
  split; [assumption|]. rewrite Hpush, Hw.
  rewrite push_window_lastn by (rewrite lastn_length; lia).
  rewrite lastn_app_snoc by lia. rewrite rw_snoc, app_assoc. reflexivity.
Qed.

(* one packet of the run *)
Lemma step st i :
  J st -> (i < N)%nat ->
  exists st' out, dec_decode mk st (pk i) = Ok (st', out) /\
    d_at st' = at_sample (d_at st) (pbit i) (s0 + Z.of_nat i) /\
    ((d_should st || type_mismatch st (s0 + Z.of_nat i) (sender_flag d p (s0 + Z.of_nat i)) = true /\
      st' = dec_retune (set_at st (at_sample (d_at st) (pbit i) (s0 + Z.of_nat i)))) \/
     (d_should st || type_mismatch st (s0 + Z.of_nat i) (sender_flag d p (s0 + Z.of_nat i)) = false /\
      cfg_same st st' /\ d_should st' = false)).
Proof.
  intros HJ Hi. destruct (pk_fields i Hi) as (Hseq & Hflag & Hbit & Hlen).
  pose proof (J_paws st i HJ Hi) as Hpw.
  destruct (d_should st || type_mismatch st (s0 + Z.of_nat i) (sender_flag d p (s0 + Z.of_nat i))) eqn:E.
  - exists (dec_retune (set_at st (at_sample (d_at st) (pbit i) (s0 + Z.of_nat i)))), [].
    split; [|split].
    + rewrite (decode_tuning_step mk st (pk i)); [rewrite Hbit, Hseq; reflexivity|lia|rewrite Hseq; assumption|rewrite Hseq, Hflag; assumption].
    + unfold dec_retune. simpl. repeat (destruct (_ : bool); simpl; try reflexivity).
    + left. split; reflexivity.
  - apply orb_false_iff in E as [Es Em].
    unfold dec_decode. destruct (blen (pk i) <? c_fecHeaderSize) eqn:El; [apply Z.ltb_lt in El; lia|].
    rewrite Hbit, Hseq, Hflag.
    set (st1 := set_at st (at_sample (d_at st) (pbit i) (s0 + Z.of_nat i))).
    replace (d_paws st1) with (d_paws st) by reflexivity.
    destruct (d_paws st <=? s0 + Z.of_nat i) eqn:Ew; [apply Z.leb_le in Ew; lia|].
    replace (d_should st1) with (d_should st) by reflexivity.
    replace (type_mismatch st1 (s0 + Z.of_nat i) (sender_flag d p (s0 + Z.of_nat i)))
      with (type_mismatch st (s0 + Z.of_nat i) (sender_flag d p (s0 + Z.of_nat i))) by reflexivity.
    rewrite Es, Em. simpl orb. cbv iota.
    destruct (dec_store_ok mk st1 (pk i) (s0 + Z.of_nat i) ltac:(lia)) as (st' & out & He & Hc & Hat).
    exists st', out. split; [exact He|]. split; [rewrite Hat; reflexivity|].
    right. split; [reflexivity|]. destruct Hc as (c1 & c2 & c3 & c4 & c5).
    split; [unfold cfg_same; simpl in *; auto|]. rewrite c5. exact Es.
Qed.

Lemma retune_J st1 : J st1 -> Forall (consistent d p) (at_window (d_at st1)) ->
  J (dec_retune st1) /\
  (Adopted (dec_retune st1) \/ (cfg_same st1 (dec_retune st1) /\ d_should (dec_retune st1) = true)).
Proof.
  intros (H1 & H2 & H3 & H4 & H5 & H6) Hcons.
  assert (Hat : d_at (dec_retune st1) = d_at st1).
  { unfold dec_retune. repeat (destruct (_ : bool); simpl; try reflexivity). }
  unfold dec_retune in *.
  destruct ((0 <? find_period (d_at st1) true) && (0 <? find_period (d_at st1) false) &&
            (find_period (d_at st1) true + find_period (d_at st1) false <? 256)) eqn:E.
  - apply andb_true_iff in E as [E _]. apply andb_true_iff in E as [E1 E2].
    apply Z.ltb_lt in E1. apply Z.ltb_lt in E2.
    pose proof (find_period_sound d p (d_at st1) true _ Hd Hp Hcons eq_refl E1) as F1.
    pose proof (find_period_sound d p (d_at st1) false _ Hd Hp Hcons eq_refl E2) as F2.
    simpl in F1, F2. rewrite F1, F2 in *.
    destruct (negb (d =? d_data st1) || negb (p =? d_parity st1)) eqn:En.
    + split; [unfold J; simpl; repeat split; try lia; assumption|].
      left. unfold Adopted, has_cfg; simpl. repeat split; reflexivity.
    + apply orb_false_iff in En as [Ea Eb]. apply negb_false_iff in Ea. apply negb_false_iff in Eb.
      apply Z.eqb_eq in Ea. apply Z.eqb_eq in Eb.
      split; [unfold J; simpl; repeat split; try lia; assumption|].
      left. unfold Adopted, has_cfg; simpl. rewrite H5, H3, <- Ea, <- Eb. repeat split; reflexivity.
  - split; [unfold J; simpl; repeat split; try lia; assumption|].
    right. unfold cfg_same; simpl. repeat split; reflexivity.
Qed.

(* the invariants along one packet, and what can happen to the mode *)
Lemma step_inv w0 st i :
  J st -> Forall (consistent d p) w0 -> (length w0 <= 258)%nat -> Win w0 st i -> (i < N)%nat ->
  exists st' out, dec_decode mk st (pk i) = Ok (st', out) /\ J st' /\ Win w0 st' (S i) /\
    (Adopted st -> Adopted st') /\
    (d_should st = true -> Adopted st' \/ (cfg_same st st' /\ d_should st' = true)) /\
    (d_should st = false ->
       (type_mismatch st (s0 + Z.of_nat i) (sender_flag d p (s0 + Z.of_nat i)) = false /\ cfg_same st st' /\ d_should st' = false)
       \/ (type_mismatch st (s0 + Z.of_nat i) (sender_flag d p (s0 + Z.of_nat i)) = true /\
           (Adopted st' \/ (cfg_same st st' /\ d_should st' = true)))).
Proof.
  intros HJ Hw0 Hl0 Hwin Hi.
  destruct (step st i HJ Hi) as (st' & out & He & Hat & Hcase).
  pose proof HJ as (H1 & H2 & H3 & H4 & H5 & H6).
  destruct (win_step w0 st i (d_at st') H6 Hwin Hat) as (Hwf' & Hwin').
  exists st', out. split; [exact He|].
  destruct Hcase as [(Etrue & Hst')|(Efalse & Hsame & Hsh')].
  - (* tuning step *)
    set (st1 := set_at st (at_sample (d_at st) (pbit i) (s0 + Z.of_nat i))) in *.
    assert (HJ1 : J st1) by (unfold J, st1; simpl; rewrite <- Hat; repeat split; assumption).
    assert (Hc1 : Forall (consistent d p) (at_window (d_at st1))).
    { unfold st1; simpl. rewrite <- Hat. apply (win_consistent w0 st' (S i) Hw0 ltac:(lia) Hwin'). }
    destruct (retune_J st1 HJ1 Hc1) as (HJ' & Hmode). rewrite <- Hst' in *.
    assert (Hmode' : Adopted st' \/ cfg_same st st' /\ d_should st' = true) by exact Hmode.
    split; [exact HJ'|]. split; [exact Hwin'|]. split; [|split].
    + intros (Hcfg & Hsh). destruct Hmode' as [Ha|(Hc & Hs)]; [exact Ha|].
      (* adopted and yet a tuning step: the flag was clear, so the type test failed - impossible *)
      exfalso. rewrite Hsh in Etrue. simpl in Etrue.
      destruct Hcfg as (c1 & c2 & c3 & c4).
      unfold type_mismatch, sender_flag in Etrue. rewrite c1, c3 in Etrue.
      destruct ((s0 + Z.of_nat i) mod ss <? d); discriminate.
    + intros _. exact Hmode'.
    + intros Hsf. right. rewrite Hsf in Etrue. simpl in Etrue. split; [exact Etrue|exact Hmode'].
  - (* stored *)
    apply orb_false_iff in Efalse as [Es Em].
    assert (HJ' : J st').
    { destruct Hsame as (c1 & c2 & c3 & c4). unfold J. rewrite c1, c2, c3, c4. repeat split; assumption. }
    split; [exact HJ'|]. split; [exact Hwin'|]. split; [|split].
    + intros ((c1 & c2 & c3 & c4) & _). destruct Hsame as (e1 & e2 & e3 & e4).
      unfold Adopted, has_cfg. rewrite e1, e2, e3, e4. repeat split; assumption.
    + intros Ht. rewrite Ht in Es. discriminate.
    + intros _. left. repeat split; assumption.
Qed.

End Converge.
