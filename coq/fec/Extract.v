(* Extraction of the executable FEC / autotune / Reed-Solomon models.  ExtrOcamlBasic only; nat,
   positive, Z stay the extracted inductive types; no Extract Constant. *)
From Coq Require Import Extraction ExtrOcamlBasic ZArith.
From KV.Fec Require Import Gf256 Codec Rs AutoTune Fec.
Extraction "fec_model.ml" at_init at_sample find_period dec_new dec_decode enc_new enc_at
  enc_encode enc_oob sess_fec_input rs_codec.
