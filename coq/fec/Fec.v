(* fec.go transcribed: fecPacket accessors, fecEncoder.encode / encodeOOB, fecDecoder.decode,
   and the FEC branch of UDPSession.kcpInput (sess.go) that feeds the ARQ core.
   - machine integers are Z with the wrap written out; the clock (time.Now().UnixMilli()) is
     the argument `now`;
   - the Reed-Solomon codec is the abstract record of Codec.v, obtained from `mk d p`
     (= reedsolomon.New(d, p)); the decoder re-creates it when it re-tunes, which is why the
     model takes the constructor, not a codec;
   - shardSet (a Go map id -> *shardHeap) is an association list keyed by the shard id; the only
     iterations over the map (discardShards, recycling on re-tune) are order-insensitive;
   - shardHeap: fec.go calls the METHODS Push/Pop (not heap.Push/heap.Pop), i.e. it is used as a
     stack: Push appends + marks the seqid, Pop removes the last element + unmarks it; hence
     marks = the seqids of `elements` at all times and `Has` is a membership test on elements.
     Elements are listed most recent first;
   - pool buffers/capacities are not modelled (C15), except where a slice expression can fault:
     every such place returns Panic.  Sites outside the model: `b[enc.headerOffset:]` (the model's
     encoder argument IS b[headerOffset:]); reedsolomon.New failing for 0<d, 0<p, d+p<=256 and
     codec.Encode failing for equal-length non-empty shards (both impossible, see Rs.v).
   No proofs in this file. *)
From Coq Require Import ZArith List Bool.
From KV.Base Require Import Consts Word.
From KV.Fec Require Import Codec AutoTune.
Import ListNotations.
Local Open Scope Z_scope.

Inductive res (T : Type) := Ok (v : T) | Panic (why : Z).
Arguments Ok {T} v.
Arguments Panic {T} why.

(* panic sites *)
Definition P_decHeader : Z := 1.   (* in.flag(): Uint16(bts[4:]) on a packet shorter than 6 bytes *)
Definition P_decPoolCopy : Z := 2. (* defaultBufferPool.Get()[:len(in)] with len(in) > mtuLimit *)
Definition P_encHeader : Z := 3.   (* sealData / PutUint16(b[payloadOffset:]) on len(b) < payloadOffset+2 *)
Definition P_encCache : Z := 4.    (* enc.shardCache[k][:sz] with sz > mtuLimit *)

(* ---- fecPacket ---- *)
Definition pk_seqid (b : bytes) : Z := rd32 b.
Definition pk_flag (b : bytes) : Z := rd16 (skipn 4 b).
Definition pk_data (b : bytes) : bytes := skipn 6 b.

(* paws = 0xffffffff / shardSize * shardSize *)
Definition paws_of (ss : Z) : Z := 4294967295 / ss * ss.

Definition pad_to (n : nat) (b : bytes) : bytes := b ++ repeat 0 (n - length b).

(* ================================================================ decoder *)

Record fecdec := mkDec {
  d_data : Z; d_parity : Z; d_size : Z; d_paws : Z;
  d_newest : Z;                       (* newestShardId *)
  d_sets : list (Z * list bytes);     (* shardSet: shard id -> elements (most recent first) *)
  d_at : autotune;
  d_should : bool                     (* shouldTune *)
}.

(* newFECDecoder *)
Definition dec_new (d p : Z) : option fecdec :=
  if (d <=? 0) || (p <=? 0) then None
  else if 256 <? d + p then None
  else Some (mkDec d p (d + p) (paws_of (d + p)) 0 [] at_init false).

Fixpoint set_find (id : Z) (sets : list (Z * list bytes)) : option (list bytes) :=
  match sets with
  | [] => None
  | (i, e) :: t => if i =? id then Some e else set_find id t
  end.
Fixpoint set_put (id : Z) (e : list bytes) (sets : list (Z * list bytes)) : list (Z * list bytes) :=
  match sets with
  | [] => [(id, e)]
  | (i, e0) :: t => if i =? id then (i, e) :: t else (i, e0) :: set_put id e t
  end.

Definition has_seqid (sn : Z) (elems : list bytes) : bool := existsb (fun e => pk_seqid e =? sn) elems.

(* the pop loop: shards[seqid % shardSize] = pkt.data(); flags likewise (flag k = slot k filled) *)
Definition fill_shards (ss : Z) (elems : list bytes) : list (option bytes) :=
  fold_left (fun arr e => upd arr (Z.to_nat (pk_seqid e mod ss)) (Some (pk_data e)))
            elems (repeat None (Z.to_nat ss)).
Definition num_data (elems : list bytes) : Z :=
  Z.of_nat (length (filter (fun e => pk_flag e =? c_typeData) elems)).
Definition max_len (elems : list bytes) : nat :=
  fold_left (fun m e => Nat.max m (length (pk_data e))) elems O.

(* case 2 of decode: pad the present shards to maxlen, ReconstructData, return the data shards
   whose flag was absent *)
Definition recover (C : codec) (d : Z) (shards : list (option bytes)) (maxlen : nat) : list bytes :=
  let padded := map (option_map (pad_to maxlen)) shards in
  match c_reconstruct C padded with
  | Some data =>
      concat (map (fun k => match nth k shards None with
                            | None => [nth k data []]
                            | Some _ => []
                            end) (seq 0 (Z.to_nat d)))
  | None => []
  end.

(* discardShards: delete every set with d := _itimediff(newest*ss, id*ss) > maxShardSets*ss - too
   far behind the newest group - or d < 0 - "ahead" of it, which only a group exactly 2^31 ids
   away can be (a genuinely newer group would have become the newest) *)
Definition too_old (ss newest id : Z) : bool :=
  let d := itimediff (u32 (newest * ss)) (u32 (id * ss)) in
  (d >? c_maxShardSets * ss) || (d <? 0).
Definition discard (ss newest : Z) (sets : list (Z * list bytes)) : list (Z * list bytes) :=
  filter (fun '(id, _) => negb (too_old ss newest id)) sets.

Definition set_at (st : fecdec) (t : autotune) : fecdec :=
  mkDec (d_data st) (d_parity st) (d_size st) (d_paws st) (d_newest st) (d_sets st) t (d_should st).
Definition set_should (st : fecdec) (b : bool) : fecdec :=
  mkDec (d_data st) (d_parity st) (d_size st) (d_paws st) (d_newest st) (d_sets st) (d_at st) b.
Definition set_sets (st : fecdec) (newest : Z) (sets : list (Z * list bytes)) : fecdec :=
  mkDec (d_data st) (d_parity st) (d_size st) (d_paws st) newest sets (d_at st) (d_should st).

(* the type-vs-position check *)
Definition type_mismatch (st : fecdec) (seqid flag : Z) : bool :=
  if seqid mod d_size st <? d_data st then negb (flag =? c_typeData)
  else negb (flag =? c_typeParity).

(* the tail of decode once the packet passed the paws and type checks with shouldTune = false:
   find/create the group, dedupe, store, trigger, newestShardId, discardShards *)
Definition dec_store (mk : Z -> Z -> codec) (st : fecdec) (pkt : bytes) (seqid : Z)
  : res (fecdec * list bytes) :=
  let ss := d_size st in
  let shardId := seqid / ss in
  (* no group is held (new decoder, or just re-tuned): this packet defines the position *)
  let newest0 := match d_sets st with [] => shardId | _ => d_newest st end in
  let '(elems, sets0) :=
    match set_find shardId (d_sets st) with
    | Some e => (e, d_sets st)
    | None => ([], set_put shardId [] (d_sets st))
    end in
  if has_seqid seqid elems then Ok (set_sets st newest0 sets0, []) else
  if c_mtuLimit <? blen pkt then Panic P_decPoolCopy else
  let elems1 := pkt :: elems in
  let '(recovered, elems2) :=
    if d_data st <=? Z.of_nat (length elems1) then
      (if num_data elems1 =? d_data st then []
       else recover (mk (d_data st) (d_parity st)) (d_data st)
                    (fill_shards ss elems1) (max_len elems1),
       [])
    else ([], elems1) in
  let sets1 := set_put shardId elems2 sets0 in
  let newest :=
    if itimediff (u32 (shardId * ss)) (u32 (newest0 * ss)) >? 0 then shardId
    else newest0 in
  Ok (set_sets st newest (discard ss newest sets1), recovered).

(* the auto-tuning branch (shouldTune = true): nothing is decoded, both periods are searched *)
Definition dec_retune (st : fecdec) : fecdec :=
  let tune := d_at st in
  let autoDS := find_period tune true in
  let autoPS := find_period tune false in
  if (0 <? autoDS) && (0 <? autoPS) && (autoDS + autoPS <? 256) then
    if negb (autoDS =? d_data st) || negb (autoPS =? d_parity st) then
      mkDec autoDS autoPS (autoDS + autoPS) (paws_of (autoDS + autoPS)) (d_newest st) [] tune false
    else set_should st false
  else set_should st true.

(* func (dec *fecDecoder) decode(in fecPacket) (recovered [][]byte) *)
Definition dec_decode (mk : Z -> Z -> codec) (st0 : fecdec) (pkt : bytes)
  : res (fecdec * list bytes) :=
  if blen pkt <? c_fecHeaderSize then Panic P_decHeader else
  let seqid := pk_seqid pkt in
  let flag := pk_flag pkt in
  (* sample the packet type *)
  let st := set_at st0 (at_sample (d_at st0) (flag =? c_typeData) seqid) in
  (* seqid >= paws: invalid *)
  if d_paws st <=? seqid then Ok (st, []) else
  if d_should st || type_mismatch st seqid flag then Ok (dec_retune st, [])
  else dec_store mk st pkt seqid.

(* ---- the FEC branch (case typeData, typeParity) of UDPSession.kcpInput: what is fed to
   kcp.Input, in order, as (bytes, IKCP_PACKET_REGULAR | IKCP_PACKET_FEC).  A data packet is fed
   BEFORE and independently of decode; a recovered shard r is fed as r[2:sz] iff
   len(r) >= 2 /\ 2 <= sz <= len(r), sz = the little-endian uint16 at r[0:2]. *)
Definition strip_rec (r : bytes) : list (bytes * Z) :=
  if 2 <=? blen r then
    let sz := rd16 r in
    if (sz <=? blen r) && (2 <=? sz) then [(firstn (Z.to_nat (sz - 2)) (skipn 2 r), c_IKCP_PACKET_FEC)]
    else []
  else [].
Definition sess_fec_input (mk : Z -> Z -> codec) (st : fecdec) (pkt : bytes)
  : res (fecdec * list (bytes * Z)) :=
  if blen pkt <? c_fecHeaderSizePlus2 then Ok (st, []) else
  let direct :=
    if pk_flag pkt =? c_typeData then [(skipn (Z.to_nat c_fecHeaderSizePlus2) pkt, c_IKCP_PACKET_REGULAR)]
    else [] in
  match dec_decode mk st pkt with
  | Panic w => Panic w
  | Ok (st', rec) => Ok (st', direct ++ concat (map strip_rec rec))
  end.

(* ================================================================ encoder *)

Record fecenc := mkEnc {
  e_data : Z; e_parity : Z; e_size : Z; e_paws : Z;
  e_next : Z;               (* next seqid *)
  e_count : Z;              (* shardCount *)
  e_max : Z;                (* maxSize (counted from the start of b, i.e. including headerOffset) *)
  e_hoff : Z;               (* headerOffset *)
  e_cache : list bytes;     (* shardCache[0..shardCount)[payloadOffset:len] : size field + payload *)
  e_ts : Z                  (* tsLatestPacket *)
}.

(* newFECEncoder (the model covers d+p <= 256; beyond that reedsolomon.New silently switches to
   another code (Leopard), which kcp-go's decoder refuses anyway) *)
Definition enc_new (d p offset : Z) : option fecenc :=
  if (d <=? 0) || (p <=? 0) then None
  else if 256 <? d + p then None
  else Some (mkEnc d p (d + p) (paws_of (d + p)) 0 0 0 offset [] 0).

(* an encoder positioned between two groups at seqid `next` (a state the encoder reaches by
   itself after next/shardSize groups; used by the harness to start anywhere in the id space) *)
Definition enc_at (d p offset next : Z) : option fecenc :=
  match enc_new d p offset with
  | Some e => Some (mkEnc (e_data e) (e_parity e) (e_size e) (e_paws e) next 0 0 offset [] 0)
  | None => None
  end.

(* sealParity for k = 0..p-1, consuming ids *)
Fixpoint seal_parity (paws next : Z) (par : list bytes) (k : nat) (p : nat) : list bytes * Z :=
  match p with
  | O => ([], next)
  | S p' =>
      let pkt := le32 next ++ le16 c_typeParity ++ nth k par [] in
      let '(rest, nx) := seal_parity paws ((next + 1) mod paws) par (S k) p' in
      (pkt :: rest, nx)
  end.

(* func (enc *fecEncoder) encode(b []byte, rto uint32) (ps [][]byte)
   `buf` = b[headerOffset:] (8 reserved bytes, then the payload).  Returns the sealed data packet
   b[headerOffset:] and the parity packets ps[k][headerOffset:]. *)
Definition enc_encode (mk : Z -> Z -> codec) (e : fecenc) (buf : bytes) (now rto : Z)
  : res (fecenc * bytes * list bytes) :=
  if blen buf <? c_fecHeaderSizePlus2 then Panic P_encHeader else
  let sz := e_hoff e + blen buf in
  if c_mtuLimit <? sz then Panic P_encCache else
  (* sealData; size field *)
  let image := le16 (u16 (blen buf - c_fecHeaderSize)) ++ skipn 8 buf in
  let dpkt := le32 (e_next e) ++ le16 c_typeData ++ image in
  let next1 := (e_next e + 1) mod e_paws e in
  let cache := e_cache e ++ [image] in
  let count := e_count e + 1 in
  let mx := Z.max (e_max e) sz in
  if count =? e_data e then
    if now - e_ts e <? rto then
      let plen := Z.to_nat (mx - e_hoff e - c_fecHeaderSize) in
      let par := c_encode (mk (e_data e) (e_parity e)) (map (pad_to plen) cache) in
      let '(ps, next2) := seal_parity (e_paws e) next1 par 0 (Z.to_nat (e_parity e)) in
      Ok (mkEnc (e_data e) (e_parity e) (e_size e) (e_paws e) next2 0 0 (e_hoff e) [] now, dpkt, ps)
    else
      (* skipParity *)
      Ok (mkEnc (e_data e) (e_parity e) (e_size e) (e_paws e) ((next1 + e_parity e) mod e_paws e)
                0 0 (e_hoff e) [] now, dpkt, [])
  else
    Ok (mkEnc (e_data e) (e_parity e) (e_size e) (e_paws e) next1 count mx (e_hoff e) cache now,
        dpkt, []).

(* func (enc *fecEncoder) encodeOOB(b []byte) *)
Definition enc_oob (buf : bytes) : res bytes :=
  if blen buf <? c_fecHeaderSizePlus2 then Panic P_encHeader else
  Ok (le32 4294967295 ++ le16 c_typeOOB ++ le16 (u16 (blen buf - c_fecHeaderSize)) ++ skipn 8 buf).
