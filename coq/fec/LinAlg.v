(* Vector / matrix algebra over GF(2^8) on lists (shapes as explicit hypotheses).
   dot (RsProofs), mv M x = (dot r x) for the rows r of M, kerl M x = "x is in the right kernel". *)
From Coq Require Import ZArith List Bool Lia Arith.
From KV.Fec Require Import Gf256 Rs RsProofs GfField.
Import ListNotations.
Local Open Scope Z_scope.

Definition bvec (n : nat) (x : list Z) : Prop := length x = n /\ Forall byte x.
Definition bmat (r c : nat) (M : matrix) : Prop := length M = r /\ Forall (bvec c) M.
Definition mv (M : matrix) (x : list Z) : list Z := map (fun r => dot r x) M.
Definition kerl (M : matrix) (x : list Z) : Prop := Forall (fun r => dot r x = 0) M.

(* ------------------------------------------------------------ generic list facts *)

Lemma nth_firstn_lt {A} (l : list A) : forall n i d, (i < n)%nat -> nth i (firstn n l) d = nth i l d.
Proof.
  induction l as [|a l IH]; intros n i d H.
  - rewrite firstn_nil. reflexivity.
  - destruct n; [lia|]. destruct i; [reflexivity|]. cbn [firstn nth]. apply IH. lia.
Qed.

Lemma skipn_cons_nth {A} (l : list A) : forall c d, (c < length l)%nat ->
  skipn c l = nth c l d :: skipn (S c) l.
Proof.
  induction l as [|a l IH]; intros c d H; [simpl in H; lia|].
  destruct c; [reflexivity|]. cbn [skipn nth]. cbn [length] in H. rewrite (IH c d) by lia. reflexivity.
Qed.

Lemma byte_nth x i : Forall byte x -> byte (nth i x 0).
Proof.
  intros H. destruct (Nat.lt_ge_cases i (length x)) as [L|L].
  - rewrite Forall_forall in H. apply H. apply nth_In. exact L.
  - rewrite nth_overflow by exact L. apply byte_0.
Qed.

Lemma Forall_byte_repeat0 n : Forall byte (repeat 0 n).
Proof. induction n; cbn [repeat]; constructor; [apply byte_0|assumption]. Qed.

Lemma bvec_zeros n : bvec n (repeat 0 n).
Proof. split; [apply repeat_length|apply Forall_byte_repeat0]. Qed.

Lemma Forall_byte_vxor x : forall y, Forall byte x -> Forall byte y -> Forall byte (vxor x y).
Proof.
  induction x as [|a x IH]; intros y Hx Hy; cbn [vxor]; [constructor|].
  destruct y as [|b y]; [constructor|].
  apply Forall_cons_iff in Hx as [Ha Hx]. apply Forall_cons_iff in Hy as [Hb Hy].
  constructor; [apply lxor_byte; assumption|apply IH; assumption].
Qed.

Lemma bvec_vxor n x y : bvec n x -> bvec n y -> bvec n (vxor x y).
Proof.
  intros [Lx Bx] [Ly By]. split; [rewrite vxor_length; congruence|apply Forall_byte_vxor; assumption].
Qed.

Lemma Forall_byte_vscale a x : byte a -> Forall byte (vscale a x).
Proof.
  intros Ha. unfold vscale. apply Forall_forall. intros b Hb. apply in_map_iff in Hb.
  destruct Hb as (c & <- & _). apply gmul_byte. exact Ha.
Qed.

Lemma bvec_vscale n a x : byte a -> length x = n -> bvec n (vscale a x).
Proof. intros Ha L. split; [rewrite vscale_length; exact L|apply Forall_byte_vscale; exact Ha]. Qed.

Lemma bvec_app n m x y : bvec n x -> bvec m y -> bvec (n + m) (x ++ y).
Proof.
  intros [Lx Bx] [Ly By]. split; [rewrite app_length; congruence|apply Forall_app; split; assumption].
Qed.

Lemma Forall_firstn {A} (P : A -> Prop) n : forall l, Forall P l -> Forall P (firstn n l).
Proof.
  induction n; intros l H; cbn [firstn]; [constructor|]. destruct l; [constructor|].
  apply Forall_cons_iff in H as [H1 H2]. constructor; [assumption|apply IHn; assumption].
Qed.

Lemma Forall_skipn {A} (P : A -> Prop) n : forall l, Forall P l -> Forall P (skipn n l).
Proof.
  induction n; intros l H; cbn [skipn]; [assumption|]. destruct l; [constructor|].
  apply Forall_cons_iff in H as [H1 H2]. apply IHn; assumption.
Qed.

Lemma bvec_firstn n m r : bvec (n + m) r -> bvec n (firstn n r).
Proof. intros [L B]. split; [apply firstn_length_le; lia|apply Forall_firstn; exact B]. Qed.

Lemma bvec_skipn n m r : bvec (n + m) r -> bvec m (skipn n r).
Proof. intros [L B]. split; [rewrite skipn_length; lia|apply Forall_skipn; exact B]. Qed.

(* ------------------------------------------------------------ dot *)

Lemma dot_nil_r c : dot c [] = 0.
Proof. destruct c; reflexivity. Qed.

Lemma dot_byte c : forall x, Forall byte c -> byte (dot c x).
Proof.
  induction c as [|a c IH]; intros x H; cbn [dot]; [apply byte_0|].
  destruct x as [|b x]; [apply byte_0|].
  apply Forall_cons_iff in H as [Ha Hc]. apply lxor_byte; [apply gmul_byte; exact Ha|apply IH; exact Hc].
Qed.

Lemma dot_zeros_l n : forall x, dot (repeat 0 n) x = 0.
Proof.
  induction n as [|n IH]; intros x; cbn [repeat dot]; [reflexivity|].
  destruct x as [|b x]; [reflexivity|]. rewrite gmul_0_l, IH. reflexivity.
Qed.

Lemma dot_vxor_l u : forall v x, length u = length v -> Forall byte u -> Forall byte v ->
  dot (vxor u v) x = Z.lxor (dot u x) (dot v x).
Proof.
  induction u as [|a u IH]; intros v x L Bu Bv; destruct v as [|b v]; cbn [length] in L; try discriminate.
  - reflexivity.
  - apply Forall_cons_iff in Bu as [Ha Bu]. apply Forall_cons_iff in Bv as [Hb Bv].
    cbn [vxor dot]. destruct x as [|c x]; [reflexivity|].
    rewrite gmul_lin_l by assumption. rewrite IH by (try assumption; lia). apply lxor_swap4.
Qed.

Lemma dot_vscale a r : forall x, byte a -> Forall byte r -> Forall byte x ->
  dot (vscale a r) x = gmul a (dot r x).
Proof.
  intros x Ha. revert x. induction r as [|b r IH]; intros x Br Bx; cbn [vscale map dot].
  - rewrite gmul_0_r. reflexivity.
  - destruct x as [|c x]; [rewrite gmul_0_r; reflexivity|].
    apply Forall_cons_iff in Br as [Hb Br]. apply Forall_cons_iff in Bx as [Hc Bx].
    fold (vscale a r). rewrite IH by assumption. rewrite gmul_lin.
    rewrite gmul_assoc by assumption. reflexivity.
Qed.

Lemma dot_app a : forall b x y, length a = length x ->
  dot (a ++ b) (x ++ y) = Z.lxor (dot a x) (dot b y).
Proof.
  induction a as [|a0 a IH]; intros b x y L; destruct x as [|x0 x]; cbn [length] in L; try discriminate.
  - cbn [app dot]. rewrite Z.lxor_0_l. reflexivity.
  - cbn [app dot]. rewrite IH by lia. rewrite Z.lxor_assoc. reflexivity.
Qed.

(* a row that looks like the i-th unit vector on its whole length picks the i-th entry *)
Lemma dot_delta a : forall x i, length a = length x -> Forall byte x ->
  (forall j, (j < length a)%nat -> nth j a 0 = if (j =? i)%nat then 1 else 0) ->
  dot a x = nth i x 0.
Proof.
  induction a as [|a0 a IH]; intros x i L Bx H; destruct x as [|x0 x]; cbn [length] in L; try discriminate.
  - destruct i; reflexivity.
  - apply Forall_cons_iff in Bx as [Hx0 Bx]. cbn [dot].
    pose proof (H 0%nat ltac:(cbn [length]; lia)) as H0. cbn [nth] in H0.
    destruct i as [|i].
    + cbn [Nat.eqb] in H0. rewrite H0. rewrite gmul_1_l by assumption.
      rewrite (IH x (length a)); [|lia|assumption|].
      * rewrite nth_overflow by lia. cbn [nth]. apply Z.lxor_0_r.
      * intros j Hj. specialize (H (S j) ltac:(cbn [length]; lia)). cbn [nth Nat.eqb] in H.
        rewrite H. destruct (Nat.eqb_spec j (length a)); [lia|reflexivity].
    + cbn [Nat.eqb] in H0. rewrite H0, gmul_0_l, Z.lxor_0_l. cbn [nth].
      apply IH; [lia|assumption|].
      intros j Hj. specialize (H (S j) ltac:(cbn [length]; lia)). cbn [nth Nat.eqb] in H. exact H.
Qed.

(* ------------------------------------------------------------ unit vectors *)

Lemma unit_at_length n : forall k, length (unit_at n k) = n.
Proof.
  induction n as [|n IH]; intros k; cbn [unit_at]; [reflexivity|].
  destruct k; cbn [length]; [rewrite repeat_length; reflexivity|rewrite IH; reflexivity].
Qed.

Lemma unit_at_nth n : forall k j, (j < n)%nat -> nth j (unit_at n k) 0 = if (j =? k)%nat then 1 else 0.
Proof.
  induction n as [|n IH]; intros k j H; [lia|]. cbn [unit_at]. destruct k as [|k].
  - destruct j as [|j]; [reflexivity|]. cbn [nth Nat.eqb]. apply nth_repeat0.
  - destruct j as [|j]; [reflexivity|]. cbn [nth Nat.eqb]. apply IH. lia.
Qed.

Lemma unit_at_byte n : forall k, Forall byte (unit_at n k).
Proof.
  induction n as [|n IH]; intros k; cbn [unit_at]; [constructor|].
  destruct k; constructor; try apply byte_1; try apply byte_0; [apply Forall_byte_repeat0|apply IH].
Qed.

Lemma bvec_unit_at n k : bvec n (unit_at n k).
Proof. split; [apply unit_at_length|apply unit_at_byte]. Qed.

Lemma dot_unit_at n k x : bvec n x -> dot (unit_at n k) x = nth k x 0.
Proof.
  intros [L B]. apply dot_delta; [rewrite unit_at_length; congruence|exact B|].
  intros j Hj. rewrite unit_at_length in Hj. apply unit_at_nth. exact Hj.
Qed.

(* ------------------------------------------------------------ vxor *)

Lemma vxor_nilpotent x : vxor x x = repeat 0 (length x).
Proof. induction x as [|a x IH]; cbn [vxor length repeat]; [reflexivity|]. rewrite Z.lxor_nilpotent, IH. reflexivity. Qed.

Lemma vxor_eq0 x : forall y, length x = length y -> vxor x y = repeat 0 (length x) -> x = y.
Proof.
  induction x as [|a x IH]; intros y L H; destruct y as [|b y]; cbn [length] in L; try discriminate; [reflexivity|].
  cbn [vxor length repeat] in H. injection H as H1 H2. apply lxor_eq0 in H1. subst b. f_equal. apply IH; [lia|exact H2].
Qed.

(* ------------------------------------------------------------ mv, kerl *)

Lemma mv_length M x : length (mv M x) = length M.
Proof. apply map_length. Qed.

Lemma mv_nth M x i : (i < length M)%nat -> nth i (mv M x) 0 = dot (nth i M []) x.
Proof. intros H. unfold mv. apply (nth_map_in (fun r => dot r x) M i 0 []). exact H. Qed.

Lemma mv_bvec r c M x : bmat r c M -> bvec r (mv M x).
Proof.
  intros [L B]. split; [rewrite mv_length; exact L|].
  unfold mv. apply Forall_map. eapply Forall_impl; [|exact B]. intros a [_ Ba]. apply dot_byte. exact Ba.
Qed.

Lemma mv_zero_iff M x : mv M x = repeat 0 (length M) <-> kerl M x.
Proof.
  unfold mv, kerl. induction M as [|r M IH]; cbn [map length repeat].
  - split; [constructor|reflexivity].
  - split.
    + intros H. injection H as H1 H2. constructor; [exact H1|apply IH; exact H2].
    + intros H. apply Forall_cons_iff in H as [H1 H2]. rewrite H1. f_equal. apply IH. exact H2.
Qed.

Lemma mv_vxor M x y : length x = length y -> mv M (vxor x y) = vxor (mv M x) (mv M y).
Proof.
  intros L. unfold mv. induction M as [|r M IH]; cbn [map vxor]; [reflexivity|].
  rewrite dot_lin by exact L. rewrite IH. reflexivity.
Qed.

Lemma kerl_nth M x : kerl M x <-> (forall i, (i < length M)%nat -> dot (nth i M []) x = 0).
Proof.
  unfold kerl. split.
  - intros H i Hi. rewrite Forall_forall in H. apply H. apply nth_In. exact Hi.
  - intros H. apply Forall_forall. intros r Hr. destruct (In_nth _ _ [] Hr) as (i & Hi & <-). apply H. exact Hi.
Qed.

(* (c * B) . x = c . (B x) *)
Lemma dot_lin_comb d c : forall B x, Forall byte c -> Forall (bvec d) B -> Forall byte x ->
  dot (lin_comb d c B) x = dot c (mv B x).
Proof.
  induction c as [|a c IH]; intros B x Bc BB Bx; cbn [lin_comb]; [apply dot_zeros_l|].
  destruct B as [|b B]; [cbn [mv map]; rewrite dot_nil_r; apply dot_zeros_l|].
  apply Forall_cons_iff in Bc as [Ha Bc]. apply Forall_cons_iff in BB as [[Lb Bb] BB].
  cbn [mv map dot]. fold (mv B x).
  assert (HB' : Forall (fun x0 : list Z => length x0 = d) B).
  { eapply Forall_impl; [|exact BB]. intros r [Lr _]. exact Lr. }
  assert (Blc : Forall byte (lin_comb d c B)).
  { clear - Bc. revert B. induction c as [|a' c IHc]; intros B; cbn [lin_comb]; [apply Forall_byte_repeat0|].
    destruct B as [|b' B]; [apply Forall_byte_repeat0|].
    apply Forall_cons_iff in Bc as [Ha' Bc].
    apply Forall_byte_vxor; [apply Forall_byte_vscale; exact Ha'|apply IHc; exact Bc]. }
  rewrite dot_vxor_l; [| |apply Forall_byte_vscale; exact Ha|exact Blc].
  - rewrite dot_vscale by assumption. rewrite IH by assumption. reflexivity.
  - rewrite vscale_length, lin_comb_length by exact HB'. exact Lb.
Qed.
