(* The systematic Reed-Solomon code of klauspost/reedsolomon v1.12.0 `buildMatrix`:
   Vandermonde(total x data)[r][c] = r^c, multiplied by the inverse of its top square, so that
   the first `data` rows are the identity and row data+i is the i-th parity row.  Executable,
   independent of the library (own field arithmetic: Gf256.v; own Gauss-Jordan inversion - the
   inverse of a matrix is unique, so the elimination order is not an observable).
   `rs_codec d p` instantiates the abstract codec record of Fec.v.
   Shards are byte strings (list Z) of equal length; the code acts on every byte column
   independently.  No proofs in this file. *)
From Coq Require Import ZArith List Bool.
From KV.Fec Require Import Gf256 Codec.
Import ListNotations.
Local Open Scope Z_scope.

Definition row := list Z.
Definition matrix := list row.

(* sum_i c_i * x_i for coefficient list c and vectors x_i, all of length len *)
Fixpoint lin_comb (len : nat) (c : list Z) (xs : list (list Z)) : list Z :=
  match c, xs with
  | a :: c', x :: xs' => vxor (vscale a x) (lin_comb len c' xs')
  | _, _ => repeat 0 len
  end.

Definition mat_mul (a b : matrix) (cols : nat) : matrix := map (fun r => lin_comb cols r b) a.

(* r^0 .. r^(cols-1) *)
Fixpoint pow_row (r : Z) (cur : Z) (cols : nat) : row :=
  match cols with O => [] | S c => cur :: pow_row r (gmul cur r) c end.
Definition vandermonde (rows cols : nat) : matrix :=
  map (fun r => pow_row (Z.of_nat r) 1 cols) (seq 0 rows).

Fixpoint unit_at (n k : nat) : row :=
  match n with
  | O => []
  | S n' => match k with O => 1 :: repeat 0 n' | S k' => 0 :: unit_at n' k' end
  end.
Definition ident (n : nat) : matrix := map (unit_at n) (seq 0 n).

(* Gauss-Jordan on rows [A | I]: `don` = rows already pivoted (row i has its leading 1 in column
   i), `rest` = the others.  Column c: take the first row of `rest` with a non-zero entry in
   column c, scale it to 1, clear column c in every other row. *)
Fixpoint pick (c : nat) (rest : matrix) : option (row * matrix) :=
  match rest with
  | [] => None
  | r :: rs =>
      if nth c r 0 =? 0 then
        match pick c rs with Some (pv, others) => Some (pv, r :: others) | None => None end
      else Some (r, rs)
  end.
Definition elim (c : nat) (pv : row) (r : row) : row :=
  let f := nth c r 0 in if f =? 0 then r else vxor r (vscale f pv).
Fixpoint gauss (fuel c : nat) (don rest : matrix) : option matrix :=
  match fuel with
  | O => Some don
  | S fuel' =>
      match pick c rest with
      | None => None
      | Some (pv, others) =>
          let pv1 := vscale (ginv (nth c pv 0)) pv in
          gauss fuel' (S c) (map (elim c pv1) don ++ [pv1]) (map (elim c pv1) others)
      end
  end.
Definition invert (n : nat) (m : matrix) : option matrix :=
  match gauss n 0 [] (map (fun '(r, e) => r ++ e) (combine m (ident n))) with
  | Some rows => Some (map (skipn n) rows)
  | None => None
  end.

(* buildMatrix(dataShards, totalShards): (d+p) x d, top square = identity *)
Definition rs_matrix (d p : nat) : option matrix :=
  let vm := vandermonde (d + p) d in
  match invert d (firstn d vm) with
  | Some ti => Some (mat_mul vm ti d)
  | None => None
  end.

(* Encode: parity i = sum_k m[d+i][k] * data_k *)
Definition rs_encode_with (m : matrix) (d : nat) (data : list (list Z)) : list (list Z) :=
  let len := match data with x :: _ => length x | [] => O end in
  map (fun r => lin_comb len r data) (skipn d m).

(* ReconstructData: the first d present shards (by index) select the sub-matrix; its inverse
   maps them back to the data shards.  Present data shards are returned as they are. *)
Fixpoint present (i : nat) (shards : list (option (list Z))) : list (nat * list Z) :=
  match shards with
  | [] => []
  | Some s :: t => (i, s) :: present (S i) t
  | None :: t => present (S i) t
  end.
Definition rs_reconstruct_with (m : matrix) (d : nat) (shards : list (option (list Z)))
  : option (list (list Z)) :=
  let pr := firstn d (present 0 shards) in
  if Nat.ltb (length pr) d then None else          (* ErrTooFewShards *)
  let len := match pr with (_, s) :: _ => length s | [] => O end in
  if Nat.eqb len 0 then None else                 (* ErrShardNoData *)
  let sub := map (fun '(i, _) => nth i m []) pr in
  match invert d sub with
  | None => None                                   (* errSingular *)
  | Some inv =>
      let have := map snd pr in
      Some (map (fun k => match nth k shards None with
                          | Some s => s
                          | None => lin_comb len (nth k inv []) have
                          end) (seq 0 d))
  end.

(* reedsolomon.New(d, p) *)
Definition rs_codec (d p : Z) : codec :=
  let dn := Z.to_nat d in
  match rs_matrix dn (Z.to_nat p) with
  | Some m => mkCodec (rs_encode_with m dn) (rs_reconstruct_with m dn)
  | None => mkCodec (fun _ => []) (fun _ => None)
  end.
