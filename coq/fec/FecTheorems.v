(* Glue lemmas: the C07 statements in their final form (composition of the lemmas of FecProofs,
   FecProofs2, EncProofs, RsMds), so that the statement file C07.v consists of `exact` only. *)
From Coq Require Import ZArith List Bool Lia.
From KV.Base Require Import Consts Word.
From KV.Fec Require Import Gf256 Codec Rs AutoTune Fec FecSpec FecProofs FecProofs2 EncProofs RsProofs RsMds.
Import ListNotations.
Local Open Scope Z_scope.

Lemma t_c07_only_originals :
  forall (mk : Z -> Z -> codec) (d p : Z) (book : Z -> list bytes),
    cfg_ok d p -> mds (mk d p) d p -> book_ok d book ->
  forall (h : list bytes), Forall (genuine (mk d p) d p book) h ->
  exists st0 st' outs,
    dec_new d p = Some st0 /\ run_dec mk st0 h = Ok (st', outs) /\
    Forall2 (fun pkt out => forall r, In r out ->
               exists g i, genuine_at (mk d p) d p book g i pkt /\ original_of d book g r) h outs.
Proof.
  intros mk d p book Hcfg Hmds Hbook h Hall.
  destruct (dec_new_inv mk d p book Hcfg) as (st0 & Hnew & Hinv & _).
  destruct (run_dec_only_originals mk d p book Hcfg Hmds Hbook h st0 Hinv Hall) as (st' & outs & He & _ & Hf).
  exists st0, st', outs. auto.
Qed.

Lemma t_c07_wrap :
  forall ss : Z, 0 < ss <= 256 ->
  let paws := paws_of ss in let G := paws_of ss / ss in
  (paws = G * ss /\ 0 < G /\ 0 < paws < W32 /\ W32 - paws <= ss) /\
  (forall s, 0 <= s < paws -> s / ss * ss + ss <= paws /\ 0 <= s / ss < G) /\
  (forall n g, 0 <= g <= n -> n < G -> (n - g) * ss < H32 -> too_old ss n g = (3 <? n - g)) /\
  (forall n g, 0 <= n < g -> g < G -> n + G - g <= 2 -> too_old ss n g = false) /\
  (forall n g, 0 <= n < g -> g < G -> (g - n) * ss < H32 -> itimediff (u32 (g * ss)) (u32 (n * ss)) > 0) /\
  (forall n g, 0 <= g < n -> n < G -> (g + G - n) * ss + ss < H32 -> itimediff (u32 (g * ss)) (u32 (n * ss)) > 0).
Proof.
  intros ss Hss. repeat split.
  1-5: apply (paws_groups ss Hss).
  - apply (group_below_paws ss Hss s). assumption.
  - apply (group_below_paws ss Hss s). assumption.
  - apply (group_below_paws ss Hss s). assumption.
  - intros. apply (too_old_nowrap ss Hss); assumption.
  - intros. apply (too_old_wrap ss Hss); assumption.
  - intros. apply (newest_follows_nowrap ss Hss); assumption.
  - intros. apply (newest_follows_wrap ss Hss); assumption.
Qed.

Lemma t_c07_parity_loss_harmless :
  forall (mk : Z -> Z -> codec) (d p : Z), cfg_ok d p ->
  (forall h, Forall (fun pkt => matching_pkt d p pkt /\ pk_flag pkt = c_typeData) h ->
     exists st0 st', dec_new d p = Some st0 /\ run_dec mk st0 h = Ok (st', map (fun _ => []) h)) /\
  (forall st pkt st' fed, sess_fec_input mk st pkt = Ok (st', fed) -> c_fecHeaderSizePlus2 <= blen pkt ->
     exists rec, dec_decode mk st pkt = Ok (st', rec) /\
       fed = (if pk_flag pkt =? c_typeData then [(skipn 8 pkt, c_IKCP_PACKET_REGULAR)] else [])
             ++ concat (map strip_rec rec)).
Proof.
  intros mk d p Hcfg. split.
  - intros h Hall. destruct (dec_new_data_only mk d p Hcfg) as (st0 & Hnew & Hinv).
    destruct (run_dec_data_only mk d p Hcfg h st0 Hinv Hall) as (st' & He & _). eauto.
  - apply sess_feeds_data_first.
Qed.

Lemma t_c07_encoder_layout :
  forall (mk : Z -> Z -> codec) (d p : Z), cfg_ok d p ->
  (forall off, 0 <= off -> exists e, enc_new d p off = Some e /\ enc_inv d p e 0 [] /\ e_hoff e = off) /\
  (forall ins rto e g,
     enc_inv d p e g [] -> Z.of_nat (length ins) = d ->
     Forall (fun x : bytes * Z => c_fecHeaderSizePlus2 <= blen (fst x) /\ e_hoff e + blen (fst x) <= c_mtuLimit) ins ->
     exists e', enc_run mk e ins rto = Ok (e', enc_spec (mk d p) d p g [] (e_ts e) ins rto) /\
       enc_inv d p e' (next_group d p g) [] /\ e_hoff e' = e_hoff e) /\
  (forall ins rto g ts, Z.of_nat (length ins) = d ->
     map fst (enc_spec (mk d p) d p g [] ts ins rto) =
     map (fun k => grp_packet (mk d p) d (d + p) (map (fun x => image (skipn 8 (fst x))) ins) g k)
         (seq 0 (length ins))).
Proof.
  intros mk d p Hcfg. split; [|split].
  - apply (enc_new_inv mk d p Hcfg).
  - intros ins rto e g Hinv Hlen Hall. apply (enc_run_group mk d p Hcfg ins rto e g [] Hinv); simpl; try lia; try assumption.
    destruct Hcfg as (? & _). destruct ins; [simpl in Hlen; lia|discriminate].
  - intros ins rto g ts Hlen. apply (enc_spec_data mk d p ins rto g [] ts). simpl. lia.
Qed.

Definition ex_payloads : list bytes := [[10; 20; 30]; [7]].
Definition ex_run : option (list bytes * list (list bytes)) :=
  match enc_new 2 1 0, dec_new 2 1 with
  | Some e, Some st0 =>
      match enc_run rs_codec e (map (fun pl => (repeat 0 8 ++ pl, 1000)) ex_payloads) 500 with
      | Ok (_, outs) =>
          let pkts := map fst outs ++ concat (map snd outs) in
          match run_dec rs_codec st0 [nth 2 pkts []; nth 1 pkts []] with
          | Ok (_, recs) => Some (pkts, recs)
          | Panic _ => None
          end
      | Panic _ => None
      end
  | _, _ => None
  end.
Lemma t_c07_example :
  ex_run = Some ([ [0;0;0;0; 241;0; 5;0; 10;20;30]; [1;0;0;0; 241;0; 3;0; 7]; [2;0;0;0; 242;0; 9;0; 16;60;34] ],
                 [ []; [[5;0;10;20;30]] ]) /\
  concat (map strip_rec [[5;0;10;20;30]]) = [([10;20;30], c_IKCP_PACKET_FEC)] /\
  cfg_ok 2 1 /\ mds (rs_codec 2 1) 2 1.
Proof.
  split; [vm_compute; reflexivity|]. split; [vm_compute; reflexivity|].
  split; [unfold cfg_ok; lia|apply rs_mds_le8; lia].
Qed.
