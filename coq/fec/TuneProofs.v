(* C16: a receiver whose ratio differs from the sender's sees a type-vs-position mismatch within
   (d+p) + (dr+pr) consecutive ids (two different block patterns cannot agree that long). *)
From Coq Require Import ZArith List Bool Lia Arith.
From KV.Base Require Import Consts Word WordLemmas.
From KV.Fec Require Import Codec AutoTune Fec FecSpec AutoTuneProofs.
Import ListNotations.
Local Open Scope Z_scope.

Ltac Zify.zify_post_hook ::= idtac. (* mods are handled by hand here; the hook makes lia slow *)

Lemma mod_mult_shift a q k : 0 < a -> 0 <= k < a -> (a * q + k) mod a = k.
Proof. intros. replace (a * q + k) with (a * q + 0 + k) by lia. apply mod_shift; lia. Qed.

(* the next multiple of a above s0 *)
Lemma next_multiple a s0 : 0 < a -> 0 <= s0 ->
  exists q, s0 < a * q <= s0 + a /\ 0 < q.
Proof.
  intros Ha Hs. exists (s0 / a + 1).
  pose proof (Z.div_mod s0 a ltac:(lia)) as Hdm. pose proof (Z.mod_pos_bound s0 a Ha) as Hr.
  assert (Hq : 0 <= s0 / a) by (apply Z.div_pos; lia).
  remember (s0 / a) as q0. remember (s0 mod a) as r0.
  replace (a * (q0 + 1)) with (a * q0 + a) by ring. clear Heqq0 Heqr0. split; [split|]; lia.
Qed.

Lemma mismatch_le a d b dr s0 :
  0 < d < a -> 0 < dr < b -> a <= b -> (a <> b \/ d <> dr) -> 0 <= s0 ->
  exists s, s0 <= s < s0 + a + b /\ (s mod a <? d) <> (s mod b <? dr).
Proof.
  intros Hd Hdr Hab Hne Hs0.
  destruct (next_multiple a s0 ltac:(lia) Hs0) as (q & Hx & Hq).
  remember (a * q) as x eqn:Ex.
  assert (Hxa : forall k, 0 <= k < a -> (x + k) mod a = k) by (intros; rewrite Ex; apply mod_mult_shift; lia).
  assert (Hx1 : (x - 1) mod a = a - 1).
  { replace (x - 1) with (a * (q - 1) + (a - 1)) by (rewrite Ex; ring). apply mod_mult_shift; lia. }
  (* g at x-1 and x *)
  destruct ((x - 1) mod b <? dr) eqn:G1.
  { exists (x - 1). split; [lia|]. rewrite Hx1, G1. destruct (a - 1 <? d) eqn:E; [apply Z.ltb_lt in E; lia|discriminate]. }
  destruct (x mod b <? dr) eqn:G0.
  2:{ exists x. split; [lia|]. rewrite G0. replace x with (x + 0) at 1 by lia. rewrite Hxa by lia.
      destruct (0 <? d) eqn:E; [discriminate|apply Z.ltb_ge in E; lia]. }
  apply Z.ltb_ge in G1. apply Z.ltb_lt in G0.
  (* hence b divides x *)
  pose proof (Z.div_mod (x - 1) b ltac:(lia)) as Hdm. pose proof (Z.mod_pos_bound (x - 1) b ltac:(lia)) as Hr.
  remember ((x - 1) / b) as qb eqn:Eqb. remember ((x - 1) mod b) as r eqn:Er. clear Eqb.
  assert (Hrb : r = b - 1).
  { destruct (Z.eq_dec r (b - 1)); [assumption|exfalso].
    replace x with (b * qb + (r + 1)) in G0 by lia. rewrite mod_mult_shift in G0 by lia. lia. }
  clear Er.
  assert (Hxb : forall k, 0 <= k < b -> (x + k) mod b = k).
  { intros k Hk. replace (x + k) with (b * (qb + 1) + k) by (rewrite Z.mul_add_distr_l; lia). apply mod_mult_shift; lia. }
  destruct (Z.eq_dec d dr) as [Hdd|Hdd].
  - (* same data count: then a < b, and the patterns differ at x + a *)
    assert (Hlt : a < b) by (destruct Hne; lia).
    exists (x + a). split; [lia|].
    replace (x + a) with (a * (q + 1) + 0) at 1 by (rewrite Ex; ring). rewrite mod_mult_shift by lia.
    rewrite Hxb by lia.
    destruct (0 <? d) eqn:E1; [|apply Z.ltb_ge in E1; lia].
    destruct (a <? dr) eqn:E2; [apply Z.ltb_lt in E2; lia|discriminate].
  - (* different data counts: they differ at x + min d dr *)
    exists (x + Z.min d dr). split; [lia|].
    rewrite Hxa, Hxb by lia.
    destruct (Z.min d dr <? d) eqn:E1, (Z.min d dr <? dr) eqn:E2; try discriminate;
      [apply Z.ltb_lt in E1; apply Z.ltb_lt in E2; lia|apply Z.ltb_ge in E1; apply Z.ltb_ge in E2; lia].
Qed.

(* two different block patterns disagree within (d+p)+(dr+pr) consecutive ids, from any start *)
Theorem patterns_disagree d p dr pr s0 :
  0 < d -> 0 < p -> 0 < dr -> 0 < pr -> (d <> dr \/ p <> pr) -> 0 <= s0 ->
  exists s, s0 <= s < s0 + (d + p) + (dr + pr) /\
    (s mod (d + p) <? d) <> (s mod (dr + pr) <? dr).
Proof.
  intros Hd Hp Hdr Hpr Hne Hs0.
  destruct (Z_le_gt_dec (d + p) (dr + pr)) as [Hle|Hgt].
  - apply mismatch_le; try lia.
  - destruct (mismatch_le (dr + pr) dr (d + p) d s0) as (s & Hr & Hs); try lia.
    exists s. split; [lia|]. intros E. apply Hs. symmetry. exact E.
Qed.

(* in terms of the decoder's check: the receiver's type-vs-position test fails on one of them *)
Definition sender_flag (d p s : Z) : Z := if s mod (d + p) <? d then c_typeData else c_typeParity.

Theorem mismatch_detected st d p s0 :
  0 < d -> 0 < p -> 0 < d_data st -> 0 < d_parity st -> d_size st = d_data st + d_parity st ->
  (d <> d_data st \/ p <> d_parity st) -> 0 <= s0 ->
  exists s, s0 <= s < s0 + (d + p) + d_size st /\ type_mismatch st s (sender_flag d p s) = true.
Proof.
  intros Hd Hp Hdr Hpr Hss Hne Hs0.
  destruct (patterns_disagree d p (d_data st) (d_parity st) s0 Hd Hp Hdr Hpr Hne Hs0) as (s & Hr & Hs).
  exists s. split; [lia|]. unfold type_mismatch, sender_flag. rewrite Hss.
  destruct (s mod (d + p) <? d), (s mod (d_data st + d_parity st) <? d_data st); try reflexivity; congruence.
Qed.

(* ------------------------------------------------------------ the tuning branch of decode *)

(* while tuning (flag set, or this packet fails the type test) decode stores nothing and runs the
   period search on the ring that already contains this packet's sample *)
Lemma decode_tuning_step mk st pkt :
  c_fecHeaderSize <= blen pkt -> pk_seqid pkt < d_paws st ->
  d_should st || type_mismatch st (pk_seqid pkt) (pk_flag pkt) = true ->
  dec_decode mk st pkt =
    Ok (dec_retune (set_at st (at_sample (d_at st) (pk_flag pkt =? c_typeData) (pk_seqid pkt))), []).
Proof.
  intros Hlen Hp Hs. unfold dec_decode.
  destruct (blen pkt <? c_fecHeaderSize) eqn:E; [apply Z.ltb_lt in E; lia|].
  set (st1 := set_at st _).
  replace (d_paws st1) with (d_paws st) by reflexivity.
  destruct (d_paws st <=? pk_seqid pkt) eqn:Ew; [apply Z.leb_le in Ew; lia|].
  replace (d_should st1) with (d_should st) by reflexivity.
  replace (type_mismatch st1 (pk_seqid pkt) (pk_flag pkt)) with (type_mismatch st (pk_seqid pkt) (pk_flag pkt)) by reflexivity.
  rewrite Hs. reflexivity.
Qed.

Definition has_cfg (st : fecdec) (d p : Z) : Prop :=
  d_data st = d /\ d_parity st = p /\ d_size st = d + p /\ d_paws st = paws_of (d + p).

(* SOUND: on a ring holding samples of one d/p sender a tuning step either leaves the ratio alone
   or adopts exactly d/p (and then decoding is enabled with an empty group table) *)
Lemma retune_sound d p st :
  0 < d -> 0 < p -> Forall (consistent d p) (at_window (d_at st)) ->
  (d_data (dec_retune st) = d_data st /\ d_parity (dec_retune st) = d_parity st /\
   d_size (dec_retune st) = d_size st /\ d_paws (dec_retune st) = d_paws st /\ d_sets (dec_retune st) = d_sets st)
  \/ (has_cfg (dec_retune st) d p /\ d_should (dec_retune st) = false /\ d_sets (dec_retune st) = []).
Proof.
  intros Hd Hp Hall. unfold dec_retune.
  destruct ((0 <? find_period (d_at st) true) && (0 <? find_period (d_at st) false) &&
            (find_period (d_at st) true + find_period (d_at st) false <? 256)) eqn:E.
  - apply andb_true_iff in E as [E _]. apply andb_true_iff in E as [E1 E2].
    apply Z.ltb_lt in E1. apply Z.ltb_lt in E2.
    pose proof (find_period_sound d p (d_at st) true _ Hd Hp Hall eq_refl E1) as H1.
    pose proof (find_period_sound d p (d_at st) false _ Hd Hp Hall eq_refl E2) as H2.
    simpl in H1, H2. rewrite H1, H2.
    destruct (negb (d =? d_data st) || negb (p =? d_parity st)).
    + right. unfold has_cfg; simpl. repeat split; reflexivity.
    + left. simpl. repeat split; reflexivity.
  - left. simpl. repeat split; reflexivity.
Qed.

(* COMPLETE: when the ring is exactly an in-order run of the sender that starts one id before a
   group boundary and holds at least d+p+2 samples, the tuning step adopts d/p *)
Lemma retune_complete d p s0 n st :
  0 < d -> 0 < p -> d + p <= 255 -> 0 <= s0 -> s0 mod (d + p) = d + p - 1 ->
  (Z.to_nat (d + p) + 2 <= n)%nat -> s0 + Z.of_nat n <= 4294967296 ->
  at_window (d_at st) = run_pulses d p s0 n ->
  d_size st = d_data st + d_parity st -> d_paws st = paws_of (d_size st) ->
  has_cfg (dec_retune st) d p /\ d_should (dec_retune st) = false.
Proof.
  intros Hd Hp Hs H0 Hal Hn Hr Hw Hsz Hpw.
  destruct (find_period_complete d p s0 n (d_at st) Hd Hp H0 Hal Hn Hr Hw) as (H1 & H2).
  unfold dec_retune. rewrite H1, H2.
  destruct (0 <? d) eqn:E1; [|apply Z.ltb_ge in E1; lia].
  destruct (0 <? p) eqn:E2; [|apply Z.ltb_ge in E2; lia].
  destruct (d + p <? 256) eqn:E3; [|apply Z.ltb_ge in E3; lia]. simpl andb. cbv iota.
  destruct (negb (d =? d_data st) || negb (p =? d_parity st)) eqn:E.
  - unfold has_cfg; simpl. repeat split; reflexivity.
  - apply orb_false_iff in E as [Ea Eb]. apply negb_false_iff in Ea. apply negb_false_iff in Eb.
    apply Z.eqb_eq in Ea. apply Z.eqb_eq in Eb.
    unfold has_cfg; simpl. rewrite Hpw, Hsz, <- Ea, <- Eb. repeat split; reflexivity.
Qed.

(* what a recovered shard can contribute to the ARQ core: only if its own size field fits *)
Lemma strip_rec_spec r :
  strip_rec r = [] \/
  exists sz, sz = rd16 r /\ 2 <= sz <= blen r /\
    strip_rec r = [(firstn (Z.to_nat (sz - 2)) (skipn 2 r), c_IKCP_PACKET_FEC)].
Proof.
  unfold strip_rec. destruct (2 <=? blen r) eqn:E1; [|left; reflexivity].
  destruct ((rd16 r <=? blen r) && (2 <=? rd16 r)) eqn:E2; [|left; reflexivity].
  apply andb_true_iff in E2 as [Ea Eb]. apply Z.leb_le in Ea. apply Z.leb_le in Eb.
  right. exists (rd16 r). split; [reflexivity|]. split; [lia|reflexivity].
Qed.
