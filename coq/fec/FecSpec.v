(* Vocabulary of the C07 / C16 statements: histories, the mds premise on the codec, what a
   sender's group is (payloads, size-prefixed images, zero padding, parity), genuine packets,
   the decoder invariant under matching genuine input (DESIGN Appendix B.3).  Definitions only. *)
From Coq Require Import ZArith List Bool Lia.
From KV.Base Require Import Consts Word.
From KV.Fec Require Import Codec AutoTune Fec.
Import ListNotations.
Local Open Scope Z_scope.

(* ---- configurations accepted by newFECDecoder ---- *)
Definition cfg_ok (d p : Z) : Prop := 0 < d /\ 0 < p /\ d + p <= 256.

(* ---- histories ---- *)
Fixpoint run_dec (mk : Z -> Z -> codec) (st : fecdec) (h : list bytes)
  : res (fecdec * list (list bytes)) :=
  match h with
  | [] => Ok (st, [])
  | pkt :: t =>
      match dec_decode mk st pkt with
      | Panic w => Panic w
      | Ok (st1, out) =>
          match run_dec mk st1 t with
          | Panic w => Panic w
          | Ok (st2, outs) => Ok (st2, out :: outs)
          end
      end
  end.

(* ---- the premise on the codec: maximum distance separable, systematic ---- *)
Definition shard_ok (L : nat) (s : bytes) : Prop := length s = L /\ bytes_ok s.
Definition restrict (mask : list bool) (l : list bytes) : list (option bytes) :=
  map (fun bx : bool * bytes => if fst bx then Some (snd bx) else None) (combine mask l).
Definition count_true (mask : list bool) : nat := length (filter (fun b : bool => b) mask).

(* any >= d of the d+p shards of a codeword determine the d data shards; parity has the shape of
   the data *)
Definition mds (C : codec) (d p : Z) : Prop :=
  forall (data : list bytes) (L : nat),
    length data = Z.to_nat d -> Forall (shard_ok L) data -> (0 < L)%nat ->
    length (c_encode C data) = Z.to_nat p /\
    Forall (fun s => length s = L) (c_encode C data) /\
    forall mask : list bool,
      length mask = Z.to_nat (d + p) -> (Z.to_nat d <= count_true mask)%nat ->
      c_reconstruct C (restrict mask (data ++ c_encode C data)) = Some data.

(* ---- a sender's group ---- *)
(* the size-prefixed image of a payload: | size = len+2 (2B LE) | payload | *)
Definition image (payload : bytes) : bytes := le16 (blen payload + 2) ++ payload.
Definition payload_ok (pl : bytes) : Prop :=
  blen pl + c_fecHeaderSizePlus2 <= c_mtuLimit /\ bytes_ok pl.

Definition grp_len (imgs : list bytes) : nat := list_max (map (@length Z) imgs).
Definition grp_padded (imgs : list bytes) : list bytes := map (pad_to (grp_len imgs)) imgs.
Definition grp_parity (C : codec) (imgs : list bytes) : list bytes := c_encode C (grp_padded imgs).
(* what the packet at position i of the group carries behind the 6-byte FEC header *)
Definition grp_shard (C : codec) (imgs : list bytes) (i : nat) : bytes :=
  nth i (imgs ++ grp_parity C imgs) [].
Definition grp_packet (C : codec) (d ss : Z) (imgs : list bytes) (g : Z) (i : nat) : bytes :=
  le32 (g * ss + Z.of_nat i)
  ++ le16 (if Z.of_nat i <? d then c_typeData else c_typeParity)
  ++ grp_shard C imgs i.

(* book g = the d payloads of the group with shard id g (one lap of the id space) *)
Definition book_ok (d : Z) (book : Z -> list bytes) : Prop :=
  forall g, length (book g) = Z.to_nat d /\ Forall payload_ok (book g).
Definition imgs_of (book : Z -> list bytes) (g : Z) : list bytes := map image (book g).

Definition genuine_at (C : codec) (d p : Z) (book : Z -> list bytes) (g : Z) (i : nat) (pkt : bytes) : Prop :=
  0 <= g /\ (i < Z.to_nat (d + p))%nat /\ g * (d + p) + Z.of_nat i < paws_of (d + p) /\
  pkt = grp_packet C d (d + p) (imgs_of book g) g i.
Definition genuine (C : codec) (d p : Z) (book : Z -> list bytes) (pkt : bytes) : Prop :=
  exists g i, genuine_at C d p book g i pkt.

(* ---- decoder: projections and the invariant under matching genuine input ---- *)
Definition held (st : fecdec) (g : Z) : list bytes :=
  match set_find g (d_sets st) with Some e => e | None => [] end.
Definition pos_of (ss : Z) (e : bytes) : nat := Z.to_nat (pk_seqid e mod ss).

Definition set_inv (C : codec) (d p : Z) (book : Z -> list bytes) (ge : Z * list bytes) : Prop :=
  let '(g, elems) := ge in
  NoDup (map pk_seqid elems) /\
  Forall (fun e => exists i, genuine_at C d p book g i e) elems /\
  Z.of_nat (length elems) < d.

Definition dec_inv (C : codec) (d p : Z) (book : Z -> list bytes) (st : fecdec) : Prop :=
  d_data st = d /\ d_parity st = p /\ d_size st = d + p /\ d_paws st = paws_of (d + p) /\
  d_should st = false /\
  NoDup (map fst (d_sets st)) /\
  Forall (set_inv C d p book) (d_sets st).

(* what the decoder must return when the group reaches d distinct packets: the zero padded
   images of the data packets whose position is not among the packets held, in position order *)
Definition missing_images (d : Z) (imgs : list bytes) (present : list nat) : list bytes :=
  map (fun k => pad_to (grp_len imgs) (nth k imgs []))
      (filter (fun k => negb (existsb (Nat.eqb k) present)) (seq 0 (Z.to_nat d))).

(* packets of a matching sender as far as the type-vs-position check can see *)
Definition matching_pkt (d p : Z) (pkt : bytes) : Prop :=
  c_fecHeaderSize <= blen pkt <= c_mtuLimit /\
  (pk_seqid pkt < paws_of (d + p) ->
   (pk_flag pkt = c_typeData <-> pk_seqid pkt mod (d + p) < d) /\
   (pk_flag pkt = c_typeData \/ pk_flag pkt = c_typeParity)).

(* ---- encoder histories and the layout specification of one group ---- *)
Fixpoint enc_run (mk : Z -> Z -> codec) (e : fecenc) (ins : list (bytes * Z)) (rto : Z)
  : res (fecenc * list (bytes * list bytes)) :=
  match ins with
  | [] => Ok (e, [])
  | (buf, now) :: t =>
      match enc_encode mk e buf now rto with
      | Panic w => Panic w
      | Ok (e1, dp, ps) =>
          match enc_run mk e1 t rto with
          | Panic w => Panic w
          | Ok (e2, outs) => Ok (e2, (dp, ps) :: outs)
          end
      end
  end.

Definition parity_packets (C : codec) (d p : Z) (imgs : list bytes) (g : Z) : list bytes :=
  map (fun j => grp_packet C d (d + p) imgs g (Z.to_nat d + j)) (seq 0 (Z.to_nat p)).

(* what encode must return for the rest `ins` = (buffer, clock) of a group with shard id g whose
   first packets have the images `done`; ts = time of the previous packet: every call returns the
   sealed data packet; the last one also the parity packets unless the last two data packets are
   >= rto apart (then the parity is skipped, the ids are consumed all the same) *)
Fixpoint enc_spec (C : codec) (d p g : Z) (done : list bytes) (ts : Z) (ins : list (bytes * Z)) (rto : Z)
  : list (bytes * list bytes) :=
  match ins with
  | [] => []
  | (buf, now) :: t =>
      let img := image (skipn 8 buf) in
      let dpkt := le32 (g * (d + p) + Z.of_nat (length done)) ++ le16 c_typeData ++ img in
      match t with
      | [] => [(dpkt, if now - ts <? rto then parity_packets C d p (done ++ [img]) g else [])]
      | _ => (dpkt, []) :: enc_spec C d p g (done ++ [img]) now t rto
      end
  end.
