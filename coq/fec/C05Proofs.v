(* C05 (the FEC decoder part): decode is total for every packet of 6..mtuLimit bytes in ANY
   decoder state, and after ANY sequence of arbitrary packets (forged seqids and types included)
   every group holds fewer than dataShards packets of at most mtuLimit bytes and the autotune ring
   holds at most maxAutoTuneSamples samples.  The NUMBER of groups: see c05_fec_bounded*. *)
From Coq Require Import ZArith List Bool Lia Arith.
From KV.Base Require Import Consts Word WordLemmas.
From KV.Fec Require Import Codec AutoTune Fec FecSpec FecProofs FecProofs2.
Import ListNotations.
Local Open Scope Z_scope.

Ltac Zify.zify_post_hook ::= Z.div_mod_to_equations.

(* ------------------------------------------------------------ totality *)

Lemma decode_total mk st pkt :
  c_fecHeaderSize <= blen pkt <= c_mtuLimit ->
  exists st' out, dec_decode mk st pkt = Ok (st', out).
Proof.
  intros (Hlo & Hhi). unfold dec_decode.
  destruct (blen pkt <? c_fecHeaderSize) eqn:E; [apply Z.ltb_lt in E; lia|].
  destruct (d_paws _ <=? pk_seqid pkt); [eauto|].
  destruct (d_should _ || type_mismatch _ _ _); [eauto|].
  destruct (dec_store_ok mk (set_at st (at_sample (d_at st) (pk_flag pkt =? c_typeData) (pk_seqid pkt))) pkt (pk_seqid pkt) Hhi)
    as (st' & out & He & _). eauto.
Qed.

(* ------------------------------------------------------------ the ring *)

Definition at_ok (t : autotune) : Prop :=
  length (at_pulses t) = Z.to_nat at_N /\ 0 <= at_count t <= at_N /\
  0 <= at_head t < at_N /\ 0 <= at_tail t < at_N.

Lemma at_init_ok : at_ok at_init.
Proof.
  unfold at_ok, at_init. cbn [at_pulses at_count at_head at_tail]. rewrite repeat_length.
  unfold at_N, c_maxAutoTuneSamples. lia.
Qed.

Lemma at_sample_ok t b s : at_ok t -> at_ok (at_sample t b s).
Proof.
  unfold at_ok, at_sample, at_N, c_maxAutoTuneSamples. intros (Hl & Hc & Hh & Ht).
  destruct (at_count t <? 258) eqn:E; simpl; rewrite upd_length.
  - apply Z.ltb_lt in E. repeat split; try assumption; lia.
  - apply Z.ltb_ge in E. repeat split; try assumption; lia.
Qed.

Lemma at_window_length t : length (at_window t) = Z.to_nat (at_count t).
Proof. unfold at_window. rewrite map_length, seq_length. reflexivity. Qed.

(* ------------------------------------------------------------ the groups, for arbitrary packets *)

Definition set_small (dd : Z) (ge : Z * list bytes) : Prop :=
  Z.of_nat (length (snd ge)) < dd /\ Forall (fun e => blen e <= c_mtuLimit) (snd ge).

Definition c05_inv (st : fecdec) : Prop :=
  0 < d_data st /\ Forall (set_small (d_data st)) (d_sets st) /\ at_ok (d_at st).

Lemma dec_new_c05 d p st : dec_new d p = Some st -> c05_inv st.
Proof.
  unfold dec_new. destruct ((d <=? 0) || (p <=? 0)) eqn:E1; [discriminate|].
  destruct (256 <? d + p); [discriminate|]. intros H. inversion H; subst.
  apply orb_false_iff in E1 as [E1 _]. apply Z.leb_gt in E1.
  unfold c05_inv; simpl. split; [assumption|]. split; [constructor|apply at_init_ok].
Qed.

Lemma dec_retune_c05 st : c05_inv st -> c05_inv (dec_retune st).
Proof.
  intros (Hd & Hall & Hat). unfold dec_retune.
  destruct ((0 <? find_period (d_at st) true) && (0 <? find_period (d_at st) false) &&
            (find_period (d_at st) true + find_period (d_at st) false <? 256)) eqn:E.
  - apply andb_true_iff in E as [E _]. apply andb_true_iff in E as [E1 _]. apply Z.ltb_lt in E1.
    destruct (negb _ || negb _); unfold c05_inv; simpl.
    + split; [assumption|]. split; [constructor|assumption].
    + tauto.
  - unfold c05_inv; simpl. tauto.
Qed.

Lemma dec_store_c05 mk st pkt s st' out :
  c05_inv st -> blen pkt <= c_mtuLimit -> dec_store mk st pkt s = Ok (st', out) -> c05_inv st'.
Proof.
  intros (Hd & Hall & Hat) Hlen. unfold dec_store.
  assert (Hsets0 : exists elems sets0,
    (match set_find (s / d_size st) (d_sets st) with Some e => (e, d_sets st) | None => ([], set_put (s / d_size st) [] (d_sets st)) end)
      = (elems, sets0) /\ set_small (d_data st) (s / d_size st, elems) /\ Forall (set_small (d_data st)) sets0).
  { destruct (set_find (s / d_size st) (d_sets st)) as [e|] eqn:F.
    - exists e, (d_sets st). split; [reflexivity|]. split; [|assumption].
      apply set_find_in in F. rewrite Forall_forall in Hall. apply (Hall _ F).
    - exists [], (set_put (s / d_size st) [] (d_sets st)). split; [reflexivity|].
      assert (set_small (d_data st) (s / d_size st, [])) by (split; simpl; [lia|constructor]).
      split; [assumption|]. apply set_put_forall; assumption. }
  destruct Hsets0 as (elems & sets0 & -> & (Hel & Hes) & Hall0). simpl in Hel, Hes.
  destruct (has_seqid s elems).
  { intros H. inversion H; subst. unfold c05_inv; simpl. tauto. }
  destruct (c_mtuLimit <? blen pkt) eqn:E; [discriminate|].
  destruct (d_data st <=? Z.of_nat (length (pkt :: elems))) eqn:Etr; intros H; inversion H; subst;
    unfold c05_inv; simpl; (split; [assumption|]); (split; [|assumption]);
    apply discard_forall; apply set_put_forall; try assumption.
  - split; simpl; [lia|constructor].
  - apply Z.leb_gt in Etr. split; simpl; [simpl length in Etr; lia|constructor; assumption].
Qed.

Lemma decode_c05 mk st pkt st' out :
  c05_inv st -> blen pkt <= c_mtuLimit -> dec_decode mk st pkt = Ok (st', out) -> c05_inv st'.
Proof.
  intros Hinv Hlen. unfold dec_decode.
  destruct (blen pkt <? c_fecHeaderSize); [discriminate|].
  set (st1 := set_at st _).
  assert (Hinv1 : c05_inv st1).
  { destruct Hinv as (Hd & Hall & Hat). unfold st1, c05_inv; simpl. split; [assumption|].
    split; [assumption|apply at_sample_ok; assumption]. }
  destruct (d_paws st1 <=? pk_seqid pkt); [intros H; inversion H; subst; assumption|].
  destruct (d_should st1 || type_mismatch st1 _ _).
  - intros H; inversion H; subst. apply dec_retune_c05. assumption.
  - apply dec_store_c05; assumption.
Qed.

Lemma run_dec_c05 mk h : forall st,
  c05_inv st -> Forall (fun pkt => c_fecHeaderSize <= blen pkt <= c_mtuLimit) h ->
  exists st' outs, run_dec mk st h = Ok (st', outs) /\ c05_inv st'.
Proof.
  induction h as [|pkt t IH]; intros st Hinv Hall.
  - exists st, []. simpl. auto.
  - apply Forall_cons_iff in Hall as [Hp Ht].
    destruct (decode_total mk st pkt Hp) as (st1 & out & He).
    pose proof (decode_c05 mk st pkt st1 out Hinv ltac:(lia) He) as Hinv1.
    destruct (IH st1 Hinv1 Ht) as (st2 & outs & He2 & Hinv2).
    exists st2, (out :: outs). simpl. rewrite He, He2. auto.
Qed.

(* ------------------------------------------------------------ the number of groups *)

(* position invariant: every group held lies 0..maxShardSets groups behind the newest one on the id
   circle (discardShards, repair a8b9fc5, drops everything else: too far behind, or "ahead") *)
Definition key_ok (st : fecdec) (ge : Z * list bytes) : Prop :=
  0 <= fst ge /\ fst ge * d_size st + d_size st <= d_paws st /\
  too_old (d_size st) (d_newest st) (fst ge) = false.

Definition pos_inv (st : fecdec) : Prop :=
  0 < d_size st <= 256 /\ d_paws st = paws_of (d_size st) /\
  NoDup (map fst (d_sets st)) /\ Forall (key_ok st) (d_sets st).

Lemma dec_new_pos d p st : dec_new d p = Some st -> pos_inv st.
Proof.
  unfold dec_new. destruct ((d <=? 0) || (p <=? 0)) eqn:E1; [discriminate|].
  destruct (256 <? d + p) eqn:E2; [discriminate|]. intros H. inversion H; subst.
  apply orb_false_iff in E1 as [E1 E1']. apply Z.leb_gt in E1. apply Z.leb_gt in E1'. apply Z.ltb_ge in E2.
  unfold pos_inv; simpl. repeat split; try lia; constructor.
Qed.

Lemma dec_retune_pos st : pos_inv st -> pos_inv (dec_retune st).
Proof.
  intros (Hss & Hw & Hnd & Hall). unfold dec_retune.
  destruct ((0 <? find_period (d_at st) true) && (0 <? find_period (d_at st) false) &&
            (find_period (d_at st) true + find_period (d_at st) false <? 256)) eqn:E.
  - apply andb_true_iff in E as [E E3]. apply andb_true_iff in E as [E1 E2].
    apply Z.ltb_lt in E1. apply Z.ltb_lt in E2. apply Z.ltb_lt in E3.
    destruct (negb _ || negb _); unfold pos_inv; simpl.
    + repeat split; try lia; constructor.
    + repeat split; try lia; assumption.
  - unfold pos_inv; simpl. repeat split; try lia; assumption.
Qed.

Lemma key_ok_newest_irrelevant st n sets ge :
  key_ok (set_sets st n sets) ge <->
  (0 <= fst ge /\ fst ge * d_size st + d_size st <= d_paws st /\ too_old (d_size st) n (fst ge) = false).
Proof. unfold key_ok; simpl. tauto. Qed.

Lemma dec_store_pos mk st pkt s st' out :
  pos_inv st -> 0 <= s < d_paws st -> dec_store mk st pkt s = Ok (st', out) -> pos_inv st'.
Proof.
  intros (Hss & Hw & Hnd & Hall) Hs. unfold dec_store.
  assert (Hid : 0 <= s / d_size st /\ s / d_size st * d_size st + d_size st <= d_paws st).
  { rewrite Hw in *. destruct (group_below_paws (d_size st) Hss s Hs) as (H1 & H2). lia. }
  assert (Hsets0 : exists elems sets0,
    (match set_find (s / d_size st) (d_sets st) with Some e => (e, d_sets st) | None => ([], set_put (s / d_size st) [] (d_sets st)) end)
      = (elems, sets0) /\ NoDup (map fst sets0) /\
      (set_find (s / d_size st) (d_sets st) <> None -> sets0 = d_sets st) /\
      Forall (fun ge : Z * list bytes => 0 <= fst ge /\ fst ge * d_size st + d_size st <= d_paws st) sets0).
  { assert (Hr : Forall (fun ge : Z * list bytes => 0 <= fst ge /\ fst ge * d_size st + d_size st <= d_paws st) (d_sets st)).
    { apply Forall_forall. intros ge Hge. rewrite Forall_forall in Hall. destruct (Hall ge Hge) as (? & ? & _). auto. }
    destruct (set_find (s / d_size st) (d_sets st)) as [e|].
    - exists e, (d_sets st). auto.
    - exists [], (set_put (s / d_size st) [] (d_sets st)). split; [reflexivity|]. split; [apply set_put_nodup; assumption|].
      split; [congruence|]. apply set_put_forall; [assumption|]. simpl. exact Hid. }
  destruct Hsets0 as (elems & sets0 & Hm & Hnd0 & Hsame & Hr0). rewrite Hm.
  destruct (has_seqid s elems) eqn:Hdup.
  { (* duplicate: the entry existed, nothing changes *)
    intros H. inversion H; subst.
    assert (Hex : set_find (s / d_size st) (d_sets st) <> None).
    { destruct (set_find (s / d_size st) (d_sets st)); [discriminate|]. inversion Hm; subst. discriminate. }
    rewrite (Hsame Hex).
    assert (Hn0 : match d_sets st with [] => s / d_size st | _ :: _ => d_newest st end = d_newest st).
    { destruct (d_sets st); [simpl in Hex; congruence|reflexivity]. }
    rewrite Hn0. unfold pos_inv; simpl. repeat split; try lia; try assumption. }
  destruct (c_mtuLimit <? blen pkt); [discriminate|].
  set (newest0 := match d_sets st with [] => s / d_size st | _ => d_newest st end).
  set (newest := if itimediff (u32 (s / d_size st * d_size st)) (u32 (newest0 * d_size st)) >? 0 then s / d_size st else newest0).
  assert (Hfin : forall elems2, pos_inv (set_sets st newest (discard (d_size st) newest (set_put (s / d_size st) elems2 sets0)))).
  { intros elems2. unfold pos_inv; simpl. split; [lia|]. split; [assumption|]. split.
    - unfold discard. apply NoDup_map_filter. apply set_put_nodup. assumption.
    - unfold discard. apply Forall_forall. intros ge Hge. apply filter_In in Hge. destruct Hge as (Hin & Hf).
      apply key_ok_newest_irrelevant.
      assert (Hrr : Forall (fun ge : Z * list bytes => 0 <= fst ge /\ fst ge * d_size st + d_size st <= d_paws st)
                           (set_put (s / d_size st) elems2 sets0)) by (apply set_put_forall; [assumption|exact Hid]).
      rewrite Forall_forall in Hrr. destruct (Hrr ge Hin) as (? & ?).
      destruct ge as [id es]. simpl in *. apply negb_true_iff in Hf. auto. }
  destruct (d_data st <=? Z.of_nat (length (pkt :: elems))); intros H; inversion H; subst; apply Hfin.
Qed.

Lemma decode_pos mk st pkt st' out :
  pos_inv st -> bytes_ok pkt -> dec_decode mk st pkt = Ok (st', out) -> pos_inv st'.
Proof.
  intros Hinv Hb. unfold dec_decode.
  destruct (blen pkt <? c_fecHeaderSize) eqn:El; [discriminate|].
  set (st1 := set_at st _).
  assert (Hinv1 : pos_inv st1) by (destruct Hinv as (? & ? & ? & ?); unfold st1, pos_inv; simpl; auto).
  destruct (d_paws st1 <=? pk_seqid pkt) eqn:Ew; [intros H; inversion H; subst; assumption|].
  destruct (d_should st1 || type_mismatch st1 _ _).
  - intros H; inversion H; subst. apply dec_retune_pos. assumption.
  - apply dec_store_pos; [assumption|]. apply Z.leb_gt in Ew. split; [|assumption].
    (* rd32 of bytes is non-negative *)
    apply Z.ltb_ge in El. unfold pk_seqid, rd32.
    destruct pkt as [|a [|b [|c [|e r]]]]; try (unfold blen, c_fecHeaderSize in El; simpl in El; lia).
    unfold bytes_ok in Hb. repeat (apply Forall_cons_iff in Hb as [? Hb]). unfold is_byte in *. lia.
Qed.

(* at most maxShardSets+1 groups *)
Lemma NoDup_map_inj_on {A B} (f : A -> B) l :
  (forall x y, In x l -> In y l -> f x = f y -> x = y) -> NoDup l -> NoDup (map f l).
Proof.
  induction l as [|a l IH]; intros Hinj Hnd; [constructor|].
  inversion Hnd as [|? ? Hnin Hnd']; subst. simpl. constructor.
  - intros Hin. apply in_map_iff in Hin. destruct Hin as (y & Hfy & Hy).
    assert (y = a) by (apply Hinj; [right; assumption|left; reflexivity|assumption]). subst. contradiction.
  - apply IH; [|assumption]. intros x y Hx Hy. apply Hinj; right; assumption.
Qed.

Definition slot (ss P id : Z) : nat := Z.to_nat (itimediff P (u32 (id * ss)) / ss).

Lemma slot_inj ss P paws id1 id2 :
  0 < ss <= 256 -> 0 < paws < W32 ->
  0 <= id1 -> id1 * ss + ss <= paws -> 0 <= id2 -> id2 * ss + ss <= paws ->
  0 <= itimediff P (u32 (id1 * ss)) <= 3 * ss -> 0 <= itimediff P (u32 (id2 * ss)) <= 3 * ss ->
  slot ss P id1 = slot ss P id2 -> id1 = id2.
Proof.
  intros Hss Hpw H1 H1' H2 H2' Hd1 Hd2 Hq. unfold slot in Hq.
  remember (id1 * ss) as v1 eqn:E1. remember (id2 * ss) as v2 eqn:E2.
  assert (Hv1 : 0 <= v1 < W32) by (unfold W32 in *; nia). assert (Hv2 : 0 <= v2 < W32) by (unfold W32 in *; nia).
  rewrite (u32_id v1) in * by assumption. rewrite (u32_id v2) in * by assumption.
  remember (itimediff P v1) as t1 eqn:T1. remember (itimediff P v2) as t2 eqn:T2.
  assert (Hq' : t1 / ss = t2 / ss).
  { assert (0 <= t1 / ss) by (apply Z.div_pos; lia). assert (0 <= t2 / ss) by (apply Z.div_pos; lia). lia. }
  assert (Hclose : - ss < t1 - t2 < ss).
  { pose proof (Z.div_mod t1 ss ltac:(lia)). pose proof (Z.div_mod t2 ss ltac:(lia)).
    pose proof (Z.mod_pos_bound t1 ss ltac:(lia)). pose proof (Z.mod_pos_bound t2 ss ltac:(lia)).
    rewrite Hq' in *. lia. }
  (* t_i = P - v_i modulo 2^32 *)
  assert (Hm : exists m, v1 - v2 = t2 - t1 + m * W32).
  { subst t1 t2. unfold itimediff, i32, W32, H32.
    exists ((P - v2 + 2147483648) / 4294967296 - (P - v1 + 2147483648) / 4294967296).
    pose proof (Z.div_mod (P - v1 + 2147483648) 4294967296 ltac:(lia)).
    pose proof (Z.div_mod (P - v2 + 2147483648) 4294967296 ltac:(lia)). lia. }
  destruct Hm as (m & Hm).
  assert (Hm0 : m = 0) by (unfold W32 in *; nia).
  subst m. assert (Hv : v1 = v2 \/ ss <= v1 - v2 \/ ss <= v2 - v1).
  { subst v1 v2. destruct (Z.lt_trichotomy id1 id2) as [Hlt|[Heq|Hgt]]; [right; right; nia|left; congruence|right; left; nia]. }
  destruct Hv as [Hv|[Hv|Hv]]; [|lia|lia]. subst v1 v2. nia.
Qed.

Lemma pos_inv_groups_le st : pos_inv st -> (length (d_sets st) <= Z.to_nat (c_maxShardSets + 1))%nat.
Proof.
  intros (Hss & Hw & Hnd & Hall).
  set (P := u32 (d_newest st * d_size st)).
  rewrite <- (map_length fst).
  assert (Hslots : NoDup (map (slot (d_size st) P) (map fst (d_sets st)))).
  { apply NoDup_map_inj_on; [|assumption].
    intros id1 id2 Hi1 Hi2 Hq. apply in_map_iff in Hi1. apply in_map_iff in Hi2.
    destruct Hi1 as (ge1 & <- & Hg1). destruct Hi2 as (ge2 & <- & Hg2).
    rewrite Forall_forall in Hall. destruct (Hall _ Hg1) as (Ha1 & Hb1 & Hc1). destruct (Hall _ Hg2) as (Ha2 & Hb2 & Hc2).
    unfold too_old in Hc1, Hc2. cbv zeta in Hc1, Hc2. fold P in Hc1, Hc2.
    apply orb_false_iff in Hc1 as [Hc1 Hc1']. apply orb_false_iff in Hc2 as [Hc2 Hc2'].
    unfold c_maxShardSets in *.
    assert (Hnle : forall a b, (a >? b) = false -> a <= b) by (intros a b E; destruct (a >? b) eqn:E'; [discriminate|]; rewrite Z.gtb_ltb in E'; apply Z.ltb_ge in E'; lia).
    apply Hnle in Hc1. apply Hnle in Hc2. apply Z.ltb_ge in Hc1'. apply Z.ltb_ge in Hc2'.
    destruct (paws_of_bounds (d_size st) Hss) as ((Hp0 & Hp1) & _).
    apply (slot_inj (d_size st) P (d_paws st)); try assumption; try lia. rewrite Hw. unfold W32. lia. }
  apply NoDup_incl_length with (l' := seq 0 4) in Hslots.
  - rewrite !map_length in *. rewrite seq_length in Hslots. unfold c_maxShardSets. simpl. lia.
  - intros k Hk. apply in_map_iff in Hk. destruct Hk as (id & <- & Hid). apply in_map_iff in Hid.
    destruct Hid as (ge & <- & Hge). rewrite Forall_forall in Hall. destruct (Hall _ Hge) as (_ & _ & Hc).
    unfold too_old in Hc. cbv zeta in Hc. fold P in Hc. apply orb_false_iff in Hc as [Hc Hc'].
    unfold c_maxShardSets in Hc. rewrite Z.gtb_ltb in Hc. apply Z.ltb_ge in Hc. apply Z.ltb_ge in Hc'.
    apply in_seq. unfold slot. split; [lia|]. simpl.
    assert (itimediff P (u32 (fst ge * d_size st)) / d_size st <= 3).
    { apply Z.div_le_upper_bound; lia. }
    assert (0 <= itimediff P (u32 (fst ge * d_size st)) / d_size st) by (apply Z.div_pos; lia). lia.
Qed.

(* everything together, over arbitrary packet sequences *)
Definition arbitrary_pkt (pkt : bytes) : Prop :=
  c_fecHeaderSizePlus2 <= blen pkt <= c_mtuLimit /\ bytes_ok pkt.

Lemma run_dec_bounded mk h : forall st,
  c05_inv st -> pos_inv st -> Forall arbitrary_pkt h ->
  exists st' outs, run_dec mk st h = Ok (st', outs) /\ c05_inv st' /\ pos_inv st'.
Proof.
  induction h as [|pkt t IH]; intros st Hc Hp Hall.
  - exists st, []. simpl. auto.
  - apply Forall_cons_iff in Hall as [(Hlen & Hb) Ht].
    assert (Hlen' : c_fecHeaderSize <= blen pkt <= c_mtuLimit) by (unfold c_fecHeaderSize, c_fecHeaderSizePlus2 in *; lia).
    destruct (decode_total mk st pkt Hlen') as (st1 & out & He).
    pose proof (decode_c05 mk st pkt st1 out Hc ltac:(lia) He) as Hc1.
    pose proof (decode_pos mk st pkt st1 out Hp Hb He) as Hp1.
    destruct (IH st1 Hc1 Hp1 Ht) as (st2 & outs & He2 & Hc2 & Hp2).
    exists st2, (out :: outs). simpl. rewrite He, He2. auto.
Qed.

Lemma c05_bounded_lemma mk h st :
  c05_inv st -> pos_inv st -> Forall arbitrary_pkt h ->
  exists st' outs, run_dec mk st h = Ok (st', outs) /\ c05_inv st' /\ pos_inv st' /\
    (length (d_sets st') <= Z.to_nat (c_maxShardSets + 1))%nat /\
    Forall (fun ge : Z * list bytes =>
              Z.of_nat (length (snd ge)) < d_data st' /\ Forall (fun e => blen e <= c_mtuLimit) (snd ge))
           (d_sets st') /\
    length (at_pulses (d_at st')) = Z.to_nat c_maxAutoTuneSamples /\
    (length (at_window (d_at st')) <= Z.to_nat c_maxAutoTuneSamples)%nat.
Proof.
  intros Hc Hp Hall. destruct (run_dec_bounded mk h st Hc Hp Hall) as (st' & outs & He & Hc' & Hp').
  exists st', outs. split; [assumption|]. split; [assumption|]. split; [assumption|].
  split; [apply pos_inv_groups_le; assumption|].
  destruct Hc' as (Hd & Hsm & Hat). split; [exact Hsm|].
  destruct Hat as (Hl & Hcnt & _). split; [exact Hl|].
  rewrite at_window_length. unfold at_N in *. lia.
Qed.

Lemma c05_bounded_from_new mk d p st0 h :
  dec_new d p = Some st0 -> Forall arbitrary_pkt h ->
  exists st' outs, run_dec mk st0 h = Ok (st', outs) /\
    (length (d_sets st') <= Z.to_nat (c_maxShardSets + 1))%nat /\
    Forall (fun ge : Z * list bytes =>
              Z.of_nat (length (snd ge)) < d_data st' /\ Forall (fun e => blen e <= c_mtuLimit) (snd ge))
           (d_sets st') /\
    length (at_pulses (d_at st')) = Z.to_nat c_maxAutoTuneSamples /\
    (length (at_window (d_at st')) <= Z.to_nat c_maxAutoTuneSamples)%nat.
Proof.
  intros Hn Hall.
  destruct (c05_bounded_lemma mk h st0 (dec_new_c05 d p st0 Hn) (dec_new_pos d p st0 Hn) Hall)
    as (st' & outs & He & _ & _ & H1 & H2 & H3 & H4).
  exists st', outs. auto.
Qed.

Lemma c05_example_lemma :
  (exists st0, dec_new 10 3 = Some st0 /\ c05_inv st0 /\ pos_inv st0) /\ Z.to_nat (c_maxShardSets + 1) = 4%nat.
Proof.
  split; [|reflexivity]. eexists. split; [reflexivity|].
  split; [apply (dec_new_c05 10 3); reflexivity|apply (dec_new_pos 10 3); reflexivity].
Qed.
