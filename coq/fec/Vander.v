(* Vandermonde rows at pairwise distinct points have trivial right kernel:
   dot (pow_row r 1 d) x is the value at r of the polynomial with coefficient list x (low to high),
   and a polynomial with d coefficients and d distinct roots is zero (synthetic division by X + r,
   induction on d). *)
From Coq Require Import ZArith List Bool Lia Arith.
From KV.Fec Require Import Gf256 Rs RsProofs GfField LinAlg.
Import ListNotations.
Local Open Scope Z_scope.

(* equalities between xor-combinations of opaque atoms *)
Ltac xor_tac :=
  apply Z.bits_inj'; let k := fresh "k" in intros k _; rewrite ?Z.lxor_spec, ?Z.bits_0;
  repeat match goal with |- context [Z.testbit ?a k] => destruct (Z.testbit a k) end; reflexivity.

(* Horner evaluation, coefficients low to high *)
Fixpoint peval (x : list Z) (r : Z) : Z :=
  match x with [] => 0 | x0 :: x' => Z.lxor x0 (gmul r (peval x' r)) end.

Lemma peval_byte x r : Forall byte x -> byte r -> byte (peval x r).
Proof.
  intros Bx Hr. induction x as [|x0 x IH]; cbn [peval]; [apply byte_0|].
  apply Forall_cons_iff in Bx as [H0 Bx]. apply lxor_byte; [exact H0|apply gmul_byte; exact Hr].
Qed.

Lemma peval_zeros n r : peval (repeat 0 n) r = 0.
Proof. induction n as [|n IH]; cbn [repeat peval]; [reflexivity|]. rewrite IH, gmul_0_r. reflexivity. Qed.

(* ------------------------------------------------------------ pow_row *)

Lemma pow_row_length r : forall c cur, length (pow_row r cur c) = c.
Proof. induction c as [|c IH]; intros cur; cbn [pow_row length]; [reflexivity|]. rewrite IH. reflexivity. Qed.

Lemma pow_row_byte r : forall c cur, byte cur -> Forall byte (pow_row r cur c).
Proof.
  induction c as [|c IH]; intros cur Hc; cbn [pow_row]; constructor; [exact Hc|].
  apply IH. apply gmul_byte. exact Hc.
Qed.

Lemma bvec_pow_row r c : bvec c (pow_row r 1 c).
Proof. split; [apply pow_row_length|apply pow_row_byte; apply byte_1]. Qed.

Lemma dot_pow_row_scale r : byte r -> forall c cur s x, byte cur -> byte s -> Forall byte x ->
  dot (pow_row r (gmul s cur) c) x = gmul s (dot (pow_row r cur c) x).
Proof.
  intros Hr. induction c as [|c IH]; intros cur s x Hc Hs Bx; cbn [pow_row dot].
  - rewrite gmul_0_r. reflexivity.
  - destruct x as [|x0 x]; [rewrite gmul_0_r; reflexivity|].
    apply Forall_cons_iff in Bx as [H0 Bx].
    rewrite gmul_lin. f_equal.
    + apply gmul_assoc; assumption.
    + rewrite (gmul_assoc s cur r) by assumption. apply IH; try assumption. apply gmul_byte. exact Hc.
Qed.

Lemma dot_pow_row r : byte r -> forall x, Forall byte x -> dot (pow_row r 1 (length x)) x = peval x r.
Proof.
  intros Hr. induction x as [|x0 x IH]; intros Bx; [reflexivity|].
  apply Forall_cons_iff in Bx as [H0 Bx]. cbn [length pow_row dot peval].
  rewrite (gmul_1_l x0) by exact H0. f_equal.
  rewrite (gmul_comm 1 r) by (try apply byte_1; assumption).
  rewrite dot_pow_row_scale by (try apply byte_1; assumption).
  rewrite IH by exact Bx. reflexivity.
Qed.

(* ------------------------------------------------------------ synthetic division by (X + r) *)

(* [p_1(r); p_2(r); ...] for the tails p_k of x: the quotient of (x0 :: x) by (X + r) *)
Fixpoint tails_eval (x : list Z) (r : Z) : list Z :=
  match x with [] => [] | _ :: x' => peval x r :: tails_eval x' r end.

Lemma tails_eval_length x r : length (tails_eval x r) = length x.
Proof. induction x as [|a x IH]; cbn [tails_eval length]; [reflexivity|]. rewrite IH. reflexivity. Qed.

Lemma tails_eval_byte x r : Forall byte x -> byte r -> Forall byte (tails_eval x r).
Proof.
  intros Bx Hr. induction x as [|a x IH]; cbn [tails_eval]; [constructor|].
  constructor; [apply peval_byte; assumption|]. apply IH. apply Forall_cons_iff in Bx. apply Bx.
Qed.

Lemma div_step x r s : Forall byte x -> byte r -> byte s ->
  Z.lxor (gmul s (peval x s)) (gmul r (peval x r)) = gmul (Z.lxor s r) (peval (tails_eval x r) s).
Proof.
  intros Bx Hr Hs. induction x as [|x1 x IH].
  - cbn [peval tails_eval]. rewrite !gmul_0_r. reflexivity.
  - pose proof Bx as Bx1. apply Forall_cons_iff in Bx as [H1 Bx]. specialize (IH Bx).
    cbn [tails_eval].
    set (A := peval (x1 :: x) r). set (B := peval (x1 :: x) s). cbn [peval].
    set (Q := peval (tails_eval x r) s) in *.
    assert (HA : byte A) by (apply peval_byte; assumption).
    assert (HB : byte B) by (apply peval_byte; assumption).
    assert (HQ : byte Q) by (apply peval_byte; [apply tails_eval_byte|]; assumption).
    assert (H : Z.lxor B A = gmul (Z.lxor s r) Q).
    { rewrite <- IH. unfold A, B. cbn [peval]. xor_tac. }
    assert (Hsr : byte (Z.lxor s r)) by (apply lxor_byte; assumption).
    rewrite gmul_lin. rewrite (gmul_swap (Z.lxor s r) s Q) by assumption.
    rewrite <- H. rewrite gmul_lin. rewrite gmul_lin_l by assumption. xor_tac.
Qed.

Lemma peval_div x0 x r s : Forall byte x -> byte r -> byte s ->
  Z.lxor (peval (x0 :: x) s) (peval (x0 :: x) r) = gmul (Z.lxor s r) (peval (tails_eval x r) s).
Proof.
  intros Bx Hr Hs. rewrite <- div_step by assumption. cbn [peval]. xor_tac.
Qed.

Lemma tails_eval_zero r : forall x, tails_eval x r = repeat 0 (length x) -> x = repeat 0 (length x).
Proof.
  induction x as [|x1 x IH]; intros H; [reflexivity|].
  cbn [tails_eval length repeat] in *. injection H as H1 H2.
  pose proof (IH H2) as E. f_equal; [|exact E].
  cbn [peval] in H1. rewrite E in H1. rewrite peval_zeros, gmul_0_r, Z.lxor_0_r in H1. exact H1.
Qed.

(* ------------------------------------------------------------ root counting *)

Theorem poly_roots : forall d x roots,
  length x = d -> length roots = d -> Forall byte x -> Forall byte roots -> NoDup roots ->
  (forall r, In r roots -> peval x r = 0) -> x = repeat 0 d.
Proof.
  induction d as [|d IH]; intros x roots Lx Lr Bx Br ND Hroot.
  - destruct x; [reflexivity|discriminate].
  - destruct x as [|x0 x]; [discriminate|]. destruct roots as [|r1 rs]; [discriminate|].
    cbn [length] in Lx, Lr.
    apply Forall_cons_iff in Bx as [H0 Bx]. apply Forall_cons_iff in Br as [Hr1 Brs].
    apply NoDup_cons_iff in ND as [Nin ND].
    assert (Eq : tails_eval x r1 = repeat 0 d).
    { apply (IH _ rs); [rewrite tails_eval_length; lia|lia|apply tails_eval_byte; assumption|exact Brs|exact ND|].
      intros s Hs.
      assert (Bs : byte s) by (rewrite Forall_forall in Brs; apply Brs; exact Hs).
      pose proof (peval_div x0 x r1 s Bx Hr1 Bs) as D.
      rewrite (Hroot s (or_intror Hs)), (Hroot r1 (or_introl eq_refl)) in D. cbn in D.
      apply (gmul_nz_cancel (Z.lxor s r1)); [apply lxor_byte; assumption| | |symmetry; exact D].
      - apply peval_byte; [apply tails_eval_byte|]; assumption.
      - intros E. apply lxor_eq0 in E. subst s. contradiction. }
    assert (Ex : x = repeat 0 d).
    { replace d with (length x) by lia. apply (tails_eval_zero r1). replace (length x) with d by lia. exact Eq. }
    pose proof (Hroot r1 (or_introl eq_refl)) as R. cbn [peval] in R.
    rewrite Ex, peval_zeros, gmul_0_r, Z.lxor_0_r in R. subst x0. rewrite Ex. reflexivity.
Qed.

(* ------------------------------------------------------------ the Vandermonde kernel *)

Lemma byte_of_nat i : (i < 256)%nat -> byte (Z.of_nat i).
Proof. unfold byte. lia. Qed.

Lemma NoDup_map_of_nat l : NoDup l -> NoDup (map Z.of_nat l).
Proof.
  induction l as [|a l IH]; intros H; cbn [map]; [constructor|].
  apply NoDup_cons_iff in H as [Nin ND]. constructor; [|apply IH; exact ND].
  intros Hin. apply in_map_iff in Hin. destruct Hin as (b & E & Hb). apply Nat2Z.inj in E. subst b. contradiction.
Qed.

Theorem vander_kernel d idxs x :
  length idxs = d -> NoDup idxs -> (forall i, In i idxs -> (i < 256)%nat) -> bvec d x ->
  (forall i, In i idxs -> dot (pow_row (Z.of_nat i) 1 d) x = 0) -> x = repeat 0 d.
Proof.
  intros Li ND Hlt [Lx Bx] Hz.
  apply (poly_roots d x (map Z.of_nat idxs)); try assumption.
  - rewrite map_length. exact Li.
  - apply Forall_map. apply Forall_forall. intros i Hi. apply byte_of_nat. apply Hlt. exact Hi.
  - apply NoDup_map_of_nat. exact ND.
  - intros r Hr. apply in_map_iff in Hr. destruct Hr as (i & <- & Hi).
    rewrite <- dot_pow_row; [|apply byte_of_nat; apply Hlt; exact Hi|exact Bx].
    rewrite Lx. apply Hz. exact Hi.
Qed.
