(* autotune.go transcribed: the 258-entry ring of (bit, seq) samples, Sample and FindPeriod.
   Machine integers are Z with the wrap written out (seq : uint32, _itimediff = int32 of the
   difference); the ring is a list of exactly maxAutoTuneSamples pulses plus head/tail/count.

   The sort.  Go sorts the copied window with sort.Slice (pdqsort, NOT stable) under the
   comparator less(a,b) := _itimediff(a.seq, b.seq) < 0.  The model uses the stable insertion
   sort `isort` under the same comparator (each sample is placed behind every sample that is not
   greater than it).  Equivalence on the observable result:
   (1) if all seqs of the window lie within a span < 2^31, `less` is a strict weak order whose
       equivalence classes are "equal seq"; any correct sort then produces the same sequence of
       seq values, and two outputs can differ only in the order of samples with EQUAL seq;
       if moreover equal seq implies equal bit (true for every stream in which the type of a
       packet is a function of its seqid - every genuine sender) such samples are identical and
       the sorted list is unique;
   (2) FindPeriod's positive results are insensitive to everything else: it demands
       seq[i-1]+1 = seq[i] along the whole scanned prefix, so a positive result always stems
       from a run of consecutive seqs (AutoTuneProofs.find_period_pulse - that statement holds
       for ANY output order of the sort, it only uses that the output is made of window samples).
   For windows with span >= 2^31 (comparator not transitive) or with conflicting duplicates the
   output of pdqsort is implementation-defined; the harness keeps the model comparison to
   windows of kind (1) and runs the property monitors on the others.
   No proofs in this file. *)
From Coq Require Import ZArith List Bool.
From KV.Base Require Import Consts Word.
Import ListNotations.
Local Open Scope Z_scope.

Record pulse := mkPulse { p_bit : bool; p_seq : Z }.
Definition pulse0 : pulse := mkPulse false 0.

Record autotune := mkAT {
  at_pulses : list pulse;   (* [maxAutoTuneSamples]pulse *)
  at_head : Z;              (* oldest element index *)
  at_tail : Z;              (* next write position *)
  at_count : Z              (* number of elements *)
}.

Definition at_N : Z := c_maxAutoTuneSamples.
Definition at_init : autotune := mkAT (repeat pulse0 (Z.to_nat at_N)) 0 0 0.

Fixpoint upd {A : Type} (l : list A) (i : nat) (x : A) : list A :=
  match l, i with
  | [], _ => []
  | _ :: t, O => x :: t
  | h :: t, S i' => h :: upd t i' x
  end.

(* func (tune *autoTune) Sample(bit bool, seq uint32) *)
Definition at_sample (t : autotune) (bit : bool) (seq : Z) : autotune :=
  let pulses := upd (at_pulses t) (Z.to_nat (at_tail t)) (mkPulse bit seq) in
  let tail := (at_tail t + 1) mod at_N in
  if at_count t <? at_N then mkAT pulses (at_head t) tail (at_count t + 1)
  else mkAT pulses ((at_head t + 1) mod at_N) tail (at_count t).

(* the copy loop: sortCache[i] = pulses[(head+i) % N], i < count  (oldest first) *)
Definition at_window (t : autotune) : list pulse :=
  map (fun i => nth (Z.to_nat ((at_head t + Z.of_nat i) mod at_N)) (at_pulses t) pulse0)
      (seq 0 (Z.to_nat (at_count t))).

(* less(i,j) = _itimediff(sorted[i].seq, sorted[j].seq) < 0 *)
Definition plt (a b : pulse) : bool := itimediff (p_seq a) (p_seq b) <? 0.
(* stable insertion sort; the accumulator is kept in DESCENDING order (largest first) so that the
   common case - a window that is already in order - costs one comparison per sample *)
Fixpoint insert_desc (x : pulse) (racc : list pulse) : list pulse :=
  match racc with
  | [] => [x]
  | y :: ys => if plt x y then y :: insert_desc x ys else x :: racc
  end.
Definition isort (l : list pulse) : list pulse :=
  rev (fold_left (fun racc x => insert_desc x racc) l []).

(* One edge loop of FindPeriod:
     for ; idx < len(sorted); idx++ {
        if lastPulse.seq+1 == sorted[idx].seq {
            if lastPulse.bit != bit && sorted[idx].bit == bit { edge = idx; break }
        } else { return -1 }
        lastPulse = sorted[idx] }
   The second loop (right edge: lastPulse.bit == bit && sorted[idx].bit != bit) is the same loop
   for the negated bit, started at the left edge. *)
Inductive scan := Edge (idx : Z) (at_edge : pulse) (rest : list pulse) | NoEdge | Broken.
Fixpoint scan_edge (bit : bool) (last : pulse) (l : list pulse) (idx : Z) : scan :=
  match l with
  | [] => NoEdge
  | cur :: rest =>
      if u32 (p_seq last + 1) =? p_seq cur then
        if negb (Bool.eqb (p_bit last) bit) && Bool.eqb (p_bit cur) bit then Edge idx cur rest
        else scan_edge bit cur rest (idx + 1)
      else Broken
  end.

Definition find_period_sorted (sorted : list pulse) (bit : bool) : Z :=
  match sorted with
  | [] => -1
  | first :: rest =>
      match scan_edge bit first rest 1 with
      | Edge le cur rest' =>
          match scan_edge (negb bit) cur rest' (le + 1) with
          | Edge re _ _ => re - le
          | _ => -1
          end
      | _ => -1
      end
  end.

(* func (tune *autoTune) FindPeriod(bit bool) int *)
Definition find_period (t : autotune) (bit : bool) : Z :=
  if at_count t <? 3 then -1 else find_period_sorted (isort (at_window t)) bit.
