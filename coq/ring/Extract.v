(* Extraction of the executable ring model.  ExtrOcamlBasic only: nat, positive, Z stay the
   extracted inductive types; no Extract Constant. *)
From Coq Require Import Extraction ExtrOcamlBasic.
From KV.Ring Require Import Model.
Extraction "ring_model.ml" mkRing new_ring step len max_len is_empty is_full abs.
