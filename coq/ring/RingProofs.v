(* Proofs about the ring-buffer model (Model.v).  C20.v states the theorems and closes each of
   them by `exact <lemma of this file>`. *)
From Coq Require Import List Arith ZArith Bool Lia PeanoNat ZifyNat.
From KV.Base Require Import Consts.
From KV.Ring Require Import Model.
Import ListNotations.
Local Open Scope nat_scope.

(* lia understands `/` and `mod` by a constant (used for new_size only) *)
Local Ltac Zify.zify_post_hook ::= Z.div_mod_to_equations.

(* ------------------------------------------------------------------------------------ *)
(* constants and arithmetic                                                               *)

Lemma ring_min_val : Z.to_nat c_RINGBUFFER_MIN = 8.
Proof. reflexivity. Qed.

Lemma ring_exp_val : Z.to_nat c_RINGBUFFER_EXP = 1024.
Proof. vm_compute. reflexivity. Qed.

Lemma new_size_spec (c : nat) :
  (c < 8 /\ new_size c = 8) \/
  (8 <= c < 1024 /\ new_size c = c * 2) \/
  (1024 <= c /\ new_size c = c + (c + 9) / 10).
Proof.
  unfold new_size. rewrite ring_min_val, ring_exp_val.
  destruct (Nat.ltb_spec c 8) as [H8|H8].
  - left. split; [exact H8 | reflexivity].
  - destruct (Nat.ltb_spec c 1024) as [Hk|Hk].
    + right. left. split; [split; assumption | reflexivity].
    + right. right. split; [exact Hk | reflexivity].
Qed.

Lemma new_size_gt (c : nat) : c < new_size c.
Proof.
  destruct (new_size_spec c) as [[H E]|[[H E]|[H E]]]; rewrite E; lia.
Qed.

(* a mod c for a < 2c, without nonlinear arithmetic *)
Lemma mod_wrap_cases (a c : nat) :
  0 < c -> a < 2 * c ->
  (a < c /\ a mod c = a) \/ (c <= a /\ a mod c = a - c).
Proof.
  intros Hc Ha. destruct (Nat.lt_ge_cases a c) as [H|H].
  - left. split; [exact H | apply Nat.mod_small; exact H].
  - right. split; [exact H |].
    replace a with ((a - c) + 1 * c) at 1 by lia.
    rewrite Nat.mod_add by lia. apply Nat.mod_small. lia.
Qed.

(* replace every `a mod c` whose bounds lia can establish by a or a - c *)
Ltac mod_cases :=
  repeat match goal with
  | |- context [?a mod ?c] =>
      let H0 := fresh "Hc" in
      let H1 := fresh "Ha" in
      let H := fresh "Hm" in
      let E := fresh "Em" in
      assert (H0 : 0 < c) by lia;
      assert (H1 : a < 2 * c) by lia;
      destruct (mod_wrap_cases a c H0 H1) as [[H E]|[H E]];
      rewrite E in *; clear H0 H1 E
  | X : context [?a mod ?c] |- _ =>
      let H0 := fresh "Hc" in
      let H1 := fresh "Ha" in
      let H := fresh "Hm" in
      let E := fresh "Em" in
      assert (H0 : 0 < c) by lia;
      assert (H1 : a < 2 * c) by lia;
      destruct (mod_wrap_cases a c H0 H1) as [[H E]|[H E]];
      rewrite E in *; clear H0 H1 E
  end.

(* case-split every nat comparison in goal and hypotheses *)
Ltac bd_lt a b :=
  let E := fresh "E" in
  destruct (Nat.lt_ge_cases a b) as [E|E];
  [ rewrite (proj2 (Nat.ltb_lt a b) E) in * | rewrite (proj2 (Nat.ltb_ge a b) E) in * ].
Ltac bd_le a b :=
  let E := fresh "E" in
  destruct (Nat.le_gt_cases a b) as [E|E];
  [ rewrite (proj2 (Nat.leb_le a b) E) in * | rewrite (proj2 (Nat.leb_gt a b) E) in * ].
Ltac bd_eq a b :=
  let E := fresh "E" in
  destruct (Nat.eq_dec a b) as [E|E];
  [ rewrite (proj2 (Nat.eqb_eq a b) E) in * | rewrite (proj2 (Nat.eqb_neq a b) E) in * ].
Ltac bdestr1 :=
  match goal with
  | |- context [?a <? ?b] => bd_lt a b
  | |- context [?a <=? ?b] => bd_le a b
  | |- context [?a =? ?b] => bd_eq a b
  | H : context [?a <? ?b] |- _ => bd_lt a b
  | H : context [?a <=? ?b] |- _ => bd_le a b
  | H : context [?a =? ?b] |- _ => bd_eq a b
  end.

Ltac crush_step :=
  first [ progress mod_cases
        | bdestr1
        | progress cbn [andb orb negb] in * ].
Ltac crush :=
  repeat crush_step;
  try discriminate;
  try first [ lia | reflexivity | f_equal; lia ].

(* ------------------------------------------------------------------------------------ *)
(* lists                                                                                  *)

Section ListLemmas.
Context {A : Type}.
Implicit Types (l e dst src : list A).

Lemma set_nth_length l : forall i v, length (set_nth l i v) = length l.
Proof.
  induction l as [|x l IH]; intros [|i] v; simpl; try reflexivity.
  f_equal. apply IH.
Qed.

Lemma nth_set_nth l : forall i j v d,
  nth j (set_nth l i v) d = if (j =? i) && (j <? length l) then v else nth j l d.
Proof.
  induction l as [|x l IH]; intros i j v d.
  - assert (E : (j <? length (@nil A)) = false) by (apply Nat.ltb_ge; simpl; lia).
    rewrite E, andb_false_r. destruct i; reflexivity.
  - destruct i as [|i], j as [|j]; try reflexivity.
    change (nth j (set_nth l i v) d =
            if (j =? i) && (j <? length l) then v else nth j l d).
    apply IH.
Qed.

Lemma nth_firstn' : forall n l i d,
  nth i (firstn n l) d = if i <? n then nth i l d else d.
Proof.
  induction n as [|n IH]; intros l i d.
  - simpl. destruct i; reflexivity.
  - destruct l as [|x l].
    + simpl. destruct i; destruct (_ <? _); reflexivity.
    + destruct i as [|i]; [reflexivity|].
      change (nth i (firstn n l) d = if i <? n then nth i l d else d).
      apply IH.
Qed.

Lemma nth_skipn' : forall n l i d, nth i (skipn n l) d = nth (n + i) l d.
Proof.
  induction n as [|n IH]; intros l i d; [reflexivity|].
  destruct l as [|x l].
  - simpl. destruct i; reflexivity.
  - simpl. apply IH.
Qed.

Lemma nth_repeat' (x : A) : forall n i d,
  nth i (repeat x n) d = if i <? n then x else d.
Proof.
  induction n as [|n IH]; intros i d.
  - simpl. destruct i; reflexivity.
  - destruct i as [|i]; [reflexivity|].
    change (nth i (repeat x n) d = if i <? n then x else d). apply IH.
Qed.

Lemma nth_app' l1 l2 i d :
  nth i (l1 ++ l2) d = if i <? length l1 then nth i l1 d else nth (i - length l1) l2 d.
Proof.
  destruct (Nat.ltb_spec i (length l1)) as [H|H].
  - apply app_nth1. exact H.
  - apply app_nth2. lia.
Qed.

Lemma copy_into_length : forall dst src, length (copy_into dst src) = length dst.
Proof.
  induction dst as [|x dst IH]; intros [|s src]; simpl; try reflexivity.
  f_equal. apply IH.
Qed.

Lemma nth_copy_into : forall dst src i d,
  nth i (copy_into dst src) d =
  if (i <? length src) && (i <? length dst) then nth i src d else nth i dst d.
Proof.
  induction dst as [|x dst IH]; intros src i d.
  - assert (E : (i <? length (@nil A)) = false) by (apply Nat.ltb_ge; simpl; lia).
    rewrite E, andb_false_r. destruct src; reflexivity.
  - destruct src as [|s src].
    + simpl copy_into. assert (E : (i <? length (@nil A)) = false) by (apply Nat.ltb_ge; simpl; lia).
      rewrite E. reflexivity.
    + destruct i as [|i]; [reflexivity|].
      change (nth i (copy_into dst src) d =
              if (i <? length src) && (i <? length dst) then nth i src d else nth i dst d).
      apply IH.
Qed.

Lemma skipn_cons_nth (d : A) : forall a e,
  a < length e -> skipn a e = nth a e d :: skipn (S a) e.
Proof.
  induction a as [|a IH]; intros [|x e] H; simpl in H; try lia.
  - reflexivity.
  - change (skipn a e = nth a e d :: skipn (S a) e). apply IH. lia.
Qed.

Lemma map_nth_seq (d : A) e : forall n a,
  a + n <= length e ->
  map (fun i => nth i e d) (seq a n) = firstn n (skipn a e).
Proof.
  induction n as [|n IH]; intros a H; [reflexivity|].
  rewrite (skipn_cons_nth d a e) by lia.
  simpl. f_equal. apply IH. lia.
Qed.

Lemma NoDup_app' (l1 l2 : list nat) :
  NoDup l1 -> NoDup l2 -> (forall x, In x l1 -> ~ In x l2) -> NoDup (l1 ++ l2).
Proof.
  intros H1 H2 H. induction H1 as [|x l1 Hx H1 IH]; simpl; [exact H2|].
  constructor.
  - rewrite in_app_iff. intros [Hi|Hi]; [exact (Hx Hi)|].
    apply (H x); [left; reflexivity | exact Hi].
  - apply IH. intros y Hy. apply H. right. exact Hy.
Qed.

End ListLemmas.

Section ClearRange.
Context {A : Type} (zero : A).

Lemma clear_range_length : forall (l : list A) lo hi,
  length (clear_range zero l lo hi) = length l.
Proof.
  induction l as [|x l IH]; intros lo hi; [reflexivity|].
  destruct lo as [|lo], hi as [|hi]; simpl; try reflexivity; f_equal; apply IH.
Qed.

Lemma nth_clear_range : forall (l : list A) lo hi i,
  nth i (clear_range zero l lo hi) zero =
  if (lo <=? i) && (i <? hi) then zero else nth i l zero.
Proof.
  induction l as [|x l IH]; intros lo hi i.
  - simpl. destruct i; destruct (_ && _); reflexivity.
  - destruct hi as [|hi].
    + assert (E : (i <? 0) = false) by (apply Nat.ltb_ge; lia).
      rewrite E, andb_false_r. destruct lo; reflexivity.
    + destruct lo as [|lo], i as [|i]; try reflexivity.
      * change (nth i (clear_range zero l 0 hi) zero =
                if (0 <=? i) && (i <? hi) then zero else nth i l zero).
        apply IH.
      * change (nth i (clear_range zero l lo hi) zero =
                if (lo <=? i) && (i <? hi) then zero else nth i l zero).
        apply IH.
Qed.

End ClearRange.

Ltac list_norm :=
  repeat first
    [ rewrite app_length | rewrite firstn_length | rewrite skipn_length
    | rewrite repeat_length | rewrite set_nth_length | rewrite clear_range_length
    | rewrite copy_into_length | rewrite seq_length | rewrite map_length
    | rewrite nth_app' | rewrite nth_firstn' | rewrite nth_skipn'
    | rewrite nth_repeat' | rewrite nth_set_nth | rewrite nth_clear_range
    | rewrite nth_copy_into ].

(* ------------------------------------------------------------------------------------ *)
(* the ring                                                                               *)

Ltac unr :=
  unfold wf, len, is_full, is_empty, max_len in *; unfold cap in *;
  cbn [head tail elems] in *.

Section RingProofs.
Context {A : Type} (zero : A).
Notation ring := (ring A).

Lemma abs_length (r : ring) : wf r -> length (abs r) = len r.
Proof.
  destruct r as [h t e]. unfold abs. unr. intros (Hc & Hh & Ht).
  list_norm. crush.
Qed.

Lemma abs_nth (r : ring) i d :
  wf r -> i < len r ->
  nth i (abs r) d = nth ((head r + i) mod cap r) (elems r) d.
Proof.
  destruct r as [h t e]. unfold abs. unr. intros (Hc & Hh & Ht) Hi.
  list_norm. crush.
Qed.

Lemma abs_nil (r : ring) : wf r -> len r = 0 -> abs r = [].
Proof.
  intros W L. apply length_zero_iff_nil. rewrite abs_length by exact W. exact L.
Qed.

Lemma abs_cons (r : ring) :
  wf r -> len r <> 0 ->
  exists q, abs r = nth (head r) (elems r) zero :: q.
Proof.
  intros W L. pose proof (abs_length r W) as HL.
  pose proof (abs_nth r 0 zero W ltac:(lia)) as HN.
  destruct (abs r) as [|x q]; simpl in HL; [lia|].
  exists q. f_equal. simpl in HN. rewrite HN.
  destruct r as [h t e]. unr. destruct W as (Hc & Hh & Ht).
  rewrite Nat.add_0_r. rewrite Nat.mod_small by exact Hh. reflexivity.
Qed.

Lemma len_empty_iff (r : ring) : wf r -> (len r = 0 <-> head r = tail r).
Proof.
  destruct r as [h t e]. unr. intros (Hc & Hh & Ht). crush.
Qed.

(* ---- dead slots and `clean` ---- *)

Definition dead (h t i : nat) : Prop :=
  (h <= t /\ (i < h \/ t <= i)) \/ (t < h /\ t <= i < h).

Lemma live_idx_dead (r : ring) i : live_idx r i = false <-> dead (head r) (tail r) i.
Proof.
  destruct r as [h t e]. unfold live_idx, dead. cbn [head tail elems].
  split; intros H; crush.
Qed.

Lemma clean_iff (r : ring) :
  clean zero r <->
  (forall i, i < cap r -> dead (head r) (tail r) i -> nth i (elems r) zero = zero).
Proof.
  unfold clean. split; intros H i Hi Hd; apply H; try exact Hi; apply live_idx_dead; exact Hd.
Qed.

(* ---- grow ---- *)

Lemma grow_cap (r : ring) : cap (grow zero r) = new_size (cap r).
Proof.
  destruct r as [h t e]. unfold grow. unr.
  pose proof (new_size_gt (length e)) as Hns.
  set (ns := new_size (length e)) in *. clearbody ns.
  bd_lt h t; list_norm; lia.
Qed.

Lemma grow_nth (r : ring) i :
  wf r ->
  nth i (elems (grow zero r)) zero =
  if i <? (if head r =? tail r then cap r else len r)
  then nth ((head r + i) mod cap r) (elems r) zero else zero.
Proof.
  destruct r as [h t e]. unfold grow. unr. intros (Hc & Hh & Ht).
  pose proof (new_size_gt (length e)) as Hns.
  set (ns := new_size (length e)) in *. clearbody ns.
  bd_lt h t; list_norm; crush.
Qed.

Lemma grow_head (r : ring) : head (grow zero r) = 0.
Proof. reflexivity. Qed.

Lemma grow_tail (r : ring) : tail (grow zero r) = len r.
Proof. reflexivity. Qed.

Lemma len_lt (r : ring) : wf r -> len r < cap r.
Proof.
  destruct r as [h t e]. unr. intros (Hc & Hh & Ht). crush.
Qed.

Lemma grow_len (r : ring) : len (grow zero r) = len r.
Proof.
  unfold len at 1. rewrite grow_head, grow_tail. simpl. apply Nat.sub_0_r.
Qed.

Lemma grow_wf (r : ring) : wf r -> wf (grow zero r).
Proof.
  intros W. pose proof (len_lt r W) as Hl. pose proof (new_size_gt (cap r)) as Hn.
  unfold wf. rewrite grow_cap, grow_head, grow_tail. lia.
Qed.

Lemma grow_abs (r : ring) : wf r -> abs (grow zero r) = abs r.
Proof.
  intros W. pose proof (grow_wf r W) as Wg. pose proof (grow_len r) as Lg.
  pose proof (len_lt r W) as Hl. pose proof (new_size_gt (cap r)) as Hn.
  apply nth_ext with (d := zero) (d' := zero).
  - rewrite !abs_length by assumption. exact Lg.
  - intros i Hi. rewrite abs_length in Hi by assumption. rewrite Lg in Hi.
    rewrite (abs_nth (grow zero r)) by (assumption || lia).
    rewrite (abs_nth r) by assumption.
    rewrite grow_head, grow_cap. simpl (0 + i).
    rewrite (Nat.mod_small i (new_size (cap r))) by lia.
    rewrite grow_nth by assumption.
    destruct (i <? _) eqn:E; [reflexivity|].
    apply Nat.ltb_ge in E. destruct (head r =? tail r); lia.
Qed.

Lemma grow_not_full (r : ring) : wf r -> is_full (grow zero r) = false.
Proof.
  intros W. pose proof (len_lt r W) as Hl. pose proof (new_size_gt (cap r)) as Hn.
  unfold is_full. rewrite grow_cap, grow_head, grow_tail.
  rewrite Nat.mod_small by lia. apply Nat.eqb_neq. lia.
Qed.

Lemma grow_clean (r : ring) : wf r -> clean zero r -> clean zero (grow zero r).
Proof.
  intros W C. rewrite clean_iff in *. intros i Hi D.
  rewrite grow_head, grow_tail in D. rewrite grow_nth by assumption.
  destruct r as [h t e]. unr. destruct W as (Hc & Hh & Ht). unfold dead in D.
  crush; apply C; unfold dead; lia.
Qed.

(* ---- push ---- *)

Definition push_nf (r : ring) (v : A) : ring :=
  mkRing (head r) ((tail r + 1) mod cap r) (set_nth (elems r) (tail r) v).

Lemma push_eq (r : ring) v :
  push zero r v = push_nf (if is_full r then grow zero r else r) v.
Proof. reflexivity. Qed.

Lemma push_nf_wf (r : ring) v : wf r -> wf (push_nf r v).
Proof.
  destruct r as [h t e]. unfold push_nf. unr. intros (Hc & Hh & Ht).
  rewrite set_nth_length. repeat split; try lia; apply Nat.mod_upper_bound; lia.
Qed.

Lemma push_nf_len (r : ring) v :
  wf r -> is_full r = false -> len (push_nf r v) = len r + 1.
Proof.
  destruct r as [h t e]. unfold push_nf. unr. intros (Hc & Hh & Ht) F.
  rewrite set_nth_length. crush.
Qed.

Lemma push_nf_abs (r : ring) v :
  wf r -> is_full r = false -> abs (push_nf r v) = abs r ++ [v].
Proof.
  intros W F. pose proof (push_nf_wf r v W) as W'. pose proof (push_nf_len r v W F) as L.
  apply nth_ext with (d := zero) (d' := zero).
  - rewrite app_length, !abs_length by assumption. simpl. exact L.
  - intros i Hi. rewrite abs_length in Hi by assumption.
    rewrite (abs_nth (push_nf r v)) by assumption.
    rewrite nth_app', abs_length by assumption.
    destruct (Nat.ltb_spec i (len r)) as [Hlt|Hge].
    + rewrite (abs_nth r) by assumption.
      destruct r as [h t e]. unfold push_nf in *. unr. destruct W as (Hc & Hh & Ht).
      list_norm. crush.
    + assert (Ei : i = len r) by lia. subst i. rewrite Nat.sub_diag. simpl nth at 2.
      destruct r as [h t e]. unfold push_nf in *. unr. destruct W as (Hc & Hh & Ht).
      list_norm. crush.
Qed.

Lemma push_nf_clean (r : ring) v :
  wf r -> is_full r = false -> clean zero r -> clean zero (push_nf r v).
Proof.
  intros W F C. rewrite clean_iff in *. intros i Hi D.
  destruct r as [h t e]. unfold push_nf in *. unr. destruct W as (Hc & Hh & Ht).
  unfold dead in D. rewrite set_nth_length in Hi. list_norm.
  crush; apply C; unfold dead; lia.
Qed.

Lemma push_spec (r : ring) v :
  wf r ->
  wf (push zero r v) /\ abs (push zero r v) = abs r ++ [v] /\
  (clean zero r -> clean zero (push zero r v)).
Proof.
  intros W. rewrite push_eq. destruct (is_full r) eqn:F.
  - pose proof (grow_wf r W) as Wg. pose proof (grow_not_full r W) as Fg.
    split; [apply push_nf_wf; exact Wg|]. split.
    + rewrite push_nf_abs by assumption. rewrite grow_abs by assumption. reflexivity.
    + intros C. apply push_nf_clean; try assumption. apply grow_clean; assumption.
  - split; [apply push_nf_wf; exact W|]. split.
    + apply push_nf_abs; assumption.
    + intros C. apply push_nf_clean; assumption.
Qed.

Lemma abs_ext (r : ring) (q : list A) :
  wf r -> length q = len r ->
  (forall i, i < len r -> nth ((head r + i) mod cap r) (elems r) zero = nth i q zero) ->
  abs r = q.
Proof.
  intros W L H. apply nth_ext with (d := zero) (d' := zero).
  - rewrite abs_length by exact W. symmetry. exact L.
  - intros i Hi. rewrite abs_length in Hi by exact W.
    rewrite abs_nth by assumption. apply H. exact Hi.
Qed.

(* ---- pop / peek ---- *)

Definition pop_ring (r : ring) : ring :=
  mkRing ((head r + 1) mod cap r) (tail r) (set_nth (elems r) (head r) zero).

Lemma pop_eq (r : ring) :
  pop zero r =
  if len r =? 0 then (r, None) else (pop_ring r, Some (nth (head r) (elems r) zero)).
Proof. reflexivity. Qed.

Lemma pop_ring_wf (r : ring) : wf r -> wf (pop_ring r).
Proof.
  destruct r as [h t e]. unfold pop_ring. unr. intros (Hc & Hh & Ht).
  rewrite set_nth_length. repeat split; try lia; apply Nat.mod_upper_bound; lia.
Qed.

Lemma pop_ring_len (r : ring) : wf r -> len r <> 0 -> len (pop_ring r) = len r - 1.
Proof.
  destruct r as [h t e]. unfold pop_ring. unr. intros (Hc & Hh & Ht) L.
  rewrite set_nth_length. crush.
Qed.

Lemma pop_ring_abs (r : ring) :
  wf r -> len r <> 0 -> abs r = nth (head r) (elems r) zero :: abs (pop_ring r).
Proof.
  intros W L. destruct (abs_cons r W L) as [q Hq].
  pose proof (abs_length r W) as AL. pose proof (pop_ring_wf r W) as W'.
  pose proof (pop_ring_len r W L) as L'.
  assert (Hn : forall i, i < len r - 1 ->
            nth i q zero = nth ((head r + S i) mod cap r) (elems r) zero).
  { intros i Hi. rewrite <- abs_nth by (assumption || lia). rewrite Hq. reflexivity. }
  rewrite Hq in AL. simpl in AL. rewrite Hq. f_equal. symmetry.
  apply abs_ext; [exact W' | lia |].
  intros i Hi. rewrite Hn by lia.
  destruct r as [h t e]. unfold pop_ring in *. unr. destruct W as (Hc & Hh & Ht).
  list_norm. crush.
Qed.

Lemma pop_ring_clean (r : ring) :
  wf r -> len r <> 0 -> clean zero r -> clean zero (pop_ring r).
Proof.
  intros W L C. rewrite clean_iff in *. intros i Hi D.
  destruct r as [h t e]. unfold pop_ring in *. unr. destruct W as (Hc & Hh & Ht).
  unfold dead in D. rewrite set_nth_length in Hi. list_norm.
  crush; apply C; unfold dead; lia.
Qed.

Lemma pop_spec (r : ring) :
  wf r ->
  wf (fst (pop zero r)) /\
  (abs (fst (pop zero r)), snd (pop zero r)) = q_pop (abs r) /\
  (clean zero r -> clean zero (fst (pop zero r))).
Proof.
  intros W. rewrite pop_eq. destruct (Nat.eqb_spec (len r) 0) as [L|L]; cbn [fst snd].
  - split; [exact W|]. split; [|intros C; exact C].
    rewrite (abs_nil r W L). reflexivity.
  - split; [apply pop_ring_wf; exact W|]. split.
    + rewrite (pop_ring_abs r W L). reflexivity.
    + apply pop_ring_clean; assumption.
Qed.

Lemma peek_spec (r : ring) : wf r -> peek zero r = q_peek (abs r).
Proof.
  intros W. unfold peek. destruct (Nat.eqb_spec (len r) 0) as [L|L].
  - rewrite (abs_nil r W L). reflexivity.
  - destruct (abs_cons r W L) as [q Hq]. rewrite Hq. reflexivity.
Qed.

(* ---- clear / discard ---- *)

Lemma clear_spec (r : ring) :
  wf r ->
  wf (clear zero r) /\ abs (clear zero r) = [] /\
  (clean zero r -> clean zero (clear zero r)).
Proof.
  intros W.
  assert (W' : wf (clear zero r)).
  { destruct r as [h t e]. unfold clear. unr. destruct W as (Hc & Hh & Ht).
    bd_le h t; list_norm; lia. }
  split; [exact W'|]. split.
  - apply abs_nil; [exact W' | reflexivity].
  - intros C. rewrite clean_iff in *. intros i Hi D. clear D.
    destruct r as [h t e]. unfold clear in *. unr. destruct W as (Hc & Hh & Ht).
    bd_le h t; rewrite ?clear_range_length in Hi; list_norm; crush; apply C; unfold dead; lia.
Qed.
